(* Proofs/LedgerInv.v — C08: the ledger invariant is preserved by every operation (every reachable state). *)
From Coq Require Import ZArith List Bool Lia.
From Verif Require Import Lib.Bytes Model.Ledger Proofs.LedgerBalance.
Import ListNotations.
Open Scope Z_scope.

(* clause 3 of the property, over the transactions PRESENT in the ledger: an output consumed by a transaction the
   wallet has sent is marked spent *)
Definition Sent (txs : list tx) : Prop :=
  forall t o, In t txs -> In o (t_outs t) -> spent_by_sent txs (t_txid t) (o_n o) = true -> o_spent o = true.

Definition Inv (s : ledger) : Prop := WF s /\ Sent (l_txs s).

(* ---------------------------------------------------------------- keys side *)
Lemma key_update_id b f txs k : k_id (key_update b f txs k) = k_id k.
Proof. unfold key_update. destruct (key_has_rows f txs (k_id k)); [reflexivity|]. destruct (key_listed b f k); reflexivity. Qed.
Lemma key_update_grp b f txs k : k_grp (key_update b f txs k) = k_grp k.
Proof. unfold key_update. destruct (key_has_rows f txs (k_id k)); [reflexivity|]. destruct (key_listed b f k); reflexivity. Qed.

Lemma map_id_update b f txs ks : map k_id (map (key_update b f txs) ks) = map k_id ks.
Proof. rewrite map_map. apply map_ext. intros. apply key_update_id. Qed.

Lemma key_in_grp_update b f txs ks k g : key_in_grp (map (key_update b f txs) ks) k g = key_in_grp ks k g.
Proof.
  unfold key_in_grp. induction ks as [|x l IH]; [reflexivity|].
  cbn [map existsb]. rewrite IH, key_update_id, key_update_grp. reflexivity.
Qed.

Lemma WF_balance_update r f s : WF s -> WF (balance_update r f s).
Proof.
  intros [ND W]. unfold WF, balance_update. cbn [l_keys l_txs]. split.
  - rewrite map_id_update. exact ND.
  - intros t o k Ht Ho Hk. rewrite key_in_grp_update. eapply W; eauto.
Qed.

Lemma key_in_grp_app ks x k g : key_in_grp ks k g = true -> key_in_grp (ks ++ [x]) k g = true.
Proof. unfold key_in_grp. rewrite existsb_app. intros ->. reflexivity. Qed.

Lemma has_key_in ks id : has_key ks id = false -> ~ In id (map k_id ks).
Proof.
  unfold has_key. intros H C. apply in_map_iff in C. destruct C as [k [E Hk]].
  assert (existsb (fun k0 => k_id k0 =? id) ks = true); [|congruence].
  apply existsb_exists. exists k. split; [exact Hk | apply Z.eqb_eq; exact E].
Qed.

(* ---------------------------------------------------------------- spent_by_sent only looks at (sent, inputs) *)
Definition sview (txs : list tx) := map (fun t => (t_sent t, t_ins t)) txs.

Lemma sbs_sview txs p n :
  spent_by_sent txs p n = existsb (fun v => fst v && consumed (snd v) p n) (sview txs).
Proof. unfold spent_by_sent, sview. induction txs as [|t r IH]; [reflexivity|]. cbn [map existsb fst snd]. rewrite IH. reflexivity. Qed.

Lemma sbs_ext a b p n : sview a = sview b -> spent_by_sent a p n = spent_by_sent b p n.
Proof. intros H. rewrite !sbs_sview, H. reflexivity. Qed.

Lemma sview_map F txs :
  (forall t, t_sent (F t) = t_sent t /\ t_ins (F t) = t_ins t) -> sview (map F txs) = sview txs.
Proof.
  intros H. unfold sview. rewrite map_map. apply map_ext. intros t. destruct (H t) as [-> ->]. reflexivity.
Qed.

Lemma sbs_sub txs p n : spent_by_sent txs p n = true -> spent_in_db txs p n = true.
Proof.
  unfold spent_by_sent, spent_in_db. rewrite !existsb_exists. intros [t [Ht H]].
  apply andb_true_iff in H. exists t. split; [exact Ht | apply H].
Qed.

Lemma sbs_app a b p n : spent_by_sent (a ++ b) p n = spent_by_sent a p n || spent_by_sent b p n.
Proof. unfold spent_by_sent. apply existsb_app. Qed.

Lemma sbs_elim txs p n :
  spent_by_sent txs p n = true -> exists t, In t txs /\ t_sent t = true /\ consumed (t_ins t) p n = true.
Proof.
  unfold spent_by_sent. rewrite existsb_exists. intros [t [Ht H]]. apply andb_true_iff in H. exists t. tauto.
Qed.
Lemma sbs_intro txs t p n :
  In t txs -> t_sent t = true -> consumed (t_ins t) p n = true -> spent_by_sent txs p n = true.
Proof.
  intros Ht Hs Hc. unfold spent_by_sent. apply existsb_exists. exists t. split; [exact Ht|]. rewrite Hs, Hc. reflexivity.
Qed.

(* ---------------------------------------------------------------- utxos_update *)
Lemma rescan_keys_ok ks g txs : keys_ok ks txs -> keys_ok ks (rescan_mark g txs).
Proof.
  intros W t' o k Ht Ho Hk. unfold rescan_mark in Ht. apply in_map_iff in Ht. destruct Ht as [t [<- Ht]].
  destruct (grp_eqb (t_grp t) g).
  - cbn [set_tx t_outs t_grp] in *. apply in_map_iff in Ho. destruct Ho as [o0 [<- Ho]]. cbn [o_key] in Hk.
    eapply W; eauto.
  - eapply W; eauto.
Qed.

Lemma rescan_sent g txs : Sent txs -> Sent (rescan_mark g txs).
Proof.
  intros S t' o Ht Ho H.
  rewrite (sbs_ext _ txs) in H.
  2:{ apply sview_map. intros t. destruct (grp_eqb (t_grp t) g); split; reflexivity. }
  unfold rescan_mark in Ht. apply in_map_iff in Ht. destruct Ht as [t [<- Ht]].
  destruct (grp_eqb (t_grp t) g).
  - cbn [set_tx t_outs] in Ho. apply in_map_iff in Ho. destruct Ho as [o0 [<- Ho]]. reflexivity.
  - eapply S; eauto.
Qed.

Definition txid_in_grp (txs : list tx) (txid : Z) (g : grp) : Prop :=
  forall t, In t txs -> t_txid t = txid -> t_grp t = g.

Lemma all_with_txid_spec txs txid P :
  all_with_txid txs txid P = true -> forall t, In t txs -> t_txid t = txid -> P t = true.
Proof.
  unfold all_with_txid. rewrite forallb_forall. intros H t Ht E. specialize (H t Ht).
  apply orb_true_iff in H. destruct H as [H|H]; [|exact H].
  apply negb_true_iff in H. apply Z.eqb_neq in H. contradiction.
Qed.

Lemma apply_putxo_cases g txs u t' :
  In t' (apply_putxo g txs u) ->
  (In t' txs) \/
  (exists t, In t txs /\ t_txid t = p_txid u /\ t_txid t' = t_txid t /\ t_grp t' = t_grp t /\
             t_sent t' = t_sent t /\ t_ins t' = t_ins t /\
             forall o, In o (t_outs t') -> In o (t_outs t) \/
                       (o_n o = p_n u /\ o_key o = Some (p_key u) /\ o_spent o = spent_in_db txs (p_txid u) (p_n u))) \/
  (t' = mkTx (p_txid u) g (p_conf u) false []
             [mkOut (p_n u) (p_value u) (Some (p_key u)) (spent_in_db txs (p_txid u) (p_n u))] []).
Proof.
  unfold apply_putxo. destruct (out_in_db txs (p_txid u) (p_n u)).
  - intros H. apply in_map_iff in H. destruct H as [t [<- Ht]].
    destruct (t_txid t =? p_txid u) eqn:E; [|left; exact Ht]. apply Z.eqb_eq in E.
    destruct (has_out t (p_n u)); [|left; exact Ht].
    right. left. exists t. repeat split; auto.
    intros o Ho. cbn [set_tx t_outs] in Ho. apply in_map_iff in Ho. destruct Ho as [o0 [<- Ho]].
    destruct (o_n o0 =? p_n u) eqn:F; [|left; exact Ho]. apply Z.eqb_eq in F. right. cbn. auto.
  - destruct (has_tx txs (p_txid u)).
    + intros H. apply in_map_iff in H. destruct H as [t [<- Ht]].
      destruct (t_txid t =? p_txid u) eqn:E; [|left; exact Ht]. apply Z.eqb_eq in E.
      right. left. exists t. repeat split; auto.
      intros o Ho. cbn [set_tx t_outs] in Ho. apply in_app_or in Ho. destruct Ho as [Ho|[<-|[]]]; [left; exact Ho|].
      right. cbn. auto.
    + intros H. apply in_app_or in H. destruct H as [H|[<-|[]]]; [left; exact H|]. right. right. reflexivity.
Qed.

Lemma apply_putxo_sview g txs u p n :
  spent_by_sent (apply_putxo g txs u) p n = spent_by_sent txs p n.
Proof.
  unfold apply_putxo. destruct (out_in_db txs (p_txid u) (p_n u)).
  - apply sbs_ext. apply sview_map. intros t. destruct (t_txid t =? p_txid u); [|split; reflexivity].
    destruct (has_out t (p_n u)); split; reflexivity.
  - destruct (has_tx txs (p_txid u)).
    + apply sbs_ext. apply sview_map. intros t. destruct (t_txid t =? p_txid u); split; reflexivity.
    + rewrite sbs_app. unfold spent_by_sent at 2. cbn. rewrite orb_false_r. reflexivity.
Qed.

Lemma apply_putxo_keys_ok ks g txs u :
  keys_ok ks txs -> key_in_grp ks (p_key u) g = true -> txid_in_grp txs (p_txid u) g ->
  keys_ok ks (apply_putxo g txs u).
Proof.
  intros W Hk Hg t' o k Ht Ho Ek.
  destruct (apply_putxo_cases _ _ _ _ Ht) as [H|[[t [Ht0 [E [_ [Eg [_ [_ Houts]]]]]]]| ->]].
  - eapply W; eauto.
  - rewrite Eg. destruct (Houts o Ho) as [Hold|[_ [Hkey _]]].
    + eapply W; eauto.
    + rewrite Hkey in Ek. inversion Ek; subst. rewrite (Hg t Ht0 E). exact Hk.
  - cbn [t_outs] in Ho. destruct Ho as [<-|[]]. cbn in Ek. inversion Ek; subst. exact Hk.
Qed.

Lemma apply_putxo_txid_in_grp g txs u txid :
  txid_in_grp txs txid g -> txid_in_grp (apply_putxo g txs u) txid g.
Proof.
  intros H t' Ht E.
  destruct (apply_putxo_cases _ _ _ _ Ht) as [H0|[[t [Ht0 [_ [Et [Eg _]]]]]| ->]].
  - apply H; auto.
  - rewrite Eg. apply H; auto. congruence.
  - reflexivity.
Qed.

Lemma apply_putxo_sent g txs u : Sent txs -> Sent (apply_putxo g txs u).
Proof.
  intros S t' o Ht Ho H. rewrite apply_putxo_sview in H.
  destruct (apply_putxo_cases _ _ _ _ Ht) as [H0|[[t [Ht0 [E [Et [_ [_ [_ Houts]]]]]]]| ->]].
  - eapply S; eauto.
  - destruct (Houts o Ho) as [Hold|[En [_ Hsp]]].
    + eapply S; eauto. rewrite <- Et. exact H.
    + rewrite Hsp. apply sbs_sub. rewrite <- En, <- E, <- Et. exact H.
  - cbn [t_outs] in Ho. destruct Ho as [<-|[]]. cbn [o_spent]. apply sbs_sub. exact H.
Qed.

Lemma fold_putxo_inv ks g us : forall txs,
  keys_ok ks txs -> Sent txs ->
  (forall u, In u us -> key_in_grp ks (p_key u) g = true /\ txid_in_grp txs (p_txid u) g) ->
  keys_ok ks (fold_left (apply_putxo g) us txs) /\ Sent (fold_left (apply_putxo g) us txs).
Proof.
  induction us as [|u us IH]; intros txs W S H; [split; assumption|].
  cbn [fold_left]. apply IH.
  - destruct (H u (or_introl eq_refl)). apply apply_putxo_keys_ok; assumption.
  - apply apply_putxo_sent. exact S.
  - intros v Hv. destruct (H v (or_intror Hv)) as [A B]. split; [exact A|].
    apply apply_putxo_txid_in_grp. exact B.
Qed.

Lemma rescan_txid_in_grp g' txs txid g : txid_in_grp txs txid g -> txid_in_grp (rescan_mark g' txs) txid g.
Proof.
  intros H t' Ht E. unfold rescan_mark in Ht. apply in_map_iff in Ht. destruct Ht as [t [<- Ht]].
  destruct (grp_eqb (t_grp t) g'); cbn [set_tx t_grp t_txid] in *; apply H; auto.
Qed.

Lemma inv_utxos_update r rescan g kf us s :
  Inv s -> op_ok s (UtxosUpdate rescan g kf us) = true -> Inv (utxos_update r rescan g kf us s).
Proof.
  intros [[ND W] S] G. unfold utxos_update.
  cbn [op_ok] in G. rewrite forallb_forall in G.
  assert (Hus : forall u, In u us -> key_in_grp (l_keys s) (p_key u) g = true /\ txid_in_grp (l_txs s) (p_txid u) g).
  { intros u Hu. specialize (G u Hu). apply andb_true_iff in G. destruct G as [A B]. split; [exact A|].
    intros t Ht E. apply grp_eqb_eq. eapply (all_with_txid_spec _ _ _ B); eauto. }
  set (txs0 := if rescan && negb (is_some kf) then rescan_mark g (l_txs s) else l_txs s).
  assert (H0 : keys_ok (l_keys s) txs0 /\ Sent txs0 /\
               forall u, In u us -> key_in_grp (l_keys s) (p_key u) g = true /\ txid_in_grp txs0 (p_txid u) g).
  { unfold txs0. destruct (rescan && negb (is_some kf)).
    - split; [apply rescan_keys_ok; exact W|]. split; [apply rescan_sent; exact S|].
      intros u Hu. destruct (Hus u Hu). split; [assumption|]. apply rescan_txid_in_grp. assumption.
    - auto. }
  destruct H0 as [W0 [S0 H0]].
  destruct (fold_putxo_inv (l_keys s) g us txs0 W0 S0 H0) as [W1 S1].
  split.
  - apply WF_balance_update. split; assumption.
  - exact S1.
Qed.

(* ---------------------------------------------------------------- store / send *)
Lemma fold_store_out_cases douts : forall outs o,
  In o (fold_left store_out douts outs) ->
  In o outs \/ exists to, In to douts /\ o_n o = o_n (fst to) /\ (o_key o = o_key (fst to) \/ In o outs -> True).
Proof.
  induction douts as [|to douts IH]; intros outs o H; [left; exact H|].
  cbn [fold_left] in H. destruct (IH _ _ H) as [H1|[to' [A [B C]]]].
  - unfold store_out in H1.
    destruct (existsb (fun x => o_n x =? o_n (fst to)) outs).
    + destruct (o_key (fst to)) as [k|]; [|left; exact H1].
      apply in_map_iff in H1. destruct H1 as [x [<- Hx]].
      destruct (o_n x =? o_n (fst to)) eqn:E; [|left; exact Hx]. apply Z.eqb_eq in E.
      right. exists to. split; [left; reflexivity|]. split; [exact E | auto].
    + apply in_app_or in H1. destruct H1 as [H1|[<-|[]]]; [left; exact H1|].
      right. exists to. split; [left; reflexivity|]. split; [reflexivity | auto].
  - right. exists to'. split; [right; exact A|]. split; [exact B | auto].
Qed.

(* the key of an output row after store_out comes from the old row or from the object *)
Lemma fold_store_out_keys douts : forall outs o k,
  In o (fold_left store_out douts outs) -> o_key o = Some k ->
  (exists o0, In o0 outs /\ o_key o0 = Some k) \/ (exists to, In to douts /\ o_key (fst to) = Some k).
Proof.
  induction douts as [|to douts IH]; intros outs o k H Hk; [left; exists o; auto|].
  cbn [fold_left] in H. destruct (IH _ _ _ H Hk) as [[o0 [H1 K]]|[to' [A B]]].
  - unfold store_out in H1.
    destruct (existsb (fun x => o_n x =? o_n (fst to)) outs).
    + destruct (o_key (fst to)) as [k'|] eqn:Ek; [|left; exists o0; auto].
      apply in_map_iff in H1. destruct H1 as [x [<- Hx]].
      destruct (o_n x =? o_n (fst to)); [|left; exists x; auto].
      cbn [o_key] in K. right. exists to. split; [left; reflexivity|]. congruence.
    + apply in_app_or in H1. destruct H1 as [H1|[<-|[]]]; [left; exists o0; auto|].
      cbn [o_key] in K. right. exists to. split; [left; reflexivity | exact K].
  - right. exists to'. split; [right; exact A | exact B].
Qed.

Lemma store_tx_cases sent d txs t' :
  In t' (store_tx sent d txs) ->
  (In t' txs /\ t_txid t' <> d_txid d) \/
  (exists t, In t txs /\ t_txid t = d_txid d /\ t_txid t' = d_txid d /\ t_grp t' = t_grp t /\
             t_sent t' = (t_sent t || sent) /\ t_ins t' = fold_left store_in (d_ins d) (t_ins t) /\
             t_outs t' = fold_left store_out (d_outs d) (t_outs t)) \/
  (has_tx txs (d_txid d) = false /\ t_txid t' = d_txid d /\ t_grp t' = d_grp d /\ t_sent t' = sent /\
   t_outs t' = fold_left store_out (d_outs d) []).
Proof.
  unfold store_tx. destruct (has_tx txs (d_txid d)) eqn:Hh.
  - intros H. apply in_map_iff in H. destruct H as [t [<- Ht]].
    destruct (t_txid t =? d_txid d) eqn:E.
    + apply Z.eqb_eq in E. right. left. exists t. cbn. repeat split; auto.
    + apply Z.eqb_neq in E. left. auto.
  - intros H. apply in_app_or in H. destruct H as [H|[<-|[]]].
    + left. split; [exact H|]. intros E. unfold has_tx in Hh.
      assert (existsb (fun t => t_txid t =? d_txid d) txs = true); [|congruence].
      apply existsb_exists. exists t'. split; [exact H | apply Z.eqb_eq; exact E].
    + right. right. cbn. repeat split; auto.
Qed.

Lemma mark_spent_sview ins txs p n : spent_by_sent (mark_spent ins txs) p n = spent_by_sent txs p n.
Proof. apply sbs_ext. apply sview_map. intros t. split; reflexivity. Qed.

Lemma mark_spent_keys_ok ks ins txs : keys_ok ks txs -> keys_ok ks (mark_spent ins txs).
Proof.
  intros W t' o k Ht Ho Hk. unfold mark_spent in Ht. apply in_map_iff in Ht. destruct Ht as [t [<- Ht]].
  cbn [set_tx t_outs t_grp] in *. apply in_map_iff in Ho. destruct Ho as [o0 [<- Ho]].
  destruct (consumed ins (t_txid t) (o_n o0)); cbn [o_key] in Hk; eapply W; eauto.
Qed.

Lemma store_tx_keys_ok sent d s :
  keys_ok (l_keys s) (l_txs s) -> store_keys_ok s d = true ->
  keys_ok (l_keys s) (store_tx sent d (l_txs s)).
Proof.
  intros W G t' o k Ht Ho Hk. unfold store_keys_ok in G. rewrite forallb_forall in G.
  destruct (store_tx_cases _ _ _ _ Ht) as [[H _]|[[t [Ht0 [E [_ [Eg [_ [_ Eo]]]]]]]|[Hh [_ [Eg [_ Eo]]]]]].
  - eapply W; eauto.
  - rewrite Eg. rewrite Eo in Ho.
    destruct (fold_store_out_keys _ _ _ _ Ho Hk) as [[o0 [A B]]|[to [A B]]].
    + eapply W; eauto.
    + specialize (G to A). rewrite B in G. apply andb_true_iff in G. destruct G as [G _].
      apply (all_with_txid_spec _ _ _ G t Ht0 E).
  - rewrite Eg. rewrite Eo in Ho.
    destruct (fold_store_out_keys _ _ _ _ Ho Hk) as [[o0 [[] _]]|[to [A B]]].
    specialize (G to A). rewrite B in G. apply andb_true_iff in G. destruct G as [_ G].
    rewrite Hh in G. exact G.
Qed.

(* after store_tx: an output that a sent transaction consumes is spent, or is about to be marked by send() *)
Lemma store_tx_sent_pre sent d s :
  Sent (l_txs s) -> store_respends s (Store sent d) = false -> store_ins_ok sent s d = true ->
  forall t' o, In t' (store_tx sent d (l_txs s)) -> In o (t_outs t') ->
    spent_by_sent (store_tx sent d (l_txs s)) (t_txid t') (o_n o) = true ->
    o_spent o = true \/ (sent = true /\ consumed (d_ins d) (t_txid t') (o_n o) = true).
Proof.
  intros S G2 G3 t' o Ht Ho H.
  (* (ii) who can consume after the store *)
  assert (Hii : spent_by_sent (l_txs s) (t_txid t') (o_n o) = true \/
                (sent = true /\ consumed (d_ins d) (t_txid t') (o_n o) = true)).
  { destruct (sbs_elim _ _ _ H) as [x [Hx [Hs Hc]]].
    destruct (store_tx_cases _ _ _ _ Hx) as [[Hx0 _]|[[t [Ht0 [E [Ex [_ [Es [Ei _]]]]]]]|[_ [Ex [_ [Es _]]]]]].
    - left. eapply sbs_intro; eauto.
    - unfold store_ins_ok in G3. destruct sent.
      + right. split; [reflexivity|].
        pose proof (all_with_txid_spec _ _ _ G3 x Hx Ex) as A. cbn beta in A. rewrite forallb_forall in A.
        unfold consumed in Hc. apply existsb_exists in Hc. destruct Hc as [i [Hi Hc]].
        apply andb_true_iff in Hc. destruct Hc as [C1 C2]. apply Z.eqb_eq in C1. apply Z.eqb_eq in C2.
        specialize (A i Hi). rewrite C1, C2 in A. exact A.
      + left. rewrite orb_false_r in Es. rewrite Es in Hs.
        pose proof (all_with_txid_spec _ _ _ G3 t Ht0 E) as A. cbn beta in A. rewrite Hs in A. cbn [negb orb] in A.
        rewrite forallb_forall in A.
        unfold consumed in Hc. apply existsb_exists in Hc. destruct Hc as [i [Hi Hc]].
        apply andb_true_iff in Hc. destruct Hc as [C1 C2]. apply Z.eqb_eq in C1. apply Z.eqb_eq in C2.
        rewrite Ei in Hi. specialize (A i Hi). rewrite C1, C2 in A.
        eapply sbs_intro; eauto.
    - destruct sent; [|congruence]. right. split; [reflexivity|].
      unfold store_ins_ok in G3.
      pose proof (all_with_txid_spec _ _ _ G3 x Hx Ex) as A. cbn beta in A. rewrite forallb_forall in A.
      unfold consumed in Hc. apply existsb_exists in Hc. destruct Hc as [i [Hi Hc]].
      apply andb_true_iff in Hc. destruct Hc as [C1 C2]. apply Z.eqb_eq in C1. apply Z.eqb_eq in C2.
      specialize (A i Hi). rewrite C1, C2 in A. exact A. }
  destruct Hii as [Hold|Hnew]; [|right; exact Hnew]. left.
  (* guard: no sent transaction consumes an output number of the object *)
  assert (Hfresh : forall to, In to (d_outs d) -> spent_by_sent (l_txs s) (d_txid d) (o_n (fst to)) = false).
  { intros to Hto. cbn [store_respends] in G2.
    destruct (spent_by_sent (l_txs s) (d_txid d) (o_n (fst to))) eqn:E; [|reflexivity].
    assert (existsb (fun to => spent_by_sent (l_txs s) (d_txid d) (o_n (fst to))) (d_outs d) = true); [|congruence].
    apply existsb_exists. exists to. auto. }
  destruct (store_tx_cases _ _ _ _ Ht) as [[H0 _]|[[t [Ht0 [E [Ex [_ [_ [_ Eo]]]]]]]|[_ [Ex [_ [_ Eo]]]]]].
  - eapply S; eauto.
  - rewrite Eo in Ho. destruct (fold_store_out_cases _ _ _ Ho) as [Hin|[to [A [B _]]]].
    + eapply S; eauto. rewrite E, <- Ex. exact Hold.
    + rewrite Ex, B, (Hfresh to A) in Hold. discriminate.
  - rewrite Eo in Ho. destruct (fold_store_out_cases _ _ _ Ho) as [[]|[to [A [B _]]]].
    rewrite Ex, B, (Hfresh to A) in Hold. discriminate.
Qed.

Lemma mark_spent_sent ins txs :
  (forall t o, In t txs -> In o (t_outs t) -> spent_by_sent txs (t_txid t) (o_n o) = true ->
               o_spent o = true \/ consumed ins (t_txid t) (o_n o) = true) ->
  Sent (mark_spent ins txs).
Proof.
  intros Q t' o Ht Ho H. rewrite mark_spent_sview in H.
  unfold mark_spent in Ht. apply in_map_iff in Ht. destruct Ht as [t [<- Ht]].
  cbn [set_tx t_outs t_txid] in *. apply in_map_iff in Ho. destruct Ho as [o0 [<- Ho]].
  destruct (consumed ins (t_txid t) (o_n o0)) eqn:E; [reflexivity|].
  destruct (Q t o0 Ht Ho H) as [A|A]; [exact A | congruence].
Qed.

Lemma inv_store r sent d s :
  Inv s -> op_ok s (Store sent d) = true -> Inv (store_send r sent d s).
Proof.
  intros [[ND W] S] G. cbn [op_ok] in G.
  apply andb_true_iff in G. destruct G as [G G3]. apply andb_true_iff in G. destruct G as [G1 G2].
  apply negb_true_iff in G2.
  pose proof (store_tx_keys_ok sent d s W G1) as W1.
  pose proof (store_tx_sent_pre sent d s S G2 G3) as Q.
  unfold store_send. destruct sent.
  - split.
    + apply WF_balance_update. split; [exact ND|]. cbn [with_txs l_keys l_txs]. apply mark_spent_keys_ok. exact W1.
    + cbn [balance_update with_txs l_txs]. apply mark_spent_sent. intros t o Ht Ho H.
      destruct (Q t o Ht Ho H) as [A|[_ A]]; auto.
  - split; [split; [exact ND | exact W1]|].
    cbn [with_txs l_txs]. intros t o Ht Ho H. destruct (Q t o Ht Ho H) as [A|[A _]]; [exact A | discriminate].
Qed.

(* ---------------------------------------------------------------- delete (with the "other spender" test) *)
Lemma inv_delete txid s : Inv s -> Inv (delete_tx true txid s).
Proof.
  intros [[ND W] S]. unfold delete_tx. destruct (find_tx (l_txs s) txid) as [d|]; [|split; [split|]; assumption].
  set (rest := filter (fun t => negb (t_txid t =? txid)) (l_txs s)).
  assert (Hrest : forall t, In t rest -> In t (l_txs s)) by (intros t Ht; apply filter_In in Ht; tauto).
  split; [split; [exact ND|]|]; cbn [with_txs l_keys l_txs].
  - intros t' o k Ht Ho Hk. unfold unmark in Ht. apply in_map_iff in Ht. destruct Ht as [t [<- Ht]].
    cbn [set_tx t_outs t_grp] in *. apply in_map_iff in Ho. destruct Ho as [o0 [<- Ho]].
    destruct (o_spent o0 && consumed (t_ins d) (t_txid t) (o_n o0) &&
              negb (true && spent_in_db rest (t_txid t) (o_n o0))); cbn [o_key] in Hk; eapply W; eauto.
  - intros t' o Ht Ho H.
    rewrite (sbs_ext _ rest) in H by (apply sview_map; intros; split; reflexivity).
    unfold unmark in Ht. apply in_map_iff in Ht. destruct Ht as [t [<- Ht]].
    cbn [set_tx t_outs t_txid] in *. apply in_map_iff in Ho. destruct Ho as [o0 [<- Ho]].
    assert (Hdb : spent_in_db rest (t_txid t) (o_n o0) = true).
    { apply sbs_sub. destruct (o_spent o0 && consumed (t_ins d) (t_txid t) (o_n o0) &&
                              negb (true && spent_in_db rest (t_txid t) (o_n o0))); exact H. }
    rewrite Hdb. cbn [andb negb]. rewrite andb_false_r.
    eapply S; eauto.
    destruct (sbs_elim _ _ _ H) as [x [Hx [Hs Hc]]].
    assert (o_n (if o_spent o0 && consumed (t_ins d) (t_txid t) (o_n o0) && negb (true && true)
                 then mkOut (o_n o0) (o_value o0) (o_key o0) false else o0) = o_n o0) as En.
    { cbn [andb negb]. rewrite andb_false_r. reflexivity. }
    rewrite Hdb, En in Hc. eapply sbs_intro; eauto.
Qed.

(* ---------------------------------------------------------------- every operation *)
Lemma NoDup_app_single (l : list Z) x : NoDup l -> ~ In x l -> NoDup (l ++ [x]).
Proof.
  induction l as [|a l IH]; intros ND H; cbn [app].
  - constructor; [intros [] | constructor].
  - inversion ND as [|b m Ha ND']; subst. constructor.
    + intros C. apply in_app_or in C. destruct C as [C|[C|[]]]; [contradiction|]. subst. apply H. left. reflexivity.
    + apply IH; [exact ND'|]. intros C. apply H. right. exact C.
Qed.

Theorem inv_init_proof d b : Inv (init d b).
Proof.
  split; [split|].
  - constructor.
  - intros t o k [].
  - intros t o [].
Qed.

Theorem inv_step_proof s o : Inv s -> op_ok s o = true -> Inv (fst (step s o)).
Proof.
  intros I G. destruct o; cbn [step step_gen fst].
  - destruct I as [[ND W] S]. cbn [op_ok] in G. apply negb_true_iff in G.
    split; [split|]; cbn [l_keys l_txs].
    + rewrite map_app. cbn [map]. apply NoDup_app_single; [exact ND | apply has_key_in; exact G].
    + intros t o k Ht Ho Hk. apply key_in_grp_app. eapply W; eauto.
    + exact S.
  - apply inv_utxos_update; assumption.
  - exact I.
  - apply inv_store; assumption.
  - apply inv_delete; assumption.
  - destruct I as [[ND W] S]. split; [split|]; assumption.
  - destruct I as [W S]. split; [apply WF_balance_update; exact W | exact S].
  - exact I.
  - destruct I as [W S]. split; [apply WF_balance_update; exact W | exact S].
  - exact I.
Qed.

(* guarded run: every operation meets its precondition in the state it is applied to *)
Fixpoint ops_ok (s : ledger) (ops : list op) : bool :=
  match ops with
  | [] => true
  | o :: r => op_ok s o && ops_ok (fst (step s o)) r
  end.

Theorem inv_run_proof ops : forall s, Inv s -> ops_ok s ops = true -> Inv (run s ops).
Proof.
  induction ops as [|o r IH]; intros s I G; [exact I|].
  cbn [ops_ok] in G. apply andb_true_iff in G. destruct G as [G1 G2].
  unfold run, run_gen. cbn [fold_left]. apply IH; [apply inv_step_proof; assumption | exact G2].
Qed.

(* ---------------------------------------------------------------- consequences *)
Theorem select_never_spent_proof s g minconf sel txid n :
  Inv s -> snd (step s (Select g minconf sel)) = OSel true -> In (txid, n) sel ->
  spent_by_sent (l_txs s) txid n = false.
Proof.
  intros [_ S] H Hin. cbn [step step_gen snd] in H. inversion H as [Hf]. rewrite forallb_forall in Hf.
  specialize (Hf _ Hin). cbn [fst snd] in Hf. unfold spendable in Hf. apply existsb_exists in Hf.
  destruct Hf as [u [Hu Hm]]. apply andb_true_iff in Hm. destruct Hm as [M1 M2].
  apply Z.eqb_eq in M1. apply Z.eqb_eq in M2. subst.
  unfold utxos in Hu. apply in_flat_map in Hu. destruct Hu as [t [Ht Hu]].
  unfold tx_utxos in Hu. destruct (grp_eqb (t_grp t) g && (minconf <=? t_conf t)); [|destruct Hu].
  apply in_flat_map in Hu. destruct Hu as [o [Ho Hu]].
  destruct (o_key o) as [k|]; [|destruct Hu].
  destruct (negb (o_spent o) && has_key (l_keys s) k) eqn:E; [|destruct Hu].
  destruct Hu as [<-|[]]. cbn [u_txid u_n].
  apply andb_true_iff in E. destruct E as [E _]. apply negb_true_iff in E.
  destruct (spent_by_sent (l_txs s) (t_txid t) (o_n o)) eqn:F; [|reflexivity].
  rewrite (S t o Ht Ho F) in E. discriminate.
Qed.

Theorem utxos_never_spent_proof s u :
  Inv s -> In u (utxos s (l_default s) 0) -> spent_by_sent (l_txs s) (u_txid u) (u_n u) = false.
Proof.
  intros I Hu.
  apply (select_never_spent_proof s (l_default s) 0 [(u_txid u, u_n u)] (u_txid u) (u_n u) I); [|left; reflexivity].
  cbn [step step_gen snd forallb fst]. f_equal. rewrite andb_true_r. unfold spendable.
  apply existsb_exists. exists u. split; [exact Hu|]. rewrite !Z.eqb_refl. reflexivity.
Qed.

(* the same for the unspent list of every (network, account) and every confirmation threshold *)
Theorem utxos_never_spent_any s g mc u :
  Inv s -> In u (utxos s g mc) -> spent_by_sent (l_txs s) (u_txid u) (u_n u) = false.
Proof.
  intros I Hu.
  apply (select_never_spent_proof s g mc [(u_txid u, u_n u)] (u_txid u) (u_n u) I); [|left; reflexivity].
  cbn [step step_gen snd forallb fst]. f_equal. rewrite andb_true_r. unfold spendable.
  apply existsb_exists. exists u. split; [exact Hu|]. rewrite !Z.eqb_refl. reflexivity.
Qed.

Theorem reload_equal_proof s :
  persisted (fst (step s Reopen)) = persisted s /\
  l_default (fst (step s Reopen)) = l_default s /\
  (forall g mc, utxos (fst (step s Reopen)) g mc = utxos s g mc) /\
  snd (step (fst (step s Reopen)) Utxos) = snd (step s Utxos).
Proof. repeat split. Qed.

(* The property, for every history whose operations meet their preconditions: what balance() reports equals the
   sum of the unspent outputs and the sum of the per-key balances (for every network / account), and no output
   listed as unspent is consumed by a sent transaction the ledger holds. *)
Theorem ledger_consistent_proof d b ops g :
  ops_ok (init d b) ops = true ->
  let s' := fst (step (run (init d b) ops) Balance) in
  reported s' g = usum s' g /\ ksum s' g = usum s' g /\
  (forall u, In u (utxos s' (l_default s') 0) -> spent_by_sent (l_txs s') (u_txid u) (u_n u) = false).
Proof.
  intros G s'.
  pose proof (inv_run_proof ops (init d b) (inv_init_proof d b) G) as I.
  destruct (balance_consistent (run (init d b) ops) g (proj1 I)) as [A B].
  split; [exact A|]. split; [exact B|].
  intros u Hu. apply utxos_never_spent_proof; [|exact Hu].
  unfold s'. apply inv_step_proof; [exact I | reflexivity].
Qed.

(* The same for every (network, account) group of the wallet, not only the default one: after any guarded history
   and a balance() call, for every group g the reported balance, the sum of utxos(g) and the sum of the balances
   of the keys of g agree, and no output listed for g (at any confirmation threshold) is consumed by a sent
   transaction the ledger holds. *)
Theorem ledger_consistent_groups_proof d b ops :
  ops_ok (init d b) ops = true ->
  let s' := fst (step (run (init d b) ops) Balance) in
  forall g,
  reported s' g = usum s' g /\ ksum s' g = usum s' g /\
  (forall mc u, In u (utxos s' g mc) -> spent_by_sent (l_txs s') (u_txid u) (u_n u) = false).
Proof.
  intros G s' g.
  pose proof (inv_run_proof ops (init d b) (inv_init_proof d b) G) as I.
  destruct (balance_consistent (run (init d b) ops) g (proj1 I)) as [A B].
  split; [exact A|]. split; [exact B|].
  intros mc u Hu. apply (utxos_never_spent_any s' g mc); [|exact Hu].
  unfold s'. apply inv_step_proof; [exact I | reflexivity].
Qed.
