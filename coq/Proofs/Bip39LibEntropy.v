(* Proofs/Bip39LibEntropy.v — Mnemonic.to_entropy recovers the entropy of every BIP39 sentence: the leading-zero
   analysis of the three change_base calls (2048->256, 256->2, 2->256) and of the -len // 33 checksum width. *)
From Coq Require Import ZArith List Bool Lia.
From Coq.Strings Require Import Byte.
From Verif Require Import Lib.Bytes Lib.BitRegroup Model.ChangeBase Model.Bip39.
From Verif Require Import Proofs.ChangeBase Proofs.Bip39Spec Proofs.Bip39Lib.
Import ListNotations.
Open Scope Z_scope.

(* ---------------- the arithmetic core (lengths only) ----------------
   k = checksum bits (entropy 4k bytes, 3k words); b, nb = significant bits / bytes of the 33k-bit number;
   a = 1 iff the first word index is 0; lenC, clzC = length / leading zero bytes of the first conversion's result;
   zD = zeros re-added by the second; lenbin = length of binresult.  *)
Lemma arith_bin_len k b nb a lenC clzC zD lenbin :
  1 <= k <= 8 -> 0 <= b <= 33 * k -> 0 <= nb ->
  ((b = 0 /\ nb = 0) \/ (0 < b /\ 8 * nb - 8 < b <= 8 * nb)) ->
  (a = 0 \/ (a = 1 /\ b <= 33 * k - 11)) ->
  lenC = Z.max (4 * k) (a + nb) -> clzC = lenC - nb ->
  zD = (if clzC =? 1 then 1 else 8 * clzC) ->
  lenbin = Z.max (4 * lenC) (zD + b) ->
  33 * (k - 1) < lenbin <= 33 * k.
Proof.
  intros Hk Hb Hnb Hbn Ha HlC HcC HzD Hlb.
  destruct (clzC =? 1) eqn:E; [apply Z.eqb_eq in E | apply Z.eqb_neq in E]; lia.
Qed.

Lemma arith_ent_len k b nb a lenC clzC zD lenbin lenE bE nbE clzE zE j :
  1 <= k <= 8 -> 0 <= b <= 33 * k -> 0 <= nb ->
  ((b = 0 /\ nb = 0) \/ (0 < b /\ 8 * nb - 8 < b <= 8 * nb)) ->
  (a = 0 \/ (a = 1 /\ b <= 33 * k - 11)) ->
  lenC = Z.max (4 * k) (a + nb) -> clzC = lenC - nb ->
  zD = (if clzC =? 1 then 1 else 8 * clzC) ->
  lenbin = Z.max (4 * lenC) (zD + b) ->
  lenE = lenbin - k ->
  ((bE = 0 /\ nbE = 0 /\ b <= k) \/ (0 < bE /\ b = bE + k /\ 8 * nbE - 8 < bE <= 8 * nbE)) ->
  clzE = lenE - bE ->
  zE = (if clzE =? 1 then 1 else clzE / 8) ->
  0 <= j <= zE ->
  (0 <= 4 * k - nbE < j -> lenE <> 32 * k) ->
  0 <= nbE <= 4 * k ->
  j + nbE <= 4 * k.
Proof.
  intros Hk Hb Hnb Hbn Ha HlC HcC HzD Hlb HlE HbE HcE HzE Hj Hhit HnE.
  pose proof (arith_bin_len k b nb a lenC clzC zD lenbin Hk Hb Hnb Hbn Ha HlC HcC HzD Hlb) as Hbin.
  destruct (clzE =? 1) eqn:E2; [apply Z.eqb_eq in E2 | apply Z.eqb_neq in E2].
  - destruct (clzC =? 1) eqn:E; [apply Z.eqb_eq in E | apply Z.eqb_neq in E]; lia.
  - assert (Hq : 8 * (clzE / 8) <= clzE) by (apply Z.mul_div_le; lia). lia.
Qed.

(* ---------------- minimal digits of an arbitrary n >= 0 in base 2^w ---------------- *)
Lemma digits_pow2_spec w n : (0 < w)%nat -> 0 <= n ->
  in_base (2 ^ Z.of_nat w) (digits (2 ^ Z.of_nat w) n) /\
  val (2 ^ Z.of_nat w) (digits (2 ^ Z.of_nat w) n) = n /\
  strip (digits (2 ^ Z.of_nat w) n) = digits (2 ^ Z.of_nat w) n.
Proof.
  intros Hw Hn.
  set (m := S (Z.to_nat (Z.log2 n))).
  set (bits := to_bits (m * w) n).
  assert (Hv : val 2 bits = n).
  { unfold bits. rewrite val_to_bits. apply Z.mod_small. split; [exact Hn|].
    pose proof (Z.log2_nonneg n) as Hl.
    assert (n < 2 ^ Z.succ (Z.log2 n)).
    { destruct (Z.eq_dec n 0) as [->|Hne]; [simpl; lia|]. apply Z.log2_spec. lia. }
    assert (2 ^ Z.succ (Z.log2 n) <= 2 ^ Z.of_nat (m * w)).
    { apply Z.pow_le_mono_r; [lia|]. unfold m. nia. }
    lia. }
  set (X := groups w m bits).
  assert (HX : in_base (2 ^ Z.of_nat w) X) by (apply groups_in_base, to_bits_in_base).
  assert (HvX : val (2 ^ Z.of_nat w) X = n).
  { unfold X. rewrite val_groups; [exact Hv | unfold bits; apply to_bits_length]. }
  assert (HB : 1 < 2 ^ Z.of_nat w) by (apply Z.pow_gt_1; lia).
  rewrite <- HvX at 1 2 4 5. rewrite digits_val by assumption.
  repeat split; [apply in_base_strip, HX | rewrite val_strip; exact HvX | apply strip_idem].
Qed.

Lemma digits2_spec n : 0 <= n -> in_base 2 (digits 2 n) /\ val 2 (digits 2 n) = n /\ strip (digits 2 n) = digits 2 n.
Proof. intros Hn. exact (digits_pow2_spec 1 n ltac:(lia) Hn). Qed.

Lemma digits256_spec n : 0 <= n ->
  in_base 256 (digits 256 n) /\ val 256 (digits 256 n) = n /\ strip (digits 256 n) = digits 256 n.
Proof. intros Hn. exact (digits_pow2_spec 8 n ltac:(lia) Hn). Qed.

(* length of a stripped digit list against its value *)
Lemma stripped_bounds B D : 1 < B -> in_base B D -> strip D = D ->
  (D = [] /\ val B D = 0) \/
  (D <> [] /\ B ^ (Z.of_nat (length D) - 1) <= val B D < B ^ Z.of_nat (length D)).
Proof.
  intros HB Hd Hs. destruct D as [|d r] eqn:ED; [left; split; reflexivity|]. right. rewrite <- ED in *.
  split; [rewrite ED; discriminate|].
  pose proof (val_range B D ltac:(lia) Hd) as Hr.
  pose proof (val_strip_lower B D ltac:(lia) Hd) as Hl. rewrite Hs in Hl.
  split; [apply Hl; rewrite ED; discriminate | apply Hr].
Qed.

Lemma pow2_sandwich x y n : 0 <= y -> 2 ^ x <= n < 2 ^ y -> x < y.
Proof.
  intros Hy Hn. destruct (Z.lt_ge_cases x y) as [|Hge]; [assumption|].
  assert (2 ^ y <= 2 ^ x) by (apply Z.pow_le_mono_r; lia). lia.
Qed.

(* significant bits b and bytes nb of the same number *)
Lemma nd_2_256 n : 0 <= n ->
  let b := Z.of_nat (length (digits 2 n)) in
  let nb := Z.of_nat (length (digits 256 n)) in
  (n = 0 /\ b = 0 /\ nb = 0) \/ (0 < n /\ 0 < b /\ 8 * nb - 8 < b <= 8 * nb /\ 2 ^ (b - 1) <= n < 2 ^ b).
Proof.
  intros Hn b nb.
  destruct (digits2_spec n Hn) as [A1 [A2 A3]]. destruct (digits256_spec n Hn) as [B1 [B2 B3]].
  destruct (stripped_bounds 2 _ ltac:(lia) A1 A3) as [[Ea Ev]|[Ea Ev]];
  destruct (stripped_bounds 256 _ ltac:(lia) B1 B3) as [[Eb Ew]|[Eb Ew]]; rewrite ?A2, ?B2 in *.
  - left. unfold b, nb. rewrite Ea, Eb. simpl. lia.
  - exfalso. subst n. apply Eb. reflexivity.
  - exfalso. subst n. apply Ea. reflexivity.
  - right. fold b in Ev. fold nb in Ew.
    assert (0 < b) by (unfold b; destruct (digits 2 n); [congruence | simpl; lia]).
    assert (0 < nb) by (unfold nb; destruct (digits 256 n); [congruence | simpl; lia]).
    assert (0 < 2 ^ (b - 1)) by (apply Z.pow_pos_nonneg; lia).
    change 256 with (2 ^ 8) in Ew. rewrite <- !Z.pow_mul_r in Ew by lia.
    assert (b - 1 < 8 * nb) by (apply (pow2_sandwich _ _ n); lia).
    assert (8 * (nb - 1) < b) by (apply (pow2_sandwich _ _ n); lia).
    repeat split; lia.
Qed.

Lemma nd2_upper n y : 0 <= n < 2 ^ y -> 0 <= y -> Z.of_nat (length (digits 2 n)) <= y.
Proof.
  intros Hn Hy. destruct (nd_2_256 n ltac:(lia)) as [[_ [E _]]|[_ [Hb [_ Hv]]]]; [lia|].
  assert (Z.of_nat (length (digits 2 n)) - 1 < y) by (apply (pow2_sandwich _ _ n); lia). lia.
Qed.

(* dropping the k low bits *)
Lemma nd2_shift n k : 0 <= n -> 0 <= k ->
  let b := Z.of_nat (length (digits 2 n)) in
  let bE := Z.of_nat (length (digits 2 (n / 2 ^ k))) in
  (bE = 0 /\ n / 2 ^ k = 0 /\ b <= k) \/ (0 < bE /\ b = bE + k).
Proof.
  intros Hn Hk b bE.
  assert (HP : 0 < 2 ^ k) by (apply Z.pow_pos_nonneg; lia).
  set (e := n / 2 ^ k) in *.
  assert (He : 0 <= e) by (apply Z.div_pos; lia).
  pose proof (Z.div_mod n (2 ^ k) ltac:(lia)) as Hdm. fold e in Hdm.
  pose proof (Z.mod_pos_bound n (2 ^ k) HP) as Hc.
  destruct (nd_2_256 e He) as [[E0 [Eb _]]|[Epos [Hb [_ Hv]]]]; fold bE in Eb || fold bE in Hb, Hv.
  - left. repeat split; try assumption. apply nd2_upper; lia.
  - right. split; [assumption|].
    destruct (nd_2_256 n Hn) as [[E0 _]|[_ [Hbn [_ Hvn]]]]; fold b in Hbn, Hvn || idtac.
    + exfalso. subst n. unfold e in Epos. rewrite Z.div_0_l in Epos; lia.
    + assert (E1 : 2 ^ (bE - 1) * 2 ^ k = 2 ^ (bE - 1 + k)) by (rewrite Z.pow_add_r; lia).
      assert (E2 : 2 ^ bE * 2 ^ k = 2 ^ (bE + k)) by (rewrite Z.pow_add_r; lia).
      assert (bE - 1 + k < b) by (apply (pow2_sandwich _ _ n); [lia|]; nia).
      assert (b - 1 < bE + k) by (apply (pow2_sandwich _ _ n); [lia|]; nia).
      lia.
Qed.

(* the last k bits of a bit list and what precedes them *)
Lemma split_last l k : in_base 2 l -> (k <= length l)%nat ->
  val 2 (firstn (length l - k) l) = val 2 l / 2 ^ Z.of_nat k /\
  skipn (length l - k) l = to_bits k (val 2 l).
Proof.
  intros Hl Hk.
  set (F := firstn (length l - k) l). set (S := skipn (length l - k) l).
  assert (HS : length S = k) by (unfold S; rewrite skipn_length; lia).
  assert (HSb : in_base 2 S) by (apply in_base_skipn, Hl).
  pose proof (val_range 2 S ltac:(lia) HSb) as Hr. rewrite HS in Hr.
  assert (Hv : val 2 l = val 2 F * 2 ^ Z.of_nat k + val 2 S).
  { rewrite <- (firstn_skipn (length l - k) l) at 1. fold F S. rewrite val_app, HS. reflexivity. }
  assert (HP : 0 < 2 ^ Z.of_nat k) by (apply Z.pow_pos_nonneg; lia).
  split.
  - rewrite Hv. rewrite Z.div_add_l by lia. rewrite Z.div_small by lia. lia.
  - rewrite <- (to_bits_mod k k) by lia. rewrite Hv, Z.add_comm, Z.mod_add by lia.
    rewrite Z.mod_small by lia. rewrite <- HS at 1. symmetry. apply to_bits_val, HSb.
Qed.

(* ---------------- what the three conversions return ---------------- *)
Lemma cb_2048_256_char G minlen : in_base 2048 G ->
  let V := val 2048 G in
  let a := Z.to_nat (addzeros_list G) in
  let entC := lib_cb_2048_256 G minlen in
  in_base 256 entC /\ val 256 entC = V /\ strip entC = digits 256 V /\
  length entC = Nat.max minlen (a + length (digits 256 V)).
Proof.
  intros HG V a entC.
  pose proof (val_range 2048 G ltac:(lia) HG) as [HV _]. fold V in HV.
  destruct (digits256_spec V HV) as [D1 [D2 D3]].
  assert (Hz : lib_zeros 8 11 (addzeros_list G) = a).
  { unfold a, addzeros_list, lib_zeros. destruct G as [|g r]; [reflexivity|]. destruct (g =? 0); reflexivity. }
  unfold entC, lib_cb_2048_256. fold V. rewrite Hz, prepend_loop_no_hit.
  repeat split.
  - apply pad_left_in_base; [lia|]. apply in_base_app. split; [apply in_base_repeat0; lia | exact D1].
  - rewrite val_pad_left, val_repeat0. exact D2.
  - rewrite pad_left_strip, strip_repeat0. exact D3.
  - rewrite pad_left_length, app_length, repeat_length. reflexivity.
Qed.

Lemma cb_256_2_char ds minlen : in_base 256 ds ->
  let V := val 256 ds in
  let bin := lib_cb_256_2 ds minlen in
  in_base 2 bin /\ val 2 bin = V /\ strip bin = digits 2 V /\
  length bin = Nat.max minlen (lib_zeros 1 8 (Z.of_nat (clz ds)) + length (digits 2 V)).
Proof.
  intros Hd V bin.
  pose proof (val_range 256 ds ltac:(lia) Hd) as [HV _]. fold V in HV.
  destruct (digits2_spec V HV) as [D1 [D2 D3]].
  unfold bin, lib_cb_256_2, addzeros_seq. fold V. rewrite prepend_loop_no_hit.
  repeat split.
  - apply pad_left_in_base; [lia|]. apply in_base_app. split; [apply in_base_repeat0; lia | exact D1].
  - rewrite val_pad_left, val_repeat0. exact D2.
  - rewrite pad_left_strip, strip_repeat0. exact D3.
  - rewrite pad_left_length, app_length, repeat_length. reflexivity.
Qed.

Lemma cb_2_256_char ebits minlen : in_base 2 ebits ->
  let e := val 2 ebits in
  exists j : nat,
    lib_cb_2_256 ebits minlen = pad_left minlen (repeat 0 j ++ digits 256 e) /\
    (j <= lib_zeros 8 1 (Z.of_nat (clz ebits)))%nat /\
    forall i, (i < j)%nat -> Z.of_nat (length ebits) <> 8 * Z.of_nat (length (digits 256 e) + i).
Proof.
  intros Hb e. unfold lib_cb_2_256, addzeros_seq. fold e.
  destruct (prepend_loop_spec (lib_zeros 8 1 (Z.of_nat (clz ebits)))
              (fun n => Z.of_nat (length ebits) =? 8 * Z.of_nat n) (digits 256 e)) as [j [Hj [Hr [_ Hn]]]].
  exists j. rewrite Hr. repeat split; [exact Hj|].
  intros i Hi. specialize (Hn i Hi). apply Z.eqb_neq in Hn. exact Hn.
Qed.

Lemma py_drop_last_pos c l : c <> O -> py_drop_last c l = firstn (length l - c) l.
Proof. destruct c; [congruence | reflexivity]. Qed.

Lemma py_take_last_pos c l : c <> O -> py_take_last c l = skipn (length l - c) l.
Proof. destruct c; [congruence | reflexivity]. Qed.

Section Entropy.
  Variable H : bytes -> bytes.
  Hypothesis H_len : forall x, length (H x) = 32%nat.

  Definition ent_body (wi : list Z) : option bytes :=
    let ent_length := (4 * length wi / 3)%nat in
    let entC := lib_cb_2048_256 wi ent_length in
    let bin := lib_cb_256_2 entC (length entC * 4) in
    let c := Z.to_nat (- ((- Z.of_nat (length bin)) / 33)) in
    let ent := map zb (lib_cb_2_256 (py_drop_last c bin) ent_length) in
    let cks := py_take_last c bin in
    match lib_checksum H ent with
    | None => None
    | Some cs => if zlist_eqb cks cs then Some ent else None
    end.

  Lemma lib_to_entropy_body wi : wi <> [] -> lib_to_entropy H wi = ent_body wi.
  Proof. destruct wi; [congruence | reflexivity]. Qed.

  (* the core: on the 11-bit regrouping of any 32k entropy bits E followed by k bits C (k = 1..8), to_entropy
     recovers exactly the bytes of E and compares C with its own checksum of them *)
  Lemma lib_to_entropy_core E C k : in_base 2 E -> in_base 2 C -> length E = (32 * k)%nat -> length C = k ->
    (1 <= k <= 8)%nat ->
    lib_to_entropy H (groups 11 (3 * k) (E ++ C)) =
      match lib_checksum H (bits_to_bytes E) with
      | None => None
      | Some cs => if zlist_eqb C cs then Some (bits_to_bytes E) else None
      end.
  Proof.
    intros HEb HCb HEl E2 Hk.
    set (ent := bits_to_bytes E).
    destruct (bytes_to_bits_to_bytes E (4 * k) HEb ltac:(lia)) as [Hrt Hl]. fold ent in Hrt, Hl.
    set (bits := E ++ C) in *.
    assert (E3 : length bits = (3 * k * 11)%nat) by (unfold bits; rewrite app_length; lia).
    assert (E4 : in_base 2 bits) by (apply in_base_app; split; assumption).
    set (G := groups 11 (3 * k) bits).
    assert (HG : in_base 2048 G) by (apply (groups_in_base 11), E4).
    assert (HGl : length G = (3 * k)%nat) by apply groups_length.
    assert (HGv : val 2048 G = val 2 bits) by (apply (val_groups 11); exact E3).
    rewrite lib_to_entropy_body by (intros Hc; rewrite Hc in HGl; simpl in HGl; lia).
    unfold ent_body. rewrite HGl.
    replace (4 * (3 * k) / 3)%nat with (4 * k)%nat
      by (replace (4 * (3 * k))%nat with (4 * k * 3)%nat by lia; rewrite Nat.div_mul; lia).
    set (V := val 2 bits) in *.
    assert (HVr : 0 <= V < 2 ^ (33 * Z.of_nat k)).
    { pose proof (val_range 2 bits ltac:(lia) E4) as Hr. rewrite E3 in Hr.
      replace (33 * Z.of_nat k) with (Z.of_nat (3 * k * 11)) by lia. exact Hr. }
    (* --- first conversion: indices -> bytes --- *)
    pose proof (cb_2048_256_char G (4 * k) HG) as HC. cbv zeta in HC. rewrite HGv in HC.
    destruct HC as [C1 [C2 [C3 C4]]].
    set (entC := lib_cb_2048_256 G (4 * k)) in *.
    set (a := Z.to_nat (addzeros_list G)) in *.
    (* --- second conversion: bytes -> bits --- *)
    pose proof (cb_256_2_char entC (length entC * 4) C1) as HD. cbv zeta in HD. rewrite C2 in HD.
    destruct HD as [D1 [D2 [D3 D4]]].
    set (bin := lib_cb_256_2 entC (length entC * 4)) in *.
    (* --- the numbers --- *)
    set (b := Z.of_nat (length (digits 2 V))) in *.
    set (nb := Z.of_nat (length (digits 256 V))) in *.
    assert (Hbn : (b = 0 /\ nb = 0) \/ (0 < b /\ 8 * nb - 8 < b <= 8 * nb)).
    { destruct (nd_2_256 V ltac:(lia)) as [[_ [A B]]|[_ [A [B _]]]]; fold b in A, B; fold nb in B; [left | right]; lia. }
    assert (Hb33 : 0 <= b <= 33 * Z.of_nat k) by (split; [unfold b; lia | apply nd2_upper; lia]).
    assert (Ha : Z.of_nat a = 0 \/ (Z.of_nat a = 1 /\ b <= 33 * Z.of_nat k - 11)).
    { unfold a, addzeros_list. destruct G as [|g G'] eqn:EG; [left; reflexivity|].
      destruct (g =? 0) eqn:Eg; [|left; reflexivity]. right. split; [reflexivity|].
      apply Z.eqb_eq in Eg. subst g. apply in_base_cons in HG. destruct HG as [_ HG'].
      rewrite val_cons in HGv. cbn [length] in HGl.
      pose proof (val_range 2048 G' ltac:(lia) HG') as Hr.
      apply nd2_upper; [|lia]. split; [lia|].
      replace (33 * Z.of_nat k - 11) with (11 * Z.of_nat (length G')) by lia.
      rewrite Z.pow_mul_r by lia. change (2 ^ 11) with 2048. lia. }
    assert (HlenC : Z.of_nat (length entC) = Z.max (4 * Z.of_nat k) (Z.of_nat a + nb)) by (rewrite C4; unfold nb; lia).
    assert (HclzC : Z.of_nat (clz entC) = Z.of_nat (length entC) - nb).
    { pose proof (clz_length entC) as Hc. rewrite C3 in Hc. unfold nb. lia. }
    set (zD := lib_zeros 1 8 (Z.of_nat (clz entC))) in *.
    assert (HzD : Z.of_nat zD = if Z.of_nat (clz entC) =? 1 then 1 else 8 * Z.of_nat (clz entC)).
    { unfold zD. rewrite lib_zeros_1_8 by lia. destruct (Z.of_nat (clz entC) =? 1); lia. }
    assert (Hlenbin : Z.of_nat (length bin) = Z.max (4 * Z.of_nat (length entC)) (Z.of_nat zD + b)) by (rewrite D4; unfold b; lia).
    pose proof (arith_bin_len (Z.of_nat k) b nb (Z.of_nat a) _ _ _ _ ltac:(clear - Hk; lia) Hb33
                  (Nat2Z.is_nonneg _) Hbn Ha HlenC HclzC HzD Hlenbin) as Hbin.
    (* --- checksum width --- *)
    assert (Hc : Z.to_nat (- (- Z.of_nat (length bin) / 33)) = k).
    { assert (Hq : - (- Z.of_nat (length bin) / 33) = Z.of_nat k) by (clear - Hbin; Z.div_mod_to_equations; lia).
      rewrite Hq. apply Nat2Z.id. }
    assert (Hk0 : k <> O) by (clear - Hk; lia).
    rewrite Hc, py_drop_last_pos, py_take_last_pos by exact Hk0.
    assert (Hkb : (k <= length bin)%nat) by (clear - Hbin Hk; lia).
    destruct (split_last bin k D1 Hkb) as [S1 S2]. rewrite D2 in S1, S2.
    assert (Hkbits : (k <= length bits)%nat) by (clear - E3; lia).
    destruct (split_last bits k E4 Hkbits) as [T1 T2]. fold V in T1, T2.
    assert (HF : firstn (length bits - k) bits = E).
    { unfold bits. apply firstn_app_exact. rewrite app_length, E2. apply Nat.add_sub. }
    assert (HS : skipn (length bits - k) bits = C).
    { unfold bits. apply skipn_app_exact. rewrite app_length, E2. apply Nat.add_sub. }
    rewrite HF in T1. rewrite HS in T2.
    set (e := V / 2 ^ Z.of_nat k) in *.
    set (ebits := firstn (length bin - k) bin) in *.
    rewrite S2, <- T2.
    (* --- third conversion: entropy bits -> bytes --- *)
    assert (Heb : in_base 2 ebits) by (apply in_base_firstn, D1).
    destruct (cb_2_256_char ebits (4 * k) Heb) as [j [R1 [R2 R3]]]. rewrite S1 in R1, R3.
    set (M := map bz ent).
    assert (HM : in_base 256 M) by apply map_bz_in_base.
    assert (HMl : length M = (4 * k)%nat) by (unfold M; rewrite map_length; exact Hl).
    assert (HMv : val 256 M = e).
    { rewrite <- T1, <- Hrt. unfold bytes_to_bits. fold M. change 256 with (2 ^ Z.of_nat 8). symmetry. apply val_unpack, HM. }
    assert (HDE : digits 256 e = strip M) by (rewrite <- HMv; apply digits_val; [lia | exact HM]).
    set (bE := Z.of_nat (length (digits 2 e))) in *.
    set (nbE := Z.of_nat (length (digits 256 e))) in *.
    assert (He0 : 0 <= e).
    { apply Z.div_pos; [clear - HVr; lia | apply Z.pow_pos_nonneg; lia]. }
    assert (HbE : (bE = 0 /\ nbE = 0 /\ b <= Z.of_nat k) \/
                  (0 < bE /\ b = bE + Z.of_nat k /\ 8 * nbE - 8 < bE <= 8 * nbE)).
    { assert (HV0 : 0 <= V) by (clear - HVr; lia).
      pose proof (nd2_shift V (Z.of_nat k) HV0 (Nat2Z.is_nonneg k)) as Hs. cbv zeta in Hs. fold e in Hs. fold b bE in Hs.
      destruct (nd_2_256 e He0) as [[_ [A B]]|[_ [A [B _]]]]; fold bE in A, B; fold nbE in B.
      - left. clear - Hs A B. destruct Hs as [[_ [_ Hs]]|[Hs _]]; lia.
      - right. clear - Hs A B. destruct Hs as [[Hs _]|[_ Hs]]; lia. }
    assert (HlenE : Z.of_nat (length ebits) = Z.of_nat (length bin) - Z.of_nat k).
    { unfold ebits. rewrite firstn_length. clear - Hkb. lia. }
    assert (HclzE : Z.of_nat (clz ebits) = Z.of_nat (length ebits) - bE).
    { pose proof (clz_length ebits) as Hcl.
      assert (Hst : strip ebits = digits 2 e) by (rewrite <- S1; symmetry; apply digits_val; [lia | exact Heb]).
      rewrite Hst in Hcl. unfold bE. clear - Hcl. lia. }
    set (zE := lib_zeros 8 1 (Z.of_nat (clz ebits))) in *.
    assert (HzE : Z.of_nat zE = if Z.of_nat (clz ebits) =? 1 then 1 else Z.of_nat (clz ebits) / 8).
    { unfold zE. rewrite lib_zeros_div by lia. destruct (Z.of_nat (clz ebits) =? 1); [reflexivity|].
      rewrite Z2Nat.id; [reflexivity | apply Z.div_pos; lia]. }
    assert (HnbE : 0 <= nbE <= 4 * Z.of_nat k).
    { unfold nbE. rewrite HDE. pose proof (clz_length M) as HcM. clear - HcM HMl. lia. }
    assert (Hhit : 0 <= 4 * Z.of_nat k - nbE < Z.of_nat j -> Z.of_nat (length ebits) <> 32 * Z.of_nat k).
    { intros Hi. assert (Hlt : (Z.to_nat (4 * Z.of_nat k - nbE) < j)%nat) by (clear - Hi; lia).
      specialize (R3 _ Hlt). intros Hc2. apply R3. rewrite Hc2. fold nbE. clear - Hi. lia. }
    assert (Hk18 : 1 <= Z.of_nat k <= 8) by (clear - Hk; lia).
    assert (Hnb0 : 0 <= nb) by (unfold nb; apply Nat2Z.is_nonneg).
    assert (Hjz : 0 <= Z.of_nat j <= Z.of_nat zE) by (clear - R2; fold zE in R2; lia).
    pose proof (arith_ent_len (Z.of_nat k) b nb (Z.of_nat a) _ _ _ _ _ bE nbE _ _ (Z.of_nat j) Hk18 Hb33
                  Hnb0 Hbn Ha HlenC HclzC HzD Hlenbin HlenE HbE HclzE HzE Hjz Hhit HnbE) as Hfit.
    assert (HR : pad_left (4 * k) (repeat 0 j ++ digits 256 e) = M).
    { apply pad_unique.
      - rewrite pad_left_strip, strip_repeat0, HDE. apply strip_idem.
      - rewrite pad_left_length, app_length, repeat_length, HMl. unfold nbE in Hfit. clear - Hfit. lia. }
    rewrite R1, HR. unfold M. rewrite map_zb_bz. reflexivity.
  Qed.

  (* to_entropy returns the entropy of every BIP39 sentence: 4k bytes, k = 1..8, every leading-zero pattern *)
  Theorem lib_to_entropy_spec ent k : length ent = (4 * k)%nat -> (1 <= k <= 8)%nat -> hexlike ent = false ->
    lib_to_entropy H (spec_to_indices H ent) = Some ent.
  Proof.
    intros Hl Hk Hx.
    destruct (spec_bits H H_len ent k Hl ltac:(lia)) as [E1 [E2 [E3 E4]]].
    rewrite (spec_to_indices_eq H H_len ent k Hl ltac:(lia)).
    rewrite lib_to_entropy_core;
      [| apply bytes_to_bits_in_base | apply in_base_firstn, bytes_to_bits_in_base
       | rewrite bytes_to_bits_length; lia | exact E2 | exact Hk].
    rewrite bits_to_bytes_to_bits, (lib_checksum_spec H H_len ent k Hl ltac:(lia) Hx).
    assert (Hz : forall l, zlist_eqb l l = true) by (intros l; apply zlist_eqb_true; reflexivity).
    rewrite Hz. reflexivity.
  Qed.

  (* acceptance by the library is acceptance by BIP39: 12/15/18/21/24 indices below 2048, unless the candidate
     entropy reads as hex text (then Mnemonic.checksum hashes other bytes) *)
  Theorem lib_to_entropy_is_spec G : valid_ms (length G) = true -> in_base 2048 G ->
    hexlike (candidate_entropy G) = false ->
    lib_to_entropy H G = spec_to_entropy H G.
  Proof.
    intros Hv HG Hx.
    assert (Hk : exists k, length G = (3 * k)%nat /\ (4 <= k <= 8)%nat).
    { unfold valid_ms in Hv. repeat (apply orb_true_iff in Hv; destruct Hv as [Hv|Hv]);
        apply Nat.eqb_eq in Hv; [exists 4%nat | exists 5%nat | exists 6%nat | exists 7%nat | exists 8%nat]; lia. }
    destruct Hk as [k [Hn Hk]].
    unfold candidate_entropy in Hx. unfold spec_to_entropy. rewrite Hv. cbn [negb].
    assert (Hf : forallb idx_ok G = true) by (apply forallb_idx_ok, HG). rewrite Hf. cbn [negb].
    rewrite Hn in *.
    replace (3 * k / 3)%nat with k in * by (rewrite Nat.mul_comm, Nat.div_mul; lia).
    replace (3 * k * 11 - k)%nat with (32 * k)%nat in * by lia.
    set (bits := unpack 11 G) in *.
    assert (Hbl : length bits = (3 * k * 11)%nat) by (unfold bits; rewrite unpack_length; lia).
    assert (Hbb : in_base 2 bits) by apply unpack_in_base.
    set (E := firstn (32 * k) bits) in *. set (C := skipn (32 * k) bits).
    assert (HEl : length E = (32 * k)%nat) by (unfold E; rewrite firstn_length; lia).
    assert (HCl : length C = k) by (unfold C; rewrite skipn_length; lia).
    assert (HGe : G = groups 11 (3 * k) (E ++ C)).
    { unfold E, C. rewrite firstn_skipn. unfold bits. rewrite <- Hn, <- (app_nil_r (unpack 11 G)).
      symmetry. apply groups_unpack. exact HG. }
    rewrite HGe at 1.
    rewrite lib_to_entropy_core;
      [| apply in_base_firstn, Hbb | apply in_base_skipn, Hbb | exact HEl | exact HCl | lia].
    destruct (bytes_to_bits_to_bytes E (4 * k) (in_base_firstn 2 _ _ Hbb) ltac:(lia)) as [_ Hlen].
    rewrite (lib_checksum_spec H H_len (bits_to_bytes E) k Hlen ltac:(lia) Hx). reflexivity.
  Qed.

  (* the property's statement for the library: sentence generation is BIP39's and decodes back *)
  Theorem lib_is_bip39_k ent k : length ent = (4 * k)%nat -> (1 <= k <= 8)%nat -> hexlike ent = false ->
    lib_to_indices H ent = Some (spec_to_indices H ent) /\
    lib_to_entropy H (spec_to_indices H ent) = Some ent.
  Proof.
    intros Hl Hk Hx. split.
    - apply (lib_to_indices_spec H H_len ent k); (assumption || lia).
    - apply (lib_to_entropy_spec ent k); assumption.
  Qed.

  Theorem lib_is_bip39_all ent : valid_ent_len (length ent) -> hexlike ent = false ->
    lib_to_indices H ent = Some (spec_to_indices H ent) /\
    lib_to_entropy H (spec_to_indices H ent) = Some ent.
  Proof.
    intros Hv Hx.
    destruct Hv as [E|[E|[E|[E|E]]]];
      [apply (lib_is_bip39_k ent 4) | apply (lib_is_bip39_k ent 5) | apply (lib_is_bip39_k ent 6)
       | apply (lib_is_bip39_k ent 7) | apply (lib_is_bip39_k ent 8)]; (assumption || lia).
  Qed.
End Entropy.
