(* Proofs/Bip39Detect.v — language detection, sanitising, the object's own word list, the non-default switches
   (add_checksum / check_on_curve / includes_checksum / validate) and sessions. *)
From Coq Require Import ZArith List Bool Lia Arith.
From Coq.Strings Require Import Byte.
From Verif Require Import Lib.Bytes Lib.BitRegroup Model.ChangeBase Model.Bip39 Crypto.Sha256.
From Verif Require Import Proofs.ChangeBase Proofs.Bip39Final.
From Verif Require Import Gen.GenWordlists Proofs.Bip39Wordlists.
Import ListNotations.
Open Scope Z_scope.

(* ---------------- detection over abstract positions ---------------- *)
Section DetectFacts.
  Variable W : Type.
  Variable pos : nat -> W -> option Z.

  Lemma count_le k ws : (count_in W pos k ws <= length ws)%nat.
  Proof.
    unfold count_in. induction ws as [|w r IH]; [apply Nat.le_refl|].
    cbn [filter]. destruct (known W pos k w); cbn [length]; lia.
  Qed.

  Lemma count_full k ws : forallb (known W pos k) ws = true <-> count_in W pos k ws = length ws.
  Proof.
    unfold count_in. induction ws as [|w r IH]; [split; reflexivity|].
    cbn [filter forallb]. destruct (known W pos k w) eqn:E; cbn [length andb].
    - rewrite IH. split; [intros ->; reflexivity | intros Hq; injection Hq; auto].
    - pose proof (count_le k r) as Hle. unfold count_in in Hle. split; [discriminate | intros Hq; lia].
  Qed.

  Lemma first_max_none order ws : first_max W pos order ws = None -> order = [].
  Proof.
    destruct order as [|k r]; [reflexivity|]. cbn [first_max].
    destruct (first_max W pos r ws); [destruct (_ <? _)%nat|]; discriminate.
  Qed.

  Lemma first_max_spec order ws : forall k, first_max W pos order ws = Some k ->
    In k order /\ forall j, In j order -> (count_in W pos j ws <= count_in W pos k ws)%nat.
  Proof.
    induction order as [|k0 r IH]; intros k Hk; [discriminate|].
    cbn [first_max] in Hk. destruct (first_max W pos r ws) as [j|] eqn:E.
    - destruct (IH j eq_refl) as [Hj Hmax].
      destruct (count_in W pos k0 ws <? count_in W pos j ws)%nat eqn:L.
      + assert (k = j) by congruence. subst k. apply Nat.ltb_lt in L. split; [right; exact Hj|].
        intros j' [<-|Hin]; [lia | apply Hmax, Hin].
      + assert (k = k0) by congruence. subst k. apply Nat.ltb_ge in L. split; [left; reflexivity|].
        intros j' [<-|Hin]; [lia | specialize (Hmax j' Hin); lia].
    - apply first_max_none in E. subst r. assert (k = k0) by congruence. subst k. split; [left; reflexivity|].
      intros j' [<-|[]]. lia.
  Qed.

  Lemma first_max_some order ws : order <> [] -> exists k, first_max W pos order ws = Some k.
  Proof.
    intros Hne. destruct (first_max W pos order ws) as [k|] eqn:E; [exists k; reflexivity|].
    apply first_max_none in E. contradiction.
  Qed.

  Lemma detect_sound order ws k : lib_detect W pos order ws = Some k ->
    In k order /\ (0 < count_in W pos k ws)%nat /\
    forall j, In j order -> (count_in W pos j ws <= count_in W pos k ws)%nat.
  Proof.
    unfold lib_detect. destruct (first_max W pos order ws) as [k'|] eqn:E; [|discriminate].
    destruct (Nat.eqb (count_in W pos k' ws) 0) eqn:Z0; [discriminate|].
    intros Hq. assert (k = k') by congruence. subst k'. apply Nat.eqb_neq in Z0.
    destruct (first_max_spec order ws k E) as [Hin Hmax]. split; [exact Hin|]. split; [lia | exact Hmax].
  Qed.

  (* a sentence of words of list [self]: the detected list contains every word of it *)
  Lemma detect_known_sentence order self ws : In self order -> ws <> [] -> forallb (known W pos self) ws = true ->
    exists k, lib_detect W pos order ws = Some k /\ forallb (known W pos k) ws = true.
  Proof.
    intros Hin Hne Hall.
    assert (Ho : order <> []) by (intros ->; destruct Hin).
    destruct (first_max_some order ws Ho) as [k Hk].
    destruct (first_max_spec order ws k Hk) as [_ Hmax].
    specialize (Hmax self Hin). apply count_full in Hall.
    pose proof (count_le k ws) as Hle.
    assert (Hc : count_in W pos k ws = length ws) by lia.
    exists k. unfold lib_detect. rewrite Hk.
    assert (Hl : length ws <> O) by (destruct ws; [contradiction | discriminate]).
    destruct (Nat.eqb (count_in W pos k ws) 0) eqn:Z0; [apply Nat.eqb_eq in Z0; lia|].
    split; [reflexivity | apply count_full, Hc].
  Qed.

  Lemma sanitize_known_sentence order self ws : In self order -> ws <> [] ->
    forallb (known W pos self) ws = true -> lib_sanitize W pos order ws = Some ws.
  Proof.
    intros Hin Hne Hall. destruct (detect_known_sentence order self ws Hin Hne Hall) as [k [Hd Hk]].
    unfold lib_sanitize. rewrite Hd, Hk. reflexivity.
  Qed.

  Lemma sanitize_id order ws ws' : lib_sanitize W pos order ws = Some ws' -> ws' = ws.
  Proof.
    unfold lib_sanitize. destruct (lib_detect W pos order ws); [|discriminate].
    destruct (forallb _ ws); [congruence | discriminate].
  Qed.

  Lemma sanitize_nil order : lib_sanitize W pos order [] = None.
  Proof.
    unfold lib_sanitize, lib_detect. destruct (first_max W pos order []) as [k|]; [|reflexivity].
    reflexivity.
  Qed.

  (* a sentence is sanitised only if ONE list contains all its words *)
  Lemma sanitize_sound order ws ws' : lib_sanitize W pos order ws = Some ws' ->
    ws' = ws /\ ws <> [] /\ exists k, In k order /\ forallb (known W pos k) ws = true.
  Proof.
    intros Hs. split; [eapply sanitize_id, Hs|]. split; [intros ->; rewrite sanitize_nil in Hs; discriminate|].
    unfold lib_sanitize in Hs. destruct (lib_detect W pos order ws) as [k|] eqn:D; [|discriminate].
    destruct (forallb (known W pos k) ws) eqn:F; [|discriminate].
    exists k. split; [apply (detect_sound order ws k D) | exact F].
  Qed.

  Lemma lookup_all_known self ws : forall wi, lookup_all W pos self ws = Some wi ->
    forallb (known W pos self) ws = true /\ length wi = length ws.
  Proof.
    induction ws as [|w r IH]; intros wi Hl.
    - cbn in Hl. assert (wi = []) by congruence. subst. split; reflexivity.
    - cbn [lookup_all] in Hl. destruct (pos self w) as [i|] eqn:P; [|discriminate].
      destruct (lookup_all W pos self r) as [t|] eqn:L; [|discriminate].
      assert (wi = i :: t) by congruence. subst wi. destruct (IH t eq_refl) as [Ha Hb].
      cbn [forallb length]. unfold known at 1. rewrite P, Ha, Hb. split; reflexivity.
  Qed.

  (* THE point of l.175: the words are looked up in the object's own list, so the detected language never
     changes the result *)
  Lemma obj_apply_ignores_detection {A : Type} order self (f : list Z -> option A) ws :
    In self order -> f [] = None ->
    lib_obj_apply W pos order self f ws = match lookup_all W pos self ws with Some wi => f wi | None => None end.
  Proof.
    intros Hin Hf. unfold lib_obj_apply.
    destruct (lookup_all W pos self ws) as [wi|] eqn:L.
    - destruct ws as [|w r].
      + rewrite sanitize_nil. cbn in L. assert (wi = []) by congruence. subst. symmetry. exact Hf.
      + destruct (lookup_all_known self (w :: r) wi L) as [Hall _].
        rewrite (sanitize_known_sentence order self (w :: r) Hin ltac:(discriminate) Hall). rewrite L. reflexivity.
    - destruct (lib_sanitize W pos order ws) as [ws'|] eqn:S; [|reflexivity].
      apply sanitize_id in S. subst ws'. rewrite L. reflexivity.
  Qed.

  Lemma detect_unique order self ws : In self order -> ws <> [] -> forallb (known W pos self) ws = true ->
    (forall j, In j order -> j <> self -> forallb (known W pos j) ws = false) ->
    lib_detect W pos order ws = Some self.
  Proof.
    intros Hin Hne Hall Hoth. destruct (detect_known_sentence order self ws Hin Hne Hall) as [k [Hd Hk]].
    destruct (Nat.eq_dec k self) as [->|Hneq]; [exact Hd|].
    destruct (detect_sound order ws k Hd) as [Hko _]. rewrite (Hoth k Hko Hneq) in Hk. discriminate.
  Qed.

  Lemma seed_accepts_no_validate H order self ws :
    lib_seed_accepts W pos H order self false ws = match lib_sanitize W pos order ws with Some _ => true | None => false end.
  Proof. unfold lib_seed_accepts. destruct (lib_sanitize W pos order ws); reflexivity. Qed.

  Lemma entropy_opt_nil H flag : lib_to_entropy_opt H flag [] = None.
  Proof. destruct flag; reflexivity. Qed.

  Lemma entropy_obj_own_list H order self flag ws : In self order ->
    lib_entropy_obj W pos H order self flag ws =
      match lookup_all W pos self ws with Some wi => lib_to_entropy_opt H flag wi | None => None end.
  Proof. intros Hin. apply obj_apply_ignores_detection; [exact Hin | apply entropy_opt_nil]. Qed.

  Lemma seed_accepts_validate H order self ws : In self order ->
    lib_seed_accepts W pos H order self true ws =
      match lookup_all W pos self ws with
      | Some wi => match lib_to_entropy H wi with Some _ => true | None => false end
      | None => false
      end.
  Proof.
    intros Hin. unfold lib_seed_accepts.
    destruct (lib_sanitize W pos order ws) as [ws'|] eqn:S.
    - apply sanitize_id in S. subst ws'. rewrite (entropy_obj_own_list H order self true ws Hin).
      destruct (lookup_all W pos self ws); reflexivity.
    - destruct (lookup_all W pos self ws) as [wi|] eqn:L; [|reflexivity].
      destruct ws as [|w r].
      + cbn in L. assert (wi = []) by congruence. subst. reflexivity.
      + destruct (lookup_all_known self (w :: r) wi L) as [Hall _].
        rewrite (sanitize_known_sentence order self (w :: r) Hin ltac:(discriminate) Hall) in S. discriminate.
  Qed.
End DetectFacts.

(* ---------------- word lists given as lists ---------------- *)
Lemma lookup_all_lists (W : Type) (weqb : W -> W -> bool) langs k ws :
  lookup_all W (pos_of_lists W weqb langs) k ws = indices_of W weqb ws (nth k langs []).
Proof.
  induction ws as [|w r IH]; [reflexivity|].
  cbn [lookup_all indices_of]. rewrite IH. unfold pos_of_lists. reflexivity.
Qed.

Lemma final_obj_is_own_list : forall (W : Type) (weqb : W -> W -> bool) H langs order self flag ws,
  In self order ->
  lib_entropy_obj W (pos_of_lists W weqb langs) H order self flag ws =
  lib_entropy_of_words_opt H W weqb (nth self langs []) flag ws.
Proof.
  intros W weqb H langs order self flag ws Hin.
  rewrite (entropy_obj_own_list W _ H order self flag ws Hin), lookup_all_lists.
  unfold lib_entropy_of_words_opt. reflexivity.
Qed.

Lemma final_detect_sound : forall (W : Type) (pos : nat -> W -> option Z) order ws k,
  lib_detect W pos order ws = Some k ->
  In k order /\ (0 < count_in W pos k ws)%nat /\
  forall j, In j order -> (count_in W pos j ws <= count_in W pos k ws)%nat.
Proof. exact detect_sound. Qed.

Lemma final_detect_unique : forall (W : Type) (pos : nat -> W -> option Z) order self ws,
  In self order -> ws <> [] -> forallb (known W pos self) ws = true ->
  (forall j, In j order -> j <> self -> forallb (known W pos j) ws = false) ->
  lib_detect W pos order ws = Some self.
Proof. exact detect_unique. Qed.

Lemma final_sanitize_sound : forall (W : Type) (pos : nat -> W -> option Z) order ws ws',
  lib_sanitize W pos order ws = Some ws' ->
  ws' = ws /\ ws <> [] /\ exists k, In k order /\ forallb (known W pos k) ws = true.
Proof. exact sanitize_sound. Qed.

Lemma final_sanitize_complete : forall (W : Type) (pos : nat -> W -> option Z) order self ws,
  In self order -> ws <> [] -> forallb (known W pos self) ws = true -> lib_sanitize W pos order ws = Some ws.
Proof. exact sanitize_known_sentence. Qed.

(* the sentence generated for an entropy by Mnemonic(lang k) goes back to that entropy through the whole
   to_entropy path (sanitize + detection in ANY directory order + lookup), for each bundled list *)
Lemma bundled_length : length bundled_wordlists = 9%nat.
Proof. reflexivity. Qed.

Lemma final_bundled_object_roundtrip : forall H, hash32 H -> forall order k, (k < 9)%nat -> In k order ->
  forall ent, valid_ent_len (length ent) -> hexlike ent = false ->
  exists ws, lib_words_of_entropy H Z 0 (nth k bundled_wordlists []) ent = Some ws /\
             lib_entropy_obj Z (pos_of_lists Z Z.eqb bundled_wordlists) H order k true ws = Some ent.
Proof.
  intros H HH order k Hk Hin ent Hv Hx.
  assert (Hwl : In (nth k bundled_wordlists []) bundled_wordlists)
    by (apply nth_In; rewrite bundled_length; exact Hk).
  destruct (final_bundled_roundtrip H HH _ Hwl ent Hv Hx) as [ws [A [_ B]]].
  exists ws. split; [exact A|].
  rewrite (final_obj_is_own_list Z Z.eqb H bundled_wordlists order k true ws Hin).
  exact B.
Qed.

(* a bad checksum or a word outside the object's list is refused whatever the other lists contain *)
Lemma final_object_rejects : forall (W : Type) (weqb : W -> W -> bool) H langs order self ws,
  In self order -> lib_entropy_of_words H W weqb (nth self langs []) ws = None ->
  lib_entropy_obj W (pos_of_lists W weqb langs) H order self true ws = None /\
  lib_seed_accepts W (pos_of_lists W weqb langs) H order self true ws = false.
Proof.
  intros W weqb H langs order self ws Hin Hn. split.
  - rewrite (final_obj_is_own_list W weqb H langs order self true ws Hin). exact Hn.
  - rewrite (seed_accepts_validate W _ H order self ws Hin), lookup_all_lists.
    unfold lib_entropy_of_words in Hn. destruct (indices_of W weqb ws (nth self langs [])); [|reflexivity].
    rewrite Hn. reflexivity.
Qed.

(* ---------------- seed with the validate switch ---------------- *)
Lemma final_seed_v : forall (str : Type) (NFKD : str -> str) (utf8 : str -> bytes)
  (KDF : bytes -> bytes -> Z -> Z -> bytes) (accepts sanitizes : str -> bool) v s pw,
  lib_to_seed_v str NFKD utf8 KDF accepts sanitizes v s pw =
    if sanitizes (NFKD s) && (negb v || accepts (NFKD s))
    then Some (spec_seed str NFKD utf8 KDF s pw) else None.
Proof.
  intros. unfold lib_to_seed_v, lib_seed_query_v, spec_seed.
  destruct (sanitizes (NFKD s) && (negb v || accepts (NFKD s))); reflexivity.
Qed.

Lemma final_seed_v_default : forall (str : Type) (NFKD : str -> str) (utf8 : str -> bytes)
  (KDF : bytes -> bytes -> Z -> Z -> bytes) (accepts sanitizes : str -> bool) s pw,
  (forall x, accepts x = true -> sanitizes x = true) ->
  lib_to_seed_v str NFKD utf8 KDF accepts sanitizes true s pw = lib_to_seed str NFKD utf8 KDF accepts s pw.
Proof.
  intros str NFKD utf8 KDF accepts sanitizes s pw Himp.
  unfold lib_to_seed_v, lib_seed_query_v, lib_to_seed, lib_seed_query. cbn [negb orb].
  destruct (accepts (NFKD s)) eqn:A; [rewrite (Himp _ A)|rewrite andb_false_r]; reflexivity.
Qed.

(* ---------------- the switches of to_mnemonic / to_entropy ---------------- *)
Lemma final_default_switches : forall H d wi,
  lib_to_indices_opt H true false d = lib_to_indices H d /\ lib_to_entropy_opt H true wi = lib_to_entropy H wi.
Proof. intros. split; reflexivity. Qed.

Lemma final_check_on_curve_only_refuses : forall H a d,
  lib_to_indices_opt H a true d =
    if on_curve_ok (of_be (lib_to_bytes d)) then lib_to_indices_opt H a false d else None.
Proof.
  intros H a d. unfold lib_to_indices_opt. cbn [andb].
  destruct (on_curve_ok (of_be (lib_to_bytes d))); reflexivity.
Qed.

Lemma digits_fuel_val f : forall B n acc, 1 < B -> 0 <= n < 2 ^ Z.of_nat f ->
  val B (digits_fuel f B n acc) = n * B ^ Z.of_nat (length acc) + val B acc.
Proof.
  induction f as [|f IH]; intros B n acc HB Hn.
  - cbn [digits_fuel]. change (2 ^ Z.of_nat 0) with 1 in Hn. assert (n = 0) by lia. subst. lia.
  - cbn [digits_fuel]. destruct (n =? 0) eqn:E; [apply Z.eqb_eq in E; subst; lia|].
    rewrite IH; [|exact HB|].
    + rewrite val_cons. cbn [length]. rewrite Nat2Z.inj_succ, Z.pow_succ_r by lia.
      pose proof (Z.div_mod n B ltac:(lia)) as Hdm. nia.
    + rewrite Nat2Z.inj_succ, Z.pow_succ_r in Hn by lia.
      split; [apply Z.div_pos; lia|].
      apply Z.div_lt_upper_bound; [lia|]. nia.
Qed.

Lemma digits_fuel_in_base f : forall B n acc, 1 < B -> 0 <= n -> in_base B acc ->
  in_base B (digits_fuel f B n acc).
Proof.
  induction f as [|f IH]; intros B n acc HB Hn Ha; [exact Ha|].
  cbn [digits_fuel]. destruct (n =? 0); [exact Ha|].
  apply IH; [exact HB | apply Z.div_pos; lia|].
  apply in_base_cons. split; [apply Z.mod_pos_bound; lia | exact Ha].
Qed.

Lemma digits_value B n : 1 < B -> 0 <= n -> val B (digits B n) = n /\ in_base B (digits B n).
Proof.
  intros HB Hn. unfold digits. split.
  - rewrite digits_fuel_val; [cbn [length val]; lia | exact HB|].
    split; [exact Hn|].
    destruct (Z.eq_dec n 0) as [->|Hnz]; [cbn; lia|].
    rewrite Nat2Z.inj_succ, Z2Nat.id by apply Z.log2_nonneg.
    apply Z.log2_spec. lia.
  - apply digits_fuel_in_base; [exact HB | exact Hn | constructor].
Qed.

Lemma of_be_nonneg l : 0 <= of_be l.
Proof.
  rewrite of_be_val. apply (val_range 256 (map bz l)); [lia | apply map_bz_in_base].
Qed.

(* add_checksum=False: the sentence is the base-2048 writing of the number the entropy bytes spell *)
Lemma final_raw_indices_value : forall H c d wi, lib_to_indices_opt H false c d = Some wi ->
  val 2048 wi = of_be (lib_to_bytes d) /\ in_base 2048 wi /\ wi <> [].
Proof.
  intros H c d wi. unfold lib_to_indices_opt.
  destruct (c && negb (on_curve_ok (of_be (lib_to_bytes d)))); [discriminate|].
  unfold lib_cb_10_2048. destruct (negb (Nat.eqb (length (lib_to_bytes d)) 0)); [|discriminate].
  intros Hq. assert (wi = pad_left 1 (digits 2048 (of_be (lib_to_bytes d)))) by congruence. subst wi.
  destruct (digits_value 2048 (of_be (lib_to_bytes d)) ltac:(lia) (of_be_nonneg _)) as [Hv Hb].
  split; [rewrite val_pad_left; exact Hv|]. split; [apply pad_left_in_base; [lia | exact Hb]|].
  intros Hnil. pose proof (pad_left_length 1 (digits 2048 (of_be (lib_to_bytes d)))) as Hl.
  rewrite Hnil in Hl. cbn [length] in Hl. lia.
Qed.

(* includes_checksum=False: the bytes spell the number the indices write in base 2048 *)
Lemma final_raw_entropy_value : forall H wi e, in_base 2048 wi -> lib_to_entropy_opt H false wi = Some e ->
  of_be e = val 2048 wi /\ (4 * length wi / 3 <= length e)%nat.
Proof.
  intros H wi e Hb. unfold lib_to_entropy_opt. destruct wi as [|w r] eqn:Ewi; [discriminate|]. rewrite <- Ewi in *.
  intros Hq. assert (e = map zb (lib_cb_2048_256 wi (4 * length wi / 3))) by congruence. subst e. clear Hq.
  unfold lib_cb_2048_256. rewrite prepend_loop_no_hit.
  assert (Hv : 0 <= val 2048 wi) by (apply (val_range 2048 wi); [lia | exact Hb]).
  destruct (digits_value 256 (val 2048 wi) ltac:(lia) Hv) as [Hd Hdb].
  set (z := lib_zeros 8 11 (addzeros_list wi)).
  assert (Hin : in_base 256 (pad_left (4 * length wi / 3) (repeat 0 z ++ digits 256 (val 2048 wi)))).
  { apply pad_left_in_base; [lia|]. apply in_base_app. split; [apply in_base_repeat0; lia | exact Hdb]. }
  split.
  - rewrite of_be_val, (map_bz_zb _ Hin), val_pad_left, val_repeat0. exact Hd.
  - rewrite map_length, pad_left_length. lia.
Qed.

(* ---------------- sessions ---------------- *)
Lemma final_session_history_independent : forall pre r post,
  nth_error (run_session (pre ++ r :: post)) (length pre) = Some (answer r).
Proof.
  intros pre r post. unfold run_session. rewrite map_app. cbn [map].
  rewrite nth_error_app2; rewrite map_length; [|apply Nat.le_refl]. rewrite Nat.sub_diag. reflexivity.
Qed.

Lemma final_session_length : forall rs, length (run_session rs) = length rs.
Proof. intros rs. apply map_length. Qed.

(* ---------------- witnesses (evaluated here once; Properties/C14.v states them as Examples) ---------------- *)
(* --- non-vacuity of the detection statements: a 12-word sentence whose words are ALL in two lists (positions
       0,..,0,3 in list 0 = the zero-entropy sentence; other positions in list 1).  The directory order decides which
       language is detected, the entropy does not change; the object of list 1 refuses it (bad checksum there) --- *)
Definition shared_sentence : list (list Z) :=
  repeat [0; 5] 11 ++ [[3; 77]].

Lemma ex_shared_words_tie :
  lib_detect_x [0%nat; 1%nat] shared_sentence = Some 0%nat /\
  lib_detect_x [1%nat; 0%nat] shared_sentence = Some 1%nat /\
  lib_entropy_obj_x [0%nat; 1%nat] 0 true shared_sentence = Some (repeat x00 16) /\
  lib_entropy_obj_x [1%nat; 0%nat] 0 true shared_sentence = Some (repeat x00 16) /\
  lib_entropy_obj_x [0%nat; 1%nat] 1 true shared_sentence = None /\
  lib_sanitize_x [1%nat; 0%nat] shared_sentence = true /\
  lib_sanitize_x [1%nat; 0%nat] (shared_sentence ++ [[-1; -1]]) = false /\
  lib_sanitize_x [1%nat; 0%nat] (shared_sentence ++ [[4; -1]; [-1; 4]]) = false.
Proof. repeat split; vm_compute; reflexivity. Qed.

(* --- the switches: all-zero entropy is refused only behind check_on_curve; without checksum 00 01 <-> [1] --- *)
Lemma ex_switches_witness :
  lib_to_indices_opt sha256 true true (repeat x00 16) = None /\
  lib_to_indices_opt sha256 true false (repeat x00 16) = Some [0; 0; 0; 0; 0; 0; 0; 0; 0; 0; 0; 3] /\
  lib_to_indices_opt sha256 false false [x00; x01] = Some [1] /\
  lib_to_indices_opt sha256 false false [x00; x00; x08; x00] = Some [1; 0] /\
  lib_to_indices_opt sha256 false false [] = None /\
  lib_to_entropy_opt sha256 false [1; 0] = Some [x08; x00] /\
  lib_to_entropy_opt sha256 false [0; 0; 0; 0; 0; 0; 0; 0; 0; 0; 0; 4] = Some (repeat x00 15 ++ [x04]) /\
  lib_to_entropy_opt sha256 true [0; 0; 0; 0; 0; 0; 0; 0; 0; 0; 0; 4] = None.
Proof. repeat split; vm_compute; reflexivity. Qed.

(* --- validate=False: a sentence with a bad checksum still gets the PBKDF2 query of its NFKD form; an unknown
       word is refused in both settings (a string is the pair (UTF-8 bytes, UTF-8 bytes of its NFKD form)) --- *)
Lemma ex_validate_switch_witness :
  let bad := repeat [0; 5] 11 ++ [[4; 77]] in
  let s : ostr := ([xe3; x80; x80], [x20]) in
  let pw : ostr := ([xc3; xa9], [x65; xcc; x81]) in
  lib_seed_query_vx [0%nat; 1%nat] 0 false bad s pw = Some ([x20], mnemonic_salt ++ [x65; xcc; x81]) /\
  lib_seed_query_vx [0%nat; 1%nat] 0 true bad s pw = None /\
  lib_seed_query_vx [0%nat; 1%nat] 0 true shared_sentence s pw = Some ([x20], mnemonic_salt ++ [x65; xcc; x81]) /\
  lib_seed_query_vx [0%nat; 1%nat] 0 false (bad ++ [[-1; -1]]) s pw = None.
Proof. repeat split; vm_compute; reflexivity. Qed.

Lemma ex_session_witness :
  run_session [RqEntropy [0%nat; 1%nat] 0 false shared_sentence; RqEntropy [0%nat; 1%nat] 0 true shared_sentence;
               RqDetect [1%nat; 0%nat] shared_sentence; RqSanitize [0%nat] [[-1]]] =
  [RsBytes (repeat x00 15 ++ [x03]); RsBytes (repeat x00 16); RsLang 1; RsErr].
Proof. vm_compute. reflexivity. Qed.

