(* Proofs/AddrScriptAll.v — C05: the two directions composed; foreign-network objects. *)
From Coq Require Import ZArith List Bool Lia String.
From Coq.Strings Require Import Byte.
From Verif Require Import Lib.Bytes Gen.GenNetworks Gen.GenConsts Model.Wire Model.AddrScript.
From Verif Require Import Proofs.AddrScriptSpec Proofs.AddrScriptTac Proofs.AddrScriptStr Proofs.AddrScriptInv
     Proofs.AddrScriptObj Proofs.AddrScriptParse Proofs.AddrScriptHd Proofs.AddrScriptHints.
Import ListNotations.
Open Scope Z_scope.

Section WithH.
Variable H160 : bytes -> bytes.

(* ---------- what the guard gives: to_bytes leaves the payload, the standard script and the version bytes alone ---------- *)
Lemma guard_payload fx d : hex_guard fx d -> fx_tb fx (d_payload d) = d_payload d.
Proof. exact (tb_guard fx d). Qed.

Lemma guard_pfx fx d : hex_guard fx d -> forall n, In n all_networks -> pfx_ok fx n.
Proof. intros Hg n Hn. apply pfx_guard; [exact Hn|exact (hex_guard_kind fx d Hg)]. Qed.

(* ---------- the statements of Properties/C05.v ---------- *)
Lemma lock_is_spec_hash_g fx net d :
  In net all_networks -> standard d = true ->
  (fx_witver fx = true \/ cls_witver_obj d = false) -> hex_guard fx d ->
  out_is (lib_out_hash H160 fx net (d_payload d) (Some (stype_name (d_stype d))) (d_witver d) None)
         (spec_lock_script d) (stype_name (d_stype d)) (nw_name net) (OaIs (spec_address net d)).
Proof.
  intros Hn Hs Hw Hg. apply lock_is_spec_hash; [exact Hn|exact Hs|exact Hw|exact (guard_payload fx d Hg)|exact (guard_pfx fx d Hg net Hn)].
Qed.

Lemma lock_is_spec_obj_g fx net d :
  In net all_networks -> standard d = true ->
  (fx_witver fx = true \/ cls_witver_obj d = false) -> hex_guard fx d ->
  match lib_address_new H160 fx (d_payload d) None (Some (stype_name (d_stype d))) None None (d_witver d) net with
  | Some ao =>
    ao_addr ao = spec_address net d /\
    out_is (lib_out_addr_obj H160 fx net ao)
           (spec_lock_script d) (stype_name (d_stype d)) (nw_name net) (OaIs (spec_address net d))
  | None => False
  end.
Proof.
  intros Hn Hs Hw Hg. apply lock_is_spec_obj; [exact Hn|exact Hs|exact Hw|exact (guard_payload fx d Hg)|exact (guard_pfx fx d Hg net Hn)].
Qed.

Lemma lock_is_spec_parse_g fx net d :
  In net all_networks -> standard d = true ->
  (fx_witver fx = true \/ cls_witver_parse d = false) -> hex_guard fx d ->
  match lib_address_parse H160 fx (spec_address net d) (Some (nw_name net)) with
  | Some ao =>
    ao_addr ao = spec_address net d /\
    out_is (lib_out_addr_obj H160 fx net ao)
           (spec_lock_script d) (stype_name (d_stype d)) (nw_name net) (OaIs (spec_address net d))
  | None => False
  end.
Proof.
  intros Hn Hs Hw Hg. apply lock_is_spec_parse; [exact Hn|exact Hs|exact Hw|exact (guard_payload fx d Hg)|exact (guard_pfx fx d Hg)].
Qed.

Lemma lock_is_spec_parse_nonet_g fx net d :
  In net all_networks -> standard d = true ->
  fx_witver fx = true -> fx_netobj fx = true -> hex_guard fx d ->
  match lib_address_parse H160 fx (spec_address net d) None with
  | Some ao =>
    ao_addr ao = spec_address net d /\
    out_is (lib_out_addr_obj H160 fx net ao)
           (spec_lock_script d) (stype_name (d_stype d)) (nw_name net) (OaIs (spec_address net d))
  | None => False
  end.
Proof.
  intros Hn Hs Hw Ho Hg. apply lock_is_spec_parse_nonet; [exact Hn|exact Hs|exact Hw|exact Ho|exact (guard_payload fx d Hg)|exact (guard_pfx fx d Hg)].
Qed.

Lemma lib_inverse_script_g fx net d :
  In net all_networks -> standard d = true -> hex_guard fx d ->
  out_is (lib_out_script H160 fx net (spec_lock_script d))
         (spec_lock_script d) (stype_name (d_stype d)) (nw_name net) (OaIs (spec_address net d)).
Proof.
  intros Hn Hs Hg. apply lib_inverse_script;
    [exact Hn|exact Hs|exact (guard_payload fx d Hg)|exact (tb_guard_script fx d Hs Hg)|exact (guard_pfx fx d Hg net Hn)].
Qed.

(* Transaction.parse of a raw transaction that pays to the standard script *)
Lemma lib_inverse_tx_g fx net d :
  In net all_networks -> standard d = true -> hex_guard fx d ->
  out_is (lib_out_tx H160 fx net (spec_lock_script d))
         (spec_lock_script d) (stype_name (d_stype d)) (nw_name net) (OaIs (spec_address net d)).
Proof. exact (lib_inverse_script_g fx net d). Qed.

(* an output that carries the standard script of [d], however it was made, comes back from
   Transaction.raw() / Transaction.parse() as exactly the output of [d] *)
Lemma lib_reparse_standard fx net d r st nm a :
  In net all_networks -> standard d = true -> hex_guard fx d ->
  out_is r (spec_lock_script d) st nm a ->
  out_is (lib_reparse H160 fx net r)
         (spec_lock_script d) (stype_name (d_stype d)) (nw_name net) (OaIs (spec_address net d)).
Proof.
  intros Hn Hs Hg (o & -> & Hl & _). unfold lib_reparse. rewrite Hl. apply lib_inverse_tx_g; assumption.
Qed.

(* address -> output -> wire -> output: the parsed output reports the address the first one was built from *)
Lemma lib_tx_roundtrip fx net d :
  In net all_networks -> standard d = true ->
  (fx_witver fx = true \/ cls_witver_str d = false) -> hex_guard fx d ->
  out_is (lib_reparse H160 fx net (lib_out_addr_str H160 fx net (spec_address net d)))
         (spec_lock_script d) (stype_name (d_stype d)) (nw_name net) (OaIs (spec_address net d)).
Proof.
  intros Hn Hs Hw Hg. eapply lib_reparse_standard; [exact Hn|exact Hs|exact Hg|].
  exact (lock_is_spec_str H160 fx net d Hn Hs Hw).
Qed.

Lemma lib_roundtrip fx net d :
  In net all_networks -> standard d = true ->
  (fx_witver fx = true \/ cls_witver_str d = false) -> hex_guard fx d ->
  lib_script_to_address H160 fx net (spec_lock_script d) = Some (spec_address net d, stype_name (d_stype d)) /\
  lib_output_script H160 fx net (spec_address net d) = Some (spec_lock_script d).
Proof.
  intros Hn Hs Hg Hh. split.
  - destruct (lib_inverse_script_g fx net d Hn Hs Hh) as (o & Ho & _ & Hst & _ & Ha).
    unfold lib_script_to_address. rewrite Ho, Ha, Hst. reflexivity.
  - destruct (lock_is_spec_str H160 fx net d Hn Hs Hg) as (o & Ho & Hl & _).
    unfold lib_output_script, lib_out_addr_str in *. rewrite Ho, Hl. reflexivity.
Qed.

(* the address -> script direction alone needs no guard on the payload: the bytes come out of the address decoder *)
Lemma lib_output_script_spec fx net d :
  In net all_networks -> standard d = true ->
  (fx_witver fx = true \/ cls_witver_str d = false) ->
  lib_output_script H160 fx net (spec_address net d) = Some (spec_lock_script d).
Proof.
  intros Hn Hs Hg.
  destruct (lock_is_spec_str H160 fx net d Hn Hs Hg) as (o & Ho & Hl & _).
  unfold lib_output_script, lib_out_addr_str in *. rewrite Ho, Hl. reflexivity.
Qed.

(* what the library reports for a script identifies the destination: two standard destinations that
   the library maps to the same script are equal *)
Lemma lib_script_identifies fx net d d' :
  In net all_networks -> standard d = true -> standard d' = true ->
  (fx_witver fx = true \/ (cls_witver_str d = false /\ cls_witver_str d' = false)) ->
  lib_output_script H160 fx net (spec_address net d) = lib_output_script H160 fx net (spec_address net d') ->
  d = d'.
Proof.
  intros Hn Hs Hs' Hg E.
  assert (G : fx_witver fx = true \/ cls_witver_str d = false) by tauto.
  assert (G' : fx_witver fx = true \/ cls_witver_str d' = false) by tauto.
  rewrite (lib_output_script_spec fx net d Hn Hs G), (lib_output_script_spec fx net d' Hn Hs' G') in E.
  apply spec_lock_injective; [apply standard_is_wide; exact Hs | apply standard_is_wide; exact Hs' | congruence].
Qed.

Lemma tb_leaves_in fx l x : tb_leaves fx l -> In x l -> fx_tb fx x = x.
Proof.
  intros [H|[H Hl]] Hin; [apply H|]. rewrite H. apply to_bytes_id.
  rewrite forallb_forall in Hl. specialize (Hl x Hin). destruct (hexlike x); [discriminate|reflexivity].
Qed.

Lemma tb_leaves_kind fx l : tb_leaves fx l -> (forall x, fx_tb fx x = x) \/ fx_tb fx = lib_to_bytes.
Proof. intros [H|[H _]]; [left|right]; exact H. Qed.

(* HDKey(..., network=net, witness_type=w, multisig=ms) handed to an output of its own network *)
Lemma lock_is_spec_hd_g fx net w ms h160 s256 pub :
  (forall x, List.length (H160 x) = 20%nat) ->
  In net all_networks -> List.length h160 = 20%nat -> List.length s256 = 32%nat -> pub <> [] ->
  tb_leaves fx (hd_leaves H160 w h160 s256 pub) ->
  match lib_hd_address_obj H160 fx net w ms h160 s256 with
  | Some ao =>
    ao_addr ao = spec_address net (spec_hd_dest H160 w ms h160 s256) /\
    out_is (lib_out_hd H160 fx net ao pub w ms)
           (spec_lock_script (spec_hd_dest H160 w ms h160 s256))
           (stype_name (d_stype (spec_hd_dest H160 w ms h160 s256))) (nw_name net)
           (OaIs (spec_address net (spec_hd_dest H160 w ms h160 s256)))
  | None => False
  end.
Proof.
  intros HL Hn L1 L2 Hpub Hg.
  apply lock_is_spec_hd; try assumption.
  - unfold hd_clean. repeat split; try (apply (tb_leaves_in fx _ _ Hg); unfold hd_leaves; simpl; tauto).
    destruct w; try exact I.
    split; apply (tb_leaves_in fx _ _ Hg); unfold hd_leaves; simpl; tauto.
  - apply pfx_guard; [exact Hn|exact (tb_leaves_kind fx _ Hg)].
Qed.

(* Output(address=<string>, public_key=pub): with fixes/C05-4 the address decides and is checked *)
Lemma lock_is_spec_addr_pubkey_g fx net d pub :
  In net all_networks -> standard d = true ->
  (fx_witver fx = true \/ cls_witver_str d = false) ->
  fx_addrpk fx = true -> tb_leaves fx [pub] ->
  out_is (lib_out_addr_pubkey H160 fx net (spec_address net d) pub)
         (spec_lock_script d) (stype_name (d_stype d)) (nw_name net) OaGiven.
Proof.
  intros Hn Hs Hg Ha Hl. apply lock_is_spec_addr_pubkey; try assumption.
  apply tb_of. apply (tb_leaves_in fx _ _ Hl). left; reflexivity.
Qed.

Lemma foreign_refused_addr_pubkey_g fx A B d pub :
  In A all_networks -> In B all_networks ->
  addr_on_network B (spec_address A d) = false ->
  fx_addrpk fx = true -> tb_leaves fx [pub] ->
  lib_out_addr_pubkey H160 fx B (spec_address A d) pub = RErr.
Proof.
  intros HA HB Hf Ha Hl. apply foreign_refused_addr_pubkey; try assumption.
  apply tb_of. apply (tb_leaves_in fx _ _ Hl). left; reflexivity.
Qed.

Lemma foreign_object_refused fx o A B d :
  fx_netobj fx = true ->
  In A all_networks -> In B all_networks ->
  ao_addr o = spec_address A d ->
  String.eqb (nw_name (ao_net o)) (nw_name B) = false ->
  addr_on_network B (spec_address A d) = false ->
  lib_out_addr_obj H160 fx B o = RErr /\ (forall pub w ms, lib_out_hd H160 fx B o pub w ms = RErr).
Proof.
  intros Hfx HA HB Ha Hne Hf.
  pose proof (obj_network_refused fx o A B d HA HB Ha Hne Hf) as Hok.
  split; [apply foreign_refused_obj; assumption | intros; apply foreign_refused_hd; assumption].
Qed.

End WithH.

(* sample values used by the Examples of Properties/C05.v *)
Definition ex20 : bytes := repeat x07 20.
Definition ex32 : bytes := repeat x07 32.
(* a stand-in for hash160 in the Examples (no byte of it is a hexadecimal digit or white space) *)
Definition no_hash : bytes -> bytes := fun _ => repeat x99 20.

(* ---------- histories on ONE key object.  An HDKey carries a cache (_address_obj: the address object of the LAST call of
   address(), whatever script type / encoding was asked for) next to the fields that say what the key is (network, witness
   type, multisig flag, public key).  Output.__init__ calls address.address() with the key's own script type and encoding,
   which writes the key's standard address object into the cache before address_obj is read: the output is a function of
   the identity fields, not of the cache.  [hd_out] is that reading; [hd_out_cached] is the reading that trusts the cache
   (what the code would do if it read address_obj first), which is NOT history-free (refuted in Properties/C05.v). ---------- *)
Record hdkey_state := { ks_net : network; ks_w : wtype; ks_ms : bool; ks_h160 : bytes; ks_s256 : bytes; ks_pub : bytes;
                        ks_cache : option addr_obj }.

(* looks at a key: address(script_type=st, encoding=e) (st = None: the key's own type), address_obj, public() (a deep copy:
   same fields, same cache), and everything that leaves the cache alone (wif, hash160, as_dict, ...) *)
(* [LUncompressed h160u s256u] = address_uncompressed() / address(compressed=False), [h160u], [s256u] the hashes of the 65-byte
   encoding of the key: Key.address stores the answer to `compressed` in the key (self.compressed = False), from then on the
   object hashes the uncompressed encoding (finding hd_key_left_uncompressed: the one look that is not quiet). *)
Inductive look := LAddress (st : option string) (e : option enc) | LAddrObj | LPublic | LQuiet
                | LUncompressed (h160u s256u : bytes).
Definition look_keeps_key (l : look) : Prop := match l with LUncompressed _ _ => False | _ => True end.

Section History.
Variable H160 : bytes -> bytes.
Variable fx : fixes.

Definition hd_own_enc (w : wtype) : enc := match w with WSegwit => EBech | _ => EB58 end.

Definition hd_look (k : hdkey_state) (l : look) : hdkey_state :=
  let upd c := {| ks_net := ks_net k; ks_w := ks_w k; ks_ms := ks_ms k; ks_h160 := ks_h160 k; ks_s256 := ks_s256 k;
                  ks_pub := ks_pub k; ks_cache := c |} in
  match l with
  | LAddress st e =>
      let st' := match st with Some s => s | None => script_type_default (ks_w k) (ks_ms k) false end in
      let e' := match e with Some x => x | None => hd_own_enc (ks_w k) end in
      (* a refused call (None) leaves the cache as it was *)
      match lib_address_of_data H160 fx (ks_h160 k) (ks_s256 k) (Some st') (Some e') 0 (ks_net k) with
      | Some ao => upd (Some ao)
      | None => k
      end
  | LAddrObj =>
      match ks_cache k with
      | Some _ => k
      | None => upd (lib_hd_address_obj H160 fx (ks_net k) (ks_w k) (ks_ms k) (ks_h160 k) (ks_s256 k))
      end
  | LPublic | LQuiet => k
  | LUncompressed h160u s256u =>
      {| ks_net := ks_net k; ks_w := ks_w k; ks_ms := ks_ms k; ks_h160 := h160u; ks_s256 := s256u; ks_pub := ks_pub k;
         ks_cache := lib_address_of_data H160 fx h160u s256u (Some (script_type_default (ks_w k) (ks_ms k) false))
                                         (Some (hd_own_enc (ks_w k))) 0 (ks_net k) |}
  end.

Definition hd_out (net : network) (k : hdkey_state) : option ores :=
  match lib_hd_address_obj H160 fx (ks_net k) (ks_w k) (ks_ms k) (ks_h160 k) (ks_s256 k) with
  | Some ao => Some (lib_out_hd H160 fx net ao (ks_pub k) (ks_w k) (ks_ms k))
  | None => None
  end.

Definition hd_out_cached (net : network) (k : hdkey_state) : option ores :=
  match ks_cache (hd_look k LAddrObj) with
  | Some ao => Some (lib_out_hd H160 fx net ao (ks_pub k) (ks_w k) (ks_ms k))
  | None => None
  end.

Definition same_key (a b : hdkey_state) : Prop :=
  ks_net a = ks_net b /\ ks_w a = ks_w b /\ ks_ms a = ks_ms b /\ ks_h160 a = ks_h160 b /\ ks_s256 a = ks_s256 b /\
  ks_pub a = ks_pub b.

Lemma hd_look_same_key k l : look_keeps_key l -> same_key (hd_look k l) k.
Proof.
  intros Hq. unfold same_key, hd_look. destruct l as [st e| | | |hu su]; [ | | | |destruct Hq]; try (repeat split; reflexivity).
  - destruct (lib_address_of_data _ _ _ _ _ _ _ _); repeat split; reflexivity.
  - destruct (ks_cache k); repeat split; reflexivity.
Qed.

Lemma hd_looks_same_key ls : forall k, Forall look_keeps_key ls -> same_key (fold_left hd_look ls k) k.
Proof.
  induction ls as [|l ls IH]; intros k Hq; [repeat split; reflexivity|].
  inversion Hq as [|? ? Hl Hls]; subst.
  simpl. destruct (IH (hd_look k l) Hls) as (A & B & C & D & E & F).
  destruct (hd_look_same_key k l Hl) as (A' & B' & C' & D' & E' & F').
  repeat split; etransitivity; eassumption.
Qed.

Lemma hd_out_history_free net k ls :
  Forall look_keeps_key ls -> hd_out net (fold_left hd_look ls k) = hd_out net k.
Proof.
  intros Hq. destruct (hd_looks_same_key ls k Hq) as (A & B & C & D & E & F).
  unfold hd_out. rewrite A, B, C, D, E, F. reflexivity.
Qed.

End History.
