(* Proofs/AddrScriptAll.v — C05: the two directions composed; foreign-network objects. *)
From Coq Require Import ZArith List Bool Lia String.
From Coq.Strings Require Import Byte.
From Verif Require Import Lib.Bytes Gen.GenNetworks Gen.GenConsts Model.Wire Model.AddrScript.
From Verif Require Import Proofs.AddrScriptSpec Proofs.AddrScriptTac Proofs.AddrScriptStr Proofs.AddrScriptInv.
Import ListNotations.
Open Scope Z_scope.

Section WithH.
Variable H160 : bytes -> bytes.

Lemma lib_roundtrip fx net d :
  In net all_networks -> standard d = true ->
  (fx_witver fx = true \/ cls_witver_str d = false) ->
  lib_script_to_address H160 fx net (spec_lock_script d) = Some (spec_address net d, stype_name (d_stype d)) /\
  lib_output_script H160 fx net (spec_address net d) = Some (spec_lock_script d).
Proof.
  intros Hn Hs Hg. split.
  - destruct (lib_inverse_script H160 fx net d Hn Hs) as (o & Ho & _ & Hst & _ & Ha).
    unfold lib_script_to_address. rewrite Ho, Ha, Hst. reflexivity.
  - destruct (lock_is_spec_str H160 fx net d Hn Hs Hg) as (o & Ho & Hl & _).
    unfold lib_output_script, lib_out_addr_str in *. rewrite Ho, Hl. reflexivity.
Qed.

(* what the library reports for a script identifies the destination: two standard destinations that
   the library maps to the same script are equal *)
Lemma lib_script_identifies fx net d d' :
  In net all_networks -> standard d = true -> standard d' = true ->
  (fx_witver fx = true \/ (cls_witver_str d = false /\ cls_witver_str d' = false)) ->
  lib_output_script H160 fx net (spec_address net d) = lib_output_script H160 fx net (spec_address net d') ->
  d = d'.
Proof.
  intros Hn Hs Hs' Hg E.
  assert (G : fx_witver fx = true \/ cls_witver_str d = false) by tauto.
  assert (G' : fx_witver fx = true \/ cls_witver_str d' = false) by tauto.
  destruct (lib_roundtrip fx net d Hn Hs G) as [_ H1].
  destruct (lib_roundtrip fx net d' Hn Hs' G') as [_ H2].
  rewrite H1, H2 in E. apply spec_lock_injective; [apply standard_is_wide; exact Hs | apply standard_is_wide; exact Hs' | congruence].
Qed.

Lemma foreign_object_refused fx o A B d :
  fx_netobj fx = true ->
  In A all_networks -> In B all_networks ->
  ao_addr o = spec_address A d ->
  String.eqb (nw_name (ao_net o)) (nw_name B) = false ->
  addr_on_network B (spec_address A d) = false ->
  lib_out_addr_obj H160 fx B o = RErr /\ (forall pub w ms, lib_out_hd H160 fx B o pub w ms = RErr).
Proof.
  intros Hfx HA HB Ha Hne Hf.
  pose proof (obj_network_refused fx o A B d HA HB Ha Hne Hf) as Hok.
  split; [apply foreign_refused_obj; assumption | intros; apply foreign_refused_hd; assumption].
Qed.

End WithH.

(* sample values used by the Examples of Properties/C05.v *)
Definition ex20 : bytes := repeat x07 20.
Definition ex32 : bytes := repeat x07 32.
Definition no_hash : bytes -> bytes := fun _ => repeat x09 20.
