(* Proofs/EcdsaForms.v — argument forms (C13): every digest / signature / key argument is a bytes object or a str.
   The code paths of Model/Ecdsa.v work on the argument as given (to_hexstring, the txid setter, bytes.fromhex, the
   C reading of the digest text); here: for every argument that HAS a meaning (bytes: themselves; text: base-16, either
   case, nothing else) the answer is the stateless function of the meaning — the form never reaches it.  Outside:
   concrete witnesses (white space in a digest text, text that is not base-16). *)
From Coq Require Import ZArith List Bool Lia.
From Coq.Strings Require Import Byte.
From Verif Require Import Lib.Bytes Crypto.Sha256 Crypto.Secp256k1 Model.Der Model.Ecdsa Proofs.Ecdsa Proofs.EcdsaSession.
Import ListNotations.
Open Scope Z_scope.

(* ---------------------------------------------------------------- characters *)

Lemma hex_val_range c v : hex_val c = Some v -> 0 <= v < 16.
Proof. destruct c; vm_compute; intros H; try discriminate; injection H as <-; split; discriminate || reflexivity. Qed.

Lemma hex_val_not_ws c v : hex_val c = Some v -> is_ws c = false.
Proof. destruct c; vm_compute; intros H; try discriminate; reflexivity. Qed.

Lemma hex_digit_val x :
  hex_val (hex_digit (bz x / 16)) = Some (bz x / 16) /\ hex_val (hex_digit (bz x mod 16)) = Some (bz x mod 16).
Proof. destruct x; vm_compute; split; reflexivity. Qed.

Lemma hex_digit_upper_val x :
  hex_val (hex_digit_upper (bz x / 16)) = Some (bz x / 16) /\
  hex_val (hex_digit_upper (bz x mod 16)) = Some (bz x mod 16).
Proof. destruct x; vm_compute; split; reflexivity. Qed.

Lemma nibbles_byte x : zb (16 * (bz x / 16) + bz x mod 16) = x.
Proof. destruct x; reflexivity. Qed.

Definition not_upper (c : byte) : bool := negb ((65 <=? bz c) && (bz c <=? 70)).

Lemma hex_val_lower c v : hex_val c = Some v -> not_upper c = true -> c = hex_digit v.
Proof.
  intros H U. destruct c; vm_compute in H; try discriminate H; injection H as <-;
    first [reflexivity | vm_compute in U; discriminate U].
Qed.

Lemma byte_nibbles h l : 0 <= h < 16 -> 0 <= l < 16 ->
  bz (zb (16 * h + l)) / 16 = h /\ bz (zb (16 * h + l)) mod 16 = l /\ bz (zb (16 * h + l)) = 16 * h + l.
Proof.
  intros Hh Hl. rewrite bz_zb. rewrite (Z.mod_small (16 * h + l) 256) by lia.
  repeat split.
  - symmetry. apply (Z.div_unique (16 * h + l) 16 h l); lia.
  - symmetry. apply (Z.mod_unique (16 * h + l) 16 h l); lia.
Qed.

(* ---------------------------------------------------------------- unfolding equations *)

Lemma hex_ascii_cons x b : hex_ascii (x :: b) = hex_digit (bz x / 16) :: hex_digit (bz x mod 16) :: hex_ascii b.
Proof. reflexivity. Qed.

Lemma hex_ascii_upper_cons x b :
  hex_ascii_upper (x :: b) = hex_digit_upper (bz x / 16) :: hex_digit_upper (bz x mod 16) :: hex_ascii_upper b.
Proof. reflexivity. Qed.

Lemma unhex_pair a b rest : unhex (a :: b :: rest) =
  match hex_val a, hex_val b, unhex rest with
  | Some h, Some l, Some t => Some (zb (16 * h + l) :: t)
  | _, _, _ => None
  end.
Proof. reflexivity. Qed.

Lemma py_fromhex_cons a s1 : py_fromhex (a :: s1) =
  if is_ws a then py_fromhex s1
  else match s1 with
       | b :: rest =>
           match hex_val a, hex_val b, py_fromhex rest with
           | Some h, Some l, Some t => Some (zb (16 * h + l) :: t)
           | _, _, _ => None
           end
       | [] => None
       end.
Proof. reflexivity. Qed.

(* induction over base-16 text, two characters at a time *)
Lemma unhex_ind (P : bytes -> bytes -> Prop) :
  P [] [] ->
  (forall a b rest h l t, hex_val a = Some h -> hex_val b = Some l -> unhex rest = Some t -> P rest t ->
                          P (a :: b :: rest) (zb (16 * h + l) :: t)) ->
  forall s m, unhex s = Some m -> P s m.
Proof.
  intros H0 Hs s.
  assert (G : forall n s, (length s <= n)%nat -> forall m, unhex s = Some m -> P s m).
  { induction n as [|n IH]; intros s0 Hl m Hm.
    - destruct s0; [|cbn [length] in Hl; lia]. cbn in Hm. injection Hm as <-. exact H0.
    - destruct s0 as [|a [|b rest]].
      + cbn in Hm. injection Hm as <-. exact H0.
      + discriminate.
      + rewrite unhex_pair in Hm.
        destruct (hex_val a) as [h|] eqn:Ea; [|discriminate].
        destruct (hex_val b) as [l|] eqn:Eb; [|discriminate].
        destruct (unhex rest) as [t|] eqn:Er; [|discriminate].
        injection Hm as <-. apply Hs; try assumption.
        apply IH; [cbn [length] in Hl; lia|exact Er]. }
  intros m. apply (G (length s) s). lia.
Qed.

(* ---------------------------------------------------------------- hex text of bytes is base-16 text of them *)

Lemma unhex_hex_ascii b : unhex (hex_ascii b) = Some b.
Proof.
  induction b as [|x b IH]; [reflexivity|].
  rewrite hex_ascii_cons, unhex_pair. destruct (hex_digit_val x) as [A B]. rewrite A, B, IH, nibbles_byte. reflexivity.
Qed.

Lemma unhex_hex_ascii_upper b : unhex (hex_ascii_upper b) = Some b.
Proof.
  induction b as [|x b IH]; [reflexivity|].
  rewrite hex_ascii_upper_cons, unhex_pair. destruct (hex_digit_upper_val x) as [A B].
  rewrite A, B, IH, nibbles_byte. reflexivity.
Qed.

Lemma unhex_length s m : unhex s = Some m -> length s = (2 * length m)%nat.
Proof.
  revert s m. apply unhex_ind; [reflexivity|].
  intros a b rest h l t _ _ _ IH. cbn [length]. rewrite IH. lia.
Qed.

Lemma unhex_nil s : unhex s = Some [] -> s = [].
Proof. intros H. apply unhex_length in H. destruct s; [reflexivity|discriminate]. Qed.

Lemma unhex_fromhex s m : unhex s = Some m -> py_fromhex s = Some m.
Proof.
  revert s m. apply unhex_ind; [reflexivity|].
  intros a b rest h l t Ha Hb _ IH. rewrite py_fromhex_cons, (hex_val_not_ws a h Ha), Ha, Hb, IH. reflexivity.
Qed.

Lemma unhex_clean s m : unhex s = Some m -> clean_text s = true.
Proof.
  revert s m. apply unhex_ind; [reflexivity|].
  intros a b rest h l t Ha Hb _ IH. unfold clean_text in *. cbn [forallb]. unfold is_hexdigit at 1 2.
  rewrite Ha, Hb, IH, !orb_true_r. reflexivity.
Qed.

(* lower-case base-16 text IS the text bytes.hex() gives *)
Lemma unhex_lower s m : unhex s = Some m -> forallb not_upper s = true -> s = hex_ascii m.
Proof.
  revert s m. apply (unhex_ind (fun s m => forallb not_upper s = true -> s = hex_ascii m)); [reflexivity|].
  intros a b rest h l t Ha Hb _ IH U. cbn [forallb] in U.
  apply andb_true_iff in U. destruct U as [Ua U]. apply andb_true_iff in U. destruct U as [Ub U].
  rewrite hex_ascii_cons.
  destruct (byte_nibbles h l (hex_val_range _ _ Ha) (hex_val_range _ _ Hb)) as [D [M _]].
  rewrite D, M, <- (hex_val_lower a h Ha Ua), <- (hex_val_lower b l Hb Ub), <- (IH U). reflexivity.
Qed.

(* ---------------------------------------------------------------- the integer the C code reads *)

Definition hex_step (acc : Z) (c : byte) : Z := match hex_val c with Some v => 16 * acc + v | None => acc end.

Lemma hex_int_eq t : hex_int t = fold_left hex_step t 0.
Proof. reflexivity. Qed.

Lemma of_be_cons x t : of_be (x :: t) = bz x * 256 ^ Z.of_nat (length t) + of_be t.
Proof.
  unfold of_be. cbn [rev]. rewrite of_le_app, rev_length. cbn [of_le]. lia.
Qed.

Lemma fold_hex_unhex s m : unhex s = Some m ->
  forall acc, fold_left hex_step s acc = acc * 256 ^ Z.of_nat (length m) + of_be m.
Proof.
  revert s m. apply (unhex_ind (fun s m => forall acc, fold_left hex_step s acc = acc * 256 ^ Z.of_nat (length m) + of_be m)).
  - intros acc. cbn. unfold of_be. cbn. lia.
  - intros a b rest h l t Ha Hb _ IH acc. cbn [fold_left]. unfold hex_step at 2 3. rewrite Ha, Hb, IH.
    destruct (byte_nibbles h l (hex_val_range _ _ Ha) (hex_val_range _ _ Hb)) as [_ [_ V]].
    rewrite of_be_cons, V. cbn [length]. rewrite Nat2Z.inj_succ, Z.pow_succ_r by lia. ring.
Qed.

Lemma hex_int_unhex s m : unhex s = Some m -> hex_int s = of_be m.
Proof. intros H. rewrite hex_int_eq, (fold_hex_unhex s m H). lia. Qed.

(* base-16 text of a value is read by the C code as RFC 6979 bits2int reads the value *)
Lemma c_digest_unhex s m : unhex s = Some m -> c_digest s = bits2int m.
Proof.
  intros H. unfold c_digest, bits2int. rewrite (unhex_clean s m H), (hex_int_unhex s m H), (unhex_length s m H).
  cbv zeta. replace (4 * Z.of_nat (2 * length m)) with (8 * Z.of_nat (length m)) by lia. reflexivity.
Qed.

(* a general bound: whatever the text, the C code ends with an integer below 2^256 *)
Lemma fold_hex_bound t : forall acc, 0 <= acc ->
  0 <= fold_left hex_step t acc /\ fold_left hex_step t acc + 1 <= (acc + 1) * 16 ^ Z.of_nat (length t).
Proof.
  induction t as [|c t IH]; intros acc Ha.
  - cbn. lia.
  - cbn [fold_left length]. rewrite Nat2Z.inj_succ, Z.pow_succ_r by lia.
    assert (Hs : 0 <= hex_step acc c /\ hex_step acc c + 1 <= 16 * (acc + 1)).
    { unfold hex_step. destruct (hex_val c) as [v|] eqn:E; [pose proof (hex_val_range c v E)|]; lia. }
    destruct Hs as [S0 S1]. destruct (IH (hex_step acc c) S0) as [I0 I1]. split; [exact I0|].
    assert (0 < 16 ^ Z.of_nat (length t)) by (apply Z.pow_pos_nonneg; lia). nia.
Qed.

Lemma c_digest_range t : 0 <= c_digest t < 2 ^ 256.
Proof.
  unfold c_digest. destruct (clean_text t); [|lia]. cbv zeta.
  destruct (fold_hex_bound t 0 (Z.le_refl 0)) as [B0 B1]. rewrite <- hex_int_eq in B0, B1.
  set (L := Z.of_nat (length t)) in *. assert (0 <= L) by (unfold L; lia).
  assert (E16 : 16 ^ L = 2 ^ (4 * L)) by (change 16 with (2 ^ 4); rewrite <- Z.pow_mul_r by lia; reflexivity).
  rewrite E16 in B1.
  destruct (256 <? 4 * L) eqn:E.
  - apply Z.ltb_lt in E. rewrite Z.shiftr_div_pow2 by lia. split; [apply Z.div_pos; [lia|apply Z.pow_pos_nonneg; lia]|].
    apply Z.div_lt_upper_bound; [apply Z.pow_pos_nonneg; lia|].
    rewrite <- Z.pow_add_r by lia. replace (4 * L - 256 + 256) with (4 * L) by lia. lia.
  - apply Z.ltb_ge in E. split; [lia|].
    assert (2 ^ (4 * L) <= 2 ^ 256) by (apply Z.pow_le_mono_r; lia). lia.
Qed.

(* the effective digest bytes stand for the text: same emptiness, same integer *)
Lemma eff_digest_z t : lib_z (eff_digest t) = c_digest t.
Proof.
  destruct t as [|c t]; [reflexivity|]. unfold eff_digest, lib_z, bits2int. rewrite be_bytes_length.
  change (256 <? 8 * Z.of_nat 32) with false. cbv iota zeta.
  apply of_be_be_bytes_small. change (256 ^ Z.of_nat 32) with (2 ^ 256). apply c_digest_range.
Qed.

Lemma eff_digest_empty t : (length (eff_digest t) =? 0)%nat = (length t =? 0)%nat.
Proof. destruct t as [|c t]; [reflexivity|]. unfold eff_digest. rewrite be_bytes_length. reflexivity. Qed.

(* ---------------------------------------------------------------- the verifier looks at a digest through lib_z and emptiness only *)

Definition dg_equiv (d d' : bytes) : Prop := lib_z d = lib_z d' /\ (length d =? 0)%nat = (length d' =? 0)%nat.

Lemma lib_verify_rs_ext d d' r s Q : dg_equiv d d' -> lib_verify_rs d r s Q = lib_verify_rs d' r s Q.
Proof. intros [Hz He]. unfold lib_verify_rs. rewrite Hz, He. reflexivity. Qed.

Lemma lib_verify_step_ext d d' r s a : dg_equiv d d' -> lib_verify_step r s d a = lib_verify_step r s d' a.
Proof. intros H. unfold lib_verify_step. destruct (lib_key_arg a); [apply lib_verify_rs_ext; exact H|reflexivity]. Qed.

Lemma lib_verify_ext d d' sig Q : dg_equiv d d' -> lib_verify d sig Q = lib_verify d' sig Q.
Proof.
  intros H. rewrite !lib_verify_is_rs. destruct (lib_parse sig) as [[[r s] ht]|]; [apply lib_verify_rs_ext; exact H|reflexivity].
Qed.

(* the text both digest paths produce for an argument with a meaning is base-16 text of the meaning *)
Lemma txid_set_meaning a m : arg_meaning a = Some m -> unhex (lib_txid_set a) = Some m.
Proof. destruct a as [b|s]; cbn [arg_meaning lib_txid_set]; intros H; [injection H as <-; apply unhex_hex_ascii|exact H]. Qed.

Lemma to_hexstring_meaning a m : arg_meaning a = Some m -> lib_to_hexstring a = lib_txid_set a.
Proof.
  destruct a as [b|s]; cbn [arg_meaning lib_to_hexstring lib_txid_set]; intros H; [reflexivity|].
  destruct s as [|c s]; [reflexivity|]. rewrite (unhex_fromhex _ _ H). reflexivity.
Qed.

Lemma text_digest_equiv t m : unhex t = Some m -> dg_equiv (eff_digest t) m.
Proof.
  intros H. split.
  - rewrite eff_digest_z, (c_digest_unhex t m H). reflexivity.
  - rewrite eff_digest_empty, (unhex_length t m H). destruct m; reflexivity.
Qed.

Lemma dg_via_set_meaning a m : arg_meaning a = Some m -> dg_equiv (dg_via_set a) m.
Proof. intros H. apply text_digest_equiv, txid_set_meaning, H. Qed.

Lemma dg_via_verify_meaning a m : arg_meaning a = Some m -> dg_equiv (dg_via_verify a) m.
Proof. intros H. unfold dg_via_verify. rewrite (to_hexstring_meaning a m H). apply dg_via_set_meaning, H. Qed.

(* ---------------------------------------------------------------- signature and key arguments *)

Lemma sig_of_form_meaning a m : arg_meaning a = Some m -> sig_of_form a = Some m.
Proof. destruct a as [b|s]; cbn [arg_meaning sig_of_form]; intros H; [exact H|apply unhex_fromhex, H]. Qed.

Lemma key_of_form_meaning a m : arg_meaning a = Some m -> lib_key_arg (key_of_form a) = lib_pub_point m.
Proof.
  destruct a as [b|s]; cbn [arg_meaning key_of_form]; intros H; [injection H as <-; reflexivity|].
  rewrite H. reflexivity.
Qed.

Lemma fkey_meaning_key k a : fkey_meaning k = Some a -> lib_key_arg (key_of_fkey k) = lib_key_arg a.
Proof.
  destruct k as [a0|[b|s]]; cbn [fkey_meaning key_of_fkey key_of_form].
  - intros H. injection H as <-. reflexivity.
  - intros H. injection H as <-. reflexivity.
  - destruct (unhex s) as [b|]; [|discriminate]. intros H. injection H as <-. reflexivity.
Qed.

(* ---------------------------------------------------------------- THE statement for the verifier *)

(* keys.verify(txid, signature, public_key), each argument a bytes object or a str, each with a meaning: the
   stateless verifier on the three meanings *)
Lemma verify_forms_meaning dg sg key bd bs bk :
  arg_meaning dg = Some bd -> arg_meaning sg = Some bs -> arg_meaning key = Some bk ->
  lib_verify_forms dg sg key = lib_verify_key bd bs bk.
Proof.
  intros Hd Hs Hk. unfold lib_verify_forms, lib_verify_arg, lib_verify_key.
  rewrite (sig_of_form_meaning sg bs Hs), (key_of_form_meaning key bk Hk).
  destruct (lib_pub_point bk) as [Q|]; [|reflexivity].
  apply lib_verify_ext, dg_via_verify_meaning, Hd.
Qed.

(* bytes, lower-case text, upper-case text of the same three values: one answer *)
Lemma verify_forms_bytes_text bd bs bk :
  lib_verify_forms (PBytes bd) (PBytes bs) (PBytes bk) = lib_verify_key bd bs bk /\
  lib_verify_forms (PText (hex_ascii bd)) (PText (hex_ascii bs)) (PText (hex_ascii bk)) = lib_verify_key bd bs bk /\
  lib_verify_forms (PText (hex_ascii_upper bd)) (PText (hex_ascii_upper bs)) (PText (hex_ascii_upper bk)) =
    lib_verify_key bd bs bk.
Proof.
  repeat split; apply verify_forms_meaning; cbn [arg_meaning];
    reflexivity || apply unhex_hex_ascii || apply unhex_hex_ascii_upper.
Qed.

(* with lib_verify_key_exact: standard ECDSA on the meanings *)
Lemma verify_forms_exact dg sg key bd bs bk :
  arg_meaning dg = Some bd -> arg_meaning sg = Some bs -> arg_meaning key = Some bk ->
  bd <> [] -> der64 bs = false -> lax_der bs = false ->
  lib_verify_forms dg sg key = spec_verify_key (lib_z bd) bs bk.
Proof.
  intros Hd Hs Hk Hne H64 Hlax. rewrite (verify_forms_meaning dg sg key bd bs bk Hd Hs Hk).
  apply lib_verify_key_exact; assumption.
Qed.

(* one call on an object holding (r, s): by arguments or by attribute assignment *)
Lemma verify_step_forms_meaning r s by_attr dg k bd a :
  arg_meaning dg = Some bd -> fkey_meaning k = Some a ->
  lib_verify_step r s ((if by_attr : bool then dg_via_set else dg_via_verify) dg) (key_of_fkey k) =
  lib_verify_step r s bd a.
Proof.
  intros Hd Hk.
  rewrite (lib_verify_step_ext _ bd r s (key_of_fkey k))
    by (destruct by_attr; [apply dg_via_set_meaning|apply dg_via_verify_meaning]; exact Hd).
  unfold lib_verify_step. rewrite (fkey_meaning_key k a Hk). reflexivity.
Qed.

(* ---------------------------------------------------------------- sessions: the form never reaches a verdict *)

Definition txid_equiv (x y : option bytes) : Prop :=
  match x, y with
  | Some d, Some d' => dg_equiv d d'
  | None, None => True
  | _, _ => False
  end.

Definition obj_equiv (o o' : sig_obj) : Prop :=
  so_r o = so_r o' /\ so_s o = so_s o' /\ so_xy o = so_xy o' /\ so_haskey o = so_haskey o' /\
  txid_equiv (so_txid o) (so_txid o').

Definition key_equiv (x y : option key_arg) : Prop :=
  match x, y with
  | Some a, Some a' => lib_key_arg a = lib_key_arg a' /\ built_by_caller a = built_by_caller a'
  | None, None => True
  | _, _ => False
  end.

Definition step_equiv (st st' : verify_step) : Prop := txid_equiv (fst st) (fst st') /\ key_equiv (snd st) (snd st').

Lemma obj_verdict_equiv o o' : obj_equiv o o' -> obj_verdict o = obj_verdict o'.
Proof.
  intros [Hr [Hs [Hxy [Hk Ht]]]]. unfold obj_verdict. rewrite <- Hr, <- Hs, <- Hxy, <- Hk.
  destruct (so_txid o) as [d|], (so_txid o') as [d'|]; cbn in Ht; try contradiction; [|reflexivity].
  destruct (so_xy o) as [Q|]; [|reflexivity]. destruct (so_haskey o); [|reflexivity].
  apply lib_verify_rs_ext, Ht.
Qed.

Lemma obj_with_txid_equiv o o' x y : obj_equiv o o' -> txid_equiv x y -> obj_equiv (obj_with_txid o x) (obj_with_txid o' y).
Proof.
  intros E T. destruct x as [d|], y as [d'|]; cbn in T; try contradiction; cbn [obj_with_txid]; [|exact E].
  destruct E as [Hr [Hs [Hxy [Hk _]]]]. repeat split; cbn [so_r so_s so_xy so_haskey so_txid]; try assumption; apply T.
Qed.

Lemma obj_set_key_equiv o o' a a' : obj_equiv o o' -> lib_key_arg a = lib_key_arg a' ->
  obj_equiv (fst (obj_set_key o a)) (fst (obj_set_key o' a')) /\ snd (obj_set_key o a) = snd (obj_set_key o' a').
Proof.
  intros E K. unfold obj_set_key. rewrite <- K. destruct (lib_key_arg a) as [Q|]; [|split; [exact E|reflexivity]].
  destruct E as [Hr [Hs [Hxy [Hk Ht]]]].
  destruct (lib_on_curve Q); cbn [fst snd]; (split; [|reflexivity]);
    repeat split; cbn [so_r so_s so_xy so_haskey so_txid]; assumption.
Qed.

Lemma obj_verify_equiv o o' st st' : obj_equiv o o' -> step_equiv st st' ->
  obj_equiv (fst (obj_verify o st)) (fst (obj_verify o' st')) /\ snd (obj_verify o st) = snd (obj_verify o' st').
Proof.
  intros E [T K]. destruct st as [dg ka], st' as [dg' ka']. cbn [fst snd] in T, K. unfold obj_verify.
  destruct ka as [a|], ka' as [a'|]; cbn in K; try contradiction.
  - destruct K as [K B]. rewrite <- B, <- K.
    destruct (built_by_caller a && match lib_key_arg a with None => true | Some _ => false end);
      [split; [exact E|reflexivity]|].
    pose proof (obj_set_key_equiv _ _ a a' (obj_with_txid_equiv o o' dg dg' E T) K) as [E2 S2].
    destruct (obj_set_key (obj_with_txid o dg) a) as [o2 ok] eqn:E1.
    destruct (obj_set_key (obj_with_txid o' dg') a') as [o2' ok'] eqn:E1'. cbn [fst snd] in *. subst ok'.
    split; [exact E2|]. destruct ok; [apply obj_verdict_equiv, E2|reflexivity].
  - cbn [fst snd]. pose proof (obj_with_txid_equiv o o' dg dg' E T) as E2. split; [exact E2|apply obj_verdict_equiv, E2].
Qed.

Lemma run_session_equiv steps : forall steps' o o', obj_equiv o o' -> Forall2 step_equiv steps steps' ->
  run_session obj_verify o steps = run_session obj_verify o' steps'.
Proof.
  induction steps as [|st rest IH]; intros steps' o o' E F; inversion F as [|x y l l' Hxy Hl]; subst; [reflexivity|].
  rewrite !run_session_eq. destruct (obj_verify_equiv o o' st y E Hxy) as [E2 S2]. rewrite S2, (IH l' _ _ E2 Hl). reflexivity.
Qed.

Lemma dg_equiv_refl d : dg_equiv d d.
Proof. split; reflexivity. Qed.

Lemma obj_equiv_refl o : obj_equiv o o.
Proof. repeat split; try reflexivity. destruct (so_txid o); cbn; [apply dg_equiv_refl|exact I]. Qed.

(* a step whose arguments have meanings is equivalent to the step on the meanings *)
Lemma step_meaning_equiv st st' : step_meaning st = Some st' -> step_equiv (step_of_form st) st'.
Proof.
  destruct st as [[by_attr dg] key]. cbn [step_meaning step_of_form].
  destruct dg as [a|]; cbn [opt_meaning].
  - destruct (arg_meaning a) as [m|] eqn:Ea; [|discriminate].
    destruct key as [k|]; cbn [opt_meaning].
    + destruct (fkey_meaning k) as [ka|] eqn:Ek; [|discriminate]. intros H. injection H as <-.
      split; cbn [fst snd option_map].
      * destruct by_attr; [apply dg_via_set_meaning|apply dg_via_verify_meaning]; exact Ea.
      * split; [apply fkey_meaning_key, Ek|].
        destruct k as [a0|[b|s]]; cbn [fkey_meaning key_of_fkey key_of_form] in *.
        -- injection Ek as <-. reflexivity.
        -- injection Ek as <-. reflexivity.
        -- destruct (unhex s); [injection Ek as <-; reflexivity|discriminate].
    + intros H. injection H as <-. split; cbn [fst snd option_map]; [|exact I].
      destruct by_attr; [apply dg_via_set_meaning|apply dg_via_verify_meaning]; exact Ea.
  - destruct key as [k|]; cbn [opt_meaning].
    + destruct (fkey_meaning k) as [ka|] eqn:Ek; [|discriminate]. intros H. injection H as <-.
      split; cbn [fst snd option_map]; [exact I|].
      split; [apply fkey_meaning_key, Ek|].
      destruct k as [a0|[b|s]]; cbn [fkey_meaning key_of_fkey key_of_form] in *.
      * injection Ek as <-. reflexivity.
      * injection Ek as <-. reflexivity.
      * destruct (unhex s); [injection Ek as <-; reflexivity|discriminate].
    + intros H. injection H as <-. split; exact I.
Qed.

Fixpoint steps_meaning (steps : list form_step) : option (list verify_step) :=
  match steps with
  | [] => Some []
  | st :: rest =>
      match step_meaning st, steps_meaning rest with
      | Some m, Some ms => Some (m :: ms)
      | _, _ => None
      end
  end.

Lemma steps_meaning_equiv steps : forall steps', steps_meaning steps = Some steps' ->
  Forall2 step_equiv (map step_of_form steps) steps'.
Proof.
  induction steps as [|st rest IH]; intros steps' H; cbn [steps_meaning] in H.
  - injection H as <-. constructor.
  - destruct (step_meaning st) as [m|] eqn:Em; [|discriminate].
    destruct (steps_meaning rest) as [ms|] eqn:Er; [|discriminate]. injection H as <-.
    cbn [map]. constructor; [apply step_meaning_equiv, Em|apply IH; reflexivity].
Qed.

(* ONE object, any sequence of calls (arguments given or omitted, by call or by attribute assignment), every
   argument a bytes object or a str with a meaning: the verdicts are those of the session on the meanings *)
Lemma session_forms_meaning o steps steps' : steps_meaning steps = Some steps' ->
  run_session obj_verify o (map step_of_form steps) = run_session obj_verify o steps'.
Proof. intros H. apply run_session_equiv; [apply obj_equiv_refl|apply steps_meaning_equiv, H]. Qed.

(* the object built from arguments with meanings is equivalent to the object built from the meanings *)
Lemma new_obj_equiv r s dg dg' key key' : txid_equiv dg dg' -> key_equiv key key' ->
  match new_obj r s dg key, new_obj r s dg' key' with
  | Some o, Some o' => obj_equiv o o'
  | None, None => True
  | _, _ => False
  end.
Proof.
  intros T K. unfold new_obj. destruct (in_range r && in_range s); [|exact I].
  assert (E0 : obj_equiv (mk_sig_obj r s dg None false) (mk_sig_obj r s dg' None false))
    by (repeat split; cbn [so_txid]; exact T).
  destruct key as [a|], key' as [a'|]; cbn in K; try contradiction; [|exact E0].
  destruct K as [K _]. destruct (obj_set_key_equiv _ _ a a' E0 K) as [E2 S2].
  destruct (obj_set_key (mk_sig_obj r s dg None false) a) as [o2 ok].
  destruct (obj_set_key (mk_sig_obj r s dg' None false) a') as [o2' ok']. cbn [fst snd] in *. subst ok'.
  destruct ok; [exact E2|exact I].
Qed.

Lemma opt_key_equiv key key' : opt_meaning fkey_meaning key = Some key' -> key_equiv (option_map key_of_fkey key) key'.
Proof.
  destruct key as [k|]; cbn [opt_meaning option_map].
  - destruct (fkey_meaning k) as [ka|] eqn:Ek; [|discriminate]. intros H. injection H as <-. cbn.
    split; [apply fkey_meaning_key, Ek|].
    destruct k as [a0|[b|s0]]; cbn [fkey_meaning key_of_fkey key_of_form] in *.
    + injection Ek as <-. reflexivity.
    + injection Ek as <-. reflexivity.
    + destruct (unhex s0); [injection Ek as <-; reflexivity|discriminate].
  - intros H. injection H as <-. exact I.
Qed.

(* Signature.parse / parse_bytes / parse_hex (.., public_key=) and Signature(r, s, txid=, public_key=) followed by
   any session: arguments with meanings give the verdicts of the meanings *)
Lemma parsed_session_forms_meaning sg key steps bs key' steps' :
  arg_meaning sg = Some bs -> opt_meaning fkey_meaning key = Some key' -> steps_meaning steps = Some steps' ->
  lib_verify_session_forms (FBytes sg key) steps = lib_verify_session (SrcBytes bs key') steps'.
Proof.
  intros Hs Hk Hst. unfold lib_verify_session_forms, lib_verify_session. cbn [lib_new_obj_forms lib_new_obj].
  rewrite (sig_of_form_meaning sg bs Hs). cbn [lib_new_obj].
  destruct (lib_parse bs) as [[[r s] ht]|]; [|reflexivity].
  pose proof (new_obj_equiv r s None None (option_map key_of_fkey key) key' I (opt_key_equiv key key' Hk)) as E.
  destruct (new_obj r s None (option_map key_of_fkey key)) as [o|], (new_obj r s None key') as [o'|]; try contradiction;
    [|reflexivity].
  f_equal. apply run_session_equiv; [exact E|apply steps_meaning_equiv, Hst].
Qed.

Lemma values_session_forms_meaning r s dg key steps dg' key' steps' :
  opt_meaning arg_meaning dg = Some dg' -> opt_meaning fkey_meaning key = Some key' -> steps_meaning steps = Some steps' ->
  lib_verify_session_forms (FValues r s dg key) steps = lib_verify_session (SrcValues r s dg' key') steps'.
Proof.
  intros Hd Hk Hst. unfold lib_verify_session_forms, lib_verify_session. cbn [lib_new_obj_forms lib_new_obj].
  assert (T : txid_equiv (option_map dg_via_set dg) dg').
  { destruct dg as [a|]; cbn [opt_meaning option_map] in *.
    - destruct (arg_meaning a) as [m|] eqn:Ea; [|discriminate]. injection Hd as <-. cbn. apply dg_via_set_meaning, Ea.
    - injection Hd as <-. exact I. }
  pose proof (new_obj_equiv r s _ _ (option_map key_of_fkey key) key' T (opt_key_equiv key key' Hk)) as E.
  destruct (new_obj r s (option_map dg_via_set dg) (option_map key_of_fkey key)) as [o|], (new_obj r s dg' key') as [o'|];
    try contradiction; [|reflexivity].
  f_equal. apply run_session_equiv; [exact E|apply steps_meaning_equiv, Hst].
Qed.

(* ---------------------------------------------------------------- signing *)

Lemma lib_sign_forms_eq d a k ht : lib_sign_forms d a k ht =
  match lib_create_text a with
  | None => None
  | Some t =>
      if (1 <=? d) && (d <? secp_n) then
        match ecdsa_sign d (c_digest t)
                (match k with
                 | Some k0 => if k0 =? 0 then rfc6979_nonce d (sha256 t) else k0
                 | None => rfc6979_nonce d (sha256 t)
                 end) with
        | None => None
        | Some (r, s0) =>
            if (0 <=? ht) && (ht <? 256) then Some (r, lib_low_s s0, der_enc r (lib_low_s s0) ++ [zb ht]) else None
        end
      else None
  end.
Proof. reflexivity. Qed.

(* the text Signature.create signs, for an argument with a meaning: base-16 text of lib_digest of the meaning; the
   text bytes.hex() gives when the argument is bytes / lower-case text or when the message is hashed first *)
Lemma create_text_meaning a m : arg_meaning a = Some m ->
  exists t, lib_create_text a = Some t /\ unhex t = Some (lib_digest m) /\
            ((32 <? length m)%nat = true \/ lower_text a = true -> t = hex_ascii (lib_digest m)).
Proof.
  intros H. pose proof (txid_set_meaning a m H) as U. unfold lib_create_text, lib_digest.
  rewrite (unhex_length _ _ U), (unhex_fromhex _ _ U).
  replace (64 <? 2 * length m)%nat with (32 <? length m)%nat
    by (destruct (32 <? length m)%nat eqn:E; symmetry;
        [apply Nat.ltb_lt in E; apply Nat.ltb_lt; lia|apply Nat.ltb_ge in E; apply Nat.ltb_ge; lia]).
  destruct (32 <? length m)%nat eqn:E.
  - eexists. split; [reflexivity|]. split; [apply unhex_hex_ascii|]. intros _. reflexivity.
  - eexists. split; [reflexivity|]. split; [exact U|]. intros [C|L]; [discriminate|].
    destruct a as [b|s]; cbn [arg_meaning lib_txid_set lower_text] in *.
    + injection H as <-. reflexivity.
    + apply unhex_lower; [exact H|exact L].
Qed.

(* with an explicit non-zero nonce the signature is the one of the meaning, whatever the form *)
Lemma sign_forms_explicit d a m k ht : arg_meaning a = Some m -> k <> 0 ->
  lib_sign_forms d a (Some k) ht = lib_sign d m (Some k) ht.
Proof.
  intros H Hk. destruct (create_text_meaning a m H) as [t [Ht [Ut _]]].
  rewrite lib_sign_forms_eq, Ht. unfold lib_sign. rewrite lib_sign_with_eq. cbv zeta.
  unfold lib_pick_nonce, lib_z. rewrite (c_digest_unhex t _ Ut).
  destruct (k =? 0) eqn:E; [apply Z.eqb_eq in E; contradiction|]. reflexivity.
Qed.

(* bytes, lower-case text, and every message longer than 32 bytes: the signature of the meaning, RFC 6979 nonce included *)
Lemma sign_forms_meaning d a m k ht : arg_meaning a = Some m ->
  (32 <? length m)%nat = true \/ lower_text a = true ->
  lib_sign_forms d a k ht = lib_sign d m k ht.
Proof.
  intros H G. destruct (create_text_meaning a m H) as [t [Ht [Ut Lt]]]. specialize (Lt G).
  rewrite lib_sign_forms_eq, Ht. unfold lib_sign. rewrite lib_sign_with_eq. cbv zeta.
  unfold lib_pick_nonce, lib_nonce, lib_z. rewrite (c_digest_unhex t _ Ut), Lt. reflexivity.
Qed.

(* whatever the case of the text: the signed VALUE is the meaning, the signature is the textbook one at the nonce
   derived from the text (finding hex_case_changes_nonce lives in the nonce only) *)
Lemma sign_forms_value d a m ht : arg_meaning a = Some m ->
  exists t, unhex t = Some (lib_digest m) /\
            lib_sign_forms d a None ht = lib_sign_forms d a (Some (rfc6979_nonce d (sha256 t))) ht /\
            (rfc6979_nonce d (sha256 t) <> 0 ->
             lib_sign_forms d a None ht = lib_sign d m (Some (rfc6979_nonce d (sha256 t))) ht).
Proof.
  intros H. destruct (create_text_meaning a m H) as [t [Ht [Ut _]]]. exists t. split; [exact Ut|].
  assert (E : lib_sign_forms d a None ht = lib_sign_forms d a (Some (rfc6979_nonce d (sha256 t))) ht).
  { rewrite !lib_sign_forms_eq, Ht. destruct (rfc6979_nonce d (sha256 t) =? 0) eqn:E0; reflexivity. }
  split; [exact E|]. intros Hn. rewrite E. apply sign_forms_explicit; assumption.
Qed.

(* upper-case text: the model of finding hex_case_changes_nonce is this path *)
Lemma sign_forms_upper d m ht : lib_nonce_upper d m <> 0 ->
  lib_sign_forms d (PText (hex_ascii_upper m)) None ht = lib_sign_upper d m ht.
Proof.
  intros Hn. unfold lib_sign_upper.
  destruct (32 <? length m)%nat eqn:E.
  - apply sign_forms_meaning; [apply unhex_hex_ascii_upper|left; exact E].
  - destruct (sign_forms_value d (PText (hex_ascii_upper m)) m ht (unhex_hex_ascii_upper m)) as [t [Ut [E1 E2]]].
    assert (Ht : lib_create_text (PText (hex_ascii_upper m)) = Some (hex_ascii_upper m)).
    { unfold lib_create_text. cbn [lib_txid_set]. rewrite (unhex_length _ _ (unhex_hex_ascii_upper m)).
      replace (64 <? 2 * length m)%nat with false; [reflexivity|].
      symmetry. apply Nat.ltb_ge. apply Nat.ltb_ge in E. lia. }
    rewrite lib_sign_forms_eq, Ht.
    unfold lib_sign. rewrite lib_sign_with_eq. cbv zeta. unfold lib_pick_nonce, lib_nonce_upper in *.
    destruct (rfc6979_nonce d (sha256 (hex_ascii_upper m)) =? 0) eqn:E0; [apply Z.eqb_eq in E0; contradiction|].
    unfold lib_z, lib_digest. rewrite E, (c_digest_unhex _ _ (unhex_hex_ascii_upper m)). reflexivity.
Qed.

(* the object sign() returns, then any session: as for the meaning *)
Lemma signed_session_forms_meaning d a m k ht steps steps' : arg_meaning a = Some m ->
  (32 <? length m)%nat = true \/ lower_text a = true -> steps_meaning steps = Some steps' ->
  lib_verify_session_forms (FSign d a k ht) steps = lib_verify_session (SrcSign (mk_sign_req d m k ht)) steps'.
Proof.
  intros H G Hst. unfold lib_verify_session_forms, lib_verify_session. cbn [lib_new_obj_forms lib_new_obj].
  destruct (create_text_meaning a m H) as [t [Ht [Ut _]]]. rewrite Ht, (sign_forms_meaning d a m k ht H G).
  unfold lib_sign_req. cbn [sq_d sq_msg sq_k sq_ht].
  destruct (lib_sign d m k ht) as [[[r s] enc]|]; [|reflexivity]. f_equal.
  apply run_session_equiv; [|apply steps_meaning_equiv, Hst].
  repeat split; cbn [so_txid]; apply text_digest_equiv, Ut.
Qed.

(* ---------------------------------------------------------------- the signature argument alone *)
Lemma parse_forms_meaning a m : arg_meaning a = Some m ->
  match sig_of_form a with Some b => lib_parse b | None => None end = lib_parse m.
Proof. intros H. rewrite (sig_of_form_meaning a m H). reflexivity. Qed.

(* ================================================================ outside the meanings *)

(* text that is not base-16 under any reading (bytes.fromhex refuses it) is judged by verify as its UTF-8 bytes:
   verify('hello', ..) is verify(b'hello', ..) although verify('abcd', ..) is verify(b'\xab\xcd', ..) *)
Lemma nonhex_text_judged_as_utf8 s sg key : py_fromhex s = None ->
  lib_verify_forms (PText s) sg key = lib_verify_forms (PBytes s) sg key.
Proof.
  intros H. unfold lib_verify_forms, dg_via_verify. cbn [lib_to_hexstring]. rewrite H.
  destruct s; [discriminate|]. reflexivity.
Qed.

(* ... and signed as the integer 0, whatever it says (texts of at most 64 characters reach the C code as they are) *)
Lemma nonhex_text_signed_as_zero d s k ht : clean_text s = false -> (length s <= 64)%nat -> k <> 0 ->
  lib_sign_forms d (PText s) (Some k) ht =
  if (1 <=? d) && (d <? secp_n) then
    match ecdsa_sign d 0 k with
    | None => None
    | Some (r, s0) =>
        if (0 <=? ht) && (ht <? 256) then Some (r, lib_low_s s0, der_enc r (lib_low_s s0) ++ [zb ht]) else None
    end
  else None.
Proof.
  intros Hc Hl Hk. rewrite lib_sign_forms_eq. unfold lib_create_text. cbn [lib_txid_set].
  replace (64 <? length s)%nat with false by (symmetry; apply Nat.ltb_ge; exact Hl).
  unfold c_digest. rewrite Hc. destruct (k =? 0) eqn:E; [apply Z.eqb_eq in E; contradiction|]. reflexivity.
Qed.

(* ================================================================ witnesses (vm_compute) *)
From Verif Require Import Proofs.EcdsaWitness.

(* a digest text with white space: the 64 digits followed by a newline, as read from a file.  bytes.fromhex accepts
   the text (so to_hexstring hands it on unchanged); the C code counts the newline as a digit when it cuts the integer
   to 256 bits: the verifier judges (digest >> 4).  W11: (r, r) with r = x(15 G + Q) is valid for 15 r under Q and
   invalid for the digest 16 * 15 r; it is ACCEPTED for the text and rejected for the same digest as bytes / clean text *)
Definition w11_r : Z := 38901272619685732968285380035171577070479117282397203902622597987558769928140.
Definition w11_D : bytes := be_bytes 32 (16 * (15 * w11_r mod secp_n)).
Definition w11_text : bytes := hex_ascii w11_D ++ [x0a].
Definition w11_sig : bytes := der_enc w11_r w11_r ++ [x01].

Lemma w11_newline_digest :
  arg_meaning (PText w11_text) = None /\ py_fromhex w11_text = Some w11_D /\
  lib_to_hexstring (PText w11_text) = w11_text /\ c_digest w11_text = bits2int w11_D / 16 /\
  lib_verify_forms (PText w11_text) (PBytes w11_sig) (PBytes w8_pk) = Some true /\
  lib_verify_forms (PBytes w11_D) (PBytes w11_sig) (PBytes w8_pk) = Some false /\
  lib_verify_forms (PText (hex_ascii w11_D)) (PBytes w11_sig) (PBytes w8_pk) = Some false /\
  spec_verify_key (lib_z w11_D) w11_sig w8_pk = Some false.
Proof. conj_vm. Qed.

(* the same digest spelled 'a1 41 9b …' (96 characters): Signature.create counts CHARACTERS, finds more than 64 and
   signs the double SHA-256 of the digest instead of the digest *)
Definition spaced (b : bytes) : bytes :=
  flat_map (fun x => [hex_digit (bz x / 16); hex_digit (bz x mod 16); x20]) b.

Lemma w11_spaced_digest_signed_hashed :
  arg_meaning (PText (spaced w11_D)) = None /\ py_fromhex (spaced w11_D) = Some w11_D /\
  lib_create_text (PText (spaced w11_D)) = Some (hex_ascii (sha256d w11_D)) /\
  lib_create_text (PBytes w11_D) = Some (hex_ascii w11_D) /\
  lib_create_text (PText (hex_ascii_upper w11_D)) = Some (hex_ascii_upper w11_D).
Proof. conj_vm. Qed.

(* 'hello' / 'world': not base-16 *)
Definition w12_text : bytes := [x68; x65; x6c; x6c; x6f].
Definition w12_text' : bytes := [x77; x6f; x72; x6c; x64].

Lemma w12_nonhex_text :
  arg_meaning (PText w12_text) = None /\ py_fromhex w12_text = None /\ py_fromhex w12_text' = None /\
  lib_to_hexstring (PText w12_text) = hex_ascii w12_text /\
  lib_create_text (PText w12_text) = Some w12_text /\ c_digest w12_text = 0 /\ c_digest w12_text' = 0 /\
  clean_text w12_text = false /\ clean_text w12_text' = false.
Proof. conj_vm. Qed.

(* bytes whose bytes all read as hex text — the blind spot of to_bytes — are NOT re-interpreted by the code as it is:
   the 32 bytes b'0123456789abcdef0123456789abcdef' as digest are the integer of those 32 bytes, in every form *)
Definition w14_D : bytes := hex_ascii (be_bytes 16 0x0123456789abcdef0123456789abcdef).
Lemma w14_hexlike_bytes_digest :
  length w14_D = 32%nat /\ unhex w14_D = Some (be_bytes 16 0x0123456789abcdef0123456789abcdef) /\
  lib_z (dg_via_verify (PBytes w14_D)) = of_be w14_D /\ lib_z (dg_via_set (PBytes w14_D)) = of_be w14_D /\
  lib_z (dg_via_verify (PText (hex_ascii_upper w14_D))) = of_be w14_D /\
  lib_create_text (PBytes w14_D) = Some (hex_ascii w14_D).
Proof. conj_vm. Qed.

(* the hypotheses of verify_forms_meaning are satisfiable, and the W3 triple verifies in mixed forms: digest as
   upper-case text, signature as lower-case text, key as bytes; digest as hex-looking BYTES is another value *)
Lemma w15_mixed_forms :
  arg_meaning (PText (hex_ascii_upper w3_dg)) = Some w3_dg /\ arg_meaning (PText (hex_ascii w3_strict)) = Some w3_strict /\
  arg_meaning (PBytes w8_pk) = Some w8_pk /\
  lib_verify_forms (PText (hex_ascii_upper w3_dg)) (PText (hex_ascii w3_strict)) (PBytes w8_pk) = Some true /\
  lib_verify_key w3_dg w3_strict w8_pk = Some true /\
  arg_meaning (PBytes (hex_ascii w3_dg)) = Some (hex_ascii w3_dg) /\ hex_ascii w3_dg <> w3_dg.
Proof. repeat match goal with |- _ /\ _ => split end; try (vm_compute; reflexivity). vm_compute. discriminate. Qed.

(* ---------------------------------------------------------------- remaining entry points *)
Lemma verify_fkey_is_forms dg sg key : lib_verify_fkey dg sg (FP key) = lib_verify_forms dg sg key.
Proof. reflexivity. Qed.

Lemma sign_session_forms_is_map reqs : lib_sign_session_forms reqs = map lib_sign_req_f reqs.
Proof. unfold lib_sign_session_forms. apply run_session_stateless. reflexivity. Qed.

Lemma parse_how_meaning how a m : arg_meaning a = Some m ->
  lib_parse_forms how a = lib_parse m \/ lib_parse_forms how a = None.
Proof.
  intros H. destruct how, a as [b|s]; cbn [lib_parse_forms arg_meaning sig_of_form] in *.
  - injection H as <-. left. reflexivity.
  - right. reflexivity.
  - right. reflexivity.
  - rewrite (unhex_fromhex s m H). left. reflexivity.
  - injection H as <-. left. reflexivity.
  - rewrite (unhex_fromhex s m H). left. reflexivity.
Qed.
