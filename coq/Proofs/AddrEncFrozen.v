(* Proofs/AddrEncFrozen.v — the addresses of Address.__init__ are the standard encodings with the version bytes and
   human-readable parts of the FROZEN specification table (Model/SpecNetworks.v), not merely with whatever the
   regenerated table says (C04).  Rests on Proofs/SpecNetworksGlue.v: regenerated table = frozen table. *)
From Coq Require Import ZArith List Bool.
From Coq.Strings Require Import Byte.
From Verif Require Import Lib.Bytes Crypto.Secp256k1 Gen.GenNetworks Model.SpecNetworks Model.AddrEnc Model.KeyPoint
  Proofs.SpecNetworksGlue Proofs.AddrEnc Proofs.KeyPointWitness.
Import ListNotations.
Open Scope Z_scope.

(* the frozen-table encoding of the projected row is, by definition, the encoding over the regenerated row *)
Lemma frozen_is_spec nw st e data : frozen_address (proj_network nw) st e data = spec_address nw st e data.
Proof. destruct st, e; reflexivity. Qed.

Lemma frozen_p2tr_is_spec nw q : frozen_p2tr (proj_network nw) q = spec_p2tr nw q.
Proof. reflexivity. Qed.

Theorem address_is_standard_frozen_pf : forall nw sn st e data addr,
  In (nw, sn) (combine all_networks spec_networks) ->
  data <> [] -> hexlike data = false ->
  hexlike (lib_final_hash nw (Some st) (Some e) 0 data []) = false ->
  st <> StP2tr ->
  frozen_address sn st e data = Some addr ->
  lib_address nw (Some st) (Some e) 0 data [] = Some addr.
Proof.
  intros nw sn st e data addr Hin Hne Hd Hh Htr Hs.
  rewrite (paired_row_is_proj nw sn Hin), frozen_is_spec in Hs.
  apply address_is_standard_pf; try assumption.
  apply (paired_row_in_table nw sn Hin).
Qed.

Lemma map_eq_in {A B} (f g : A -> B) l x : map f l = map g l -> In x l -> f x = g x.
Proof.
  induction l as [|a l IH]; simpl; [tauto|].
  intros E [H|H]; inversion E; [subst; assumption | apply IH; assumption].
Qed.

Lemma by_name_is_proj nw : In nw all_networks -> spec_network_by_name (nw_name nw) = Some (proj_network nw).
Proof. intros H. exact (map_eq_in _ _ _ nw spec_lookup_is_proj H). Qed.

(* the same, addressed by the network NAME (what Address(..., network='dogecoin') receives) *)
Theorem address_by_name_is_standard_pf : forall nw st e data addr,
  In nw all_networks ->
  data <> [] -> hexlike data = false ->
  hexlike (lib_final_hash nw (Some st) (Some e) 0 data []) = false ->
  st <> StP2tr ->
  frozen_address_by_name (nw_name nw) st e data = Some (Some addr) ->
  lib_address nw (Some st) (Some e) 0 data [] = Some addr.
Proof.
  intros nw st e data addr Hin Hne Hd Hh Htr Hs.
  unfold frozen_address_by_name in Hs. rewrite (by_name_is_proj nw Hin), frozen_is_spec in Hs.
  apply address_is_standard_pf; try assumption. congruence.
Qed.

Theorem address_p2tr_of_output_key_frozen_pf : forall nw sn q wv,
  In (nw, sn) (combine all_networks spec_networks) ->
  length q = 32%nat -> hexlike q = false -> (wv = 0 \/ wv = 1) ->
  lib_address nw (Some StP2tr) (Some EncBech32) wv [] q = frozen_p2tr sn q.
Proof.
  intros nw sn q wv Hin Hl Hh Hw.
  rewrite (paired_row_is_proj nw sn Hin), frozen_p2tr_is_spec.
  apply address_p2tr_of_output_key_pf; assumption.
Qed.

(* ---------------------------------------------------------------- witnesses *)

Lemma frozen_dogecoin_p2sh_w :
  sn_prefix_address_p2sh sn_dogecoin = [x16] /\ sn_prefix_address sn_dogecoin = [x1e] /\
  In (nw_dogecoin, sn_dogecoin) (combine all_networks spec_networks) /\
  exists a, frozen_address sn_dogecoin StP2shP2wpkh EncBase58 G_compressed = Some a.
Proof.
  split; [reflexivity|]. split; [reflexivity|]. split.
  - vm_compute. tauto.
  - eexists. reflexivity.
Qed.

(* known: the regtest row carries the MAINNET version bytes; Bitcoin Core's regtest chain uses 6f / c4 (ref_regtest).
   Key(1, network='regtest').address() is not the address Bitcoin Core derives for that key on regtest. *)
Lemma regtest_not_core_w :
  sn_prefix_address sn_regtest = [x00] /\ sn_prefix_address ref_regtest = [x6f] /\
  sn_prefix_address_p2sh sn_regtest = [x05] /\ sn_prefix_address_p2sh ref_regtest = [xc4] /\
  exists a, frozen_address ref_regtest StP2pkh EncBase58 G_compressed = Some a /\
            lib_address nw_regtest (Some StP2pkh) (Some EncBase58) 0 G_compressed [] <> Some a.
Proof.
  repeat (split; [reflexivity|]).
  eexists. split; [vm_compute; reflexivity | vm_compute; discriminate].
Qed.
