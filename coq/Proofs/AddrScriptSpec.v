(* Proofs/AddrScriptSpec.v — C05, specification side: the standard locking scripts and the script
   classifier written from BIP16/BIP141 are mutually inverse (all payloads, all witness versions). *)
From Coq Require Import ZArith List Bool Lia String.
From Coq.Strings Require Import Byte.
From Verif Require Import Lib.Bytes Model.Wire Model.AddrScript Proofs.ScriptCodec.
Import ListNotations.
Open Scope Z_scope.

Lemma blen_app a b : blen (a ++ b) = blen a + blen b.
Proof. unfold blen. rewrite app_length, Nat2Z.inj_add. reflexivity. Qed.

Lemma blen_nonneg a : 0 <= blen a.
Proof. unfold blen. lia. Qed.

Lemma blen_cons x a : blen (x :: a) = 1 + blen a.
Proof. unfold blen. cbn [List.length]. lia. Qed.

Lemma blen_len a n : blen a = Z.of_nat n -> List.length a = n.
Proof. unfold blen. lia. Qed.

Lemma bz_zb_small z : 0 <= z < 256 -> bz (zb z) = z.
Proof. intros H. rewrite bz_zb. apply Z.mod_small. exact H. Qed.

Lemma byte_of_bz a z : 0 <= z < 256 -> bz a = z -> a = zb z.
Proof. intros Hz H. rewrite <- H. symmetry. apply zb_bz. Qed.

Lemma spec_classify_eq a b r : spec_classify (a :: b :: r) =
  if (bz a =? 118) && (bz b =? 169) then
    match r with
    | c :: h =>
        if (bz c =? 20) && (blen h =? 22) && bytes_eqb (skipn 20 h) [x88; xac]
        then Some (mkdest P2pkh 0 (firstn 20 h)) else None
    | [] => None
    end
  else if (bz a =? 169) then
    if (bz b =? 20) && (blen r =? 21) && bytes_eqb (skipn 20 r) [x87]
    then Some (mkdest P2sh 0 (firstn 20 r)) else None
  else if (bz a =? 0) then
    if (bz b =? blen r) && (blen r =? 20) then Some (mkdest P2wpkh 0 r)
    else if (bz b =? blen r) && (blen r =? 32) then Some (mkdest P2wsh 0 r)
    else None
  else if (81 <=? bz a) && (bz a <=? 96) then
    if (bz b =? blen r) && (2 <=? blen r) && (blen r <=? 40) then Some (mkdest P2tr (bz a - 80) r)
    else None
  else None.
Proof. reflexivity. Qed.

Lemma standard_is_wide d : standard d = true -> standard_wide d = true.
Proof.
  destruct d as [st w p]. unfold standard_wide, standard. cbn [d_stype d_witver d_payload].
  destruct st; auto. intros H.
  apply andb_true_iff in H. destruct H as [H H3]. apply andb_true_iff in H. destruct H as [H1 H2].
  rewrite H1, H2. cbn [andb]. apply orb_true_iff in H3. destruct H3 as [E|E]; apply Z.eqb_eq in E; rewrite E; reflexivity.
Qed.

(* ---------- lock then classify ---------- *)
Lemma classify_lock d : standard_wide d = true -> spec_classify (spec_lock_script d) = Some d.
Proof.
  destruct d as [st w p]. unfold standard_wide, standard, spec_lock_script, spec_push.
  cbn [d_stype d_witver d_payload]. intros H.
  destruct st.
  - (* P2pkh *)
    apply andb_true_iff in H. destruct H as [Hw Hn]. apply Z.eqb_eq in Hw, Hn. subst w.
    rewrite <- app_comm_cons. rewrite spec_classify_eq.
    change (bz x76) with 118. change (bz xa9) with 169. cbn [Z.eqb Pos.eqb andb].
    rewrite Hn. change (bz (zb 20)) with 20. rewrite blen_app, Hn.
    change (blen [x88; xac]) with 2. cbn [Z.add Pos.add Z.eqb Pos.eqb andb Pos.succ].
    pose proof (blen_len p 20 Hn) as Hl.
    replace (skipn 20 (p ++ [x88; xac])) with [x88; xac] by (rewrite <- Hl, skipn_app_exact; reflexivity).
    replace (firstn 20 (p ++ [x88; xac])) with p by (rewrite <- Hl, firstn_app_exact; reflexivity).
    reflexivity.
  - (* P2sh *)
    apply andb_true_iff in H. destruct H as [Hw Hn]. apply Z.eqb_eq in Hw, Hn. subst w.
    rewrite <- app_comm_cons. rewrite spec_classify_eq.
    change (bz xa9) with 169. cbn [Z.eqb Pos.eqb andb].
    rewrite Hn. change (bz (zb 20)) with 20. rewrite blen_app, Hn.
    change (blen [x87]) with 1. cbn [Z.add Pos.add Z.eqb Pos.eqb andb Pos.succ].
    pose proof (blen_len p 20 Hn) as Hl.
    replace (skipn 20 (p ++ [x87])) with [x87] by (rewrite <- Hl, skipn_app_exact; reflexivity).
    replace (firstn 20 (p ++ [x87])) with p by (rewrite <- Hl, firstn_app_exact; reflexivity).
    reflexivity.
  - (* P2wpkh *)
    apply andb_true_iff in H. destruct H as [Hw Hn]. apply Z.eqb_eq in Hw, Hn. subst w.
    unfold spec_opn. cbn [Z.eqb]. rewrite spec_classify_eq.
    change (bz x00) with 0. cbn [Z.eqb Pos.eqb andb].
    rewrite Hn. change (bz (zb 20)) with 20. reflexivity.
  - (* P2wsh *)
    apply andb_true_iff in H. destruct H as [Hw Hn]. apply Z.eqb_eq in Hw, Hn. subst w.
    unfold spec_opn. cbn [Z.eqb]. rewrite spec_classify_eq.
    change (bz x00) with 0. cbn [Z.eqb Pos.eqb andb].
    rewrite Hn. change (bz (zb 32)) with 32. reflexivity.
  - (* P2tr *)
    apply andb_true_iff in H. destruct H as [H H4]. apply andb_true_iff in H. destruct H as [H H3].
    apply andb_true_iff in H. destruct H as [H1 H2].
    apply Z.leb_le in H1, H2, H3, H4.
    unfold spec_opn. replace (w =? 0) with false by (symmetry; apply Z.eqb_neq; lia).
    rewrite spec_classify_eq.
    assert (Ha : bz (zb (80 + w)) = 80 + w) by (apply bz_zb_small; lia).
    assert (Hb : bz (zb (blen p)) = blen p) by (apply bz_zb_small; lia).
    rewrite Ha, Hb.
    replace (80 + w =? 118) with false by (symmetry; apply Z.eqb_neq; lia).
    replace (80 + w =? 169) with false by (symmetry; apply Z.eqb_neq; lia).
    replace (80 + w =? 0) with false by (symmetry; apply Z.eqb_neq; lia).
    replace (81 <=? 80 + w) with true by (symmetry; apply Z.leb_le; lia).
    replace (80 + w <=? 96) with true by (symmetry; apply Z.leb_le; lia).
    rewrite Z.eqb_refl.
    replace (2 <=? blen p) with true by (symmetry; apply Z.leb_le; lia).
    replace (blen p <=? 40) with true by (symmetry; apply Z.leb_le; lia).
    cbn [andb]. replace (80 + w - 80) with w by lia. reflexivity.
Qed.

(* ---------- classify then lock ---------- *)
Lemma lock_classify s d : spec_classify s = Some d -> standard_wide d = true /\ spec_lock_script d = s.
Proof.
  destruct s as [|a [|b r]]; try discriminate.
  rewrite spec_classify_eq.
  destruct ((bz a =? 118) && (bz b =? 169)) eqn:E1.
  { apply andb_true_iff in E1. destruct E1 as [Ea Eb]. apply Z.eqb_eq in Ea, Eb.
    destruct r as [|c h]; [discriminate|].
    destruct ((bz c =? 20) && (blen h =? 22) && bytes_eqb (skipn 20 h) [x88; xac]) eqn:E2; [|discriminate].
    apply andb_true_iff in E2. destruct E2 as [E2 Es]. apply andb_true_iff in E2. destruct E2 as [Ec El].
    apply Z.eqb_eq in Ec, El. apply bytes_eqb_true in Es.
    intros H. assert (d = mkdest P2pkh 0 (firstn 20 h)) by congruence. subst d. clear H.
    assert (Hf : List.length (firstn 20 h) = 20%nat) by (rewrite firstn_length; unfold blen in El; lia).
    split.
    - unfold standard_wide, standard. cbn [d_stype d_witver d_payload]. unfold blen. rewrite Hf. reflexivity.
    - unfold spec_lock_script, spec_push. cbn [d_stype d_payload]. unfold blen. rewrite Hf.
      rewrite (byte_of_bz a 118), (byte_of_bz b 169), (byte_of_bz c 20) by (lia || assumption).
      change (zb 118) with x76. change (zb 169) with xa9. change (Z.of_nat 20) with 20.
      rewrite <- app_comm_cons. do 3 f_equal. rewrite <- Es. apply firstn_skipn. }
  destruct (bz a =? 169) eqn:E2.
  { apply Z.eqb_eq in E2.
    destruct ((bz b =? 20) && (blen r =? 21) && bytes_eqb (skipn 20 r) [x87]) eqn:E3; [|discriminate].
    apply andb_true_iff in E3. destruct E3 as [E3 Es]. apply andb_true_iff in E3. destruct E3 as [Eb El].
    apply Z.eqb_eq in Eb, El. apply bytes_eqb_true in Es.
    intros H. assert (d = mkdest P2sh 0 (firstn 20 r)) by congruence. subst d. clear H.
    assert (Hf : List.length (firstn 20 r) = 20%nat) by (rewrite firstn_length; unfold blen in El; lia).
    split.
    - unfold standard_wide, standard. cbn [d_stype d_witver d_payload]. unfold blen. rewrite Hf. reflexivity.
    - unfold spec_lock_script, spec_push. cbn [d_stype d_payload]. unfold blen. rewrite Hf.
      rewrite (byte_of_bz a 169), (byte_of_bz b 20) by (lia || assumption).
      change (zb 169) with xa9. change (Z.of_nat 20) with 20.
      rewrite <- app_comm_cons. do 2 f_equal. rewrite <- Es. apply firstn_skipn. }
  destruct (bz a =? 0) eqn:E3.
  { apply Z.eqb_eq in E3.
    destruct ((bz b =? blen r) && (blen r =? 20)) eqn:E4.
    { apply andb_true_iff in E4. destruct E4 as [Eb El]. apply Z.eqb_eq in Eb, El.
      intros H. assert (d = mkdest P2wpkh 0 r) by congruence. subst d. clear H. split.
      - unfold standard_wide, standard. cbn [d_stype d_witver d_payload]. rewrite El. reflexivity.
      - unfold spec_lock_script, spec_push, spec_opn. cbn [d_stype d_witver d_payload Z.eqb].
        rewrite (byte_of_bz a 0) by (lia || assumption). rewrite <- Eb, zb_bz. reflexivity. }
    destruct ((bz b =? blen r) && (blen r =? 32)) eqn:E5; [|discriminate].
    apply andb_true_iff in E5. destruct E5 as [Eb El]. apply Z.eqb_eq in Eb, El.
    intros H. assert (d = mkdest P2wsh 0 r) by congruence. subst d. clear H. split.
    - unfold standard_wide, standard. cbn [d_stype d_witver d_payload]. rewrite El. reflexivity.
    - unfold spec_lock_script, spec_push, spec_opn. cbn [d_stype d_witver d_payload Z.eqb].
      rewrite (byte_of_bz a 0) by (lia || assumption). rewrite <- Eb, zb_bz. reflexivity. }
  destruct ((81 <=? bz a) && (bz a <=? 96)) eqn:E4; [|discriminate].
  apply andb_true_iff in E4. destruct E4 as [Ea1 Ea2]. apply Z.leb_le in Ea1, Ea2.
  destruct ((bz b =? blen r) && (2 <=? blen r) && (blen r <=? 40)) eqn:E5; [|discriminate].
  apply andb_true_iff in E5. destruct E5 as [E5 El2]. apply andb_true_iff in E5. destruct E5 as [Eb El1].
  apply Z.eqb_eq in Eb. apply Z.leb_le in El1, El2.
  intros H. assert (d = mkdest P2tr (bz a - 80) r) by congruence. subst d. clear H. split.
  - unfold standard_wide. cbn [d_stype d_witver d_payload].
    replace (1 <=? bz a - 80) with true by (symmetry; apply Z.leb_le; lia).
    replace (bz a - 80 <=? 16) with true by (symmetry; apply Z.leb_le; lia).
    replace (2 <=? blen r) with true by (symmetry; apply Z.leb_le; lia).
    replace (blen r <=? 40) with true by (symmetry; apply Z.leb_le; lia). reflexivity.
  - unfold spec_lock_script, spec_push, spec_opn. cbn [d_stype d_witver d_payload].
    replace (bz a - 80 =? 0) with false by (symmetry; apply Z.eqb_neq; lia).
    replace (80 + (bz a - 80)) with (bz a) by lia. rewrite zb_bz, <- Eb, zb_bz. reflexivity.
Qed.

(* two standard destinations with the same locking script are the same destination *)
Lemma spec_lock_injective d d' :
  standard_wide d = true -> standard_wide d' = true -> spec_lock_script d = spec_lock_script d' -> d = d'.
Proof.
  intros H H' E. apply classify_lock in H. apply classify_lock in H'. rewrite E in H. congruence.
Qed.
