(* Proofs/SighashSession.v — C01, life cycle of one Transaction object:
   the preimages depend on the committed fields only (not on scriptSig / witness / index_n, hence not on whether or
   how often the object was signed, verified or asked for a digest), a session of in-place changes gives the digest
   of a freshly built transaction with the final fields, observations are transparent, and the two copies of the
   version stay equal under every public operation. *)
From Coq Require Import ZArith List Bool Lia Arith.
From Coq.Strings Require Import Byte.
From Verif Require Import Lib.Bytes Model.Wire Model.TxCodec Gen.GenConsts Model.Sighash Proofs.Sighash Proofs.SighashEq.
Import ListNotations.
Open Scope Z_scope.

(* ---------- the committed part determines the preimages ---------- *)

Definition norm_sin (x : sin) : sin :=
  mk_sin (mk_txin (ti_prev (si_in x)) (ti_vout (si_in x)) [] (ti_seq (si_in x)) []) 0
         (si_kind x) (si_value x) (si_keys x) (si_m x).

Definition norm_stx (t : stx) : stx :=
  mk_stx (st_version t) (map norm_sin (st_ins t)) (st_outs t) (st_locktime t) (st_segwit t).

Definition sin_of_committed (c : bytes * Z * Z * kind * Z * list bytes * Z) : sin :=
  match c with
  | (prev, vout, q, k, v, keys, m) => mk_sin (mk_txin prev vout [] q []) 0 k v keys m
  end.

Lemma norm_sin_committed x : norm_sin x = sin_of_committed (sin_committed x).
Proof. reflexivity. Qed.

Lemma committed_norm t t' : committed_eq t t' -> norm_stx t = norm_stx t'.
Proof.
  intros (Hv & Hl & Hs & Ho & Hi). unfold norm_stx. rewrite Hv, Hl, Hs, Ho. f_equal.
  rewrite (map_ext norm_sin (fun x => sin_of_committed (sin_committed x)) norm_sin_committed).
  rewrite <- (map_map sin_committed sin_of_committed), Hi, map_map. reflexivity.
Qed.

Lemma sh_oconcat_map {A B} (g : A -> B) (f : B -> option bytes) l :
  sh_oconcat f (map g l) = sh_oconcat (fun a => f (g a)) l.
Proof. induction l as [|a l IH]; [reflexivity|]. cbn [map sh_oconcat]. rewrite IH. reflexivity. Qed.

Lemma sh_oconcat_ext {A} (f g : A -> option bytes) l : (forall a, f a = g a) -> sh_oconcat f l = sh_oconcat g l.
Proof. intros E. induction l as [|a l IH]; [reflexivity|]. cbn [sh_oconcat]. rewrite E, IH. reflexivity. Qed.

Lemma map_idx_map {A B C} (g : A -> B) (f : nat -> B -> C) l : forall j,
  map_idx f j (map g l) = map_idx (fun j a => f j (g a)) j l.
Proof. induction l as [|a l IH]; intros j; [reflexivity|]. cbn [map map_idx]. rewrite IH. reflexivity. Qed.

Lemma map_idx_ext {A B} (f g : nat -> A -> B) l : (forall j a, f j a = g j a) -> forall j, map_idx f j l = map_idx g j l.
Proof. intros E. induction l as [|a l IH]; intros j; [reflexivity|]. cbn [map_idx]. rewrite E, IH. reflexivity. Qed.

Lemma nth_error_norm l i : nth_error (map norm_sin l) i = option_map norm_sin (nth_error l i).
Proof. apply nth_error_map. Qed.

Section WithHashes.
Context (H : bytes -> bytes) (H160 : bytes -> bytes).

Lemma legacy_in_norm sid j x : lib_legacy_in_at H160 true sid j (norm_sin x) = lib_legacy_in_at H160 true sid j x.
Proof. destruct x as [[p v s q w] idx k val keys m]. reflexivity. Qed.

Lemma legacy_preimage_norm t sid ht :
  lib_legacy_preimage_at H160 true (norm_stx t) sid ht = lib_legacy_preimage_at H160 true t sid ht.
Proof.
  unfold lib_legacy_preimage_at, norm_stx. cbn [st_version st_ins st_outs st_locktime].
  rewrite map_length, map_idx_map.
  rewrite (map_idx_ext _ (lib_legacy_in_at H160 true sid) (st_ins t) (legacy_in_norm sid)). reflexivity.
Qed.

Lemma bip143_preimage_norm t i ht :
  lib_bip143_preimage_at H H160 true (norm_stx t) i ht = lib_bip143_preimage_at H H160 true t i ht.
Proof.
  unfold lib_bip143_preimage_at, norm_stx. cbn [st_version st_ins st_outs st_locktime st_segwit].
  rewrite !sh_oconcat_map.
  rewrite (sh_oconcat_ext (fun a => lib_outpoint (si_in (norm_sin a))) (fun x => lib_outpoint (si_in x)) (st_ins t))
    by (intros [[p v s q w] idx k val keys m]; reflexivity).
  rewrite (sh_oconcat_ext (fun a => sh_le 4 (ti_seq (si_in (norm_sin a)))) (fun x => sh_le 4 (ti_seq (si_in x))) (st_ins t))
    by (intros [[p v s q w] idx k val keys m]; reflexivity).
  rewrite nth_error_norm.
  assert (Ho : forall fixed, lib_hash_outputs H fixed
                 (mk_stx (st_version t) (map norm_sin (st_ins t)) (st_outs t) (st_locktime t) (st_segwit t)) i ht
               = lib_hash_outputs H fixed t i ht) by (intros fixed; reflexivity).
  rewrite Ho.
  destruct (nth_error (st_ins t) i) as [[[p v s q w] idx k val keys m]|]; reflexivity.
Qed.

Lemma signature_norm t sid ht wt :
  lib_signature H H160 (norm_stx t) sid ht wt = lib_signature H H160 t sid ht wt.
Proof.
  unfold lib_signature, lib_signature_at. destruct wt.
  - apply legacy_preimage_norm.
  - destruct (sid <? 0); [reflexivity|]. apply bip143_preimage_norm.
  - destruct (sid <? 0); [reflexivity|]. apply bip143_preimage_norm.
Qed.

(* the preimage for every sign_id, hash type and path is a function of the committed fields only *)
Theorem signature_depends_only_on_fields t t' :
  committed_eq t t' -> forall sid ht wt, lib_signature H H160 t sid ht wt = lib_signature H H160 t' sid ht wt.
Proof.
  intros E sid ht wt. rewrite <- (signature_norm t), <- (signature_norm t'), (committed_norm t t' E). reflexivity.
Qed.

Lemma committed_kinds t t' : committed_eq t t' -> forall p,
  option_map si_kind (nth_error (st_ins t) p) = option_map si_kind (nth_error (st_ins t') p).
Proof.
  intros (_ & _ & _ & _ & Hi) p.
  assert (E : forall l, option_map si_kind (nth_error l p)
              = option_map (fun c => si_kind (sin_of_committed c)) (nth_error (map sin_committed l) p)).
  { intros l. rewrite nth_error_map. destruct (nth_error l p) as [[[a b c d e] idx k val keys m]|]; reflexivity. }
  rewrite (E (st_ins t)), (E (st_ins t')), Hi. reflexivity.
Qed.

(* ... and so are the digest sign() uses and the digest verify() asks for, for every position *)
Theorem digest_depends_only_on_fields t t' :
  committed_eq t t' -> forall p ht,
  lib_digest H H160 t p ht = lib_digest H H160 t' p ht /\
  lib_verify_digest H H160 t p ht = lib_verify_digest H H160 t' p ht.
Proof.
  intros E p ht. pose proof (committed_kinds t t' E p) as Hk.
  pose proof (signature_depends_only_on_fields t t' E) as Hs.
  unfold lib_digest, lib_verify_digest, lib_digest_at, lib_verify_digest_at, lib_signature_hash_at.
  unfold lib_signature in Hs.
  destruct (nth_error (st_ins t) p) as [x|], (nth_error (st_ins t') p) as [x'|]; cbn [option_map] in Hk;
    try discriminate Hk; [|split; reflexivity].
  assert (Ek : si_kind x = si_kind x') by congruence. rewrite Ek, Hs. split; reflexivity.
Qed.

(* equal records, equal preimages: the trivial reading, kept under the name the correspondence refers to *)
Theorem equal_fields_equal_preimages t t' :
  t = t' -> forall sid ht wt, lib_signature H H160 t sid ht wt = lib_signature H H160 t' sid ht wt.
Proof. intros ->. reflexivity. Qed.

(* ---------- sessions ---------- *)

(* no hidden state: after ANY list of steps the object's answer is the library preimage function applied to the
   fields raw() serialises at that moment *)
Theorem session_no_hidden_state o ms sid ht wt :
  ob_signature H H160 (ob_run o ms) sid ht wt = lib_signature H H160 (ob_fields (ob_run o ms)) sid ht wt.
Proof. reflexivity. Qed.

Lemma ob_fields_fresh t : ob_fields (ob_fresh t) = t.
Proof. destruct t. reflexivity. Qed.

(* the session formulation: the preimage after the steps is the preimage of a freshly constructed (or parsed)
   transaction holding the final fields *)
Theorem session_digest_is_fresh_digest o ms sid ht wt :
  ob_signature H H160 (ob_run o ms) sid ht wt = ob_signature H H160 (ob_fresh (ob_fields (ob_run o ms))) sid ht wt.
Proof. unfold ob_signature. rewrite ob_fields_fresh. reflexivity. Qed.

(* two histories that end in the same committed fields answer alike, whatever was signed on the way *)
Theorem sessions_with_equal_fields_agree o ms o' ms' :
  committed_eq (ob_fields (ob_run o ms)) (ob_fields (ob_run o' ms')) ->
  forall sid ht wt, ob_signature H H160 (ob_run o ms) sid ht wt = ob_signature H H160 (ob_run o' ms') sid ht wt.
Proof. intros E sid ht wt. apply signature_depends_only_on_fields. exact E. Qed.

End WithHashes.

(* observations (digest, sign, verify, raw) leave the object as it was: dropping them from a session changes nothing *)
Lemma observation_id o m : is_observation m = true -> lib_apply o m = o.
Proof. destruct m; intros E; try discriminate E; reflexivity. Qed.

Theorem observations_transparent ms : forall o,
  ob_run o (filter (fun m => negb (is_observation m)) ms) = ob_run o ms.
Proof.
  induction ms as [|m ms IH]; intros o; [reflexivity|]. cbn [filter].
  destruct (is_observation m) eqn:E; cbn [negb].
  - unfold ob_run at 2. cbn [fold_left]. rewrite (observation_id o m E). apply IH.
  - unfold ob_run. cbn [fold_left]. apply (IH (lib_apply o m)).
Qed.

(* ---------- the two copies of the version ---------- *)

Definition versions_agree (o : tobj) : Prop := ob_version_int o = ob_version o.

Lemma sau_agree o : versions_agree o -> versions_agree (lib_sign_and_update o).
Proof. intros E. unfold lib_sign_and_update. destruct (in32 (ob_version_int o)); [reflexivity|exact E]. Qed.

(* sign_and_update repairs a version_int that ran ahead, provided it is a 32-bit value *)
Lemma sau_syncs o : in32 (ob_version_int o) = true -> versions_agree (lib_sign_and_update o).
Proof. intros E. unfold lib_sign_and_update. rewrite E. reflexivity. Qed.

Lemma in32_false_ge v : in32 v = false -> 2 <= v \/ v < 0.
Proof.
  unfold in32. intros E. apply andb_false_iff in E. destruct E as [E|E].
  - apply Z.leb_gt in E. right. exact E.
  - apply Z.ltb_ge in E. left. assert (0 < 2 ^ 32) by reflexivity. lia.
Qed.

Lemma set_relative_agree o i q lt : versions_agree o -> versions_agree (lib_set_relative o i q lt).
Proof.
  intros E. unfold lib_set_relative.
  set (o1 := mk_tobj _ _ _ _ _ _ _).
  destruct (in32 (ob_version_int o1)) eqn:E1; [apply sau_syncs; exact E1|].
  unfold lib_sign_and_update. rewrite E1. unfold versions_agree, o1 in *. cbn [ob_version_int ob_version] in *.
  destruct (ob_version_int o <? 2) eqn:E2; [discriminate E1|exact E].
Qed.

Lemma apply_agree o m : keeps_version_copies m = true -> versions_agree o -> versions_agree (lib_apply o m).
Proof.
  intros Hm E. destruct m; try discriminate Hm; cbn [lib_apply]; try exact E; try reflexivity.
  - (* add_input *) unfold lib_add_input, versions_agree. cbn [ob_version_int ob_version].
    match goal with |- (if ?c then _ else _) = _ => destruct c end; [reflexivity|exact E].
  - (* merge *) unfold lib_merge. apply sau_agree. exact E.
  - apply sau_agree. exact E.
  - unfold lib_set_locktime_relative_blocks.
    repeat match goal with |- versions_agree (if ?c then _ else _) => destruct c end; try exact E.
    apply set_relative_agree. exact E.
  - unfold lib_set_locktime_relative_time. cbv zeta.
    repeat match goal with |- versions_agree (if ?c then _ else _) => destruct c end; try exact E;
      apply set_relative_agree; exact E.
  - unfold lib_set_locktime_blocks, lib_set_absolute.
    repeat match goal with |- versions_agree (if ?c then _ else _) => destruct c end; try exact E.
    apply sau_agree. exact E.
  - unfold lib_set_locktime_time, lib_set_absolute.
    repeat match goal with |- versions_agree (if ?c then _ else _) => destruct c end; try exact E.
    apply sau_agree. exact E.
Qed.

(* every public operation keeps version and version_int equal; only assigning version_int alone separates them *)
Theorem version_copies_agree ms : forall o,
  forallb keeps_version_copies ms = true -> versions_agree o -> versions_agree (ob_run o ms).
Proof.
  induction ms as [|m ms IH]; intros o Hms E; [exact E|].
  cbn [forallb] in Hms. apply andb_true_iff in Hms. destruct Hms as [Hm Hms].
  unfold ob_run. cbn [fold_left]. apply (IH (lib_apply o m) Hms). apply apply_agree; assumption.
Qed.

Lemma new_agree v lt sw rbf : versions_agree (lib_new v lt sw rbf).
Proof. reflexivity. Qed.
Lemma ctor_agree v lt sw ins outs : versions_agree (lib_ctor v lt sw ins outs).
Proof. reflexivity. Qed.
Lemma fresh_agree t : versions_agree (ob_fresh t).
Proof. reflexivity. Qed.

Lemma fold_add_output_agree outs : forall o, versions_agree o -> versions_agree (fold_left lib_add_output outs o).
Proof. induction outs as [|u outs IH]; intros o E; [exact E|]. cbn [fold_left]. apply IH. exact E. Qed.

Lemma fold_add_input_agree ins : forall o, versions_agree o -> versions_agree (fold_left lib_add_input ins o).
Proof.
  induction ins as [|x ins IH]; intros o E; [exact E|]. cbn [fold_left]. apply IH.
  apply (apply_agree o (M_add_input x) eq_refl E).
Qed.

Theorem build_api_agree v lt sw rbf ins outs : versions_agree (ob_build_api v lt sw rbf ins outs).
Proof. unfold ob_build_api. apply fold_add_output_agree, fold_add_input_agree, new_agree. Qed.

(* under agreement the preimage may equally be said to commit to version_int *)
Theorem digest_commits_to_version_int (H H160 : bytes -> bytes) o :
  versions_agree o -> forall sid ht wt,
  ob_signature H H160 o sid ht wt =
  lib_signature H H160 (mk_stx (ob_version_int o) (ob_ins o) (ob_outs o) (ob_locktime o) (ob_segwit o)) sid ht wt.
Proof. intros E sid ht wt. unfold ob_signature, ob_fields. rewrite E. reflexivity. Qed.

(* ---------- re-signing a P2PK input writes the new signature into the scriptSig (fixes/C01-3) ---------- *)

Theorem p2pk_resign_scriptsig_ok old sig : lib_p2pk_scriptsig old sig = lib_varstr sig.
Proof. reflexivity. Qed.

(* ---------- the property along a session ---------- *)

(* C01 for a live object: whatever happened to it, the digest sign() uses (and verify() asks for) for the input at
   position i is the consensus digest of the transaction raw() serialises now *)
Theorem session_digest_ok (H H160 : bytes -> bytes) : (forall b, length (H160 b) = 20%nat) ->
  forall o ms i ht x,
  wf_stx (ob_fields (ob_run o ms)) -> nth_error (ob_ins (ob_run o ms)) i = Some x ->
  (k_segwit (si_kind x) = true -> ob_segwit (ob_run o ms) = true) ->
  hash_type_supported x ht ->
  ob_digest H H160 (ob_run o ms) i ht = spec_digest H H160 (ob_fields (ob_run o ms)) i ht /\
  ob_verify_digest H H160 (ob_run o ms) i ht = spec_digest H H160 (ob_fields (ob_run o ms)) i ht.
Proof.
  intros Hl o ms i ht x Hw Hx Hs Hh. unfold ob_digest, ob_verify_digest.
  pose proof (digest_ok H H160 Hl (ob_fields (ob_run o ms)) i ht x Hw Hx Hs Hh) as [Hd _].
  split; [exact Hd|].
  unfold lib_verify_digest. rewrite (verify_digest_is_sign_digest H H160 true); [exact Hd|discriminate].
Qed.

(* ---------- the example session of Properties/C01.v ---------- *)

Definition ex_final : stx :=
  mk_stx 2 [sin_with_seq 100 (ex_in0 0 5000000000); sin_with_seq 4294967293 (ex_in1 1 K_p2sh_multisig)] ex_outs 606060 true.

Lemma ex_session_fields_proof : ob_fields (ob_run ex_obj ex_session) = ex_final.
Proof. vm_compute. reflexivity. Qed.

Lemma ex_final_wf : wf_stx ex_final.
Proof.
  unfold wf_stx, ex_final. cbn [st_version st_locktime st_ins st_outs]. conj; try num.
  - repeat apply Forall_cons; try apply Forall_nil; unfold wf_sin; conj; try num.
    all: repeat apply Forall_cons; try apply Forall_nil; left; reflexivity.
  - repeat apply Forall_cons; try apply Forall_nil; unfold wf_sout; conj; num.
Qed.

Lemma ex_session_wf_proof :
  wf_stx (ob_fields (ob_run ex_obj ex_session)) /\
  forallb keeps_version_copies ex_session = true /\ versions_agree ex_obj /\
  exists x, nth_error (ob_ins (ob_run ex_obj ex_session)) 0 = Some x /\
            (k_segwit (si_kind x) = true -> ob_segwit (ob_run ex_obj ex_session) = true) /\
            hash_type_supported x 1.
Proof.
  rewrite ex_session_fields_proof. split; [exact ex_final_wf|]. split; [reflexivity|]. split; [reflexivity|].
  eexists. split; [vm_compute; reflexivity|]. split; [intros _; vm_compute; reflexivity|].
  split; [split; [discriminate|reflexivity]|intros _; reflexivity].
Qed.
