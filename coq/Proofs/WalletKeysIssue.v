(* Proofs/WalletKeysIssue.v — C09: index issuance, the listing functions and creation from a mnemonic.

   - next_index is one above EVERY stored index of its chain, whatever the order in which the rows were created
     (it is a function of the set of rows: invariant under permutations of the book), so the index a new key gets
     is carried by no stored key of the chain;
   - in every reachable state the address_index column of a row is the child number of the last element of its
     path, hence two rows under one parent never carry the same index;
   - Wallet.keys(...) returns exactly the stored rows that pass every given filter;
   - a wallet created from a mnemonic sentence and a passphrase is the wallet of the BIP39 seed of both. *)
From Coq Require Import ZArith Bool String List Lia Permutation.
From Verif Require Import Lib.Bytes Crypto.Hmac Gen.GenNetworks Gen.GenWalletCfg Model.WalletKeys Proofs.WalletKeysBook.
Import ListNotations.
Open Scope Z_scope.

(* ------------------------------------------------------------------ folds of Z.max *)
Lemma fold_max_ge_init : forall l a, a <= fold_left Z.max l a.
Proof.
  induction l as [|x l IH]; intros a; simpl; [lia|].
  specialize (IH (Z.max a x)). lia.
Qed.

Lemma fold_max_ge_elem : forall l a x, In x l -> x <= fold_left Z.max l a.
Proof.
  induction l as [|y l IH]; intros a x H; simpl; [destruct H|].
  destruct H as [E|H].
  - subst y. pose proof (fold_max_ge_init l (Z.max a x)). lia.
  - apply IH. exact H.
Qed.

Lemma fold_max_mono : forall l a b, a <= b -> fold_left Z.max l a <= fold_left Z.max l b.
Proof.
  induction l as [|x l IH]; intros a b H; simpl; [exact H|]. apply IH. lia.
Qed.

Lemma fold_max_in : forall l a, fold_left Z.max l a = a \/ In (fold_left Z.max l a) l.
Proof.
  induction l as [|x l IH]; intros a; simpl; [left; reflexivity|].
  destruct (IH (Z.max a x)) as [E|H].
  - rewrite E. destruct (Z.max_spec a x) as [[_ M]|[_ M]]; rewrite M; [right; left; reflexivity | left; reflexivity].
  - right. right. exact H.
Qed.

(* the fold is determined by the set of its arguments *)
Lemma fold_max_unique : forall l a m,
  (a <= m) -> (forall x, In x l -> x <= m) -> (m = a \/ In m l) -> fold_left Z.max l a = m.
Proof.
  intros l a m Ha Hl Hm.
  assert (U : fold_left Z.max l a <= m).
  { destruct (fold_max_in l a) as [E|H]; [rewrite E; exact Ha | apply Hl; exact H]. }
  assert (L : m <= fold_left Z.max l a).
  { destruct Hm as [E|H]; [subst m; apply fold_max_ge_init | apply fold_max_ge_elem; exact H]. }
  lia.
Qed.

Section IssueProofs.
Variable X : Type.
Variable derive : X -> pelem -> option X.

Notation keyrec := (keyrec X).
Notation wstate := (wstate X).

(* ------------------------------------------------------------------ max_index / next_index *)
Lemma max_index_none : forall l : list keyrec, max_index X l = None <-> l = [].
Proof. intros [|k r]; simpl; split; intros H; try reflexivity; discriminate. Qed.

Lemma max_index_ge : forall (l : list keyrec) k m, max_index X l = Some m -> In k l -> k_index k <= m.
Proof.
  intros [|k0 r] k m H Hin; [destruct Hin|]. simpl in H. inversion H; subst m. clear H.
  destruct Hin as [E|Hin].
  - subst k0. apply fold_max_ge_init.
  - apply fold_max_ge_elem. apply in_map. exact Hin.
Qed.

Lemma max_index_attained : forall (l : list keyrec) m, max_index X l = Some m -> exists k, In k l /\ k_index k = m.
Proof.
  intros [|k0 r] m H; [discriminate|]. simpl in H. inversion H; subst m. clear H.
  destruct (fold_max_in (map k_index r) (k_index k0)) as [E|Hin].
  - exists k0. split; [left; reflexivity | symmetry; exact E].
  - apply in_map_iff in Hin. destruct Hin as [k [E Hk]]. exists k. split; [right; exact Hk | exact E].
Qed.

(* max_index depends only on the set of rows *)
Lemma max_index_set : forall (l l' : list keyrec),
  (forall k, In k l <-> In k l') -> max_index X l = max_index X l'.
Proof.
  intros l l' Hs.
  destruct (max_index X l) as [m|] eqn:A; destruct (max_index X l') as [m'|] eqn:B.
  - f_equal.
    destruct (max_index_attained _ _ A) as [k [Hk Ek]].
    destruct (max_index_attained _ _ B) as [k' [Hk' Ek']].
    pose proof (max_index_ge _ _ _ B (proj1 (Hs k) Hk)).
    pose proof (max_index_ge _ _ _ A (proj2 (Hs k') Hk')). lia.
  - apply max_index_none in B. subst l'. destruct (max_index_attained _ _ A) as [k [Hk _]].
    apply Hs in Hk. destruct Hk.
  - apply max_index_none in A. subst l. destruct (max_index_attained _ _ B) as [k [Hk _]].
    apply Hs in Hk. destruct Hk.
  - reflexivity.
Qed.

Definition chain_pred (c : wcfg) (purpose : Z) (net : string) (acct : Z) (wt : wtype) (change : Z) (k : keyrec) : bool :=
  in_chain X c net acct wt change k && (k_purpose k =? purpose).

(* the index issued next is above every stored index of the chain *)
Theorem next_index_above_chain : forall (w : wstate) purpose net acct wt change k,
  In k (ws_keys w) -> chain_pred (ws_cfg w) purpose net acct wt change k = true ->
  k_index k < next_index X w purpose net acct wt change.
Proof.
  intros w purpose net acct wt change k Hin Hp. unfold next_index.
  fold (chain_pred (ws_cfg w) purpose net acct wt change).
  destruct (max_index X (filter (chain_pred (ws_cfg w) purpose net acct wt change) (ws_keys w))) as [m|] eqn:M.
  - assert (k_index k <= m); [|lia].
    eapply max_index_ge; [exact M|]. apply filter_In. split; assumption.
  - apply max_index_none in M.
    assert (F : In k (filter (chain_pred (ws_cfg w) purpose net acct wt change) (ws_keys w)))
      by (apply filter_In; split; assumption).
    rewrite M in F. destruct F.
Qed.

(* ... hence carried by no stored key of the chain *)
Theorem next_index_fresh : forall (w : wstate) purpose net acct wt change k,
  In k (ws_keys w) -> chain_pred (ws_cfg w) purpose net acct wt change k = true ->
  k_index k <> next_index X w purpose net acct wt change.
Proof.
  intros w purpose net acct wt change k Hin Hp E.
  pose proof (next_index_above_chain w purpose net acct wt change k Hin Hp). lia.
Qed.

(* it is exactly one above the highest stored index (0 for an empty chain) *)
Theorem next_index_is_succ_of_highest : forall (w : wstate) purpose net acct wt change,
  (next_index X w purpose net acct wt change = 0 /\
   forall k, In k (ws_keys w) -> chain_pred (ws_cfg w) purpose net acct wt change k = false) \/
  (exists k, In k (ws_keys w) /\ chain_pred (ws_cfg w) purpose net acct wt change k = true /\
             next_index X w purpose net acct wt change = k_index k + 1).
Proof.
  intros w purpose net acct wt change. unfold next_index.
  fold (chain_pred (ws_cfg w) purpose net acct wt change).
  destruct (max_index X (filter (chain_pred (ws_cfg w) purpose net acct wt change) (ws_keys w))) as [m|] eqn:M.
  - right. destruct (max_index_attained _ _ M) as [k [Hk Ek]]. apply filter_In in Hk. destruct Hk as [Hin Hp].
    exists k. repeat split; [exact Hin | exact Hp | lia].
  - left. split; [reflexivity|]. intros k Hin. apply max_index_none in M.
    destruct (chain_pred (ws_cfg w) purpose net acct wt change k) eqn:P; [|reflexivity].
    assert (F : In k (filter (chain_pred (ws_cfg w) purpose net acct wt change) (ws_keys w)))
      by (apply filter_In; split; assumption).
    rewrite M in F. destruct F.
Qed.

(* it does not depend on the order in which the rows were created / are stored *)
Theorem next_index_order_independent : forall (w w' : wstate) purpose net acct wt change,
  ws_cfg w = ws_cfg w' -> Permutation (ws_keys w) (ws_keys w') ->
  next_index X w purpose net acct wt change = next_index X w' purpose net acct wt change.
Proof.
  intros w w' purpose net acct wt change Hc Hp. unfold next_index. rewrite Hc.
  rewrite (max_index_set
             (filter (fun k => in_chain X (ws_cfg w') net acct wt change k && (k_purpose k =? purpose)) (ws_keys w))
             (filter (fun k => in_chain X (ws_cfg w') net acct wt change k && (k_purpose k =? purpose)) (ws_keys w')));
    [reflexivity|].
  intros k. rewrite !filter_In. split; intros [A B]; split; auto.
  - eapply Permutation_in; eauto.
  - eapply Permutation_in; [apply Permutation_sym; exact Hp | exact A].
Qed.

(* ------------------------------------------------------------------ a row-wise invariant of every history *)
Section RowInvariant.
Variable P : keyrec -> Prop.
Hypothesis P_new : forall id (parent : keyrec) e x cl,
  P {| k_id := id; k_parent := k_id parent; k_path := k_path parent ++ [e]; k_net := c_net cl;
       k_wt := c_wt cl; k_purpose := c_purpose cl; k_account := c_account cl; k_change := c_change cl;
       k_index := fst e mod H31; k_used := false; k_x := x |}.
Hypothesis P_used : forall id k, P k -> P (set_used X id k).

Definition RInv (ks : list keyrec) : Prop := forall k, In k ks -> P k.

Lemma from_key_rinv : forall ks id parent e x cl,
  RInv ks -> RInv (fst (from_key X ks id parent e x cl)).
Proof.
  intros ks id parent e x cl H. unfold from_key.
  destruct (find_path X (k_path parent ++ [e]) ks); simpl; [exact H|].
  intros k Hk. apply in_app_or in Hk. destruct Hk as [Hk|[Hk|[]]]; [auto|]. subst k. apply P_new.
Qed.

Lemma create_chain_rinv : forall levels ks top cl ks' r,
  RInv ks -> create_chain X derive ks top levels cl = (ks', r) -> RInv ks'.
Proof.
  induction levels as [|e rest IH]; intros ks top cl ks' r HI H; simpl in H.
  - inversion H; subst. exact HI.
  - destruct (derive (k_x top) e) as [x|].
    + eapply IH; [|exact H]. apply from_key_rinv. exact HI.
    + inversion H; subst. exact HI.
Qed.

Lemma create_bulk_rinv : forall count ks parent hard idx id cl ks' r,
  RInv ks -> create_bulk X derive ks parent hard idx id count cl = (ks', r) -> RInv ks'.
Proof.
  induction count as [|c IH]; intros ks parent hard idx id cl ks' r HI H; simpl in H.
  - inversion H; subst. exact HI.
  - destruct (derive (k_x parent) (idx, hard)) as [x|].
    + destruct (create_bulk X derive (fst (from_key X ks id parent (idx, hard) x cl)) parent hard (idx + 1) (id + 1) c cl)
        as [ks2 r2] eqn:B.
      assert (RInv ks2) by (eapply IH; [|exact B]; apply from_key_rinv; exact HI).
      destruct r2; inversion H; subst; assumption.
    + inversion H; subst. exact HI.
Qed.

Lemma kfp_rinv : forall w upath full lo acct ai chg wt net n,
  RInv (ws_keys w) -> RInv (ws_keys (fst (lib_keys_for_path X derive w upath full lo acct ai chg wt net n))).
Proof.
  intros w upath full lo acct ai chg wt net n HI.
  destruct (kfp_cases X derive w upath full lo acct ai chg wt net n) as [_ Hk].
  destruct Hk as [E | [top [lv [cl [ks1 [r1 [Ht [Hcc Hk]]]]]]]].
  - rewrite E. exact HI.
  - pose proof (create_chain_rinv lv _ top cl ks1 r1 HI Hcc) as HI1.
    destruct Hk as [E | [parent [hard [idx [id [cnt [ks2 [r2 [Hp [Hb [E _]]]]]]]]]]].
    + rewrite E. exact HI1.
    + rewrite E. eapply create_bulk_rinv; eauto.
Qed.

Lemma new_keys_rinv : forall w a ch wt net n,
  RInv (ws_keys w) -> RInv (ws_keys (fst (lib_new_keys X derive w a ch wt net n))).
Proof.
  intros w a ch wt net n HI. unfold lib_new_keys.
  repeat match goal with
         | |- context [match ?x with _ => _ end] => destruct x eqn:?
         end; simpl; auto. apply kfp_rinv. exact HI.
Qed.

Lemma get_keys_rinv : forall w a ch wt net n,
  RInv (ws_keys w) -> RInv (ws_keys (fst (lib_get_keys X derive w a ch wt net n))).
Proof.
  intros w a ch wt net n HI. unfold lib_get_keys.
  match goal with |- context [if ?c then _ else _] => destruct c end; simpl; auto.
  match goal with |- context [lib_new_keys X derive ?w ?a ?c ?t ?nn ?m] =>
    pose proof (new_keys_rinv w a c t nn m HI) as Hn;
    destruct (lib_new_keys X derive w a c t nn m) as [w1 r1] end.
  simpl in Hn. destruct r1; simpl; exact Hn.
Qed.

Opaque lib_keys_for_path.
Lemma new_account_rinv : forall w a wt net,
  RInv (ws_keys w) -> RInv (ws_keys (fst (lib_new_account X derive w a wt net))).
Proof.
  intros w a wt net HI. unfold lib_new_account.
  repeat match goal with
         | |- context [if ?c then _ else _] => destruct c; [exact HI | ]
         end.
  match goal with |- context [lib_keys_for_path X derive w ?p ?f ?lo ?ac ?ai ?cg ?t ?nn ?m] =>
    pose proof (kfp_rinv w p f lo ac ai cg t nn m HI) as H1;
    destruct (lib_keys_for_path X derive w p f lo ac ai cg t nn m) as [w1 r1] end.
  simpl in H1. destruct r1; simpl; auto.
  match goal with |- context [lib_keys_for_path X derive w1 ?p ?f ?lo ?ac ?ai ?cg ?t ?nn ?m] =>
    pose proof (kfp_rinv w1 p f lo ac ai cg t nn m H1) as H2;
    destruct (lib_keys_for_path X derive w1 p f lo ac ai cg t nn m) as [w2 r2] end.
  simpl in H2. destruct r2; simpl; auto.
  match goal with |- context [lib_keys_for_path X derive w2 ?p ?f ?lo ?ac ?ai ?cg ?t ?nn ?m] =>
    pose proof (kfp_rinv w2 p f lo ac ai cg t nn m H2) as H3;
    destruct (lib_keys_for_path X derive w2 p f lo ac ai cg t nn m) as [w3 r3] end.
  simpl in H3. destruct r3; simpl; auto.
Qed.

Transparent lib_keys_for_path.

Lemma mark_used_rinv : forall w j,
  RInv (ws_keys w) -> RInv (ws_keys (fst (lib_mark_used X w j))).
Proof.
  intros w j HI. unfold lib_mark_used.
  destruct (nth_error _ _) as [k|]; simpl; [|exact HI].
  intros k' Hk'. apply in_map_iff in Hk'. destruct Hk' as [k0 [E Hk0]]. subst k'. apply P_used. apply HI. exact Hk0.
Qed.

Lemma scan_steps_rinv : forall todo w acct net gap,
  RInv (ws_keys w) -> RInv (ws_keys (fst (scan_steps X derive w acct net gap todo))).
Proof.
  induction todo as [|[chg wt] r IH]; intros w acct net gap HI; simpl; [exact HI|].
  pose proof (get_keys_rinv w (Some acct) chg (Some wt) (Some net) gap HI) as Hg.
  destruct (lib_get_keys X derive w (Some acct) chg (Some wt) (Some net) gap) as [w1 r1].
  simpl in Hg. destruct r1; simpl; [|exact Hg]. apply IH. exact Hg.
Qed.

Lemma step_rinv : forall w o, RInv (ws_keys w) -> RInv (ws_keys (fst (step X derive w o))).
Proof.
  intros w o HI. destruct o; simpl.
  - apply new_keys_rinv; exact HI.
  - apply get_keys_rinv; exact HI.
  - apply new_account_rinv; exact HI.
  - unfold lib_public_master. apply kfp_rinv; exact HI.
  - apply kfp_rinv; exact HI.
  - apply mark_used_rinv; exact HI.
  - exact HI.
  - unfold lib_scan. apply scan_steps_rinv; exact HI.
  - unfold lib_account.
    repeat match goal with
           | |- context [match ?x with _ => _ end] => destruct x eqn:?
           end; simpl; exact HI.
Qed.

Lemma run_rinv : forall ops w, RInv (ws_keys w) -> RInv (ws_keys (run X derive w ops)).
Proof.
  induction ops as [|o ops IH]; intros w HI; simpl; [exact HI|].
  apply IH. apply step_rinv. exact HI.
Qed.

Lemma wallet_create_rinv : forall net wt acct root rd rm ri w,
  (forall mk : keyrec, k_path mk = [] -> P mk) ->
  lib_wallet_create X derive net wt acct root rd rm ri = Some w -> RInv (ws_keys w).
Proof.
  intros net wt acct root rd rm ri w Hroot H. unfold lib_wallet_create in H.
  repeat match type of H with
         | (if ?c then _ else _) = _ => destruct c; try discriminate
         | match ?x with _ => _ end = _ => destruct x eqn:?; try discriminate
         end;
  match goal with
  | Hk : lib_keys_for_path X derive ?w0 ?p ?f ?lo ?ac ?ai ?cg ?t ?nn ?m = (_, _) |- _ =>
      assert (HI0 : RInv (ws_keys w0))
        by (intros k [E|[]]; subst k; apply Hroot; reflexivity);
      pose proof (kfp_rinv w0 p f lo ac ai cg t nn m HI0) as Hr; rewrite Hk in Hr; simpl in Hr;
      inversion H; subst; exact Hr
  end.
Qed.

Theorem reachable_rinv : forall net wt acct root rd rm ri w ops,
  (forall mk : keyrec, k_path mk = [] -> P mk) ->
  lib_wallet_create X derive net wt acct root rd rm ri = Some w ->
  RInv (ws_keys (run X derive w ops)).
Proof. intros. apply run_rinv. eapply wallet_create_rinv; eauto. Qed.

End RowInvariant.

(* the address_index column is the child number (without the hardened bit) of the last path element *)
Definition index_matches_path (k : keyrec) : Prop :=
  k_path k <> [] -> k_index k = fst (last (k_path k) (0, false)) mod H31.

Lemma index_matches_path_new : forall id (parent : keyrec) e x cl,
  index_matches_path
    {| k_id := id; k_parent := k_id parent; k_path := k_path parent ++ [e]; k_net := c_net cl;
       k_wt := c_wt cl; k_purpose := c_purpose cl; k_account := c_account cl; k_change := c_change cl;
       k_index := fst e mod H31; k_used := false; k_x := x |}.
Proof. intros. unfold index_matches_path. simpl. intros _. rewrite last_last. reflexivity. Qed.

Lemma index_matches_path_used : forall id k, index_matches_path k -> index_matches_path (set_used X id k).
Proof.
  intros id k H. unfold index_matches_path, set_used in *. destruct (k_id k =? id); simpl; exact H.
Qed.

Theorem reachable_index_matches_path : forall net wt acct root rd rm ri w ops k,
  lib_wallet_create X derive net wt acct root rd rm ri = Some w ->
  In k (ws_keys (run X derive w ops)) -> index_matches_path k.
Proof.
  intros net wt acct root rd rm ri w ops k Hw Hk.
  eapply (reachable_rinv index_matches_path index_matches_path_new index_matches_path_used); eauto.
  intros mk E. unfold index_matches_path. rewrite E. intros F. exfalso. apply F. reflexivity.
Qed.

(* two rows under one parent with the same address_index are one row *)
Theorem sibling_indices_distinct : forall net wt acct root rd rm ri w ops k1 k2 p i1 i2 h,
  lib_wallet_create X derive net wt acct root rd rm ri = Some w ->
  In k1 (ws_keys (run X derive w ops)) -> In k2 (ws_keys (run X derive w ops)) ->
  k_path k1 = p ++ [(i1, h)] -> k_path k2 = p ++ [(i2, h)] ->
  0 <= i1 < H31 -> 0 <= i2 < H31 ->
  k_index k1 = k_index k2 -> k1 = k2.
Proof.
  intros net wt acct root rd rm ri w ops k1 k2 p i1 i2 h Hw H1 H2 P1 P2 R1 R2 E.
  pose proof (reachable_index_matches_path _ _ _ _ _ _ _ _ _ _ Hw H1) as A.
  pose proof (reachable_index_matches_path _ _ _ _ _ _ _ _ _ _ Hw H2) as B.
  unfold index_matches_path in A, B. rewrite P1 in A. rewrite P2 in B.
  rewrite last_last in A, B. simpl in A, B.
  assert (A' : k_index k1 = i1). { rewrite A; [apply Z.mod_small; exact R1 | intros F; destruct p; discriminate]. }
  assert (B' : k_index k2 = i2). { rewrite B; [apply Z.mod_small; exact R2 | intros F; destruct p; discriminate]. }
  assert (i1 = i2) by congruence. subst i2.
  destruct (reachable_inv X derive _ _ _ _ _ _ _ _ ops Hw) as [_ N].
  eapply nodup_map_inj; eauto. congruence.
Qed.

(* ------------------------------------------------------------------ Wallet.keys(...) *)
Theorem keys_query_exact : forall (w : wstate) acct chg depth used wt net k,
  In k (lib_keys_query X w acct chg depth used wt net) <->
  In k (ws_keys w) /\ keys_query_pred X (ws_cfg w) acct chg depth used wt net k = true.
Proof. intros. unfold lib_keys_query. apply filter_In. Qed.

Lemma filter_NoDup_map : forall (A B : Type) (f : A -> B) (p : A -> bool) (l : list A),
  NoDup (map f l) -> NoDup (map f (filter p l)).
Proof.
  induction l as [|a l IH]; intros H; simpl; [constructor|].
  simpl in H. inversion H as [|? ? Ha Hl]; subst.
  destruct (p a); simpl; [|apply IH; exact Hl].
  constructor; [|apply IH; exact Hl].
  intros F. apply Ha. apply in_map_iff in F. destruct F as [b [E Hb]]. apply filter_In in Hb.
  rewrite <- E. apply in_map. tauto.
Qed.

(* a listing never shows a position twice *)
Theorem keys_query_no_repeats : forall (w : wstate) acct chg depth used wt net,
  NoDup (map k_path (ws_keys w)) -> NoDup (map k_path (lib_keys_query X w acct chg depth used wt net)).
Proof. intros. unfold lib_keys_query. apply filter_NoDup_map. assumption. Qed.

(* the payment / change listings are disjoint and contain only rows of their chain at key depth *)
Theorem keys_address_chain_sound : forall (w : wstate) change acct used net k,
  In k (lib_keys_address_chain X w change acct used net) ->
  In k (ws_keys w) /\ k_change k = Some change /\ row_depth X (ws_cfg w) k = key_depth (ws_cfg w).
Proof.
  intros w change acct used net k H. unfold lib_keys_address_chain in H. apply keys_query_exact in H.
  destruct H as [Hin Hp]. split; [exact Hin|]. unfold keys_query_pred in Hp.
  repeat (apply andb_true_iff in Hp; destruct Hp as [Hp ?]).
  simpl in *.
  split.
  - match goal with H : (match k_change k with Some _ => _ | None => _ end && _)%bool = true |- _ =>
      apply andb_true_iff in H; destruct H as [H _]; destruct (k_change k) as [c|]; [|discriminate];
      apply Z.eqb_eq in H; subst c; reflexivity end.
  - match goal with H : (row_depth X _ k =? _) = true |- _ => apply Z.eqb_eq in H; exact H end.
Qed.

End IssueProofs.

(* ------------------------------------------------------------------ multisig index bookkeeping *)
(* while every key was created one at a time by new_keys (column = position), new_keys hands out a position no stored
   key has; bulk creation and explicit paths break the premise (refuted in Properties/C09.v) *)
Definition ms_cols_ok (rows : list msrow) : Prop := forall r, In r rows -> mr_col r = mr_pos r.

Lemma ms_next_above : forall rows r, In r rows -> mr_col r < ms_next_index rows.
Proof.
  intros [|r0 rest] r H; [destruct H|]. unfold ms_next_index.
  destruct H as [E|H].
  - subst r0. pose proof (fold_max_ge_init (map mr_col rest) (mr_col r)). lia.
  - pose proof (fold_max_ge_elem (map mr_col rest) (mr_col r0) (mr_col r) (in_map mr_col rest r H)). lia.
Qed.

Theorem ms_single_new_key_is_fresh : forall rows,
  ms_cols_ok rows ->
  ~ In (ms_next_index rows) (map mr_pos rows) /\
  snd (ms_new_keys rows 1) = [ms_next_index rows] /\
  ms_cols_ok (fst (ms_new_keys rows 1)) /\
  In (ms_next_index rows) (map mr_pos (fst (ms_new_keys rows 1))).
Proof.
  intros rows Hc.
  assert (F : ~ In (ms_next_index rows) (map mr_pos rows)).
  { intros Hin. apply in_map_iff in Hin. destruct Hin as [r [E Hr]].
    pose proof (ms_next_above rows r Hr). rewrite (Hc r Hr) in H. lia. }
  split; [exact F|].
  unfold ms_new_keys, ms_keys_for_path. simpl.
  assert (X0 : existsb (fun r => mr_pos r =? ms_next_index rows) rows = false).
  { apply not_true_is_false. intros T. apply existsb_exists in T. destruct T as [r [Hr E]].
    apply Z.eqb_eq in E. apply F. rewrite <- E. apply in_map. exact Hr. }
  rewrite X0. simpl. split; [reflexivity|]. split.
  - intros r Hr. apply in_app_or in Hr. destruct Hr as [Hr|[Hr|[]]]; [apply Hc; exact Hr | subst r; reflexivity].
  - rewrite map_app. apply in_or_app. right. left. reflexivity.
Qed.

(* ------------------------------------------------------------------ the concrete wallet *)
Lemma wallet_index_matches_path : forall net wt acct seed w ops k,
  wallet_from_seed net wt acct seed = Some w ->
  In k (ws_keys (wallet_run w ops)) ->
  k_path k <> [] -> k_index k = fst (last (k_path k) (0, false)) mod H31.
Proof.
  intros net wt acct seed w ops k Hw Hk. unfold wallet_from_seed in Hw.
  destruct (spec_master seed) as [m|]; [|discriminate].
  exact (reachable_index_matches_path xkey lib_subkey _ _ _ _ _ _ _ _ ops k Hw Hk).
Qed.

Lemma wallet_sibling_indices_distinct : forall net wt acct seed w ops k1 k2 p i1 i2 h,
  wallet_from_seed net wt acct seed = Some w ->
  In k1 (ws_keys (wallet_run w ops)) -> In k2 (ws_keys (wallet_run w ops)) ->
  k_path k1 = p ++ [(i1, h)] -> k_path k2 = p ++ [(i2, h)] ->
  0 <= i1 < H31 -> 0 <= i2 < H31 ->
  k_index k1 = k_index k2 -> k1 = k2.
Proof.
  intros net wt acct seed w ops k1 k2 p i1 i2 h Hw. unfold wallet_from_seed in Hw.
  destruct (spec_master seed) as [m|]; [|discriminate].
  exact (sibling_indices_distinct xkey lib_subkey _ _ _ _ _ _ _ _ ops k1 k2 p i1 i2 h Hw).
Qed.

(* creation from a mnemonic: every key of every reachable state is the BIP32 derivation of the master key of the
   BIP39 seed of sentence AND passphrase; the wallet is the one restored from that seed.
   (PBKDF2 with 2048 rounds must never be unfolded by a conversion check: the equations below are closed by one
   delta step of the outermost definition only.) *)
Local Strategy 100 [pbkdf2_hmac_sha512 spec_bip39_seed wallet_from_seed].

Lemma wallet_from_mnemonic_eq : forall net wt acct sentence passphrase,
  wallet_from_mnemonic net wt acct sentence passphrase =
  wallet_from_seed net wt acct (spec_bip39_seed sentence passphrase).
Proof. intros. unfold wallet_from_mnemonic. reflexivity. Qed.

Lemma spec_bip39_seed_eq : forall sentence passphrase,
  spec_bip39_seed sentence passphrase = pbkdf2_hmac_sha512 sentence (bip39_salt_prefix ++ passphrase) 2048 64.
Proof. intros. unfold spec_bip39_seed. reflexivity. Qed.

Lemma mnemonic_wallet_keys : forall net wt acct sentence passphrase m w ops k,
  spec_master (spec_bip39_seed sentence passphrase) = Some m ->
  wallet_from_mnemonic net wt acct sentence passphrase = Some w ->
  In k (ws_keys (wallet_run w ops)) ->
  derive_with lib_subkey m (k_path k) = Some (k_x k).
Proof.
  intros net wt acct sentence passphrase m w ops k Hm Hw Hk. rewrite wallet_from_mnemonic_eq in Hw.
  exact (wallet_keys_from_master net wt acct (spec_bip39_seed sentence passphrase) m w ops k Hm Hw Hk).
Qed.

Lemma mnemonic_wallet_is_seed_wallet : forall net wt acct sentence passphrase,
  wallet_from_mnemonic net wt acct sentence passphrase =
  wallet_from_seed net wt acct (pbkdf2_hmac_sha512 sentence (bip39_salt_prefix ++ passphrase) 2048 64).
Proof. intros. rewrite wallet_from_mnemonic_eq, spec_bip39_seed_eq. reflexivity. Qed.

Lemma mnemonic_restore_same_address : forall sentence passphrase net1 wt1 acct1 w1 ops1 net2 wt2 acct2 w2 ops2 k1 k2,
  wallet_from_mnemonic net1 wt1 acct1 sentence passphrase = Some w1 ->
  wallet_from_seed net2 wt2 acct2 (spec_bip39_seed sentence passphrase) = Some w2 ->
  In k1 (ws_keys (wallet_run w1 ops1)) -> In k2 (ws_keys (wallet_run w2 ops2)) ->
  k_path k1 = k_path k2 -> k_net k1 = k_net k2 -> k_wt k1 = k_wt k2 ->
  key_address k1 = key_address k2 /\ key_wif k1 = key_wif k2.
Proof.
  intros sentence passphrase net1 wt1 acct1 w1 ops1 net2 wt2 acct2 w2 ops2 k1 k2 H1 H2 I1 I2 E En Ew.
  rewrite wallet_from_mnemonic_eq in H1.
  exact (restore_same_address (spec_bip39_seed sentence passphrase) net1 wt1 acct1 w1 ops1 net2 wt2 acct2 w2 ops2 k1 k2
                              H1 H2 I1 I2 E En Ew).
Qed.
