(* Proofs/AmountTx.v — amounts of a Transaction object through bumpfee / update_totals / sign_and_update /
   calculate_fee sessions: outputs and fee stay non-negative integers, the totals stay balanced, the fee after a
   bump lies between fee + extra and fee + 2 * extra.  Built on the C07 lemmas of Proofs/BumpFee.v. *)
From Coq Require Import ZArith List Bool Lia.
From Verif Require Import Lib.Bytes Gen.GenNetworks Gen.GenConsts Model.CoinSelect Model.TxCreate Model.BumpFee
  Proofs.TxCreate Proofs.BumpFee Model.AmountTx.
From Verif Require Float.B64 Model.Amount Model.AmountSession.
Import ListNotations.
Open Scope Z_scope.
Unset Lia Cache.

(* a balanced transaction: outputs non-negative, inputs known and below 2^64, inputs = outputs + fee, fee >= 0 *)
Definition x_wf (s : xstate) : Prop :=
  outs_nonneg (x_outs s) /\ 0 < sum_values (x_ins s) < 2 ^ 64 /\
  sum_values (x_ins s) = sum_outs (x_outs s) + x_fee s /\ 0 <= x_fee s.

(* operations covered by the invariant: everything except add_output (which may exceed the inputs), and
   bumpfee with an explicit fee or extra_fee argument (the default amount depends on the float constant) *)
Definition xop_guarded (o : xop) : Prop :=
  match o with
  | XBump fee extra vs _ _ => 0 <= vs /\ (fee <> 0 \/ extra <> 0)
  | XAdd _ _ | XAddValue _ _ _ => False
  | _ => True
  end.

Lemma sum_outs_cons o r : sum_outs (o :: r) = o_value o + sum_outs r.
Proof. reflexivity. Qed.
Lemma sum_outs_nil : sum_outs [] = 0.
Proof. reflexivity. Qed.

Lemma bump_loop_zero ex : forall outs, bump_loop true ex 0 outs = (0, outs).
Proof.
  induction outs as [|o r IH]; [reflexivity|].
  simpl. rewrite orb_true_r. rewrite IH. reflexivity.
Qed.

(* never more than twice the remaining amount is taken out of the outputs *)
Lemma bump_loop_upper ex : forall outs rem rem' outs',
  outs_nonneg outs -> 0 <= rem -> bump_loop true ex rem outs = (rem', outs') ->
  0 <= rem' <= rem /\ sum_outs outs - sum_outs outs' <= 2 * rem - rem'.
Proof.
  induction outs as [|o r IH]; intros rem rem' outs' Hn Hr H; simpl in H.
  - inversion H; subst. rewrite sum_outs_nil. lia.
  - assert (Hrn : outs_nonneg r) by (intros x Hx; apply Hn; right; exact Hx).
    assert (Ho : 0 <= o_value o) by (apply Hn; left; reflexivity).
    destruct (negb (o_change o) || (rem =? 0)) eqn:K.
    + destruct (bump_loop true ex rem r) as [x l] eqn:G. inversion H; subst.
      destruct (IH _ _ _ Hrn Hr G). rewrite !sum_outs_cons. lia.
    + destruct (rem * 2 <? o_value o) eqn:E1.
      * apply Z.ltb_lt in E1. rewrite bump_loop_zero in H. inversion H; subst.
        rewrite !sum_outs_cons. unfold with_value. cbn [o_value]. cbv iota. lia.
      * apply Z.ltb_ge in E1. destruct (o_value o <? rem) eqn:E2.
        -- apply Z.ltb_lt in E2. assert (Hr' : 0 <= rem - o_value o) by lia. destruct (IH _ _ _ Hrn Hr' H). rewrite sum_outs_cons. lia.
        -- apply Z.ltb_ge in E2. rewrite bump_loop_zero in H. inversion H; subst. rewrite sum_outs_cons. lia.
Qed.

Lemma sum_outs_nonneg : forall l, outs_nonneg l -> 0 <= sum_outs l.
Proof.
  induction l as [|a r IH]; intros Hn; [rewrite sum_outs_nil; lia|].
  assert (0 <= o_value a) by (apply Hn; left; reflexivity).
  assert (0 <= sum_outs r) by (apply IH; intros y Hy; apply Hn; right; exact Hy).
  rewrite sum_outs_cons. lia.
Qed.

Lemma out_le_sum : forall l x, outs_nonneg l -> In x l -> o_value x <= sum_outs l.
Proof.
  induction l as [|o r IH]; intros x Hn Hx; [destruct Hx|].
  assert (Hrn : outs_nonneg r) by (intros y Hy; apply Hn; right; exact Hy).
  assert (Ho : 0 <= o_value o) by (apply Hn; left; reflexivity).
  pose proof (sum_outs_nonneg r Hrn).
  rewrite sum_outs_cons. destruct Hx as [E|Hx]; [subst; lia|]. specialize (IH x Hrn Hx). lia.
Qed.

Lemma nonneg_bounded_serialisable : forall l, outs_nonneg l -> sum_outs l < 2 ^ 64 -> outs_serialisable l = true.
Proof.
  intros l Hn Hs. unfold outs_serialisable. apply forallb_forall. intros x Hx.
  pose proof (out_le_sum l x Hn Hx). pose proof (Hn x Hx).
  apply andb_true_iff. split; [apply Z.leb_le; lia | apply Z.ltb_lt; lia].
Qed.

Lemma serialisable_range : forall l x, outs_serialisable l = true -> In x l -> 0 <= o_value x < 2 ^ 64.
Proof.
  intros l x H Hx. unfold outs_serialisable in H. rewrite forallb_forall in H. specialize (H x Hx).
  apply andb_true_iff in H. destruct H as [A B]. apply Z.leb_le in A. apply Z.ltb_lt in B. lia.
Qed.

(* ---- single operations ---- *)
Lemma x_update_wf s vs : x_wf s -> x_wf (x_update s vs).
Proof.
  intros [A [B [C D]]]. unfold x_update.
  destruct (sum_values (x_ins s) =? 0) eqn:Z0; [apply Z.eqb_eq in Z0; lia|].
  unfold x_wf. cbn [x_outs x_ins x_fee]. repeat split; try assumption; lia.
Qed.

Lemma with_fpk_wf s f : x_wf s -> x_wf (with_fpk s f).
Proof. intros H. exact H. Qed.

(* a balanced state can always be serialised and re-signed; the amounts stay what they are *)
Lemma x_sign_wf s vs : x_wf s -> fst (x_sign s vs) = XOk None /\ x_wf (snd (x_sign s vs)).
Proof.
  intros W. pose proof W as [A [B [C D]]]. unfold x_sign.
  rewrite (nonneg_bounded_serialisable (x_outs s) A ltac:(lia)). cbn [negb].
  split; [reflexivity|]. cbn [snd].
  destruct (x_fee (x_update s vs) =? 0); [apply x_update_wf; exact W | apply with_fpk_wf; apply x_update_wf; exact W].
Qed.

Lemma x_sign_ok_range s vs r s' : x_sign s vs = (XOk r, s') ->
  x_outs s' = x_outs s /\ forall o, In o (x_outs s') -> 0 <= o_value o < 2 ^ 64.
Proof.
  unfold x_sign. destruct (outs_serialisable (x_outs s)) eqn:S; cbn [negb]; [|discriminate].
  intros H. inversion H; subst. clear H.
  assert (E : x_outs (x_update s vs) = x_outs s).
  { unfold x_update. destruct (sum_values (x_ins s) =? 0); reflexivity. }
  assert (E2 : x_outs (if x_fee (x_update s vs) =? 0 then x_update s vs
                       else with_fpk (x_update s vs) (Some (rate2_of (x_fee (x_update s vs)) vs))) = x_outs s).
  { destruct (x_fee (x_update s vs) =? 0); [exact E | exact E]. }
  split; [exact E2|]. rewrite E2. intros o Ho. exact (serialisable_range _ _ S Ho).
Qed.

Lemma bump_amounts_explicit b fee extra mult nf ex :
  0 <= b_vsize b -> fee <> 0 \/ extra <> 0 -> bump_amounts b fee extra mult = Ok (nf, ex) ->
  0 <= ex /\ nf = b_fee b + ex.
Proof.
  intros Hv Ha. unfold bump_amounts.
  destruct (b_fee b =? 0); [discriminate|].
  destruct (fee =? 0) eqn:F; cbn [negb].
  - apply Z.eqb_eq in F. destruct (extra =? 0) eqn:X; cbn [negb].
    + apply Z.eqb_eq in X. lia.
    + destruct (extra <? b_vsize b) eqn:L; [discriminate|]. apply Z.ltb_ge in L.
      intros H; inversion H; subst. lia.
  - destruct (fee <? b_fee b + b_vsize b) eqn:L; [discriminate|]. apply Z.ltb_ge in L.
    intros H; inversion H; subst. lia.
Qed.

(* bumpfee of the session model IS the C07 function on the same attributes *)
Lemma x_bump_is_lib_bumpfee nw name s fee extra vs mult vs' r s' :
  x_step nw name s (XBump fee extra vs mult vs') = (XOk r, s') ->
  lib_bumpfee (to_btx s vs) fee extra mult = Ok (to_btx s' vs).
Proof.
  unfold x_step, lib_bumpfee, tx_bumpfee.
  destruct (bump_amounts (to_btx s vs) fee extra mult) as [[nf ex]|e]; [|discriminate].
  cbn [b_outputs to_btx]. destruct (bump_loop true ex ex (x_outs s)) as [rem outs'].
  destruct (negb (rem =? 0)); [discriminate|].
  unfold x_sign. cbn [x_outs with_outs].
  destruct (outs_serialisable outs') eqn:S; cbn [negb]; [|discriminate].
  assert (X : existsb (fun x => o_value x <? 0) outs' = false).
  { destruct (existsb (fun x => o_value x <? 0) outs') eqn:X; [|reflexivity].
    apply existsb_exists in X. destruct X as [x [Hx Hv]]. apply Z.ltb_lt in Hv.
    pose proof (serialisable_range _ _ S Hx). lia. }
  rewrite X. intros H. inversion H; subst. clear H. f_equal.
  unfold to_btx, x_update, with_outs. cbn [x_ins x_outs x_fee b_inputs b_vsize].
  destruct (sum_values (x_ins s) =? 0) eqn:Z0; cbn [x_fee x_ins x_outs];
    match goal with |- context [if ?c then _ else _] => destruct c end; reflexivity.
Qed.

Lemma x_step_wf nw name s o : xop_guarded o -> x_wf s -> x_wf (snd (x_step nw name s o)).
Proof.
  intros G W. destruct o as [fee extra vs mult vs'|v chg|rep v chg|vs|vs'| |fpk vs]; cbn [xop_guarded] in G;
    try contradiction.
  - destruct G as [Hv Ha]. unfold x_step.
    destruct (bump_amounts (to_btx s vs) fee extra mult) as [[nf ex]|e] eqn:BA; [|exact W].
    destruct (bump_amounts_explicit (to_btx s vs) _ _ _ _ _ Hv Ha BA) as [Hex Hnf]. cbn [b_fee to_btx] in Hnf.
    destruct (bump_loop true ex ex (x_outs s)) as [rem outs'] eqn:L.
    destruct (negb (rem =? 0)) eqn:R; [exact W|]. apply negb_false_iff in R. apply Z.eqb_eq in R. subst rem.
    pose proof W as [A [B [C D]]].
    destruct (bump_loop_repaired ex _ _ _ _ A L) as [A' [B' _]]. destruct (B' Hex) as [_ S'].
    (* the intermediate state (fee = nf) may be unbalanced; after update_totals it is balanced again *)
    unfold x_sign. cbn [x_outs with_outs].
    rewrite (nonneg_bounded_serialisable outs' A' ltac:(lia)). cbn [negb snd].
    assert (W1 : x_wf (x_update (with_outs s outs' nf) vs')).
    { unfold x_update, with_outs. cbn [x_ins x_outs x_fee x_fpk x_next].
      destruct (sum_values (x_ins s) =? 0) eqn:Z0; [apply Z.eqb_eq in Z0; lia|].
      unfold x_wf. cbn [x_ins x_outs x_fee]. repeat split; try assumption; lia. }
    destruct (x_fee (x_update (with_outs s outs' nf) vs') =? 0); [exact W1 | apply with_fpk_wf; exact W1].
  - cbn [x_step snd]. apply x_update_wf; exact W.
  - cbn [x_step]. apply x_sign_wf; exact W.
  - exact W.
  - cbn [x_step]. destruct (fpk =? 0); cbn [snd]; apply with_fpk_wf; exact W.
Qed.

(* ---- sessions ---- *)
Lemma x_session_wf nw name : forall ops s,
  Forall xop_guarded ops -> x_wf s -> Forall (fun a => x_wf (snd a)) (x_run nw name s ops).
Proof.
  induction ops as [|o r IH]; intros s G W; [constructor|].
  inversion G; subst. cbn [x_run]. constructor.
  - apply x_step_wf; assumption.
  - apply IH; [assumption | apply x_step_wf; assumption].
Qed.

(* amounts after every operation of a guarded session: non-negative integers, balanced *)
Lemma x_session_amounts nw name ops s a :
  Forall xop_guarded ops -> x_wf s -> In a (x_run nw name s ops) ->
  (forall o, In o (x_outs (snd a)) -> 0 <= o_value o < 2 ^ 64) /\ 0 <= x_fee (snd a) /\
  sum_values (x_ins (snd a)) = sum_outs (x_outs (snd a)) + x_fee (snd a).
Proof.
  intros G W Ha. pose proof (x_session_wf nw name ops s G W) as F. rewrite Forall_forall in F.
  destruct (F a Ha) as [A [B [C D]]]. split; [|split; assumption].
  intros o Ho. pose proof (out_le_sum _ _ A Ho). pose proof (A o Ho). lia.
Qed.

(* ---- the fee after a bump ---- *)
Lemma x_bump_fee_bounds nw name s fee extra vs mult vs' r s' nf ex :
  x_wf s -> 0 <= vs -> fee <> 0 \/ extra <> 0 ->
  bump_amounts (to_btx s vs) fee extra mult = Ok (nf, ex) ->
  x_step nw name s (XBump fee extra vs mult vs') = (XOk r, s') ->
  x_fee s + ex <= x_fee s' <= x_fee s + 2 * ex /\
  x_ins s' = x_ins s /\
  (forall x, In x (x_outs s') -> o_change x = false -> In x (x_outs s)).
Proof.
  intros W Hv Ha BA. pose proof W as [A [B [C D]]].
  destruct (bump_amounts_explicit (to_btx s vs) _ _ _ _ _ Hv Ha BA) as [Hex Hnf].
  unfold x_step. rewrite BA.
  destruct (bump_loop true ex ex (x_outs s)) as [rem outs'] eqn:L.
  destruct (negb (rem =? 0)) eqn:R; [discriminate|]. apply negb_false_iff in R. apply Z.eqb_eq in R. subst rem.
  destruct (bump_loop_repaired ex _ _ _ _ A L) as [A' [B' C']]. destruct (B' Hex) as [_ S'].
  destruct (bump_loop_upper ex _ _ _ _ A Hex L) as [_ U].
  unfold x_sign. cbn [x_outs with_outs].
  destruct (outs_serialisable outs'); cbn [negb]; [|discriminate].
  intros H. inversion H; subst. clear H.
  assert (E : forall t, (if x_fee t =? 0 then t else with_fpk t (Some (rate2_of (x_fee t) vs'))) = t \/
                        (if x_fee t =? 0 then t else with_fpk t (Some (rate2_of (x_fee t) vs'))) = with_fpk t (Some (rate2_of (x_fee t) vs'))).
  { intros t. destruct (x_fee t =? 0); [left|right]; reflexivity. }
  set (t := x_update _ vs').
  assert (T : x_fee t = sum_values (x_ins s) - sum_outs outs' /\ x_ins t = x_ins s /\ x_outs t = outs').
  { unfold t, x_update, with_outs. cbn [x_ins x_outs x_fee].
    destruct (sum_values (x_ins s) =? 0) eqn:Z0; [apply Z.eqb_eq in Z0; lia|]. cbn [x_ins x_outs x_fee].
    repeat split; reflexivity. }
  destruct T as [T1 [T2 T3]].
  destruct (E t) as [Q|Q]; rewrite Q; cbn [with_fpk x_fee x_ins x_outs]; rewrite T1, T2, T3;
    (split; [lia | split; [reflexivity | exact C']]).
Qed.

(* when the first change output is more than twice the extra fee it alone pays it, exactly *)
Lemma bump_loop_first_change_covers ex : forall pre o post,
  0 < ex -> Forall (fun x => o_change x = false) pre -> o_change o = true -> 2 * ex < o_value o ->
  bump_loop true ex ex (pre ++ o :: post) = (0, pre ++ with_value o (o_value o - ex) :: post).
Proof.
  induction pre as [|p pre IH]; intros o post Hex Hp Hc Hv.
  - simpl. rewrite Hc. cbn [negb orb].
    destruct (ex =? 0) eqn:E0; [apply Z.eqb_eq in E0; lia|].
    destruct (ex * 2 <? o_value o) eqn:E1; [|apply Z.ltb_ge in E1; lia].
    rewrite bump_loop_zero. reflexivity.
  - inversion Hp; subst. simpl. rewrite H1. cbn [negb orb].
    rewrite (IH o post Hex H2 Hc Hv). reflexivity.
Qed.

(* ---- add_output, then sign_and_update: the fee absorbs the new output (and may turn negative) ---- *)
Lemma x_add_then_sign s z chg vs r s' :
  x_wf s -> 0 <= z -> x_sign (x_append s z chg) vs = (XOk r, s') ->
  x_fee s' = x_fee s - z /\ (forall o, In o (x_outs s') -> 0 <= o_value o < 2 ^ 64).
Proof.
  intros [A [B [C D]]] Hz H. destruct (x_sign_ok_range _ _ _ _ H) as [E R]. split; [|exact R].
  unfold x_sign in H. destruct (outs_serialisable (x_outs (x_append s z chg))); cbn [negb] in H; [|discriminate].
  inversion H; subst. clear H.
  assert (S : sum_outs (x_outs s ++ [{| o_dest := ToChange (x_next s); o_value := z; o_change := chg |}]) = sum_outs (x_outs s) + z).
  { clear. induction (x_outs s) as [|a l IH]; [rewrite app_nil_l, sum_outs_cons, !sum_outs_nil; cbn [o_value]; lia|].
    rewrite <- app_comm_cons, !sum_outs_cons, IH. lia. }
  assert (T : x_fee (x_update (x_append s z chg) vs) = x_fee s - z).
  { unfold x_update, x_append. cbn [x_ins x_outs x_fee].
    destruct (sum_values (x_ins s) =? 0) eqn:Z0; [apply Z.eqb_eq in Z0; lia|]. cbn [x_fee]. rewrite S. lia. }
  destruct (x_fee (x_update (x_append s z chg) vs) =? 0); cbn [with_fpk x_fee]; exact T.
Qed.
