(* Proofs/SpecNetworksGlue.v — the network table regenerated from /repo (Gen/GenNetworks.v) IS the frozen
   specification table (Model/SpecNetworks.v), field by field.  Every lemma is closed by vm_compute, so an edited,
   added, removed or reordered row of bitcoinlib/data/networks.json breaks a proof obligation; the failure message
   names the field group and lists the (network, field) pairs that differ.
   Shared: other properties (C05, C12 ...) import [gen_networks_are_spec] / the per-field lemmas from here. *)
From Coq Require Import ZArith List Bool String.
From Coq.Strings Require Import Byte.
From Verif Require Import Gen.GenNetworks Model.SpecNetworks.
Import ListNotations.
Open Scope Z_scope.

(* ---------------------------------------------------------------- projection of a regenerated row *)

Definition proj_wif_row (r : wif_row) : spec_wif_row :=
  {| sw_prefix := wr_prefix r; sw_label := wr_hrp r; sw_private := wr_private r; sw_multisig := wr_multisig r;
     sw_witness_type := wr_witness_type r; sw_script_type := wr_script_type r |}.

Definition proj_network (n : network) : spec_network :=
  {| sn_name := nw_name n;
     sn_prefix_address := nw_prefix_address n;
     sn_prefix_address_p2sh := nw_prefix_address_p2sh n;
     sn_prefix_bech32 := nw_prefix_bech32 n;
     sn_prefix_wif := nw_prefix_wif n;
     sn_prefixes_wif := map proj_wif_row (nw_prefixes_wif n);
     sn_bip44_cointype := nw_bip44_cointype n;
     sn_denominator_hex := nw_denominator_hex n;
     sn_dust_amount := nw_dust_amount n;
     sn_fee_min := nw_fee_min n;
     sn_fee_max := nw_fee_max n;
     sn_fee_default := nw_fee_default n;
     sn_priority := nw_priority n;
     sn_currency_code := nw_currency_code n |}.

(* ---------------------------------------------------------------- decidable comparison that names what differs *)

Fixpoint bytes_same (a b : list byte) : bool :=
  match a, b with
  | [], [] => true
  | x :: a', y :: b' => Byte.eqb x y && bytes_same a' b'
  | _, _ => false
  end.

Definition optz_same (a b : option Z) : bool :=
  match a, b with
  | None, None => true
  | Some x, Some y => x =? y
  | _, _ => false
  end.

Definition row_same (a b : spec_wif_row) : bool :=
  bytes_same (sw_prefix a) (sw_prefix b) && String.eqb (sw_label a) (sw_label b)
  && Bool.eqb (sw_private a) (sw_private b) && Bool.eqb (sw_multisig a) (sw_multisig b)
  && String.eqb (sw_witness_type a) (sw_witness_type b) && String.eqb (sw_script_type a) (sw_script_type b).

Fixpoint rows_same (a b : list spec_wif_row) : bool :=
  match a, b with
  | [], [] => true
  | x :: a', y :: b' => row_same x y && rows_same a' b'
  | _, _ => false
  end.

(* the names of the fields in which two rows differ *)
Definition row_diff (g s : spec_network) : list (string * string) :=
  let d (ok : bool) (f : string) := if ok then [] else [(sn_name s, f)] in
  d (String.eqb (sn_name g) (sn_name s)) "name"%string
  ++ d (bytes_same (sn_prefix_address g) (sn_prefix_address s)) "prefix_address"%string
  ++ d (bytes_same (sn_prefix_address_p2sh g) (sn_prefix_address_p2sh s)) "prefix_address_p2sh"%string
  ++ d (bytes_same (sn_prefix_bech32 g) (sn_prefix_bech32 s)) "prefix_bech32"%string
  ++ d (bytes_same (sn_prefix_wif g) (sn_prefix_wif s)) "prefix_wif"%string
  ++ d (rows_same (sn_prefixes_wif g) (sn_prefixes_wif s)) "prefixes_wif"%string
  ++ d (sn_bip44_cointype g =? sn_bip44_cointype s) "bip44_cointype"%string
  ++ d (String.eqb (sn_denominator_hex g) (sn_denominator_hex s)) "denominator"%string
  ++ d (sn_dust_amount g =? sn_dust_amount s) "dust_amount"%string
  ++ d (sn_fee_min g =? sn_fee_min s) "fee_min"%string
  ++ d (sn_fee_max g =? sn_fee_max s) "fee_max"%string
  ++ d (optz_same (sn_fee_default g) (sn_fee_default s)) "fee_default"%string
  ++ d (sn_priority g =? sn_priority s) "priority"%string
  ++ d (String.eqb (sn_currency_code g) (sn_currency_code s)) "currency_code"%string.

Fixpoint table_diff (g s : list spec_network) : list (string * string) :=
  match g, s with
  | [], [] => []
  | x :: g', y :: s' => row_diff x y ++ table_diff g' s'
  | x :: _, [] => [(sn_name x, "network not in the frozen specification"%string)]
  | [], y :: _ => [(sn_name y, "network missing from networks.json"%string)]
  end.

(* closes [lhs = rhs] by evaluation; on failure the message carries the field group and the evaluated sides *)
Tactic Notation "table_check" string(what) :=
  vm_compute;
  first [ reflexivity
        | match goal with |- ?l = ?r =>
            fail 2 "networks.json differs from the frozen specification (Model/SpecNetworks.v) in" what ":" l "<>" r end ].

(* ---------------------------------------------------------------- the (network, field) pairs that differ: none *)

Lemma gen_table_diff_empty : table_diff (map proj_network all_networks) spec_networks = [].
Proof. table_check "these (network, field) pairs". Qed.

(* ---------------------------------------------------------------- one lemma per field group *)

Lemma gen_names_are_spec : map nw_name all_networks = map sn_name spec_networks.
Proof. table_check "the network names or their order". Qed.

Lemma gen_prefix_address_is_spec :
  map (fun n => (nw_name n, nw_prefix_address n)) all_networks = map (fun s => (sn_name s, sn_prefix_address s)) spec_networks.
Proof. table_check "prefix_address". Qed.

Lemma gen_prefix_address_p2sh_is_spec :
  map (fun n => (nw_name n, nw_prefix_address_p2sh n)) all_networks = map (fun s => (sn_name s, sn_prefix_address_p2sh s)) spec_networks.
Proof. table_check "prefix_address_p2sh". Qed.

Lemma gen_prefix_bech32_is_spec :
  map (fun n => (nw_name n, nw_prefix_bech32 n)) all_networks = map (fun s => (sn_name s, sn_prefix_bech32 s)) spec_networks.
Proof. table_check "prefix_bech32". Qed.

Lemma gen_prefix_wif_is_spec :
  map (fun n => (nw_name n, nw_prefix_wif n)) all_networks = map (fun s => (sn_name s, sn_prefix_wif s)) spec_networks.
Proof. table_check "prefix_wif". Qed.

Lemma gen_prefixes_wif_are_spec :
  map (fun n => (nw_name n, map proj_wif_row (nw_prefixes_wif n))) all_networks = map (fun s => (sn_name s, sn_prefixes_wif s)) spec_networks.
Proof. table_check "prefixes_wif". Qed.

Lemma gen_bip44_cointype_is_spec :
  map (fun n => (nw_name n, nw_bip44_cointype n)) all_networks = map (fun s => (sn_name s, sn_bip44_cointype s)) spec_networks.
Proof. table_check "bip44_cointype". Qed.

Lemma gen_denominator_is_spec :
  map (fun n => (nw_name n, nw_denominator_hex n)) all_networks = map (fun s => (sn_name s, sn_denominator_hex s)) spec_networks.
Proof. table_check "denominator". Qed.

Lemma gen_dust_amount_is_spec :
  map (fun n => (nw_name n, nw_dust_amount n)) all_networks = map (fun s => (sn_name s, sn_dust_amount s)) spec_networks.
Proof. table_check "dust_amount". Qed.

Lemma gen_fees_are_spec :
  map (fun n => (nw_name n, nw_fee_min n, nw_fee_max n, nw_fee_default n)) all_networks
  = map (fun s => (sn_name s, sn_fee_min s, sn_fee_max s, sn_fee_default s)) spec_networks.
Proof. table_check "fee_min / fee_max / fee_default". Qed.

Lemma gen_priority_currency_are_spec :
  map (fun n => (nw_name n, nw_priority n, nw_currency_code n)) all_networks
  = map (fun s => (sn_name s, sn_priority s, sn_currency_code s)) spec_networks.
Proof. table_check "priority / currency_code". Qed.

(* ---------------------------------------------------------------- the whole table *)

Theorem gen_networks_are_spec : map proj_network all_networks = spec_networks.
Proof. table_check "some field". Qed.

(* ---------------------------------------------------------------- consequences used by the properties *)

Lemma in_combine_map {A B} (f : A -> B) (l : list A) a b : In (a, b) (combine l (map f l)) -> b = f a.
Proof.
  induction l as [|x l IH]; simpl; [tauto|].
  intros [H|H]; [inversion H; reflexivity | apply IH; exact H].
Qed.

(* a regenerated row paired with its frozen row (same position) carries exactly the frozen values *)
Lemma paired_row_is_proj nw sn : In (nw, sn) (combine all_networks spec_networks) -> sn = proj_network nw.
Proof. rewrite <- gen_networks_are_spec. apply in_combine_map. Qed.

Lemma paired_row_in_table nw sn : In (nw, sn) (combine all_networks spec_networks) -> In nw all_networks /\ In sn spec_networks.
Proof. intros H. split; [eapply in_combine_l | eapply in_combine_r]; exact H. Qed.

(* every regenerated row has its frozen twin *)
Lemma gen_row_has_spec nw : In nw all_networks -> In (nw, proj_network nw) (combine all_networks spec_networks).
Proof.
  rewrite <- gen_networks_are_spec. generalize all_networks. intros l. induction l as [|x l IH]; simpl; [tauto|].
  intros [H|H]; [left; subst; reflexivity | right; apply IH; exact H].
Qed.

(* lookup by name in the frozen table finds the projection of the regenerated row of that name *)
Lemma spec_lookup_is_proj : map (fun n => spec_network_by_name (nw_name n)) all_networks = map (fun n => Some (proj_network n)) all_networks.
Proof. table_check "the network names (duplicate or missing name)". Qed.

(* ---------------------------------------------------------------- frozen table vs reference clients *)

(* outside the documented deviating rows the frozen table is the reference table *)
Lemma spec_is_ref_except_deviations :
  filter (fun n => negb (sn_is_deviating n)) spec_networks = filter (fun n => negb (sn_is_deviating n)) ref_networks.
Proof. vm_compute. reflexivity. Qed.

Lemma spec_ref_same_names : map sn_name spec_networks = map sn_name ref_networks.
Proof. vm_compute. reflexivity. Qed.

(* exactly which fields deviate *)
Definition documented_deviations : list (string * string) :=
  [("regtest", "prefix_address"); ("regtest", "prefix_address_p2sh"); ("regtest", "prefix_wif"); ("regtest", "prefixes_wif");
   ("regtest", "bip44_cointype"); ("dogecoin", "prefixes_wif")]%string.

Lemma spec_ref_diff : table_diff spec_networks ref_networks = documented_deviations.
Proof. vm_compute. reflexivity. Qed.
