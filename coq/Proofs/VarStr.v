(* Proofs/VarStr.v — encoding.varstr (length-prefixed string) and corollaries of the C18 codecs:
   round-trip, injectivity, prefix-freeness; the single zero byte is the one string the code treats apart. *)
From Coq Require Import ZArith List Bool Lia.
From Coq.Strings Require Import Byte.
From Verif Require Import Lib.Bytes Model.Wire Proofs.CompactSize Proofs.ScriptNum Proofs.ScriptCodec.
Import ListNotations.
Open Scope Z_scope.

Lemma varstr_unfold s : s <> [x00] ->
  lib_varstr s = match lib_cs_enc (Z.of_nat (length s)) with Some p => Some (p ++ s) | None => None end.
Proof.
  intros Hz. unfold lib_varstr.
  destruct s as [|a [|b r]]; [reflexivity| |destruct a; reflexivity].
  destruct a; try reflexivity. congruence.
Qed.

(* what varstr writes is a CompactSize of the length followed by the string, and the reader gets the
   length back whatever follows *)
Lemma varstr_roundtrip s e rest : s <> [x00] -> lib_varstr s = Some e ->
  exists p, lib_cs_enc (Z.of_nat (length s)) = Some p /\ e = p ++ s /\
            lib_cs_dec (e ++ rest) = (Z.of_nat (length s), length p) /\
            firstn (length s) (skipn (length p) (e ++ rest)) = s /\
            skipn (length s) (skipn (length p) (e ++ rest)) = rest.
Proof.
  intros Hz H. rewrite varstr_unfold in H by exact Hz.
  destruct (lib_cs_enc (Z.of_nat (length s))) as [p|] eqn:Ep; [|discriminate].
  injection H as <-. exists p. split; [reflexivity|]. split; [reflexivity|].
  rewrite <- !app_assoc. split; [exact (cs_roundtrip _ _ _ Ep)|].
  rewrite skipn_app, Nat.sub_diag, skipn_all. cbn [app skipn].
  split.
  - rewrite firstn_app, Nat.sub_diag, firstn_all. cbn [firstn]. apply app_nil_r.
  - rewrite skipn_app, Nat.sub_diag, skipn_all. reflexivity.
Qed.

Lemma varstr_domain s : lib_varstr s <> None <-> Z.of_nat (length s) < 2 ^ 64.
Proof.
  destruct (list_eq_dec Byte.byte_eq_dec s [x00]) as [->|Hz].
  { split; [intros _; vm_compute; reflexivity|intros _; discriminate]. }
  rewrite varstr_unfold by exact Hz.
  pose proof (lib_cs_enc_domain (Z.of_nat (length s))) as D.
  destruct (lib_cs_enc (Z.of_nat (length s))) as [p|].
  - split; [intros _; apply D; discriminate|intros _; discriminate].
  - split; [intros H; exfalso; apply H; reflexivity|].
    intros H. exfalso. apply (proj2 D); [lia|reflexivity].
Qed.

(* two strings (neither the single zero byte) never share an encoding, even with trailing bytes *)
Lemma varstr_prefix_free a b ea eb ra rb :
  a <> [x00] -> b <> [x00] -> lib_varstr a = Some ea -> lib_varstr b = Some eb ->
  ea ++ ra = eb ++ rb -> a = b /\ ra = rb.
Proof.
  intros Ha Hb Ea Eb E.
  rewrite varstr_unfold in Ea by exact Ha. rewrite varstr_unfold in Eb by exact Hb.
  destruct (lib_cs_enc (Z.of_nat (length a))) as [pa|] eqn:Pa; [|discriminate].
  destruct (lib_cs_enc (Z.of_nat (length b))) as [pb|] eqn:Pb; [|discriminate].
  injection Ea as <-. injection Eb as <-. rewrite <- !app_assoc in E.
  destruct (cs_prefix_free _ _ _ _ _ _ Pa Pb E) as [Hl E2].
  apply Nat2Z.inj in Hl.
  assert (Ha2 : a = firstn (length a) (a ++ ra)).
  { rewrite firstn_app, Nat.sub_diag, firstn_all. cbn [firstn]. symmetry; apply app_nil_r. }
  assert (Hb2 : b = firstn (length b) (b ++ rb)).
  { rewrite firstn_app, Nat.sub_diag, firstn_all. cbn [firstn]. symmetry; apply app_nil_r. }
  assert (Eab : a = b). { rewrite Ha2, Hb2, E2, Hl. reflexivity. }
  split; [exact Eab|]. subst b. apply app_inv_head in E2. exact E2.
Qed.

(* the excluded string is needed: b"\0" and b"" collide *)
Lemma varstr_zero_collides : lib_varstr [x00] = lib_varstr [] /\ lib_varstr [x00] = Some [x00].
Proof. split; vm_compute; reflexivity. Qed.

(* script numbers: one encoding per integer, one integer per encoding *)
Lemma scriptnum_injective a b : lib_encode_num a = lib_encode_num b -> a = b.
Proof.
  intros H. rewrite <- (scriptnum_roundtrip a), <- (scriptnum_roundtrip b), H. reflexivity.
Qed.

Lemma scriptnum_minimal_unique x y :
  core_minimal x = true -> core_minimal y = true -> lib_decode_num x = lib_decode_num y -> x = y.
Proof.
  intros Hx Hy H. rewrite <- (scriptnum_canonical x Hx), <- (scriptnum_canonical y Hy), H. reflexivity.
Qed.

(* CompactSize: one encoding per integer *)
Lemma cs_injective a b e : lib_cs_enc a = Some e -> lib_cs_enc b = Some e -> a = b.
Proof.
  intros Ha Hb. destruct (cs_prefix_free a b e e [] [] Ha Hb eq_refl) as [H _]. exact H.
Qed.

(* scripts: two well-formed command lists with the same bytes are the same list *)
Lemma script_serialize_injective cs1 cs2 s :
  forallb wf_cmd cs1 = true -> forallb wf_cmd cs2 = true ->
  lib_serialize cs1 = Some s -> lib_serialize cs2 = Some s -> cs1 = cs2.
Proof.
  intros W1 W2 S1 S2.
  destruct (script_roundtrip_plain cs1 W1) as (s1 & E1 & P1).
  destruct (script_roundtrip_plain cs2 W2) as (s2 & E2 & P2).
  rewrite S1 in E1. rewrite S2 in E2. injection E1 as <-. injection E2 as <-.
  rewrite P1 in P2. injection P2 as H. exact H.
Qed.
