(* Proofs/BlockSession.v — sequences of reader calls on one Block object (C06): the library's readers, run on
   the serialization of a block, are a cursor moving over the block's list of transactions. *)
From Coq Require Import ZArith List Bool Lia Arith.
From Coq.Strings Require Import Byte.
From Verif Require Import Lib.Bytes Model.Wire Proofs.CompactSize Crypto.Sha256 Model.TxCodec Proofs.TxCodecSpec
  Proofs.TxCodecLib Model.BlockCodec Proofs.BlockCodec.
Import ListNotations.
Open Scope Z_scope.
Local Opaque sha256d.

(* ---------- one transaction read from a stream by the object reader ---------- *)

(* what Block.transactions holds for transaction t *)
Definition held (t : tx) : ltx := parsed t (spec_txid t).

Lemma firstn_consumed (a rest : bytes) : firstn (length (a ++ rest) - length rest) (a ++ rest) = a.
Proof.
  rewrite app_length. replace (length a + length rest - length rest)%nat with (length a) by lia.
  rewrite firstn_app, Nat.sub_diag, firstn_all. simpl. apply app_nil_r.
Qed.

Lemma lib_parse_stream_ser t rest :
  wf_tx t -> quirk_free t -> lib_parse_stream (spec_ser t ++ rest) = Some (held t, rest).
Proof.
  intros Hwf Hqf. unfold lib_parse_stream.
  rewrite (lib_parse_body_ser t rest Hwf Hqf). rewrite firstn_consumed.
  unfold lib_finish. change (l_segwit (parsed t [])) with (tx_segwit t).
  pose proof Hwf as (_ & _ & _ & _ & _ & _ & _ & Hsw).
  destruct (tx_segwit t) eqn:Es.
  - unfold lib_calc_txid.
    pose proof (lib_raw_w_parsed false t [] Hwf Hqf ltac:(discriminate)) as Hr. cbv iota in Hr.
    rewrite Hr. reflexivity.
  - unfold held, spec_txid. rewrite strip_legacy by congruence. reflexivity.
Qed.

Lemma lib_raw_held t : wf_tx t -> quirk_free t -> lib_raw (held t) = Some (spec_ser t).
Proof.
  intros Hwf Hqf. unfold lib_raw, held. change (l_segwit (parsed t ?x)) with (tx_segwit t).
  pose proof Hwf as (_ & _ & _ & _ & _ & _ & _ & Hsw).
  destruct (tx_segwit t) eqn:Es.
  - exact (lib_raw_w_parsed true t _ Hwf Hqf (fun _ => Es)).
  - pose proof (lib_raw_w_parsed false t (spec_txid t) Hwf Hqf ltac:(discriminate)) as Hr.
    cbv iota in Hr. rewrite strip_legacy in Hr by congruence. exact Hr.
Qed.

Lemma held_txid t : l_txid (held t) = spec_txid t.
Proof. reflexivity. Qed.

(* ---------- one transaction read from a stream by the dictionary reader ---------- *)

Fixpoint skip_n_ser {A} (p : bytes -> option bytes) (f : A -> bytes) (l : list A) rest {struct l} :
  (forall a, In a l -> forall r, p (f a ++ r) = Some r) ->
  skip_n p (length l) (concat (map f l) ++ rest) = Some rest.
Proof.
  destruct l as [|a l]; intros H; [reflexivity|].
  cbn [length skip_n map concat]. rewrite <- app_assoc.
  rewrite H by (left; reflexivity).
  apply skip_n_ser. intros b Hb r. apply H. right. exact Hb.
Qed.

Lemma dict_in_ser i r : wf_in i -> dict_in (ser_in i ++ r) = Some r.
Proof.
  intros (Hp & Hv & Hq & Hs & _). unfold dict_in, ser_in. repeat rewrite <- app_assoc.
  rewrite read_n_app by exact Hp.
  rewrite read_n_app by apply le_bytes_length.
  rewrite lib_read_var_ser by exact Hs.
  rewrite read_n_app by apply le_bytes_length. reflexivity.
Qed.

Lemma dict_out_ser o r : wf_out o -> dict_out (ser_out o ++ r) = Some r.
Proof.
  intros (Hv & Hs). unfold dict_out, ser_out. rewrite <- app_assoc.
  rewrite read_n_app by apply le_bytes_length.
  rewrite lib_read_var_ser by exact Hs. reflexivity.
Qed.

Lemma dict_item_ser w r : len_ok w -> dict_item (ser_varbytes w ++ r) = Some r.
Proof. intros H. unfold dict_item. rewrite lib_read_var_ser by exact H. reflexivity. Qed.

Lemma dict_stack_ser i r : wf_in i -> dict_stack (ser_wit i ++ r) = Some r.
Proof.
  intros (_ & _ & _ & _ & Hwl & Hwf). unfold dict_stack, ser_wit.
  rewrite lib_count_ser; [|exact Hwl|intros a _; apply ser_varbytes_length_pos].
  apply skip_n_ser. intros a Ha r0. apply dict_item_ser. exact (Forall_In _ _ _ Hwf Ha).
Qed.

Lemma consumed_app (a r : bytes) : consumed (a ++ r) r = a.
Proof. unfold consumed. apply firstn_consumed. Qed.

(* lib_dict_tx after the version and the marker detection *)
Definition dict_tail (ver : bytes) (marker sw : bool) (l2 : bytes) : option (bytes * bytes * bytes) :=
  match lib_count l2 with
  | None => None
  | Some (ni, l3) =>
      match skip_n dict_in ni l3 with
      | None => None
      | Some l4 =>
          match lib_count l4 with
          | None => None
          | Some (no, l5) =>
              if (no =? 0)%nat then None
              else
                match skip_n dict_out no l5 with
                | None => None
                | Some l6 =>
                    match (if sw then skip_n dict_stack ni l6 else Some l6) with
                    | None => None
                    | Some l7 =>
                        match read_n 4 l7 with
                        | None => None
                        | Some (lt, l8) =>
                            let body := consumed l2 l6 in
                            let wit := consumed l6 l7 in
                            let rawtx := ver ++ (if marker then [x00; x01] else []) ++ body ++ wit ++ lt in
                            Some (rev (sha256d (ver ++ body ++ lt)), rawtx, l8)
                        end
                    end
                end
          end
      end
  end.

Lemma lib_dict_tx_eq l :
  lib_dict_tx l =
  match read_n 4 l with
  | None => None
  | Some (ver, l1) =>
      let '(marker, sw, l2) :=
        match l1 with
        | b0 :: b1 :: r => if bz b0 =? 0 then (true, bz b1 =? 1, r) else (false, false, l1)
        | _ => (false, false, l1)
        end in
      dict_tail ver marker sw l2
  end.
Proof. reflexivity. Qed.

Lemma dict_tail_ser ver marker (sw : bool) ins outs lt rest :
  len_ok ins -> len_ok outs -> Forall wf_in ins -> Forall wf_out outs -> outs <> [] ->
  dict_tail ver marker sw
    (ser_list ser_in ins ++ ser_list ser_out outs ++
     (if sw then concat (map ser_wit ins) else []) ++ le_bytes 4 lt ++ rest) =
  Some (rev (sha256d (ver ++ (ser_list ser_in ins ++ ser_list ser_out outs) ++ le_bytes 4 lt)),
        ver ++ (if marker then [x00; x01] else []) ++ (ser_list ser_in ins ++ ser_list ser_out outs) ++
        (if sw then concat (map ser_wit ins) else []) ++ le_bytes 4 lt,
        rest).
Proof.
  intros Hli Hlo Hfi Hfo Hne. unfold dict_tail.
  assert (Hcons : forall A B C : bytes, consumed (A ++ B ++ C) C = A ++ B).
  { intros A B C. rewrite app_assoc. apply consumed_app. }
  rewrite lib_count_ser; [|exact Hli|intros a Ha; apply ser_in_length_pos; exact (Forall_In _ _ _ Hfi Ha)].
  rewrite (skip_n_ser dict_in ser_in ins) by (intros a Ha r; apply dict_in_ser; exact (Forall_In _ _ _ Hfi Ha)).
  rewrite lib_count_ser; [|exact Hlo|intros a _; apply ser_out_length_pos].
  destruct (length outs =? 0)%nat eqn:E0.
  { apply Nat.eqb_eq in E0. destruct outs; [contradiction|discriminate]. }
  rewrite (skip_n_ser dict_out ser_out outs) by (intros a Ha r; apply dict_out_ser; exact (Forall_In _ _ _ Hfo Ha)).
  destruct sw.
  - rewrite (skip_n_ser dict_stack ser_wit ins) by (intros a Ha r; apply dict_stack_ser; exact (Forall_In _ _ _ Hfi Ha)).
    rewrite read_n_app by apply le_bytes_length.
    rewrite Hcons, consumed_app. reflexivity.
  - rewrite app_nil_l. rewrite read_n_app by apply le_bytes_length.
    rewrite Hcons. unfold consumed at 1. rewrite Nat.sub_diag. reflexivity.
Qed.

Lemma marker_none {A} (b : byte) (L' : bytes) (F : bool -> bool -> bytes -> A) (X : A) :
  (bz b =? 0) = false -> F false false (b :: L') = X ->
  (let '(marker, sw, l2) :=
     match b :: L' with
     | b0 :: b1 :: r => if bz b0 =? 0 then (true, bz b1 =? 1, r) else (false, false, b :: L')
     | _ => (false, false, b :: L')
     end in F marker sw l2) = X.
Proof. intros H HF. destruct L'; [exact HF|]. rewrite H. exact HF. Qed.

Lemma ser_list_strip ins : ser_list ser_in (map strip_in ins) = ser_list ser_in ins.
Proof. unfold ser_list. rewrite map_length, map_map. reflexivity. Qed.

Lemma spec_ser_strip t :
  spec_ser (strip_witness t) =
  le_bytes 4 (tx_version t) ++ (ser_list ser_in (tx_ins t) ++ ser_list ser_out (tx_outs t)) ++ le_bytes 4 (tx_locktime t).
Proof.
  unfold spec_ser, strip_witness. cbn [tx_version tx_ins tx_outs tx_locktime tx_segwit].
  rewrite ser_list_strip. rewrite !app_nil_l. rewrite <- app_assoc. reflexivity.
Qed.

Lemma lib_dict_tx_ser t rest :
  wf_tx t -> tx_outs t <> [] ->
  lib_dict_tx (spec_ser t ++ rest) = Some (spec_txid t, spec_ser t, rest).
Proof.
  intros (Hv & Hlt & Hne & Hli & Hlo & Hfi & Hfo & Hsw) Hno.
  rewrite lib_dict_tx_eq. unfold spec_ser at 1. repeat rewrite <- app_assoc.
  rewrite read_n_app by apply le_bytes_length.
  unfold spec_txid. rewrite spec_ser_strip.
  destruct (tx_segwit t) eqn:Es.
  - rewrite <- !app_comm_cons. change (bz x00 =? 0) with true. cbv iota. change (bz x01 =? 1) with true.
    rewrite app_nil_l.
    rewrite (dict_tail_ser (le_bytes 4 (tx_version t)) true true) by assumption.
    unfold spec_ser. rewrite Es. repeat rewrite <- app_assoc. reflexivity.
  - rewrite !app_nil_l.
    assert (Hn : 1 <= Z.of_nat (length (tx_ins t))).
    { destruct (tx_ins t); [contradiction|]. cbn [length]. lia. }
    destruct (core_cs_enc_head _ Hn) as (b & r & Hb & Hz).
    pose proof (dict_tail_ser (le_bytes 4 (tx_version t)) false false (tx_ins t) (tx_outs t) (tx_locktime t) rest
                  Hli Hlo Hfi Hfo Hno) as H.
    cbv iota in H. rewrite app_nil_l in H.
    set (L := ser_list ser_in (tx_ins t) ++ _) in *.
    assert (HL : exists L', L = b :: L').
    { subst L. unfold ser_list at 1. rewrite Hb. repeat rewrite <- app_comm_cons. eexists; reflexivity. }
    destruct HL as [L' HL]. clearbody L. subst L.
    apply marker_none; [exact Hz|]. rewrite H.
    unfold spec_ser. rewrite Es. rewrite !app_nil_l. repeat rewrite <- app_assoc. reflexivity.
Qed.

(* ---------- runs of readers over the rest of the stream ---------- *)

Definition ser_from (b : block) (p : nat) : bytes := concat (map spec_ser (skipn p (b_txs b))).

Lemma skipn_add {A} (l : list A) : forall p m, skipn m (skipn p l) = skipn (p + m) l.
Proof.
  induction l as [|x l IH]; intros p m.
  - rewrite !skipn_nil. reflexivity.
  - destruct p; [reflexivity|]. cbn [skipn Nat.add]. apply IH.
Qed.

Lemma skipn_split {A} (l : list A) p m : skipn p l = firstn m (skipn p l) ++ skipn (p + m) l.
Proof.
  rewrite <- (firstn_skipn m (skipn p l)) at 1. f_equal. apply skipn_add.
Qed.

Lemma firstn_skipn_length {A} (l : list A) p m : (p + m <= length l)%nat -> length (firstn m (skipn p l)) = m.
Proof. intros H. rewrite firstn_length, skipn_length. lia. Qed.

Lemma In_firstn_skipn {A} (l : list A) p m a : In a (firstn m (skipn p l)) -> In a l.
Proof.
  intros H. apply (In_nth_error (firstn m (skipn p l))) in H. destruct H as [k Hk].
  assert (Hin : In a (skipn p l)).
  { rewrite <- (firstn_skipn m (skipn p l)). apply in_or_app. left. eapply nth_error_In. exact Hk. }
  rewrite <- (firstn_skipn p l). apply in_or_app. right. exact Hin.
Qed.

Lemma read_objs_ser b p m :
  Forall wf_tx (b_txs b) -> Forall quirk_free (b_txs b) -> (p + m <= length (b_txs b))%nat ->
  parse_n lib_parse_stream m (ser_from b p) =
  Some (map held (firstn m (skipn p (b_txs b))), ser_from b (p + m)).
Proof.
  intros Hw Hq Hle. unfold ser_from.
  rewrite (skipn_split (b_txs b) p m) at 1. rewrite map_app, concat_app.
  rewrite <- (firstn_skipn_length (b_txs b) p m Hle) at 1.
  apply parse_n_ser. intros a Ha r.
  apply In_firstn_skipn in Ha.
  apply lib_parse_stream_ser; [exact (Forall_In _ _ _ Hw Ha)|exact (Forall_In _ _ _ Hq Ha)].
Qed.

Lemma ser_from_nth b p t :
  nth_error (b_txs b) p = Some t -> ser_from b p = spec_ser t ++ ser_from b (S p).
Proof.
  intros H. unfold ser_from.
  assert (E : skipn p (b_txs b) = t :: skipn (S p) (b_txs b)).
  { revert p H. induction (b_txs b) as [|x l IH]; intros p H; destruct p; try discriminate.
    - cbn in H. inversion H. reflexivity.
    - cbn [nth_error] in H. cbn [skipn]. apply IH. exact H. }
  rewrite E. reflexivity.
Qed.

Lemma ser_from_end b p : (length (b_txs b) <= p)%nat -> ser_from b p = [].
Proof. intros H. unfold ser_from. rewrite skipn_all2 by exact H. reflexivity. Qed.

Lemma spec_ser_nonempty t r : exists c r', spec_ser t ++ r = c :: r'.
Proof.
  unfold spec_ser. destruct (le_bytes 4 (tx_version t)) as [|c l] eqn:E.
  - pose proof (le_bytes_length 4 (tx_version t)) as H. rewrite E in H. discriminate.
  - rewrite <- !app_comm_cons. eexists. eexists. reflexivity.
Qed.

(* the dictionary reader until the end of the stream *)
Lemma lib_dict_txs_ser (l : list tx) : forall fuel,
  Forall wf_tx l -> Forall quirk_free l -> (length (concat (map spec_ser l)) <= fuel)%nat ->
  lib_dict_txs fuel (concat (map spec_ser l)) = Some (map dict_of l).
Proof.
  induction l as [|t l IH]; intros fuel Hw Hq Hf.
  - destruct fuel; reflexivity.
  - inversion Hw as [|? ? Hwt Hwl]; subst. inversion Hq as [|? ? Hqt Hql]; subst.
    cbn [map concat] in *.
    destruct (spec_ser_nonempty t (concat (map spec_ser l))) as (c & r' & E).
    assert (Hpos : (1 <= length (spec_ser t))%nat) by apply spec_ser_length_pos.
    rewrite app_length in Hf.
    destruct fuel as [|f]; [lia|].
    cbn [lib_dict_txs]. rewrite E. rewrite <- E.
    destruct Hqt as (_ & _ & Hno).
    rewrite (lib_dict_tx_ser t _ Hwt Hno).
    rewrite IH; [reflexivity|exact Hwl|exact Hql|lia].
Qed.

(* ---------- the object as the model holds it for the protocol-level cursor ---------- *)

Definition blk_of (b : block) (objs : list tx) : lblock :=
  lblock_of (ser_header (b_hdr b)) (b_hdr b) (map held objs) (Z.of_nat (length (b_txs b))).

Definition embed (b : block) (s : sstate) : bstate :=
  mk_bstate (blk_of b (ss_objs s)) (ser_from b (ss_pos s)).

Lemma b_todo_blk b objs : b_todo (blk_of b objs) = (length (b_txs b) - length objs)%nat.
Proof. unfold b_todo, blk_of, lblock_of. cbn [lb_tx_count lb_txs]. rewrite map_length. lia. Qed.

Lemma set_txs_blk b objs more :
  set_txs (blk_of b objs) (lb_txs (blk_of b objs) ++ map held more) = blk_of b (objs ++ more).
Proof.
  unfold set_txs, blk_of, lblock_of.
  cbn [lb_hash lb_version lb_prev lb_merkle lb_time lb_bits lb_nonce lb_txs lb_tx_count].
  rewrite map_app. reflexivity.
Qed.

Lemma rev_be4 v : rev (be_bytes 4 v) = le_bytes 4 v.
Proof. unfold be_bytes. apply rev_involutive. Qed.

Lemma oconcat_held (all objs : list tx) :
  Forall wf_tx all -> Forall quirk_free all -> incl objs all ->
  oconcat lib_raw (map held objs) = Some (concat (map spec_ser objs)).
Proof.
  intros Hw Hq. induction objs as [|t l IH]; intros Hincl; [reflexivity|].
  cbn [map oconcat concat].
  assert (Hin : In t all) by (apply Hincl; left; reflexivity).
  rewrite (lib_raw_held t (Forall_In _ _ _ Hw Hin) (Forall_In _ _ _ Hq Hin)).
  rewrite IH by (intros x Hx; apply Hincl; right; exact Hx). reflexivity.
Qed.

Lemma lib_block_serialize_blk b objs :
  wf_header (b_hdr b) -> hdr_quirk_free (b_hdr b) -> len_ok (b_txs b) ->
  Forall wf_tx (b_txs b) -> Forall quirk_free (b_txs b) -> incl objs (b_txs b) ->
  lib_block_serialize (blk_of b objs) =
  if (length objs =? length (b_txs b))%nat && negb (length (b_txs b) =? 0)%nat
  then Some (ser_header (b_hdr b) ++ ser_list spec_ser objs) else None.
Proof.
  intros Hwh (Q1 & Q2 & Q3 & Q4 & Q5) Hlen Hw Hq Hincl.
  unfold lib_block_serialize, blk_of, lblock_of.
  cbn [lb_txs lb_tx_count lb_time lb_version lb_prev lb_merkle lb_bits lb_nonce].
  rewrite map_length.
  destruct (length objs =? length (b_txs b))%nat eqn:En.
  - apply Nat.eqb_eq in En. rewrite En, Z.eqb_refl. cbn [negb orb andb].
    destruct (length (b_txs b) =? 0)%nat eqn:E0.
    + apply Nat.eqb_eq in E0. rewrite E0 in En. destruct objs; [reflexivity|discriminate].
    + assert (Hnn : is_nil (map held objs) = false).
      { destruct objs; [apply Nat.eqb_neq in E0; cbn in En; congruence|reflexivity]. }
      rewrite Hnn. cbn [negb].
      pose proof Hwh as (Hv & Hp & Hm & Ht & Hb & Hn).
      rewrite le_bytes_opt_some by (rewrite pow256_4; exact Ht). cbn [obind].
      rewrite !hexlike_false_id by assumption.
      rewrite !rev_be4, !rev_involutive.
      change (le_bytes 4 (h_version (b_hdr b)) ++ h_prev (b_hdr b) ++ h_merkle (b_hdr b) ++
              le_bytes 4 (h_time (b_hdr b)) ++ le_bytes 4 (h_bits (b_hdr b)) ++ le_bytes 4 (h_nonce (b_hdr b)))
        with (ser_header (b_hdr b)).
      rewrite (ser_header_length _ Hwh). cbn [Nat.eqb negb].
      rewrite <- En. rewrite lib_cs_enc_len by (unfold len_ok in *; rewrite En; exact Hlen). cbn [obind].
      rewrite (oconcat_held (b_txs b) objs Hw Hq Hincl). cbn [obind].
      reflexivity.
  - apply Nat.eqb_neq in En. cbn [andb].
    destruct (Z.of_nat (length objs) =? Z.of_nat (length (b_txs b))) eqn:Ez; [apply Z.eqb_eq in Ez; lia|].
    reflexivity.
Qed.

(* ---------- one call: the library's step on the embedded state is the cursor's step ---------- *)

Definition sinv (b : block) (s : sstate) : Prop :=
  (ss_pos s <= length (b_txs b))%nat /\ incl (ss_objs s) (b_txs b).

Definition lift (b : block) (r : option (sstate * bout)) : option (bstate * bout) :=
  match r with Some (s', out) => Some (embed b s', out) | None => None end.

Lemma parse_n_add {A} (p : bytes -> option (A * bytes)) a : forall c l,
  parse_n p (a + c) l =
  match parse_n p a l with
  | Some (x, r) => match parse_n p c r with Some (y, r') => Some (x ++ y, r') | None => None end
  | None => None
  end.
Proof.
  induction a as [|a IH]; intros c l.
  - cbn [Nat.add parse_n]. destruct (parse_n p c l) as [[y r']|]; reflexivity.
  - cbn [Nat.add parse_n]. destruct (p l) as [[x r]|]; [|reflexivity].
    rewrite IH. destruct (parse_n p a r) as [[xs r1]|]; [|reflexivity].
    destruct (parse_n p c r1) as [[y r']|]; reflexivity.
Qed.

Lemma lib_parse_stream_nil : lib_parse_stream [] = None.
Proof. reflexivity. Qed.

Lemma read_objs_short b p m :
  Forall wf_tx (b_txs b) -> Forall quirk_free (b_txs b) ->
  (p <= length (b_txs b))%nat -> (length (b_txs b) < p + m)%nat ->
  parse_n lib_parse_stream m (ser_from b p) = None.
Proof.
  intros Hw Hq Hp Hlt.
  replace m with ((length (b_txs b) - p) + S (m - (length (b_txs b) - p) - 1))%nat by lia.
  rewrite parse_n_add. rewrite (read_objs_ser b p _ Hw Hq) by lia.
  rewrite ser_from_end by lia. reflexivity.
Qed.

Lemma Forall_skipn {A} (P : A -> Prop) l p : Forall P l -> Forall P (skipn p l).
Proof.
  intros H. apply Forall_forall. intros a Ha. apply (Forall_In _ _ _ H).
  rewrite <- (firstn_skipn p l). apply in_or_app. right. exact Ha.
Qed.

Lemma nth_error_skipn_cons {A} (l : list A) p t : nth_error l p = Some t -> skipn p l = t :: skipn (S p) l.
Proof.
  revert p. induction l as [|x l IH]; intros p H; destruct p; try discriminate.
  - cbn in H. inversion H. reflexivity.
  - cbn [nth_error] in H. cbn [skipn]. apply IH. exact H.
Qed.

Lemma step_sim b s o :
  block_ok b -> sinv b s -> lib_bstep (embed b s) o = lift b (spec_bstep b s o).
Proof.
  intros (Hwh & Hqh & Hlen & Hw & Hq) (Hpos & Hincl).
  destruct o as [k| | | |]; unfold lib_bstep, spec_bstep, embed; cbn [bs_blk bs_rest].
  - (* parse_transactions(k) *)
    rewrite b_todo_blk. unfold s_todo.
    set (m := if (k =? 0)%nat then _ else _).
    destruct (ss_pos s + m <=? length (b_txs b))%nat eqn:E.
    + apply Nat.leb_le in E. rewrite (read_objs_ser b _ m Hw Hq E).
      cbn [lift]. rewrite set_txs_blk. reflexivity.
    + apply Nat.leb_gt in E. rewrite (read_objs_short b _ m Hw Hq Hpos E). reflexivity.
  - (* parse_transaction() *)
    rewrite b_todo_blk. unfold s_todo.
    destruct (length (b_txs b) - length (ss_objs s))%nat; [reflexivity|].
    destruct (nth_error (b_txs b) (ss_pos s)) as [t|] eqn:En.
    + rewrite (ser_from_nth b _ t En).
      assert (Hin : In t (b_txs b)) by (eapply nth_error_In; exact En).
      rewrite (lib_parse_stream_ser t _ (Forall_In _ _ _ Hw Hin) (Forall_In _ _ _ Hq Hin)).
      cbn [lift]. rewrite held_txid.
      change [held t] with (map held [t]). rewrite set_txs_blk. reflexivity.
    + apply nth_error_None in En. rewrite ser_from_end by exact En. reflexivity.
  - (* parse_transactions_dict() *)
    rewrite b_todo_blk. unfold s_todo.
    destruct (length (b_txs b) - length (ss_objs s))%nat; [reflexivity|].
    unfold ser_from.
    rewrite lib_dict_txs_ser; [reflexivity| | |lia].
    + apply Forall_skipn. exact Hw.
    + apply Forall_skipn. exact Hq.
  - (* parse_transaction_dict() *)
    rewrite b_todo_blk. unfold s_todo.
    destruct (length (b_txs b) - length (ss_objs s))%nat; [reflexivity|].
    destruct (nth_error (b_txs b) (ss_pos s)) as [t|] eqn:En.
    + rewrite (ser_from_nth b _ t En).
      assert (Hin : In t (b_txs b)) by (eapply nth_error_In; exact En).
      destruct (spec_ser_nonempty t (ser_from b (S (ss_pos s)))) as (c & r' & E).
      rewrite E. rewrite <- E.
      pose proof (Forall_In _ _ _ Hq Hin) as (_ & _ & Hno).
      rewrite (lib_dict_tx_ser t _ (Forall_In _ _ _ Hw Hin) Hno). reflexivity.
    + apply nth_error_None in En. unfold lift, embed. rewrite !ser_from_end by exact En. reflexivity.
  - (* serialize() *)
    rewrite (lib_block_serialize_blk b _ Hwh Hqh Hlen Hw Hq Hincl). reflexivity.
Qed.

Lemma spec_bstep_inv b s o s' out : sinv b s -> spec_bstep b s o = Some (s', out) -> sinv b s'.
Proof.
  intros (Hpos & Hincl) H. unfold spec_bstep in H.
  destruct o as [k| | | |].
  - destruct (_ <=? _)%nat eqn:E in H; [|discriminate]. apply Nat.leb_le in E.
    inversion H; subst. split; [exact E|].
    cbn [ss_objs]. intros x Hx. apply in_app_or in Hx. destruct Hx as [Hx|Hx]; [apply Hincl; exact Hx|].
    eapply In_firstn_skipn. exact Hx.
  - destruct (s_todo b s); [inversion H; subst; split; assumption|].
    destruct (nth_error (b_txs b) (ss_pos s)) as [t|] eqn:En; [|discriminate].
    inversion H; subst. split.
    + cbn [ss_pos]. assert (ss_pos s < length (b_txs b))%nat by (apply nth_error_Some; congruence). lia.
    + cbn [ss_objs]. intros x Hx. apply in_app_or in Hx. destruct Hx as [Hx|[Hx|[]]]; [apply Hincl; exact Hx|].
      subst x. eapply nth_error_In. exact En.
  - destruct (s_todo b s); inversion H; subst; split; assumption.
  - destruct (s_todo b s); [inversion H; subst; split; assumption|].
    destruct (nth_error (b_txs b) (ss_pos s)) as [t|] eqn:En; inversion H; subst; [|split; assumption].
    split; [|exact Hincl].
    cbn [ss_pos]. assert (ss_pos s < length (b_txs b))%nat by (apply nth_error_Some; congruence). lia.
  - inversion H; subst. split; assumption.
Qed.

Definition lift_run (b : block) (l : list (option (sstate * bout))) : list (option (bstate * bout)) :=
  map (lift b) l.

Lemma run_sim b : block_ok b -> forall ops s, sinv b s ->
  lib_brun (embed b s) ops = lift_run b (spec_brun b s ops).
Proof.
  intros Hok. induction ops as [|o ops IH]; intros s Hs; [reflexivity|].
  cbn [lib_brun spec_brun]. rewrite (step_sim b s o Hok Hs).
  destruct (spec_bstep b s o) as [[s' out]|] eqn:E; [|reflexivity].
  cbn [lift lift_run map]. rewrite (IH s' (spec_bstep_inv b s o s' out Hs E)). reflexivity.
Qed.

(* ---------- the opening call ---------- *)

Lemma open_txs_ser b limit : forall k p have fuel,
  Forall wf_tx (b_txs b) -> Forall quirk_free (b_txs b) ->
  (length (b_txs b) - p = k)%nat -> (p <= length (b_txs b))%nat -> (length (ser_from b p) <= fuel)%nat ->
  lib_open_txs fuel limit have (ser_from b p) =
  let m := if (limit =? 0)%nat then (length (b_txs b) - p)%nat else Nat.min (limit - have) (length (b_txs b) - p) in
  Some (map held (firstn m (skipn p (b_txs b))), ser_from b (p + m)).
Proof.
  induction k as [|k IH]; intros p have fuel Hw Hq Hk Hp Hf.
  - assert (Hend : ser_from b p = []) by (apply ser_from_end; lia).
    rewrite Hend. replace (length (b_txs b) - p)%nat with 0%nat by lia.
    rewrite Nat.min_0_r. cbv zeta. destruct (limit =? 0)%nat; destruct fuel; cbn [lib_open_txs firstn map];
      rewrite ser_from_end by lia; reflexivity.
  - destruct (nth_error (b_txs b) p) as [t|] eqn:En.
    2:{ apply nth_error_None in En. lia. }
    assert (Hin : In t (b_txs b)) by (eapply nth_error_In; exact En).
    pose proof (ser_from_nth b p t En) as Es.
    destruct (spec_ser_nonempty t (ser_from b (S p))) as (c & r' & E).
    cbv zeta.
    destruct (negb (limit =? 0)%nat && (limit <=? have)%nat) eqn:Elim.
    + (* the limit is reached *)
      apply andb_true_iff in Elim. destruct Elim as [E1 E2]. apply negb_true_iff in E1. apply Nat.leb_le in E2.
      rewrite E1. replace (Nat.min (limit - have) (length (b_txs b) - p)) with 0%nat by lia.
      rewrite Nat.add_0_r. rewrite Es at 1. rewrite E.
      destruct fuel; cbn [lib_open_txs]; rewrite E1; cbn [negb andb];
        (destruct (limit <=? have)%nat eqn:E3; [|apply Nat.leb_gt in E3; lia]);
        cbn [firstn map]; rewrite <- E, <- Es; reflexivity.
    + (* one more transaction *)
      assert (Hpos : (1 <= length (spec_ser t))%nat) by apply spec_ser_length_pos.
      rewrite Es in Hf. rewrite app_length in Hf.
      destruct fuel as [|f]; [lia|].
      rewrite Es. rewrite E. cbn [lib_open_txs]. rewrite Elim. rewrite <- E.
      rewrite (lib_parse_stream_ser t _ (Forall_In _ _ _ Hw Hin) (Forall_In _ _ _ Hq Hin)).
      rewrite (IH (S p) (S have) f Hw Hq) by lia. cbv zeta.
      set (m' := if (limit =? 0)%nat then _ else _).
      set (m := if (limit =? 0)%nat then _ else _).
      assert (Hm : m = S m').
      { subst m m'. destruct (limit =? 0)%nat eqn:E0; [lia|].
        cbn [negb andb] in Elim. apply Nat.leb_gt in Elim. lia. }
      rewrite Hm. rewrite (nth_error_skipn_cons _ _ _ En). cbn [firstn map].
      replace (p + S m')%nat with (S p + m')%nat by lia. reflexivity.
Qed.

Lemma ser_from_0 b : ser_from b 0 = concat (map spec_ser (b_txs b)).
Proof. reflexivity. Qed.

Lemma block_open_ser b ptx limit :
  block_ok b -> lib_block_open (spec_block_ser b) ptx limit = Some (embed b (spec_open b ptx limit)).
Proof.
  intros (Hwh & Hqh & Hlen & Hw & Hq). unfold lib_block_open, spec_block_ser.
  rewrite read_n_app by (apply ser_header_length; exact Hwh).
  rewrite <- (app_nil_r (ser_header (b_hdr b))) at 1. rewrite (parse_header_ser _ [] Hwh).
  unfold ser_list. rewrite lib_read_cs_enc by (apply len_ok_range; exact Hlen).
  rewrite <- ser_from_0.
  destruct ptx.
  - rewrite (open_txs_ser b limit (length (b_txs b)) 0 0 _ Hw Hq) by lia. cbv zeta.
    rewrite Nat.sub_0_r.
    set (m := if (limit =? 0)%nat then _ else _).
    assert (Hm : m = (if (limit =? 0)%nat then length (b_txs b) else Nat.min limit (length (b_txs b)))).
    { subst m. destruct (limit =? 0)%nat; [reflexivity|]. rewrite Nat.sub_0_r. reflexivity. }
    cbn [skipn Nat.add andb].
    assert (Hchk : (limit =? 0)%nat && negb (Z.of_nat (length (b_txs b)) =? Z.of_nat (length (map held (firstn m (b_txs b))))) = false).
    { destruct (limit =? 0)%nat eqn:E0; [|reflexivity]. cbn [andb].
      rewrite Hm. rewrite map_length, firstn_all. rewrite Z.eqb_refl. reflexivity. }
    rewrite Hchk. unfold embed, spec_open, blk_of. rewrite <- Hm. cbn [ss_objs ss_pos]. reflexivity.
  - cbn [andb]. unfold embed, spec_open, blk_of. cbn [ss_objs ss_pos map]. reflexivity.
Qed.

Lemma spec_open_inv b ptx limit : sinv b (spec_open b ptx limit).
Proof.
  unfold spec_open, sinv. destruct ptx; cbn [ss_pos ss_objs].
  - split.
    + destruct (limit =? 0)%nat; lia.
    + intros x Hx. rewrite <- (firstn_skipn (if (limit =? 0)%nat then length (b_txs b) else Nat.min limit (length (b_txs b))) (b_txs b)).
      apply in_or_app. left. exact Hx.
  - split; [lia|]. intros x [].
Qed.

(* the headline: every sequence of reader calls on one Block object parsed from a well-formed block is the
   cursor session over the block's own transactions *)
Theorem block_reader_session_exact_proof b ptx limit ops :
  block_ok b ->
  lib_bsession (spec_block_ser b) ptx limit ops =
  Some (embed b (spec_open b ptx limit), lift_run b (spec_brun b (spec_open b ptx limit) ops)).
Proof.
  intros Hok. unfold lib_bsession. rewrite (block_open_ser b ptx limit Hok).
  rewrite (run_sim b Hok ops _ (spec_open_inv b ptx limit)). reflexivity.
Qed.

(* ---------- what the cursor delivers ---------- *)

Lemma firstn_add {A} (l : list A) : forall p m, firstn (p + m) l = firstn p l ++ firstn m (skipn p l).
Proof.
  induction l as [|x l IH]; intros p m.
  - rewrite skipn_nil, !firstn_nil. reflexivity.
  - destruct p; [reflexivity|]. cbn [Nat.add firstn skipn]. rewrite IH. reflexivity.
Qed.

Definition prefix_state (b : block) (s : sstate) : Prop :=
  (ss_pos s <= length (b_txs b))%nat /\ ss_objs s = firstn (ss_pos s) (b_txs b).

Lemma prefix_objs_length b s : prefix_state b s -> length (ss_objs s) = ss_pos s.
Proof. intros (Hp & Ho). rewrite Ho. rewrite firstn_length. lia. Qed.

(* without parse_transaction_dict every call succeeds and Block.transactions stays the first `pos` transactions *)
Lemma prefix_step b s o :
  prefix_state b s -> (match o with BDictOne => False | _ => True end) ->
  exists s' out, spec_bstep b s o = Some (s', out) /\ prefix_state b s'.
Proof.
  intros Hs Ho. pose proof (prefix_objs_length b s Hs) as Hl. destruct Hs as (Hp & Hobj).
  destruct o as [k| | | |]; try contradiction; unfold spec_bstep, s_todo; rewrite Hl.
  - set (m := if (k =? 0)%nat then _ else _).
    assert (Hm : (ss_pos s + m <= length (b_txs b))%nat) by (subst m; destruct (k =? 0)%nat; lia).
    destruct (ss_pos s + m <=? length (b_txs b))%nat eqn:E; [|apply Nat.leb_gt in E; lia].
    eexists. eexists. split; [reflexivity|]. split; [exact Hm|].
    cbn [ss_objs ss_pos]. rewrite Hobj. symmetry. apply firstn_add.
  - destruct (length (b_txs b) - ss_pos s)%nat eqn:Et.
    + eexists. eexists. split; [reflexivity|]. split; assumption.
    + destruct (nth_error (b_txs b) (ss_pos s)) as [t|] eqn:En.
      2:{ apply nth_error_None in En. lia. }
      eexists. eexists. split; [reflexivity|]. split.
      * cbn [ss_pos]. lia.
      * cbn [ss_objs ss_pos]. rewrite Hobj. replace (S (ss_pos s)) with (ss_pos s + 1)%nat by lia.
        rewrite firstn_add. rewrite (nth_error_skipn_cons _ _ _ En). reflexivity.
  - destruct (length (b_txs b) - ss_pos s)%nat; eexists; eexists; (split; [reflexivity|split; assumption]).
  - eexists. eexists. split; [reflexivity|]. split; assumption.
Qed.

Lemma prefix_run b : forall ops s, prefix_state b s -> dict_one_free ops ->
  Forall (fun r => exists s' out, r = Some (s', out) /\ prefix_state b s') (spec_brun b s ops).
Proof.
  induction ops as [|o ops IH]; intros s Hs Hf; [constructor|].
  inversion Hf as [|? ? Ho Hr]; subst.
  destruct (prefix_step b s o Hs Ho) as (s' & out & E & Hs').
  cbn [spec_brun]. rewrite E. constructor.
  - exists s', out. split; [reflexivity|exact Hs'].
  - apply IH; assumption.
Qed.

Lemma spec_open_prefix b ptx limit : prefix_state b (spec_open b ptx limit).
Proof.
  unfold spec_open, prefix_state. destruct ptx; cbn [ss_pos ss_objs].
  - split; [destruct (limit =? 0)%nat; lia|reflexivity].
  - split; [lia|reflexivity].
Qed.

Theorem block_reader_delivers_prefix_proof b ptx limit ops :
  dict_one_free ops ->
  Forall (fun r => exists s out, r = Some (s, out) /\ prefix_state b s)
         (spec_brun b (spec_open b ptx limit) ops).
Proof. intros H. apply prefix_run; [apply spec_open_prefix|exact H]. Qed.

(* serialize() on a prefix state: the input bytes when every transaction was delivered, ValueError before *)
Theorem serialize_prefix_proof b s :
  prefix_state b s ->
  spec_bstep b s BSer =
  Some (s, OSer (if (ss_pos s =? length (b_txs b))%nat && negb (length (b_txs b) =? 0)%nat
                 then Some (spec_block_ser b) else None)).
Proof.
  intros Hs. pose proof (prefix_objs_length b s Hs) as Hl. destruct Hs as (Hp & Hobj).
  unfold spec_bstep. rewrite Hl.
  destruct (ss_pos s =? length (b_txs b))%nat eqn:E; [|reflexivity].
  apply Nat.eqb_eq in E. rewrite Hobj, E, firstn_all. reflexivity.
Qed.

(* what parse_transactions_dict() lists on a prefix state: the transactions not yet delivered, ids and bytes *)
Theorem dict_reader_lists_rest_proof b s :
  prefix_state b s -> (ss_pos s < length (b_txs b))%nat ->
  spec_bstep b s BDictAll = Some (s, ODicts (map dict_of (skipn (ss_pos s) (b_txs b)))).
Proof.
  intros Hs Hlt. pose proof (prefix_objs_length b s Hs) as Hl.
  unfold spec_bstep, s_todo. rewrite Hl.
  destruct (length (b_txs b) - ss_pos s)%nat eqn:E; [lia|reflexivity].
Qed.

(* with parse_transaction_dict in the sequence: Block.transactions is still a selection, in block order and each
   at most once, of the transactions consumed so far *)
Fixpoint select {A} (mask : list bool) (l : list A) : list A :=
  match mask, l with
  | m :: mr, x :: r => if m then x :: select mr r else select mr r
  | _, _ => []
  end.

Lemma select_app {A} (m1 : list bool) : forall (l1 : list A) m2 l2,
  length m1 = length l1 -> select (m1 ++ m2) (l1 ++ l2) = select m1 l1 ++ select m2 l2.
Proof.
  induction m1 as [|m m1 IH]; intros l1 m2 l2 H; destruct l1 as [|x l1]; try discriminate; [reflexivity|].
  cbn [app select]. injection H as H. rewrite (IH l1 m2 l2 H). destruct m; reflexivity.
Qed.

Lemma select_all {A} (l : list A) : select (repeat true (length l)) l = l.
Proof. induction l as [|x l IH]; [reflexivity|]. cbn. rewrite IH. reflexivity. Qed.

Definition selection_state (b : block) (s : sstate) : Prop :=
  (ss_pos s <= length (b_txs b))%nat /\
  exists mask, length mask = ss_pos s /\ ss_objs s = select mask (firstn (ss_pos s) (b_txs b)).

Lemma selection_step b s o s' out :
  selection_state b s -> spec_bstep b s o = Some (s', out) -> selection_state b s'.
Proof.
  intros (Hp & mask & Hml & Hobj) H. unfold spec_bstep in H.
  assert (Hfl : length (firstn (ss_pos s) (b_txs b)) = ss_pos s) by (rewrite firstn_length; lia).
  destruct o as [k| | | |].
  - destruct (_ <=? _)%nat eqn:E in H; [|discriminate]. apply Nat.leb_le in E.
    inversion H; subst. clear H. set (m := if (k =? 0)%nat then _ else _) in *.
    split; [exact E|]. exists (mask ++ repeat true m). cbn [ss_pos ss_objs]. split.
    + rewrite app_length, repeat_length. lia.
    + rewrite firstn_add. rewrite select_app by lia. rewrite <- Hobj. f_equal.
      pose proof (select_all (firstn m (skipn (ss_pos s) (b_txs b)))) as Hsel.
      rewrite (firstn_skipn_length (b_txs b) (ss_pos s) m E) in Hsel. symmetry. exact Hsel.
  - destruct (s_todo b s); [inversion H; subst; split; [exact Hp|exists mask; split; assumption]|].
    destruct (nth_error (b_txs b) (ss_pos s)) as [t|] eqn:En; [|discriminate].
    inversion H; subst. clear H.
    assert (Hlt : (ss_pos s < length (b_txs b))%nat) by (apply nth_error_Some; congruence).
    split; [cbn [ss_pos]; lia|]. exists (mask ++ [true]). cbn [ss_pos ss_objs]. split.
    + rewrite app_length. cbn [length]. lia.
    + replace (S (ss_pos s)) with (ss_pos s + 1)%nat by lia. rewrite firstn_add.
      rewrite select_app by lia. rewrite <- Hobj. rewrite (nth_error_skipn_cons _ _ _ En). reflexivity.
  - destruct (s_todo b s); inversion H; subst; (split; [exact Hp|exists mask; split; assumption]).
  - destruct (s_todo b s); [inversion H; subst; split; [exact Hp|exists mask; split; assumption]|].
    destruct (nth_error (b_txs b) (ss_pos s)) as [t|] eqn:En; inversion H; subst; clear H.
    2:{ split; [exact Hp|exists mask; split; assumption]. }
    assert (Hlt : (ss_pos s < length (b_txs b))%nat) by (apply nth_error_Some; congruence).
    split; [cbn [ss_pos]; lia|]. exists (mask ++ [false]). cbn [ss_pos ss_objs]. split.
    + rewrite app_length. cbn [length]. lia.
    + replace (S (ss_pos s)) with (ss_pos s + 1)%nat by lia. rewrite firstn_add.
      rewrite select_app by lia. rewrite <- Hobj. rewrite (nth_error_skipn_cons _ _ _ En).
      cbn [firstn select]. rewrite app_nil_r. reflexivity.
  - inversion H; subst. split; [exact Hp|exists mask; split; assumption].
Qed.

Lemma selection_run b : forall ops s, selection_state b s ->
  Forall (fun r => match r with Some (s', _) => selection_state b s' | None => True end) (spec_brun b s ops).
Proof.
  induction ops as [|o ops IH]; intros s Hs; [constructor|].
  cbn [spec_brun]. destruct (spec_bstep b s o) as [[s' out]|] eqn:E.
  - pose proof (selection_step b s o s' out Hs E) as Hs'. constructor; [exact Hs'|apply IH; exact Hs'].
  - constructor; [exact I|constructor].
Qed.

Theorem block_reader_selection_proof b ptx limit ops :
  Forall (fun r => match r with Some (s', _) => selection_state b s' | None => True end)
         (spec_brun b (spec_open b ptx limit) ops).
Proof.
  apply selection_run. destruct (spec_open_prefix b ptx limit) as (Hp & Ho).
  split; [exact Hp|]. exists (repeat true (ss_pos (spec_open b ptx limit))). split; [apply repeat_length|].
  rewrite Ho at 1.
  rewrite <- (firstn_length_le (b_txs b) Hp) at 2. symmetry. apply select_all.
Qed.

(* the old single-call reader is the opening call with parse_transactions=True and no limit *)
Lemma open_txs_unlimited : forall fuel have l,
  lib_open_txs fuel 0 have l = match lib_parse_txs fuel l with Some ts => Some (ts, []) | None => None end.
Proof.
  induction fuel as [|f IH]; intros have l.
  - destruct l; reflexivity.
  - destruct l as [|c l]; [reflexivity|].
    cbn [lib_open_txs lib_parse_txs Nat.eqb negb andb].
    destruct (lib_parse_stream (c :: l)) as [[t r]|]; [|reflexivity].
    rewrite IH. destruct (lib_parse_txs f r); reflexivity.
Qed.

Theorem block_parse_is_open_proof l :
  lib_block_open l true 0 = match lib_block_parse l with Some lb => Some (mk_bstate lb []) | None => None end.
Proof.
  unfold lib_block_open, lib_block_parse.
  destruct (read_n 80 l) as [[hdr body]|]; [|reflexivity].
  destruct (parse_header hdr) as [[h r]|]; [|reflexivity].
  destruct (lib_read_cs body) as [[cnt txdata]|]; [|reflexivity].
  rewrite open_txs_unlimited.
  destruct (lib_parse_txs (length txdata) txdata) as [txs|]; [|reflexivity].
  cbn [andb Nat.eqb]. destruct (cnt =? Z.of_nat (length txs)); reflexivity.
Qed.
