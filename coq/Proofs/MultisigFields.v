(* Proofs/MultisigFields.v — C10: the fields a signature commits to.
   (1) what each hand-off channel preserves; (2) the creation rules give the sequence numbers BIP125 / nLockTime
   need; (3) a chain whose hand-offs preserve the fields stays in epoch 0, where the committed ceremony is the
   plain ceremony of MultisigSign.v, so m_signers_suffice carries over together with "the fields never change". *)
From Coq Require Import ZArith List Bool Arith Lia.
From Verif Require Import Model.Multisig Proofs.MultisigSign.
Import ListNotations.
Open Scope Z_scope.

(* ---------- decidable equality of the fields ---------- *)
Lemma mtxin_eqb_eq a b : mtxin_eqb a b = true <-> a = b.
Proof.
  unfold mtxin_eqb. destruct a as [p s v c], b as [p' s' v' c']. cbn [ti_prev ti_seq ti_value ti_code].
  rewrite !andb_true_iff, !Z.eqb_eq. split.
  - intros [[[-> ->] ->] ->]. reflexivity.
  - intros H. injection H as -> -> -> ->. repeat split.
Qed.

Lemma mtxout_eqb_eq a b : mtxout_eqb a b = true <-> a = b.
Proof.
  unfold mtxout_eqb. destruct a as [d v], b as [d' v']. cbn [to_dest to_value].
  rewrite andb_true_iff, !Z.eqb_eq. split.
  - intros [-> ->]. reflexivity.
  - intros H. injection H as -> ->. split; reflexivity.
Qed.

Lemma list_eqb_eq {A : Type} (eqb : A -> A -> bool) :
  (forall a b, eqb a b = true <-> a = b) -> forall l1 l2, list_eqb eqb l1 l2 = true <-> l1 = l2.
Proof.
  intros H. induction l1 as [|x r IH]; intros [|y r2]; cbn [list_eqb].
  - split; reflexivity.
  - split; discriminate.
  - split; discriminate.
  - rewrite andb_true_iff, H, IH. split.
    + intros [-> ->]. reflexivity.
    + intros E. injection E as -> ->. split; reflexivity.
Qed.

Lemma mfields_eqb_eq a b : mfields_eqb a b = true <-> a = b.
Proof.
  unfold mfields_eqb. destruct a as [v l i o], b as [v' l' i' o']. cbn [tf_version tf_locktime tf_ins tf_outs].
  rewrite !andb_true_iff, !Z.eqb_eq, (list_eqb_eq mtxin_eqb mtxin_eqb_eq), (list_eqb_eq mtxout_eqb mtxout_eqb_eq).
  split.
  - intros [[[-> ->] ->] ->]. reflexivity.
  - intros H. injection H as -> -> -> ->. repeat split.
Qed.

Lemma mfields_eqb_refl f : mfields_eqb f f = true.
Proof. apply mfields_eqb_eq. reflexivity. Qed.

(* ---------- what the channels preserve ---------- *)
Lemma channel_preserves_lemma h afs bc f : ms_channel_fields h afs bc f = f.
Proof. reflexivity. Qed.

(* everything of an input except its sequence number *)
Definition ti_rest (i : mtxin) : Z * Z * Z := (ti_prev i, ti_value i, ti_code i).

(* ---------- creation: the sequence numbers that BIP125 and nLockTime need ---------- *)
Lemma create_ins_seq ev afs sp f : lib_create_fields ev afs sp = Some f ->
  tf_version f = 1 /\
  tf_locktime f = lib_tx_locktime afs (ev_blockcount ev) (sp_locktime sp) /\
  map ti_seq (tf_ins f) =
    map (fun _ => lib_default_sequence (sp_rbf sp) (lib_tx_locktime afs (ev_blockcount ev) (sp_locktime sp))) (sp_ins sp) /\
  map ti_rest (tf_ins f) = sp_ins sp.
Proof.
  unfold lib_create_fields. intros H.
  destruct (match sp_minconf sp with Some c => ev_confirms ev <? c | None => false end); [discriminate|].
  destruct (_ <? 0); [discriminate|]. injection H as <-. cbn [tf_version tf_locktime tf_ins].
  repeat split.
  - rewrite map_map. reflexivity.
  - rewrite map_map. rewrite <- (map_id (sp_ins sp)) at 2. apply map_ext. intros [[p v] c]. reflexivity.
Qed.

Lemma create_rbf_lemma ev afs sp f : lib_create_fields ev afs sp = Some f -> sp_rbf sp = true ->
  Forall (fun i => ti_seq i = x_seq_rbf) (tf_ins f).
Proof.
  intros H Hr. destruct (create_ins_seq ev afs sp f H) as [_ [_ [Hs _]]].
  unfold lib_default_sequence in Hs. rewrite Hr in Hs.
  apply Forall_forall. intros i Hi.
  assert (Hin : In (ti_seq i) (map ti_seq (tf_ins f))) by (apply in_map; exact Hi).
  rewrite Hs in Hin. apply in_map_iff in Hin. destruct Hin as [_ [E _]]. symmetry. exact E.
Qed.

Lemma create_not_rbf_lemma ev afs sp f : lib_create_fields ev afs sp = Some f -> sp_rbf sp = false ->
  Forall (fun i => x_seq_locktime <= ti_seq i) (tf_ins f).
Proof.
  intros H Hr. destruct (create_ins_seq ev afs sp f H) as [_ [_ [Hs _]]].
  unfold lib_default_sequence in Hs. rewrite Hr in Hs.
  apply Forall_forall. intros i Hi.
  assert (Hin : In (ti_seq i) (map ti_seq (tf_ins f))) by (apply in_map; exact Hi).
  rewrite Hs in Hin. apply in_map_iff in Hin. destruct Hin as [_ [E _]]. rewrite <- E.
  unfold x_seq_locktime, x_seq_final. destruct (_ && _); lia.
Qed.

Lemma create_locktime_lemma ev afs sp f : lib_create_fields ev afs sp = Some f ->
  0 < sp_locktime sp < 4294967295 ->
  tf_locktime f = sp_locktime sp /\ Forall (fun i => ti_seq i < x_seq_final) (tf_ins f).
Proof.
  intros H Hl. destruct (create_ins_seq ev afs sp f H) as [_ [Hlt [Hs _]]].
  assert (El : lib_tx_locktime afs (ev_blockcount ev) (sp_locktime sp) = sp_locktime sp).
  { unfold lib_tx_locktime. assert (E0 : sp_locktime sp =? 0 = false) by (apply Z.eqb_neq; lia).
    rewrite E0. reflexivity. }
  rewrite El in *. split; [exact Hlt|].
  apply Forall_forall. intros i Hi.
  assert (Hin : In (ti_seq i) (map ti_seq (tf_ins f))) by (apply in_map; exact Hi).
  rewrite Hs in Hin. apply in_map_iff in Hin. destruct Hin as [_ [E _]]. rewrite <- E.
  unfold lib_default_sequence, x_seq_rbf, x_seq_locktime, x_seq_final.
  destruct (sp_rbf sp); [lia|].
  assert (E1 : 0 <? sp_locktime sp = true) by (apply Z.ltb_lt; lia).
  assert (E2 : sp_locktime sp <? 4294967295 = true) by (apply Z.ltb_lt; lia).
  rewrite E1, E2. cbn [andb]. lia.
Qed.

(* amounts: requested outputs first, in order; what is left after the fee goes to the change outputs *)
Lemma requested_outs_values j l : map to_value (lib_requested_outs j l) = l.
Proof. revert j. induction l as [|v r IH]; intros j; [reflexivity|]. cbn [lib_requested_outs map to_value]. rewrite IH. reflexivity. Qed.

Lemma change_outs_sum : forall n j first rest, (1 <= j)%nat ->
  zsum (map to_value (lib_change_outs j n first rest)) = Z.of_nat n * rest.
Proof.
  induction n as [|n IH]; intros j first rest Hj; [reflexivity|].
  cbn [lib_change_outs map to_value zsum fold_right]. destruct j as [|j']; [lia|].
  change (fold_right Z.add 0 (map to_value (lib_change_outs (S (S j')) n first rest)))
    with (zsum (map to_value (lib_change_outs (S (S j')) n first rest))).
  rewrite IH by lia. lia.
Qed.

Lemma change_outs_sum0 n first rest : (1 <= n)%nat ->
  zsum (map to_value (lib_change_outs 0 n first rest)) = first + (Z.of_nat n - 1) * rest.
Proof.
  intros Hn. destruct n as [|n]; [lia|].
  cbn [lib_change_outs map to_value zsum fold_right].
  change (fold_right Z.add 0 (map to_value (lib_change_outs 1 n first rest)))
    with (zsum (map to_value (lib_change_outs 1 n first rest))).
  rewrite change_outs_sum by lia. lia.
Qed.

Lemma zsum_app a b : zsum (a ++ b) = zsum a + zsum b.
Proof. unfold zsum. induction a as [|x r IH]; cbn [app fold_right]; [reflexivity | rewrite IH; lia]. Qed.

Lemma create_balance_lemma ev afs sp f : lib_create_fields ev afs sp = Some f -> (1 <= sp_nchange sp)%nat ->
  let tin := zsum (map ti_value (tf_ins f)) in
  let tout := zsum (map to_value (tf_outs f)) in
  firstn (length (sp_outs sp)) (map to_value (tf_outs f)) = sp_outs sp /\
  sp_fee sp <= tin - tout <= sp_fee sp + Z.max 0 (ev_dust ev) /\
  (ev_dust ev < tin - zsum (sp_outs sp) - sp_fee sp -> tin - tout = sp_fee sp /\
     length (tf_outs f) = (length (sp_outs sp) + sp_nchange sp)%nat).
Proof.
  unfold lib_create_fields. intros H Hn.
  destruct (match sp_minconf sp with Some c => ev_confirms ev <? c | None => false end); [discriminate|].
  set (tin0 := zsum (map (fun i => snd (fst i)) (sp_ins sp))) in *.
  destruct (tin0 - zsum (sp_outs sp) - sp_fee sp <? 0) eqn:Eneg; [discriminate|].
  apply Z.ltb_ge in Eneg. injection H as <-. cbn [tf_ins tf_outs].
  assert (Htin : zsum (map ti_value (map (fun i : Z * Z * Z =>
             {| ti_prev := fst (fst i); ti_seq := lib_default_sequence (sp_rbf sp)
                  (lib_tx_locktime afs (ev_blockcount ev) (sp_locktime sp));
                ti_value := snd (fst i); ti_code := snd i |}) (sp_ins sp))) = tin0).
  { rewrite map_map. reflexivity. }
  rewrite Htin. rewrite map_app, requested_outs_values, zsum_app.
  split.
  { rewrite firstn_app, Nat.sub_diag, firstn_all. cbn [firstn]. apply app_nil_r. }
  set (change := tin0 - zsum (sp_outs sp) - sp_fee sp) in *.
  destruct (change <=? ev_dust ev) eqn:Ed.
  - apply Z.leb_le in Ed. cbn [map zsum fold_right]. split; [lia|]. intros Hc. lia.
  - apply Z.leb_gt in Ed. rewrite change_outs_sum0 by exact Hn.
    assert (Hsum : change - (Z.of_nat (sp_nchange sp) - 1) * (change / Z.of_nat (sp_nchange sp)) +
                   (Z.of_nat (sp_nchange sp) - 1) * (change / Z.of_nat (sp_nchange sp)) = change) by lia.
    rewrite Hsum. split; [lia|]. intros _. split; [lia|].
    rewrite app_length. f_equal.
    + clear. generalize 0 at 1. induction (sp_outs sp) as [|v r IH]; intros j; [reflexivity|].
      cbn [lib_requested_outs length]. rewrite IH. reflexivity.
    + clear. generalize 0%nat at 1. generalize (change - (Z.of_nat (sp_nchange sp) - 1) * (change / Z.of_nat (sp_nchange sp))).
      generalize (change / Z.of_nat (sp_nchange sp)).
      induction (sp_nchange sp) as [|n IH]; intros a b j; [reflexivity|].
      cbn [lib_change_outs length]. rewrite IH. reflexivity.
Qed.

(* ---------- epoch 0: the committed ceremony is the plain one ---------- *)
Lemma ep_shift_0 s : ep_shift 0 s = s.
Proof.
  destruct s as [b [t|]]; unfold ep_shift; cbn; [rewrite Z.add_0_r|]; reflexivity.
Qed.

Lemma ep_input_0 x : ep_input 0 x = x.
Proof.
  destruct x as [ks ss]. unfold ep_input. cbn [mi_keys mi_sigs]. f_equal.
  - rewrite <- (map_id ks) at 2. apply map_ext. intros k. apply Z.add_0_r.
  - rewrite <- (map_id ss) at 2. apply map_ext. apply ep_shift_0.
Qed.

Lemma ep_state_0 st : ep_state 0 st = st.
Proof.
  destruct st as [ins v]. unfold ep_state. cbn [st_ins st_verified]. f_equal.
  rewrite <- (map_id ins) at 2. apply map_ext. apply ep_input_0.
Qed.

Lemma ep_obs_0 o : ep_obs 0 o = o.
Proof.
  destruct o as [v ins| |]; try reflexivity. cbn [ep_obs]. f_equal.
  rewrite <- (map_id ins) at 2. apply map_ext. intros l.
  rewrite <- (map_id l) at 2. apply map_ext. apply ep_shift_0.
Qed.

Definition cop_is_key (o : cop) : bool := match o with CSignKey _ _ => true | _ => false end.

Lemma cs_plain_step_0 m st o : cop_is_key o = false -> cs_plain_step m 0 st o = ms_step m st (cop_plain o).
Proof. destruct o as [[c|]|h a| |c mask]; cbn; try reflexivity; [rewrite Z.add_0_r; reflexivity | discriminate]. Qed.

(* the hand-offs of one step leave the fields alone *)
Definition cop_keeps (bc : Z) (f : mfields) (o : cop) : Prop :=
  match o with CHand h afs => ms_channel_fields h afs bc f = f | _ => True end.

Lemma cs_step_epoch0 m bc st f o : cop_keeps bc f o -> cop_is_key o = false ->
  cs_step m bc {| cs_st := st; cs_fields := f; cs_seen := [f]; cs_epoch := O |} o =
  ({| cs_st := fst (ms_step m st (cop_plain o)); cs_fields := f; cs_seen := [f]; cs_epoch := O |},
   snd (ms_step m st (cop_plain o))).
Proof.
  intros Hk Hnk. unfold cs_step. cbn [cs_fields cs_seen cs_st].
  assert (Hf : match o with CHand h afs => ms_channel_fields h afs bc f | _ => f end = f).
  { destruct o; try reflexivity; exact Hk. }
  rewrite Hf. cbn [ep_find]. rewrite mfields_eqb_refl.
  change (16 * Z.of_nat 0) with 0. change (- 0) with 0.
  rewrite ep_state_0, (cs_plain_step_0 m st o Hnk).
  destruct (ms_step m st (cop_plain o)) as [st' ob]. cbn [fst snd].
  rewrite ep_state_0, ep_obs_0. reflexivity.
Qed.

Lemma cs_final_epoch0 keys m bc f : forall ops S st,
  ms_chain_ok keys m S (map cop_plain ops) = true -> cs_chain_ok bc f ops = true ->
  cs_final m bc {| cs_st := st; cs_fields := f; cs_seen := [f]; cs_epoch := O |} ops =
  {| cs_st := ms_final m st (map cop_plain ops); cs_fields := f; cs_seen := [f]; cs_epoch := O |}.
Proof.
  induction ops as [|o r IH]; intros S st Hms Hcs; [reflexivity|].
  cbn [map] in Hms. rewrite chain_ok_cons in Hms. apply andb_true_iff in Hms. destruct Hms as [Ho Hr].
  assert (Hk : cop_keeps bc f o /\ cs_chain_ok bc f r = true /\ cop_is_key o = false).
  { destruct o as [c|h afs| |c mask]; cbn [cop_keeps cop_is_key]; try (split; [exact I | split; [exact Hcs | reflexivity]]).
    - split; [reflexivity | split; [exact Hcs | reflexivity]].
    - cbn [cs_chain_ok] in Hcs. discriminate. }
  destruct Hk as [Hk [Hcr Hnk]].
  cbn [cs_final map ms_final]. rewrite (cs_step_epoch0 m bc st f o Hk Hnk). cbn [fst].
  apply (IH (ms_signers S [cop_plain o])); assumption.
Qed.

Lemma committed_chain_lemma bc f keys m ops : NoDup keys -> (1 <= m)%nat ->
  ms_chain_ok keys m [] (map cop_plain ops) = true -> cs_chain_ok bc f ops = true ->
  let cst := cs_final m bc (cs_init f [keys]) ops in
  let S := ms_signers [] (map cop_plain ops) in
  cs_fields cst = f /\
  map mi_sigs (st_ins (cs_st cst)) = [ms_sigs_of keys S] /\
  st_verified (cs_st cst) = Nat.leb m (length (ms_sigs_of keys S)) /\
  snd (cs_step m bc cst CSend) = ObPushed (Nat.leb m (length (ms_sigs_of keys S))).
Proof.
  intros Hnd Hm Hms Hcs cst S.
  assert (E : cst = {| cs_st := ms_final m (ms_init [keys]) (map cop_plain ops); cs_fields := f;
                       cs_seen := [f]; cs_epoch := O |}).
  { unfold cst, cs_init. apply (cs_final_epoch0 keys m bc f ops [] (ms_init [keys]) Hms Hcs). }
  destruct (m_signers_suffice_lemma keys m (map cop_plain ops) Hnd Hm Hms) as [H1 [H2 H3]].
  rewrite E. cbn [cs_fields cs_st]. split; [reflexivity|]. split; [exact H1|]. split; [exact H2|].
  rewrite (cs_step_epoch0 m bc _ f CSend I eq_refl). cbn [snd cop_plain]. exact H3.
Qed.

(* ---------- sample spends used by the examples of Properties/C10.v ---------- *)
Definition rbf_spend : mfields :=
  {| tf_version := 1; tf_locktime := 1;
     tf_ins := [ {| ti_prev := 0; ti_seq := x_seq_rbf; ti_value := 100000000; ti_code := 0 |} ];
     tf_outs := [ {| to_dest := 0; to_value := 99000000 |}; {| to_dest := -1; to_value := 990000 |} ] |}.
Definition default_spend : mfields := tf_with_seq x_seq_locktime rbf_spend.


(* ---------- several inputs: the verdict is the conjunction over ALL inputs ---------- *)
Lemma tx_verify_all_lemma m ins :
  fst (ms_tx_verify m ins) = forallb (fun x => fst (ms_input_verify (mi_keys x) (mi_sigs x) m)) ins.
Proof.
  induction ins as [|x r IH]; [reflexivity|].
  cbn [ms_tx_verify forallb].
  destruct (ms_input_verify (mi_keys x) (mi_sigs x) m) as [ok l]. cbn [fst].
  destruct ok.
  - destruct (ms_tx_verify m r) as [b r']. cbn [fst] in *. rewrite <- IH. reflexivity.
  - reflexivity.
Qed.

(* an input holding the signatures of the cosigners in S verifies iff at least m of them own one of its keys *)
Lemma input_verify_count keys S m : NoDup keys -> (1 <= m)%nat ->
  fst (ms_input_verify keys (ms_sigs_of keys S) m) = Nat.leb m (length (filter (fun k => ms_mem k S) keys)).
Proof.
  intros Hnd Hm. rewrite (input_verify_good keys S m Hnd Hm). cbn [fst]. rewrite sigs_of_count. reflexivity.
Qed.
