(* Proofs/AddrScriptHd.v — C05: outputs created from key objects (HDKey with its witness type and multisig flag,
   Key): the locking script, the reported type and the address belong to the destination the object stands for. *)
From Coq Require Import ZArith List Bool Lia String.
From Coq.Strings Require Import Byte.
From Verif Require Import Lib.Bytes Gen.GenNetworks Gen.GenConsts Model.Wire Model.AddrScript.
From Verif Require Import Proofs.ScriptCodec Proofs.AddrScriptSpec Proofs.AddrScriptTac.
Import ListNotations.
Open Scope Z_scope.

Lemma lib_varstr_long a b r : lib_varstr (a :: b :: r) =
  match lib_cs_enc (Z.of_nat (List.length (a :: b :: r))) with Some p => Some (p ++ a :: b :: r) | None => None end.
Proof. destruct a; reflexivity. Qed.

Section WithH.
Variable H160 : bytes -> bytes.
Hypothesis H160_len : forall x, List.length (H160 x) = 20%nat.

(* what to_bytes must leave alone for an HD key object: the two hashes of the public key, the hash of the
   P2SH-embedded witness program, the public key itself *)
Definition hd_clean (fx : fixes) (w : wtype) (h160 s256 pub : bytes) : Prop :=
  fx_tb fx h160 = h160 /\ fx_tb fx s256 = s256 /\ fx_tb fx pub = pub /\
  match w with
  | WP2shSegwit => fx_tb fx (H160 (x00 :: x14 :: h160)) = H160 (x00 :: x14 :: h160) /\
                   fx_tb fx (H160 (x00 :: x20 :: s256)) = H160 (x00 :: x20 :: s256)
  | _ => True
  end.

Lemma hd_seg_free fx w ms h160 s256 :
  List.length h160 = 20%nat -> List.length s256 = 32%nat ->
  match w with
  | WP2shSegwit => fx_tb fx (H160 (x00 :: x14 :: h160)) = H160 (x00 :: x14 :: h160) /\
                   fx_tb fx (H160 (x00 :: x20 :: s256)) = H160 (x00 :: x20 :: s256)
  | _ => True
  end ->
  p2shseg_free H160 fx [h160; s256] (Some (script_type_default w ms false))
               (Some (match w with WSegwit => EBech | _ => EB58 end)) None 0.
Proof.
  intros L1 L2 Hc. unfold p2shseg_free.
  destruct w; [left; destruct ms; reflexivity | left; destruct ms; reflexivity | right].
  destruct Hc as [C1 C2]. intros x v Hin Hv. simpl in Hin.
  destruct Hin as [<-|[<-|[]]].
  - explode h160 L1. rewrite lib_varstr_long in Hv. vm_compute in Hv. injection Hv as <-. apply tb_of. exact C1.
  - explode s256 L2. rewrite lib_varstr_long in Hv. vm_compute in Hv. injection Hv as <-. apply tb_of. exact C2.
Qed.

End WithH.
