(* Proofs/AddrScriptHd.v — C05: outputs created from key objects (HDKey with its witness type and multisig flag,
   Key): the locking script, the reported type and the address belong to the destination the object stands for. *)
From Coq Require Import ZArith List Bool Lia String.
From Coq.Strings Require Import Byte.
From Verif Require Import Lib.Bytes Gen.GenNetworks Gen.GenConsts Model.Wire Model.AddrScript.
From Verif Require Import Proofs.ScriptCodec Proofs.AddrScriptSpec Proofs.AddrScriptTac.
Import ListNotations.
Open Scope Z_scope.

Section WithH.
Variable H160 : bytes -> bytes.
Hypothesis H160_len : forall x, List.length (H160 x) = 20%nat.

(* what to_bytes must leave alone for an HD key object: the two hashes of the public key, the hash of the
   P2SH-embedded witness program, the public key itself *)
Definition hd_clean (fx : fixes) (w : wtype) (h160 s256 pub : bytes) : Prop :=
  fx_tb fx h160 = h160 /\ fx_tb fx s256 = s256 /\ fx_tb fx pub = pub /\
  match w with
  | WP2shSegwit => fx_tb fx (H160 (x00 :: x14 :: h160)) = H160 (x00 :: x14 :: h160) /\
                   fx_tb fx (H160 (x00 :: x20 :: s256)) = H160 (x00 :: x20 :: s256)
  | _ => True
  end.

Lemma hd_seg_free fx w ms h160 s256 :
  List.length h160 = 20%nat -> List.length s256 = 32%nat ->
  match w with
  | WP2shSegwit => fx_tb fx (H160 (x00 :: x14 :: h160)) = H160 (x00 :: x14 :: h160) /\
                   fx_tb fx (H160 (x00 :: x20 :: s256)) = H160 (x00 :: x20 :: s256)
  | _ => True
  end ->
  p2shseg_free H160 fx [h160; s256] (Some (script_type_default w ms false))
               (Some (match w with WSegwit => EBech | _ => EB58 end)) None 0.
Proof.
  intros L1 L2 Hc. unfold p2shseg_free.
  destruct w; [left; destruct ms; reflexivity | left; destruct ms; reflexivity | right].
  destruct Hc as [C1 C2]. intros x v Hin Hv. simpl in Hin.
  destruct Hin as [<-|[<-|[]]].
  - explode h160 L1. vm_compute in Hv. injection Hv as <-. apply tb_of. exact C1.
  - explode s256 L2. vm_compute in Hv. injection Hv as <-. apply tb_of. exact C2.
Qed.


Lemma lock_is_spec_hd fx net w ms h160 s256 pub :
  In net all_networks -> List.length h160 = 20%nat -> List.length s256 = 32%nat -> pub <> [] ->
  hd_clean fx w h160 s256 pub -> pfx_ok fx net ->
  match lib_hd_address_obj H160 fx net w ms h160 s256 with
  | Some ao =>
    ao_addr ao = spec_address net (spec_hd_dest H160 w ms h160 s256) /\
    out_is (lib_out_hd H160 fx net ao pub w ms)
           (spec_lock_script (spec_hd_dest H160 w ms h160 s256))
           (stype_name (d_stype (spec_hd_dest H160 w ms h160 s256))) (nw_name net)
           (OaIs (spec_address net (spec_hd_dest H160 w ms h160 s256)))
  | None => False
  end.
Proof.
  intros Hn L1 L2 Hpub (C1 & C2 & C3 & C4) Hp.
  unfold lib_hd_address_obj.
  rewrite address_make_data_tb;
    [ | apply tb_of; exact C1 | apply tb_of; exact C2 | exact Hp | left; discriminate
      | apply hd_seg_free; assumption ].
  destruct pub as [|pa pr]; [congruence|].
  unfold lib_out_hd.
  assert (Hout : forall ao, lib_output H160 fx {| a_addr := AaHd ao (pa :: pr) w ms; a_hash := []; a_pubkey := [];
                                                a_lock := []; a_stype := None; a_witver := 0; a_enc := None; a_net := net |} =
                            lib_output_k H160 fx {| a_addr := AaHd ao (pa :: pr) w ms; a_hash := []; a_pubkey := [];
                                                a_lock := []; a_stype := None; a_witver := 0; a_enc := None; a_net := net |}
                                         (SOk [] [] [])).
  { intros ao. rewrite lib_output_eq; [reflexivity|reflexivity|reflexivity|reflexivity|exact C3|reflexivity]. }
  pose proof (H160_len (x00 :: x14 :: h160)) as La. pose proof (H160_len (x00 :: x20 :: s256)) as Lb.
  remember (H160 (x00 :: x14 :: h160)) as ha eqn:Ea. remember (H160 (x00 :: x20 :: s256)) as hb eqn:Eb.
  clear C1 C2 C3 C4 Hp.
  destruct fx as [fw fn fp fa tb0].
  explode h160 L1. explode s256 L2. explode ha La. explode hb Lb.
  destruct w, ms; each_net Hn; destruct fw, fn, fp;
    (cbv beta iota delta [spec_hd_dest]; rewrite <- ?Ea, <- ?Eb;
     match goal with
     | |- match ?X with Some _ => _ | None => _ end =>
         let v := eval vm_compute in X in
         let Ex := fresh "Ex" in
         assert (Ex : X = v) by (vm_compute; reflexivity); rewrite Ex; clear Ex
     end; rewrite <- ?Ea, <- ?Eb; cbv beta iota; rewrite Hout;
     split; [vm_compute; reflexivity|]; vm_compute; eexists; repeat split; reflexivity).
Qed.

End WithH.
