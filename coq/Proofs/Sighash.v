(* Proofs/Sighash.v — C01: the library's preimages are the consensus preimages (script code, BIP143, legacy). *)
From Coq Require Import ZArith List Bool Lia Arith.
From Coq.Strings Require Import Byte.
From Verif Require Import Lib.Bytes Model.Wire Proofs.CompactSize Proofs.ScriptCodec Model.TxCodec Gen.GenConsts
  Model.Sighash.
Import ListNotations.
Open Scope Z_scope.

(* ---------- small facts ---------- *)

Lemma sh_le_some k n : 0 <= n < 256 ^ Z.of_nat k -> sh_le k n = Some (le_bytes k n).
Proof.
  intros [H0 H1]. unfold sh_le.
  destruct (0 <=? n) eqn:E0; [|apply Z.leb_gt in E0; lia].
  destruct (n <? 256 ^ Z.of_nat k) eqn:E1; [reflexivity|apply Z.ltb_ge in E1; lia].
Qed.

Lemma sh_le4 n : 0 <= n < 2 ^ 32 -> sh_le 4 n = Some (le_bytes 4 n).
Proof. intros H. apply sh_le_some. change (256 ^ Z.of_nat 4) with (2 ^ 32). exact H. Qed.

Lemma sh_le8 n : 0 <= n < 2 ^ 64 -> sh_le 8 n = Some (le_bytes 8 n).
Proof. intros H. apply sh_le_some. change (256 ^ Z.of_nat 8) with (2 ^ 64). exact H. Qed.

Lemma sh_oconcat_some {A} (f : A -> option bytes) (g : A -> bytes) (l : list A) :
  (forall a, In a l -> f a = Some (g a)) -> sh_oconcat f l = Some (concat (map g l)).
Proof.
  induction l as [|a l IH]; intros Hf; [reflexivity|].
  cbn [sh_oconcat map concat]. rewrite Hf by (left; reflexivity).
  rewrite IH by (intros b Hb; apply Hf; right; exact Hb). reflexivity.
Qed.

Lemma cs_enc_len {A} (l : list A) :
  Z.of_nat (length l) < 2 ^ 64 -> lib_cs_enc (Z.of_nat (length l)) = Some (core_cs_enc (Z.of_nat (length l))).
Proof. intros Hl. apply lib_cs_enc_core. lia. Qed.

(* varstr is the protocol's length-prefixed string except on the single zero byte *)
Lemma varstr_spec s : Z.of_nat (length s) < 2 ^ 64 -> s <> [x00] -> lib_varstr s = Some (ser_varbytes s).
Proof.
  intros Hl Hz. unfold lib_varstr, ser_varbytes. rewrite cs_enc_len by exact Hl.
  destruct s as [|a [|b r]]; [reflexivity| |destruct a; reflexivity].
  destruct a; try reflexivity. congruence.
Qed.

Lemma core_cs_small n : 0 <= n < 253 -> core_cs_enc n = [zb n].
Proof.
  intros Hn. unfold core_cs_enc. destruct (n <? 253) eqn:E; [reflexivity|apply Z.ltb_ge in E; lia].
Qed.

Lemma core_push_small d : Z.of_nat (length d) < 76 -> core_push d = zb (Z.of_nat (length d)) :: d.
Proof.
  intros Hn. unfold core_push. cbv zeta.
  destruct (Z.of_nat (length d) <? 76) eqn:E; [reflexivity|apply Z.ltb_ge in E; lia].
Qed.

Lemma wf_key_len k : wf_key k -> Z.of_nat (length k) < 76 /\ k <> [x00].
Proof.
  intros [Hk|Hk]; rewrite Hk; split; try lia; intros E; rewrite E in Hk; discriminate.
Qed.

Lemma varstr_key k : wf_key k -> lib_varstr k = Some (core_push k).
Proof.
  intros Hk. destruct (wf_key_len k Hk) as [Hl Hz].
  rewrite varstr_spec by (try exact Hz; lia).
  unfold ser_varbytes. rewrite core_cs_small by lia. rewrite core_push_small by exact Hl. reflexivity.
Qed.

Lemma map_idx_length {A B} (f : nat -> A -> B) l : forall j, length (map_idx f j l) = length l.
Proof. induction l as [|a l IH]; intros j; [reflexivity|]. cbn [map_idx length]. rewrite IH. reflexivity. Qed.

Lemma Forall_nth_error {A} (P : A -> Prop) l i x : Forall P l -> nth_error l i = Some x -> P x.
Proof. intros HF Hn. apply nth_error_In in Hn. rewrite Forall_forall in HF. apply HF. exact Hn. Qed.

Lemma opt_eqb_false a b : opt_eqb a b = false -> a <> b.
Proof.
  intros E Hab. subst b. destruct a as [x|]; cbn [opt_eqb] in E; [|discriminate].
  rewrite bytes_eqb_refl in E. discriminate.
Qed.

Lemma opt_eqb_true a b : opt_eqb a b = true -> a = b.
Proof.
  destruct a as [x|], b as [y|]; cbn [opt_eqb]; intros E; try discriminate; [|reflexivity].
  apply bytes_eqb_true in E. congruence.
Qed.

(* ---------- multisig script ---------- *)

Lemma lib_byte1_some v : 0 <= v < 256 -> lib_byte1 v = Some (zb v).
Proof.
  intros [H0 H1]. unfold lib_byte1.
  destruct (0 <=? v) eqn:E0; [|apply Z.leb_gt in E0; lia].
  destruct (v <? 256) eqn:E1; [reflexivity|apply Z.ltb_ge in E1; lia].
Qed.

Lemma lib_serialize_cons c r : lib_serialize (c :: r) =
  match (match c with Op b => Some [b] | Data d => lib_data_pack d end), lib_serialize r with
  | Some x, Some y => Some (x ++ y)
  | _, _ => None
  end.
Proof. reflexivity. Qed.

Lemma serialize_keys keys tl tlb :
  Forall wf_key keys -> lib_serialize tl = Some tlb ->
  lib_serialize (map Data keys ++ tl) = Some (concat (map core_push keys) ++ tlb).
Proof.
  intros Hk Htl. induction keys as [|k r IH]; [exact Htl|].
  inversion Hk as [|? ? Hk0 Hkr]; subst.
  rewrite map_cons, <- app_comm_cons, lib_serialize_cons. rewrite (IH Hkr).
  destruct (wf_key_len k Hk0) as [Hl _].
  rewrite push_is_core by lia. rewrite map_cons, concat_cons, app_assoc. reflexivity.
Qed.

Lemma spec_op_n_pos n : 1 <= n -> spec_op_n n = zb (n + 80).
Proof.
  intros Hn. unfold spec_op_n. destruct (n =? 0) eqn:E; [apply Z.eqb_eq in E; lia|].
  rewrite Z.add_comm. reflexivity.
Qed.

Lemma multisig_ok m keys :
  keys <> [] -> Forall wf_key keys -> (length keys <= 16)%nat -> 1 <= m <= 16 ->
  lib_multisig m keys = Some (spec_multisig m keys).
Proof.
  intros Hne Hk Hn Hm. unfold lib_multisig, spec_multisig.
  rewrite lib_byte1_some by lia. rewrite lib_byte1_some by lia.
  rewrite lib_serialize_cons.
  rewrite (serialize_keys keys [Op (zb (Z.of_nat (length keys) + 80)); Op xae]
                          [zb (Z.of_nat (length keys) + 80); xae] Hk) by reflexivity.
  assert (Hl : 1 <= Z.of_nat (length keys)) by (destruct keys; [congruence|cbn [length]; lia]).
  rewrite !spec_op_n_pos by lia. reflexivity.
Qed.

Lemma spec_multisig_shape m keys : exists a b r, spec_multisig m keys = a :: b :: r.
Proof.
  unfold spec_multisig. destruct (concat (map core_push keys)) as [|c r].
  - eexists _, _, _. reflexivity.
  - eexists _, _, _. rewrite <- app_comm_cons. reflexivity.
Qed.

(* ---------- script code ---------- *)

Section WithHashes.
Context (H : bytes -> bytes) (H160 : bytes -> bytes).

Definition wf_keys (keys : list bytes) (m : Z) : Prop :=
  keys <> [] /\ Forall wf_key keys /\ (length keys <= 16)%nat /\ 1 <= m <= 16.

Lemma p2wsh_locking_total keys m : Forall wf_key keys -> exists l, lib_locking_script H160 K_p2wsh keys m = Some l.
Proof.
  intros Hk. unfold lib_locking_script.
  rewrite (sh_oconcat_some _ (fun k => core_push k ++ [xad; xab])).
  - cbn [sh_bind]. eexists. reflexivity.
  - intros k Hin. rewrite Forall_forall in Hk. rewrite varstr_key by (apply Hk; exact Hin). reflexivity.
Qed.

Lemma segwit_script_ok x :
  wf_keys (si_keys x) (si_m x) -> lib_segwit_script H160 x = Some (si_code H160 x).
Proof.
  intros (Hne & Hk & Hn & Hm). unfold lib_segwit_script, si_code.
  pose proof (multisig_ok (si_m x) (si_keys x) Hne Hk Hn Hm) as Hms.
  destruct (spec_multisig_shape (si_m x) (si_keys x)) as (a & b & s & Hshape).
  destruct (si_keys x) as [|k0 kr] eqn:EK; [congruence|].
  assert (Hk0 : wf_key k0) by (inversion Hk; assumption).
  destruct (si_kind x) eqn:EKind; unfold lib_redeemscript, lib_locking_script, k_stype, spec_script_code, key0;
    cbn [sh_bind].
  - (* p2pkh *) reflexivity.
  - (* p2pk *) rewrite varstr_key by exact Hk0. cbn [sh_bind].
    rewrite core_push_small by (apply wf_key_len; exact Hk0).
    rewrite <- app_comm_cons. cbn [bytes_eqb]. destruct (k0 ++ [xac]) eqn:E.
    + destruct k0; discriminate.
    + rewrite andb_false_r. reflexivity.
  - (* bare multisig *) rewrite Hms. cbn [sh_bind]. rewrite !Hshape. cbn [bytes_eqb]. rewrite andb_false_r. reflexivity.
  - (* p2sh multisig *) rewrite Hms. cbn [sh_bind]. rewrite !Hshape. cbn [bytes_eqb]. rewrite andb_false_r. reflexivity.
  - (* p2wpkh *) reflexivity.
  - (* p2wsh *) rewrite Hms. cbn [sh_bind].
    destruct (p2wsh_locking_total (k0 :: kr) (si_m x) Hk) as [l Hl].
    unfold lib_locking_script in Hl. rewrite Hl. cbn [sh_bind]. rewrite !Hshape.
    cbn [bytes_eqb]. rewrite andb_false_r. reflexivity.
  - (* p2sh-p2wpkh *) reflexivity.
  - (* p2sh-p2wsh *) rewrite Hms. cbn [sh_bind]. rewrite !Hshape. cbn [bytes_eqb]. rewrite andb_false_r. reflexivity.
Qed.

Lemma legacy_script_ok x :
  wf_keys (si_keys x) (si_m x) -> si_kind x <> K_p2sh_p2wsh -> lib_legacy_script H160 x = Some (si_code H160 x).
Proof.
  intros (Hne & Hk & Hn & Hm) Hkind. unfold lib_legacy_script, si_code.
  pose proof (multisig_ok (si_m x) (si_keys x) Hne Hk Hn Hm) as Hms.
  destruct (si_keys x) as [|k0 kr] eqn:EK; [congruence|].
  assert (Hk0 : wf_key k0) by (inversion Hk; assumption).
  destruct (si_kind x) eqn:EKind; unfold lib_redeemscript, lib_locking_script, k_stype, spec_script_code, key0;
    cbn [sh_bind]; try reflexivity; try exact Hms; try congruence.
  (* p2pk *) rewrite varstr_key by exact Hk0. reflexivity.
Qed.

Lemma script_code_ok k keys m :
  wf_keys keys m -> lib_script_code H160 k keys m = Some (spec_script_code H160 k keys m).
Proof.
  intros Hw. unfold lib_script_code. cbv zeta.
  set (x := mk_sin (mk_txin [] 0 [] 0 []) 0 k 1 keys m).
  change (spec_script_code H160 k keys m) with (si_code H160 x).
  destruct (k_segwit k) eqn:E.
  - apply segwit_script_ok. exact Hw.
  - apply legacy_script_ok; [exact Hw|]. cbn [x si_kind]. intros ->. discriminate E.
Qed.

End WithHashes.
