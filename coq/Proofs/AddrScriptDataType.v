(* Proofs/AddrScriptDataType.v — C05: the push classifier of the script parser (Model/Wire.v: get_data_type, the
   heuristic that decides whether pushed bytes are a signature, a key, plain data or something to re-parse) against
   scripts.get_data_type of the working tree, on the grid of probes regenerated on every run (Gen/GenDataType.v):
   every first byte that means something to a parser x 7 kinds of second byte (incl. the DER sequence lengths n-3 .. n)
   x every length 0..80.  The standard locking scripts are read back correctly only because 20- and 32-byte pushes are
   plain data whatever their content (Proofs/AddrScriptTac.v: gdt_hash); a classifier that starts to look at the
   content of such pushes breaks this file. *)
From Coq Require Import ZArith List Bool Lia String.
From Coq.Strings Require Import Byte.
From Verif Require Import Lib.Bytes Gen.GenDataType Model.Wire Model.AddrScript.
Import ListNotations.
Open Scope Z_scope.

(* the probe bytes, rebuilt from (first byte, kind of second byte, length) as translator/gen_datatype.py builds them *)
Definition probe_second (k n : Z) : Z :=
  (match k with 0 => 0 | 1 => n - 3 | 2 => n - 2 | 3 => n - 1 | 4 => n | 5 => 2 | _ => 68 end) mod 256.

Definition mk_probe (b0 k n : Z) : bytes :=
  firstn (Z.to_nat n)
    (zb b0 :: zb (probe_second k n) :: map (fun i => zb ((Z.of_nat i * 7 + 1) mod 256)) (seq 2 (Z.to_nat n - 2))).

Definition dtype_code (t : dtype) : Z := match t with DSig => 0 | DKey => 1 | DData => 2 | DOther => 3 end.

Definition probe_agrees (r : Z * Z * Z * Z) : bool :=
  let '(b0, k, n, c) := r in dtype_code (get_data_type (mk_probe b0 k n)) =? c.

Definition data_type_disagreements : list (Z * Z * Z * Z) := filter (fun r => negb (probe_agrees r)) data_type_probes.

Lemma data_type_table_agrees : data_type_disagreements = [].
Proof. vm_compute. reflexivity. Qed.

(* the grid is the one the proof means: 26 first bytes x 7 kinds x 81 lengths, and it contains the shapes a short DER
   signature would have (first byte 30, second byte n-3) at the lengths of the standard payloads *)
Lemma data_type_grid :
  Z.of_nat (List.length data_type_probes) = 14742 /\
  existsb (fun r => let '(b0, k, n, _) := r in (b0 =? 48) && (k =? 1) && (n =? 20)) data_type_probes = true /\
  existsb (fun r => let '(b0, k, n, _) := r in (b0 =? 48) && (k =? 1) && (n =? 32)) data_type_probes = true.
Proof. vm_compute. repeat split; reflexivity. Qed.

Example probe_example : mk_probe 48 1 20 = x30 :: x11 :: map zb [15; 22; 29; 36; 43; 50; 57; 64; 71; 78; 85; 92; 99; 106; 113; 120; 127; 134].
Proof. vm_compute. reflexivity. Qed.
