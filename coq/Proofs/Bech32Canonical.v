(* Proofs/Bech32Canonical.v — every string lib_bech32_dec accepts is, after lower-casing, exactly what the
   BIP173 / BIP350 encoder (and the library encoder) produces from the decoded witness version and program
   and the string's own human-readable part: the six checksum characters are determined by the rest, the
   5-bit groups are the padded regrouping of the program, and the character table is a bijection. *)
From Coq Require Import ZArith List Bool Lia.
From Coq.Strings Require Import Byte.
From Verif Require Import Lib.Bytes Lib.BitRegroup Gen.GenConsts Model.Base58 Model.Bech32
  Proofs.BitRegroupMore Proofs.Bech32 Proofs.Bech32Convert Proofs.Bech32Roundtrip Proofs.Bech32Errors.
Import ListNotations.
Open Scope Z_scope.

(* ------------------------------------------------------------------ the checksum is determined *)
Lemma step_small_add s c : 0 <= s < 2 ^ 25 -> 0 <= c < 32 -> polymod_step s c = s * 32 + c.
Proof.
  intros Hs Hc. rewrite step_small by exact Hs.
  pose proof (land_shiftl_small s 5 c ltac:(lia) ltac:(lia)) as H0.
  rewrite (Z.lxor_lor _ _ H0). rewrite lor_shiftl_add by lia. reflexivity.
Qed.

Lemma checksum_values_pack c0 c1 c2 c3 c4 c5 :
  0 <= c0 < 32 -> 0 <= c1 < 32 -> 0 <= c2 < 32 -> 0 <= c3 < 32 -> 0 <= c4 < 32 -> 0 <= c5 < 32 ->
  checksum_values (fold_left polymod_step [c0; c1; c2; c3; c4; c5] 0) = [c0; c1; c2; c3; c4; c5].
Proof.
  intros H0 H1 H2 H3 H4 H5. cbn [fold_left].
  rewrite (step_small_add 0 c0) by lia.
  rewrite (step_small_add _ c1) by lia.
  rewrite (step_small_add _ c2) by lia.
  rewrite (step_small_add _ c3) by lia.
  rewrite (step_small_add _ c4) by lia.
  rewrite (step_small_add _ c5) by lia.
  unfold checksum_values. cbn [map].
  change 31 with (Z.ones 5). rewrite !Z.land_ones by lia. rewrite !Z.shiftr_div_pow2 by lia.
  change (5 * (5 - 0)) with 25. change (5 * (5 - 1)) with 20. change (5 * (5 - 2)) with 15.
  change (5 * (5 - 3)) with 10. change (5 * (5 - 4)) with 5. change (5 * (5 - 5)) with 0.
  change (2 ^ 25) with 33554432. change (2 ^ 20) with 1048576. change (2 ^ 15) with 32768.
  change (2 ^ 10) with 1024. change (2 ^ 5) with 32. change (2 ^ 0) with 1.
  repeat (f_equal; [Z.div_mod_to_equations; lia|]). f_equal. Z.div_mod_to_equations; lia.
Qed.

Lemma six_values (chk : list Z) : length chk = 6%nat ->
  exists c0 c1 c2 c3 c4 c5, chk = [c0; c1; c2; c3; c4; c5].
Proof.
  intros H. do 6 (destruct chk as [|? chk]; [discriminate|]). destruct chk; [|discriminate].
  repeat eexists.
Qed.

Theorem checksum_unique pre chk const :
  Forall (fun v => 0 <= v < 32) chk -> length chk = 6%nat ->
  polymod (pre ++ chk) = const ->
  chk = checksum_values (Z.lxor (polymod (pre ++ [0; 0; 0; 0; 0; 0])) const).
Proof.
  intros Hr Hl E. unfold polymod in *. rewrite fold_left_app in *.
  set (P := fold_left polymod_step pre 1) in *.
  replace (fold_left polymod_step chk P) with (fold_left polymod_step chk (Z.lxor P 0)) in E
    by (rewrite Z.lxor_0_r; reflexivity).
  rewrite fold_shift in E.
  destruct (six_values chk Hl) as (c0 & c1 & c2 & c3 & c4 & c5 & ->).
  cbn [map] in E.
  set (Q := fold_left polymod_step [0; 0; 0; 0; 0; 0] P) in *.
  set (m := fold_left polymod_step [c0; c1; c2; c3; c4; c5] 0) in *.
  assert (Em : Z.lxor Q const = m).
  { rewrite <- E. rewrite <- Z.lxor_assoc, Z.lxor_nilpotent, Z.lxor_0_l. reflexivity. }
  rewrite Em. subst m. symmetry.
  repeat match goal with H : Forall _ (_ :: _) |- _ => inversion H; subst; clear H end.
  apply checksum_values_pack; assumption.
Qed.

Corollary mk_checksum_unique hrp data chk const :
  Forall (fun v => 0 <= v < 32) chk -> length chk = 6%nat ->
  polymod (hrp_expand hrp ++ data ++ chk) = const -> mk_checksum hrp data const = chk.
Proof.
  intros Hr Hl E. unfold mk_checksum. rewrite app_assoc in E. rewrite app_assoc.
  symmetry. apply checksum_unique; assumption.
Qed.

(* ------------------------------------------------------------------ characters *)
Lemma b32_indices_range s : forall ds, b32_indices s = Some ds ->
  Forall (fun v => 0 <= v < 32) ds /\ map b32_char ds = s.
Proof.
  induction s as [|c s IH]; intros ds H; cbn [b32_indices] in H.
  - assert (ds = []) by congruence. subst. split; [constructor|reflexivity].
  - destruct (b32_pos c) as [p|] eqn:Ep; [|discriminate].
    destruct (b32_indices s) as [ps|]; [|discriminate].
    assert (ds = p :: ps) by congruence. subst ds.
    destruct (IH ps eq_refl) as [I1 I2]. destruct (b32_pos_range c p Ep) as [R C].
    split; [constructor; assumption|]. cbn [map]. rewrite C, I2. reflexivity.
Qed.

Lemma map_bz_zb (l : list Z) : in_base 256 l -> map bz (map zb l) = l.
Proof.
  induction 1 as [|v l Hv _ IH]; [reflexivity|]. cbn [map]. rewrite bz_zb, IH.
  rewrite Z.mod_small by lia. reflexivity.
Qed.

(* ------------------------------------------------------------------ what acceptance by dec_core means *)
Theorem dec_core_accepts hrp data v prog :
  Forall (fun d => 0 <= d < 32) data -> (6 <= length data)%nat ->
  dec_core hrp data = Some (v, prog) ->
  0 <= v <= 16 /\ prog_len_ok v (length prog) /\
  exists d5, convertbits (map bz prog) 8 5 true = CbOk d5 /\
             data = (v :: d5) ++ mk_checksum hrp (v :: d5) (bech32_const v).
Proof.
  intros Hr H6 H. unfold dec_core in H. cbv zeta in H.
  set (check := polymod (hrp_expand hrp ++ data)) in *.
  set (data' := firstn (length data - 6) data) in *.
  set (chk := skipn (length data - 6) data).
  assert (Esplit : data = data' ++ chk) by (subst data' chk; symmetry; apply firstn_skipn).
  assert (Hlc : length chk = 6%nat) by (subst chk; rewrite skipn_length; lia).
  assert (Hn0 : nth 0 data 0 = nth 0 data' 0).
  { destruct data' as [|d0 dr] eqn:Ed.
    - (* no version value: the program is empty, refused below *) exfalso.
      cbn [tl] in H. change (convertbits [] 5 8 false) with (CbOk []) in H. cbn [length] in H.
      destruct (negb ((check =? 1) || (check =? cfg_BECH32M_CONST))); [discriminate|].
      destruct ((nth 0 data 0 =? 0) && negb (check =? 1)); [discriminate|].
      destruct (negb (nth 0 data 0 =? 0) && negb (check =? cfg_BECH32M_CONST)); discriminate.
    - rewrite Esplit. reflexivity. }
  rewrite Hn0 in H.
  destruct data' as [|w d5] eqn:Ed.
  { exfalso. cbn [tl] in H. change (convertbits [] 5 8 false) with (CbOk []) in H. cbn [length] in H.
    destruct (negb ((check =? 1) || (check =? cfg_BECH32M_CONST))); [discriminate|].
    destruct ((nth 0 [] 0 =? 0) && negb (check =? 1)); [discriminate|].
    destruct (negb (nth 0 [] 0 =? 0) && negb (check =? cfg_BECH32M_CONST)); discriminate. }
  cbn [nth tl] in H.
  assert (Hrd : Forall (fun d => 0 <= d < 32) (w :: d5) /\ Forall (fun d => 0 <= d < 32) chk).
  { rewrite Esplit in Hr. apply Forall_app in Hr. exact Hr. }
  destruct Hrd as [Hrd Hrc]. apply (in_base_cons 32) in Hrd. destruct Hrd as [Hw Hd5].
  (* the checksum constant is the one of the version *)
  assert (Hconst : check = bech32_const w).
  { unfold bech32_const.
    destruct (Z.eqb_spec check 1) as [E1|N1]; destruct (Z.eqb_spec check cfg_BECH32M_CONST) as [E2|N2];
      destruct (Z.eqb_spec w 0) as [E0|N0]; cbn [orb negb andb] in H; try discriminate; assumption. }
  destruct (negb ((check =? 1) || (check =? cfg_BECH32M_CONST))); [discriminate|].
  destruct ((w =? 0) && negb (check =? 1)); [discriminate|].
  destruct (negb (w =? 0) && negb (check =? cfg_BECH32M_CONST)); [discriminate|].
  destruct (convertbits d5 5 8 false) as [dec| |] eqn:Ecb; try discriminate.
  destruct ((length dec <? 2)%nat || (40 <? length dec)%nat) eqn:L12; [discriminate|].
  destruct (16 <? w) eqn:L3; [discriminate|].
  destruct ((w =? 0) && negb ((length dec =? 20)%nat || (length dec =? 32)%nat)) eqn:L4; [discriminate|].
  assert (v = w) by congruence. assert (prog = map zb dec) by congruence. subst v prog.
  apply orb_false_iff in L12. destruct L12 as [L1 L2]. apply Nat.ltb_ge in L1, L2. apply Z.ltb_ge in L3.
  destruct (convertbits_5_8_5 d5 dec Hd5 Ecb) as [Hdec Eback].
  rewrite map_length.
  split; [lia|]. split.
  { split; [lia|]. intros E0. rewrite E0 in L4. cbn [andb] in L4. apply negb_false_iff in L4.
    apply orb_true_iff in L4. destruct L4 as [L4|L4]; apply Nat.eqb_eq in L4; auto. }
  exists d5. rewrite map_bz_zb by exact Hdec. split; [exact Eback|].
  rewrite Esplit. f_equal. symmetry. apply mk_checksum_unique; try assumption.
  rewrite <- Hconst. subst check. rewrite Esplit. reflexivity.
Qed.

(* ------------------------------------------------------------------ canonicity of accepted strings *)
Theorem bech32_dec_canonical s v prog :
  lib_bech32_dec s = Some (v, prog) ->
  0 <= v <= 16 /\ prog_len_ok v (length prog) /\ (length s <= 90)%nat /\
  exists pos, rfind x31 (map lower_byte s) = Some pos /\ (1 <= pos)%nat /\
    spec_bech32_enc (firstn pos (map lower_byte s)) v prog = Some (map lower_byte s).
Proof.
  intros H. rewrite lib_bech32_dec_eq in H.
  destruct (negb (forallb printable s) || negb (case_ok s)); [discriminate|].
  cbv zeta in H. set (b := map lower_byte s) in *.
  destruct (rfind x31 b) as [pos|] eqn:Epos; [|discriminate].
  destruct ((pos <? 1)%nat || (length b <? pos + 7)%nat || (90 <? length b)%nat) eqn:Eb; [discriminate|].
  apply orb_false_iff in Eb. destruct Eb as [Eb B3]. apply orb_false_iff in Eb. destruct Eb as [B1 B2].
  apply Nat.ltb_ge in B1, B2, B3.
  destruct (rfind_spec _ _ _ Epos) as (h & t & Es & Hh & Hnt).
  assert (Efn : firstn pos b = h) by (rewrite Es; apply firstn_app_exact; lia).
  assert (Esk : skipn (S pos) b = t).
  { rewrite Es. replace (h ++ x31 :: t) with ((h ++ [x31]) ++ t) by (rewrite <- app_assoc; reflexivity).
    apply skipn_app_exact. rewrite app_length. cbn [length]. lia. }
  rewrite Efn, Esk in H.
  destruct (b32_indices t) as [data|] eqn:Ei; [|discriminate].
  destruct (b32_indices_range t data Ei) as [Hr Hmap].
  assert (Hlen : length data = length t) by (apply b32_indices_length; exact Ei).
  assert (Hlb : length b = (pos + S (length t))%nat).
  { rewrite Es, app_length. cbn [length]. lia. }
  destruct (dec_core_accepts h data v prog Hr ltac:(lia) H) as (Hv & Hn & d5 & E5 & Ed).
  split; [exact Hv|]. split; [exact Hn|].
  split; [subst b; rewrite map_length in B3; exact B3|].
  exists pos. split; [reflexivity|]. split; [exact B1|].
  rewrite Efn. rewrite (spec_bech32_enc_text h v prog d5 E5). rewrite <- Ed.
  unfold bech32_text. rewrite Hmap, <- Es. reflexivity.
Qed.

(* the same against the library encoder (given the input convention of enc_input) *)
Theorem bech32_dec_canonical_lib s v prog :
  lib_bech32_dec s = Some (v, prog) -> ~ In (length prog) [18%nat; 30%nat; 38%nat] ->
  exists pos, rfind x31 (map lower_byte s) = Some pos /\
    lib_bech32_enc (enc_input v prog) (firstn pos (map lower_byte s)) v (bech32_const v) = Some (map lower_byte s).
Proof.
  intros H Hx. destruct (bech32_dec_canonical s v prog H) as (Hv & [Hn _] & _ & pos & Ep & _ & E).
  exists pos. split; [exact Ep|].
  rewrite lib_enc_is_spec; try assumption; [lia|].
  intros ->. reflexivity.
Qed.

(* one spelling per payload: two accepted strings with the same human-readable part (up to case) and the
   same decoded content are the same string up to case *)
Theorem bech32_one_spelling s1 s2 r pos :
  lib_bech32_dec s1 = Some r -> lib_bech32_dec s2 = Some r ->
  rfind x31 (map lower_byte s1) = Some pos -> rfind x31 (map lower_byte s2) = Some pos ->
  firstn pos (map lower_byte s1) = firstn pos (map lower_byte s2) ->
  map lower_byte s1 = map lower_byte s2.
Proof.
  intros H1 H2 P1 P2 Eh. destruct r as [v prog].
  destruct (bech32_dec_canonical s1 v prog H1) as (_ & _ & _ & p1 & Q1 & _ & E1).
  destruct (bech32_dec_canonical s2 v prog H2) as (_ & _ & _ & p2 & Q2 & _ & E2).
  assert (p1 = pos) by congruence. assert (p2 = pos) by congruence. subst p1 p2.
  rewrite Eh in E1. congruence.
Qed.
