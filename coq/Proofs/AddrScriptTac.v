(* Proofs/AddrScriptTac.v — C05, library side: enumeration lemmas and tactics shared by AddrScript{Str,Obj,Parse,Inv}.v.
   Each theorem quantifies over every payload (all 2^160 / 2^256 of them), every witness version and
   every network of the regenerated table.  Proof method: the finitely many shapes (network, script
   type, witness version, payload length, repair flags) are enumerated; in each shape the payload is a
   list of symbolic bytes and the model is evaluated by the kernel's VM on that symbolic input.
   An edit of networks.json / SCRIPT_TYPES changes Gen/*.v, and these evaluations are redone on the
   new tables — if a prefix collision or a template change breaks the mapping, the proof breaks. *)
From Coq Require Import ZArith List Bool Lia String.
From Coq.Strings Require Import Byte.
From Verif Require Import Lib.Bytes Gen.GenNetworks Gen.GenConsts Model.Wire Model.AddrScript.
From Verif Require Import Proofs.ScriptCodec Proofs.AddrScriptSpec.
Import ListNotations.
Open Scope Z_scope.

(* ---------- enumeration helpers ---------- *)
Lemma len_S {A} (l : list A) n : List.length l = S n -> exists x r, l = x :: r /\ List.length r = n.
Proof. destruct l as [|x r]; [discriminate|]. intros H. exists x, r. split; [reflexivity|]. simpl in H. congruence. Qed.
Lemma len_0 {A} (l : list A) : List.length l = 0%nat -> l = [].
Proof. destruct l; [reflexivity|discriminate]. Qed.

Ltac explode h H :=
  lazymatch type of H with
  | List.length h = O => apply len_0 in H; subst h
  | List.length h = S _ => let x := fresh "b" in let r := fresh "r" in
        apply len_S in H; destruct H as (x & r & -> & H); explode r H
  end.

Ltac each_net H := unfold all_networks in H; simpl in H; repeat (destruct H as [<-|H]); [..|contradiction].

Definition versions_1_16 : list Z := [1; 2; 3; 4; 5; 6; 7; 8; 9; 10; 11; 12; 13; 14; 15; 16].

Lemma standard_inv st w p : standard (mkdest st w p) = true ->
  match st with
  | P2pkh | P2sh | P2wpkh => w = 0 /\ List.length p = 20%nat
  | P2wsh => w = 0 /\ List.length p = 32%nat
  | P2tr => In w versions_1_16 /\ (List.length p = 20%nat \/ List.length p = 32%nat)
  end.
Proof.
  unfold standard. cbn [d_stype d_witver d_payload]. intros H.
  destruct st; try (apply andb_true_iff in H; destruct H as [Hw Hn]; apply Z.eqb_eq in Hw, Hn;
                    split; [exact Hw | unfold blen in Hn; lia]).
  apply andb_true_iff in H. destruct H as [H H3]. apply andb_true_iff in H. destruct H as [H1 H2].
  apply Z.leb_le in H1, H2. split.
  - unfold versions_1_16. simpl.
    assert (w = 1 \/ w = 2 \/ w = 3 \/ w = 4 \/ w = 5 \/ w = 6 \/ w = 7 \/ w = 8 \/ w = 9 \/ w = 10 \/ w = 11 \/
            w = 12 \/ w = 13 \/ w = 14 \/ w = 15 \/ w = 16) as Hc by lia.
    repeat (destruct Hc as [Hc|Hc]; [subst w; tauto|]). subst w. tauto.
  - apply orb_true_iff in H3. destruct H3 as [E|E]; apply Z.eqb_eq in E; unfold blen in E; [left|right]; lia.
Qed.

(* all shapes of a standard destination, payload exploded into symbolic bytes *)
Ltac std_shapes d Hstd :=
  let st := fresh "st" in let w := fresh "w" in let p := fresh "p" in
  destruct d as [st w p]; apply standard_inv in Hstd;
  destruct st;
  [ destruct Hstd as [-> Hl]; explode p Hl
  | destruct Hstd as [-> Hl]; explode p Hl
  | destruct Hstd as [-> Hl]; explode p Hl
  | destruct Hstd as [-> Hl]; explode p Hl
  | let Hw := fresh "Hw" in
    destruct Hstd as [Hw [Hl|Hl]]; explode p Hl;
    unfold versions_1_16 in Hw; simpl in Hw; repeat (destruct Hw as [<-|Hw]); try contradiction ].

Ltac guard_false Hg := exfalso; destruct Hg as [Hg|Hg]; vm_compute in Hg; discriminate Hg.
Ltac out_ok := vm_compute; eexists; repeat split; reflexivity.

(* ---------- get_data_type on a 20- or 32-byte item ---------- *)
Lemma gdt_hash d : (blen d =? 20) || (blen d =? 32) = true -> get_data_type d = DData.
Proof.
  intros H. unfold get_data_type. fold (blen d).
  apply orb_true_iff in H.
  destruct (starts_with d 48), (starts_with d 2), (starts_with d 3), (starts_with d 4);
    destruct H as [H|H]; apply Z.eqb_eq in H; rewrite H; reflexivity.
Qed.


Lemma varstr_of_eq s : varstr_of s = lib_varstr s.
Proof.
  destruct s as [|a [|b r]]; [reflexivity|reflexivity|].
  unfold varstr_of. destruct a; reflexivity.
Qed.

(* ---------- to_bytes ---------- *)
Lemma to_bytes_id x : hexlike x = false -> lib_to_bytes x = x.
Proof.
  unfold hexlike, lib_to_bytes. destruct x as [|a r]; [reflexivity|].
  destruct (lib_fromhex (a :: r)); [discriminate|reflexivity].
Qed.

Lemma tb_nil fx : tb fx [] = [].
Proof. reflexivity. Qed.

Lemma tb_cons fx a r : tb fx (a :: r) = fx_tb fx (a :: r).
Proof. reflexivity. Qed.

Lemma tb_guard fx d : hex_guard fx d -> fx_tb fx (d_payload d) = d_payload d.
Proof.
  intros [H|[H Hc]]; [apply H|]. rewrite H. apply to_bytes_id. exact Hc.
Qed.

(* a byte string whose first byte is neither a hexadecimal digit nor white space is left alone *)
Lemma to_bytes_first a r : hex_space a = false -> hex_digit a = None -> lib_to_bytes (a :: r) = a :: r.
Proof.
  intros Hs Hd. unfold lib_to_bytes. cbn [lib_fromhex]. rewrite Hs, Hd. reflexivity.
Qed.

Lemma tb_first fx a r :
  ((forall x, fx_tb fx x = x) \/ fx_tb fx = lib_to_bytes) ->
  hex_space a = false -> hex_digit a = None -> fx_tb fx (a :: r) = a :: r.
Proof.
  intros [H|H] Hs Hd; [apply H|]. rewrite H. apply to_bytes_first; assumption.
Qed.

Lemma hex_guard_kind fx d : hex_guard fx d -> (forall x, fx_tb fx x = x) \/ fx_tb fx = lib_to_bytes.
Proof. intros [H|[H _]]; [left|right]; exact H. Qed.

(* a standard locking script never reads as hexadecimal text: its first byte is 76, a9, 00 or 51..60 *)
Lemma tb_guard_script fx d : standard d = true -> hex_guard fx d ->
  fx_tb fx (spec_lock_script d) = spec_lock_script d.
Proof.
  intros Hstd Hg. apply hex_guard_kind in Hg.
  destruct d as [st w p]. apply standard_inv in Hstd.
  destruct st; cbn [spec_lock_script d_stype d_payload d_witver spec_push app].
  1-4: destruct Hstd as [-> _]; apply tb_first; [exact Hg|reflexivity|reflexivity].
  destruct Hstd as [Hw _]. unfold versions_1_16 in Hw. simpl in Hw.
  repeat (destruct Hw as [<-|Hw]; [apply tb_first; [exact Hg|reflexivity|reflexivity]|]). contradiction.
Qed.

(* evaluate, then replace the to_bytes calls that got stuck on the symbolic payload (hypotheses of the form
   [tb0 [b; ...] = [b; ...]]), and evaluate again *)
Ltac tb_eval H := vm_compute; repeat (rewrite !H; vm_compute).
Ltac tb_eval2 H H' := vm_compute; repeat (first [rewrite !H | rewrite !H']; vm_compute).
Ltac tb_eval3 H H' H'' := vm_compute; repeat (first [rewrite !H | rewrite !H' | rewrite !H'']; vm_compute).
(* the same, cheaper: the output record is evaluated once; only its address component (the one place where to_bytes
   calls stay stuck on the symbolic payload) is rewritten and re-evaluated *)
Ltac tb_addr H H' H'' :=
  cbv beta iota; repeat (first [rewrite !H | rewrite !H' | rewrite !H'']; vm_compute); reflexivity.
Ltac out_ok_tb H H' H'' :=
  vm_compute; eexists; split; [reflexivity|]; split; [reflexivity|]; split; [reflexivity|]; split;
  [reflexivity | first [reflexivity | tb_addr H H' H'']].

(* to_bytes leaves the Base58 version bytes of the network alone *)
Definition pfx_ok (fx : fixes) (net : network) : Prop :=
  fx_tb fx (nw_prefix_address net) = nw_prefix_address net /\
  fx_tb fx (nw_prefix_address_p2sh net) = nw_prefix_address_p2sh net.

Lemma pfx_guard fx net : In net all_networks ->
  ((forall x, fx_tb fx x = x) \/ fx_tb fx = lib_to_bytes) -> pfx_ok fx net.
Proof.
  intros Hn [H|H]; [split; apply H|]. unfold pfx_ok. rewrite H.
  each_net Hn; split; vm_compute; reflexivity.
Qed.

Lemma tb_of fx x : fx_tb fx x = x -> tb fx x = x.
Proof. destruct x; [reflexivity|]. intros H. exact H. Qed.

(* the strict test of Output.__init__ passed and to_bytes left the arguments alone: the rest is lib_output_k *)
Lemma lib_output_eq H160 fx a :
  tb fx (a_hash a) = a_hash a -> tb fx (a_lock a) = a_lock a -> tb fx (a_pubkey a) = a_pubkey a ->
  (match a_addr a with AaHd _ pub _ _ => tb fx pub = pub | _ => True end) ->
  (match a_addr a, a_hash a, (match a_addr a with AaHd _ pub _ _ => pub | _ => a_pubkey a end), a_lock a with
   | AaNone, [], [], [] => false | _, _, _, _ => true end) = true ->
  lib_output H160 fx a =
  lib_output_k H160 fx a (match a_lock a with [] => SOk [] [] [] | l => lib_script_parse l end).
Proof.
  intros Hh Hl Hp Hd Hs. unfold lib_output.
  assert (E : lib_args_in fx a = a).
  { unfold lib_args_in. destruct a as [aa ah ap al ast aw ae an].
    cbn [a_addr a_hash a_pubkey a_lock a_stype a_witver a_enc a_net] in *.
    rewrite Hh, Hl, Hp. f_equal. destruct aa; try reflexivity. rewrite Hd. reflexivity. }
  rewrite E. clear E Hh Hl Hp Hd.
  destruct (a_addr a); try reflexivity.
  destruct (a_hash a); try reflexivity.
  destruct (a_pubkey a); try reflexivity.
  destruct (a_lock a); [discriminate Hs|reflexivity].
Qed.

Lemma std_payload_cons d : standard d = true -> exists a r, d_payload d = a :: r.
Proof.
  intros H. destruct d as [st w p]. apply standard_inv in H. cbn [d_payload].
  destruct p as [|a r]; [|exists a, r; reflexivity].
  exfalso. destruct st; destruct H as [_ H]; try (destruct H as [H|H]); simpl in H; discriminate H.
Qed.

(* ---------- transfer: where to_bytes leaves the strings it meets alone, the address object is the one built with
              binary arguments taken as they are ([fxi fx]); the enumerations below then run on [fxi fx] ---------- *)
Lemma tb_fxi fx x : tb (fxi fx) x = x.
Proof. destruct x; reflexivity. Qed.

Section Transfer.
Variable H160 : bytes -> bytes.

Lemma pkh_b58_tb fx pfx h : tb fx pfx = pfx -> tb fx h = h ->
  lib_pkh_to_b58 fx pfx h = lib_pkh_to_b58 (fxi fx) pfx h.
Proof. intros Hp Hh. unfold lib_pkh_to_b58. rewrite Hp, Hh, !tb_fxi. reflexivity. Qed.

Lemma pkh_bech_tb fx hrp wv h : tb fx h = h -> lib_pkh_to_bech fx hrp wv h = lib_pkh_to_bech (fxi fx) hrp wv h.
Proof. intros Hh. unfold lib_pkh_to_bech. rewrite Hh, tb_fxi. reflexivity. Qed.

Definition p2shseg_free (fx : fixes) (hs : list bytes) (st : option string) (e : option enc) (wt : option string) (wv : Z)
  : Prop :=
  String.eqb (fst (addr_wt st e wt wv)) s_p2sh_segwit = false \/
  (forall x v, In x hs -> varstr_of x = Some v -> tb fx (H160 (x00 :: v)) = H160 (x00 :: v)).

Lemma address_core_tb fx h dh prefix st e wt wv net :
  tb fx h = h -> tb fx (fst dh) = fst dh -> tb fx (snd dh) = snd dh -> pfx_ok fx net ->
  ((forall p, prefix = Some p -> tb fx p = p) \/ e = Some EBech) ->
  p2shseg_free fx (match h with [] => [fst dh; snd dh] | _ => [h] end) st e wt wv ->
  lib_address_core H160 fx h dh prefix st e wt wv net =
  lib_address_core H160 (fxi fx) h dh prefix st e wt wv net.
Proof.
  intros Hh Hd1 Hd2 [Hp1 Hp2] Hpre Hseg. unfold lib_address_core, p2shseg_free in *.
  destruct (addr_wt st e wt wv) as [wt1 wv1]. cbn [fst] in Hseg.
  match goal with |- context [match ?E with EB58 => _ | EBech => _ end] => destruct E eqn:Ee end.
  - (* Base58 *)
    destruct Hpre as [Hpre|Hpre]; [|subst e; discriminate Ee].
    match goal with |- context [varstr_of ?HB] => set (hb := HB) end.
    assert (Hin : In hb (match h with [] => [fst dh; snd dh] | _ => [h] end)).
    { subst hb. destruct h; [|left; reflexivity].
      match goal with |- context [if ?c then _ else _] => destruct c end; simpl; tauto. }
    assert (Hhb : tb fx hb = hb).
    { destruct h; simpl in Hin; [destruct Hin as [<-|[<-|[]]]|destruct Hin as [<-|[]]]; assumption. }
    destruct (String.eqb wt1 s_p2sh_segwit) eqn:Ew.
    + destruct Hseg as [Hseg|Hseg]; [discriminate|].
      destruct (varstr_of hb) as [v|] eqn:Ev; [|reflexivity].
      specialize (Hseg hb v Hin Ev).
      destruct prefix as [p|].
      * rewrite (Hpre p eq_refl), tb_fxi. rewrite pkh_b58_tb; [reflexivity|apply Hpre; reflexivity|exact Hseg].
      * rewrite orb_true_r. rewrite pkh_b58_tb; [reflexivity|apply tb_of; exact Hp2|exact Hseg].
    + destruct prefix as [p|].
      * rewrite (Hpre p eq_refl), tb_fxi. rewrite pkh_b58_tb; [reflexivity|apply Hpre; reflexivity|exact Hhb].
      * rewrite orb_false_r.
        match goal with |- context [if ?c then nw_prefix_address_p2sh net else nw_prefix_address net] => destruct c end;
          (rewrite pkh_b58_tb; [reflexivity|apply tb_of; assumption|exact Hhb]).
  - (* Bech32 *)
    match goal with |- context [lib_pkh_to_bech fx ?P ?W ?HB] => set (hb := HB) end.
    assert (Hhb : tb fx hb = hb).
    { subst hb. destruct h; [|exact Hh].
      match goal with |- context [if ?c then _ else _] => destruct c end; assumption. }
    rewrite pkh_bech_tb by exact Hhb. reflexivity.
Qed.

(* hash160(b'') / sha256(b'') stand in for an empty hash: never the case for a non-empty [h] *)
Lemma address_core_tb_ne fx a r dh prefix st e wt wv net :
  tb fx (a :: r) = a :: r -> pfx_ok fx net ->
  ((forall p, prefix = Some p -> tb fx p = p) \/ e = Some EBech) ->
  (String.eqb (fst (addr_wt st e wt wv)) s_p2sh_segwit = false \/
   (forall v, varstr_of (a :: r) = Some v -> tb fx (H160 (x00 :: v)) = H160 (x00 :: v))) ->
  lib_address_core H160 fx (a :: r) dh prefix st e wt wv net =
  lib_address_core H160 (fxi fx) (a :: r) dh prefix st e wt wv net.
Proof.
  intros Hh [Hp1 Hp2] Hpre Hseg. unfold lib_address_core in *.
  destruct (addr_wt st e wt wv) as [wt1 wv1]. cbn [fst] in Hseg.
  match goal with |- context [match ?E with EB58 => _ | EBech => _ end] => destruct E eqn:Ee end.
  - destruct Hpre as [Hpre|Hpre]; [|subst e; discriminate Ee].
    destruct (String.eqb wt1 s_p2sh_segwit) eqn:Ew.
    + destruct Hseg as [Hseg|Hseg]; [discriminate|].
      destruct (varstr_of (a :: r)) as [v|] eqn:Ev; [|reflexivity].
      specialize (Hseg v eq_refl).
      destruct prefix as [p|].
      * rewrite (Hpre p eq_refl), tb_fxi. rewrite pkh_b58_tb; [reflexivity|apply Hpre; reflexivity|exact Hseg].
      * rewrite orb_true_r. rewrite pkh_b58_tb; [reflexivity|apply tb_of; exact Hp2|exact Hseg].
    + destruct prefix as [p|].
      * rewrite (Hpre p eq_refl), tb_fxi. rewrite pkh_b58_tb; [reflexivity|apply Hpre; reflexivity|exact Hh].
      * rewrite orb_false_r.
        match goal with |- context [if ?c then nw_prefix_address_p2sh net else nw_prefix_address net] => destruct c end;
          (rewrite pkh_b58_tb; [reflexivity|apply tb_of; assumption|exact Hh]).
  - rewrite pkh_bech_tb by exact Hh. reflexivity.
Qed.

Definition p2shseg_free1 (fx : fixes) (h : bytes) (st : option string) (e : option enc) (wt : option string) (wv : Z)
  : Prop :=
  String.eqb (fst (addr_wt st e wt wv)) s_p2sh_segwit = false \/
  (forall v, varstr_of h = Some v -> tb fx (H160 (x00 :: v)) = H160 (x00 :: v)).

Lemma address_new_tb fx h prefix st e wt wv net :
  h <> [] -> fx_tb fx h = h -> pfx_ok fx net ->
  ((forall p, prefix = Some p -> tb fx p = p) \/ e = Some EBech) ->
  p2shseg_free1 fx h st e wt wv ->
  lib_address_new H160 fx h prefix st e wt wv net = lib_address_new H160 (fxi fx) h prefix st e wt wv net.
Proof.
  intros Hne Hh Hp Hpre Hseg. destruct h as [|a r]; [congruence|].
  unfold lib_address_new, lib_address_make. rewrite tb_fxi, (tb_of fx _ Hh).
  apply address_core_tb_ne; [apply tb_of; exact Hh|exact Hp|exact Hpre|exact Hseg].
Qed.

(* an object that hashes its own data (HDKey / Key / Address(data=...)): hashed_data is empty *)
Lemma address_make_data_tb fx h160 s256 prefix st e wt wv net :
  tb fx h160 = h160 -> tb fx s256 = s256 -> pfx_ok fx net ->
  ((forall p, prefix = Some p -> tb fx p = p) \/ e = Some EBech) ->
  p2shseg_free fx [h160; s256] st e wt wv ->
  lib_address_make H160 fx [] (h160, s256) prefix st e wt wv net =
  lib_address_make H160 (fxi fx) [] (h160, s256) prefix st e wt wv net.
Proof.
  intros H1 H2 Hp Hpre Hseg. unfold lib_address_make. rewrite !tb_nil.
  apply address_core_tb; [reflexivity|exact H1|exact H2|exact Hp|exact Hpre|exact Hseg].
Qed.

(* the address property of an output: the address that was given, or the one computed from hash / type / encoding *)
Definition out_address_clean (fx : fixes) (a : oargs) (o : out) : Prop :=
  match a_addr a with
  | AaNone => match o_hash o with
              | [] => True
              | h => fx_tb fx h = h /\ pfx_ok fx (a_net a) /\
                     p2shseg_free1 fx h (Some (o_stype o)) (Some (o_enc o)) None (o_witver o)
              end
  | _ => True
  end.

Lemma out_address_tb fx a o : out_address_clean fx a o -> lib_out_address H160 fx a o = lib_out_address H160 (fxi fx) a o.
Proof.
  unfold out_address_clean, lib_out_address. destruct (a_addr a); try reflexivity.
  destruct (o_hash o) as [|x r]; [reflexivity|]. intros (Hh & Hp & Hseg).
  rewrite address_new_tb; [reflexivity|discriminate|exact Hh|exact Hp|left; discriminate|exact Hseg].
Qed.

(* ---- Address.parse ---- *)
Definition daddr_hash (a : daddr) : bytes := match a with DB58 _ h => h | DBech _ _ p => p end.

Lemma deser_facts fx a e n dd : lib_deserialize fx a e n = Some dd ->
  ds_hash dd = daddr_hash a /\ String.eqb (ds_wtype dd) s_p2sh_segwit = false /\
  ds_enc dd = match a with DB58 _ _ => EB58 | DBech _ _ _ => EBech end.
Proof.
  unfold lib_deserialize. destruct a as [v h|hrp wv prog].
  - destruct e as [[|]|]; try discriminate;
      (destruct (nets_by nw_prefix_address v) as [|x1 l1], (nets_by nw_prefix_address_p2sh v) as [|x2 l2];
       match goal with |- context [if ?c then _ else _] => destruct c end; try discriminate;
       intros H; injection H as <-; repeat split; reflexivity).
  - destruct e as [[|]|]; try discriminate;
      (intros H; injection H as <-; cbn [ds_hash ds_wtype ds_enc daddr_hash]; repeat split; try reflexivity;
       destruct (wv =? 0); reflexivity).
Qed.

Lemma find_network_in nm net : find_network nm = Some net -> In net all_networks.
Proof. unfold find_network. intros H. apply find_some in H. exact (proj1 H). Qed.

Lemma address_parse_tb fx a n :
  daddr_hash a <> [] -> fx_tb fx (daddr_hash a) = daddr_hash a ->
  (forall net, In net all_networks -> pfx_ok fx net) ->
  (forall v h, a = DB58 v h -> tb fx v = v) ->
  lib_address_parse H160 fx a n = lib_address_parse H160 (fxi fx) a n.
Proof.
  intros Hne Hh Hp Hv. unfold lib_address_parse.
  change (lib_deserialize (fxi fx) a None n) with (lib_deserialize fx a None n).
  destruct (lib_deserialize fx a None n) as [dd|] eqn:E; [|reflexivity].
  destruct (deser_facts _ _ _ _ _ E) as (Ehash & Ewt & Eenc).
  match goal with |- match ?F with Some _ => _ | None => _ end = _ => destruct F as [net|] eqn:En end; [|reflexivity].
  assert (Hin : In net all_networks).
  { destruct n as [nm|]; [exact (find_network_in _ _ En)|].
    destruct (ds_network dd) as [nm|]; [exact (find_network_in _ _ En)|discriminate]. }
  change (fx_witver (fxi fx)) with (fx_witver fx).
  rewrite Ehash. apply address_new_tb; [exact Hne|exact Hh|exact (Hp net Hin)| |left; exact Ewt].
  destruct a as [v h|hrp wv prog]; [left|right; rewrite Eenc; reflexivity].
  intros p Ep. injection Ep as <-. exact (Hv v h eq_refl).
Qed.

Lemma out_is_k fx a sr o lock st nm addr :
  lib_output_core H160 fx a sr = ROk o -> o_lock o = lock -> o_stype o = st -> o_net o = nm ->
  lib_out_address H160 fx a o = addr ->
  out_is (lib_output_k H160 fx a sr) lock st nm addr.
Proof.
  intros Hc Hl Hs Hn Ha. unfold lib_output_k. rewrite Hc. eexists. split; [reflexivity|].
  cbn [with_addr o_lock o_stype o_net o_addr]. repeat split; assumption.
Qed.

End Transfer.

(* one enumerated shape of "the output is exactly this": the constructor part is evaluated as it is (it never calls
   to_bytes), the address property is moved to [fxi fx] first *)
Ltac addr_side Htb Hp :=
  unfold out_address_clean; cbn [a_addr a_net o_hash o_stype o_enc o_witver];
  first [ exact I | split; [exact Htb | split; [exact Hp | unfold p2shseg_free1; left; reflexivity]] ].
Ltac out_k Htb Hp :=
  eapply out_is_k;
  [ vm_compute; reflexivity | reflexivity | reflexivity | reflexivity
  | rewrite out_address_tb; [vm_compute; reflexivity | addr_side Htb Hp] ].
