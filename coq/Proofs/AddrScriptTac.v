(* Proofs/AddrScriptTac.v — C05, library side: enumeration lemmas and tactics shared by AddrScript{Str,Obj,Parse,Inv}.v.
   Each theorem quantifies over every payload (all 2^160 / 2^256 of them), every witness version and
   every network of the regenerated table.  Proof method: the finitely many shapes (network, script
   type, witness version, payload length, repair flags) are enumerated; in each shape the payload is a
   list of symbolic bytes and the model is evaluated by the kernel's VM on that symbolic input.
   An edit of networks.json / SCRIPT_TYPES changes Gen/*.v, and these evaluations are redone on the
   new tables — if a prefix collision or a template change breaks the mapping, the proof breaks. *)
From Coq Require Import ZArith List Bool Lia String.
From Coq.Strings Require Import Byte.
From Verif Require Import Lib.Bytes Gen.GenNetworks Gen.GenConsts Model.Wire Model.AddrScript.
From Verif Require Import Proofs.ScriptCodec Proofs.AddrScriptSpec.
Import ListNotations.
Open Scope Z_scope.

(* ---------- enumeration helpers ---------- *)
Lemma len_S {A} (l : list A) n : List.length l = S n -> exists x r, l = x :: r /\ List.length r = n.
Proof. destruct l as [|x r]; [discriminate|]. intros H. exists x, r. split; [reflexivity|]. simpl in H. congruence. Qed.
Lemma len_0 {A} (l : list A) : List.length l = 0%nat -> l = [].
Proof. destruct l; [reflexivity|discriminate]. Qed.

Ltac explode h H :=
  lazymatch type of H with
  | List.length h = O => apply len_0 in H; subst h
  | List.length h = S _ => let x := fresh "b" in let r := fresh "r" in
        apply len_S in H; destruct H as (x & r & -> & H); explode r H
  end.

Ltac each_net H := unfold all_networks in H; simpl in H; repeat (destruct H as [<-|H]); [..|contradiction].

Definition versions_1_16 : list Z := [1; 2; 3; 4; 5; 6; 7; 8; 9; 10; 11; 12; 13; 14; 15; 16].

Lemma standard_inv st w p : standard (mkdest st w p) = true ->
  match st with
  | P2pkh | P2sh | P2wpkh => w = 0 /\ List.length p = 20%nat
  | P2wsh => w = 0 /\ List.length p = 32%nat
  | P2tr => In w versions_1_16 /\ (List.length p = 20%nat \/ List.length p = 32%nat)
  end.
Proof.
  unfold standard. cbn [d_stype d_witver d_payload]. intros H.
  destruct st; try (apply andb_true_iff in H; destruct H as [Hw Hn]; apply Z.eqb_eq in Hw, Hn;
                    split; [exact Hw | unfold blen in Hn; lia]).
  apply andb_true_iff in H. destruct H as [H H3]. apply andb_true_iff in H. destruct H as [H1 H2].
  apply Z.leb_le in H1, H2. split.
  - unfold versions_1_16. simpl.
    assert (w = 1 \/ w = 2 \/ w = 3 \/ w = 4 \/ w = 5 \/ w = 6 \/ w = 7 \/ w = 8 \/ w = 9 \/ w = 10 \/ w = 11 \/
            w = 12 \/ w = 13 \/ w = 14 \/ w = 15 \/ w = 16) as Hc by lia.
    repeat (destruct Hc as [Hc|Hc]; [subst w; tauto|]). subst w. tauto.
  - apply orb_true_iff in H3. destruct H3 as [E|E]; apply Z.eqb_eq in E; unfold blen in E; [left|right]; lia.
Qed.

(* all shapes of a standard destination, payload exploded into symbolic bytes *)
Ltac std_shapes d Hstd :=
  let st := fresh "st" in let w := fresh "w" in let p := fresh "p" in
  destruct d as [st w p]; apply standard_inv in Hstd;
  destruct st;
  [ destruct Hstd as [-> Hl]; explode p Hl
  | destruct Hstd as [-> Hl]; explode p Hl
  | destruct Hstd as [-> Hl]; explode p Hl
  | destruct Hstd as [-> Hl]; explode p Hl
  | let Hw := fresh "Hw" in
    destruct Hstd as [Hw [Hl|Hl]]; explode p Hl;
    unfold versions_1_16 in Hw; simpl in Hw; repeat (destruct Hw as [<-|Hw]); try contradiction ].

Ltac guard_false Hg := exfalso; destruct Hg as [Hg|Hg]; vm_compute in Hg; discriminate Hg.
Ltac out_ok := vm_compute; eexists; repeat split; reflexivity.

(* ---------- get_data_type on a 20- or 32-byte item ---------- *)
Lemma gdt_hash d : (blen d =? 20) || (blen d =? 32) = true -> get_data_type d = DData.
Proof.
  intros H. unfold get_data_type. fold (blen d).
  apply orb_true_iff in H.
  destruct (starts_with d 48), (starts_with d 2), (starts_with d 3), (starts_with d 4);
    destruct H as [H|H]; apply Z.eqb_eq in H; rewrite H; reflexivity.
Qed.

