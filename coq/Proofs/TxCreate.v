(* Proofs/TxCreate.v — what Wallet.transaction_create / send / sweep return (model Model/TxCreate.v). *)
From Coq Require Import ZArith List Bool Lia Permutation.
From Verif Require Import Lib.Bytes Gen.GenNetworks Model.CoinSelect Model.TxCreate
  Proofs.CoinSelect Proofs.TxCreateFloat.
Import ListNotations.
Open Scope Z_scope.
Unset Lia Cache.

Definition fee_estimate_of (w : wkind) (rq : request) (o : oracle) : Z :=
  match rq_fee rq with
  | FeeInt f => f
  | _ => if negb (inputs_truthy rq)
         then fee_of (estimate_size w 0 (map r_script (rq_outputs rq)) (rq_nchange rq)) (or_fpk o) else 0
  end.

Definition fpk0_of (rq : request) (o : oracle) : option Z :=
  match rq_fee rq with FeeInt _ => None | _ => Some (or_fpk o) end.

Definition size_of (w : wkind) (rq : request) (inputs : list utxo) : Z :=
  estimate_size w (Z.of_nat (length inputs)) (map r_script (rq_outputs rq)) (rq_nchange rq).

Lemma existsb_false_forall {A} (p : A -> bool) l : existsb p l = false -> forall x, In x l -> p x = false.
Proof.
  intros H x Hx. destruct (p x) eqn:E; [|reflexivity].
  assert (existsb p l = true) by (apply existsb_exists; exists x; auto). congruence.
Qed.

(* ---- structure of a successful creation *)
Lemma tx_create_ok rep nw w view rq o t :
  tx_create rep nw w view rq o = Ok t ->
  exists inputs tfee change fpk1 amounts fpk2 vsize,
    max_utxos_exceeded rq = false /\
    phase_inputs nw view rq (fee_estimate_of w rq o) = Ok inputs /\
    phase_fee rep nw rq o (fee_estimate_of w rq o) (size_of w rq inputs) (sum_values inputs)
              (sum_amounts (rq_outputs rq)) (fpk0_of rq o) = Ok (tfee, change, fpk1) /\
    phase_change nw w rq o tfee change (size_of w rq inputs) (Z.of_nat (length inputs))
                 (sum_amounts (rq_outputs rq)) fpk1 = Ok (amounts, fpk2, vsize) /\
    t = {| t_inputs := inputs; t_outputs := map recipient_out (rq_outputs rq) ++ change_outs 0 amounts;
           t_fee := tfee; t_change := change; t_vsize := vsize;
           t_fpk := if falsy fpk2 then rate_of tfee vsize else oz fpk2 |} /\
    sum_values inputs = tfee + sum_outs (t_outputs t) /\
    (forall x, In x (t_outputs t) -> 0 <= o_value x < two64) /\
    nw_fee_min nw <= t_fpk t <= nw_fee_max nw.
Proof.
  unfold tx_create. cbv zeta. intros H.
  destruct (max_utxos_exceeded rq) eqn:M; [discriminate|].
  change (match rq_fee rq with
          | FeeInt f => f
          | _ => if negb (inputs_truthy rq)
                 then fee_of (estimate_size w 0 (map r_script (rq_outputs rq)) (rq_nchange rq)) (or_fpk o) else 0
          end) with (fee_estimate_of w rq o) in H.
  change (match rq_fee rq with FeeInt _ => None | _ => Some (or_fpk o) end) with (fpk0_of rq o) in H.
  destruct (phase_inputs nw view rq (fee_estimate_of w rq o)) as [inputs|e] eqn:PI; [|discriminate].
  change (estimate_size w (Z.of_nat (length inputs)) (map r_script (rq_outputs rq)) (rq_nchange rq))
    with (size_of w rq inputs) in H.
  destruct (phase_fee rep nw rq o _ _ _ _ _) as [[[tfee change] fpk1]|e] eqn:PF; [|discriminate].
  destruct (phase_change nw w rq o _ _ _ _ _ _) as [[[amounts fpk2] vsize]|e] eqn:PC; [|discriminate].
  set (outputs := map recipient_out (rq_outputs rq) ++ change_outs 0 amounts) in *.
  destruct (negb (sum_values inputs =? tfee + sum_outs outputs)) eqn:C; [discriminate|].
  destruct (existsb (fun x => o_value x <? 0) outputs) eqn:N; [discriminate|].
  destruct (existsb (fun x => two64 <=? o_value x) outputs) eqn:V; [discriminate|].
  set (fpk3 := if falsy fpk2 then rate_of tfee vsize else oz fpk2) in *.
  destruct (fpk3 <? nw_fee_min nw) eqn:L; [discriminate|].
  destruct (nw_fee_max nw <? fpk3) eqn:U; [discriminate|].
  inversion H; subst t. clear H.
  exists inputs, tfee, change, fpk1, amounts, fpk2, vsize.
  apply negb_false_iff in C. apply Z.eqb_eq in C. apply Z.ltb_ge in L. apply Z.ltb_ge in U.
  repeat split; auto; cbn [t_outputs t_fpk]; try lia.
  - pose proof (existsb_false_forall _ _ N x H) as Hx. cbn in Hx. apply Z.ltb_ge in Hx. exact Hx.
  - pose proof (existsb_false_forall _ _ V x H) as Hx. cbn in Hx. apply Z.leb_gt in Hx. exact Hx.
Qed.

(* ---- sums *)
Lemma sum_outs_app a b : sum_outs (a ++ b) = sum_outs a + sum_outs b.
Proof. induction a; simpl; lia. Qed.

Lemma sum_outs_recipients l : sum_outs (map recipient_out l) = sum_amounts l.
Proof. induction l as [|r l IH]; simpl; [reflexivity|]. rewrite IH. reflexivity. Qed.

Lemma sum_outs_change : forall l i, sum_outs (change_outs i l) = zsum l.
Proof. induction l as [|v l IH]; intros i; simpl; [reflexivity|]. rewrite IH. reflexivity. Qed.

Lemma zsum_nonneg_of_change : forall l i,
  (forall x, In x (change_outs i l) -> 0 <= o_value x) -> 0 <= zsum l.
Proof.
  induction l as [|v l IH]; intros i H; simpl; [lia|].
  assert (0 <= v) by (apply (H {| o_dest := ToChange i; o_value := v; o_change := true |}); left; reflexivity).
  assert (0 <= zsum l) by (apply (IH (i + 1)); intros x Hx; apply H; right; exact Hx). lia.
Qed.

Lemma change_outs_flag : forall l i x, In x (change_outs i l) -> o_change x = true /\ exists j, i <= j /\ o_dest x = ToChange j.
Proof.
  induction l as [|v l IH]; intros i x H; simpl in H; [contradiction|].
  destruct H as [E|H].
  - subst x. simpl. split; [reflexivity|]. exists i. split; [lia | reflexivity].
  - destruct (IH _ _ H) as [A [j [B C]]]. split; [exact A|]. exists j. split; [lia | exact C].
Qed.

Lemma change_outs_nodup : forall l i, NoDup (map o_dest (change_outs i l)).
Proof.
  induction l as [|v l IH]; intros i; simpl; constructor; [|apply IH].
  intros Hin. apply in_map_iff in Hin. destruct Hin as [x [E Hx]].
  destruct (change_outs_flag _ _ _ Hx) as [_ [j [B C]]]. rewrite C in E. inversion E. lia.
Qed.

(* ---- theorems about every successful creation (repaired or not) *)
Lemma create_conserves_lemma rep nw w view rq o t :
  tx_create rep nw w view rq o = Ok t ->
  sum_values (t_inputs t) = sum_outs (t_outputs t) + t_fee t.
Proof.
  intros H. destruct (tx_create_ok _ _ _ _ _ _ _ H) as (inputs & tfee & change & fpk1 & amounts & fpk2 & vsize & _ & _ & _ & _ & E & C & _).
  rewrite E in *. cbn [t_inputs t_outputs t_fee] in *. lia.
Qed.

Lemma create_no_negative_output_lemma rep nw w view rq o t :
  tx_create rep nw w view rq o = Ok t -> forall x, In x (t_outputs t) -> 0 <= o_value x < two64.
Proof.
  intros H. destruct (tx_create_ok _ _ _ _ _ _ _ H) as (inputs & tfee & change & fpk1 & amounts & fpk2 & vsize & _ & _ & _ & _ & _ & _ & N & _).
  exact N.
Qed.

Lemma create_recipients_exact_lemma rep nw w view rq o t :
  tx_create rep nw w view rq o = Ok t ->
  exists amounts,
    t_outputs t = map recipient_out (rq_outputs rq) ++ change_outs 0 amounts /\
    (forall x, In x (change_outs 0 amounts) -> o_change x = true /\ exists j, o_dest x = ToChange j) /\
    NoDup (map o_dest (change_outs 0 amounts)).
Proof.
  intros H. destruct (tx_create_ok _ _ _ _ _ _ _ H) as (inputs & tfee & change & fpk1 & amounts & fpk2 & vsize & _ & _ & _ & _ & E & _).
  exists amounts. rewrite E. cbn [t_outputs]. split; [reflexivity|]. split.
  - intros x Hx. destruct (change_outs_flag _ _ _ Hx) as [A [j [_ C]]]. split; [exact A | exists j; exact C].
  - apply change_outs_nodup.
Qed.

Lemma create_fee_rate_checked_lemma rep nw w view rq o t :
  tx_create rep nw w view rq o = Ok t -> nw_fee_min nw <= t_fpk t <= nw_fee_max nw.
Proof.
  intros H. destruct (tx_create_ok _ _ _ _ _ _ _ H) as (inputs & tfee & change & fpk1 & amounts & fpk2 & vsize & _ & _ & _ & _ & _ & _ & _ & R).
  exact R.
Qed.

(* ---- inputs *)
Lemma lookup_inputs_spec view : forall ids l,
  lookup_inputs view ids = Some l -> map u_id l = ids /\ forall u, In u l -> In u view.
Proof.
  induction ids as [|i r IH]; intros l H; simpl in H.
  - inversion H; subst. split; [reflexivity | intros u []].
  - destruct (find (fun u => u_id u =? i) view) as [u|] eqn:F; [|discriminate].
    destruct (lookup_inputs view r) as [l'|] eqn:L; [|discriminate].
    inversion H; subst. destruct (IH _ eq_refl) as [A B].
    apply find_some in F. destruct F as [Fin Fe]. apply Z.eqb_eq in Fe.
    split; [simpl; rewrite A, Fe; reflexivity|].
    intros v [E|Hv]; [subst; exact Fin | apply B; exact Hv].
Qed.

Lemma create_inputs_ok_lemma rep nw w view rq o t :
  tx_create rep nw w view rq o = Ok t ->
  match rq_inputs rq with
  | None =>
      (forall u, In u (t_inputs t) ->
         In u view /\ u_spent u = false /\ rq_min_conf rq <= u_conf u /\ nw_dust_amount nw <= u_value u) /\
      (NoDup (map u_id view) -> NoDup (map u_id (t_inputs t)))
  | Some ids => map u_id (t_inputs t) = ids /\ forall u, In u (t_inputs t) -> In u view
  end.
Proof.
  intros H. destruct (tx_create_ok _ _ _ _ _ _ _ H) as (inputs & tfee & change & fpk1 & amounts & fpk2 & vsize & _ & PI & _ & _ & E & _).
  rewrite E. cbn [t_inputs]. unfold phase_inputs in PI.
  destruct (rq_inputs rq) as [ids|].
  - destruct (lookup_inputs view ids) as [l|] eqn:L; [|discriminate]. inversion PI; subst.
    apply lookup_inputs_spec. exact L.
  - destruct (lib_select_inputs _ _ _ _ _ _) as [|l] eqn:S; [discriminate|].
    destruct l as [|u0 l0]; [discriminate|]. inversion PI; subst.
    assert (Hne : u0 :: l0 <> []) by discriminate.
    destruct (select_sufficient_lemma _ _ _ _ _ _ _ S Hne) as [_ [B C]]. split; assumption.
Qed.

(* ---- the fee phase of the repaired code *)
Lemma phase_fee_repaired nw rq o fe size it ot fpk0 tfee change fpk1 :
  phase_fee true nw rq o fe size it ot fpk0 = Ok (tfee, change, fpk1) ->
  0 <= change /\
  match rq_fee rq with
  | FeeInt f => f <= tfee /\ fpk1 = fpk0
  | FeeNamed => fe <= tfee /\ fpk1 = fpk0
  | FeeNone =>
      if negb (inputs_truthy rq)
      then exists b, nw_fee_min nw <= b /\ fee_of size b <= tfee /\ fpk1 = Some b
      else 0 <= tfee /\ fpk1 = fpk0
  end.
Proof.
  unfold phase_fee.
  set (tup := match rq_fee rq with
              | FeeInt f => (false, f, None, fpk0)
              | FeeNamed => (false, fe, None, fpk0)
              | FeeNone => _
              end).
  assert (Hgen : forall fif tfee0 fpo fpkx, tup = (fif, tfee0, fpo, fpkx) ->
    (let tfee1 := if fif then it - ot else tfee0 in
     let change1 := if fif then 0 else it - (ot + tfee1) in
     if true && fif && (tfee1 <? 0) then Err EOutGtIn
     else if true && (change1 <? 0) then Err EOutGtIn
     else
       let fold := (negb (falsy fpo) && (change1 <? oz fpo)) || (change1 <=? nw_dust_amount nw) in
       let tfee2 := if fold then tfee1 + change1 else tfee1 in
       let change2 := if fold then 0 else change1 in
       if change2 <? 0 then Err EOutGtIn else Ok (tfee2, change2, fpkx)) = Ok (tfee, change, fpk1) ->
    0 <= change /\ fpk1 = fpkx /\ (if fif then 0 <= tfee else tfee0 <= tfee)).
  { intros fif tfee0 fpo fpkx _. cbv zeta. cbn [andb].
    destruct fif.
    - destruct (it - ot <? 0) eqn:A; [discriminate|]. apply Z.ltb_ge in A.
      change (0 <? 0) with false. cbn iota.
      destruct (negb (falsy fpo) && (0 <? oz fpo) || (0 <=? nw_dust_amount nw)).
      + change (0 <? 0) with false. cbn iota. intros H; inversion H; subst. repeat split; lia.
      + change (0 <? 0) with false. cbn iota. intros H; inversion H; subst. repeat split; lia.
    - cbn [andb]. destruct (it - (ot + tfee0) <? 0) eqn:A; [discriminate|]. apply Z.ltb_ge in A.
      destruct (negb (falsy fpo) && (it - (ot + tfee0) <? oz fpo) || (it - (ot + tfee0) <=? nw_dust_amount nw)).
      + change (0 <? 0) with false. cbn iota. intros H; inversion H; subst. repeat split; lia.
      + destruct (it - (ot + tfee0) <? 0); [discriminate|]. intros H; inversion H; subst. repeat split; lia. }
  destruct tup as [[[fif tfee0] fpo] fpkx] eqn:T. intros H.
  destruct (Hgen _ _ _ _ eq_refl H) as [A [B C]]. split; [exact A|].
  unfold tup in T. clear Hgen H tup.
  destruct (rq_fee rq) as [|f|].
  - destruct (negb (inputs_truthy rq)).
    + inversion T; subst. eexists. split; [|split; [exact C | reflexivity]].
      destruct ((if falsy fpk0 then or_fpk2 o else oz fpk0) <? nw_fee_min nw) eqn:E; [lia|]. apply Z.ltb_ge in E. exact E.
    + destruct (negb (ot =? 0) && negb (it =? 0)); inversion T; subst; split; auto.
  - inversion T; subst. split; auto.
  - inversion T; subst. split; auto.
Qed.

Lemma randint_range a b r : a <= b -> a <= randint a b r <= b.
Proof.
  intros H. unfold randint. pose proof (Z.mod_pos_bound r (b - a + 1) ltac:(lia)). lia.
Qed.

(* ---- the change phase: which fee rate and size the final test sees *)
Lemma phase_change_facts nw w rq o tfee change size n_in ot fpk amounts fpk2 vsize :
  phase_change nw w rq o tfee change size n_in ot fpk = Ok (amounts, fpk2, vsize) ->
  (fpk2 = fpk \/ (falsy fpk = true /\ fpk2 = Some (rate_of tfee size))) /\
  (vsize = size \/ exists k, 1 <= k /\ vsize = estimate_size w n_in (map r_script (rq_outputs rq)) k).
Proof.
  unfold phase_change. destruct (change =? 0).
  { intros H; inversion H; subst. split; left; reflexivity. }
  set (pr := if negb (tfee =? 0) && negb (size =? 0) then _ else _).
  assert (Hp : fst pr = fpk \/ (falsy fpk = true /\ fst pr = Some (rate_of tfee size))).
  { unfold pr. destruct (negb (tfee =? 0) && negb (size =? 0)); cbn [fst]; [|left; reflexivity].
    destruct (falsy fpk) eqn:F; [right; split; reflexivity | left; reflexivity]. }
  destruct pr as [fpk' mov]. cbn [fst] in Hp.
  destruct (rq_nchange rq <? 0); [discriminate|].
  set (k := if rq_nchange rq =? 0 then _ else rq_nchange rq).
  destruct ((1 <? k) && (change / k <? mov)); [discriminate|].
  intros H; inversion H; subst. split; [exact Hp|].
  destruct (rq_nchange rq =? 0) eqn:K0; [|left; reflexivity].
  right. exists k. split; [|reflexivity].
  unfold k.
  destruct (qltb (qint change) (fl (ot, 10)) || (change <? mov * 8)); [lia|].
  destruct (qltb (qint ot) (fl (change, 10))).
  - pose proof (randint_range 2 5 (or_r1 o) ltac:(lia)). lia.
  - destruct (randint 1 3 (or_r1 o) =? 3).
    + pose proof (randint_range 3 4 (or_r2 o) ltac:(lia)). lia.
    + pose proof (randint_range 1 3 (or_r1 o) ltac:(lia)). lia.
Qed.

(* ---- the fee is never negative (repaired code) *)
Lemma create_fee_nonneg_lemma nw w view rq o t :
  0 < nw_fee_min nw -> wk_wf w -> 0 <= rq_nchange rq ->
  lib_tx_create nw w view rq o = Ok t -> 0 <= t_fee t.
Proof.
  intros Hmin Hw Hk H. unfold lib_tx_create in H.
  destruct (tx_create_ok _ _ _ _ _ _ _ H) as (inputs & tfee & change & fpk1 & amounts & fpk2 & vsize & _ & _ & PF & PC & E & _ & _ & R).
  rewrite E in *. cbn [t_fee t_fpk] in *. clear E H.
  apply phase_fee_repaired in PF. destruct PF as [_ PF].
  apply phase_change_facts in PC. destruct PC as [P2 PV].
  assert (Hsize : 0 <= size_of w rq inputs).
  { unfold size_of. apply estimate_size_nonneg; auto. apply Nat2Z.is_nonneg. }
  assert (Hvs : 0 <= vsize).
  { destruct PV as [->|[k [K ->]]]; [exact Hsize|]. apply estimate_size_nonneg; auto; [apply Nat2Z.is_nonneg | lia]. }
  (* a positive checked rate that was computed from the fee forces a positive fee *)
  assert (Hrate : forall s, 0 <= s -> 0 < rate_of tfee s -> 0 <= tfee).
  { intros s Hs Hr. destruct (Z.le_gt_cases 0 tfee) as [|N]; [assumption|].
    pose proof (rate_of_nonpos tfee s ltac:(lia) Hs). lia. }
  destruct (rq_fee rq) as [|f|] eqn:RF.
  - (* automatic fee *)
    destruct (negb (inputs_truthy rq)).
    + destruct PF as [b [B1 [B2 _]]].
      pose proof (fee_of_nonneg (size_of w rq inputs) b Hsize ltac:(lia)). lia.
    + destruct PF as [A _]. exact A.
  - (* explicit fee: the final test computes the rate from the fee itself *)
    destruct PF as [_ F1]. unfold fpk0_of in F1. rewrite RF in F1. subst fpk1.
    destruct P2 as [->|[_ ->]].
    + cbn [falsy] in R. apply (Hrate vsize Hvs). lia.
    + cbn [falsy oz] in R. destruct (rate_of tfee (size_of w rq inputs) =? 0) eqn:Z0.
      * apply (Hrate vsize Hvs). lia.
      * apply (Hrate (size_of w rq inputs) Hsize). lia.
  - (* named fee *)
    destruct PF as [F0 F1]. unfold fpk0_of in F1. rewrite RF in F1. subst fpk1.
    assert (0 <= fee_estimate_of w rq o); [|lia].
    unfold fee_estimate_of. rewrite RF. destruct (negb (inputs_truthy rq)); [|lia].
    apply fee_of_nonneg.
    + apply estimate_size_nonneg; auto. lia.
    + destruct P2 as [->|[F ->]].
      * cbn [falsy oz] in R. destruct (or_fpk o =? 0) eqn:Z0; [apply Z.eqb_eq in Z0; lia | lia].
      * cbn [falsy] in F. apply Z.eqb_eq in F. lia.
Qed.

(* ---- what was asked for is covered by the inputs (repaired code) *)
Definition fee_floor (rq : request) : Z := match rq_fee rq with FeeInt f => f | _ => 0 end.

Lemma create_covers_request nw w view rq o t :
  0 < nw_fee_min nw -> wk_wf w -> 0 <= rq_nchange rq ->
  lib_tx_create nw w view rq o = Ok t ->
  sum_amounts (rq_outputs rq) + fee_floor rq <= sum_values (t_inputs t) /\ fee_floor rq <= t_fee t.
Proof.
  intros Hmin Hw Hk H.
  pose proof (create_fee_nonneg_lemma _ _ _ _ _ _ Hmin Hw Hk H) as Hf.
  unfold lib_tx_create in H.
  destruct (tx_create_ok _ _ _ _ _ _ _ H) as (inputs & tfee & change & fpk1 & amounts & fpk2 & vsize & _ & _ & PF & _ & E & C & N & _).
  rewrite E in *. cbn [t_inputs t_outputs t_fee] in *. clear E H.
  rewrite sum_outs_app, sum_outs_recipients, sum_outs_change in C.
  assert (0 <= zsum amounts).
  { apply (zsum_nonneg_of_change amounts 0). intros x Hx. apply N. apply in_or_app. right. exact Hx. }
  apply phase_fee_repaired in PF. destruct PF as [_ PF].
  unfold fee_floor. destruct (rq_fee rq) as [|f|]; lia.
Qed.

Lemma insufficient_fails_explicit nw w view rq o ids l :
  0 < nw_fee_min nw -> wk_wf w -> 0 <= rq_nchange rq ->
  rq_inputs rq = Some ids -> lookup_inputs view ids = Some l ->
  sum_values l < sum_amounts (rq_outputs rq) + fee_floor rq ->
  exists e, lib_tx_create nw w view rq o = Err e.
Proof.
  intros Hmin Hw Hk Hi Hl Hlt.
  destruct (lib_tx_create nw w view rq o) as [t|e] eqn:H; [|exists e; reflexivity]. exfalso.
  destruct (create_covers_request _ _ _ _ _ _ Hmin Hw Hk H) as [A _].
  unfold lib_tx_create in H.
  destruct (tx_create_ok _ _ _ _ _ _ _ H) as (inputs & tfee & change & fpk1 & amounts & fpk2 & vsize & _ & PI & _ & _ & E & _).
  unfold phase_inputs in PI. rewrite Hi, Hl in PI. inversion PI; subst inputs. rewrite E in A. cbn [t_inputs] in A. lia.
Qed.

Lemma insufficient_fails_auto nw w view rq o :
  0 < nw_fee_min nw -> 0 <= nw_dust_amount nw -> wk_wf w -> 0 <= rq_nchange rq ->
  rq_inputs rq = None ->
  sum_values (candidates (rq_min_conf rq) (nw_dust_amount nw) view) < sum_amounts (rq_outputs rq) + fee_floor rq ->
  exists e, lib_tx_create nw w view rq o = Err e.
Proof.
  intros Hmin Hd Hw Hk Hi Hlt.
  destruct (lib_tx_create nw w view rq o) as [t|e] eqn:H; [|exists e; reflexivity]. exfalso.
  destruct (create_covers_request _ _ _ _ _ _ Hmin Hw Hk H) as [A _].
  unfold lib_tx_create in H.
  destruct (tx_create_ok _ _ _ _ _ _ _ H) as (inputs & tfee & change & fpk1 & amounts & fpk2 & vsize & _ & PI & _ & _ & E & _).
  unfold phase_inputs in PI. rewrite Hi in PI.
  destruct (lib_select_inputs _ _ _ _ _ _) as [|l] eqn:S; [discriminate|].
  destruct l as [|u0 l0]; [discriminate|]. inversion PI; subst inputs.
  pose proof (select_le_available _ _ _ _ _ _ _ Hd S). rewrite E in A. cbn [t_inputs] in A. lia.
Qed.

(* ---- send and sweep return what some transaction_create call returned, with the same outputs requested *)
Lemma send_gen_ok rep nw w view rq o1 o2 t :
  send_gen rep nw w view rq o1 o2 = Ok t ->
  exists rq' o', tx_create rep nw w view rq' o' = Ok t /\
                 rq_outputs rq' = rq_outputs rq /\ rq_inputs rq' = rq_inputs rq /\ rq_min_conf rq' = rq_min_conf rq /\
                 rq_nchange rq' = rq_nchange rq /\
                 (rq_fee rq' = rq_fee rq \/ (rq_fee rq = FeeNone /\ exists f, rq_fee rq' = FeeInt f)).
Proof.
  unfold send_gen. destruct (max_utxos_exceeded rq); [discriminate|].
  destruct (tx_create rep nw w view rq o1) as [t1|e] eqn:C1; [|discriminate].
  destruct (rq_fee rq) eqn:RF.
  - destruct (negb (t_fpk t1 =? 0) && negb (t_change t1 =? 0)).
    + match goal with |- (if ?c then _ else _) = _ -> _ => destruct c end.
      * intros H. exists (with_fee rq (FeeInt (calculate_fee nw t1))), o2. split; [exact H|].
        cbn. repeat split; auto; try (right; split; [reflexivity|]; eexists; reflexivity).
      * intros H; inversion H; subst. exists rq, o1. repeat split; auto; try (left; congruence).
    + intros H; inversion H; subst. exists rq, o1. repeat split; auto; try (left; congruence).
  - intros H; inversion H; subst. exists rq, o1. repeat split; auto; try (left; congruence).
  - intros H; inversion H; subst. exists rq, o1. repeat split; auto; try (left; congruence).
Qed.

Lemma sweep_gen_ok rep nw w view sq o1 o2 t :
  sweep_gen rep nw w view sq o1 o2 = Ok t ->
  exists rq' o', tx_create rep nw w view rq' o' = Ok t /\ exists ids, rq_inputs rq' = Some ids.
Proof.
  unfold sweep_gen. cbv zeta.
  destruct (py_take _ _) as [|u0 us]; [discriminate|].
  match goal with |- (if ?c then _ else _) = _ -> _ => destruct c; [discriminate|] end.
  match goal with |- (if ?c then _ else _) = _ -> _ => destruct c; [discriminate|] end.
  intros H. apply send_gen_ok in H. destruct H as (rq' & o' & C & _ & I & _).
  exists rq', o'. split; [exact C|]. cbn [rq_inputs] in I. eexists. exact I.
Qed.

(* ---- instantiation for every network of the regenerated table *)
Lemma all_networks_limits nw :
  In nw all_networks -> 0 < nw_fee_min nw /\ 0 <= nw_dust_amount nw /\ nw_fee_min nw <= nw_fee_max nw.
Proof.
  unfold all_networks. intros H.
  repeat (destruct H as [<-|H]; [cbn; lia|]). destruct H.
Qed.

Definition available (nw : network) (view : list utxo) (rq : request) : list utxo :=
  match rq_inputs rq with
  | None => candidates (rq_min_conf rq) (nw_dust_amount nw) view
  | Some ids => match lookup_inputs view ids with Some l => l | None => [] end
  end.

Lemma create_fee_nonneg_net nw w view rq o t :
  In nw all_networks -> wk_wf w -> 0 <= rq_nchange rq ->
  lib_tx_create nw w view rq o = Ok t -> 0 <= t_fee t.
Proof.
  intros Hn. destruct (all_networks_limits nw Hn) as [A _]. apply create_fee_nonneg_lemma. exact A.
Qed.

Lemma create_pays_requested_fee_net nw w view rq o t :
  In nw all_networks -> wk_wf w -> 0 <= rq_nchange rq ->
  lib_tx_create nw w view rq o = Ok t ->
  sum_amounts (rq_outputs rq) + fee_floor rq <= sum_values (t_inputs t) /\ fee_floor rq <= t_fee t.
Proof.
  intros Hn. destruct (all_networks_limits nw Hn) as [A _]. apply create_covers_request. exact A.
Qed.

Lemma insufficient_fails_net nw w view rq o :
  In nw all_networks -> wk_wf w -> 0 <= rq_nchange rq ->
  sum_values (available nw view rq) < sum_amounts (rq_outputs rq) + fee_floor rq ->
  exists e, lib_tx_create nw w view rq o = Err e.
Proof.
  intros Hn Hw Hk. destruct (all_networks_limits nw Hn) as [A [B _]]. unfold available.
  destruct (rq_inputs rq) as [ids|] eqn:I.
  - destruct (lookup_inputs view ids) as [l|] eqn:L.
    + intros Hlt. eapply insufficient_fails_explicit; eauto.
    + intros _. destruct (lib_tx_create nw w view rq o) as [t|e] eqn:H; [|exists e; reflexivity]. exfalso.
      unfold lib_tx_create in H.
      destruct (tx_create_ok _ _ _ _ _ _ _ H) as (inputs & tfee & change & fpk1 & amounts & fpk2 & vsize & _ & PI & _).
      unfold phase_inputs in PI. rewrite I, L in PI. discriminate.
  - intros Hlt. apply insufficient_fails_auto; auto.
Qed.

Lemma send_conserves_lemma rep nw w view rq o1 o2 t :
  send_gen rep nw w view rq o1 o2 = Ok t ->
  sum_values (t_inputs t) = sum_outs (t_outputs t) + t_fee t /\
  (forall x, In x (t_outputs t) -> 0 <= o_value x < two64) /\
  (exists amounts, t_outputs t = map recipient_out (rq_outputs rq) ++ change_outs 0 amounts) /\
  nw_fee_min nw <= t_fpk t <= nw_fee_max nw.
Proof.
  intros H. apply send_gen_ok in H. destruct H as (rq' & o' & C & EO & _).
  split; [eapply create_conserves_lemma; exact C|].
  split; [eapply create_no_negative_output_lemma; exact C|].
  split; [|eapply create_fee_rate_checked_lemma; exact C].
  destruct (create_recipients_exact_lemma _ _ _ _ _ _ _ C) as [am [E _]]. exists am. rewrite E, EO. reflexivity.
Qed.

Lemma sweep_conserves_lemma rep nw w view sq o1 o2 t :
  sweep_gen rep nw w view sq o1 o2 = Ok t ->
  sum_values (t_inputs t) = sum_outs (t_outputs t) + t_fee t /\
  (forall x, In x (t_outputs t) -> 0 <= o_value x < two64) /\
  (forall u, In u (t_inputs t) -> In u view).
Proof.
  intros H. apply sweep_gen_ok in H. destruct H as (rq' & o' & C & ids & I).
  split; [eapply create_conserves_lemma; exact C|].
  split; [eapply create_no_negative_output_lemma; exact C|].
  pose proof (create_inputs_ok_lemma _ _ _ _ _ _ _ C) as P. rewrite I in P. destruct P as [_ P]. exact P.
Qed.
