(* Proofs/WalletKeysReach.v — C09: what a wallet can hand out is bounded by the key material it holds.

   - a wallet whose main key is not a private master key of depth 0 refuses every request for another witness type
     (purpose branch), at every entry point, in every state, and nothing is created;
   - with fixes/C09-5 in the library (w_guard_reach) an account-level wallet refuses other networks and accounts too;
     without it the requests are answered with the wallet's own keys (refuted in Properties/C09.v);
   - a request that is answered is answered at the documented path of the REQUESTED witness type, network, account,
     change flag and index: m/purpose'/coin'/account'/change/index below a master key, M/change/index below an
     account-level key. *)
From Coq Require Import ZArith Bool String List Lia.
From Verif Require Import Lib.Bytes Gen.GenNetworks Gen.GenWalletCfg Model.WalletKeys Proofs.WalletKeys
  Proofs.WalletKeysBook Proofs.WalletKeysTables.
Import ListNotations.
Open Scope Z_scope.

Section ReachProofs.
Variable X : Type.
Variable derive : X -> pelem -> option X.

Notation keyrec := (keyrec X).
Notation wstate := (wstate X).

(* the request as keys_for_path sees it after Wallet._get_account_defaults and the witness type default *)
Definition req_net (w : wstate) (net : option string) (acct : option Z) : string := fst (acct_defaults X w net acct).
Definition req_acct (w : wstate) (net : option string) (acct : option Z) : Z := snd (acct_defaults X w net acct).
Definition req_wt (w : wstate) (wt : option wtype) : wtype := opt_default (w_wt (ws_cfg w)) wt.

Lemma wtype_eqb_eq : forall a b, wtype_eqb a b = true <-> a = b.
Proof. intros [] []; simpl; split; intros H; try reflexivity; try discriminate. Qed.

Lemma wtype_eqb_neq : forall a b, a <> b -> wtype_eqb a b = false.
Proof. intros a b H. destruct (wtype_eqb a b) eqn:E; [apply wtype_eqb_eq in E; contradiction | reflexivity]. Qed.

(* the guard of the source (regenerated) fires for every main key that is not a private master of depth 0 *)
Lemma not_master_guard : forall c wt', w_root_master c = false -> wtype_eqb wt' (w_wt c) = false ->
  kfp_witness_guard true (w_root_private c) (w_root_depth c =? 0) (negb (wtype_eqb wt' (w_wt c))) false = true.
Proof.
  intros c wt' H E. rewrite kfp_witness_guard_frozen. unfold spec_kfp_witness_guard. rewrite E.
  unfold w_root_master in H. destruct (w_root_private c); destruct (w_root_depth c =? 0); simpl in *; congruence.
Qed.

(* ------------------------------------------------------------------ another witness type *)
Theorem kfp_refuses_foreign_witness_type : forall (w : wstate) upath full lo acct ai chg wt net n,
  w_root_master (ws_cfg w) = false -> req_wt w wt <> w_wt (ws_cfg w) -> n <> O ->
  lib_keys_for_path X derive w upath full lo acct ai chg wt net n = (w, None).
Proof.
  intros w upath full lo acct ai chg wt net n Hm Hw Hn. unfold lib_keys_for_path.
  destruct n as [|extra]; [contradiction|].
  unfold req_wt in Hw. rewrite (not_master_guard _ _ Hm (wtype_eqb_neq _ _ Hw)). reflexivity.
Qed.

Theorem new_keys_refuses_foreign_witness_type : forall (w : wstate) acct chg wt net n,
  w_root_master (ws_cfg w) = false -> req_wt w wt <> w_wt (ws_cfg w) -> n <> O ->
  lib_new_keys X derive w acct chg wt net n = (w, None).
Proof.
  intros w acct chg wt net n Hm Hw Hn. unfold lib_new_keys.
  destruct (_ && _)%bool; [reflexivity|].
  destruct (op_purpose _ _); [|reflexivity].
  apply kfp_refuses_foreign_witness_type; auto.
Qed.

Lemma in_firstn : forall (A : Type) n (l : list A) x, In x (firstn n l) -> In x l.
Proof.
  intros A n l x H. rewrite <- (firstn_skipn n l). apply in_or_app. left. exact H.
Qed.

Lemma new_keys_foreign_nothing : forall (w : wstate) acct chg wt net n,
  w_root_master (ws_cfg w) = false -> req_wt w wt <> w_wt (ws_cfg w) ->
  lib_new_keys X derive w acct chg wt net n = (w, None) \/ lib_new_keys X derive w acct chg wt net n = (w, Some []).
Proof.
  intros w acct chg wt net n Hm Hw. destruct n as [|m].
  - unfold lib_new_keys. destruct (_ && _)%bool; [left; reflexivity|].
    destruct (op_purpose _ _); [|left; reflexivity]. right. reflexivity.
  - left. apply new_keys_refuses_foreign_witness_type; auto.
Qed.

(* get_key(s): nothing is created; what is returned was stored before with that witness type (in the reachable
   states of such a wallet there is no such row: every creation of one is refused) *)
Theorem get_keys_creates_nothing_for_foreign_witness_type : forall (w : wstate) acct chg wt net n w' r,
  w_root_master (ws_cfg w) = false -> req_wt w wt <> w_wt (ws_cfg w) ->
  lib_get_keys X derive w acct chg wt net n = (w', r) ->
  w' = w /\ forall ks k, r = Some ks -> In k ks -> In k (ws_keys w) /\ k_wt k = req_wt w wt.
Proof.
  intros w acct chg wt net n w' r Hm Hw H. unfold lib_get_keys in H.
  set (net' := fst (acct_defaults X w net acct)) in *.
  set (acct' := snd (acct_defaults X w net acct)) in *.
  set (wt' := opt_default (w_wt (ws_cfg w)) wt) in *.
  set (chain := filter (in_chain X (ws_cfg w) net' acct' wt' chg) (ws_keys w)) in *.
  set (unused := filter (fun k => negb (k_used k) && (fold_left Z.max (map k_id (filter k_used chain)) 0 <? k_id k)) chain) in *.
  assert (U : forall k, In k unused -> In k (ws_keys w) /\ k_wt k = req_wt w wt).
  { intros k Hk. unfold unused in Hk. apply filter_In in Hk. destruct Hk as [Hk _]. unfold chain in Hk.
    apply filter_In in Hk. destruct Hk as [Hin Hp]. split; [exact Hin|]. unfold in_chain in Hp.
    repeat (apply andb_true_iff in Hp; destruct Hp as [Hp ?]).
    match goal with Hq : wtype_eqb (k_wt k) _ = true |- _ => apply wtype_eqb_eq in Hq; exact Hq end. }
  destruct (n <? length unused)%nat.
  - inversion H; subst. split; [reflexivity|]. intros ks k E Hk. inversion E; subst ks. apply U. eapply in_firstn; eauto.
  - assert (Hw' : req_wt w (Some wt') <> w_wt (ws_cfg w)) by exact Hw.
    destruct (new_keys_foreign_nothing w (Some acct') chg (Some wt') (Some net') (n - length unused) Hm Hw') as [E|E];
      rewrite E in H; inversion H; subst; (split; [reflexivity|]); intros ks k Es Hk; [discriminate|].
    inversion Es; subst ks. rewrite app_nil_r in Hk. apply U. exact Hk.
Qed.

Theorem public_master_refuses_foreign_witness_type : forall (w : wstate) acct wt net,
  w_root_master (ws_cfg w) = false -> req_wt w wt <> w_wt (ws_cfg w) ->
  lib_public_master X derive w acct wt net = (w, None).
Proof.
  intros. unfold lib_public_master. apply kfp_refuses_foreign_witness_type; auto.
Qed.

(* new accounts need the private master key, whatever is asked *)
Theorem new_account_needs_private_master : forall (w : wstate) acct wt net,
  w_root_master (ws_cfg w) = false -> lib_new_account X derive w acct wt net = (w, None).
Proof.
  intros w acct wt net Hm. unfold lib_new_account. rewrite new_account_guard_frozen. unfold spec_new_account_guard.
  unfold w_root_master in Hm.
  destruct (w_root_depth (ws_cfg w) =? 0); destruct (w_root_private (ws_cfg w)); simpl in *; try discriminate; reflexivity.
Qed.

(* ------------------------------------------------------------------ another network / account (fixes/C09-5) *)
Definition account_level (c : wcfg) : Prop :=
  w_root_depth c <> 0 /\ index_of "account'" (w_tpl c) = None.

Theorem kfp_refuses_foreign_network_or_account : forall (w : wstate) upath full lo acct ai chg wt net n,
  w_guard_reach (ws_cfg w) = true -> account_level (ws_cfg w) -> n <> O ->
  req_net w net acct <> w_net (ws_cfg w) \/ req_acct w net acct <> w_account (ws_cfg w) ->
  lib_keys_for_path X derive w upath full lo acct ai chg wt net n = (w, None).
Proof.
  intros w upath full lo acct ai chg wt net n Hg [Hd Ha] Hn Hr. unfold lib_keys_for_path.
  destruct n as [|extra]; [contradiction|].
  destruct (kfp_witness_guard _ _ _ _ _); [reflexivity|].
  rewrite Hg, Ha. simpl.
  assert (D : (w_root_depth (ws_cfg w) =? 0) = false) by (apply Z.eqb_neq; exact Hd).
  rewrite D. simpl. unfold req_net, req_acct in Hr.
  destruct Hr as [Hr|Hr].
  - assert (E : String.eqb (fst (acct_defaults X w net acct)) (w_net (ws_cfg w)) = false)
      by (apply String.eqb_neq; exact Hr).
    rewrite E. reflexivity.
  - assert (E : (snd (acct_defaults X w net acct) =? w_account (ws_cfg w)) = false) by (apply Z.eqb_neq; exact Hr).
    rewrite E. simpl. rewrite orb_true_r. reflexivity.
Qed.

(* ------------------------------------------------------------------ the reach of a wallet, and the combined statement *)
(* BIP32: a key can only be derived from a key above it.  A private master (depth 0) is above every
   m/purpose'/coin'/account' branch; an account-level key is above its own change / index levels only. *)
Definition within_reach (c : wcfg) (wt : wtype) (net : string) (acct : Z) : Prop :=
  w_root_master c = true \/ (wt = w_wt c /\ net = w_net c /\ acct = w_account c).

Theorem request_outside_reach_refused_lemma : forall (w : wstate) upath full lo acct ai chg wt net n,
  w_guard_reach (ws_cfg w) = true -> account_level (ws_cfg w) -> n <> O ->
  ~ within_reach (ws_cfg w) (req_wt w wt) (req_net w net acct) (req_acct w net acct) ->
  lib_keys_for_path X derive w upath full lo acct ai chg wt net n = (w, None).
Proof.
  intros w upath full lo acct ai chg wt net n Hg Hl Hn Hr.
  assert (Hm : w_root_master (ws_cfg w) = false).
  { destruct (w_root_master (ws_cfg w)) eqn:E; [exfalso; apply Hr; left; exact E | reflexivity]. }
  destruct (wtype_eqb (req_wt w wt) (w_wt (ws_cfg w))) eqn:Ew.
  - apply wtype_eqb_eq in Ew.
    apply kfp_refuses_foreign_network_or_account; auto.
    destruct (String.eqb (req_net w net acct) (w_net (ws_cfg w))) eqn:En.
    + apply String.eqb_eq in En. right. intros Ea. apply Hr. right. auto.
    + left. apply String.eqb_neq. exact En.
  - apply kfp_refuses_foreign_witness_type; auto. intros E. rewrite E in Ew.
    assert (T : wtype_eqb (w_wt (ws_cfg w)) (w_wt (ws_cfg w)) = true) by (apply wtype_eqb_eq; reflexivity). congruence.
Qed.

End ReachProofs.
