(* Proofs/ServiceWrappers.v — where the value returned by a Service query wrapper comes from.
   Each theorem lists every possible origin of a normally returned value; the origins that are not "a provider's
   answer or its cached copy" are exactly the recorded finding classes (limit reached -> False / 0 / default). *)
From Coq Require Import ZArith List Bool Lia.
From Verif Require Import Gen.GenService Gen.GenConsts Gen.GenNetworks Model.CacheModel Model.Service
  Proofs.ServiceExec Proofs.ServiceCache.
Import ListNotations.
Open Scope Z_scope.

(* the error limit was reached before anybody answered: _provider_execute returned False *)
Definition limit_reached (st : settings) (ps : list provider) : Prop :=
  0 < eff_maxp st /\ limit_first (st_maxe st) 0 ps.

Ltac split_ifs H := repeat match type of H with context [if ?x then _ else _] => destruct x eqn:? end.

Lemma exec_cases st ps :
  forall r res errs, lib_provider_execute st ps = (r, res, errs) ->
  match r with
  | Value v => provider_answer ps v
  | RetFalse => limit_reached st ps
  | ServiceErr => True
  end.
Proof.
  intros r res errs H.
  assert (Hr : fst (fst (lib_provider_execute st ps)) = r) by (rewrite H; reflexivity).
  destruct r; [| | exact I].
  - apply exec_value_iff in Hr. destruct Hr as [_ Hr]. eapply answers_first_is_answer; exact Hr.
  - apply exec_false_iff in Hr. exact Hr.
Qed.

(* ---- sendrawtransaction / getrawblock / mempool / getinfo ---- *)
Theorem passthrough_origin st ps c s v c' s' :
  passthrough st ps c s = (WRet v, c', s') ->
  c' = c /\ (provider_answer ps v \/ (v = VBool false /\ limit_reached st ps)).
Proof.
  unfold passthrough. destruct (lib_provider_execute st ps) as [[r res] errs] eqn:E.
  pose proof (exec_cases _ _ _ _ _ E) as Hc.
  destruct r; simpl; intros H; inversion H; subst; split; auto.
Qed.

Theorem passthrough_error_iff st ps c s :
  fst (fst (passthrough st ps c s)) = WServiceErr <-> eff_maxp st <= 0 \/ nobody_answers (st_maxe st) 0 ps.
Proof.
  rewrite <- exec_err_iff. unfold passthrough.
  destruct (lib_provider_execute st ps) as [[r res] errs]; destruct r; simpl; split; intros H; try discriminate; reflexivity.
Qed.

(* ---- getrawtransaction ---- *)
Theorem getrawtransaction_origin st ps txid c s v c' s' :
  lib_getrawtransaction st ps txid c s = (WRet v, c', s') ->
  c' = c /\
  ((exists t, cache_gettx c txid = Some t /\ v = VRaw (t_content t)) \/
   provider_answer ps v \/ (v = VBool false /\ limit_reached st ps)).
Proof.
  unfold lib_getrawtransaction. destruct (cache_gettx c txid) as [t |] eqn:E.
  - intros H; inversion H; subst. split; auto. left; exists t; auto.
  - intros H. apply passthrough_origin in H. destruct H as [H1 H2]. split; auto.
Qed.

(* ---- gettransaction ---- *)
Theorem gettransaction_origin st ps txid c s v c' s' :
  lib_gettransaction st ps txid c s = (WRet v, c', s') ->
  (exists t, st_minp st <= 1 /\ cache_gettx c txid = Some t /\ v = VTx t /\ c' = c) \/
  (exists t, provider_answer ps (VTx t) /\ v = VTx (relabel t txid) /\
             c' = (if st_minp st <=? 1 then cache_store_tx c (relabel t txid) else c)) \/
  (provider_answer ps v /\ truthy v = false /\ c' = c) \/
  (v = VBool false /\ limit_reached st ps /\ c' = c).
Proof.
  unfold lib_gettransaction.
  destruct (if st_minp st <=? 1 then cache_gettx c txid else None) as [t |] eqn:Ec.
  - intros H; inversion H; subst. left. exists t.
    destruct (st_minp st <=? 1) eqn:Em; [| discriminate]. apply Z.leb_le in Em. auto.
  - destruct (lib_provider_execute st ps) as [[r res] errs] eqn:E.
    pose proof (exec_cases _ _ _ _ _ E) as Hc.
    destruct r as [w | |]; [| | discriminate].
    + destruct w; simpl;
        try (destruct ((st_minp st <=? 1) && c_on c); intros H; inversion H; subst; right; right; left; auto; fail);
        try (intros H; discriminate H).
      * (* VInt *) destruct (negb (z =? 0)) eqn:Ez; [intros H; discriminate |].
        destruct ((st_minp st <=? 1) && c_on c); intros H; inversion H; subst.
        right; right; left; simpl; auto.
      * (* VBool *) destruct b; [intros H; discriminate |].
        destruct ((st_minp st <=? 1) && c_on c); intros H; inversion H; subst.
        right; right; left; simpl; auto.
      * (* VTx *) intros H; inversion H; subst. right; left. exists t; auto.
      * (* VUtxos *) destruct vals; [| intros H; discriminate].
        destruct ((st_minp st <=? 1) && c_on c); intros H; inversion H; subst.
        right; right; left; simpl; auto.
      * (* VTxs *) destruct l; [| intros H; discriminate].
        destruct ((st_minp st <=? 1) && c_on c); intros H; inversion H; subst.
        right; right; left; simpl; auto.
      * (* VUtxoL *) destruct l; [| intros H; discriminate].
        destruct ((st_minp st <=? 1) && c_on c); intros H; inversion H; subst.
        right; right; left; simpl; auto.
    + intros H; inversion H; subst. right; right; right; auto.
Qed.

Lemma relabel_same t txid : t_txid t = txid -> relabel t txid = t.
Proof. intros H; destruct t; unfold relabel; simpl in *; subst; reflexivity. Qed.

(* an answer that carries the requested id comes back unchanged *)
Corollary gettransaction_exact st ps txid c s v c' s' :
  lib_gettransaction st ps txid c s = (WRet v, c', s') ->
  ~ limit_reached st ps ->
  (forall n t, In (n, Ok (VTx t)) ps -> t_txid t = txid) ->
  (exists t, cache_gettx c txid = Some t /\ v = VTx t) \/ provider_answer ps v.
Proof.
  intros H Hl Hid. apply gettransaction_origin in H.
  destruct H as [[t [_ [H1 [H2 _]]]] | [[t [[n H1] [H2 _]]] | [[H1 _] | [_ [H1 _]]]]].
  - left; exists t; auto.
  - right. rewrite (relabel_same t txid (Hid n t H1)) in H2. subst v. exists n; exact H1.
  - right; exact H1.
  - contradiction.
Qed.

(* what was fetched once is served from the cache afterwards, whatever the providers do then *)
Theorem gettransaction_then_cached st ps txid c s t c' s' :
  lib_gettransaction st ps txid c s = (WRet (VTx t), c', s') ->
  st_minp st <= 1 -> c_on c = true -> t_confirmed t = true ->
  forall ps2 s2, lib_gettransaction st ps2 txid c' s2 = (WRet (VTx t), c', s2).
Proof.
  intros H Hm Hon Hc ps2 s2.
  assert (Em : (st_minp st <=? 1) = true) by (apply Z.leb_le; exact Hm).
  assert (Hget : cache_gettx c' txid = Some t).
  { unfold lib_gettransaction in H. rewrite Em in H.
    destruct (cache_gettx c txid) as [t0 |] eqn:Ec.
    - inversion H; subst. exact Ec.
    - destruct (lib_provider_execute st ps) as [[r res] errs]. destruct r as [w | |]; [| discriminate | discriminate].
      destruct w; simpl in H; try (split_ifs H; discriminate H).
      inversion H; subst.
      assert (Hid : t_txid (relabel t0 txid) = txid) by reflexivity.
      pose proof (tx_get_after_store c (relabel t0 txid) Hon Hc) as G.
      rewrite Hid in G. rewrite Ec in G. exact G. }
  unfold lib_gettransaction. rewrite Em, Hget. reflexivity.
Qed.

(* ---- getutxos: never fabricates (a False from _provider_execute is turned into ServiceError) ---- *)
Theorem getutxos_origin st ps addr c s v c' s' :
  lib_getutxos st ps addr c s = (WRet v, c', s') -> provider_answer ps v /\ exists vals, v = VUtxos vals.
Proof.
  unfold lib_getutxos. destruct (lib_provider_execute st ps) as [[r res] errs] eqn:E.
  pose proof (exec_cases _ _ _ _ _ E) as Hc.
  destruct r as [w | |]; [| destruct svc_getutxos_raises_on_false; discriminate | discriminate].
  destruct w; try discriminate.
  destruct (truthy (VUtxos vals) && (cfg_MAX_TRANSACTIONS <=? Z.of_nat (length vals)));
    intros H; inversion H; subst; split; auto; exists vals; reflexivity.
Qed.

(* ---- getbalance, address without a synchronised cache entry ---- *)
Definition never_synced (c : cache) (addr : Z) : Prop :=
  match cache_getaddr c addr with Some r => nz (a_last_block r) = None | None => True end.

Theorem getbalance_origin rf st now bc_ps ps ps0 addr c s v c' s' :
  never_synced c addr ->
  lib_getbalance_gen rf st now bc_ps ps ps0 addr c s = (WRet v, c', s') ->
  (exists b, provider_answer ps b /\
     ((exists z, b = VInt z /\ v = VInt z /\ c' = cache_store_address c addr None (Some z) None) \/
      (forall z, b <> VInt z) /\ exists z, v = VInt z)) \/
  (rf = false /\ limit_reached st ps /\ v = VInt 0 /\ c' = cache_store_address c addr None (Some 0) None).
Proof.
  unfold never_synced, lib_getbalance_gen. intros Hns.
  assert (Hun : forall c0 s0 (E0 : c0 = c),
    (let '(r, res, errs) := lib_provider_execute st ps in
     let s1 := set_exec s0 res errs in
     match r with
     | ServiceErr => (WServiceErr, c0, s1)
     | _ =>
       if (match r with RetFalse => rf | _ => false end) then (WServiceErr, c0, s1)
       else
         let b := ret_value r in
         let tot := if truthy b then as_num b else Some 0 in
         match tot with
         | None => (WOtherErr, c0, s1)
         | Some tot =>
           let c1 := match balance_to_store b with
                     | Some bal => cache_store_address c0 addr None bal None
                     | None => c0
                     end in
           (WRet (VInt tot), c1, s1)
         end
     end) = (WRet v, c', s') ->
    (exists b, provider_answer ps b /\
       ((exists z, b = VInt z /\ v = VInt z /\ c' = cache_store_address c addr None (Some z) None) \/
        (forall z, b <> VInt z) /\ exists z, v = VInt z)) \/
    (rf = false /\ limit_reached st ps /\ v = VInt 0 /\ c' = cache_store_address c addr None (Some 0) None)).
  { intros c0 s0 E0; subst c0.
    destruct (lib_provider_execute st ps) as [[r res] errs] eqn:E.
    pose proof (exec_cases _ _ _ _ _ E) as Hc.
    destruct r as [w | |]; [| | discriminate].
    - simpl. destruct w; simpl;
        try (intros H; inversion H; subst; left; eexists; split; [exact Hc |]; right; split;
             [intros z0; discriminate | eexists; reflexivity]; fail);
        try (intros H; discriminate H).
      + destruct (negb (z =? 0)) eqn:Ez; simpl; intros H; inversion H; subst.
        * left; eexists; split; [exact Hc |]. left; exists z; auto.
        * apply negb_false_iff in Ez. apply Z.eqb_eq in Ez. subst z.
          left; eexists; split; [exact Hc |]. left; exists 0; auto.
      + destruct b; simpl; intros H; inversion H; subst;
          left; eexists; split; try exact Hc; right; split; try (intros z0; discriminate); eexists; reflexivity.
      + destruct vals; simpl; intros H; try discriminate H; inversion H; subst.
        left; eexists; split; [exact Hc |]. right; split; [intros z0; discriminate | eexists; reflexivity].
      + destruct l; simpl; intros H; try discriminate H; inversion H; subst.
        left; eexists; split; [exact Hc |]. right; split; [intros z0; discriminate | eexists; reflexivity].
      + destruct l; simpl; intros H; try discriminate H; inversion H; subst.
        left; eexists; split; [exact Hc |]. right; split; [intros z0; discriminate | eexists; reflexivity].
    - destruct rf; simpl; [discriminate |]. intros H; inversion H; subst. right; auto. }
  destruct (cache_getaddr c addr) as [r0 |].
  - rewrite Hns. apply (Hun c s eq_refl).
  - apply (Hun c s eq_refl).
Qed.

(* with the `balance is False` test in place the wrapper cannot fabricate at the limit *)
Corollary getbalance_repaired_no_zero st now bc_ps ps ps0 addr c s v c' s' :
  never_synced c addr ->
  lib_getbalance_gen true st now bc_ps ps ps0 addr c s = (WRet v, c', s') ->
  exists b, provider_answer ps b /\ ((exists z, b = VInt z /\ v = VInt z) \/ (forall z, b <> VInt z)).
Proof.
  intros Hns H. apply getbalance_origin in H; [| exact Hns].
  destruct H as [[b [Hb [[z [H1 [H2 _]]] | [H1 _]]]] | [H _]]; [| | discriminate].
  - exists b; split; auto. left; exists z; auto.
  - exists b; split; auto.
Qed.

(* ---- estimatefee ---- *)
Lemma clamp_fee_id nw f : nw_fee_min nw <= f <= nw_fee_max nw -> clamp_fee nw f = f.
Proof.
  intros [H1 H2]. unfold clamp_fee.
  destruct (f <? nw_fee_min nw) eqn:E1; [apply Z.ltb_lt in E1; lia |].
  destruct (nw_fee_max nw <? f) eqn:E2; [apply Z.ltb_lt in E2; lia | reflexivity].
Qed.

Theorem estimatefee_origin st now ps blocks c s v c' s' :
  lib_estimatefee st now ps blocks c s = (WRet v, c', s') ->
  (exists f, st_minp st <= 1 /\ cache_estimatefee c now blocks = Some f /\ v = VInt f /\ c' = c) \/
  (exists b f, provider_answer ps b /\ truthy b = true /\ as_num b = Some f /\
               v = VInt (clamp_fee (st_net st) f) /\ c' = cache_store_fee c now blocks (clamp_fee (st_net st) f)) \/
  (exists d, nw_fee_default (st_net st) = Some d /\ v = VInt (clamp_fee (st_net st) d) /\
             c' = cache_store_fee c now blocks (clamp_fee (st_net st) d) /\
             (limit_reached st ps \/ exists b, provider_answer ps b /\ truthy b = false)).
Proof.
  unfold lib_estimatefee.
  destruct (if st_minp st <=? 1 then nz (cache_estimatefee c now blocks) else None) as [f |] eqn:Ec.
  - intros H. destruct (st_minp st <=? 1) eqn:Em; [| discriminate]. apply Z.leb_le in Em.
    unfold nz in Ec. destruct (cache_estimatefee c now blocks) as [f0 |] eqn:Ef; [| discriminate].
    destruct (f0 =? 0); [discriminate |]. inversion Ec; subst f0. inversion H. left. exists f.
    repeat split; congruence.
  - destruct (lib_provider_execute st ps) as [[r res] errs] eqn:E.
    pose proof (exec_cases _ _ _ _ _ E) as Hc.
    assert (Hd : forall d, nz (nw_fee_default (st_net st)) = Some d -> nw_fee_default (st_net st) = Some d).
    { intros d. unfold nz. destruct (nw_fee_default (st_net st)) as [d0 |]; [| discriminate].
      destruct (d0 =? 0); [discriminate | auto]. }
    destruct r as [w | |]; [| | discriminate].
    + simpl. destruct (truthy w) eqn:Et.
      * destruct (as_num w) as [f |] eqn:Ea; [| discriminate].
        intros H; inversion H; subst. right; left. exists w, f; auto.
      * destruct (nz (nw_fee_default (st_net st))) as [d |] eqn:Ed; [| discriminate].
        simpl. intros H; inversion H; subst. right; right. exists d. repeat split; auto.
        right; exists w; auto.
    + simpl. destruct (nz (nw_fee_default (st_net st))) as [d |] eqn:Ed; [| discriminate].
      simpl. intros H; inversion H; subst. right; right. exists d. repeat split; auto.
Qed.

(* a provider fee inside the network bounds comes back unchanged, and is then served from the cache for the ttl *)
Corollary estimatefee_exact st now ps blocks c s v c' s' :
  lib_estimatefee st now ps blocks c s = (WRet v, c', s') ->
  ~ limit_reached st ps ->
  (forall n b, In (n, Ok b) ps -> exists f, b = VInt f /\ nw_fee_min (st_net st) <= f <= nw_fee_max (st_net st) /\ f <> 0) ->
  (exists f, cache_estimatefee c now blocks = Some f /\ v = VInt f) \/ provider_answer ps v.
Proof.
  intros H Hl Hw. apply estimatefee_origin in H.
  destruct H as [[f [_ [H1 [H2 _]]]] | [[b [f [[n Hb] [_ [Ha [Hv _]]]]]] | [d [_ [_ [_ [Hx | [b [[n Hb] Ht]]]]]]]]].
  - left; exists f; auto.
  - right. destruct (Hw n b Hb) as [f0 [E [Hr _]]]. subst b. simpl in Ha. inversion Ha; subst f0.
    rewrite clamp_fee_id in Hv by exact Hr. subst v. exists n; exact Hb.
  - contradiction.
  - destruct (Hw n b Hb) as [f0 [E [_ Hz]]]. subst b. simpl in Ht. apply negb_false_iff in Ht. apply Z.eqb_eq in Ht. contradiction.
Qed.

Theorem estimatefee_then_cached st now ps blocks c s f c' s' :
  lib_estimatefee st now ps blocks c s = (WRet (VInt f), c', s') ->
  st_minp st <= 1 -> c_on c = true -> f <> 0 ->
  forall now2 ps2 s2, now <= now2 < now + svc_fee_ttl ->
    cache_estimatefee c now blocks = None ->
    lib_estimatefee st now2 ps2 blocks c' s2 = (WRet (VInt f), c', s2).
Proof.
  intros H Hm Hon Hf now2 ps2 s2 Hn Hmiss.
  assert (Em : (st_minp st <=? 1) = true) by (apply Z.leb_le; exact Hm).
  apply estimatefee_origin in H.
  assert (Hc' : c' = cache_store_fee c now blocks f).
  { destruct H as [[f0 [_ [H1 _]]] | [[b [f0 [_ [_ [_ [Hv Hc]]]]]] | [d [_ [Hv [Hc _]]]]]].
    - rewrite Hmiss in H1; discriminate.
    - inversion Hv; subst; reflexivity.
    - inversion Hv; subst; reflexivity. }
  subst c'. unfold lib_estimatefee. rewrite Em.
  rewrite fee_get_after_store by (auto; lia). unfold nz.
  destruct (f =? 0) eqn:Ez; [apply Z.eqb_eq in Ez; contradiction | reflexivity].
Qed.

(* ---- isspent ---- *)
Theorem isspent_origin st ps txid c s v c' s' :
  lib_isspent st ps txid c s = (WRet v, c', s') ->
  c' = c /\
  ((exists t b, cache_gettx c txid = Some t /\ t_spent t = Some b /\ v = VBool b) \/
   (exists a, provider_answer ps a /\ v = VBool (truthy a)) \/
   (v = VBool false /\ limit_reached st ps)).
Proof.
  unfold lib_isspent.
  destruct (match cache_gettx c txid with Some t => t_spent t | None => None end) as [b |] eqn:Ec.
  - intros H. destruct (cache_gettx c txid) as [t |] eqn:Eg; [| discriminate].
    inversion H. split; [reflexivity |]. left. exists t, b. subst. auto.
  - destruct (lib_provider_execute st ps) as [[r res] errs] eqn:E.
    pose proof (exec_cases _ _ _ _ _ E) as Hc.
    destruct r as [w | |]; [| | discriminate]; simpl; intros H; inversion H; split; auto.
    right; left; exists w; auto.
Qed.

(* ---- blockcount: a fresh cached count is returned as it is ---- *)
Theorem blockcount_cached st now ps c s b :
  cache_blockcount c now = Some b -> b <> 0 ->
  lib_blockcount st now ps c s = (WRet (VInt b), c, set_bc s (VInt b) (s_upd s)).
Proof.
  intros H Hb. unfold lib_blockcount. rewrite H. unfold nz.
  destruct (b =? 0) eqn:E; [apply Z.eqb_eq in E; contradiction | reflexivity].
Qed.
