(* Proofs/TxCreateFloat.v — sign facts about the binary64-on-rationals model and the size estimate. *)
From Coq Require Import ZArith List Bool Lia.
From Coq.Strings Require Import Byte.
From Verif Require Import Lib.Bytes Gen.GenNetworks Model.CoinSelect Model.TxCreate.
Import ListNotations.
Open Scope Z_scope.
Unset Lia Cache.
Unset Nia Cache.

Definition qge0 (x : q) : Prop := 0 <= fst x /\ 0 < snd x.
Definition qle0 (x : q) : Prop := fst x <= 0 /\ 0 < snd x.

Lemma pow2_pos e : 0 <= e -> 0 < 2 ^ e.
Proof. intros H. apply Z.pow_pos_nonneg; lia. Qed.

Lemma fl_scale_sign n d e : 0 < n -> 0 < d -> 0 <= fst (fl_scale n d e) /\ 0 < snd (fl_scale n d e).
Proof.
  intros Hn Hd. unfold fl_scale. destruct (0 <=? e) eqn:E; simpl.
  - apply Z.leb_le in E. split; [lia|]. apply Z.mul_pos_pos; [lia | apply pow2_pos; lia].
  - apply Z.leb_gt in E. split; [|lia]. apply Z.mul_nonneg_nonneg; [lia|]. apply Z.lt_le_incl, pow2_pos. lia.
Qed.

Lemma fl_round_nonneg n1 d1 : 0 <= n1 -> 0 < d1 -> 0 <= fl_round n1 d1.
Proof.
  intros Hn Hd. unfold fl_round.
  assert (Hq : 0 <= n1 / d1) by (apply Z.div_pos; lia).
  destruct (2 * (n1 mod d1) <? d1); [lia|]. destruct (d1 <? 2 * (n1 mod d1)); [lia|].
  destruct (Z.even (n1 / d1)); lia.
Qed.

Lemma fl_pos_ge0 n d : 0 < n -> 0 < d -> qge0 (fl_pos n d).
Proof.
  intros Hn Hd. unfold fl_pos.
  set (e := fl_exp n d). clearbody e.
  destruct (fl_scale_sign n d e Hn Hd) as [A B].
  pose proof (fl_round_nonneg _ _ A B) as Hm.
  set (m := fl_round (fst (fl_scale n d e)) (snd (fl_scale n d e))) in *. clearbody m.
  destruct (0 <=? e) eqn:E; unfold qge0; simpl.
  - apply Z.leb_le in E. split; [|lia]. apply Z.mul_nonneg_nonneg; [lia|]. apply Z.lt_le_incl, pow2_pos. lia.
  - apply Z.leb_gt in E. split; [lia|]. apply pow2_pos. lia.
Qed.

Lemma fl_ge0 x : 0 <= fst x -> qge0 (fl x).
Proof.
  destruct x as [n d]. simpl. intros Hn. unfold fl.
  destruct (d <=? 0) eqn:Ed; [split; simpl; lia|]. apply Z.leb_gt in Ed.
  destruct (n =? 0) eqn:En; [split; simpl; lia|]. apply Z.eqb_neq in En.
  destruct (0 <? n) eqn:Ep.
  - apply fl_pos_ge0; lia.
  - apply Z.ltb_ge in Ep. lia.
Qed.

Lemma fl_le0 x : fst x <= 0 -> qle0 (fl x).
Proof.
  destruct x as [n d]. simpl. intros Hn. unfold fl.
  destruct (d <=? 0) eqn:Ed; [split; simpl; lia|]. apply Z.leb_gt in Ed.
  destruct (n =? 0) eqn:En; [split; simpl; lia|]. apply Z.eqb_neq in En.
  destruct (0 <? n) eqn:Ep.
  - apply Z.ltb_lt in Ep. lia.
  - pose proof (fl_pos_ge0 (- n) d) as H. destruct (fl_pos (- n) d) as [a b].
    destruct H as [Ha Hb]; [lia | lia |]. simpl in *. split; simpl; lia.
Qed.

Global Opaque fl.

Lemma f_int_ge0 z : 0 <= z -> qge0 (f_int z).
Proof. intros H. apply fl_ge0. exact H. Qed.

Lemma f_int_le0 z : z <= 0 -> qle0 (f_int z).
Proof. intros H. apply fl_le0. exact H. Qed.

Lemma qtrunc_ge0 x : qge0 x -> 0 <= qtrunc x.
Proof. intros [A B]. unfold qtrunc. apply Z.quot_pos; lia. Qed.

Lemma qtrunc_le0 x : qle0 x -> qtrunc x <= 0.
Proof.
  intros [A B]. unfold qtrunc.
  replace (fst x) with (- (- fst x)) by lia. rewrite Z.quot_opp_l by lia.
  assert (0 <= Z.quot (- fst x) (snd x)) by (apply Z.quot_pos; lia). lia.
Qed.

Lemma qdiv_int_ge0 a k : qge0 a -> 0 < k -> 0 <= fst (qdiv a (qint k)).
Proof.
  intros [A B] Hk. unfold qdiv, qint. cbn [fst snd].
  destruct (0 <? k) eqn:E; [|apply Z.ltb_ge in E; lia]. cbn [fst snd]. lia.
Qed.

Lemma qmul_ge0 a b : qge0 a -> qge0 b -> 0 <= fst (qmul a b).
Proof. intros [A _] [B _]. unfold qmul. cbn [fst snd]. apply Z.mul_nonneg_nonneg; assumption. Qed.

Lemma fee_of_nonneg size fpk : 0 <= size -> 0 <= fpk -> 0 <= fee_of size fpk.
Proof.
  intros Hs Hf. unfold fee_of. apply qtrunc_ge0. unfold fmul. apply fl_ge0.
  apply qmul_ge0; [|apply f_int_ge0; exact Hf].
  unfold fdiv. apply fl_ge0. apply qdiv_int_ge0; [apply f_int_ge0; exact Hs | lia].
Qed.

Lemma fee_per_output_nonneg fpk : 0 <= fpk -> 0 <= fee_per_output_of fpk.
Proof.
  intros Hf. unfold fee_per_output_of. apply qtrunc_ge0. unfold fmul. apply fl_ge0.
  apply qmul_ge0; [|apply f_int_ge0; exact Hf].
  unfold fdiv. apply fl_ge0. apply qdiv_int_ge0; [apply f_int_ge0; lia | lia].
Qed.

(* a positive fee rate can only come from a positive fee (for a non-negative size) *)
Lemma rate_of_nonpos fee vsize : fee <= 0 -> 0 <= vsize -> rate_of fee vsize <= 0.
Proof.
  intros Hf Hv. unfold rate_of.
  assert (A : qle0 (fmul (f_int fee) (qint 1000))).
  { unfold fmul. apply fl_le0. unfold qmul, qint. cbn [fst snd]. destruct (f_int_le0 fee Hf) as [C _]. lia. }
  destruct A as [A1 A2]. destruct (f_int_ge0 vsize Hv) as [B1 B2].
  unfold fdiv, qdiv. destruct (0 <? fst (f_int vsize)) eqn:E.
  - apply Z.ltb_lt in E. apply qtrunc_le0. apply fl_le0. cbn [fst snd]. apply Z.mul_nonpos_nonneg; lia.
  - apply Z.ltb_ge in E. assert (Z0 : fst (f_int vsize) = 0) by lia. rewrite Z0.
    (* division by a zero size: the denominator handed to [fl] is 0 and [fl] answers 0 *)
    rewrite Z.mul_0_r. change (- 0) with 0.
    Transparent fl. unfold fl. Opaque fl.
    cbn [fst snd]. change (0 <=? 0) with true. cbn. unfold qtrunc. cbn. lia.
Qed.

(* ---- the size estimate is non-negative *)
Definition wk_wf (w : wkind) : Prop := 0 <= wk_nkeys w /\ 0 <= wk_nreq w.

Lemma varstr_len_nonneg s : 0 <= varstr_len s.
Proof.
  unfold varstr_len. destruct (bytes_eqb s [x00]); [lia|].
  set (n := Z.of_nat (length s)). assert (0 <= n) by apply Nat2Z.is_nonneg.
  destruct (n <? 253); [lia|]. destruct (n <=? 65535); [lia|]. destruct (n <=? 4294967295); lia.
Qed.

Lemma outs_size_nonneg l : 0 <= outs_size l.
Proof.
  induction l as [|s l IH]; [cbn; lia|].
  change (outs_size (s :: l)) with (8 + varstr_len s + outs_size l).
  pose proof (varstr_len_nonneg s). lia.
Qed.

Lemma scr_size_nonneg w : wk_wf w -> 0 <= scr_size w.
Proof.
  intros [A B]. unfold scr_size. destruct (wk_multisig w); destruct (is_p2sh_segwit w); lia.
Qed.

Lemma change_out_size_pos w n : 0 < change_out_size w n.
Proof.
  unfold change_out_size.
  destruct ((n =? 0) || is_legacy w); destruct (negb (n =? 0) && wk_multisig w); destruct (is_p2sh_segwit w); lia.
Qed.

Lemma estimate_size_nonneg w n_in scripts k :
  wk_wf w -> 0 <= n_in -> 0 <= k -> 0 <= estimate_size w n_in scripts k.
Proof.
  intros Hw Hn Hk. unfold estimate_size.
  pose proof (scr_size_nonneg w Hw) as Hs. pose proof (outs_size_nonneg scripts) as Ho.
  pose proof (change_out_size_pos w n_in) as Hc.
  set (ss := scr_size w) in *. set (os := outs_size scripts) in *. set (co := change_out_size w n_in) in *.
  assert (Hkc : 0 <= (if k =? 0 then 0 else k * co)).
  { destruct (k =? 0); [lia|]. apply Z.mul_nonneg_nonneg; lia. }
  set (kc := if k =? 0 then 0 else k * co) in *.
  assert (Hp : 0 <= n_in * ss) by (apply Z.mul_nonneg_nonneg; lia).
  destruct (is_legacy w) eqn:L; cbn [negb]; destruct (n_in =? 0) eqn:En.
  - lia.
  - rewrite Z.mul_add_distr_l. lia.
  - set (X := (12 + 2 + 125 + os + kc - (2 + 72)) * 3 + (12 + 2 + 125 + os + kc)).
    assert (30 <= X) by (unfold X; lia).
    assert ((6 - X) / 4 <= 0) by (apply Z.div_le_upper_bound; lia). lia.
  - set (X := (12 + 2 + n_in * (40 + 1 + ss) + os + kc - (2 + n_in * ss)) * 3 + (12 + 2 + n_in * (40 + 1 + ss) + os + kc)).
    assert (30 <= X).
    { unfold X. rewrite Z.mul_add_distr_l. lia. }
    assert ((6 - X) / 4 <= 0) by (apply Z.div_le_upper_bound; lia). lia.
Qed.
