(* Proofs/WalletKeys.v — C09: path tables against the BIP layouts, injectivity of documented paths,
   library child derivation against BIP32. *)
From Coq Require Import ZArith Bool String List Lia.
From Coq.Strings Require Import Byte Ascii.
From Verif Require Import Lib.Bytes Crypto.Secp256k1 Gen.GenNetworks Gen.GenWalletCfg Model.WalletKeys.
Import ListNotations.
Open Scope Z_scope.

(* ------------------------------------------------------------------ the regenerated table, entry by entry *)
Lemma path_is_documented_lemma : forall wt ms tpl purpose enc coin acct chg idx cos,
  lib_key_structure wt ms = Some (tpl, purpose, enc) ->
  purpose = spec_purpose wt ms /\
  lib_path_expand [] false tpl None
    {| pv_purpose := purpose; pv_coin := coin; pv_account := acct; pv_script := script_type_id wt;
       pv_cosigner := cos; pv_change := chg; pv_index := idx |}
  = Some (spec_path wt ms coin acct chg idx cos).
Proof.
  intros wt ms tpl purpose enc coin acct chg idx cos H.
  destruct wt, ms; vm_compute in H; inversion H; subst; split; reflexivity.
Qed.

(* every (witness type, multisig) combination has exactly one structure *)
Lemma key_structure_total : forall wt ms, exists tpl purpose enc, lib_key_structure wt ms = Some (tpl, purpose, enc).
Proof. intros wt ms. destruct wt, ms; vm_compute; eauto. Qed.

(* the encodings of the table are the ones the address standards prescribe *)
Lemma key_structure_encoding : forall wt ms tpl purpose enc,
  lib_key_structure wt ms = Some (tpl, purpose, enc) ->
  enc = match wt with Segwit => "bech32"%string | _ => "base58"%string end.
Proof. intros wt ms tpl purpose enc H. destruct wt, ms; vm_compute in H; inversion H; reflexivity. Qed.

(* the account-level wallet template: M / change / address_index *)
Lemma path_rel_documented : forall wt tpl purpose enc v,
  lib_key_structure wt false = Some (tpl, purpose, enc) ->
  lib_path_expand [] false ("M"%string :: skipn 4 tpl) None v = Some (spec_path_rel (pv_change v) (pv_index v)).
Proof.
  intros wt tpl purpose enc v H.
  destruct wt; vm_compute in H; inversion H; subst; reflexivity.
Qed.

(* the public-master level: level_offset -2 cuts change / address_index *)
Lemma path_account_documented : forall wt tpl purpose enc coin acct chg idx cos,
  lib_key_structure wt false = Some (tpl, purpose, enc) ->
  lib_path_expand [] false tpl (Some (-2))
    {| pv_purpose := purpose; pv_coin := coin; pv_account := acct; pv_script := script_type_id wt;
       pv_cosigner := cos; pv_change := chg; pv_index := idx |}
  = Some (account_path wt coin acct).
Proof.
  intros wt tpl purpose enc coin acct chg idx cos H.
  destruct wt; vm_compute in H; inversion H; subst; reflexivity.
Qed.

(* ------------------------------------------------------------------ documented paths are injective *)
Lemma spec_path_injective : forall wt ms coin a c i cos wt' ms' coin' a' c' i' cos',
  spec_path wt ms coin a c i cos = spec_path wt' ms' coin' a' c' i' cos' ->
  wt = wt' /\ ms = ms' /\ c = c' /\ i = i' /\
  ((ms = false \/ wt <> Legacy) -> coin = coin' /\ a = a') /\
  (ms = true -> wt = Legacy -> cos = cos').
Proof.
  intros wt ms coin a c i cos wt' ms' coin' a' c' i' cos' H.
  destruct wt, ms, wt', ms'; simpl in H; inversion H; subst;
    repeat split; auto; try congruence; intros; try intuition congruence.
Qed.

Lemma spec_path_rel_injective : forall c i c' i', spec_path_rel c i = spec_path_rel c' i' -> c = c' /\ i = i'.
Proof. intros c i c' i' H. inversion H. auto. Qed.

(* the same statement for what the library computes from its tables *)
Lemma lib_paths_injective : forall wt ms tpl purpose enc wt' ms' tpl' purpose' enc'
                                   coin a c i cos coin' a' c' i' cos' p,
  lib_key_structure wt ms = Some (tpl, purpose, enc) ->
  lib_key_structure wt' ms' = Some (tpl', purpose', enc') ->
  lib_path_expand [] false tpl None
    {| pv_purpose := purpose; pv_coin := coin; pv_account := a; pv_script := script_type_id wt;
       pv_cosigner := cos; pv_change := c; pv_index := i |} = Some p ->
  lib_path_expand [] false tpl' None
    {| pv_purpose := purpose'; pv_coin := coin'; pv_account := a'; pv_script := script_type_id wt';
       pv_cosigner := cos'; pv_change := c'; pv_index := i' |} = Some p ->
  wt = wt' /\ ms = ms' /\ c = c' /\ i = i' /\
  ((ms = false \/ wt <> Legacy) -> coin = coin' /\ a = a') /\
  (ms = true -> wt = Legacy -> cos = cos').
Proof.
  intros wt ms tpl purpose enc wt' ms' tpl' purpose' enc' coin a c i cos coin' a' c' i' cos' p H1 H2 E1 E2.
  destruct (path_is_documented_lemma _ _ _ _ _ coin a c i cos H1) as [_ D1].
  destruct (path_is_documented_lemma _ _ _ _ _ coin' a' c' i' cos' H2) as [_ D2].
  rewrite D1 in E1. rewrite D2 in E2.
  apply spec_path_injective. congruence.
Qed.

(* ------------------------------------------------------------------ library child derivation is BIP32 *)
Lemma lor_H31 : forall i, 0 <= i < H31 -> Z.lor i H31 = i + H31.
Proof.
  intros i Hi.
  assert (L : Z.land i H31 = 0).
  2: { rewrite <- (Z.lxor_lor _ _ L). symmetry. apply Z.add_nocarry_lxor. exact L. }
  apply Z.bits_inj'. intros n Hn. rewrite Z.land_spec, Z.bits_0.
  change H31 with (2 ^ 31). rewrite Z.pow2_bits_eqb by lia.
  destruct (Z.eqb_spec 31 n) as [E|E].
  - subst n. rewrite andb_true_r. apply Z.testbit_false; [lia|].
    rewrite Z.div_small by (change (2 ^ 31) with H31; lia). reflexivity.
  - apply andb_false_r.
Qed.

Lemma lib_hardened_small : forall e, 0 <= fst e < H31 -> lib_hardened e = snd e.
Proof.
  intros e He. unfold lib_hardened. destruct (H31 <=? fst e) eqn:E; [apply Z.leb_le in E; lia|].
  apply orb_false_r.
Qed.

Lemma lib_child_private_is_spec : forall x e,
  0 <= fst e < H31 -> lib_child_private x e = spec_ckd_priv x e.
Proof.
  intros x e He. unfold lib_child_private, spec_ckd_priv, lib_child_number.
  rewrite (lib_hardened_small e He).
  destruct (H31 <=? fst e) eqn:E; [apply Z.leb_le in E; lia|]. rewrite andb_false_r.
  destruct (snd e); [rewrite lor_H31 by exact He|]; reflexivity.
Qed.

Lemma lib_child_public_is_spec : forall x e,
  0 <= fst e < H31 -> lib_child_public x e = spec_ckd_pub x e.
Proof.
  intros x e He. unfold lib_child_public, spec_ckd_pub.
  destruct (H31 <=? fst e) eqn:E; [apply Z.leb_le in E; lia|]. rewrite orb_false_r. reflexivity.
Qed.

(* a path of the library below a private key, all indices below 2^31: subkey derivation is spec_derive *)
Definition path_ok (p : list pelem) : Prop := Forall (fun e => 0 <= fst e < H31) p.

Lemma spec_ckd_priv_private : forall x e y, spec_ckd_priv x e = Some y -> x_priv y <> None.
Proof.
  intros x e y H. unfold spec_ckd_priv in H.
  destruct (x_priv x); [|discriminate].
  repeat match type of H with (if ?c then _ else _) = _ => destruct c end; try discriminate.
  inversion H. simpl. discriminate.
Qed.

Lemma lib_derive_private_is_spec : forall p x,
  path_ok p -> x_priv x <> None -> derive_with lib_subkey x p = spec_derive x p.
Proof.
  induction p as [|e r IH]; intros x Hp Hx; [reflexivity|].
  inversion Hp as [|? ? He Hr]; subst.
  unfold spec_derive in *. simpl.
  assert (L : lib_subkey x e = spec_ckd_priv x e).
  { unfold lib_subkey. destruct (x_priv x) eqn:E; [|congruence]. apply lib_child_private_is_spec; exact He. }
  rewrite L. destruct (spec_ckd_priv x e) as [y|] eqn:E; [|reflexivity].
  apply IH; [exact Hr | eapply spec_ckd_priv_private; eauto].
Qed.

Lemma spec_ckd_pub_public : forall x e y, spec_ckd_pub x e = Some y -> x_priv y = None.
Proof.
  intros x e y H. unfold spec_ckd_pub in H.
  destruct (snd e); [discriminate|].
  destruct (secp_n <=? _); [discriminate|].
  destruct (pt_add _ _); [|discriminate]. inversion H. reflexivity.
Qed.

Lemma lib_derive_public_is_spec : forall p x,
  path_ok p -> x_priv x = None ->
  derive_with lib_subkey x p = spec_derive_pub x p.
Proof.
  induction p as [|e r IH]; intros x Hp Hx; [reflexivity|].
  inversion Hp as [|? ? He Hr]; subst.
  unfold spec_derive_pub in *. simpl.
  assert (L : lib_subkey x e = spec_ckd_pub x e).
  { unfold lib_subkey. rewrite Hx. apply lib_child_public_is_spec; assumption. }
  rewrite L. destruct (spec_ckd_pub x e) as [y|] eqn:E; [|reflexivity].
  apply IH; [exact Hr | eapply spec_ckd_pub_public; eauto].
Qed.
