(* Proofs/SignPlaceTx.v — sign_then_verify lifted to whole transactions: histories of Transaction.sign (all inputs
   or one target input; a call that raises at input j leaves the inputs before j signed) and Transaction.verify
   (stops at the first failing input, re-tags the signatures of the inputs it visits), run through lib_sign_tx /
   lib_tx_verify_run — the functions the correspondence driver runs (run_op, cases OSign / OVerify). *)
From Coq Require Import List Bool Arith ZArith Lia.
From Verif Require Import Model.VerifyInput Model.SignPlace Model.SignSeq Proofs.VerifyInput Proofs.SignPlace
  Proofs.SignPlaceSeq.
Import ListNotations.

Section TxSeqProofs.
  Context {B : Type}.
  Variable svi : nat -> B -> Z -> bool.
  Variable mki : nat -> Z -> B.

  Notation keys_of := (map (@si_keys B)).
  Definition keys_nodup (sh : list (@sinput B)) : Prop := Forall (fun s => NoDup (si_keys s)) sh.

  Lemma same_shape_refl (s : @sinput B) : same_shape s s.
  Proof. repeat split. Qed.

  Lemma same_shape_with_sigs (s x : @sinput B) l : same_shape s x -> same_shape s (with_sigs x l).
  Proof. intros H. exact H. Qed.

  Lemma same_shape_set_valid (s x : @sinput B) v : same_shape s x -> same_shape s (set_valid v x).
  Proof. intros H. exact H. Qed.

  (* ---------- Transaction.sign over all inputs ---------- *)
  Lemma sign_tx_from_inv : forall i sh accs ins,
    tx_signed_by mki i sh accs ins -> keys_nodup sh ->
    forall r f signers, tx_resign_free_from (keys_of sh) accs r f signers = true ->
    tx_signed_by mki i sh (spec_sign_from (keys_of sh) accs f signers)
                 (fst (lib_sign_tx_from mki i ins r f signers)).
  Proof.
    induction 1 as [i|i s sh acc accs x ins Hsh Hsig Htail IH]; intros Hnd r f signers Hg.
    - simpl. constructor.
    - inversion Hnd as [|? ? Hnd1 Hnd2]; subst.
      rewrite map_cons in *. cbn [tx_resign_free_from] in Hg. apply andb_prop in Hg. destruct Hg as (Hg1 & Hg2).
      cbn [spec_sign_from lib_sign_tx_from].
      destruct Hsh as (Hs1 & Hs2 & Hs3 & Hs4 & Hs5).
      rewrite Hs2, Hsig.
      destruct (sign_input_cases (mki i) (si_keys s) acc r f signers Hnd1 Hg1) as [(E & Es)|(Er & E)]; rewrite E.
      + destruct (call_raises (si_keys s) f signers) eqn:Er.
        * simpl. constructor; [repeat split; assumption|exact Hsig|exact Htail].
        * simpl in Hg2. specialize (IH Hnd2 r f signers Hg2).
          destruct (lib_sign_tx_from mki (S i) ins r f signers) as [r' c]. simpl in *.
          constructor; [repeat split; assumption| |exact IH].
          rewrite Hsig. unfold spec_icall in Es. rewrite Er in Es. rewrite Es. reflexivity.
      + rewrite Er in *. simpl in Hg2. specialize (IH Hnd2 r f signers Hg2).
        destruct (lib_sign_tx_from mki (S i) ins r f signers) as [r' c]. simpl in *.
        constructor; [repeat split; assumption|reflexivity|exact IH].
  Qed.

  (* ---------- Transaction.sign on one input ---------- *)
  Lemma sign_tx_at_inv : forall i sh accs ins,
    tx_signed_by mki i sh accs ins -> keys_nodup sh ->
    forall t r f signers, tx_resign_free_at t (keys_of sh) accs r f signers = true ->
    tx_signed_by mki i sh (spec_sign_at t (keys_of sh) accs f signers)
                 (fst (lib_sign_tx_at mki i (i + t) ins r f signers)).
  Proof.
    induction 1 as [i|i s sh acc accs x ins Hsh Hsig Htail IH]; intros Hnd t r f signers Hg.
    - destruct t; simpl; constructor.
    - inversion Hnd as [|? ? Hnd1 Hnd2]; subst.
      rewrite map_cons in *.
      destruct t as [|t]; cbn [spec_sign_at lib_sign_tx_at]; cbn [tx_resign_free_at] in Hg.
      + rewrite Nat.add_0_r, Nat.eqb_refl.
        destruct Hsh as (Hs1 & Hs2 & Hs3 & Hs4 & Hs5).
        rewrite Hs2, Hsig.
        destruct (sign_input_cases (mki i) (si_keys s) acc r f signers Hnd1 Hg) as [(E & Es)|(Er & E)]; rewrite E.
        * destruct (call_raises (si_keys s) f signers) eqn:Er; simpl.
          -- constructor; [repeat split; assumption|exact Hsig|exact Htail].
          -- constructor; [repeat split; assumption| |exact Htail].
             rewrite Hsig. unfold spec_icall in Es. rewrite Er in Es. rewrite Es. reflexivity.
        * rewrite Er. simpl. constructor; [repeat split; assumption|reflexivity|exact Htail].
      + assert (En : Nat.eqb i (i + S t) = false) by (apply Nat.eqb_neq; lia).
        rewrite En. replace (i + S t) with (S i + t) by lia.
        specialize (IH Hnd2 t r f signers Hg).
        destruct (lib_sign_tx_at mki (S i) (S i + t) ins r f signers) as [r' c]. simpl in *.
        constructor; assumption.
  Qed.

  (* ---------- Transaction.verify ---------- *)
  Hypothesis mk_valid : forall i k, svi i (mki i k) k = true.

  Lemma verify_tx_from_inv : forall i sh accs ins,
    tx_signed_by mki i sh accs ins -> tx_dup_point_free svi mki i sh ->
    tx_signed_by mki i sh accs (snd (lib_tx_verify_run_from svi i ins)).
  Proof.
    induction 1 as [i|i s sh acc accs x ins Hsh Hsig Htail IH]; intros Hd.
    - simpl. constructor.
    - destruct Hd as (Hd1 & Hd2). cbn [lib_tx_verify_run_from].
      destruct (negb (si_hash_ok x)); [simpl; constructor; assumption|].
      pose proof (verify_call_step (svi i) (mki i) (mk_valid i) (si_keys s) acc (si_m x) Hd1) as Hv.
      unfold lib_icall in Hv.
      destruct Hsh as (Hs1 & Hs2 & Hs3 & Hs4 & Hs5).
      rewrite Hs2, Hsig.
      destruct (lib_verify_input_run (svi i) (si_keys s) (map (own_sig (mki i)) (signed_listed (si_keys s) acc))
                  (si_m x)) as [ok l]. simpl in Hv. subst l.
      destruct ok.
      + specialize (IH Hd2). destruct (lib_tx_verify_run_from svi (S i) ins) as [b r']. simpl in *.
        constructor; [repeat split; assumption|reflexivity|exact IH].
      + simpl. constructor; [repeat split; assumption|reflexivity|exact Htail].
  Qed.

  Lemma signed_by_set_valid v : forall i sh accs ins,
    tx_signed_by mki i sh accs ins -> tx_signed_by mki i sh accs (map (set_valid v) ins).
  Proof.
    induction 1 as [i|i s sh acc accs x ins Hsh Hsig Htail IH]; simpl; constructor; assumption.
  Qed.

  Lemma verify_tx_inv sh accs ins :
    tx_signed_by mki 0 sh accs ins -> tx_dup_point_free svi mki 0 sh ->
    tx_signed_by mki 0 sh accs (snd (lib_tx_verify_run svi ins)).
  Proof.
    intros H Hd. unfold lib_tx_verify_run. apply verify_tx_from_inv; [|exact Hd].
    apply signed_by_set_valid. exact H.
  Qed.

  Lemma verdict_tx_from : forall i sh accs ins,
    tx_signed_by mki i sh accs ins ->
    fst (lib_tx_verify_run_from svi i ins) = tx_verdict sh accs.
  Proof.
    induction 1 as [i|i s sh acc accs x ins Hsh Hsig Htail IH]; [reflexivity|].
    cbn [lib_tx_verify_run_from tx_verdict].
    destruct Hsh as (Hs1 & Hs2 & Hs3 & Hs4 & Hs5). rewrite Hs4.
    destruct (si_hash_ok s); [|reflexivity]. cbn [negb andb].
    pose proof (verdict_of_count (svi i) (mki i) (mk_valid i) (si_keys s) acc (si_m s)) as Hv.
    rewrite Hs2, Hs3, Hsig.
    destruct (lib_verify_input_run (svi i) (si_keys s) (map (own_sig (mki i)) (signed_listed (si_keys s) acc))
                (si_m s)) as [ok l]. cbn [fst] in Hv. rewrite <- Hv.
    destruct ok; [|reflexivity].
    destruct (lib_tx_verify_run_from svi (S i) ins) as [b r']. simpl in *. exact IH.
  Qed.

  (* ---------- every history ---------- *)
  Lemma tcall_inv sh accs ins c :
    tx_signed_by mki 0 sh accs ins -> keys_nodup sh ->
    tx_resign_free (keys_of sh) accs c = true ->
    (match c with TVerify => tx_dup_point_free svi mki 0 sh | _ => True end) ->
    tx_signed_by mki 0 sh (spec_tcall (keys_of sh) accs c) (lib_tcall svi mki ins c).
  Proof.
    intros H Hnd Hg Hd. destruct c as [[t|] r f signers|]; simpl in *.
    - apply (sign_tx_at_inv 0 sh accs ins H Hnd t r f signers Hg).
    - apply sign_tx_from_inv; assumption.
    - apply verify_tx_inv; assumption.
  Qed.

  Theorem tcalls_inv sh : keys_nodup sh -> forall cs accs ins,
    tx_signed_by mki 0 sh accs ins ->
    tx_resign_free_all (keys_of sh) accs cs = true ->
    tx_only_signs cs = true \/ tx_dup_point_free svi mki 0 sh ->
    tx_signed_by mki 0 sh (spec_tcalls (keys_of sh) accs cs) (lib_tcalls svi mki ins cs).
  Proof.
    intros Hnd. unfold spec_tcalls, lib_tcalls.
    induction cs as [|c cs IH]; intros accs ins H Hg Hv; [exact H|].
    simpl in Hg. apply andb_prop in Hg. destruct Hg as (Hg1 & Hg2). simpl fold_left.
    apply IH; [|exact Hg2|].
    - apply tcall_inv; try assumption.
      destruct c; [exact I|]. destruct Hv as [Hv|Hv]; [simpl in Hv; discriminate|exact Hv].
    - destruct Hv as [Hv|Hv]; [left|right; exact Hv]. simpl in Hv. apply andb_prop in Hv. apply Hv.
  Qed.

  Lemma unsigned_signed_by : forall sh i,
    Forall (fun s => si_sigs s = []) sh -> tx_signed_by mki i sh (map (fun _ => []) sh) sh.
  Proof.
    induction sh as [|s sh IH]; intros i Hf; [constructor|].
    inversion Hf as [|? ? H1 H2]; subst. simpl. constructor; [apply same_shape_refl| |apply IH; exact H2].
    rewrite signed_listed_nil. exact H1.
  Qed.

  Theorem tx_history_then_verify_thm sh cs :
    keys_nodup sh -> Forall (fun s => si_sigs s = []) sh ->
    tx_resign_free_all (keys_of sh) (map (fun _ => []) sh) cs = true ->
    tx_only_signs cs = true \/ tx_dup_point_free svi mki 0 sh ->
    fst (lib_tx_verify_run svi (lib_tcalls svi mki sh cs))
    = tx_verdict sh (spec_tcalls (keys_of sh) (map (fun _ => []) sh) cs).
  Proof.
    intros Hnd Hu Hg Hv.
    pose proof (tcalls_inv sh Hnd cs _ sh (unsigned_signed_by sh 0 Hu) Hg Hv) as H.
    unfold lib_tx_verify_run. apply verdict_tx_from. apply signed_by_set_valid. exact H.
  Qed.
End TxSeqProofs.

(* ---------- the machine of the correspondence driver performs exactly these calls ---------- *)
Lemma run_op_sign_is_tcall fixed st target r f signers :
  cs_ins (fst (run_op fixed st (OSign target r f signers)))
  = lib_tcall (c_svi (cs_epochs st) (cs_ins st)) (fun i => c_mk (epoch_at (cs_epochs st) i))
              (cs_ins st) (TSign target r f signers).
Proof.
  unfold run_op, lib_tcall.
  destruct (lib_sign_tx (fun i => c_mk (epoch_at (cs_epochs st) i)) target (cs_ins st) r f signers) as [ins' c].
  reflexivity.
Qed.

Lemma run_op_verify_is_tcall fixed st :
  cs_ins (fst (run_op fixed st OVerify))
  = lib_tcall (c_svi (cs_epochs st) (cs_ins st)) (fun i => c_mk (epoch_at (cs_epochs st) i))
              (cs_ins st) TVerify /\
  (exists v m, snd (run_op fixed st OVerify)
     = ObsVerify (fst (lib_tx_verify_run (c_svi (cs_epochs st) (cs_ins st)) (cs_ins st))) v m).
Proof.
  unfold run_op, lib_tcall.
  destruct (lib_tx_verify_run (c_svi (cs_epochs st) (cs_ins st)) (cs_ins st)) as [b ins'].
  split; [reflexivity|]. eexists. eexists. reflexivity.
Qed.
