(* Proofs/PublicViewWallet.v — C16, wallet level: every WalletKey handed out by Wallet.public_master() (default
   arguments) is a stripped copy, for every wallet configuration and every history; Wallet.wif() and the other
   default exports carry no secret. *)
From Coq Require Import List String Bool.
From Verif Require Import Model.PublicView Proofs.PublicViewCore Proofs.PublicView.
Import ListNotations.
Open Scope string_scope.

(* ---------------------------------------------------------------- reachable wallet states *)
Definition SwSound (s : swallet) : Prop := Sound wk_class (sw_main s) /\ Sound wk_class (sw_acct s).
Definition WalSound (w : wallet) : Prop :=
  match w with WSimple s => SwSound s | WMulti cos => Forall SwSound cos end.

Lemma acct_init_sound cos h : Sound wk_class (acct_init cos h).
Proof.
  unfold acct_init. destruct cos; [|apply wk_init_sound].
  apply sound_setf; [apply wk_init_sound | discriminate].
Qed.

Lemma sw_init_sound cos c : SwSound (sw_init cos c).
Proof. split; simpl; [apply wk_init_sound | apply acct_init_sound]. Qed.

Lemma key_step_sound k : Sound wk_class k -> Sound wk_class (fst (exec p_wk_key k)).
Proof. intro H. exact (wstep_sound WKey k H). Qed.

Lemma sw_step_sound o s : SwSound s -> SwSound (sw_step o s).
Proof.
  intros [Hm Ha]. destruct o; try (split; assumption).
  - split; simpl; [apply key_step_sound|]; assumption.
  - unfold sw_step. destruct (src_is_main s); split; simpl; try assumption; apply key_step_sound; assumption.
  - unfold sw_step. destruct (src_is_main s); split; simpl; try assumption; apply key_step_sound; assumption.
  - split; simpl; [apply wk_init_sound | apply acct_init_sound].
Qed.

Lemma Forall_map_nth {A} (P : A -> Prop) f i : forall l,
  (forall x, P x -> P (f x)) -> Forall P l -> Forall P (map_nth i f l).
Proof.
  induction i as [|j IH]; intros l Hf Hl; destruct l as [|x r]; simpl; try constructor;
  inversion Hl; subst; auto.
Qed.

Lemma Forall_map_same {A} (P : A -> Prop) f l : (forall x, P x -> P (f x)) -> Forall P l -> Forall P (map f l).
Proof. intros Hf Hl. induction Hl; simpl; constructor; auto. Qed.

Lemma multi_step_sound o cos : Forall SwSound cos -> Forall SwSound (multi_step o cos).
Proof.
  intro H. destruct o; try exact H; simpl; apply Forall_map_same; try exact H; intros; apply sw_step_sound; assumption.
Qed.

Lemma wal_step_sound o w : WalSound w -> WalSound (wal_step o w).
Proof.
  intro H. destruct w as [s|cos], o as [o|i o]; simpl.
  - apply sw_step_sound, H.
  - exact H.
  - apply multi_step_sound, H.
  - apply Forall_map_nth; [intros; apply sw_step_sound; assumption | exact H].
Qed.

Lemma wal_run_sound h : forall w, WalSound w -> WalSound (wal_run h w).
Proof. induction h as [|o r IH]; intros w H; simpl; [exact H | apply IH, wal_step_sound, H]. Qed.

Lemma wal_init_sound c : WalSound (wal_init c).
Proof.
  destruct c as [c|cs]; simpl; [apply sw_init_sound|].
  induction cs; simpl; constructor; [apply sw_init_sound | assumption].
Qed.

Lemma sw_source_sound s : SwSound s -> Sound wk_class (sw_source s).
Proof. intros [Hm Ha]. unfold sw_source. destruct (src_is_main s); assumption. Qed.

(* ---------------------------------------------------------------- the path tables, evaluated *)
Lemma pm_simple_model s ap : pm_simple wallet_public_master_paths s ap = [view ap (sw_source s)].
Proof. destruct s as [c cos m a]. destruct c; reflexivity. Qed.

Lemma pm_multi_model cos ap :
  pm_results wallet_public_master_paths (WMulti cos) ap = flat_map (fun s => [view ap (sw_source s)]) cos.
Proof.
  transitivity (flat_map (fun s => pm_simple wallet_public_master_paths s ap) cos ++ [])%list; [reflexivity|].
  rewrite app_nil_r. apply flat_map_ext. intro s. apply pm_simple_model.
Qed.

Lemma wallet_public_master_sources w ap v :
  WalSound w -> In v (wallet_public_master w ap) -> exists k, Sound wk_class k /\ v = view ap k.
Proof.
  intros HS Hin. unfold wallet_public_master in Hin. destruct w as [s|cos].
  - change (In v (pm_simple wallet_public_master_paths s ap)) in Hin.
    rewrite pm_simple_model in Hin. destruct Hin as [E|[]]. subst v.
    exists (sw_source s). split; [apply sw_source_sound, HS | reflexivity].
  - rewrite pm_multi_model in Hin. apply in_flat_map in Hin. destruct Hin as [s [Hs [E|[]]]]. subst v.
    exists (sw_source s). split; [|reflexivity]. apply sw_source_sound.
    simpl in HS. rewrite Forall_forall in HS. apply HS, Hs.
Qed.

(* ---------------------------------------------------------------- the theorem *)
Theorem wallet_public_view_clean_thm : forall cfg h v h2 a,
  In v (wallet_public_master (wal_run h (wal_init cfg)) false) ->
  (is_private wk_class a = true -> blank (kf (wrun h2 v) a) = true) /\
  (is_handle wk_class a = false -> kf (wrun h2 v) a <> VSec).
Proof.
  intros cfg h v h2 a Hin.
  destruct (wallet_public_master_sources _ _ _ (wal_run_sound h _ (wal_init_sound cfg)) Hin) as [k [Hk E]].
  subst v. unfold view. split.
  - apply (wrun_clean h2). apply wpublic_clean.
  - apply (wrun_tclean h2). apply wpublic_tclean. exact Hk.
Qed.

Lemma view_clean k h2 a : Sound wk_class k ->
  (is_private wk_class a = true -> blank (kf (wrun h2 (view false k)) a) = true) /\
  (is_handle wk_class a = false -> kf (wrun h2 (view false k)) a <> VSec).
Proof.
  intro Hk. unfold view. split.
  - apply (wrun_clean h2). apply wpublic_clean.
  - apply (wrun_tclean h2). apply wpublic_tclean. exact Hk.
Qed.

Lemma sw_returns_sources o s v :
  SwSound s -> returns_a_view o = true -> In v (sw_returns o s) -> exists k, Sound wk_class k /\ v = view false k.
Proof.
  intros HS Ho Hin. destruct o as [| | |ap| | | | | | |]; try discriminate Ho.
  - simpl in Hin. destruct Hin as [E|[]]. subst v. exists (sw_main s). split; [apply HS | reflexivity].
  - destruct ap; [discriminate Ho|]. simpl in Hin.
    apply (wallet_public_master_sources (WSimple s) false v); [exact HS | exact Hin].
Qed.

(* also main_key.public() and every cosigner wallet's own public_master(), as operations of the history *)
Theorem wallet_returns_clean_thm : forall cfg h o v h2 a,
  returns_a_view (lop_of o) = true ->
  In v (wal_returns o (wal_run h (wal_init cfg))) ->
  (is_private wk_class a = true -> blank (kf (wrun h2 v) a) = true) /\
  (is_handle wk_class a = false -> kf (wrun h2 v) a <> VSec).
Proof.
  intros cfg h o v h2 a Ho Hin.
  pose proof (wal_run_sound h _ (wal_init_sound cfg)) as HS.
  destruct (wal_run h (wal_init cfg)) as [s|cos].
  - destruct o as [o|i o]; simpl in Hin; [|destruct Hin].
    destruct (sw_returns_sources o s v HS Ho Hin) as [k [Hk E]]. subst v. apply view_clean, Hk.
  - destruct o as [o|i o]; simpl in Hin, Ho.
    + destruct o as [| | |ap| | | | | | |]; try discriminate Ho; try destruct Hin.
      destruct ap; [discriminate Ho|].
      destruct (wallet_public_master_sources (WMulti cos) false v HS Hin) as [k [Hk E]]. subst v. apply view_clean, Hk.
    + destruct (nth_error cos i) as [s|] eqn:En; [|destruct Hin].
      assert (Hs : SwSound s).
      { simpl in HS. rewrite Forall_forall in HS. apply HS. eapply nth_error_In; exact En. }
      destruct (sw_returns_sources o s v Hs Ho Hin) as [k [Hk E]]. subst v. apply view_clean, Hk.
Qed.

(* ---------------------------------------------------------------- exports *)
Lemma wif_simple_model s ip :
  wif_simple wallet_public_master_paths wallet_wif_paths s ip =
  if ip then [("wif", eval (EFrom ["wif"]) (sw_main s))] else [wif_of_view false (view false (sw_source s))].
Proof. destruct s as [c cos m a]. destruct c, ip; reflexivity. Qed.

Lemma wif_multi_model cos ip :
  wif_exports wallet_public_master_paths wallet_wif_paths (WMulti cos) ip =
  flat_map (fun s => wif_simple wallet_public_master_paths wallet_wif_paths s ip) cos.
Proof.
  transitivity (flat_map (fun s => wif_simple wallet_public_master_paths wallet_wif_paths s ip) cos ++ [])%list.
  - destruct ip; reflexivity.
  - apply app_nil_r.
Qed.

Lemma key_of_view_clean' k : Sound wk_class k -> snd (key_of_view (view false k)) <> VSec.
Proof.
  intro Hk. unfold key_of_view, snd.
  apply (eval_closed wk_class); [|reflexivity].
  apply exec_tclean; [exact (wop_closed WKey)|]. apply wpublic_tclean, Hk.
Qed.
Lemma key_of_view_clean k lab v : Sound wk_class k -> (lab, v) = key_of_view (view false k) -> v <> VSec.
Proof.
  intros Hk E. replace v with (snd (key_of_view (view false k))); [apply key_of_view_clean', Hk|].
  rewrite <- E. reflexivity.
Qed.

Lemma as_dict_default_clean pr lab v : In (lab, v) (as_dict_exports false pr) -> v <> VSec.
Proof.
  intro H. destruct pr; vm_compute in H;
  repeat (destruct H as [H|H]; [inversion H; subst; discriminate|]); destruct H.
Qed.

Lemma sw_exports_default_clean o s lab v :
  SwSound s -> wal_default_export o = true -> In (lab, v) (sw_exports o s) -> v <> VSec.
Proof.
  intros HS Ho Hin. pose proof (sw_step_sound o s HS) as HS'.
  destruct o as [| | | | |ip|incl| | | |]; try discriminate Ho; unfold sw_exports in Hin.
  - rewrite pm_simple_model in Hin. simpl in Hin. destruct Hin as [E|[]].
    apply (key_of_view_clean (sw_source (sw_step LPmKey s)) lab v); [apply sw_source_sound, HS' | symmetry; exact E].
  - destruct ip; [discriminate Ho|]. rewrite wif_simple_model in Hin. destruct Hin as [E|[]].
    unfold wif_of_view in E. inversion E; subst. discriminate.
  - destruct incl; [discriminate Ho|]. apply (as_dict_default_clean _ lab v Hin).
  - destruct Hin as [E|[]]. inversion E; subst. discriminate.
  - destruct Hin as [E|[]]. inversion E; subst. discriminate.
Qed.

Theorem wallet_default_exports_clean_thm : forall cfg h o lab v,
  wal_default_export (lop_of o) = true ->
  In (lab, v) (wal_exports o (wal_run h (wal_init cfg))) -> v <> VSec.
Proof.
  intros cfg h o lab v Ho Hin.
  pose proof (wal_run_sound h _ (wal_init_sound cfg)) as HS.
  destruct (wal_run h (wal_init cfg)) as [s|cos].
  - destruct o as [o|i o]; simpl in Hin; [|destruct Hin]. exact (sw_exports_default_clean o s lab v HS Ho Hin).
  - destruct o as [o|i o]; simpl in Hin, Ho.
    + pose proof (multi_step_sound o cos HS) as HS'.
      destruct o as [| | | | |ip|incl| | | |]; try discriminate Ho; unfold multi_exports in Hin.
      * apply in_map_iff in Hin. destruct Hin as [x [E Hx]].
        destruct (wallet_public_master_sources (WMulti (multi_step LPmKey cos)) false x HS' Hx) as [k [Hk Ek]]. subst x.
        apply (key_of_view_clean k lab v Hk). symmetry. exact E.
      * destruct ip; [discriminate Ho|]. rewrite wif_multi_model in Hin. apply in_flat_map in Hin.
        destruct Hin as [s [_ Hin]]. rewrite wif_simple_model in Hin. destruct Hin as [E|[]].
        unfold wif_of_view in E. inversion E; subst. discriminate.
      * destruct incl; [discriminate Ho|]. apply (as_dict_default_clean _ lab v Hin).
      * destruct Hin as [E|[]]. inversion E; subst. discriminate.
      * destruct Hin as [E|[]]. inversion E; subst. discriminate.
    + destruct (nth_error cos i) as [s|] eqn:En; [|destruct Hin].
      assert (Hs : SwSound s).
      { simpl in HS. rewrite Forall_forall in HS. apply HS. eapply nth_error_In; exact En. }
      exact (sw_exports_default_clean o s lab v Hs Ho Hin).
Qed.
