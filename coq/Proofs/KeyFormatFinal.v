(* Proofs/KeyFormatFinal.v — C12: the exporter HDKey.wif() writes the text the import lemmas are about;
   BIP38 strings; public raw forms; candidates and exactness. *)
From Coq Require Import ZArith List Bool Lia.
From Coq Require String.
From Coq.Strings Require Import Byte.
From Verif Require Import Lib.Bytes Gen.GenConsts Gen.GenNetworks Crypto.Sha256 Crypto.HashLemmas
  Model.Base58 Model.KeyFormat Proofs.Base58 Proofs.KeyFormatBase Proofs.KeyFormatWif Proofs.KeyFormatXkey.
Import ListNotations.
Import Coq.Strings.String.StringSyntax.
Open Scope Z_scope.

(* ------------------------------------------------------------------ HDKey.wif(): which row, which bytes *)
Definition xkey_keydata (pubser : bool) (k : keymeta) (want_private : bool) : bytes :=
  if km_private k && want_private then x00 :: km_secret k
  else if want_private then km_pubc k
  else if pubser then km_pubc k else km_public_byte k.

Definition km_witness_eff (k : keymeta) : str :=
  if String.eqb (km_witness k) "" then default_witness else km_witness k.

Lemma xkey_export_row pubser oc k want w :
  lib_xkey pubser oc k want = Ok w ->
  exists n r, km_constructible oc k = true /\ In n all_networks /\ nw_name n = km_network k /\ In r (nw_prefixes_wif n) /\
    wr_private r = (km_private k && want) /\ wr_witness_type r = km_witness_eff k /\ wr_multisig r = km_multisig k /\
    0 <= km_depth k < 256 /\ 0 <= km_child k < 2 ^ 32 /\
    w = b58check_enc sha256d
          (xkey_raw (wr_prefix r) (km_depth k) (km_fp k) (km_child k) (km_chain k) (xkey_keydata pubser k want)).
Proof.
  unfold lib_xkey. destruct (km_constructible oc k) eqn:KC; [|discriminate]. cbn [negb].
  destruct (find_network (km_network k)) as [n|] eqn:F; [|discriminate].
  unfold find_network in F. apply find_some in F. destruct F as [Hn Hname]. apply String.eqb_eq in Hname.
  fold (km_witness_eff k).
  destruct (lib_network_wif_prefix n (km_private k && want) (km_witness_eff k) (km_multisig k)) as [p|e] eqn:P;
    [|discriminate].
  destruct (network_wif_prefix_row n _ _ _ p Hn P) as [r [Hr [Hp [H1 [H2 H3]]]]].
  destruct ((km_depth k <? 0) || (256 <=? km_depth k) || (km_child k <? 0) || (2 ^ 32 <=? km_child k)) eqn:R;
    [discriminate|].
  apply orb_false_iff in R. destruct R as [R R4]. apply orb_false_iff in R. destruct R as [R R3].
  apply orb_false_iff in R. destruct R as [R1 R2].
  apply Z.ltb_ge in R1, R3. apply Z.leb_gt in R2, R4.
  intros H. inversion H. exists n, r. subst p. unfold xkey_keydata.
  repeat split; try assumption; try lia.
Qed.

(* ------------------------------------------------------------------ BIP38: 58 characters starting 6P *)
Lemma bip38_text_private fold wc s ip :
  length s = 58%nat -> starts s_6P s = true ->
  lib_get_key_format fold wc (KStr s) ip = kf_plain FWifProtected true.
Proof.
  intros Hlen Hs. cbn [lib_get_key_format]. unfold gkf_str, len_is. rewrite Hlen, Hs. reflexivity.
Qed.

(* the 43-byte BIP38 payloads — 0142 then flag byte c0..e0 (no EC multiply), 0143 then flag byte 00..24
   (EC multiply) — are numbers whose 58 base-58 digits start with 5 ('6') and 22 ('P') *)
Lemma bip38_range v :
  (82624 * 256 ^ 40 <= v < 82657 * 256 ^ 40) \/ (82688 * 256 ^ 40 <= v < 82725 * 256 ^ 40) ->
  (5 * 58 + 22) * 58 ^ 56 <= v < (5 * 58 + 23) * 58 ^ 56.
Proof.
  intros H.
  assert (A : (5 * 58 + 22) * 58 ^ 56 <= 82624 * 256 ^ 40) by (apply Z.leb_le; vm_compute; reflexivity).
  assert (B : 82725 * 256 ^ 40 <= (5 * 58 + 23) * 58 ^ 56) by (apply Z.leb_le; vm_compute; reflexivity).
  assert (C : 82657 * 256 ^ 40 <= 82688 * 256 ^ 40) by (apply Z.leb_le; vm_compute; reflexivity).
  lia.
Qed.

(* ------------------------------------------------------------------ public raw forms *)
Definition pub_shape (k0 : byte) (kr : bytes) : Prop :=
  (length kr = 32%nat /\ (k0 = x02 \/ k0 = x03)) \/ (length kr = 64%nat /\ k0 = x04).

Lemma pub_checked_ok oc k0 kr : pub_shape k0 kr -> oc (k0 :: kr) = true ->
  pub_checked oc (k0 :: kr) = Ok (k0 :: kr, Nat.eqb (length kr) 32).
Proof.
  intros Hk Hoc. unfold pub_checked, pub_strict_ok. cbn [length]. rewrite Hoc.
  destruct Hk as [[Hl [-> | ->]] | [Hl ->]]; rewrite Hl; reflexivity.
Qed.

Lemma raw_public_bytes fold wc oc k0 kr h c :
  hint_ok h -> pub_shape k0 kr -> oc (k0 :: kr) = true ->
  lib_key_import fold wc oc (KBytes (k0 :: kr)) h c None =
  Ok (raw_key_obj false (k0 :: kr) (Nat.eqb (length kr) 32) (hint_network h)
        (if Nat.eqb (length kr) 32 then FBinCompressed else FBin)).
Proof.
  intros Hh Hk Hoc.
  assert (G : gkf_bytes (k0 :: kr) = kf_plain (if Nat.eqb (length kr) 32 then FBinCompressed else FBin) false).
  { unfold gkf_bytes. cbn [length].
    destruct Hk as [[Hl [-> | ->]] | [Hl ->]]; rewrite Hl; reflexivity. }
  unfold lib_key_import. cbn [lib_get_key_format]. rewrite G.
  cbn [kf_plain kf_private kf_format kf_networks]. rewrite (key_import_net h Hh).
  assert (P : key_public_part oc (KBytes (k0 :: kr)) (if Nat.eqb (length kr) 32 then FBinCompressed else FBin) =
              Ok (k0 :: kr, Nat.eqb (length kr) 32)).
  { rewrite <- (pub_checked_ok oc k0 kr Hk Hoc). destruct (Nat.eqb (length kr) 32); reflexivity. }
  rewrite P. reflexivity.
Qed.

Lemma raw_public_hex fold wc oc k0 kr h c :
  hint_ok h -> pub_shape k0 kr -> oc (k0 :: kr) = true ->
  lib_key_import fold wc oc (KStr (hex_encode (k0 :: kr))) h c None =
  Ok (raw_key_obj false (k0 :: kr) (Nat.eqb (length kr) 32) (hint_network h)
        (if Nat.eqb (length kr) 32 then FPublic else FPublicUncompressed)).
Proof.
  intros Hh Hk Hoc.
  assert (G : gkf_str fold wc (hex_encode (k0 :: kr)) None =
              kf_plain (if Nat.eqb (length kr) 32 then FPublic else FPublicUncompressed) false).
  { unfold gkf_str, len_is. rewrite hex_encode_length. cbn [length].
    destruct Hk as [[Hl [-> | ->]] | [Hl ->]]; rewrite Hl; reflexivity. }
  unfold lib_key_import. cbn [lib_get_key_format]. rewrite G.
  cbn [kf_plain kf_private kf_format kf_networks]. rewrite (key_import_net h Hh).
  assert (P : key_public_part oc (KStr (hex_encode (k0 :: kr))) (if Nat.eqb (length kr) 32 then FPublic else FPublicUncompressed) =
              Ok (k0 :: kr, Nat.eqb (length kr) 32)).
  { rewrite <- (pub_checked_ok oc k0 kr Hk Hoc).
    destruct (Nat.eqb (length kr) 32); unfold key_public_part; rewrite hex_decode_encode; reflexivity. }
  rewrite P. reflexivity.
Qed.

(* what the C04 repairs refuse: the group order itself as a secret, in every raw form and as a WIF;
   a public key the oracle rejects *)
Definition order_bytes : bytes := be_bytes 32 secp256k1_n.

Lemma secret_out_of_range_refused :
  lib_key_import false true (fun _ => true) (KBytes order_bytes) None true None = Err EKey /\
  lib_key_import false true (fun _ => true) (KStr (hex_encode order_bytes)) None true None = Err EKey /\
  lib_key_import false true (fun _ => true) (KInt secp256k1_n) None true None = Err EKey /\
  lib_key_import false true (fun _ => true) (KInt 0) None true None = Err EKey /\
  lib_key_import false true (fun _ => true)
    (KStr (b58check_enc sha256d ([x80] ++ order_bytes ++ [x01]))) None true None = Err EKey /\
  lib_hdkey_import false true (fun _ => true)
    (KStr (b58check_enc sha256d (xkey_raw [x04; x88; xad; xe4] 0 (repeat x00 4) 0 (repeat x11 32) (x00 :: order_bytes))))
    None None false true = Err EKey.
Proof. vm_compute. repeat split; reflexivity. Qed.

Lemma off_curve_public_refused :
  lib_key_import false true (fun _ => false) (KBytes (x02 :: repeat x33 32)) None true None = Err EKey /\
  lib_key_import false true (fun _ => true) (KBytes (x02 :: repeat x33 32)) None true None =
    Ok (raw_key_obj false (x02 :: repeat x33 32) true default_network FBinCompressed) /\
  lib_key_import false true (fun _ => true) (KBytes (x05 :: repeat x33 32)) None true None = Err EUnmodelled /\
  lib_key_import false true (fun _ => true) (KBytes (x04 :: repeat x33 32)) None true None = Err EKey.
Proof. vm_compute. repeat split; reflexivity. Qed.

(* ------------------------------------------------------------------ candidates and exactness *)
Lemma unique_candidate {A} (x y : A) : In x [y] -> y = x.
Proof. intros [E|[]]. exact E. Qed.

(* with the exporting network as hint the import never refuses and returns that network *)
Lemma check_network_hint n r : In n all_networks -> In r (nw_prefixes_wif n) ->
  lib_check_network (Some (nw_name n)) (Some (prefix_networks (wr_prefix r))) = Ok (nw_name n).
Proof.
  intros Hn Hr. pose proof (prefix_networks_in n r Hn Hr) as Hin. unfold lib_check_network.
  destruct (prefix_networks (wr_prefix r)) as [|a l]; [destruct Hin|].
  assert (S : str_in (nw_name n) (a :: l) = true).
  { unfold str_in. apply existsb_exists. exists (nw_name n). split; [exact Hin | apply String.eqb_refl]. }
  rewrite S. reflexivity.
Qed.

(* without a hint: a candidate, or a refusal that names the ambiguity *)
Lemma check_network_nohint p :
  prefix_networks p <> [] ->
  match lib_check_network None (Some (prefix_networks p)) with
  | Ok x => In x (prefix_networks p)
  | Err e => e = EAmbiguous /\ (1 < length (prefix_networks p))%nat /\
             str_in default_network (prefix_networks p) = false /\ str_in testnet_name (prefix_networks p) = false
  end.
Proof.
  intros Hne. unfold lib_check_network. destruct (prefix_networks p) as [|a l] eqn:E; [contradiction|].
  destruct (resolve_networks (a :: l)) as [x|e] eqn:R.
  - apply resolve_networks_ok in R; [exact R | discriminate].
  - apply resolve_networks_err in R. exact R.
Qed.

(* ------------------------------------------------------------------ statements in closed form *)
Definition xkey_text (r : wif_row) (depth : Z) (fp : bytes) (child : Z) (chain keydata : bytes) : bytes :=
  b58check_enc sha256d (xkey_raw (wr_prefix r) depth fp child chain keydata).
Definition row_key (r : wif_row) (k0 : byte) (kr : bytes) : bytes := if wr_private r then kr else k0 :: kr.
Definition row_key_ok (oc : bytes -> bool) (r : wif_row) (k0 : byte) (kr : bytes) : Prop :=
  length kr = 32%nat /\
  (if wr_private r then k0 = x00 /\ 0 < of_be kr < secp256k1_n
   else ((k0 = x02 \/ k0 = x03) /\ oc (k0 :: kr) = true)).
Definition import_witness (p : bytes) (wthint : option str) : str :=
  match prefix_witness p, wthint with
  | [w], None => w
  | _, Some w => w
  | _, None => default_witness
  end.
Definition import_multisig (p : bytes) (mshint : bool) : bool :=
  match prefix_multisig p with [m] => m | _ => mshint end.

Lemma xkey_format_closed fold wc oc n r depth child fp chain k0 kr ip :
  In n all_networks -> In r (nw_prefixes_wif n) ->
  length fp = 4%nat -> length chain = 32%nat -> row_key_ok oc r k0 kr ->
  lib_get_key_format fold wc (KStr (xkey_text r depth fp child chain (k0 :: kr))) ip =
  KfOk {| kf_format := if wr_private r then FHdPrivate else FHdPublic;
          kf_networks := Some (prefix_networks (wr_prefix r)); kf_private := wr_private r;
          kf_scripts := prefix_scripts (wr_prefix r); kf_witness := prefix_witness (wr_prefix r);
          kf_multisig := prefix_multisig (wr_prefix r) |}.
Proof.
  intros Hn Hr Hfp Hchain [Hkr Hk0].
  unfold xkey_text, b58check_enc. eapply xkey_text_format; eassumption.
Qed.

Lemma xkey_import_closed fold wc oc n r depth child fp chain k0 kr hint wthint mshint c :
  In n all_networks -> In r (nw_prefixes_wif n) ->
  0 <= depth < 256 -> 0 <= child < 2 ^ 32 -> length fp = 4%nat -> length chain = 32%nat -> row_key_ok oc r k0 kr ->
  lib_hdkey_import fold wc oc (KStr (xkey_text r depth fp child chain (k0 :: kr))) hint wthint mshint c =
  match lib_check_network hint (Some (prefix_networks (wr_prefix r))) with
  | Err e => Err e
  | Ok nw => Ok (xkey_obj (wr_private r) (row_key r k0 kr) c nw chain depth fp child
                   (import_witness (wr_prefix r) wthint) (import_multisig (wr_prefix r) mshint))
  end.
Proof.
  intros Hn Hr Hd Hc Hfp Hchain [Hkr Hk0].
  unfold xkey_text, b58check_enc, import_witness, import_multisig, row_key. eapply xkey_import_lemma; eassumption.
Qed.

Lemma xkey_from_wif_closed fold wc oc n r depth child fp chain k0 kr hint mshint c :
  In n all_networks -> In r (nw_prefixes_wif n) ->
  0 <= depth < 256 -> 0 <= child < 2 ^ 32 -> length fp = 4%nat -> length chain = 32%nat -> row_key_ok oc r k0 kr ->
  lib_hdkey_from_wif fold wc oc (xkey_text r depth fp child chain (k0 :: kr)) hint mshint c =
  match lib_wif_prefix_search (wr_prefix r) None mshint hint with
  | [] => Err EKey
  | m :: _ => Ok (xkey_obj (wr_private r) (row_key r k0 kr) c (match hint with Some h => h | None => hm_network m end)
                    chain depth fp child (wr_witness_type (hm_row m))
                    (match mshint with Some true => true | _ => wr_multisig (hm_row m) end))
  end.
Proof.
  intros Hn Hr Hd Hc Hfp Hchain [Hkr Hk0].
  unfold xkey_text, b58check_enc, row_key. eapply xkey_from_wif_lemma; eassumption.
Qed.

(* the rows from_wif chooses among are rows of the table carrying this prefix (and the hinted network) *)
Lemma from_wif_candidates p ms hint m :
  In m (lib_wif_prefix_search p None ms hint) ->
  In m (prefix_rows p) /\ In (hm_network m) (prefix_networks p) /\
  match hint with Some h => hm_network m = h | None => True end.
Proof.
  intros H. pose proof (search_sub _ _ _ _ _ H) as Hs. split; [exact Hs|]. split.
  - unfold prefix_networks, dedup_str. apply dedup_str_in; [|reflexivity]. apply in_map. exact Hs.
  - destruct hint as [h|]; [|exact I]. eapply search_hint. exact H.
Qed.

(* from_wif with the exporting network (and multisig flag) as hints finds the exporting row's network *)
Lemma from_wif_hint_nonempty n r ms : In n all_networks -> In r (nw_prefixes_wif n) ->
  (ms = None \/ ms = Some (wr_multisig r)) ->
  lib_wif_prefix_search (wr_prefix r) None ms (Some (nw_name n)) <> [].
Proof.
  intros Hn Hr Hms E.
  assert (H : In {| hm_network := nw_name n; hm_row := r |} (lib_wif_prefix_search (wr_prefix r) None ms (Some (nw_name n)))).
  { apply search_in. split; [apply row_in_all_rows; assumption|].
    unfold hm_matches, row_matches. cbn [hm_network hm_row]. rewrite String.eqb_refl, bytes_eqb_refl.
    destruct Hms as [-> | ->]; [reflexivity | rewrite eqb_reflx; reflexivity]. }
  rewrite E in H. destruct H.
Qed.
