(* Proofs/BlockCodec.v — block header codec, block codec at the protocol level, target from bits (C06). *)
From Coq Require Import ZArith List Bool Lia.
From Coq.Strings Require Import Byte.
From Verif Require Import Lib.Bytes Model.Wire Proofs.CompactSize Crypto.Sha256 Model.TxCodec Proofs.TxCodecSpec
  Model.BlockCodec.
Import ListNotations.
Open Scope Z_scope.

Lemma parse_header_ser h rest : wf_header h -> parse_header (ser_header h ++ rest) = Some (h, rest).
Proof.
  intros (Hv & Hp & Hm & Ht & Hb & Hn). unfold parse_header, ser_header.
  repeat rewrite <- app_assoc.
  rewrite read_le_app by (rewrite pow256_4; exact Hv).
  rewrite read_n_app by exact Hp. rewrite read_n_app by exact Hm.
  rewrite read_le_app by (rewrite pow256_4; exact Ht).
  rewrite read_le_app by (rewrite pow256_4; exact Hb).
  rewrite read_le_app by (rewrite pow256_4; exact Hn).
  destruct h; reflexivity.
Qed.

Lemma ser_header_length h : wf_header h -> length (ser_header h) = 80%nat.
Proof.
  intros (_ & Hp & Hm & _). unfold ser_header. rewrite !app_length, !le_bytes_length, Hp, Hm. reflexivity.
Qed.

Lemma spec_ser_length_pos t : (1 <= length (spec_ser t))%nat.
Proof. unfold spec_ser. rewrite app_length, le_bytes_length. lia. Qed.

(* protocol-level block codec: header, count, transactions; arbitrary suffix *)
Theorem spec_block_codec_proof b rest :
  wf_header (b_hdr b) -> len_ok (b_txs b) -> Forall wf_tx (b_txs b) ->
  spec_block_parse (spec_block_ser b ++ rest) = Some (b, rest).
Proof.
  intros Hh Hl Hf. unfold spec_block_parse, spec_block_ser. rewrite <- app_assoc.
  rewrite parse_header_ser by exact Hh.
  rewrite (parse_list_ser spec_parse spec_ser (fun t => t) (b_txs b) rest Hl).
  - rewrite map_id. destruct b; reflexivity.
  - intros a _. apply spec_ser_length_pos.
  - intros a Ha r. apply spec_tx_codec_proof. rewrite Forall_forall in Hf. apply Hf. exact Ha.
Qed.

(* the library's target is SetCompact's for exponent >= 3 and a clear sign bit *)
Lemma be4 n : be_bytes 4 n = [zb (n / 256 / 256 / 256); zb (n / 256 / 256); zb (n / 256); zb n].
Proof. reflexivity. Qed.

Theorem target_exact_proof bits :
  0 <= bits < 2 ^ 32 -> 3 <= bits / 2 ^ 24 -> bits mod 2 ^ 24 < 2 ^ 23 ->
  lib_target (be_bytes 4 bits) = Some (spec_target bits).
Proof.
  intros Hb He Hs. rewrite be4. unfold lib_target, spec_target, of_be.
  change (2 ^ 24) with 16777216 in *. change (2 ^ 23) with 8388608 in *. change (2 ^ 32) with 4294967296 in *.
  cbn [rev app of_le]. rewrite !bz_zb.
  assert (E1 : (bits / 256 / 256 / 256) mod 256 = bits / 16777216).
  { rewrite !Z.div_div by lia. change (256 * 256 * 256) with 16777216.
    apply Z.mod_small. split; [apply Z.div_pos; lia|]. apply Z.div_lt_upper_bound; lia. }
  rewrite E1.
  destruct (bits / 16777216 <? 3) eqn:E3; [apply Z.ltb_lt in E3; lia|].
  f_equal.
  assert (Em : bits mod 256 + 256 * ((bits / 256) mod 256 + 256 * ((bits / 256 / 256) mod 256 + 256 * 0))
               = bits mod 16777216).
  { rewrite !Z.div_div by lia. change (256 * 256) with 65536.
    Z.div_mod_to_equations. lia. }
  rewrite Em.
  assert (Ew : bits mod 8388608 = bits mod 16777216).
  { Z.div_mod_to_equations. lia. }
  rewrite Ew.
  destruct (bits / 16777216 <=? 3) eqn:E4.
  - apply Z.leb_le in E4. assert (bits / 16777216 = 3) as -> by lia.
    change (3 - 3) with 0. change (256 ^ 0) with 1. rewrite Z.div_1_r, Z.mul_1_r. reflexivity.
  - reflexivity.
Qed.

(* inside the domain the encoded number is not negative: the signed reading is the magnitude *)
Theorem target_signed_exact_proof bits :
  0 <= bits < 2 ^ 32 -> 3 <= bits / 2 ^ 24 -> bits mod 2 ^ 24 < 2 ^ 23 ->
  lib_target (be_bytes 4 bits) = Some (spec_target_signed bits).
Proof.
  intros Hb He Hs. rewrite (target_exact_proof bits Hb He Hs). unfold spec_target_signed, spec_target_negative.
  change (2 ^ 24) with 16777216 in *. change (2 ^ 23) with 8388608 in *.
  destruct (8388608 <=? bits mod 16777216) eqn:E; [apply Z.leb_le in E; lia|].
  rewrite andb_false_r. reflexivity.
Qed.
