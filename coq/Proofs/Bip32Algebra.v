(* Proofs/Bip32Algebra.v — private and public child key derivation commute (C03), for an arbitrary
   commutative group with Z-action and generator of order n (premise [group_laws]), an arbitrary
   HMAC oracle, an arbitrary point serialisation and an arbitrary HASH160. *)
From Coq Require Import ZArith List Bool Lia.
From Coq.Strings Require Import Byte.
From Verif Require Import Lib.Bytes Crypto.Group Model.Bip32.
Import ListNotations.
Open Scope Z_scope.

Section Commute.
Variable Pt : Type.
Variable add : Pt -> Pt -> Pt.
Variable zero : Pt.
Variable neg : Pt -> Pt.
Variable smul : Z -> Pt -> Pt.
Variable gen : Pt.
Variable n : Z.
Variable is_zero : Pt -> bool.
Variable serP : Pt -> bytes.
Variable HM : bytes -> bytes -> bytes.
Variable H160 : bytes -> bytes.
Hypothesis GL : group_laws add zero neg smul gen n.
Hypothesis is_zero_spec : forall P, is_zero P = true <-> P = zero.

Let ckd_priv := spec_ckd_priv Pt smul gen n serP HM H160.
Let ckd_pub := spec_ckd_pub Pt add smul gen n is_zero serP HM H160.
Let N := neuter_prv Pt smul gen.
Let derive_priv := spec_derive_priv Pt smul gen n serP HM H160.
Let derive_pub := spec_derive_pub Pt add smul gen n is_zero serP HM H160.

(* N(CKDpriv((k,c), i)) = CKDpub(N(k,c), i) for every non-hardened i, failure cases included *)
Lemma ckd_commute (x : xprv) (i : Z) :
  0 <= i < two31 -> option_map N (ckd_priv x i) = ckd_pub (N x) i.
Proof.
  intros Hi. unfold ckd_priv, ckd_pub, spec_ckd_priv, spec_ckd_pub, N, neuter_prv. cbn [XK XC XM].
  assert (E1 : (i <? 0) = false) by (apply Z.ltb_ge; lia).
  assert (E2 : (two32 <=? i) = false) by (apply Z.leb_gt; unfold two31, two32 in *; lia).
  assert (E3 : (two31 <=? i) = false) by (apply Z.leb_gt; lia).
  rewrite E1, E2, E3. cbn [orb].
  set (P := point_of Pt smul gen (xk x)).
  set (I := HM (xc x) (serP P ++ ser32 i)).
  set (IL := parse256 (firstn 32 I)).
  destruct (n <=? IL); [reflexivity|].
  assert (Hk : point_of Pt smul gen ((IL + xk x) mod n) = add (point_of Pt smul gen IL) P).
  { unfold point_of, P. apply (g_smul_add_mod Pt add zero neg smul gen n GL). }
  destruct ((IL + xk x) mod n =? 0) eqn:Ez.
  - apply Z.eqb_eq in Ez.
    assert (Hz : add (point_of Pt smul gen IL) P = zero).
    { rewrite <- Hk. unfold point_of. apply (g_smul_mod_zero Pt add zero neg smul gen n GL). exact Ez. }
    apply is_zero_spec in Hz. rewrite Hz. reflexivity.
  - apply Z.eqb_neq in Ez.
    destruct (is_zero (add (point_of Pt smul gen IL) P)) eqn:Eq.
    + exfalso. apply is_zero_spec in Eq. rewrite <- Hk in Eq. unfold point_of in Eq.
      apply (g_smul_mod_zero Pt add zero neg smul gen n GL) in Eq. contradiction.
    + cbn [option_map xk xc xm]. rewrite Hk. reflexivity.
Qed.

(* lifted to paths: deriving a non-hardened path privately and neutering = deriving it publicly *)
Lemma derive_commute (l : list Z) : forall x,
  Forall (fun i => 0 <= i < two31) l ->
  option_map N (derive_priv x l) = derive_pub (N x) l.
Proof.
  induction l as [|i r IH]; intros x Hl.
  - reflexivity.
  - inversion Hl as [|? ? Hi Hr]; subst.
    pose proof (ckd_commute x i Hi) as Hc. unfold ckd_priv, ckd_pub in Hc.
    unfold derive_priv, derive_pub. cbn [spec_derive_priv spec_derive_pub].
    rewrite <- Hc.
    destruct (spec_ckd_priv Pt smul gen n serP HM H160 x i) as [y|]; cbn [option_map obind].
    + apply IH. exact Hr.
    + reflexivity.
Qed.

Lemma derive_priv_app (l1 l2 : list Z) : forall x,
  derive_priv x (l1 ++ l2) = obind (derive_priv x l1) (fun y => derive_priv y l2).
Proof.
  induction l1 as [|i r IH]; intros x.
  - reflexivity.
  - unfold derive_priv. cbn [app spec_derive_priv].
    destruct (spec_ckd_priv Pt smul gen n serP HM H160 x i) as [y|]; cbn [obind]; [apply IH | reflexivity].
Qed.

Lemma derive_pub_app (l1 l2 : list Z) : forall x,
  derive_pub x (l1 ++ l2) = obind (derive_pub x l1) (fun y => derive_pub y l2).
Proof.
  induction l1 as [|i r IH]; intros x.
  - reflexivity.
  - unfold derive_pub. cbn [app spec_derive_pub].
    destruct (spec_ckd_pub Pt add smul gen n is_zero serP HM H160 x i) as [y|]; cbn [obind]; [apply IH | reflexivity].
Qed.

(* every split point: derive l1 privately (hardened elements allowed), neuter, derive the non-hardened
   suffix l2 publicly — the same public key as deriving l1 ++ l2 privately and neutering at the end *)
Lemma path_split (x : xprv) (l1 l2 : list Z) :
  Forall (fun i => 0 <= i < two31) l2 ->
  option_map N (derive_priv x (l1 ++ l2)) = obind (derive_priv x l1) (fun y => derive_pub (N y) l2).
Proof.
  intros Hl. rewrite derive_priv_app.
  destruct (derive_priv x l1) as [y|]; cbn [obind]; [|reflexivity].
  apply derive_commute. exact Hl.
Qed.

(* and any two split points of a non-hardened suffix agree with each other *)
Lemma path_split_any (x : xprv) (l1 l2 l3 : list Z) :
  Forall (fun i => 0 <= i < two31) l2 -> Forall (fun i => 0 <= i < two31) l3 ->
  obind (derive_priv x l1) (fun y => derive_pub (N y) (l2 ++ l3)) =
  obind (derive_priv x (l1 ++ l2)) (fun y => derive_pub (N y) l3).
Proof.
  intros H2 H3.
  rewrite <- (path_split x l1 (l2 ++ l3)) by (apply Forall_app; split; assumption).
  rewrite app_assoc. apply path_split. exact H3.
Qed.

End Commute.
