(* Proofs/EvalSession.v — several evaluations in one process (Model/EvalSession.v): the fold over the object
   store is a MAP of the stateless evaluate; what an evaluation answers depends only on the commands the object
   was built with, on the message and on the env_data in force for that call — never on what was evaluated
   before (same object or another one), in particular never on an earlier signature check of the same
   signature / key under another message. *)
From Coq Require Import ZArith List Bool Lia.
From Coq.Strings Require Import Byte.
From Verif Require Import Lib.Bytes Gen.GenConsts Model.Wire Model.EvalLib Model.EvalCore Model.EvalSession
  Proofs.ScriptNum Proofs.EvalNum Proofs.EvalOps Proofs.EvalRun Proofs.EvalIf Proofs.EvalStd.
Import ListNotations.
Open Scope Z_scope.

(* what of an object takes part in later evaluations *)
Definition proj_obj (o : sobj) : binding := (o_cmds o, o_msg o, o_env o).
Definition proj (st : store) : bstore := map (fun p => (fst p, proj_obj (snd p))) st.

Lemma zassoc_proj id st : zassoc id (proj st) = option_map proj_obj (zassoc id st).
Proof.
  induction st as [|[k o] st IH]; [reflexivity|]. cbn [proj map fst snd zassoc].
  destruct (id =? k); [reflexivity|exact IH].
Qed.

(* the commands an object name stands for after a list of steps: those of its latest constructor call *)
Fixpoint cmds_of (id : Z) (pre : list sstep) (acc : option (list scmd)) : option (list scmd) :=
  match pre with
  | [] => acc
  | SNew i c _ _ :: r => cmds_of id r (if id =? i then Some c else acc)
  | SEval _ _ _ :: r => cmds_of id r acc
  end.

Section Sess.
  Variable h_ripemd160 h_sha1 h_sha256 : bytes -> bytes.
  Variable sc : sigoracle.

  Notation lsession := (lib_session h_ripemd160 h_sha1 h_sha256 sc).
  Notation lstep := (lib_step h_ripemd160 h_sha1 h_sha256 sc).
  Notation sobs_of := (stateless_obs h_ripemd160 h_sha1 h_sha256 sc).

  Lemma step_is_stateless st x :
    proj (fst (lstep st x)) = fst (res_step (proj st) x) /\
    snd (lstep st x) = sobs_of (snd (res_step (proj st) x)).
  Proof.
    destruct x as [id cmds msg ev|id msg ev]; cbn [lib_step res_step fst snd].
    - split; reflexivity.
    - rewrite zassoc_proj. destruct (zassoc id st) as [o|]; cbn [option_map].
      + unfold proj_obj at 1. cbn [fst snd]. split; reflexivity.
      + split; reflexivity.
  Qed.

  Lemma session_is_map_gen xs : forall st, lsession st xs = map sobs_of (resolve (proj st) xs).
  Proof.
    induction xs as [|x r IH]; intros st; [reflexivity|].
    cbn [lib_session resolve].
    destruct (step_is_stateless st x) as [P O].
    destruct (lstep st x) as [st' o]. destruct (res_step (proj st) x) as [b' ro].
    cbn [fst snd] in P, O. cbn [map]. rewrite O, IH, P. reflexivity.
  Qed.

  (* THE no-hidden-state statement *)
  Lemma session_is_map xs : lsession [] xs = map sobs_of (resolve [] xs).
  Proof. exact (session_is_map_gen xs []). Qed.

  (* ---------- resolution of a step inside a session ---------- *)

  Fixpoint res_state (b : bstore) (xs : list sstep) : bstore :=
    match xs with [] => b | x :: r => res_state (fst (res_step b x)) r end.

  Lemma resolve_app b xs ys : resolve b (xs ++ ys) = resolve b xs ++ resolve (res_state b xs) ys.
  Proof.
    revert b. induction xs as [|x r IH]; intros b; [reflexivity|].
    cbn [app resolve res_state]. destruct (res_step b x) as [b' o]. cbn [fst]. rewrite IH. reflexivity.
  Qed.

  Lemma resolve_length b xs : length (resolve b xs) = length xs.
  Proof.
    revert b. induction xs as [|x r IH]; intros b; [reflexivity|].
    cbn [resolve]. destruct (res_step b x) as [b' o]. cbn [length]. rewrite IH. reflexivity.
  Qed.

  Definition bound_cmds (id : Z) (b : bstore) : option (list scmd) :=
    option_map (fun t : binding => fst (fst t)) (zassoc id b).

  Lemma res_state_cmds id xs : forall b, bound_cmds id (res_state b xs) = cmds_of id xs (bound_cmds id b).
  Proof.
    induction xs as [|x r IH]; intros b; [reflexivity|].
    cbn [res_state cmds_of]. rewrite IH. destruct x as [i c m ev|i m ev]; cbn [res_step fst].
    - unfold bound_cmds at 1. cbn [zassoc]. destruct (id =? i); reflexivity.
    - destruct (zassoc i b) as [[[c0 m0] e0]|] eqn:Z0; cbn [fst]; [|reflexivity].
      unfold bound_cmds at 1. cbn [zassoc]. destruct (Z.eqb_spec id i) as [->|Hne]; [|reflexivity].
      cbn [option_map fst]. unfold bound_cmds. rewrite Z0. reflexivity.
  Qed.

  (* an evaluate call that names message and env_data: its answer is a function of the constructor's commands
     and of these two arguments — whatever happened before it, whatever follows *)
  Lemma explicit_eval_ignores_history pre rest id m e :
    nth (length pre) (lsession [] (pre ++ SEval id (Some m) (Some e) :: rest)) ONew =
    match cmds_of id pre None with
    | Some c => ORes (lib_eval h_ripemd160 h_sha1 h_sha256 (sc (Some m)) e c)
    | None => OMissing
    end.
  Proof.
    rewrite session_is_map, resolve_app, map_app.
    rewrite app_nth2 by (rewrite map_length, resolve_length; lia).
    rewrite map_length, resolve_length, Nat.sub_diag.
    cbn [resolve]. pose proof (res_state_cmds id pre []) as C. cbn in C.
    destruct (res_step (res_state [] pre) (SEval id (Some m) (Some e))) as [b' o] eqn:R.
    cbn [map nth]. cbn [res_step] in R. unfold bound_cmds in C.
    destruct (zassoc id (res_state [] pre)) as [[[c0 m0] e0]|]; cbn [option_map fst] in C;
      inversion R; subst; rewrite <- C; reflexivity.
  Qed.

  (* every observed evaluation is the stateless evaluation of the triple the step resolves to *)
  Lemma session_obs_inv xs i r :
    nth_error (lsession [] xs) i = Some (ORes r) ->
    exists c m e, nth_error (resolve [] xs) i = Some (REval c m e) /\
                  r = lib_eval h_ripemd160 h_sha1 h_sha256 (sc m) e c.
  Proof.
    rewrite session_is_map, nth_error_map. intros H.
    destruct (nth_error (resolve [] xs) i) as [[| |c m e]|]; cbn [option_map stateless_obs] in H; try discriminate H.
    exists c, m, e. split; [reflexivity|]. inversion H. reflexivity.
  Qed.

  Lemma core_session_nth fl xs i c m e :
    nth_error (resolve [] xs) i = Some (REval c m e) ->
    nth_error (core_session h_ripemd160 h_sha1 h_sha256 sc fl xs) i =
    Some (Some (core_eval h_ripemd160 h_sha1 h_sha256 (sc m) e fl c)).
  Proof. intros H. unfold core_session. rewrite nth_error_map, H. reflexivity. Qed.

  (* ---------- agreement with consensus, evaluation by evaluation ---------- *)
  Variable fl : flags.
  Hypothesis h_ripemd160_good : forall x, good (h_ripemd160 x).
  Hypothesis h_sha1_good : forall x, good (h_sha1 x).
  Hypothesis h_sha256_good : forall x, good (h_sha256 x).

  (* a script that consensus rejects UNDER THE MESSAGE OF THAT EVALUATION is not reported valid, wherever in a
     session it is evaluated (a signature accepted earlier under another message does not help) *)
  Lemma session_never_valid_structured xs i r :
    nth_error (lsession [] xs) i = Some (ORes r) -> r_verdict r = Valid ->
    exists c m e cv,
      nth_error (resolve [] xs) i = Some (REval c m e) /\
      nth_error (core_session h_ripemd160 h_sha1 h_sha256 sc fl xs) i = Some (Some cv) /\
      cv = core_eval h_ripemd160 h_sha1 h_sha256 (sc m) e fl c /\
      (structured c -> fst cv = Valid).
  Proof.
    intros H V. destruct (session_obs_inv xs i r H) as (c & m & e & R & ->).
    exists c, m, e, (core_eval h_ripemd160 h_sha1 h_sha256 (sc m) e fl c).
    split; [exact R|]. split; [apply core_session_nth; exact R|]. split; [reflexivity|].
    intros S. apply never_valid_structured; assumption.
  Qed.

  Lemma session_agrees_structured xs i r :
    nth_error (lsession [] xs) i = Some (ORes r) ->
    exists c m e,
      nth_error (resolve [] xs) i = Some (REval c m e) /\
      (structured c -> r_verdict r <> CrashIndex ->
       agree r (core_eval h_ripemd160 h_sha1 h_sha256 (sc m) e fl c)).
  Proof.
    intros H. destruct (session_obs_inv xs i r H) as (c & m & e & R & ->).
    exists c, m, e. split; [exact R|]. intros S NC. apply agree_if_eval; assumption.
  Qed.
End Sess.

(* ---------- witnesses ---------- *)

(* a signature oracle that accepts exactly under message 0a (any signature, any key) *)
Definition sc_demo : sigoracle :=
  fun m _ _ => match m with Some [x0a] => SigValid | Some _ => SigInvalid | None => SigRaise end.

Definition demo_spend : list scmd := p2pk_spend [x30; x01; x02; x03; x04; x05] [x02; x01; x02; x03; x04; x05].

(* one object: valid under 0a, replayed under 0b (invalid), evaluate() without message keeps 0b (invalid),
   0a again (valid); a second object built meanwhile does not disturb it; the stack left behind by a run
   ( 7 8 on the second object ) is not seen by the next run *)
Definition demo_session : list sstep :=
  [SNew 1 demo_spend None None; SEval 1 (Some [x0a]) None; SEval 1 (Some [x0b]) None;
   SNew 2 [COp 87; COp 88; COp 81] (Some [x0a]) None; SEval 1 None None; SEval 2 None None; SEval 2 None None;
   SEval 1 (Some [x0a]) (Some env1)].

Lemma demo_session_obs :
  map (fun o => match o with ORes r => Some (r_verdict r, r_stack r) | _ => None end)
      (lib_session consth consth consth sc_demo [] demo_session) =
  [None; Some (Valid, []); Some (Invalid, []); None; Some (Invalid, []); Some (Valid, [[x08]; [x07]]);
   Some (Valid, [[x08]; [x07]]); Some (Valid, [])].
Proof. vm_compute. reflexivity. Qed.

Lemma demo_session_core :
  map (option_map fst) (core_session consth consth consth sc_demo consensus_flags demo_session) =
  [None; Some Valid; Some Invalid; None; Some Invalid; Some Valid; Some Valid; Some Valid].
Proof. vm_compute. reflexivity. Qed.
