(* Proofs/KeyFormatSession.v — C12: several export calls on ONE Key / HDKey object.

   The model has no hidden state: [session] threads only the visible fields ([sstate]) through the calls, and every answer
   is the stateless exporter applied to the fields as they are at that moment.  The statements here say so in the forms
   that are used against the implementation:
     - session_is_map_of_stateless_exports   the answers are the map of [sop_answer] over (fields before the call, call);
     - session_app / session_nth_answer      the answer of a call depends on the earlier calls only through the fields;
     - pure_export_keeps_fields              wif / wif_key / wif_private / wif_public / HDKey.wif with any arguments
                                             (child_index included, since fixes/C03-8) /
                                             as_hex / as_bytes / int / encrypt / address() leave the fields alone, so
                                             repeating them, or calling them with other prefixes first, changes nothing;
     - the default-argument exporters are the ones the round-trip theorems are about (lib_wif, lib_xkey).
   The obligation on the implementation ("session/no-hidden-state": the object answers as the model does, call by call)
   is discharged by the differential correspondence on the request kind [seq]. *)
From Coq Require Import ZArith List Bool Lia.
From Coq Require String.
From Coq.Strings Require Import Byte.
From Verif Require Import Lib.Bytes Gen.GenConsts Gen.GenNetworks Crypto.Sha256 Model.Base58 Model.KeyFormat
  Proofs.KeyFormatBase Proofs.KeyFormatWif Proofs.KeyFormatXkey Proofs.KeyFormatFinal.
Import ListNotations.
Import Coq.Strings.String.StringSyntax.
Open Scope Z_scope.

(* ------------------------------------------------------------------ default arguments *)
Lemma lib_wif_with_default oc k : lib_wif_with oc k None = lib_wif oc k.
Proof. reflexivity. Qed.

Lemma lib_xkey_with_default pubser oc k want :
  lib_xkey_with pubser oc k (Some want) None None None None = lib_xkey pubser oc k want.
Proof.
  unfold lib_xkey_with, lib_xkey, xk_prefix, xk_child, xk_witness, xk_multisig, xk_want.
  destruct want; reflexivity.
Qed.

(* wif_private() / wif_public() with arguments that only repeat the object's own values are the default call *)
Lemma lib_xkey_with_own_values pubser oc k want :
  lib_xkey_with pubser oc k (Some want) (Some (km_child k)) None (Some (km_witness k)) (Some (km_multisig k)) =
  lib_xkey pubser oc k want.
Proof.
  unfold lib_xkey_with, lib_xkey, xk_prefix, xk_child, xk_witness, xk_multisig, xk_want.
  assert (W : (if String.eqb (km_witness k) "" then
                 (if String.eqb (km_witness k) "" then default_witness else km_witness k) else km_witness k) =
              (if String.eqb (km_witness k) "" then default_witness else km_witness k))
    by (destruct (String.eqb (km_witness k) ""); reflexivity).
  rewrite W.
  assert (M : (match Some (km_multisig k) with Some true => true | _ => km_multisig k end) = km_multisig k)
    by (destruct (km_multisig k); reflexivity).
  rewrite M. destruct want; reflexivity.
Qed.

(* ------------------------------------------------------------------ a session is the map of the stateless exports *)
Section Session.
Variable pubser : bool.
Variable oc : bytes -> bool.

Notation answer := (sop_answer pubser oc).
Notation step := sop_step.
Notation run := (session pubser oc).
Notation states := session_states.
Notation final := session_final.

Lemma session_is_map s ops :
  run s ops = map (fun p => answer (fst p) (snd p)) (combine (states s ops) ops).
Proof.
  revert s. induction ops as [|op r IH]; intros s; [reflexivity|].
  cbn [session session_states combine map fst snd]. rewrite IH. reflexivity.
Qed.

Lemma session_length s ops : length (run s ops) = length ops.
Proof. revert s. induction ops as [|op r IH]; intros s; [reflexivity|]. cbn [session length]. rewrite IH. reflexivity. Qed.

Lemma session_app s a b : run s (a ++ b) = run s a ++ run (final s a) b.
Proof.
  revert s. induction a as [|op r IH]; intros s; [reflexivity|].
  cbn [app session]. unfold session_final. cbn [fold_left]. rewrite IH. reflexivity.
Qed.

(* the answer of a call depends on the calls before it only through the fields they leave *)
Lemma session_nth_answer s a op b d :
  nth (length a) (run s (a ++ op :: b)) d = answer (final s a) op.
Proof.
  rewrite session_app. rewrite app_nth2; rewrite session_length; [|lia].
  rewrite Nat.sub_diag. reflexivity.
Qed.

Lemma session_same_fields_same_answer s a a' op b b' d :
  final s a = final s a' ->
  nth (length a) (run s (a ++ op :: b)) d = nth (length a') (run s (a' ++ op :: b')) d.
Proof. intros E. rewrite !session_nth_answer, E. reflexivity. Qed.

(* ------------------------------------------------------------------ calls that leave the fields alone *)
Definition pure_export (op : sop) : bool :=
  match op with
  | SWif _ | SXkey _ _ _ _ _ | SHex _ | SBytes _ | SInt | SOpaque | SAddr None => true
  | _ => false
  end.

Lemma xkey_export_is_pure isp child prefix wt ms : pure_export (SXkey isp child prefix wt ms) = true.
Proof. reflexivity. Qed.

Lemma pure_export_keeps_fields s op : pure_export op = true -> step s op = s.
Proof.
  destruct op as [p|isp child prefix wt ms|name| |c|private|private| |]; cbn [pure_export]; intros H; try discriminate;
    try reflexivity.
  destruct c; [discriminate | reflexivity].
Qed.

Lemma pure_exports_keep_fields s ops : forallb pure_export ops = true -> final s ops = s.
Proof.
  revert s. induction ops as [|op r IH]; intros s H; [reflexivity|]. cbn [forallb] in H.
  apply andb_true_iff in H. destruct H as [H1 H2]. unfold session_final. cbn [fold_left].
  rewrite (pure_export_keeps_fields s op H1). apply IH. exact H2.
Qed.

(* whatever was exported before — with any version bytes, any witness type, any number of times — the next call answers
   as on a fresh object with the same fields *)
Lemma export_after_pure_exports s ops op rest d :
  forallb pure_export ops = true ->
  nth (length ops) (run s (ops ++ op :: rest)) d = answer s op.
Proof. intros H. rewrite session_nth_answer, (pure_exports_keep_fields s ops H). reflexivity. Qed.

(* hk.wif(child_index=c) then hk.wif_private(): the second answer carries the object's own child number *)
Lemma xkey_after_explicit_child s isp c prefix wt ms want :
  run s [SXkey isp (Some c) prefix wt ms; SXkey (Some want) None None None None] =
  [AText (lib_xkey_with pubser oc (ss_km s) isp (Some c) prefix wt ms); AText (lib_xkey pubser oc (ss_km s) want)].
Proof. cbn [session sop_answer sop_step]. rewrite lib_xkey_with_default. reflexivity. Qed.

(* k.wif(prefix=p) then k.wif(): the second answer is the plain WIF of the current fields *)
Lemma wif_after_explicit_prefix s p :
  run s [SWif (Some p); SWif None] = [AText (lib_wif_with oc (ss_wif_view s) (Some p)); AText (lib_wif oc (ss_wif_view s))].
Proof. reflexivity. Qed.

(* hk.wif_key(); hk.network_change(n); hk.wif_key(): the second WIF is the WIF on the new network *)
Lemma wif_after_network_change s name :
  network_defined name = true ->
  run s [SWif None; SNet name; SWif None] =
  [AText (lib_wif oc (ss_wif_view s)); ADone (Ok tt);
   AText (lib_wif oc (km_set_network (ss_wif_view s) name))].
Proof. intros H. cbn [session sop_answer sop_step]. rewrite H. reflexivity. Qed.

(* k.address(compressed=b) then k.wif(): the flag byte follows the compressed attribute *)
Lemma wif_after_address_compressed s b :
  run s [SWif None; SAddr (Some b); SWif None] =
  [AText (lib_wif oc (ss_wif_view s)); AComp b; AText (lib_wif oc (km_set_compressed (ss_km s) b))].
Proof. reflexivity. Qed.

(* ------------------------------------------------------------------ what a session cannot change *)
Definition key_material (k : keymeta) := (km_pubc k, km_pubu k, km_compressed k, km_chain k, km_depth k, km_fp k, km_witness k, km_multisig k).

Lemma step_keeps_key_material s op : key_material (ss_km (step s op)) = key_material (ss_km s).
Proof.
  destruct op as [p|isp child prefix wt ms|name| |c|private|private| |]; cbn [sop_step]; try reflexivity.
  - destruct (network_defined name); reflexivity.
  - destruct c; reflexivity.
Qed.

Lemma session_keeps_key_material s ops : key_material (ss_km (final s ops)) = key_material (ss_km s).
Proof.
  revert s. induction ops as [|op r IH]; intros s; [reflexivity|]. unfold session_final. cbn [fold_left].
  fold (session_final (step s op) r). rewrite IH. apply step_keeps_key_material.
Qed.

(* the secret is either still there, unchanged, or gone (public()) *)
Lemma step_secret s op :
  (km_private (ss_km (step s op)) = km_private (ss_km s) /\ km_secret (ss_km (step s op)) = km_secret (ss_km s)) \/
  km_private (ss_km (step s op)) = false.
Proof.
  destruct op as [p|isp child prefix wt ms|name| |c|private|private| |]; cbn [sop_step]; try (left; split; reflexivity).
  - destruct (network_defined name); left; split; reflexivity.
  - right. reflexivity.
  - destruct c; left; split; reflexivity.
Qed.

Lemma step_private_monotone s op : km_private (ss_km s) = false -> km_private (ss_km (step s op)) = false.
Proof. intros H. destruct (step_secret s op) as [[E _]|E]; [rewrite E; exact H | exact E]. Qed.

Lemma session_secret s ops :
  km_private (ss_km (final s ops)) = true ->
  km_private (ss_km s) = true /\ km_secret (ss_km (final s ops)) = km_secret (ss_km s).
Proof.
  revert s. induction ops as [|op r IH]; intros s H; [split; [exact H | reflexivity]|].
  unfold session_final in *. cbn [fold_left] in *. destruct (IH _ H) as [P S].
  destruct (step_secret s op) as [[E1 E2]|E]; [|rewrite E in P; discriminate].
  split; [rewrite <- E1; exact P | rewrite S; exact E2].
Qed.

(* ------------------------------------------------------------------ round trips at the end of any session *)
(* after ANY calls: if the object still holds its secret, its plain WIF export imports back — with the network the
   object has NOW and the compressed attribute it has NOW *)
Lemma session_wif_roundtrip fold k ops n :
  let s := final (ss_init k) ops in
  In n all_networks -> km_network (ss_km s) = nw_name n -> km_private (ss_km s) = true ->
  length (km_secret k) = 32%nat -> 0 < of_be (km_secret k) < secp256k1_n ->
  exists w,
    nth (length ops) (run (ss_init k) (ops ++ [SWif None])) (ADone (Ok tt)) = AText (Ok w) /\
    (forall h c ip, network_defined h = true ->
       lib_key_import fold true oc (KStr w) (Some h) c ip = Ok (wif_key_obj (km_secret k) (ss_compressed s) h)) /\
    (forall ip, exists i, lib_get_key_format fold true (KStr w) ip = KfOk i /\ kf_private i = true /\
                          kf_format i = if ss_compressed s then FWifCompressed else FWif).
Proof.
  intros s Hn Hnet Hp Hlen Hrange.
  destruct (session_secret (ss_init k) ops Hp) as [_ Hsec]. cbn [ss_init ss_km] in Hsec. fold s in Hsec.
  pose proof (wif_roundtrip_lemma fold oc n (ss_wif_view s) Hn) as R.
  cbn [ss_wif_view km_set_compressed km_private km_secret km_network km_compressed] in R.
  rewrite Hsec in R. specialize (R Hp Hlen Hrange Hnet).
  destruct R as [w [E [_ [G [I _]]]]]. exists w. split; [|split].
  - rewrite session_nth_answer. fold s. cbn [sop_answer]. rewrite lib_wif_with_default.
    unfold ss_wif_view, km_set_compressed. rewrite Hsec in *. rewrite <- E. f_equal. f_equal.
    rewrite <- Hsec. reflexivity.
  - exact I.
  - intros ip. eexists. split; [apply G|]. split; reflexivity.
Qed.

(* after ANY calls, HDKey.wif_private() / wif_public() / wif() write the text of the table row of the CURRENT network,
   witness type and multisig flag with the CURRENT depth / child number: the default exporter of the current fields *)
Lemma session_xkey_is_stateless_export s ops want rest d :
  nth (length ops) (run s (ops ++ SXkey (Some want) None None None None :: rest)) d =
  AText (lib_xkey pubser oc (ss_km (final s ops)) want).
Proof. rewrite session_nth_answer. cbn [sop_answer]. rewrite lib_xkey_with_default. reflexivity. Qed.

End Session.

(* ------------------------------------------------------------------ non-vacuity: the two histories of seed class "stale WIF" *)
Definition session_km : keymeta :=
  {| km_private := true; km_secret := repeat x00 7 ++ [xa3] ++ repeat x5c 24; km_pubc := x02 :: repeat x33 32;
     km_pubu := x04 :: repeat x33 64; km_compressed := true; km_chain := repeat x5a 32; km_depth := 0;
     km_fp := repeat x00 4; km_child := 0; km_network := "bitcoin"%string; km_witness := "segwit"%string;
     km_multisig := false |}.

Lemma session_concrete :
  match session true (fun _ => true) (ss_init session_km)
          [SWif (Some [xb0]); SWif None; SNet "testnet"%string; SWif None; SAddr (Some false); SWif None; SPublic; SWif None] with
  | [AText (Ok w_ltc); AText (Ok w_btc); ADone (Ok tt); AText (Ok w_test); AComp false; AText (Ok w_unc); ADone (Ok tt);
     AText (Err EKey)] =>
      lib_key_import false true (fun _ => true) (KStr w_ltc) (Some "litecoin"%string) true None =
        Ok (wif_key_obj (km_secret session_km) true "litecoin"%string) /\
      lib_key_import false true (fun _ => true) (KStr w_btc) None true None =
        Ok (wif_key_obj (km_secret session_km) true "bitcoin"%string) /\
      lib_key_import false true (fun _ => true) (KStr w_test) None true None =
        Ok (wif_key_obj (km_secret session_km) true "testnet"%string) /\
      lib_key_import false true (fun _ => true) (KStr w_unc) None true None =
        Ok (wif_key_obj (km_secret session_km) false "testnet"%string)
  | _ => False
  end.
Proof. vm_compute. repeat split; reflexivity. Qed.

(* ---- the compression marker of the 'bin_compressed' form sits behind a 32 / 64 / 128-byte key only: a 32-byte secret (what the
   BIP38 decryption of a compressed key hands to Key.__init__ in this form) keeps every byte, whatever its last byte is *)
Lemma bin_compressed_32_keeps_every_byte : forall fold wc b compressed,
  length b = 32%nat -> key_private_part fold wc (KBytes b) FBinCompressed compressed = Ok (b, true).
Proof. intros fold wc b c H. unfold key_private_part. rewrite H. reflexivity. Qed.

Lemma bin_compressed_marker_only_at_33_65_129 : forall fold wc b compressed,
  length b <> 33%nat -> length b <> 65%nat -> length b <> 129%nat ->
  key_private_part fold wc (KBytes b) FBinCompressed compressed = Ok (b, true).
Proof.
  intros fold wc b c H1 H2 H3. unfold key_private_part.
  apply Nat.eqb_neq in H1. apply Nat.eqb_neq in H2. apply Nat.eqb_neq in H3.
  rewrite H1, H2, H3. reflexivity.
Qed.
