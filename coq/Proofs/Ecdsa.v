(* Proofs/Ecdsa.v — lemmas about the library-level ECDSA model (C13): ranges and low S of what lib_sign returns,
   its encoding, the nonce source, parse_bytes against the strict reader, verify against the standard verifier. *)
From Coq Require Import ZArith List Bool Lia Znumtheory.
From Coq.Strings Require Import Byte.
From Verif Require Import Lib.Bytes Crypto.Sha256 Crypto.Hmac Crypto.Secp256k1 Crypto.EcdsaAlgebra.
From Verif Require Import Model.Wire Model.Der Model.Ecdsa Proofs.ScriptNum Proofs.ScriptCodec Proofs.Der.
Import ListNotations.
Open Scope Z_scope.

(* ---------------------------------------------------------------- constants *)

Lemma secp_n_pos : 0 < secp_n.
Proof. unfold secp_n. lia. Qed.

Lemma secp_n_lt_2_256 : secp_n < 2 ^ 256.
Proof. apply Z.ltb_lt. vm_compute. reflexivity. Qed.

(* n is odd: n = 2 * (n / 2) + 1, hence n / 2 = (n - 1) / 2 *)
Lemma secp_n_half : secp_n = 2 * (secp_n / 2) + 1.
Proof. vm_compute. reflexivity. Qed.

Lemma secp_n_half' : (secp_n - 1) / 2 = secp_n / 2.
Proof. vm_compute. reflexivity. Qed.

Lemma in_range_spec v : in_range v = true <-> 1 <= v < secp_n.
Proof.
  unfold in_range. rewrite andb_true_iff, Z.leb_le, Z.ltb_lt. reflexivity.
Qed.

(* ---------------------------------------------------------------- signing *)

Lemma ecdsa_sign_range d z k r s : ecdsa_sign d z k = Some (r, s) -> 1 <= r < secp_n /\ 1 <= s < secp_n.
Proof.
  unfold ecdsa_sign. destruct (pt_mul k secp_G) as [[x y]|]; [|discriminate]. cbv zeta.
  destruct ((x mod secp_n =? 0) || _) eqn:E; [discriminate|]. intros H.
  apply orb_false_iff in E. destruct E as [E1 E2]. apply Z.eqb_neq in E1. apply Z.eqb_neq in E2.
  assert (r = x mod secp_n) by congruence.
  assert (s = (inv_mod k secp_n * (z + x mod secp_n * d)) mod secp_n) by congruence.
  pose proof secp_n_pos as Hn.
  pose proof (Z.mod_pos_bound x secp_n Hn).
  pose proof (Z.mod_pos_bound (inv_mod k secp_n * (z + x mod secp_n * d)) secp_n Hn). lia.
Qed.

Lemma lib_low_s_eq s : lib_low_s s = if secp_n / 2 <? s then secp_n - s else s.
Proof. reflexivity. Qed.

Lemma lib_low_s_range s : 1 <= s < secp_n -> 1 <= lib_low_s s <= (secp_n - 1) / 2.
Proof.
  intros Hs. rewrite secp_n_half', lib_low_s_eq. pose proof secp_n_half as Hh.
  set (h := secp_n / 2) in *. destruct (h <? s) eqn:E; [apply Z.ltb_lt in E|apply Z.ltb_ge in E]; lia.
Qed.

(* the low-S step is the textbook one and lands on s or n - s *)
Lemma lib_low_s_is_spec s : lib_low_s s = ecdsa_low_s s.
Proof. reflexivity. Qed.

Lemma lib_low_s_twin s : lib_low_s s = s \/ lib_low_s s = secp_n - s.
Proof. rewrite lib_low_s_eq. destruct (_ <? _); auto. Qed.

Lemma lib_sign_with_eq low d msg k ht : lib_sign_with low d msg k ht =
  let dg := lib_digest msg in
  if (1 <=? d) && (d <? secp_n) then
    match ecdsa_sign d (lib_z dg) (lib_pick_nonce d dg k) with
    | None => None
    | Some (r, s0) =>
        let s := low s0 in
        if (0 <=? ht) && (ht <? 256) then Some (r, s, der_enc r s ++ [zb ht]) else None
    end
  else None.
Proof. reflexivity. Qed.

(* everything lib_sign returns comes from the textbook signer at the digest / nonce the code derives *)
Lemma lib_sign_inv low d msg k ht r s enc : lib_sign_with low d msg k ht = Some (r, s, enc) ->
  exists s0, ecdsa_sign d (lib_z (lib_digest msg)) (lib_pick_nonce d (lib_digest msg) k) = Some (r, s0) /\
             s = low s0 /\ enc = der_enc r s ++ [zb ht] /\ 0 <= ht < 256 /\ 1 <= d < secp_n.
Proof.
  rewrite lib_sign_with_eq. cbv zeta.
  destruct ((1 <=? d) && (d <? secp_n)) eqn:Ed; [|discriminate].
  apply andb_true_iff in Ed. destruct Ed as [Ed1 Ed2]. apply Z.leb_le in Ed1. apply Z.ltb_lt in Ed2.
  destruct (ecdsa_sign _ _ _) as [[r0 s0]|]; [|discriminate].
  destruct ((0 <=? ht) && (ht <? 256)) eqn:Eh; [|discriminate]. intros H.
  apply andb_true_iff in Eh. destruct Eh as [E1 E2]. apply Z.leb_le in E1. apply Z.ltb_lt in E2.
  exists s0. assert (r = r0) by congruence. subst r0.
  assert (s = low s0) by congruence. subst s.
  repeat split; try lia. congruence.
Qed.

(* lib_sign_low_s: every signature lib_sign returns has r in [1, n-1] and 1 <= s <= (n-1)/2 *)
Lemma lib_sign_low_s d msg k ht r s enc : lib_sign d msg k ht = Some (r, s, enc) ->
  1 <= r < secp_n /\ 1 <= s <= (secp_n - 1) / 2.
Proof.
  intros H. destruct (lib_sign_inv _ _ _ _ _ _ _ _ H) as (s0 & Hs & -> & _ & _ & _).
  destruct (ecdsa_sign_range _ _ _ _ _ Hs) as [Hr Hs0]. split; [exact Hr|]. apply lib_low_s_range. exact Hs0.
Qed.

Lemma half_lt_n : (secp_n - 1) / 2 < secp_n.
Proof. apply Z.ltb_lt. vm_compute. reflexivity. Qed.

(* canonical encoding: what is returned is der_enc r s followed by the hash-type byte, passes BIP66,
   and decodes (strictly) to the same (r, s) *)
Lemma lib_sign_encoding d msg k ht r s enc : lib_sign d msg k ht = Some (r, s, enc) ->
  enc = der_enc r s ++ [zb ht] /\ is_strict_der enc = true /\ der_dec (removelast enc) = Some (r, s) /\
  spec_parse enc = Some (r, s, ht).
Proof.
  intros H. destruct (lib_sign_low_s _ _ _ _ _ _ _ H) as [Hr Hs].
  destruct (lib_sign_inv _ _ _ _ _ _ _ _ H) as (s0 & _ & _ & -> & Hht & _).
  pose proof secp_n_lt_2_256. pose proof half_lt_n.
  assert (Hr' : 0 < r < 2 ^ 256) by lia. assert (Hs' : 0 < s < 2 ^ 256) by lia.
  pose proof (der_strict r s (zb ht) Hr' Hs') as Hstrict.
  assert (Hdec : der_dec (removelast (der_enc r s ++ [zb ht])) = Some (r, s))
    by (rewrite removelast_snoc; apply der_roundtrip; assumption).
  repeat split; try assumption.
  unfold spec_parse. rewrite Hstrict, Hdec, last_last, bz_zb, Z.mod_small by lia. reflexivity.
Qed.

(* nonce_is_rfc6979: without an explicit nonce the result is the normalised textbook signature at the
   RFC 6979 nonce of (d, SHA256 (hex text of the digest)) — a function of the key and the digest only *)
Lemma lib_sign_deterministic d msg ht : 1 <= d < secp_n -> 0 <= ht < 256 ->
  lib_sign d msg None ht =
  with_der ht (spec_sign d (lib_z (lib_digest msg)) (rfc6979_nonce d (sha256 (hex_ascii (lib_digest msg))))).
Proof.
  intros Hd Hht. unfold lib_sign. rewrite lib_sign_with_eq. cbv zeta. unfold with_der, spec_sign, spec_normalise.
  replace ((1 <=? d) && (d <? secp_n)) with true
    by (symmetry; apply andb_true_iff; split; [apply Z.leb_le|apply Z.ltb_lt]; lia).
  change (lib_pick_nonce d (lib_digest msg) None) with (rfc6979_nonce d (sha256 (hex_ascii (lib_digest msg)))).
  destruct (ecdsa_sign _ _ _) as [[r s0]|]; [|reflexivity].
  replace ((0 <=? ht) && (ht <? 256)) with true; [reflexivity|].
  symmetry. apply andb_true_iff. split; [apply Z.leb_le|apply Z.ltb_lt]; lia.
Qed.

(* with an explicit non-zero nonce: the same with that nonce *)
Lemma lib_sign_explicit d msg k ht : 1 <= d < secp_n -> 0 <= ht < 256 -> k <> 0 ->
  lib_sign d msg (Some k) ht =
  with_der ht (spec_sign d (lib_z (lib_digest msg)) k).
Proof.
  intros Hd Hht Hk. unfold lib_sign. rewrite lib_sign_with_eq. cbv zeta. unfold with_der, spec_sign, spec_normalise.
  replace ((1 <=? d) && (d <? secp_n)) with true
    by (symmetry; apply andb_true_iff; split; [apply Z.leb_le|apply Z.ltb_lt]; lia).
  unfold lib_pick_nonce. destruct (k =? 0) eqn:E; [apply Z.eqb_eq in E; contradiction|].
  destruct (ecdsa_sign _ _ _) as [[r s0]|]; [|reflexivity].
  replace ((0 <=? ht) && (ht <? 256)) with true; [reflexivity|].
  symmetry. apply andb_true_iff. split; [apply Z.leb_le|apply Z.ltb_lt]; lia.
Qed.

(* ---------------------------------------------------------------- parse_bytes against the strict reader *)

(* what survives the range checks of Signature.__init__ *)
Definition filt (p : option (Z * Z * Z)) : option (Z * Z * Z) :=
  match p with
  | Some (r, s, ht) => if in_range r && in_range s then Some (r, s, ht) else None
  | None => None
  end.

Lemma is_strict_der_inv sig : is_strict_der sig = true ->
  9 <= Z.of_nat (length sig) <= 73 /\ exists rb sb, der_split (removelast sig) = Some (rb, sb).
Proof.
  unfold is_strict_der. cbv zeta. intros H.
  apply andb_true_iff in H. destruct H as [H H3]. apply andb_true_iff in H. destruct H as [H1 H2].
  apply Z.leb_le in H1. apply Z.leb_le in H2. split; [lia|].
  destruct (der_split (removelast sig)) as [[rb sb]|]; [|discriminate]. exists rb, sb. reflexivity.
Qed.

Lemma lib_sig_parse_eq dd sig : lib_sig_parse dd sig =
  if negb (Z.of_nat (length sig) =? 64) && starts_with sig 48 then
    match dd (removelast sig) with
    | Some (r, s) =>
        if (r <? 2 ^ 256) && (s <? 2 ^ 256) then Some (r, s, bz (last sig x00)) else None
    | None => None
    end
  else if (Z.of_nat (length sig) =? 64) then
    Some (of_be (firstn 32 sig), of_be (skipn 32 sig), 1)
  else None.
Proof. reflexivity. Qed.

Lemma spec_parse_eq sig : spec_parse sig =
  if is_strict_der sig then
    match der_dec (removelast sig) with
    | Some (r, s) => Some (r, s, bz (last sig x00))
    | None => None
    end
  else if (Z.of_nat (length sig) =? 64) then
    Some (of_be (firstn 32 sig), of_be (skipn 32 sig), 1)
  else None.
Proof. reflexivity. Qed.

Lemma filt_out r s ht : in_range r && in_range s = false -> forall b : bool,
  filt (if b then Some (r, s, ht) else None) = None.
Proof. intros H b. destruct b; [|reflexivity]. unfold filt. rewrite H. reflexivity. Qed.

(* outside the two recorded classes the library reads a signature exactly as the strict reader does
   (after the range checks both apply) *)
Lemma parse_agree sig : der64 sig = false -> lax_der sig = false ->
  filt (lib_parse sig) = filt (spec_parse sig).
Proof.
  intros Hshort Hlax. unfold lib_parse. rewrite lib_sig_parse_eq, spec_parse_eq.
  unfold der64 in Hshort. unfold lax_der in Hlax.
  destruct (is_strict_der sig) eqn:Es.
  - (* BIP66-valid and not 64 bytes long, so the DER branch is taken and decodes alike *)
    destruct (is_strict_der_inv sig Es) as (Hlen & rb & sb & Hsp).
    cbn [andb] in Hshort.
    assert (Hne : sig <> []) by (intros ->; cbn in Hlen; lia).
    pose proof (length_removelast _ sig Hne) as Hlr.
    destruct (der_split_inv _ _ _ Hsp) as (t & l & t2 & lr & t3 & ls & Hb & T & _).
    assert (Hst : starts_with sig 48 = true).
    { rewrite (app_removelast_last x00 Hne), Hb. cbn [app starts_with]. apply Z.eqb_eq. exact T. }
    rewrite Hshort, Hst. cbn [negb andb].
    rewrite (lib_der_dec_of_split _ rb sb Hsp) by lia.
    unfold der_dec. rewrite Hsp.
    set (r := of_be rb). set (s := of_be sb). set (ht := bz (last sig x00)).
    destruct (der_split_inv _ _ _ Hsp) as (_ & _ & _ & _ & _ & _ & _ & _ & _ & _ & _ & _ & _ & Ir & Is).
    destruct (in_range r && in_range s) eqn:Eir.
    + apply andb_true_iff in Eir. destruct Eir as [Er Er2].
      apply in_range_spec in Er. apply in_range_spec in Er2. pose proof secp_n_lt_2_256.
      destruct (lib_int_ok_or_zero rb Ir) as [Hr|Hr]; [|fold r in Hr; lia].
      destruct (lib_int_ok_or_zero sb Is) as [Hs|Hs]; [|fold s in Hs; lia].
      rewrite Hr, Hs. cbn [andb].
      replace ((r <? 2 ^ 256) && (s <? 2 ^ 256)) with true; [reflexivity|].
      symmetry. apply andb_true_iff. split; apply Z.ltb_lt; lia.
    + transitivity (@None (Z * Z * Z)).
      * destruct (lib_int_ok rb && lib_int_ok sb); [|reflexivity]. apply filt_out. exact Eir.
      * unfold filt. rewrite Eir. reflexivity.
  - (* not BIP66-valid *)
    destruct (negb (Z.of_nat (length sig) =? 64) && starts_with sig 48) eqn:Ed; [|reflexivity].
    cbn [negb andb] in Hlax.
    destruct (lib_der_dec (removelast sig)); [discriminate|].
    apply andb_true_iff in Ed. destruct Ed as [Ed _]. apply negb_true_iff in Ed. rewrite Ed. reflexivity.
Qed.

(* ---------------------------------------------------------------- verify against the standard verifier *)

Lemma lib_verify_filt dg sig Q : lib_verify dg sig Q =
  match filt (lib_parse sig) with
  | Some (r, s, _) =>
      if lib_on_curve Q && negb (length dg =? 0)%nat
      then Some (ecdsa_verify (lib_z dg) r s (reduce_pt Q)) else None
  | None => None
  end.
Proof.
  unfold lib_verify, filt. destruct (lib_parse sig) as [[[r s] ht]|]; [|reflexivity].
  destruct (in_range r && in_range s); reflexivity.
Qed.

Lemma spec_verify_filt z sig Q : spec_verify z sig Q =
  match filt (spec_parse sig) with
  | Some (r, s, _) => if spec_pub_ok Q then Some (ecdsa_verify z r s (Some Q)) else None
  | None => None
  end.
Proof.
  unfold spec_verify, filt. destruct (spec_parse sig) as [[[r s] ht]|]; [|reflexivity].
  destruct (in_range r && in_range s); reflexivity.
Qed.

Lemma reduced_on_curve Q : coords_reduced Q = true -> lib_on_curve Q = spec_pub_ok Q /\ reduce_pt Q = Some Q.
Proof.
  destruct Q as [x y]. unfold coords_reduced, lib_on_curve, spec_pub_ok, on_curve, reduce_pt. intros H.
  rewrite H. cbn [andb]. split; [reflexivity|].
  repeat (apply andb_true_iff in H; destruct H as [H ?]).
  apply Z.leb_le in H. apply Z.ltb_lt in H0. apply Z.leb_le in H1. apply Z.ltb_lt in H2.
  rewrite !Z.mod_small by lia. reflexivity.
Qed.

(* lib_verify_exact: for every digest, every byte string offered as a signature and every public-key point,
   outside the recorded classes, the library's verify is the standard verifier on the strictly decoded input;
   in particular every malformed encoding, out-of-range (r, s) and off-curve key is refused *)
Lemma lib_verify_exact dg sig Q :
  dg <> [] -> der64 sig = false -> lax_der sig = false -> coords_reduced Q = true ->
  lib_verify dg sig Q = spec_verify (lib_z dg) sig Q.
Proof.
  intros Hdg Hshort Hlax Hred. rewrite lib_verify_filt, spec_verify_filt, (parse_agree sig Hshort Hlax).
  destruct (reduced_on_curve Q Hred) as [Hoc Hrp]. rewrite Hoc, Hrp.
  destruct dg as [|b0 dg']; [contradiction|]. cbn [length Nat.eqb negb]. rewrite andb_true_r. reflexivity.
Qed.

(* acceptance form: the library says True exactly when standard ECDSA accepts *)
Lemma lib_verify_accepts_iff dg sig Q :
  dg <> [] -> der64 sig = false -> lax_der sig = false -> coords_reduced Q = true ->
  (lib_verify dg sig Q = Some true <-> spec_verify (lib_z dg) sig Q = Some true).
Proof. intros. rewrite lib_verify_exact by assumption. reflexivity. Qed.

(* ---------------------------------------------------------------- the public key given as bytes *)

(* a private key outside [1, n-1] never signs (Key() refuses it) *)
Lemma lib_sign_key_range low d msg k ht : ~ (1 <= d < secp_n) -> lib_sign_with low d msg k ht = None.
Proof.
  intros Hd. rewrite lib_sign_with_eq. cbv zeta.
  destruct ((1 <=? d) && (d <? secp_n)) eqn:E; [|reflexivity].
  apply andb_true_iff in E. destruct E as [E1 E2]. apply Z.leb_le in E1. apply Z.ltb_lt in E2. lia.
Qed.

Lemma secp_p_pos : 0 < secp_p.
Proof. unfold secp_p. lia. Qed.

Lemma cong_sub a b : a mod secp_p = b mod secp_p -> (a - b) mod secp_p = 0.
Proof. intros H. rewrite Zminus_mod, H, Z.sub_diag. apply Z.mod_0_l. pose proof secp_p_pos. lia. Qed.

Lemma sub_cong a b : (a - b) mod secp_p = 0 -> a mod secp_p = b mod secp_p.
Proof.
  intros H. pose proof secp_p_pos as Hp. pose proof (Z.div_mod (a - b) secp_p ltac:(lia)) as Hd.
  rewrite H in Hd. replace a with (b + ((a - b) / secp_p) * secp_p) by lia. apply Z_mod_plus_full.
Qed.

Lemma cong_eqb a b : (a mod secp_p =? b mod secp_p) = ((a - b) mod secp_p =? 0).
Proof.
  destruct (a mod secp_p =? b mod secp_p) eqn:E.
  - apply Z.eqb_eq in E. symmetry. apply Z.eqb_eq. apply cong_sub. exact E.
  - apply Z.eqb_neq in E. symmetry. apply Z.eqb_neq. intros H. apply E. apply sub_cong. exact H.
Qed.

Lemma powmod_pos_range e : forall b m, 0 < m -> 0 <= powmod_pos b e m < m.
Proof. destruct e; intros b m Hm; cbn [powmod_pos]; cbv zeta; apply Z.mod_pos_bound; exact Hm. Qed.

Lemma mod_sqrt_range a : 0 <= mod_sqrt a < secp_p.
Proof.
  pose proof secp_p_pos as Hp. unfold mod_sqrt, powmod. destruct secp_sqrt_exp.
  - apply Z.mod_pos_bound. exact Hp.
  - apply powmod_pos_range. exact Hp.
  - lia.
Qed.

(* the congruence survives reduction of the coordinates, and the reduced point is a curve point in SEC 1's sense *)
Lemma on_curve_reduce x y : lib_on_curve (x, y) = true -> on_curve (Some (x mod secp_p, y mod secp_p)) = true.
Proof.
  unfold lib_on_curve, on_curve. intros H. apply Z.eqb_eq in H. pose proof secp_p_pos as Hp.
  pose proof (Z.mod_pos_bound x secp_p Hp) as Hx. pose proof (Z.mod_pos_bound y secp_p Hp) as Hy.
  pose proof (Z.div_mod x secp_p ltac:(lia)) as Dx. pose proof (Z.div_mod y secp_p ltac:(lia)) as Dy.
  set (rx := x mod secp_p) in *. set (ry := y mod secp_p) in *. set (qx := x / secp_p) in *. set (qy := y / secp_p) in *.
  set (p := secp_p) in *.
  repeat (apply andb_true_iff; split); try apply Z.leb_le; try apply Z.ltb_lt; try lia.
  apply Z.eqb_eq. rewrite <- H.
  replace (y * y - (x * x * x + secp_b)) with
    ((ry * ry - (rx * rx * rx + secp_b)) +
     ((2 * qy * ry + p * qy * qy) - (3 * qx * rx * rx + 3 * p * qx * qx * rx + p * p * qx * qx * qx)) * p)
    by (rewrite Dx, Dy; ring).
  symmetry. apply Z_mod_plus_full.
Qed.

Lemma lib_pub_point_eq b : lib_pub_point b =
  match b with
  | pfx :: rest =>
      if ((bz pfx =? 2) || (bz pfx =? 3)) && (length rest =? 32)%nat then
        let x := of_be rest in
        let y2 := (x * x * x + secp_b) mod secp_p in
        let y0 := mod_sqrt y2 in
        if (secp_p <=? x) || negb ((y0 * y0) mod secp_p =? y2) then None
        else Some (x, if Bool.eqb (Z.odd y0) (bz pfx =? 3) then y0 else secp_p - y0)
      else if (bz pfx =? 4) && (length rest =? 64)%nat then
        let x := of_be (firstn 32 rest) in
        let y := of_be (skipn 32 rest) in
        let y2 := (x * x * x + secp_b) mod secp_p in
        if (secp_p <=? x) || (secp_p <=? y) || negb ((y * y) mod secp_p =? y2) then None
        else Some (x, y)
      else None
  | [] => None
  end.
Proof. reflexivity. Qed.

Lemma parse_point_eq b : parse_point b =
  match b with
  | pfx :: rest =>
      if (bz pfx =? 2) || (bz pfx =? 3) then
        if (length rest =? 32)%nat then decompress (bz pfx =? 3) (of_be rest) else None
      else if bz pfx =? 4 then
        if (length rest =? 64)%nat then
          let P := (of_be (firstn 32 rest), of_be (skipn 32 rest)) in
          if on_curve (Some P) then Some P else None
        else None
      else None
  | [] => None
  end.
Proof. reflexivity. Qed.

Lemma decompress_eq parity x : decompress parity x =
  if (x <? 0) || (secp_p <=? x) then None
  else
    let a := (x * x * x + secp_b) mod secp_p in
    let y := mod_sqrt a in
    if (y * y) mod secp_p =? a then
      Some (x, if Bool.eqb (Z.odd y) parity then y else (secp_p - y) mod secp_p)
    else None.
Proof. reflexivity. Qed.

(* Key(bytes) (strict) against SEC 1 2.3.4: refused together, or accepted together with the library's point
   passing the Signature.public_key check and reducing to the standard point, which is a valid public key *)
Definition key_agree (pk : bytes) : Prop :=
  (lib_pub_point pk = None /\ parse_point pk = None) \/
  (exists Ql Qs, lib_pub_point pk = Some Ql /\ parse_point pk = Some Qs /\
                 lib_on_curve Ql = true /\ reduce_pt Ql = Some Qs /\ spec_pub_ok Qs = true).

Lemma key_agree_built x yl : 0 <= x < secp_p -> lib_on_curve (x, yl) = true ->
  lib_on_curve (x, yl) = true /\ reduce_pt (x, yl) = Some (x, yl mod secp_p) /\ spec_pub_ok (x, yl mod secp_p) = true.
Proof.
  intros Hx Hoc. split; [exact Hoc|]. split.
  - unfold reduce_pt. rewrite (Z.mod_small x) by lia. reflexivity.
  - unfold spec_pub_ok. pose proof (on_curve_reduce x yl Hoc) as H. rewrite (Z.mod_small x) in H by lia. exact H.
Qed.

Local Opaque secp_p mod_sqrt.
Lemma lib_pub_point_spec pk : key_agree pk.
Proof.
  unfold key_agree. rewrite lib_pub_point_eq, parse_point_eq. pose proof secp_p_pos as Hp.
  destruct pk as [|pfx rest]; [left; split; reflexivity|].
  destruct ((bz pfx =? 2) || (bz pfx =? 3)) eqn:E23.
  - (* compressed prefix *)
    assert (E4 : (bz pfx =? 4) = false).
    { apply Z.eqb_neq. apply orb_true_iff in E23. destruct E23 as [E|E]; apply Z.eqb_eq in E; lia. }
    destruct (length rest =? 32)%nat eqn:EL; cbn [andb]; [|rewrite E4; cbn [andb]; left; split; reflexivity].
    cbv zeta. rewrite decompress_eq. cbv zeta.
    pose proof (of_be_range rest) as [Hx0 _].
    set (x := of_be rest) in *. set (y2 := (x * x * x + secp_b) mod secp_p). set (y0 := mod_sqrt y2).
    replace (x <? 0) with false by (symmetry; apply Z.ltb_ge; lia). cbn [orb].
    destruct (secp_p <=? x) eqn:Ex; cbn [orb]; [left; split; reflexivity|]. apply Z.leb_gt in Ex.
    destruct ((y0 * y0) mod secp_p =? y2) eqn:Ey; cbn [negb]; [|left; split; reflexivity].
    apply Z.eqb_eq in Ey. right.
    pose proof (mod_sqrt_range y2) as Hy0. fold y0 in Hy0.
    assert (Hc0 : lib_on_curve (x, y0) = true).
    { unfold lib_on_curve. apply Z.eqb_eq. apply cong_sub. rewrite Ey. reflexivity. }
    clearbody y0. clearbody y2. clearbody x.
    destruct (Bool.eqb (Z.odd y0) (bz pfx =? 3)).
    + exists (x, y0), (x, y0). split; [reflexivity|]. split; [reflexivity|].
      destruct (key_agree_built x y0 ltac:(lia) Hc0) as (A & B & C). rewrite (Z.mod_small y0) in B, C by lia. auto.
    + exists (x, secp_p - y0), (x, (secp_p - y0) mod secp_p). split; [reflexivity|]. split; [reflexivity|].
      apply key_agree_built; [lia|].
      unfold lib_on_curve in *. apply Z.eqb_eq in Hc0. apply Z.eqb_eq. rewrite <- Hc0.
      replace ((secp_p - y0) * (secp_p - y0) - (x * x * x + secp_b))
        with ((y0 * y0 - (x * x * x + secp_b)) + (secp_p - 2 * y0) * secp_p) by ring.
      apply Z_mod_plus_full.
  - cbn [andb]. destruct (bz pfx =? 4) eqn:E4; [|left; split; reflexivity].
    destruct (length rest =? 64)%nat eqn:EL; cbn [andb]; [|left; split; reflexivity].
    cbv zeta. pose proof (of_be_range (firstn 32 rest)) as [Hx0 _]. pose proof (of_be_range (skipn 32 rest)) as [Hy0 _].
    set (x := of_be (firstn 32 rest)) in *. set (y := of_be (skipn 32 rest)) in *.
    assert (Hoc : on_curve (Some (x, y)) =
                  negb ((secp_p <=? x) || (secp_p <=? y) || negb ((y * y) mod secp_p =? (x * x * x + secp_b) mod secp_p))).
    { unfold on_curve. rewrite cong_eqb.
      replace (0 <=? x) with true by (symmetry; apply Z.leb_le; lia).
      replace (0 <=? y) with true by (symmetry; apply Z.leb_le; lia).
      rewrite (Z.ltb_antisym secp_p x), (Z.ltb_antisym secp_p y).
      destruct (secp_p <=? x), (secp_p <=? y), ((y * y - (x * x * x + secp_b)) mod secp_p =? 0); reflexivity. }
    rewrite Hoc.
    destruct ((secp_p <=? x) || (secp_p <=? y) || negb ((y * y) mod secp_p =? (x * x * x + secp_b) mod secp_p)) eqn:Ec;
      cbn [negb]; [left; split; reflexivity|].
    right. exists (x, y), (x, y). split; [reflexivity|]. split; [reflexivity|].
    apply orb_false_iff in Ec. destruct Ec as [Ec Ec3]. apply orb_false_iff in Ec. destruct Ec as [Ec1 Ec2].
    apply Z.leb_gt in Ec1. apply Z.leb_gt in Ec2. apply negb_false_iff in Ec3.
    assert (Hc : lib_on_curve (x, y) = true) by (unfold lib_on_curve; rewrite <- cong_eqb; exact Ec3).
    destruct (key_agree_built x y ltac:(lia) Hc) as (A & B & C). rewrite (Z.mod_small y) in B, C by lia. auto.
Qed.
Local Transparent secp_p mod_sqrt.

(* lib_verify_key_exact: verify(digest, signature bytes, public key bytes) is standard ECDSA on the strictly
   decoded signature and the SEC 1 decoded key — no guard on the key any more *)
Lemma lib_verify_key_exact dg sig pk :
  dg <> [] -> der64 sig = false -> lax_der sig = false ->
  lib_verify_key dg sig pk = spec_verify_key (lib_z dg) sig pk.
Proof.
  intros Hdg Hshort Hlax. unfold lib_verify_key, spec_verify_key.
  destruct (lib_pub_point_spec pk) as [[-> ->]|(Ql & Qs & -> & -> & Hoc & Hrp & Hok)]; [reflexivity|].
  rewrite lib_verify_filt, spec_verify_filt, (parse_agree sig Hshort Hlax), Hoc, Hrp, Hok.
  destruct dg as [|b0 dg']; [contradiction|]. cbn [length Nat.eqb negb andb]. reflexivity.
Qed.

(* ---------------------------------------------------------------- sign, then parse, then verify *)

Lemma der_int_lib_ok v : 0 < v < 2 ^ 256 -> lib_int_ok (der_int v) = true.
Proof.
  intros Hv. destruct (der_int_props v Hv) as (Iok & Val & _).
  destruct (lib_int_ok_or_zero _ Iok) as [H|H]; [exact H|lia].
Qed.

(* what lib_sign returns is read back by parse_bytes as the same (r, s, hash type) — unless it is exactly
   64 bytes long (finding der64_read_as_raw) *)
Lemma lib_sign_parse_roundtrip d msg k ht r s enc : lib_sign d msg k ht = Some (r, s, enc) ->
  Z.of_nat (length enc) <> 64 -> lib_parse enc = Some (r, s, ht).
Proof.
  intros H Hlen. destruct (lib_sign_low_s _ _ _ _ _ _ _ H) as [Hr Hs].
  destruct (lib_sign_inv _ _ _ _ _ _ _ _ H) as (s0 & _ & _ & -> & Hht & _).
  pose proof secp_n_lt_2_256. pose proof half_lt_n.
  assert (Hr' : 0 < r < 2 ^ 256) by lia. assert (Hs' : 0 < s < 2 ^ 256) by lia.
  unfold lib_parse. rewrite lib_sig_parse_eq.
  replace (Z.of_nat (length (der_enc r s ++ [zb ht])) =? 64) with false by (symmetry; apply Z.eqb_neq; exact Hlen).
  assert (Hst : starts_with (der_enc r s ++ [zb ht]) 48 = true) by (rewrite der_enc_eq; reflexivity).
  rewrite Hst. cbn [negb andb]. rewrite removelast_snoc.
  pose proof (der_enc_length r s Hr' Hs') as HL.
  rewrite (lib_der_dec_of_split _ _ _ (der_split_enc r s Hr' Hs')) by lia.
  rewrite !der_int_lib_ok by assumption. cbn [andb].
  destruct (der_int_props r Hr') as (_ & -> & _). destruct (der_int_props s Hs') as (_ & -> & _).
  replace ((r <? 2 ^ 256) && (s <? 2 ^ 256)) with true
    by (symmetry; apply andb_true_iff; split; apply Z.ltb_lt; lia).
  rewrite last_last, bz_zb, Z.mod_small by lia. reflexivity.
Qed.

(* the RFC 6979 generator returns a nonce in [1, n-1], or 0 when its fuel is exhausted *)
Lemma rfc6979_loop_range fuel : forall K V, let k := rfc6979_loop fuel K V in k = 0 \/ 1 <= k < secp_n.
Proof.
  induction fuel as [|f IH]; intros K V; cbn [rfc6979_loop]; [left; reflexivity|].
  cbv zeta. destruct ((1 <=? _) && (_ <? secp_n)) eqn:E.
  - right. apply andb_true_iff in E. destruct E as [E1 E2]. apply Z.leb_le in E1. apply Z.ltb_lt in E2. lia.
  - apply IH.
Qed.

Lemma lib_nonce_range d dg : lib_nonce d dg = 0 \/ 1 <= lib_nonce d dg < secp_n.
Proof. unfold lib_nonce, rfc6979_nonce, rfc6979_nonce_fuel. cbv zeta. apply rfc6979_loop_range. Qed.

Lemma ecdsa_sign_nonce_nonzero d z r s : ecdsa_sign d z 0 = Some (r, s) -> False.
Proof. unfold ecdsa_sign. cbn [pt_mul]. discriminate. Qed.

(* end to end, under the (unproved) laws of the affine instance as ONE explicit premise: a signature made by
   lib_sign with an RFC 6979 nonce or an explicit nonce in [1, n-1] is accepted by lib_verify under the
   signer's public key *)
Lemma lib_sign_verifies d msg k ht r s enc Q :
  secp_laws ->
  match k with Some k0 => 1 <= k0 < secp_n | None => True end ->
  secp_pub d = Some Q -> coords_reduced Q = true -> lib_on_curve Q = true ->
  lib_digest msg <> [] -> Z.of_nat (length enc) <> 64 ->
  lib_sign d msg k ht = Some (r, s, enc) ->
  lib_verify (lib_digest msg) enc Q = Some true.
Proof.
  intros Laws Hk HQ Hred Hoc Hdg Hlen H.
  destruct (lib_sign_low_s _ _ _ _ _ _ _ H) as [Hr Hs].
  pose proof (lib_sign_parse_roundtrip _ _ _ _ _ _ _ H Hlen) as Hp.
  destruct (lib_sign_inv _ _ _ _ _ _ _ _ H) as (s0 & Hsig & Hs0 & _ & _ & _).
  assert (Hnonce : 1 <= lib_pick_nonce d (lib_digest msg) k < secp_n).
  { assert (Hnz : lib_pick_nonce d (lib_digest msg) k <> 0).
    { intros E0. rewrite E0 in Hsig. exact (ecdsa_sign_nonce_nonzero _ _ _ _ Hsig). }
    unfold lib_pick_nonce in *. destruct k as [k0|].
    - destruct (k0 =? 0) eqn:E0; [|exact Hk]. destruct (lib_nonce_range d (lib_digest msg)); [contradiction|assumption].
    - destruct (lib_nonce_range d (lib_digest msg)); [contradiction|assumption]. }
  destruct (ecdsa_sign_verifies _ _ _ _ _ Q Laws Hnonce HQ Hsig) as [V1 V2].
  unfold lib_verify. rewrite Hp.
  assert (Hir : in_range r = true) by (apply in_range_spec; exact Hr).
  assert (His : in_range s = true) by (apply in_range_spec; pose proof half_lt_n; lia).
  rewrite Hir, His, Hoc. destruct (reduced_on_curve Q Hred) as [_ ->].
  destruct (lib_digest msg) as [|b0 t0]; [contradiction|]. cbn [length Nat.eqb negb andb].
  f_equal. destruct (lib_low_s_twin s0) as [E|E]; rewrite Hs0, E; assumption.
Qed.
