(* Proofs/Ecdsa.v — lemmas about the library-level ECDSA model (C13): ranges and low S of what lib_sign returns,
   its encoding, the nonce source, parse_bytes against the strict reader, verify against the standard verifier. *)
From Coq Require Import ZArith List Bool Lia Znumtheory.
From Coq.Strings Require Import Byte.
From Verif Require Import Lib.Bytes Crypto.Sha256 Crypto.Hmac Crypto.Secp256k1 Crypto.EcdsaAlgebra.
From Verif Require Import Model.Wire Model.Der Model.Ecdsa Proofs.ScriptNum Proofs.ScriptCodec Proofs.Der.
Import ListNotations.
Open Scope Z_scope.

(* ---------------------------------------------------------------- constants *)

Lemma secp_n_pos : 0 < secp_n.
Proof. unfold secp_n. lia. Qed.

Lemma secp_n_lt_2_256 : secp_n < 2 ^ 256.
Proof. apply Z.ltb_lt. vm_compute. reflexivity. Qed.

(* n is odd: n = 2 * (n / 2) + 1, hence n / 2 = (n - 1) / 2 *)
Lemma secp_n_half : secp_n = 2 * (secp_n / 2) + 1.
Proof. vm_compute. reflexivity. Qed.

Lemma secp_n_half' : (secp_n - 1) / 2 = secp_n / 2.
Proof. vm_compute. reflexivity. Qed.

Lemma in_range_spec v : in_range v = true <-> 1 <= v < secp_n.
Proof.
  unfold in_range. rewrite andb_true_iff, Z.leb_le, Z.ltb_lt. reflexivity.
Qed.

(* ---------------------------------------------------------------- signing *)

Lemma ecdsa_sign_range d z k r s : ecdsa_sign d z k = Some (r, s) -> 1 <= r < secp_n /\ 1 <= s < secp_n.
Proof.
  unfold ecdsa_sign. destruct (pt_mul k secp_G) as [[x y]|]; [|discriminate]. cbv zeta.
  destruct ((x mod secp_n =? 0) || _) eqn:E; [discriminate|]. intros H.
  apply orb_false_iff in E. destruct E as [E1 E2]. apply Z.eqb_neq in E1. apply Z.eqb_neq in E2.
  assert (r = x mod secp_n) by congruence.
  assert (s = (inv_mod k secp_n * (z + x mod secp_n * d)) mod secp_n) by congruence.
  pose proof secp_n_pos as Hn.
  pose proof (Z.mod_pos_bound x secp_n Hn).
  pose proof (Z.mod_pos_bound (inv_mod k secp_n * (z + x mod secp_n * d)) secp_n Hn). lia.
Qed.

Lemma lib_low_s_eq s : lib_low_s s = if secp_n / 2 <? s then secp_n - s else s.
Proof. reflexivity. Qed.

Lemma lib_low_s_range s : 1 <= s < secp_n -> 1 <= lib_low_s s <= (secp_n - 1) / 2.
Proof.
  intros Hs. rewrite secp_n_half', lib_low_s_eq. pose proof secp_n_half as Hh.
  set (h := secp_n / 2) in *. destruct (h <? s) eqn:E; [apply Z.ltb_lt in E|apply Z.ltb_ge in E]; lia.
Qed.

(* the low-S step is the textbook one and lands on s or n - s *)
Lemma lib_low_s_is_spec s : lib_low_s s = ecdsa_low_s s.
Proof. reflexivity. Qed.

Lemma lib_low_s_twin s : lib_low_s s = s \/ lib_low_s s = secp_n - s.
Proof. rewrite lib_low_s_eq. destruct (_ <? _); auto. Qed.

Lemma lib_sign_with_eq low d msg k ht : lib_sign_with low d msg k ht =
  let dg := lib_digest msg in
  match ecdsa_sign d (lib_z dg) (lib_pick_nonce d dg k) with
  | None => None
  | Some (r, s0) =>
      let s := low s0 in
      if (0 <=? ht) && (ht <? 256) then Some (r, s, der_enc r s ++ [zb ht]) else None
  end.
Proof. reflexivity. Qed.

(* everything lib_sign returns comes from the textbook signer at the digest / nonce the code derives *)
Lemma lib_sign_inv low d msg k ht r s enc : lib_sign_with low d msg k ht = Some (r, s, enc) ->
  exists s0, ecdsa_sign d (lib_z (lib_digest msg)) (lib_pick_nonce d (lib_digest msg) k) = Some (r, s0) /\
             s = low s0 /\ enc = der_enc r s ++ [zb ht] /\ 0 <= ht < 256.
Proof.
  rewrite lib_sign_with_eq. cbv zeta.
  destruct (ecdsa_sign _ _ _) as [[r0 s0]|]; [|discriminate].
  destruct ((0 <=? ht) && (ht <? 256)) eqn:Eh; [|discriminate]. intros H.
  apply andb_true_iff in Eh. destruct Eh as [E1 E2]. apply Z.leb_le in E1. apply Z.ltb_lt in E2.
  exists s0. assert (r = r0) by congruence. subst r0.
  assert (s = low s0) by congruence. subst s.
  repeat split; try lia. congruence.
Qed.

(* lib_sign_low_s: every signature lib_sign returns has r in [1, n-1] and 1 <= s <= (n-1)/2 *)
Lemma lib_sign_low_s d msg k ht r s enc : lib_sign d msg k ht = Some (r, s, enc) ->
  1 <= r < secp_n /\ 1 <= s <= (secp_n - 1) / 2.
Proof.
  intros H. destruct (lib_sign_inv _ _ _ _ _ _ _ _ H) as (s0 & Hs & -> & _ & _).
  destruct (ecdsa_sign_range _ _ _ _ _ Hs) as [Hr Hs0]. split; [exact Hr|]. apply lib_low_s_range. exact Hs0.
Qed.

Lemma half_lt_n : (secp_n - 1) / 2 < secp_n.
Proof. apply Z.ltb_lt. vm_compute. reflexivity. Qed.

(* canonical encoding: what is returned is der_enc r s followed by the hash-type byte, passes BIP66,
   and decodes (strictly) to the same (r, s) *)
Lemma lib_sign_encoding d msg k ht r s enc : lib_sign d msg k ht = Some (r, s, enc) ->
  enc = der_enc r s ++ [zb ht] /\ is_strict_der enc = true /\ der_dec (removelast enc) = Some (r, s) /\
  spec_parse enc = Some (r, s, ht).
Proof.
  intros H. destruct (lib_sign_low_s _ _ _ _ _ _ _ H) as [Hr Hs].
  destruct (lib_sign_inv _ _ _ _ _ _ _ _ H) as (s0 & _ & _ & -> & Hht).
  pose proof secp_n_lt_2_256. pose proof half_lt_n.
  assert (Hr' : 0 < r < 2 ^ 256) by lia. assert (Hs' : 0 < s < 2 ^ 256) by lia.
  pose proof (der_strict r s (zb ht) Hr' Hs') as Hstrict.
  assert (Hdec : der_dec (removelast (der_enc r s ++ [zb ht])) = Some (r, s))
    by (rewrite removelast_snoc; apply der_roundtrip; assumption).
  repeat split; try assumption.
  unfold spec_parse. rewrite Hstrict, Hdec, last_last, bz_zb, Z.mod_small by lia. reflexivity.
Qed.

(* nonce_is_rfc6979: without an explicit nonce the result is the normalised textbook signature at the
   RFC 6979 nonce of (d, SHA256 (hex text of the digest)) — a function of the key and the digest only *)
Lemma lib_sign_deterministic d msg ht : 0 <= ht < 256 ->
  lib_sign d msg None ht =
  with_der ht (spec_sign d (lib_z (lib_digest msg)) (rfc6979_nonce d (sha256 (hex_ascii (lib_digest msg))))).
Proof.
  intros Hht. unfold lib_sign. rewrite lib_sign_with_eq. cbv zeta. unfold with_der, spec_sign, spec_normalise.
  change (lib_pick_nonce d (lib_digest msg) None) with (rfc6979_nonce d (sha256 (hex_ascii (lib_digest msg)))).
  destruct (ecdsa_sign _ _ _) as [[r s0]|]; [|reflexivity].
  replace ((0 <=? ht) && (ht <? 256)) with true; [reflexivity|].
  symmetry. apply andb_true_iff. split; [apply Z.leb_le|apply Z.ltb_lt]; lia.
Qed.

(* with an explicit non-zero nonce: the same with that nonce *)
Lemma lib_sign_explicit d msg k ht : 0 <= ht < 256 -> k <> 0 ->
  lib_sign d msg (Some k) ht =
  with_der ht (spec_sign d (lib_z (lib_digest msg)) k).
Proof.
  intros Hht Hk. unfold lib_sign. rewrite lib_sign_with_eq. cbv zeta. unfold with_der, spec_sign, spec_normalise.
  unfold lib_pick_nonce. destruct (k =? 0) eqn:E; [apply Z.eqb_eq in E; contradiction|].
  destruct (ecdsa_sign _ _ _) as [[r s0]|]; [|reflexivity].
  replace ((0 <=? ht) && (ht <? 256)) with true; [reflexivity|].
  symmetry. apply andb_true_iff. split; [apply Z.leb_le|apply Z.ltb_lt]; lia.
Qed.

(* ---------------------------------------------------------------- parse_bytes against the strict reader *)

(* what survives the range checks of Signature.__init__ *)
Definition filt (p : option (Z * Z * Z)) : option (Z * Z * Z) :=
  match p with
  | Some (r, s, ht) => if in_range r && in_range s then Some (r, s, ht) else None
  | None => None
  end.

Lemma is_strict_der_inv sig : is_strict_der sig = true ->
  9 <= Z.of_nat (length sig) <= 73 /\ exists rb sb, der_split (removelast sig) = Some (rb, sb).
Proof.
  unfold is_strict_der. cbv zeta. intros H.
  apply andb_true_iff in H. destruct H as [H H3]. apply andb_true_iff in H. destruct H as [H1 H2].
  apply Z.leb_le in H1. apply Z.leb_le in H2. split; [lia|].
  destruct (der_split (removelast sig)) as [[rb sb]|]; [|discriminate]. exists rb, sb. reflexivity.
Qed.

Lemma lib_sig_parse_eq dd sig : lib_sig_parse dd sig =
  if negb (Z.of_nat (length sig) =? 64) && starts_with sig 48 then
    match dd (removelast sig) with
    | Some (r, s) =>
        if (r <? 2 ^ 256) && (s <? 2 ^ 256) then Some (r, s, bz (last sig x00)) else None
    | None => None
    end
  else if (Z.of_nat (length sig) =? 64) then
    Some (of_be (firstn 32 sig), of_be (skipn 32 sig), 1)
  else None.
Proof. reflexivity. Qed.

Lemma spec_parse_eq sig : spec_parse sig =
  if is_strict_der sig then
    match der_dec (removelast sig) with
    | Some (r, s) => Some (r, s, bz (last sig x00))
    | None => None
    end
  else if (Z.of_nat (length sig) =? 64) then
    Some (of_be (firstn 32 sig), of_be (skipn 32 sig), 1)
  else None.
Proof. reflexivity. Qed.

Lemma filt_out r s ht : in_range r && in_range s = false -> forall b : bool,
  filt (if b then Some (r, s, ht) else None) = None.
Proof. intros H b. destruct b; [|reflexivity]. unfold filt. rewrite H. reflexivity. Qed.

(* outside the two recorded classes the library reads a signature exactly as the strict reader does
   (after the range checks both apply) *)
Lemma parse_agree sig : der64 sig = false -> lax_der sig = false ->
  filt (lib_parse sig) = filt (spec_parse sig).
Proof.
  intros Hshort Hlax. unfold lib_parse. rewrite lib_sig_parse_eq, spec_parse_eq.
  unfold der64 in Hshort. unfold lax_der in Hlax.
  destruct (is_strict_der sig) eqn:Es.
  - (* BIP66-valid and not 64 bytes long, so the DER branch is taken and decodes alike *)
    destruct (is_strict_der_inv sig Es) as (Hlen & rb & sb & Hsp).
    cbn [andb] in Hshort.
    assert (Hne : sig <> []) by (intros ->; cbn in Hlen; lia).
    pose proof (length_removelast _ sig Hne) as Hlr.
    destruct (der_split_inv _ _ _ Hsp) as (t & l & t2 & lr & t3 & ls & Hb & T & _).
    assert (Hst : starts_with sig 48 = true).
    { rewrite (app_removelast_last x00 Hne), Hb. cbn [app starts_with]. apply Z.eqb_eq. exact T. }
    rewrite Hshort, Hst. cbn [negb andb].
    rewrite (lib_der_dec_of_split _ rb sb Hsp) by lia.
    unfold der_dec. rewrite Hsp.
    set (r := of_be rb). set (s := of_be sb). set (ht := bz (last sig x00)).
    destruct (der_split_inv _ _ _ Hsp) as (_ & _ & _ & _ & _ & _ & _ & _ & _ & _ & _ & _ & _ & Ir & Is).
    destruct (in_range r && in_range s) eqn:Eir.
    + apply andb_true_iff in Eir. destruct Eir as [Er Er2].
      apply in_range_spec in Er. apply in_range_spec in Er2. pose proof secp_n_lt_2_256.
      destruct (lib_int_ok_or_zero rb Ir) as [Hr|Hr]; [|fold r in Hr; lia].
      destruct (lib_int_ok_or_zero sb Is) as [Hs|Hs]; [|fold s in Hs; lia].
      rewrite Hr, Hs. cbn [andb].
      replace ((r <? 2 ^ 256) && (s <? 2 ^ 256)) with true; [reflexivity|].
      symmetry. apply andb_true_iff. split; apply Z.ltb_lt; lia.
    + transitivity (@None (Z * Z * Z)).
      * destruct (lib_int_ok rb && lib_int_ok sb); [|reflexivity]. apply filt_out. exact Eir.
      * unfold filt. rewrite Eir. reflexivity.
  - (* not BIP66-valid *)
    destruct (negb (Z.of_nat (length sig) =? 64) && starts_with sig 48) eqn:Ed; [|reflexivity].
    cbn [negb andb] in Hlax.
    destruct (lib_der_dec (removelast sig)); [discriminate|].
    apply andb_true_iff in Ed. destruct Ed as [Ed _]. apply negb_true_iff in Ed. rewrite Ed. reflexivity.
Qed.

(* ---------------------------------------------------------------- verify against the standard verifier *)

Lemma lib_verify_filt dg sig Q : lib_verify dg sig Q =
  match filt (lib_parse sig) with
  | Some (r, s, _) =>
      if lib_on_curve Q && negb (length dg =? 0)%nat
      then Some (ecdsa_verify (lib_z dg) r s (reduce_pt Q)) else None
  | None => None
  end.
Proof.
  unfold lib_verify, filt. destruct (lib_parse sig) as [[[r s] ht]|]; [|reflexivity].
  destruct (in_range r && in_range s); reflexivity.
Qed.

Lemma spec_verify_filt z sig Q : spec_verify z sig Q =
  match filt (spec_parse sig) with
  | Some (r, s, _) => if spec_pub_ok Q then Some (ecdsa_verify z r s (Some Q)) else None
  | None => None
  end.
Proof.
  unfold spec_verify, filt. destruct (spec_parse sig) as [[[r s] ht]|]; [|reflexivity].
  destruct (in_range r && in_range s); reflexivity.
Qed.

Lemma reduced_on_curve Q : coords_reduced Q = true -> lib_on_curve Q = spec_pub_ok Q /\ reduce_pt Q = Some Q.
Proof.
  destruct Q as [x y]. unfold coords_reduced, lib_on_curve, spec_pub_ok, on_curve, reduce_pt. intros H.
  rewrite H. cbn [andb]. split; [reflexivity|].
  repeat (apply andb_true_iff in H; destruct H as [H ?]).
  apply Z.leb_le in H. apply Z.ltb_lt in H0. apply Z.leb_le in H1. apply Z.ltb_lt in H2.
  rewrite !Z.mod_small by lia. reflexivity.
Qed.

(* lib_verify_exact: for every digest, every byte string offered as a signature and every public-key point,
   outside the recorded classes, the library's verify is the standard verifier on the strictly decoded input;
   in particular every malformed encoding, out-of-range (r, s) and off-curve key is refused *)
Lemma lib_verify_exact dg sig Q :
  dg <> [] -> der64 sig = false -> lax_der sig = false -> coords_reduced Q = true ->
  lib_verify dg sig Q = spec_verify (lib_z dg) sig Q.
Proof.
  intros Hdg Hshort Hlax Hred. rewrite lib_verify_filt, spec_verify_filt, (parse_agree sig Hshort Hlax).
  destruct (reduced_on_curve Q Hred) as [Hoc Hrp]. rewrite Hoc, Hrp.
  destruct dg as [|b0 dg']; [contradiction|]. cbn [length Nat.eqb negb]. rewrite andb_true_r. reflexivity.
Qed.

(* acceptance form: the library says True exactly when standard ECDSA accepts *)
Lemma lib_verify_accepts_iff dg sig Q :
  dg <> [] -> der64 sig = false -> lax_der sig = false -> coords_reduced Q = true ->
  (lib_verify dg sig Q = Some true <-> spec_verify (lib_z dg) sig Q = Some true).
Proof. intros. rewrite lib_verify_exact by assumption. reflexivity. Qed.

(* ---------------------------------------------------------------- sign, then parse, then verify *)

Lemma der_int_lib_ok v : 0 < v < 2 ^ 256 -> lib_int_ok (der_int v) = true.
Proof.
  intros Hv. destruct (der_int_props v Hv) as (Iok & Val & _).
  destruct (lib_int_ok_or_zero _ Iok) as [H|H]; [exact H|lia].
Qed.

(* what lib_sign returns is read back by parse_bytes as the same (r, s, hash type) — unless it is exactly
   64 bytes long (finding der64_read_as_raw) *)
Lemma lib_sign_parse_roundtrip d msg k ht r s enc : lib_sign d msg k ht = Some (r, s, enc) ->
  Z.of_nat (length enc) <> 64 -> lib_parse enc = Some (r, s, ht).
Proof.
  intros H Hlen. destruct (lib_sign_low_s _ _ _ _ _ _ _ H) as [Hr Hs].
  destruct (lib_sign_inv _ _ _ _ _ _ _ _ H) as (s0 & _ & _ & -> & Hht).
  pose proof secp_n_lt_2_256. pose proof half_lt_n.
  assert (Hr' : 0 < r < 2 ^ 256) by lia. assert (Hs' : 0 < s < 2 ^ 256) by lia.
  unfold lib_parse. rewrite lib_sig_parse_eq.
  replace (Z.of_nat (length (der_enc r s ++ [zb ht])) =? 64) with false by (symmetry; apply Z.eqb_neq; exact Hlen).
  assert (Hst : starts_with (der_enc r s ++ [zb ht]) 48 = true) by (rewrite der_enc_eq; reflexivity).
  rewrite Hst. cbn [negb andb]. rewrite removelast_snoc.
  pose proof (der_enc_length r s Hr' Hs') as HL.
  rewrite (lib_der_dec_of_split _ _ _ (der_split_enc r s Hr' Hs')) by lia.
  rewrite !der_int_lib_ok by assumption. cbn [andb].
  destruct (der_int_props r Hr') as (_ & -> & _). destruct (der_int_props s Hs') as (_ & -> & _).
  replace ((r <? 2 ^ 256) && (s <? 2 ^ 256)) with true
    by (symmetry; apply andb_true_iff; split; apply Z.ltb_lt; lia).
  rewrite last_last, bz_zb, Z.mod_small by lia. reflexivity.
Qed.

(* the RFC 6979 generator returns a nonce in [1, n-1], or 0 when its fuel is exhausted *)
Lemma rfc6979_loop_range fuel : forall K V, let k := rfc6979_loop fuel K V in k = 0 \/ 1 <= k < secp_n.
Proof.
  induction fuel as [|f IH]; intros K V; cbn [rfc6979_loop]; [left; reflexivity|].
  cbv zeta. destruct ((1 <=? _) && (_ <? secp_n)) eqn:E.
  - right. apply andb_true_iff in E. destruct E as [E1 E2]. apply Z.leb_le in E1. apply Z.ltb_lt in E2. lia.
  - apply IH.
Qed.

Lemma lib_nonce_range d dg : lib_nonce d dg = 0 \/ 1 <= lib_nonce d dg < secp_n.
Proof. unfold lib_nonce, rfc6979_nonce, rfc6979_nonce_fuel. cbv zeta. apply rfc6979_loop_range. Qed.

Lemma ecdsa_sign_nonce_nonzero d z r s : ecdsa_sign d z 0 = Some (r, s) -> False.
Proof. unfold ecdsa_sign. cbn [pt_mul]. discriminate. Qed.

(* end to end, under the (unproved) laws of the affine instance as ONE explicit premise: a signature made by
   lib_sign with an RFC 6979 nonce or an explicit nonce in [1, n-1] is accepted by lib_verify under the
   signer's public key *)
Lemma lib_sign_verifies d msg k ht r s enc Q :
  secp_laws ->
  match k with Some k0 => 1 <= k0 < secp_n | None => True end ->
  secp_pub d = Some Q -> coords_reduced Q = true -> lib_on_curve Q = true ->
  lib_digest msg <> [] -> Z.of_nat (length enc) <> 64 ->
  lib_sign d msg k ht = Some (r, s, enc) ->
  lib_verify (lib_digest msg) enc Q = Some true.
Proof.
  intros Laws Hk HQ Hred Hoc Hdg Hlen H.
  destruct (lib_sign_low_s _ _ _ _ _ _ _ H) as [Hr Hs].
  pose proof (lib_sign_parse_roundtrip _ _ _ _ _ _ _ H Hlen) as Hp.
  destruct (lib_sign_inv _ _ _ _ _ _ _ _ H) as (s0 & Hsig & Hs0 & _ & _).
  assert (Hnonce : 1 <= lib_pick_nonce d (lib_digest msg) k < secp_n).
  { assert (Hnz : lib_pick_nonce d (lib_digest msg) k <> 0).
    { intros E0. rewrite E0 in Hsig. exact (ecdsa_sign_nonce_nonzero _ _ _ _ Hsig). }
    unfold lib_pick_nonce in *. destruct k as [k0|].
    - destruct (k0 =? 0) eqn:E0; [|exact Hk]. destruct (lib_nonce_range d (lib_digest msg)); [contradiction|assumption].
    - destruct (lib_nonce_range d (lib_digest msg)); [contradiction|assumption]. }
  destruct (ecdsa_sign_verifies _ _ _ _ _ Q Laws Hnonce HQ Hsig) as [V1 V2].
  unfold lib_verify. rewrite Hp.
  assert (Hir : in_range r = true) by (apply in_range_spec; exact Hr).
  assert (His : in_range s = true) by (apply in_range_spec; pose proof half_lt_n; lia).
  rewrite Hir, His, Hoc. destruct (reduced_on_curve Q Hred) as [_ ->].
  destruct (lib_digest msg) as [|b0 t0]; [contradiction|]. cbn [length Nat.eqb negb andb].
  f_equal. destruct (lib_low_s_twin s0) as [E|E]; rewrite Hs0, E; assumption.
Qed.
