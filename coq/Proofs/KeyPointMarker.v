(* Proofs/KeyPointMarker.v — the byte 01 is a compression marker only as the 33rd byte.
   A 32-byte private key (the form the BIP38 route hands to Key.__init__ together with the compression flag of the
   text, and the plain binary import) is taken whole, whatever its last byte is; only a 33-byte input ending in 01 is
   shortened, and then to its first 32 bytes.  (keys.py Key.__init__, branches 'bin' / 'bin_compressed'.) *)
From Coq Require Import ZArith List Bool Lia.
From Coq.Strings Require Import Byte.
From Verif Require Import Lib.Bytes Crypto.Secp256k1 Gen.GenConsts Gen.GenKeyConsts Model.KeyPoint.
Import ListNotations.
Open Scope Z_scope.

Lemma mk_private_fields : forall rc wide d c k,
  lib_mk_private rc wide d c = ImpOk k -> k_private k = true /\ k_secret k = d /\ k_compressed k = c.
Proof.
  intros rc wide d c k H. unfold lib_mk_private in H.
  destruct (rc && negb ((0 <? d) && (d <? secp256k1_n)) && negb (wide && negb (d mod secp256k1_n =? 0))); [discriminate|].
  destruct (lib_pub_of_secret d) as [x y]. injection H as <-. simpl. auto.
Qed.

Theorem import_bytes32_exact_pf : forall b c s k,
  length b = 32%nat -> lib_key_import (KBytes b) c s = ImpOk k ->
  k_private k = true /\ k_secret k = of_be b /\ k_compressed k = c.
Proof.
  intros b c s k L H. unfold lib_key_import, lib_key_import_gen in H. cbv zeta in H. rewrite L in H.
  cbn [Nat.eqb andb orb] in H.
  destruct (last_is b 1); cbn [andb] in H; eapply mk_private_fields; exact H.
Qed.

Theorem import_bytes33_marker_pf : forall b c s k,
  length b = 33%nat -> first_is b 2 || first_is b 3 || first_is b 4 = false ->
  lib_key_import (KBytes b) c s = ImpOk k ->
  last_is b 1 = true /\ k_private k = true /\ k_secret k = of_be (firstn 32 b) /\ k_compressed k = true.
Proof.
  intros b c s k L F H. unfold lib_key_import, lib_key_import_gen in H. cbv zeta in H. rewrite L in H.
  cbn [Nat.eqb andb orb] in H. rewrite F in H.
  destruct (last_is b 1); [|discriminate].
  split; [reflexivity|]. eapply mk_private_fields; exact H.
Qed.

Lemma import_bytes32_last_byte_01_w :
  exists k, lib_key_import (KBytes (repeat x00 30 ++ [x01; x01])) true true = ImpOk k /\ k_secret k = 257.
Proof. vm_compute. eexists. split; reflexivity. Qed.
