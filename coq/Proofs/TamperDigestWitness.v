(* Proofs/TamperDigestWitness.v — concrete witnesses for Properties/C02.v tamper_instance: C01's example transaction
   with its locktime / an output amount / the amount of the spent output changed.  Kept in its own file so that the
   SHA256d evaluations (about 50 s) are compiled once. *)
From Coq Require Import ZArith List Bool Lia Arith.
From Coq.Strings Require Import Byte.
From Verif Require Import Lib.Bytes Model.Wire Model.TxCodec Model.Sighash
  Proofs.Sighash Proofs.SighashEq Proofs.SighashCommit Proofs.TamperDigest
  Crypto.Sha256 Crypto.Ripemd160 Crypto.HashLemmas.
Import ListNotations.
Local Open Scope Z_scope.

(* ---------- non-vacuity: the example transaction of C01 with its locktime / an output amount / the amount of the
   spent output changed ---------- *)
Definition ex_tx_lock : stx := mk_stx 2 [ex_in0 0 5000000000; ex_in1 1 K_p2sh_multisig] ex_outs 18 true.
Definition ex_outs_amount : list txout :=
  [mk_txout 4999990001 ([x76; xa9; x14] ++ repeat x55 20 ++ [x88; xac]); mk_txout 546 [x00; x14; x01; x02]].
Definition ex_tx_amount : stx := mk_stx 2 [ex_in0 0 5000000000; ex_in1 1 K_p2sh_multisig] ex_outs_amount 17 true.
Definition ex_tx_value : stx := mk_stx 2 [ex_in0 0 5000000001; ex_in1 1 K_p2sh_multisig] ex_outs 17 true.

Ltac wf_stx_tac :=
  cbn [st_version st_locktime st_ins st_outs]; conj; try num;
  [ repeat apply Forall_cons; try apply Forall_nil; unfold wf_sin; conj; try num;
    repeat apply Forall_cons; try apply Forall_nil; left; reflexivity
  | repeat apply Forall_cons; try apply Forall_nil; unfold wf_sout; conj; num ].

Lemma ex_tx_lock_wf : wf_stx ex_tx_lock.
Proof. unfold wf_stx, ex_tx_lock. wf_stx_tac. Qed.

Lemma ex_tx_amount_wf : wf_stx ex_tx_amount.
Proof. unfold wf_stx, ex_tx_amount. wf_stx_tac. Qed.

Lemma ex_tx_value_wf : wf_stx ex_tx_value.
Proof. unfold wf_stx, ex_tx_value. wf_stx_tac. Qed.

Lemma ex_tampered_wf : wf_stx ex_tx_lock /\ wf_stx ex_tx_amount /\ wf_stx ex_tx_value.
Proof. exact (conj ex_tx_lock_wf (conj ex_tx_amount_wf ex_tx_value_wf)). Qed.

(* the witness of Properties/C02.v tamper_instance (proved here so that the SHA256d evaluations are compiled once) *)
Lemma tamper_instance_proof :
  let x0 := ex_in0 0 5000000000 in
  wf_stx ex_tx /\ wf_stx ex_tx_lock /\ wf_stx ex_tx_amount /\ wf_stx ex_tx_value /\
  committed_differs hash160 ex_tx ex_tx_lock x0 x0 /\
  committed_differs hash160 ex_tx ex_tx_amount x0 x0 /\
  committed_differs hash160 ex_tx ex_tx_value x0 (ex_in0 0 5000000001) /\
  lib_digest sha256d hash160 ex_tx 0 1 <> None /\
  opt_eqb (lib_digest sha256d hash160 ex_tx 0 1) (lib_digest sha256d hash160 ex_tx_lock 0 1) = false /\
  opt_eqb (lib_digest sha256d hash160 ex_tx 0 1) (lib_digest sha256d hash160 ex_tx_amount 0 1) = false /\
  opt_eqb (lib_digest sha256d hash160 ex_tx 0 1) (lib_digest sha256d hash160 ex_tx_value 0 1) = false /\
  opt_eqb (lib_digest sha256d hash160 ex_tx 1 1) (lib_digest sha256d hash160 ex_tx_lock 1 1) = false /\
  opt_eqb (lib_digest sha256d hash160 ex_tx 1 1) (lib_digest sha256d hash160 ex_tx_value 1 1) = true.
Proof.
  split; [exact (proj1 ex_tx_wf_proof)|].
  split; [exact (proj1 ex_tampered_wf)|]. split; [exact (proj1 (proj2 ex_tampered_wf))|].
  split; [exact (proj2 (proj2 ex_tampered_wf))|].
  split; [right; left; vm_compute; discriminate|].
  split; [right; right; right; right; left; vm_compute; discriminate|].
  split; [right; right; right; right; right; right; split; [reflexivity|vm_compute; discriminate]|].
  split; [vm_compute; discriminate|].
  repeat split; vm_compute; reflexivity.
Qed.
