(* Proofs/SignPlaceSeq.v — sign_then_verify for arbitrary histories of Transaction.sign / Input.verify calls on
   one input.  Invariant: the signature list is exactly [own_sig k] for the listed keys that have signed, in
   key-list order (every slot holds its own key's signature, no key twice).  It is preserved by one sign() call
   (induction over the signer list, then over the old signatures that are placed around the new ones), by a
   verification (re-tagging gives every signature its own key back when no two listed keys share a point), and
   therefore by every fold of calls; verify_complete / verify_exact then give the verdict. *)
From Coq Require Import List Bool Arith ZArith Lia.
From Verif Require Import Model.VerifyInput Model.SignPlace Model.SignSeq Proofs.VerifyInput Proofs.SignPlace.
Import ListNotations.

(* ---------- membership ---------- *)
Lemma zmem_In k l : zmem k l = true <-> In k l.
Proof.
  unfold zmem. rewrite existsb_exists. split.
  - intros (x & Hin & E). apply Z.eqb_eq in E. subst x. exact Hin.
  - intros Hin. exists k. split; [exact Hin|apply Z.eqb_refl].
Qed.

Lemma zmem_false_In k l : zmem k l = false <-> ~ In k l.
Proof.
  split.
  - intros E Hin. apply zmem_In in Hin. congruence.
  - intros Hn. destruct (zmem k l) eqn:E; [|reflexivity]. apply zmem_In in E. contradiction.
Qed.

Lemma zmem_app k a b : zmem k (a ++ b) = zmem k a || zmem k b.
Proof. unfold zmem. apply existsb_app. Qed.

Lemma zmem_cons k x l : zmem k (x :: l) = Z.eqb k x || zmem k l.
Proof. reflexivity. Qed.

Lemma zmem_nil k : zmem k [] = false.
Proof. reflexivity. Qed.

Lemma zmem_rev k l : zmem k (rev l) = zmem k l.
Proof.
  destruct (zmem k l) eqn:E.
  - apply zmem_In. apply in_rev. rewrite rev_involutive. apply zmem_In. exact E.
  - apply zmem_false_In. intros Hin. apply in_rev in Hin. apply zmem_In in Hin. congruence.
Qed.

Lemma zmem_filter k P l : zmem k (filter P l) = zmem k l && P k.
Proof.
  destruct (zmem k (filter P l)) eqn:E.
  - apply zmem_In in E. apply filter_In in E. destruct E as (Hin & HP).
    apply zmem_In in Hin. rewrite Hin, HP. reflexivity.
  - destruct (zmem k l) eqn:El; [|reflexivity]. destruct (P k) eqn:EP; [|reflexivity].
    apply zmem_In in El. assert (Hin : In k (filter P l)) by (apply filter_In; split; assumption).
    apply zmem_In in Hin. congruence.
Qed.

Lemma zmem_signed_listed k pubs acc : zmem k (signed_listed pubs acc) = zmem k pubs && zmem k acc.
Proof. unfold signed_listed. apply zmem_filter. Qed.

Lemma signed_listed_ext pubs a b :
  (forall k, In k pubs -> zmem k a = zmem k b) -> signed_listed pubs a = signed_listed pubs b.
Proof. intros H. unfold signed_listed. apply filter_ext_in. exact H. Qed.

Lemma signed_listed_nil pubs : signed_listed pubs [] = [].
Proof. unfold signed_listed. induction pubs as [|p ps IH]; [reflexivity|]. simpl. exact IH. Qed.

Lemma signed_listed_NoDup pubs acc : NoDup pubs -> NoDup (signed_listed pubs acc).
Proof. intros H. unfold signed_listed. apply NoDup_filter. exact H. Qed.

Lemma signed_listed_In pubs acc t : In t (signed_listed pubs acc) -> In t pubs.
Proof. unfold signed_listed. intros H. apply filter_In in H. apply H. Qed.

Lemma subseq_filter {A} (P : A -> bool) (l : list A) : subseq (filter P l) l.
Proof.
  induction l as [|x l IH]; simpl; [constructor|].
  destruct (P x); [apply subseq_take|apply subseq_skip]; exact IH.
Qed.

Lemma subseq_tail {A} (x : A) a l : subseq (x :: a) l -> subseq a l.
Proof.
  revert x a. induction l as [|y l IH]; intros x a H; inversion H; subst.
  - apply subseq_skip. eapply IH. eassumption.
  - apply subseq_skip. assumption.
Qed.

(* ---------- positions ---------- *)
Lemma index_of_none k l : index_of k l = None -> zmem k l = false.
Proof.
  induction l as [|y r IH]; [reflexivity|].
  cbn [index_of]. rewrite zmem_cons. destruct (Z.eqb k y); [discriminate|].
  destruct (index_of k r); [discriminate|]. intros _. simpl. apply IH. reflexivity.
Qed.

Lemma index_of_some k l pos : index_of k l = Some pos -> zmem k l = true.
Proof.
  revert pos. induction l as [|y r IH]; intros pos; [discriminate|].
  cbn [index_of]. rewrite zmem_cons. destruct (Z.eqb k y); [reflexivity|].
  destruct (index_of k r) as [q|]; [|discriminate]. intros _. simpl. eapply IH. reflexivity.
Qed.

Lemma index_of_In k l : In k l -> exists pos, index_of k l = Some pos.
Proof.
  intros Hin. destruct (index_of k l) as [pos|] eqn:E; [exists pos; reflexivity|].
  apply index_of_none in E. apply zmem_In in Hin. congruence.
Qed.

Section SignSeq.
  Context {B : Type}.
  Variable sv : B -> Z -> bool.
  Variable mk : Z -> B.

  Notation own := (own_sig mk).

  (* the slot list that holds [own k] exactly at the keys named in [acc] *)
  Definition dom_of (pubs acc : list Z) : list (option (sg B)) :=
    map (fun k => if zmem k acc then Some (own k) else None) pubs.

  Lemma dom_of_cons p ps acc :
    dom_of (p :: ps) acc = (if zmem p acc then Some (own p) else None) :: dom_of ps acc.
  Proof. reflexivity. Qed.

  Lemma dom_of_ext pubs a b : (forall k, In k pubs -> zmem k a = zmem k b) -> dom_of pubs a = dom_of pubs b.
  Proof. intros H. unfold dom_of. apply map_ext_in. intros k Hin. rewrite (H k Hin). reflexivity. Qed.

  Lemma dom_of_nil pubs : dom_of pubs [] = repeat None (length pubs).
  Proof. induction pubs as [|p ps IH]; [reflexivity|]. rewrite dom_of_cons, zmem_nil. simpl. rewrite IH. reflexivity. Qed.

  Lemma somes_dom_of pubs acc : somes (dom_of pubs acc) = map own (signed_listed pubs acc).
  Proof.
    unfold signed_listed. induction pubs as [|p ps IH]; [reflexivity|].
    rewrite dom_of_cons. simpl filter. destruct (zmem p acc); simpl; rewrite IH; reflexivity.
  Qed.

  Lemma set_nth_dom_of : forall pubs acc k pos, NoDup pubs -> index_of k pubs = Some pos ->
    set_nth pos (Some (own k)) (dom_of pubs acc) = dom_of pubs (k :: acc).
  Proof.
    induction pubs as [|p ps IH]; intros acc k pos Hnd Hi; [discriminate|].
    inversion Hnd as [|? ? Hnotin Hnd']; subst. simpl in Hi. rewrite !dom_of_cons.
    destruct (Z.eqb k p) eqn:E.
    - apply Z.eqb_eq in E. subst p. assert (pos = O) by congruence. subst pos. cbn [set_nth].
      rewrite zmem_cons, Z.eqb_refl. cbn [orb]. f_equal. apply dom_of_ext. intros x Hx.
      rewrite zmem_cons. destruct (Z.eqb x k) eqn:Ex; [|reflexivity].
      apply Z.eqb_eq in Ex. subst x. contradiction.
    - destruct (index_of k ps) as [q|] eqn:Eq; [|discriminate]. simpl in Hi.
      assert (pos = S q) by congruence. subst pos. cbn [set_nth].
      rewrite zmem_cons. rewrite Z.eqb_sym, E. cbn [orb]. f_equal. apply IH; [exact Hnd'|exact Eq].
  Qed.

  Lemma nth_dom_of : forall pubs acc k pos, index_of k pubs = Some pos ->
    nth pos (dom_of pubs acc) None = if zmem k acc then Some (own k) else None.
  Proof.
    induction pubs as [|p ps IH]; intros acc k pos Hi; [discriminate|].
    simpl in Hi. rewrite dom_of_cons. destruct (Z.eqb k p) eqn:E.
    - apply Z.eqb_eq in E. subst p. assert (pos = O) by congruence. subst pos. reflexivity.
    - destruct (index_of k ps) as [q|] eqn:Eq; [|discriminate]. simpl in Hi.
      assert (pos = S q) by congruence. subst pos. simpl. apply IH. exact Eq.
  Qed.

  Lemma tags_of_own k ts : existsb (tag_is k) (map own ts) = zmem k ts.
  Proof.
    induction ts as [|t ts IH]; [reflexivity|].
    rewrite map_cons, zmem_cons. simpl existsb. rewrite IH. unfold tag_is at 1. simpl.
    rewrite Z.eqb_sym. reflexivity.
  Qed.

  (* ---------- the loop over the signers ---------- *)
  Definition pass (pubs : list Z) (old : list (sg B)) (r : bool) (k : Z) : bool :=
    zmem k pubs && (r || negb (existsb (tag_is k) old)).

  Lemma call_raises_nil pubs f : call_raises pubs f [] = false.
  Proof. unfold call_raises. simpl. apply andb_false_r. Qed.

  Lemma call_raises_cons pubs f k rest :
    call_raises pubs f (k :: rest) = if zmem k pubs then call_raises pubs f rest else f.
  Proof. unfold call_raises. simpl. destruct (zmem k pubs); simpl; [reflexivity|apply andb_true_r]. Qed.

  Lemma call_raises_nofail pubs signers : call_raises pubs false signers = false.
  Proof. reflexivity. Qed.

  Lemma sign_new_dom pubs old r f : NoDup pubs -> forall signers acc n,
    lib_sign_new mk pubs old r f signers (dom_of pubs acc) n =
    if call_raises pubs f signers then None
    else Some (dom_of pubs (rev (filter (pass pubs old r) signers) ++ acc),
               n + length (filter (pass pubs old r) signers)).
  Proof.
    intros Hnd. induction signers as [|k rest IH]; intros acc n.
    - rewrite call_raises_nil. simpl. rewrite Nat.add_0_r. reflexivity.
    - rewrite call_raises_cons. simpl lib_sign_new. simpl filter.
      change {| body := mk k; tag := Some k |} with (own k).
      destruct (index_of k pubs) as [pos|] eqn:Ei.
      + rewrite (index_of_some _ _ _ Ei).
        assert (Hp : pass pubs old r k = negb (negb r && existsb (tag_is k) old)).
        { unfold pass. rewrite (index_of_some _ _ _ Ei). destruct r, (existsb (tag_is k) old); reflexivity. }
        rewrite Hp. destruct (negb r && existsb (tag_is k) old); simpl negb.
        * apply IH.
        * rewrite (set_nth_dom_of pubs acc k pos Hnd Ei). rewrite IH.
          destruct (call_raises pubs f rest); [reflexivity|].
          simpl rev. rewrite <- app_assoc. simpl app. simpl length. f_equal. f_equal. lia.
      + rewrite (index_of_none _ _ Ei).
        assert (Hp : pass pubs old r k = false) by (unfold pass; rewrite (index_of_none _ _ Ei); reflexivity).
        rewrite Hp. destruct f; [reflexivity|]. rewrite IH. rewrite call_raises_nofail. reflexivity.
  Qed.

  (* ---------- the loop that places the old signatures around the new ones ---------- *)
  Lemma place_known_dom pubs : NoDup pubs -> forall ts acc n,
    NoDup ts -> (forall t, In t ts -> In t pubs) ->
    lib_place_known pubs (map own ts) (dom_of pubs acc) n =
    Some (dom_of pubs (rev ts ++ acc), n - length (filter (fun t => negb (zmem t acc)) ts)).
  Proof.
    intros Hnd. induction ts as [|t ts IH]; intros acc n Hts Hin.
    - simpl. rewrite Nat.sub_0_r. reflexivity.
    - inversion Hts as [|? ? Hnotin Hts']; subst.
      destruct (index_of_In t pubs (Hin t (or_introl eq_refl))) as (pos & Ei).
      rewrite map_cons. simpl lib_place_known. rewrite Ei. rewrite (nth_dom_of pubs acc t pos Ei).
      simpl filter. simpl rev. rewrite <- app_assoc. simpl app.
      assert (Hin' : forall t0, In t0 ts -> In t0 pubs) by (intros t0 H0; apply Hin; right; exact H0).
      destruct (zmem t acc) eqn:Et; simpl negb.
      + rewrite (IH acc n Hts' Hin'). f_equal. f_equal. apply dom_of_ext. intros k _.
        rewrite !zmem_app, zmem_cons. destruct (Z.eqb k t) eqn:Ek; [|reflexivity].
        apply Z.eqb_eq in Ek. subst k. rewrite Et. simpl. rewrite !orb_true_r. reflexivity.
      + rewrite (set_nth_dom_of pubs acc t pos Hnd Ei). rewrite (IH (t :: acc) (pred n) Hts' Hin').
        f_equal. f_equal. simpl length.
        assert (Ef : length (filter (fun t0 => negb ((t0 =? t)%Z || zmem t0 acc)) ts)
                     = length (filter (fun t0 => negb (zmem t0 acc)) ts)).
        { f_equal. apply filter_ext_in. intros t0 H0. destruct (Z.eqb t0 t) eqn:E0; [|reflexivity].
          apply Z.eqb_eq in E0. subst t0. contradiction. }
        rewrite Ef. lia.
  Qed.

  (* ---------- the fall-back loop does nothing when every slot is taken ---------- *)
  Lemma fill_first_full (s : sg B) pubs acc :
    (forall k, In k pubs -> zmem k acc = true) -> fill_first s (dom_of pubs acc) = dom_of pubs acc.
  Proof.
    induction pubs as [|p ps IH]; intros H; [reflexivity|].
    rewrite dom_of_cons. rewrite (H p (or_introl eq_refl)). simpl. f_equal. apply IH.
    intros k Hk. apply H. right. exact Hk.
  Qed.

  Lemma fill_free_full (old : list (sg B)) pubs acc :
    (forall k, In k pubs -> zmem k acc = true) -> lib_fill_free old (dom_of pubs acc) = dom_of pubs acc.
  Proof.
    intros H. induction old as [|s r IH]; [reflexivity|]. simpl. rewrite fill_first_full by exact H. exact IH.
  Qed.

  Lemma filter_none_all {A} (P : A -> bool) l : filter P l = [] -> filter (fun x => negb (P x)) l = l.
  Proof.
    induction l as [|y l IH]; intros E; [reflexivity|].
    simpl in *. destruct (P y); [discriminate|]. simpl. f_equal. apply IH. exact E.
  Qed.

  (* ---------- one sign() call ---------- *)
  Lemma sign_input_cases pubs acc r f signers : NoDup pubs ->
    resign_free pubs acc (CSign r f signers) = true ->
    (lib_sign_input mk pubs (map own (signed_listed pubs acc)) r f signers
       = (if call_raises pubs f signers then SignRaise 1 else SignNothing) /\
     signed_listed pubs (spec_icall pubs acc (CSign r f signers)) = signed_listed pubs acc)
    \/
    (call_raises pubs f signers = false /\
     lib_sign_input mk pubs (map own (signed_listed pubs acc)) r f signers
       = SignDone (map own (signed_listed pubs (signers ++ acc)))).
  Proof.
    intros Hnd Hg. unfold spec_icall, lib_sign_input.
    set (ts := signed_listed pubs acc). set (old := map own ts).
    rewrite <- dom_of_nil. rewrite (sign_new_dom pubs old r f Hnd signers [] 0).
    destruct (call_raises pubs f signers) eqn:Er; [left; split; reflexivity|].
    rewrite app_nil_r. simpl plus.
    set (N := filter (pass pubs old r) signers).
    assert (HN : forall k, In k pubs -> zmem k N = zmem k signers && (r || negb (zmem k acc))).
    { intros k Hk. unfold N. rewrite zmem_filter. unfold pass, old. rewrite tags_of_own.
      unfold ts. rewrite zmem_signed_listed. apply zmem_In in Hk. rewrite Hk. reflexivity. }
    assert (Hts : forall k, In k pubs -> zmem k ts = zmem k acc).
    { intros k Hk. unfold ts. rewrite zmem_signed_listed. apply zmem_In in Hk. rewrite Hk. reflexivity. }
    destruct (length N) as [|n0] eqn:EN.
    - (* nothing new: the input is left as it is *)
      left. split; [reflexivity|].
      apply length_zero_iff_nil in EN. unfold ts. apply signed_listed_ext. intros k Hk.
      rewrite zmem_app. specialize (HN k Hk). rewrite EN, zmem_nil in HN.
      destruct (zmem k signers), r, (zmem k acc); simpl in *; congruence.
    - right. split; [reflexivity|]. unfold lib_sign_place.
      assert (Hnd_ts : NoDup ts) by (apply signed_listed_NoDup; exact Hnd).
      assert (Hin_ts : forall t, In t ts -> In t pubs) by (intros t; apply signed_listed_In).
      unfold old at 1. rewrite (place_known_dom pubs Hnd ts (rev N) (length old) Hnd_ts Hin_ts).
      set (A1 := rev ts ++ rev N).
      assert (HA1 : forall k, In k pubs -> zmem k A1 = zmem k (signers ++ acc)).
      { intros k Hk. unfold A1. rewrite !zmem_app, !zmem_rev, (HN k Hk), (Hts k Hk).
        destruct (zmem k signers), r, (zmem k acc); reflexivity. }
      assert (Hres : somes (dom_of pubs A1) = map own (signed_listed pubs (signers ++ acc))).
      { rewrite somes_dom_of. f_equal. apply signed_listed_ext. exact HA1. }
      destruct (length old - length (filter (fun t => negb (zmem t (rev N))) ts)) as [|n1] eqn:En1.
      + rewrite Hres. reflexivity.
      + (* some old signature met an occupied slot: only with replace_signatures, and then the guard says
           that every slot is taken *)
        assert (Hex : exists t, In t ts /\ zmem t (rev N) = true).
        { destruct (filter (fun t => zmem t (rev N)) ts) as [|t l] eqn:Ef.
          - exfalso. rewrite (filter_none_all _ _ Ef) in En1. unfold old in En1. rewrite map_length in En1. lia.
          - exists t. assert (Hi : In t (filter (fun t => zmem t (rev N)) ts)) by (rewrite Ef; left; reflexivity).
            apply filter_In in Hi. exact Hi. }
        destruct Hex as (t & Ht & HtN). rewrite zmem_rev in HtN.
        pose proof (Hin_ts t Ht) as Htp. rewrite (HN t Htp) in HtN.
        assert (Htacc : zmem t acc = true) by (rewrite <- (Hts t Htp); apply zmem_In; exact Ht).
        rewrite Htacc in HtN. apply andb_prop in HtN. destruct HtN as (Hts_sig & Hr).
        destruct r; [|discriminate Hr].
        unfold resign_free in Hg. rewrite Er in Hg. simpl orb in Hg.
        apply orb_prop in Hg. destruct Hg as [Hg|Hg].
        * exfalso. rewrite forallb_forall in Hg. apply zmem_In in Hts_sig. specialize (Hg t Hts_sig).
          apply zmem_In in Htp. rewrite Htp, Htacc in Hg. discriminate.
        * rewrite forallb_forall in Hg.
          rewrite fill_free_full.
          -- rewrite Hres. reflexivity.
          -- intros k Hk. rewrite (HA1 k Hk). apply Hg. exact Hk.
  Qed.

  Lemma sign_call_step pubs acc r f signers : NoDup pubs ->
    resign_free pubs acc (CSign r f signers) = true ->
    lib_icall sv mk pubs (map own (signed_listed pubs acc)) (CSign r f signers)
    = map own (signed_listed pubs (spec_icall pubs acc (CSign r f signers))).
  Proof.
    intros Hnd Hg. unfold lib_icall.
    destruct (sign_input_cases pubs acc r f signers Hnd Hg) as [(E & Es)|(Er & E)]; rewrite E.
    - rewrite Es. destruct (call_raises pubs f signers); reflexivity.
    - unfold spec_icall. rewrite Er. reflexivity.
  Qed.

  (* ---------- one verification: re-tagging gives every signature its own key back ---------- *)
  Hypothesis mk_valid : forall k, sv (mk k) k = true.

  Lemma verify_run_keeps pubs : dup_point_free sv mk pubs ->
    forall keys, incl keys pubs -> forall t ts x need,
    subseq (t :: ts) keys ->
    snd (lib_verify_run sv keys ({| body := mk t; tag := x |} :: map own ts) (S need)) = map own (t :: ts).
  Proof.
    intros Hu. induction keys as [|k ks IH]; intros Hincl t ts x need Hs; [inversion Hs|].
    assert (Hincl' : incl ks pubs) by (intros y Hy; apply Hincl; right; exact Hy).
    assert (Hlist : forall l n, subseq l ks -> snd (lib_verify_run sv ks (map own l) n) = map own l).
    { intros l n Hl. destruct n as [|n]; [rewrite verify_run_eq; reflexivity|].
      destruct l as [|t2 l]; [rewrite verify_run_eq; destruct ks; reflexivity|].
      apply (IH Hincl' t2 l (Some t2) n Hl). }
    rewrite verify_run_eq. cbn [body].
    destruct (sv (mk t) k) eqn:E.
    - assert (k = t).
      { symmetry. apply Hu; [|apply Hincl; left; reflexivity|exact E].
        apply Hincl. eapply subseq_In; [exact Hs|left; reflexivity]. }
      subst k.
      assert (Hs' : subseq ts ks).
      { inversion Hs; subst; [eapply subseq_tail; eassumption|assumption]. }
      specialize (Hlist ts need Hs').
      destruct (lib_verify_run sv ks (map own ts) need) as [r l]. simpl in Hlist. subst l. reflexivity.
    - assert (Hne : k <> t) by (intros ->; rewrite mk_valid in E; discriminate).
      assert (Hs' : subseq (t :: ts) ks) by (inversion Hs; subst; [assumption|contradiction]).
      apply (IH Hincl' t ts (Some k) need Hs').
  Qed.

  Lemma verify_call_step pubs acc m : dup_point_free sv mk pubs ->
    lib_icall sv mk pubs (map own (signed_listed pubs acc)) (CVerify m) = map own (signed_listed pubs acc).
  Proof.
    intros Hu. unfold lib_icall, lib_verify_input_run.
    destruct (signed_listed pubs acc) as [|t ts] eqn:E; [reflexivity|].
    rewrite map_cons. destruct m as [|m]; [rewrite verify_run_eq; reflexivity|].
    rewrite <- map_cons.
    apply (verify_run_keeps pubs Hu pubs (incl_refl pubs) t ts (Some t) m).
    rewrite <- E. apply subseq_filter.
  Qed.

  (* ---------- every history ---------- *)
  Theorem icalls_exact pubs : NoDup pubs -> forall cs acc,
    resign_free_all pubs acc cs = true ->
    only_signs cs = true \/ dup_point_free sv mk pubs ->
    lib_icalls sv mk pubs (map own (signed_listed pubs acc)) cs
    = map own (signed_listed pubs (spec_icalls pubs acc cs)).
  Proof.
    intros Hnd. unfold lib_icalls, spec_icalls.
    induction cs as [|c cs IH]; intros acc Hg Hv; [reflexivity|].
    simpl fold_left. simpl in Hg. apply andb_prop in Hg. destruct Hg as (Hg1 & Hg2).
    assert (Hstep : lib_icall sv mk pubs (map own (signed_listed pubs acc)) c
                    = map own (signed_listed pubs (spec_icall pubs acc c))).
    { destruct c as [r f signers|m].
      - apply sign_call_step; assumption.
      - destruct Hv as [Hv|Hv]; [simpl in Hv; discriminate|]. apply verify_call_step. exact Hv. }
    rewrite Hstep. apply IH; [exact Hg2|].
    destruct Hv as [Hv|Hv]; [left|right; exact Hv].
    simpl in Hv. apply andb_prop in Hv. apply Hv.
  Qed.

  (* ---------- the verdict on a list that satisfies the invariant ---------- *)
  Lemma own_in_order pubs acc : signed_in_order sv pubs (map (@body B) (map own (signed_listed pubs acc))).
  Proof.
    unfold signed_listed. induction pubs as [|p ps IH]; [constructor|].
    simpl filter. destruct (zmem p acc).
    - simpl. apply sio_take; [apply mk_valid|exact IH].
    - apply sio_skip. exact IH.
  Qed.

  Lemma verdict_of_count pubs acc m :
    fst (lib_verify_input_run sv pubs (map own (signed_listed pubs acc)) m)
    = Nat.leb m (length (signed_listed pubs acc)) && Nat.leb 1 (length (signed_listed pubs acc)).
  Proof.
    rewrite verify_input_run_fst.
    pose proof (own_in_order pubs acc) as Ho.
    set (l := map (@body B) (map own (signed_listed pubs acc))) in *.
    assert (Hl : length l = length (signed_listed pubs acc)) by (unfold l; rewrite !map_length; reflexivity).
    rewrite <- Hl.
    destruct m as [|m].
    - unfold lib_verify_input. destruct l; [reflexivity|]. rewrite loop_eq. reflexivity.
    - destruct (Nat.leb (S m) (length l)) eqn:E.
      + apply Nat.leb_le in E. rewrite (verify_complete_thm sv pubs l (S m) Ho) by lia.
        symmetry. apply andb_true_intro. split; [reflexivity|]. apply Nat.leb_le. lia.
      + apply Nat.leb_gt in E. simpl andb.
        destruct (lib_verify_input sv false pubs l (S m)) eqn:Ev; [|reflexivity].
        apply verify_exact_thm in Ev; [|lia]. lia.
  Qed.

  Theorem sign_seq_then_verify_thm pubs cs m : NoDup pubs ->
    resign_free_all pubs [] cs = true ->
    only_signs cs = true \/ dup_point_free sv mk pubs ->
    fst (lib_verify_input_run sv pubs (lib_icalls sv mk pubs [] cs) m)
    = Nat.leb m (length (signed_listed pubs (spec_icalls pubs [] cs)))
      && Nat.leb 1 (length (signed_listed pubs (spec_icalls pubs [] cs))).
  Proof.
    intros Hnd Hg Hv.
    pose proof (icalls_exact pubs Hnd cs [] Hg Hv) as E. rewrite signed_listed_nil in E. simpl map in E.
    rewrite E. apply verdict_of_count.
  Qed.

  Corollary sign_seq_then_verify_m_thm pubs cs m : NoDup pubs -> 1 <= m ->
    resign_free_all pubs [] cs = true ->
    only_signs cs = true \/ dup_point_free sv mk pubs ->
    fst (lib_verify_input_run sv pubs (lib_icalls sv mk pubs [] cs) m)
    = Nat.leb m (length (signed_listed pubs (spec_icalls pubs [] cs))).
  Proof.
    intros Hnd Hm Hg Hv. rewrite sign_seq_then_verify_thm by assumption.
    destruct (Nat.leb m _) eqn:E; [|reflexivity]. apply Nat.leb_le in E. cbn [andb]. apply Nat.leb_le. lia.
  Qed.
End SignSeq.

(* ---------- the statement recorded in Model/SignPlace.v ---------- *)
Lemma sign_calls_as_icalls {B : Type} (sv : B -> Z -> bool) (mk : Z -> B) pubs : forall calls sigs,
  lib_sign_calls mk pubs sigs calls = lib_icalls sv mk pubs sigs (map (CSign false false) calls).
Proof.
  induction calls as [|c r IH]; intros sigs; [reflexivity|].
  simpl. rewrite IH. reflexivity.
Qed.

Lemma spec_icalls_mem pubs k : forall calls acc,
  zmem k (spec_icalls pubs acc (map (CSign false false) calls)) = existsb (existsb (Z.eqb k)) calls || zmem k acc.
Proof.
  unfold spec_icalls. induction calls as [|c r IH]; intros acc; [reflexivity|].
  simpl. rewrite IH, zmem_app. unfold zmem.
  destruct (existsb (Z.eqb k) c), (existsb (existsb (Z.eqb k)) r); simpl; try reflexivity.
Qed.

Lemma resign_free_all_noreplace pubs f : forall calls acc,
  resign_free_all pubs acc (map (CSign false f) calls) = true.
Proof. induction calls as [|c r IH]; intros acc; [reflexivity|]. simpl. apply IH. Qed.

Lemma only_signs_map r f calls : only_signs (map (CSign r f) calls) = true.
Proof. induction calls as [|c l IH]; [reflexivity|]. simpl. exact IH. Qed.

Theorem sign_then_verify_thm : sign_then_verify_statement.
Proof.
  intros B sv mk Hvalid _ pubs m calls Hnd Hm.
  rewrite (sign_calls_as_icalls sv mk).
  rewrite (sign_seq_then_verify_m_thm sv mk Hvalid pubs _ m Hnd Hm).
  - f_equal. f_equal. unfold signed_keys, signed_listed. apply filter_ext. intros k.
    rewrite spec_icalls_mem. rewrite zmem_nil. apply orb_false_r.
  - apply resign_free_all_noreplace.
  - left. apply only_signs_map.
Qed.
