(* Proofs/Bip38Ec.v — EC-multiplied mode: a key made by bip38_create_new_encrypted_wif from a well-formed
   intermediate code decrypts, with the passphrase the code was made from, to passfactor * factorb mod n. *)
From Coq Require Import ZArith List Bool Lia.
From Coq.Strings Require Import Byte.
From Verif Require Import Lib.Bytes Model.Bip38 Proofs.Bip38Xor.
Import ListNotations.
Open Scope Z_scope.

Lemma skipn_add {A} (a b : nat) : forall l : list A, skipn b (skipn a l) = skipn (a + b) l.
Proof.
  induction a as [|a IH]; intros l; [reflexivity|].
  destruct l as [|x l]; [destruct b; reflexivity|]. cbn [skipn plus]. apply IH.
Qed.

Section Ec.
Variable P : Type.
Variable utf8 : P -> bytes.
Variable scrypt : bytes -> bytes -> Z -> Z -> Z -> nat -> bytes.
Variable aes_enc aes_dec : bytes -> bytes -> bytes.
Variable H H160 : bytes -> bytes.
Variable b58e : bytes -> bytes.
Variable b58d : bytes -> option bytes.
Variable pubser : bool -> Z -> option bytes.
Variable ptmulser : bool -> bytes -> Z -> option bytes.

Hypothesis aes_ok : forall k b, length b = 16%nat -> aes_dec k (aes_enc k b) = b.
Hypothesis aes_enc_len : forall k b, length b = 16%nat -> length (aes_enc k b) = 16%nat.
Hypothesis scrypt_len : forall pw salt n r p dk, length (scrypt pw salt n r p dk) = dk.
Hypothesis H_len : forall x, length (H x) = 32%nat.

Lemma first4_len' x : length (firstn 4 (H x)) = 4%nat.
Proof. apply firstn_len_le. rewrite H_len. lia. Qed.

(* ---------------------------------------------------------------- the seed comes back *)
Lemma ec_xor_cancel (sh seed : bytes) :
  length sh = 64%nat -> length seed = 24%nat ->
  let key := skipn 32 sh in
  let eh1 := aes_enc key (xor_be 16 (sl 0 16 seed) (sl 0 16 sh)) in
  let eh2 := aes_enc key (xor_be 16 (skipn 8 eh1 ++ skipn 16 seed) (sl 16 32 sh)) in
  let t := xor_be 16 (aes_dec key eh2) (sl 16 32 sh) in
  xor_be 16 (aes_dec key (sl 0 8 eh1 ++ sl 0 8 t)) (sl 0 16 sh) ++ skipn 8 t = seed.
Proof.
  intros Hsh Hseed key eh1 eh2 t.
  assert (L1 : length eh1 = 16%nat) by (apply aes_enc_len, xor_be_length).
  assert (La : length (skipn 8 eh1) = 8%nat) by (rewrite skipn_length; lia).
  assert (Lb : length (skipn 16 seed) = 8%nat) by (rewrite skipn_length; lia).
  assert (Lab : length (skipn 8 eh1 ++ skipn 16 seed) = 16%nat) by (rewrite app_length; lia).
  assert (Ls2 : length (sl 16 32 sh) = 16%nat) by (rewrite sl_len; lia).
  assert (Ls1 : length (sl 0 16 sh) = 16%nat) by (rewrite sl_len; lia).
  assert (Lq : length (sl 0 16 seed) = 16%nat) by (rewrite sl_len; lia).
  assert (Et : t = skipn 8 eh1 ++ skipn 16 seed).
  { unfold t, eh2. rewrite aes_ok by apply xor_be_length. apply xor_be_invol; assumption. }
  rewrite Et.
  assert (E8 : sl 0 8 (skipn 8 eh1 ++ skipn 16 seed) = skipn 8 eh1).
  { unfold sl. change (skipn 0 ?x) with x. change (8 - 0)%nat with 8%nat. apply firstn_exact. exact La. }
  rewrite E8. rewrite (skipn_exact _ _ 8 La).
  assert (Eh : sl 0 8 eh1 ++ skipn 8 eh1 = eh1) by apply firstn_skipn.
  rewrite Eh. unfold eh1 at 1. rewrite aes_ok by apply xor_be_length.
  rewrite xor_be_invol by assumption.
  apply firstn_skipn.
Qed.

(* ---------------------------------------------------------------- layout of an EC-multiplied payload *)
Lemma ec_slices flag ah oe e1a eh2 cs :
  length ah = 4%nat -> length oe = 8%nat -> length e1a = 8%nat -> length eh2 = 16%nat -> length cs = 4%nat ->
  let d := pfx_ec ++ [flag] ++ ah ++ oe ++ e1a ++ eh2 ++ cs in
  length d = 43%nat /\ sl 0 2 d = pfx_ec /\ sl 2 3 d = [flag] /\ sl 3 7 d = ah /\ sl 7 15 d = oe /\
  sl 15 23 d = e1a /\ sl_end 23 4 d = eh2.
Proof.
  intros Hah Hoe H1 H2 Hcs d.
  assert (Hd : d = x01 :: x43 :: flag :: ah ++ oe ++ e1a ++ eh2 ++ cs) by reflexivity.
  assert (Hs3 : skipn 3 d = ah ++ oe ++ e1a ++ eh2 ++ cs) by (rewrite Hd; reflexivity).
  assert (Hs7 : skipn 7 d = oe ++ e1a ++ eh2 ++ cs).
  { change 7%nat with (3 + 4)%nat. rewrite <- skipn_add. rewrite Hs3. apply skipn_exact. exact Hah. }
  assert (Hs15 : skipn 15 d = e1a ++ eh2 ++ cs).
  { change 15%nat with (7 + 8)%nat. rewrite <- skipn_add. rewrite Hs7. apply skipn_exact. exact Hoe. }
  assert (Hs23 : skipn 23 d = eh2 ++ cs).
  { change 23%nat with (15 + 8)%nat. rewrite <- skipn_add. rewrite Hs15. apply skipn_exact. exact H1. }
  assert (Ld : length d = 43%nat) by (rewrite Hd; cbn [length]; rewrite !app_length; lia).
  refine (conj Ld (conj _ (conj _ (conj _ (conj _ (conj _ _)))))).
  - rewrite Hd. reflexivity.
  - rewrite Hd. reflexivity.
  - unfold sl. rewrite Hs3. change (7 - 3)%nat with 4%nat. apply firstn_exact. exact Hah.
  - unfold sl. rewrite Hs7. change (15 - 7)%nat with 8%nat. apply firstn_exact. exact Hoe.
  - unfold sl. rewrite Hs15. change (23 - 15)%nat with 8%nat. apply firstn_exact. exact H1.
  - unfold sl_end. rewrite Hs23, Ld. change (43 - 4 - 23)%nat with 16%nat. apply firstn_exact. exact H2.
Qed.

(* ---------------------------------------------------------------- what create_new writes *)
Definition ec_flag (has_lot c : bool) : byte :=
  if has_lot then (if c then x24 else x04) else (if c then x20 else x00).
Definition ec_addr (pfx pk : bytes) : bytes := b58check H b58e (pfx ++ H160 pk).
Definition ec_payload (flag : byte) (oe pp seed addr : bytes) : bytes :=
  let ah := firstn 4 (H addr) in
  let sh := scrypt pp (ah ++ oe) 1024 1 1 64%nat in
  let key := skipn 32 sh in
  let eh1 := aes_enc key (xor_be 16 (sl 0 16 seed) (sl 0 16 sh)) in
  let eh2 := aes_enc key (xor_be 16 (skipn 8 eh1 ++ skipn 16 seed) (sl 16 32 sh)) in
  pfx_ec ++ [flag] ++ ah ++ oe ++ sl 0 8 eh1 ++ eh2.
Notation pass_factor_of := (Bip38.pass_factor_of P utf8 scrypt H).

Hypothesis b58_rt53 : forall x, length x = 53%nat -> b58d (b58e x) = Some x.

Lemma code_slices (magic oe pp cs : bytes) :
  length magic = 8%nat -> length oe = 8%nat -> length pp = 33%nat -> length cs = 4%nat ->
  let dec := magic ++ oe ++ pp in
  let ib := dec ++ cs in
  length ib = 53%nat /\ last_n 4 ib = cs /\ firstn (length ib - 4) ib = dec /\ length dec = 49%nat /\
  sl 0 8 dec = magic /\ sl 8 16 dec = oe /\ skipn 16 dec = pp.
Proof.
  intros Hm Ho Hp Hc dec ib.
  assert (Ld : length dec = 49%nat) by (unfold dec; rewrite !app_length; lia).
  assert (Li : length ib = 53%nat) by (unfold ib; rewrite app_length; lia).
  assert (S8 : skipn 8 dec = oe ++ pp) by (apply skipn_exact; exact Hm).
  refine (conj Li (conj _ (conj _ (conj Ld (conj _ (conj _ _)))))).
  - unfold last_n. rewrite Li. change (53 - 4)%nat with 49%nat. apply skipn_exact. exact Ld.
  - rewrite Li. change (53 - 4)%nat with 49%nat. apply firstn_exact. exact Ld.
  - unfold sl. change (skipn 0 ?x) with x. change (8 - 0)%nat with 8%nat. apply firstn_exact. exact Hm.
  - unfold sl. rewrite S8. change (16 - 8)%nat with 8%nat. apply firstn_exact. exact Ho.
  - change 16%nat with (8 + 8)%nat. rewrite <- skipn_add, S8. apply skipn_exact. exact Ho.
Qed.

Lemma magic_facts (has_lot c : bool) :
  length (ec_magic has_lot) = 8%nat /\
  (if bytes_eqb (ec_magic has_lot) magic_lot then Some (if c then x24 else x04)
   else if bytes_eqb (ec_magic has_lot) magic_nolot then Some (if c then x20 else x00) else None)
  = Some (ec_flag has_lot c).
Proof. destruct has_lot, c; split; reflexivity. Qed.

Lemma create_new_wif pfx has_lot c oe pp seed nk :
  length oe = 8%nat -> length pp = 33%nat ->
  lib_create_new scrypt aes_enc H H160 b58e b58d pubser ptmulser pfx
    (b58check H b58e (ec_magic has_lot ++ oe ++ pp)) c seed = Ok nk ->
  exists pk, ptmulser c pp (of_be (H seed)) = Some pk /\ 0 < of_be (H seed) < secp_order /\
             nk_wif nk = b58check H b58e (ec_payload (ec_flag has_lot c) oe pp seed (ec_addr pfx pk)) /\
             nk_address nk = ec_addr pfx pk.
Proof.
  intros Ho Hp. destruct (magic_facts has_lot c) as (Lm & Fm).
  destruct (code_slices (ec_magic has_lot) oe pp (firstn 4 (H (ec_magic has_lot ++ oe ++ pp))) Lm Ho Hp
              (first4_len' _)) as (Li & S1 & S2 & Ld & S3 & S4 & S5).
  unfold lib_create_new, b58check. rewrite (b58_rt53 _ Li). cbv zeta.
  rewrite S1, S2, bytes_eqb_refl, Ld, S3, S4, S5. cbn [negb Nat.eqb].
  rewrite Fm.
  destruct ((0 <? of_be (H seed)) && (of_be (H seed) <? secp_order)) eqn:Er; cbn [negb]; [|discriminate].
  apply andb_true_iff in Er. destruct Er as [R1 R2]. apply Z.ltb_lt in R1. apply Z.ltb_lt in R2.
  destruct (ptmulser c pp (of_be (H seed))) as [pk|]; [|discriminate].
  destruct (pubser true (of_be (H seed))) as [pb|]; [|discriminate].
  intros E. injection E as <-. exists pk. cbn [nk_wif nk_address].
  split; [reflexivity|]. split; [lia|]. split; reflexivity.
Qed.

(* ---------------------------------------------------------------- what the decryption reads back *)
Lemma flag_reads (has_lot c : bool) :
  mem_byte [ec_flag has_lot c] lib_lot_flags = has_lot /\
  mem_byte [ec_flag has_lot c] lib_compressed_flags = c.
Proof. destruct has_lot, c; split; reflexivity. Qed.

Lemma decrypt_ec_payload has_lot c pw oe pp seed addr cs :
  length oe = 8%nat -> length seed = 24%nat -> length cs = 4%nat ->
  let pfz := of_be (pass_factor_of has_lot pw oe) in
  let fbz := of_be (H seed) in
  0 < pfz < secp_order -> 0 < fbz < secp_order ->
  pubser true pfz = Some pp ->
  lib_address H H160 b58e pubser [x00] c ((pfz * fbz) mod secp_order) = Some addr ->
  exists i,
  lib_decrypt_ec P utf8 scrypt aes_dec H H160 b58e pubser
    (ec_payload (ec_flag has_lot c) oe pp seed addr ++ cs) pw = Ok i /\
  di_priv i = be_bytes 32 ((pfz * fbz) mod secp_order) /\ di_compressed i = c /\
  di_hash i = firstn 4 (H addr) /\ di_seed i = seed /\
  di_lot i = (if has_lot then Some (of_be (skipn 4 oe) / 4096) else None) /\
  di_sequence i = (if has_lot then Some (of_be (skipn 4 oe) mod 4096) else None).
Proof.
  intros Ho Hseed Hcs pfz fbz Rp Rf Hpp Haddr.
  unfold ec_payload. cbv zeta.
  set (ah := firstn 4 (H addr)).
  set (sh := scrypt pp (ah ++ oe) 1024 1 1 64%nat).
  set (key := skipn 32 sh).
  set (eh1 := aes_enc key (xor_be 16 (sl 0 16 seed) (sl 0 16 sh))).
  set (eh2 := aes_enc key (xor_be 16 (skipn 8 eh1 ++ skipn 16 seed) (sl 16 32 sh))).
  assert (Hah : length ah = 4%nat) by apply first4_len'.
  assert (L1 : length eh1 = 16%nat) by (apply aes_enc_len, xor_be_length).
  assert (L2 : length eh2 = 16%nat).
  { apply aes_enc_len, xor_be_length. }
  assert (L1a : length (sl 0 8 eh1) = 8%nat) by (rewrite sl_len; lia).
  assert (Hsh : length sh = 64%nat) by apply scrypt_len.
  replace ((pfx_ec ++ [ec_flag has_lot c] ++ ah ++ oe ++ sl 0 8 eh1 ++ eh2) ++ cs)
    with (pfx_ec ++ [ec_flag has_lot c] ++ ah ++ oe ++ sl 0 8 eh1 ++ eh2 ++ cs) by (rewrite <- !app_assoc; reflexivity).
  destruct (ec_slices (ec_flag has_lot c) ah oe (sl 0 8 eh1) eh2 cs Hah Ho L1a L2 Hcs)
    as (_ & _ & S2 & S3 & S4 & S5 & S6).
  destruct (flag_reads has_lot c) as (F1 & F2).
  unfold lib_decrypt_ec. cbv zeta.
  rewrite S2, S3, S4, S5, S6, F1, F2.
  assert (Epf : (if negb (Nat.eqb (length (if has_lot then skipn 4 oe else [])) 0)
                 then H (scrypt (utf8 pw) (if has_lot then sl 0 4 oe else oe) 16384 8 8 32%nat ++ oe)
                 else scrypt (utf8 pw) (if has_lot then sl 0 4 oe else oe) 16384 8 8 32%nat)
                = pass_factor_of has_lot pw oe).
  { unfold pass_factor_of. destruct has_lot; [|reflexivity].
    rewrite skipn_length, Ho. reflexivity. }
  rewrite Epf. fold pfz.
  assert (C1 : (pfz =? 0) || (secp_order <=? pfz) = false).
  { apply orb_false_iff. split; [apply Z.eqb_neq; lia | apply Z.leb_gt; lia]. }
  rewrite C1, Hpp. fold sh. fold key.
  pose proof (ec_xor_cancel sh seed Hsh Hseed) as Hx. cbv zeta in Hx. fold key in Hx. fold eh1 in Hx. fold eh2 in Hx.
  rewrite Hx. fold fbz.
  assert (C2 : (fbz =? 0) || (secp_order <=? fbz) = false).
  { apply orb_false_iff. split; [apply Z.eqb_neq; lia | apply Z.leb_gt; lia]. }
  rewrite C2, Haddr. fold ah. rewrite bytes_eqb_refl. cbn [negb].
  eexists. split; [reflexivity|]. cbn [di_priv di_compressed di_hash di_seed di_lot di_sequence].
  assert (Els : negb (Nat.eqb (length (if has_lot then skipn 4 oe else [])) 0) = has_lot).
  { destruct has_lot; [rewrite skipn_length, Ho|]; reflexivity. }
  rewrite Els. destruct has_lot; repeat split; reflexivity.
Qed.

(* ---------------------------------------------------------------- round trip through Key(...) *)
Hypothesis b58_rt43 : forall x, length x = 43%nat -> b58d (b58e x) = Some x.
Hypothesis b58_prot_ec : forall x, length x = 43%nat -> sl 0 2 x = pfx_ec -> lib_is_protected (b58e x) = true.
(* the curve: factorb * (passfactor * G) = (passfactor * factorb mod n) * G, on serialised points *)
Hypothesis curve_law : forall c a b pp, 0 < a < secp_order -> 0 < b < secp_order ->
  pubser true a = Some pp -> ptmulser c pp b = pubser c ((a * b) mod secp_order).
Hypothesis pub_len : forall k pp, pubser true k = Some pp -> length pp = 33%nat.

Theorem ec_roundtrip has_lot c pw oe pp seed nk :
  length oe = 8%nat -> length seed = 24%nat ->
  let pfz := of_be (pass_factor_of has_lot pw oe) in
  0 < pfz < secp_order -> pubser true pfz = Some pp ->
  lib_create_new scrypt aes_enc H H160 b58e b58d pubser ptmulser [x00]
    (b58check H b58e (ec_magic has_lot ++ oe ++ pp)) c seed = Ok nk ->
  lib_key_decrypt P utf8 scrypt aes_dec H H160 b58e b58d pubser [x00] (nk_wif nk) pw
    = KOk ((pfz * of_be (H seed)) mod secp_order) c /\
  lib_address H H160 b58e pubser [x00] c ((pfz * of_be (H seed)) mod secp_order) = Some (nk_address nk) /\
  exists i, lib_bip38_decrypt P utf8 scrypt aes_dec H H160 b58e b58d pubser (nk_wif nk) pw = Ok i /\
            di_seed i = seed /\
            di_lot i = (if has_lot then Some (of_be (skipn 4 oe) / 4096) else None) /\
            di_sequence i = (if has_lot then Some (of_be (skipn 4 oe) mod 4096) else None).
Proof.
  intros Ho Hseed pfz Rp Hpp Hnew.
  pose proof (pub_len _ _ Hpp) as Lpp.
  destruct (create_new_wif [x00] has_lot c oe pp seed nk Ho Lpp Hnew) as (pk & Hpk & Rf & Ew & Ea).
  set (fbz := of_be (H seed)) in *.
  set (secret := (pfz * fbz) mod secp_order).
  rewrite (curve_law c pfz fbz pp Rp Rf Hpp) in Hpk. fold secret in Hpk.
  assert (Haddr : lib_address H H160 b58e pubser [x00] c secret = Some (ec_addr [x00] pk)).
  { unfold lib_address. rewrite Hpk. reflexivity. }
  set (cs := firstn 4 (H (ec_payload (ec_flag has_lot c) oe pp seed (ec_addr [x00] pk)))).
  assert (Hcs : length cs = 4%nat) by apply first4_len'.
  destruct (decrypt_ec_payload has_lot c pw oe pp seed (ec_addr [x00] pk) cs Ho Hseed Hcs Rp Rf Hpp Haddr)
    as (i & Di & Ip & Ic & Ih & Is & Il & Iq).
  assert (Ld : length (ec_payload (ec_flag has_lot c) oe pp seed (ec_addr [x00] pk) ++ cs) = 43%nat /\
               sl 0 2 (ec_payload (ec_flag has_lot c) oe pp seed (ec_addr [x00] pk) ++ cs) = pfx_ec).
  { unfold ec_payload. cbv zeta.
    match goal with |- context [pfx_ec ++ [?f] ++ ?a ++ oe ++ ?e1 ++ ?e2] =>
      replace ((pfx_ec ++ [f] ++ a ++ oe ++ e1 ++ e2) ++ cs) with (pfx_ec ++ [f] ++ a ++ oe ++ e1 ++ e2 ++ cs)
        by (rewrite <- !app_assoc; reflexivity);
      assert (La : length a = 4%nat) by apply first4_len';
      assert (Le2 : length e2 = 16%nat) by (apply aes_enc_len, xor_be_length);
      assert (Le1 : length e1 = 8%nat) by (rewrite sl_len; [reflexivity | rewrite aes_enc_len by apply xor_be_length; lia | lia]);
      destruct (ec_slices f a oe e1 e2 cs La Ho Le1 Le2 Hcs) as (X1 & X2 & _)
    end. split; assumption. }
  destruct Ld as (Ld & S0).
  assert (Edec : lib_bip38_decrypt P utf8 scrypt aes_dec H H160 b58e b58d pubser (nk_wif nk) pw = Ok i).
  { rewrite Ew. unfold b58check, lib_bip38_decrypt. fold cs. rewrite (b58_rt43 _ Ld).
    assert (Lpay : length (ec_payload (ec_flag has_lot c) oe pp seed (ec_addr [x00] pk)) = 39%nat).
    { rewrite app_length, Hcs in Ld. lia. }
    rewrite Ld. change (43 - 4)%nat with 39%nat. cbn [Nat.eqb negb orb].
    unfold last_n. rewrite Ld. change (43 - 4)%nat with 39%nat.
    rewrite (skipn_exact _ _ 39 Lpay), (firstn_exact _ _ 39 Lpay). fold cs. rewrite bytes_eqb_refl. cbn [negb].
    rewrite S0. change (bytes_eqb pfx_ec pfx_ec) with true. cbv iota. exact Di. }
  assert (Rs : 0 <= secret < 256 ^ 32).
  { pose proof (Z.mod_pos_bound (pfz * fbz) secp_order ltac:(unfold secp_order; lia)).
    assert (secp_order < 256 ^ 32) by (vm_compute; reflexivity). unfold secret. lia. }
  subst secret fbz pfz.
  split; [|split].
  - unfold lib_key_decrypt. rewrite Ew at 1. unfold b58check at 1. fold cs.
    rewrite (b58_prot_ec _ Ld S0). cbn [negb]. rewrite Edec.
    unfold lib_check_address. rewrite Ip, Ic, Ih.
    rewrite of_be_be_bytes_small by exact Rs.
    rewrite Haddr, bytes_eqb_refl. reflexivity.
  - rewrite Ea. exact Haddr.
  - exists i. repeat split; assumption.
Qed.

End Ec.
