(* Proofs/VerifyInput.v — soundness, completeness and exact characterisation of the Input.verify loop,
   for an arbitrary signature relation. *)
From Coq Require Import List Bool Arith Lia.
From Verif Require Import Model.VerifyInput.
Import ListNotations.

Section VerifyProofs.
  Context {sigT keyT : Type}.
  Variable sv : sigT -> keyT -> bool.

  Lemma loop_eq keys sigs need :
    lib_verify_loop sv keys sigs need =
    match need with
    | O => true
    | S need' =>
      match keys with
      | [] => false
      | k :: ks =>
        match sigs with
        | [] => false
        | s :: ss => if sv s k then lib_verify_loop sv ks ss need' else lib_verify_loop sv ks sigs need
        end
      end
    end.
  Proof. destruct need; destruct keys; reflexivity. Qed.

  (* ---------- soundness: a True verdict exhibits an order-preserving matching of size m ---------- *)
  Lemma loop_sound : forall keys sigs need,
    lib_verify_loop sv keys sigs need = true ->
    exists pairs, matching sv pairs keys sigs /\ length pairs = need.
  Proof.
    induction keys as [|k ks IH]; intros sigs need H; rewrite loop_eq in H.
    - destruct need; [|discriminate].
      exists []. repeat split; simpl; constructor.
    - destruct need as [|n].
      + exists []. repeat split; simpl; constructor.
      + destruct sigs as [|s ss]; [discriminate|].
        destruct (sv s k) eqn:E.
        * destruct (IH _ _ H) as (pairs & (Hk & Hs & Hv) & Hl).
          exists ((s, k) :: pairs). repeat split; simpl.
          -- apply subseq_take; exact Hk.
          -- apply subseq_take; exact Hs.
          -- constructor; [exact E | exact Hv].
          -- f_equal; exact Hl.
        * destruct (IH _ _ H) as (pairs & (Hk & Hs & Hv) & Hl).
          exists pairs. repeat split; try assumption.
          apply subseq_skip; exact Hk.
  Qed.

  Lemma subseq_length {A} (a b : list A) : subseq a b -> length a <= length b.
  Proof. induction 1; simpl; lia. Qed.

  Lemma subseq_filter_count {A} (P : A -> bool) (a b : list A) :
    subseq a b -> Forall (fun x => P x = true) a -> length a <= length (filter P b).
  Proof.
    induction 1 as [l|x a l H IH|x a l H IH]; intros F; simpl.
    - lia.
    - specialize (IH F). destruct (P x); simpl; lia.
    - inversion F as [|? ? Px Fa]; subst. rewrite Px. simpl. specialize (IH Fa). lia.
  Qed.

  Lemma subseq_In {A} (a b : list A) x : subseq a b -> In x a -> In x b.
  Proof.
    induction 1; simpl; intros HI; [contradiction| right; auto |].
    destruct HI; [left; assumption | right; auto].
  Qed.

  Lemma matching_keys_signed pairs keys sigs :
    matching sv pairs keys sigs -> Forall (fun k => key_signed sv sigs k = true) (map snd pairs).
  Proof.
    intros (Hk & Hs & Hv).
    apply Forall_forall. intros k Hin. apply in_map_iff in Hin. destruct Hin as ((s, k') & Heq & Hin).
    simpl in Heq; subst k'.
    unfold key_signed. apply existsb_exists. exists s. split.
    - eapply subseq_In; [exact Hs|]. apply in_map_iff. exists (s, k). split; [reflexivity|exact Hin].
    - rewrite Forall_forall in Hv. exact (Hv _ Hin).
  Qed.

  Lemma matching_sigs_useful pairs keys sigs :
    matching sv pairs keys sigs -> Forall (fun s => sig_useful sv keys s = true) (map fst pairs).
  Proof.
    intros (Hk & Hs & Hv).
    apply Forall_forall. intros s Hin. apply in_map_iff in Hin. destruct Hin as ((s', k) & Heq & Hin).
    simpl in Heq; subst s'.
    unfold sig_useful. apply existsb_exists. exists k. split.
    - eapply subseq_In; [exact Hk|]. apply in_map_iff. exists (s, k). split; [reflexivity|exact Hin].
    - rewrite Forall_forall in Hv. exact (Hv _ Hin).
  Qed.

  Lemma input_true_loop coinbase keys sigs m :
    coinbase = false -> lib_verify_input sv coinbase keys sigs m = true ->
    sigs <> [] /\ lib_verify_loop sv keys sigs m = true.
  Proof.
    intros -> H. unfold lib_verify_input in H. destruct sigs; [discriminate|]. split; [discriminate|exact H].
  Qed.

  Theorem verify_sound_thm keys sigs m :
    lib_verify_input sv false keys sigs m = true ->
    exists pairs, matching sv pairs keys sigs /\ length pairs = m.
  Proof. intros H. apply input_true_loop in H; [|reflexivity]. apply loop_sound. apply H. Qed.

  Theorem verify_sound_positions_thm keys sigs m :
    lib_verify_input sv false keys sigs m = true ->
    exists ks, subseq ks keys /\ length ks = m /\ Forall (fun k => key_signed sv sigs k = true) ks.
  Proof.
    intros H. destruct (verify_sound_thm _ _ _ H) as (pairs & Hm & Hl).
    exists (map snd pairs). split; [apply Hm|]. split; [rewrite map_length; exact Hl|].
    eapply matching_keys_signed; exact Hm.
  Qed.

  (* fewer than m listed keys have a valid signature  =>  False *)
  Theorem verify_insufficient_keys_thm keys sigs m :
    length (filter (key_signed sv sigs) keys) < m -> lib_verify_input sv false keys sigs m = false.
  Proof.
    intros Hc. destruct (lib_verify_input sv false keys sigs m) eqn:E; [|reflexivity].
    destruct (verify_sound_positions_thm _ _ _ E) as (ks & Hs & Hl & Hf).
    pose proof (subseq_filter_count _ _ _ Hs Hf). lia.
  Qed.

  (* fewer than m signatures are valid for any listed key (foreign signers, corrupted signatures)  =>  False *)
  Theorem verify_insufficient_sigs_thm keys sigs m :
    length (filter (sig_useful sv keys) sigs) < m -> lib_verify_input sv false keys sigs m = false.
  Proof.
    intros Hc. destruct (lib_verify_input sv false keys sigs m) eqn:E; [|reflexivity].
    destruct (verify_sound_thm _ _ _ E) as (pairs & Hm & Hl).
    pose proof (matching_sigs_useful _ _ _ Hm) as Hf.
    destruct Hm as (_ & Hs & _).
    pose proof (subseq_filter_count _ _ _ Hs Hf) as Hle. rewrite map_length in Hle. lia.
  Qed.

  (* ---------- completeness ---------- *)
  Lemma sio_tail : forall ks s ss, signed_in_order sv ks (s :: ss) -> signed_in_order sv ks ss.
  Proof.
    induction ks as [|k ks IH]; intros s ss H; inversion H; subst.
    - apply sio_skip. eapply IH; eassumption.
    - apply sio_skip. assumption.
  Qed.

  Lemma sio_firstn : forall ks ss, signed_in_order sv ks ss -> forall n, signed_in_order sv ks (firstn n ss).
  Proof.
    induction 1 as [ks|k ks ss H IH|k ks s ss E H IH]; intros n.
    - rewrite firstn_nil. constructor.
    - apply sio_skip. apply IH.
    - destruct n; simpl; [constructor|]. apply sio_take; [exact E|apply IH].
  Qed.

  Lemma loop_complete : forall keys sigs need,
    need <= length sigs -> signed_in_order sv keys (firstn need sigs) ->
    lib_verify_loop sv keys sigs need = true.
  Proof.
    induction keys as [|k ks IH]; intros sigs need Hl H; rewrite loop_eq.
    - destruct need; [reflexivity|]. destruct sigs as [|s ss]; [simpl in Hl; lia|].
      simpl in H. inversion H.
    - destruct need as [|n]; [reflexivity|].
      destruct sigs as [|s ss]; [simpl in Hl; lia|].
      simpl in Hl. simpl firstn in H.
      destruct (sv s k) eqn:E.
      + apply IH; [lia|]. inversion H; subst.
        * eapply sio_tail; eassumption.
        * assumption.
      + apply IH; [simpl; lia|]. simpl firstn. inversion H; subst.
        * assumption.
        * congruence.
  Qed.

  Lemma loop_needs_sigs : forall keys sigs need,
    lib_verify_loop sv keys sigs need = true -> need <= length sigs /\ signed_in_order sv keys (firstn need sigs).
  Proof.
    induction keys as [|k ks IH]; intros sigs need H; rewrite loop_eq in H.
    - destruct need; [|discriminate]. split; [lia|]. simpl. constructor.
    - destruct need as [|n]; [split; [lia|simpl; constructor]|].
      destruct sigs as [|s ss]; [discriminate|].
      destruct (sv s k) eqn:E.
      + destruct (IH _ _ H) as (Hl & Ho). split; [simpl; lia|]. simpl. apply sio_take; assumption.
      + destruct (IH _ _ H) as (Hl & Ho). split; [exact Hl|]. apply sio_skip. exact Ho.
  Qed.

  (* the verdict is exactly: the first m signatures are valid, in key order, for distinct key positions *)
  Theorem verify_exact_thm keys sigs m :
    1 <= m ->
    (lib_verify_input sv false keys sigs m = true <->
     m <= length sigs /\ signed_in_order sv keys (firstn m sigs)).
  Proof.
    intros Hm. split.
    - intros H. apply input_true_loop in H; [|reflexivity]. apply loop_needs_sigs. apply H.
    - intros (Hl & Ho). unfold lib_verify_input. destruct sigs as [|s ss]; [simpl in Hl; lia|].
      apply loop_complete; assumption.
  Qed.

  Theorem verify_complete_thm keys sigs m :
    signed_in_order sv keys sigs -> 1 <= m <= length sigs ->
    lib_verify_input sv false keys sigs m = true.
  Proof.
    intros H Hm. apply verify_exact_thm; [lia|]. split; [lia|]. apply sio_firstn. exact H.
  Qed.

  (* ---------- what the removed "previous signature" branch did ---------- *)
  Lemma unfixed_eq keys prev sigs need :
    unfixed_verify_loop sv keys prev sigs need =
    match need with
    | O => true
    | S need' =>
      match keys with
      | [] => false
      | k :: ks =>
        match sigs with
        | [] => false
        | s :: ss =>
          if sv s k then unfixed_verify_loop sv ks (Some s) ss need'
          else match prev with
               | Some p => if sv p k then unfixed_verify_loop sv ks prev sigs need'
                           else unfixed_verify_loop sv ks prev sigs need
               | None => unfixed_verify_loop sv ks prev sigs need
               end
        end
      end
    end.
  Proof. destruct need; destruct keys; reflexivity. Qed.

  Lemma loop_mono : forall keys sigs n n', n' <= n ->
    lib_verify_loop sv keys sigs n = true -> lib_verify_loop sv keys sigs n' = true.
  Proof.
    induction keys as [|k ks IH]; intros sigs n n' Hle H; rewrite loop_eq in H; rewrite loop_eq.
    - destruct n'; [reflexivity|]. destruct n; [lia|discriminate].
    - destruct n' as [|n']; [reflexivity|]. destruct n as [|n]; [lia|].
      destruct sigs as [|s ss]; [discriminate|].
      destruct (sv s k); eapply IH; try eassumption; lia.
  Qed.

  (* the repaired loop never accepts more than the old one *)
  Lemma fixed_implies_unfixed : forall keys prev sigs need,
    lib_verify_loop sv keys sigs need = true -> unfixed_verify_loop sv keys prev sigs need = true.
  Proof.
    induction keys as [|k ks IH]; intros prev sigs need H; rewrite loop_eq in H; rewrite unfixed_eq.
    - destruct need; [reflexivity|discriminate].
    - destruct need as [|n]; [reflexivity|].
      destruct sigs as [|s ss]; [discriminate|].
      destruct (sv s k); [apply IH; exact H|].
      destruct prev as [p|]; [|apply IH; exact H].
      destruct (sv p k); [|apply IH; exact H].
      apply IH. eapply loop_mono; [|exact H]. lia.
  Qed.

  (* ... and agrees with it when no signature is valid for two distinct listed key positions *)
  Lemma unfixed_is_fixed : forall keys prev sigs need,
    (forall p, prev = Some p -> forall k, In k keys -> sv p k = false) ->
    (forall s, In s sigs -> forall pre k post, keys = pre ++ k :: post -> sv s k = true ->
                            forall k', In k' post -> sv s k' = false) ->
    unfixed_verify_loop sv keys prev sigs need = lib_verify_loop sv keys sigs need.
  Proof.
    induction keys as [|k ks IH]; intros prev sigs need Hp Hu; rewrite loop_eq, unfixed_eq.
    - reflexivity.
    - destruct need as [|n]; [reflexivity|].
      destruct sigs as [|s ss]; [reflexivity|].
      assert (Hu' : forall l : list sigT, (forall x, In x l -> In x (s :: ss)) ->
                forall s0, In s0 l -> forall pre k0 post, ks = pre ++ k0 :: post -> sv s0 k0 = true ->
                forall k', In k' post -> sv s0 k' = false).
      { intros l Hl s0 Hin pre k0 post Hks Hv k' Hk'.
        eapply (Hu s0 (Hl _ Hin) (k :: pre) k0 post); [rewrite Hks; reflexivity|exact Hv|exact Hk']. }
      destruct (sv s k) eqn:E.
      + apply IH.
        * intros p Hp' k' Hk'. inversion Hp'; subst p.
          eapply (Hu s (or_introl eq_refl) [] k ks); [reflexivity|exact E|exact Hk'].
        * apply (Hu' ss); intros x Hx; right; exact Hx.
      + assert (Hprev : forall p, prev = Some p -> forall k0, In k0 ks -> sv p k0 = false).
        { intros p Hp' k0 Hk0. eapply Hp; [exact Hp'|right; exact Hk0]. }
        destruct prev as [p|].
        * rewrite (Hp p eq_refl k (or_introl eq_refl)).
          apply IH; [exact Hprev|]. apply (Hu' (s :: ss)); intros x Hx; exact Hx.
        * apply IH; [exact Hprev|]. apply (Hu' (s :: ss)); intros x Hx; exact Hx.
  Qed.

  Lemma unfixed_is_fixed_start keys sigs need :
    (forall s, In s sigs -> forall pre k post, keys = pre ++ k :: post -> sv s k = true ->
                            forall k', In k' post -> sv s k' = false) ->
    unfixed_verify_loop sv keys None sigs need = lib_verify_loop sv keys sigs need.
  Proof. intros H. apply unfixed_is_fixed; [intros p E; discriminate|exact H]. Qed.
End VerifyProofs.

(* ---------- Transaction.verify ---------- *)
Section TxProofs.
  Context {sigT keyT : Type}.
  Variable svi : nat -> sigT -> keyT -> bool.

  Lemma tx_verify_from_all : forall ins i,
    lib_tx_verify_from svi i ins = true ->
    forall j x, nth_error ins j = Some x ->
      vi_hash_ok x = true /\
      lib_verify_input (svi (i + j)) (vi_coinbase x) (vi_keys x) (vi_sigs x) (vi_m x) = true.
  Proof.
    induction ins as [|y r IH]; intros i H j x Hj.
    - destruct j; discriminate.
    - simpl in H. destruct (vi_hash_ok y) eqn:Eh; simpl in H; [|discriminate].
      destruct (lib_verify_input (svi i) (vi_coinbase y) (vi_keys y) (vi_sigs y) (vi_m y)) eqn:Ev; [|discriminate].
      destruct j as [|j].
      + simpl in Hj. inversion Hj; subst x. rewrite Nat.add_0_r. split; assumption.
      + simpl in Hj. destruct (IH _ H _ _ Hj) as (A & B). split; [exact A|].
        replace (i + S j) with (S i + j) by lia. exact B.
  Qed.

  Lemma tx_verify_from_conv : forall ins i,
    (forall j x, nth_error ins j = Some x ->
       vi_hash_ok x = true /\
       lib_verify_input (svi (i + j)) (vi_coinbase x) (vi_keys x) (vi_sigs x) (vi_m x) = true) ->
    lib_tx_verify_from svi i ins = true.
  Proof.
    induction ins as [|y r IH]; intros i H; [reflexivity|].
    simpl. destruct (H 0 y eq_refl) as (A & B). rewrite Nat.add_0_r in B. rewrite A, B. simpl.
    apply IH. intros j x Hj. replace (S i + j) with (i + S j) by lia. apply H. exact Hj.
  Qed.

  Theorem tx_verify_iff_thm ins :
    lib_tx_verify svi ins = true <->
    forall j x, nth_error ins j = Some x ->
      vi_hash_ok x = true /\ lib_verify_input (svi j) (vi_coinbase x) (vi_keys x) (vi_sigs x) (vi_m x) = true.
  Proof.
    unfold lib_tx_verify. split.
    - intros H j x Hj. exact (tx_verify_from_all _ _ H _ _ Hj).
    - intros H. apply tx_verify_from_conv. exact H.
  Qed.
End TxProofs.
