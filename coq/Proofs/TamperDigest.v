(* Proofs/TamperDigest.v — C02 tamper_changes_digest.
   Part 1 (on C01's preimage model, Model/Sighash.v + Proofs/SighashCommit.v): a transaction t' that differs from
   the signed transaction t in a field input i's digest commits to has a different consensus preimage for input i,
   hence a different digest — or the proof exhibits two different byte strings with the same H (no
   collision-freeness is assumed).  Through C01 digest_ok the same holds for the digest the library computes.
   Part 2 (on Model/VerifyInput.v, signature relation indexed by the digest): signatures that are valid for no
   digest other than the one they were made for (the unforgeability premise, visible in every statement) do not
   count under the new digest, so Input.verify / Transaction.verify of the tampered transaction return False
   unless m signatures that are NOT of this kind are present. *)
From Coq Require Import ZArith List Bool Lia Arith.
From Coq.Strings Require Import Byte.
From Verif Require Import Lib.Bytes Model.Wire Model.TxCodec Model.Sighash
  Proofs.Sighash Proofs.SighashEq Proofs.SighashCommit Model.VerifyInput Proofs.VerifyInput.
Import ListNotations.
Local Open Scope Z_scope.

(* ---------- part 1: committed fields ---------- *)
Section Commit.
Context (H : bytes -> bytes) (H160 : bytes -> bytes).
Hypothesis H_len : forall b, length (H b) = 32%nat.
Hypothesis H160_len : forall b, length (H160 b) = 20%nat.

(* t' differs from t in something the digest of the input at position i (x in t, x' in t') commits to, for hash
   types treated like SIGHASH_ALL: version, locktime, the outpoint or the sequence of ANY input, the amount or the
   script of ANY output, the script code of the input itself (key list, threshold, kind), and — BIP143 only —
   the amount of the output the input spends *)
Definition committed_differs (t t' : stx) (x x' : sin) : Prop :=
  st_version t <> st_version t' \/ st_locktime t <> st_locktime t' \/
  outpoints t <> outpoints t' \/ sequences t <> sequences t' \/ st_outs t <> st_outs t' \/
  si_code H160 x <> si_code H160 x' \/
  (k_segwit (si_kind x) = true /\ si_value x <> si_value x').

Lemma bytes_eq_dec (a b : bytes) : a = b \/ a <> b.
Proof.
  destruct (bytes_eqb a b) eqn:E.
  - left. apply bytes_eqb_true. exact E.
  - right. intros ->. rewrite bytes_eqb_refl in E. discriminate.
Qed.

Theorem tamper_changes_preimage_thm t t' i ht x x' p p' :
  wf_stx t -> wf_stx t' ->
  nth_error (st_ins t) i = Some x -> nth_error (st_ins t') i = Some x' ->
  k_segwit (si_kind x) = k_segwit (si_kind x') ->
  0 <= ht < 2 ^ 32 -> legacy_all_like ht = true ->
  committed_differs t t' x x' ->
  spec_preimage H H160 t i ht = Some p -> spec_preimage H H160 t' i ht = Some p' ->
  p <> p' \/ collision H.
Proof.
  intros Hw Hw' Hx Hx' Hk Hht Hall Hd Ep Ep'.
  destruct (bytes_eq_dec p p') as [Epp|Epp]; [|left; exact Epp].
  subst p'. unfold spec_preimage in Ep, Ep'. rewrite Hx in Ep. rewrite Hx' in Ep'. rewrite <- Hk in Ep'.
  destruct (k_segwit (si_kind x)) eqn:Ek.
  - destruct (bip143_commits H H160 H_len H160_len t t' i i ht ht x x' p Hw Hw' Hx Hx' Hht Hht Ep Ep')
      as (Ever & _ & _ & Ecode & Eval & _ & Elock & _).
    destruct (bip143_commits_all H H160 H_len H160_len t t' i i ht ht x x' p Hw Hw' Hx Hx' Hht Hht Hall Ep Ep')
      as [(Eop & Eseq & Eouts)|C]; [|right; exact C].
    exfalso. destruct Hd as [D|[D|[D|[D|[D|[D|[_ D]]]]]]]; apply D; assumption.
  - destruct (legacy_commits H160 H160_len t t' i i ht ht x x' p Hw Hw' Hx Hx' Hht Hht Hall Hall Ep Ep')
      as (Ever & Elock & _ & Eop & Eseq & Eouts & _ & Ecode).
    exfalso. destruct Hd as [D|[D|[D|[D|[D|[D|[D _]]]]]]]; try (apply D; assumption). congruence.
Qed.

(* under the domain of C01 the consensus digest is H of the preimage *)
Lemma spec_digest_preimage t i ht x d :
  nth_error (st_ins t) i = Some x -> legacy_all_like ht = true ->
  spec_digest H H160 t i ht = Some d ->
  exists p, spec_preimage H H160 t i ht = Some p /\ d = H p.
Proof.
  intros Hx Hall Ed. unfold spec_digest in Ed. rewrite Hx in Ed.
  destruct (spec_preimage H H160 t i ht) as [p|] eqn:Ep.
  - exists p. split; [reflexivity|congruence].
  - exfalso. unfold spec_preimage in Ep. rewrite Hx in Ep. destruct (k_segwit (si_kind x)).
    + unfold spec_bip143_preimage in Ep. rewrite Hx in Ep. discriminate.
    + destruct (all_like_flags ht Hall) as (_ & Hs & _).
      unfold spec_legacy_preimage in Ep. rewrite Hx, Hs in Ep. discriminate.
Qed.

Theorem tamper_changes_spec_digest_thm t t' i ht x x' d d' :
  wf_stx t -> wf_stx t' ->
  nth_error (st_ins t) i = Some x -> nth_error (st_ins t') i = Some x' ->
  k_segwit (si_kind x) = k_segwit (si_kind x') ->
  0 <= ht < 2 ^ 32 -> legacy_all_like ht = true ->
  committed_differs t t' x x' ->
  spec_digest H H160 t i ht = Some d -> spec_digest H H160 t' i ht = Some d' ->
  d <> d' \/ collision H.
Proof.
  intros Hw Hw' Hx Hx' Hk Hht Hall Hd Ed Ed'.
  destruct (spec_digest_preimage t i ht x d Hx Hall Ed) as (p & Ep & ->).
  destruct (spec_digest_preimage t' i ht x' d' Hx' Hall Ed') as (p' & Ep' & ->).
  destruct (tamper_changes_preimage_thm t t' i ht x x' p p' Hw Hw' Hx Hx' Hk Hht Hall Hd Ep Ep') as [Hne|C];
    [|right; exact C].
  destruct (bytes_eq_dec (H p) (H p')) as [E|E]; [|left; exact E].
  right. exists p, p'. split; assumption.
Qed.

(* the digest Transaction.sign / Transaction.verify compute (C01 digest_ok: it is the consensus digest) *)
Theorem tamper_changes_digest_thm t t' i ht x x' d d' :
  wf_stx t -> wf_stx t' ->
  nth_error (st_ins t) i = Some x -> nth_error (st_ins t') i = Some x' ->
  k_segwit (si_kind x) = k_segwit (si_kind x') ->
  (k_segwit (si_kind x) = true -> st_segwit t = true /\ st_segwit t' = true) ->
  0 <= ht < 2 ^ 32 -> legacy_all_like ht = true ->
  committed_differs t t' x x' ->
  lib_digest H H160 t i ht = Some d -> lib_digest H H160 t' i ht = Some d' ->
  d <> d' \/ collision H.
Proof.
  intros Hw Hw' Hx Hx' Hk Hsw Hht Hall Hd Ed Ed'.
  assert (Hs : hash_type_supported x ht) by (split; [exact Hht|intros _; exact Hall]).
  assert (Hs' : hash_type_supported x' ht) by (split; [exact Hht|intros _; exact Hall]).
  destruct (digest_ok H H160 H160_len t i ht x Hw Hx (fun e => proj1 (Hsw e)) Hs) as (E & _).
  destruct (digest_ok H H160 H160_len t' i ht x' Hw' Hx'
              (fun e => proj2 (Hsw (eq_trans Hk e))) Hs') as (E' & _).
  rewrite E in Ed. rewrite E' in Ed'.
  exact (tamper_changes_spec_digest_thm t t' i ht x x' d d' Hw Hw' Hx Hx' Hk Hht Hall Hd Ed Ed').
Qed.

(* the hash type itself is committed (BIP143 inputs, EVERY pair of hash types): the digests the library computes for
   one input under two different hash types differ, or H collides *)
Theorem hash_type_changes_digest_thm t i ht ht' x d d' :
  wf_stx t -> nth_error (st_ins t) i = Some x ->
  k_segwit (si_kind x) = true -> st_segwit t = true ->
  0 <= ht < 2 ^ 32 -> 0 <= ht' < 2 ^ 32 -> ht <> ht' ->
  lib_digest H H160 t i ht = Some d -> lib_digest H H160 t i ht' = Some d' ->
  d <> d' \/ collision H.
Proof.
  intros Hw Hx Hk Hsw Hht Hht' Hne Ed Ed'.
  assert (Hs : hash_type_supported x ht) by (split; [exact Hht|intros E; congruence]).
  assert (Hs' : hash_type_supported x ht') by (split; [exact Hht'|intros E; congruence]).
  destruct (digest_ok H H160 H160_len t i ht x Hw Hx (fun _ => Hsw) Hs) as (E & _).
  destruct (digest_ok H H160 H160_len t i ht' x Hw Hx (fun _ => Hsw) Hs') as (E' & _).
  rewrite E in Ed. rewrite E' in Ed'. clear E E'.
  unfold spec_digest, spec_preimage in Ed, Ed'. rewrite Hx, Hk in Ed, Ed'.
  destruct (spec_bip143_preimage H H160 t i ht) as [p|] eqn:Ep;
    [|unfold spec_bip143_preimage in Ep; rewrite Hx in Ep; discriminate].
  destruct (spec_bip143_preimage H H160 t i ht') as [p'|] eqn:Ep';
    [|unfold spec_bip143_preimage in Ep'; rewrite Hx in Ep'; discriminate].
  assert (d = H p) by congruence. assert (d' = H p') by congruence. subst d d'.
  destruct (bytes_eq_dec (H p) (H p')) as [Eh|Eh]; [|left; exact Eh].
  destruct (bytes_eq_dec p p') as [Epp|Epp]; [|right; exists p, p'; split; assumption].
  exfalso. subst p'.
  destruct (bip143_commits H H160 H_len H160_len t t i i ht ht' x x p Hw Hw Hx Hx Hht Hht' Ep Ep')
    as (_ & _ & _ & _ & _ & _ & _ & Eht & _).
  exact (Hne Eht).
Qed.
End Commit.

Close Scope Z_scope.

(* ---------- part 2: verification under another digest ---------- *)
Section TamperVerify.
  Context {D sigT keyT : Type}.
  Variable sv : D -> sigT -> keyT -> bool.    (* "signature s is valid for key k over digest e" *)

  (* the unforgeability premise: signature s was made for digest d and is valid for no listed key under any other
     digest.  It is a hypothesis of the theorems below, never an assumption of the development. *)
  Definition bound_to (d : D) (keys : list keyT) (s : sigT) : Prop :=
    forall e k, e <> d -> In k keys -> sv e s k = false.

  Lemma filter_length_le {A} (P Q : A -> bool) (l : list A) :
    (forall x, In x l -> P x = true -> Q x = true) -> length (filter P l) <= length (filter Q l).
  Proof.
    induction l as [|y l IH]; intros Hpq; [simpl; lia|].
    assert (IH' : length (filter P l) <= length (filter Q l)).
    { apply IH. intros x Hx. apply Hpq. right. exact Hx. }
    simpl. destruct (P y) eqn:Ep.
    - rewrite (Hpq y (or_introl eq_refl) Ep). simpl. lia.
    - destruct (Q y); simpl; lia.
  Qed.

  (* [stale] marks signatures made for the old digest d; fewer than m other signatures  =>  False under d' *)
  Theorem stale_signatures_fail_thm d d' keys sigs m (stale : sigT -> bool) :
    d' <> d ->
    (forall s, In s sigs -> stale s = true -> bound_to d keys s) ->
    length (filter (fun s => negb (stale s)) sigs) < m ->
    lib_verify_input (sv d') false keys sigs m = false.
  Proof.
    intros Hne Hb Hc. apply verify_insufficient_sigs_thm.
    eapply Nat.le_lt_trans; [|exact Hc]. apply filter_length_le.
    intros s Hs Hu. destruct (stale s) eqn:Es; [|reflexivity]. exfalso.
    unfold sig_useful in Hu. apply existsb_exists in Hu. destruct Hu as (k & Hk & Hv).
    rewrite (Hb s Hs Es d' k Hne Hk) in Hv. discriminate.
  Qed.

  (* every signature present was made for d: nothing verifies under d' *)
  Corollary old_signatures_fail_thm d d' keys sigs m :
    d' <> d -> (forall s, In s sigs -> bound_to d keys s) -> 1 <= m ->
    lib_verify_input (sv d') false keys sigs m = false.
  Proof.
    intros Hne Hb Hm. apply (stale_signatures_fail_thm d d' keys sigs m (fun _ => true) Hne).
    - intros s Hs _. apply Hb. exact Hs.
    - assert (E : filter (fun _ : sigT => negb true) sigs = []) by (clear; induction sigs as [|a l IHl]; [reflexivity|exact IHl]).
      rewrite E. simpl. lia.
  Qed.

  (* Transaction.verify: one failing non-coinbase input makes the whole verdict False *)
  Theorem tx_input_fails_thm (svi : nat -> sigT -> keyT -> bool) ins i v :
    nth_error ins i = Some v -> vi_coinbase v = false ->
    lib_verify_input (svi i) false (vi_keys v) (vi_sigs v) (vi_m v) = false ->
    lib_tx_verify svi ins = false.
  Proof.
    intros Hi Hc Hf. destruct (lib_tx_verify svi ins) eqn:E; [|reflexivity].
    destruct (proj1 (tx_verify_iff_thm svi ins) E i v Hi) as (_ & Hv). rewrite Hc in Hv. congruence.
  Qed.
End TamperVerify.

(* ---------- both parts: a tampered transaction does not verify with the old signatures ---------- *)
Section TamperDetected.
Context (H : bytes -> bytes) (H160 : bytes -> bytes).
Hypothesis H_len : forall b, length (H b) = 32%nat.
Hypothesis H160_len : forall b, length (H160 b) = 20%nat.
Context {sigT keyT : Type}.
Variable sv : bytes -> sigT -> keyT -> bool.

Theorem tamper_detected_thm t t' i ht x x' d d' keys sigs m (stale : sigT -> bool) :
  wf_stx t -> wf_stx t' ->
  nth_error (st_ins t) i = Some x -> nth_error (st_ins t') i = Some x' ->
  k_segwit (si_kind x) = k_segwit (si_kind x') ->
  (k_segwit (si_kind x) = true -> st_segwit t = true /\ st_segwit t' = true) ->
  (0 <= ht < 2 ^ 32)%Z -> legacy_all_like ht = true ->
  committed_differs H160 t t' x x' ->
  lib_digest H H160 t i ht = Some d -> lib_digest H H160 t' i ht = Some d' ->
  (forall s, In s sigs -> stale s = true -> bound_to sv d keys s) ->
  length (filter (fun s => negb (stale s)) sigs) < m ->
  lib_verify_input (sv d') false keys sigs m = false \/ collision H.
Proof.
  intros Hw Hw' Hx Hx' Hk Hsw Hht Hall Hd Ed Ed' Hb Hc.
  destruct (tamper_changes_digest_thm H H160 H_len H160_len t t' i ht x x' d d'
              Hw Hw' Hx Hx' Hk Hsw Hht Hall Hd Ed Ed') as [Hne|C]; [|right; exact C].
  left. apply (stale_signatures_fail_thm sv d d' keys sigs m stale); [congruence|exact Hb|exact Hc].
Qed.

(* ... and neither does the transaction: input i of the tampered transaction is checked under the new digest d' *)
Theorem tamper_detected_tx_thm t t' i ht x x' d d' (svi : nat -> sigT -> keyT -> bool) ins v (stale : sigT -> bool) :
  wf_stx t -> wf_stx t' ->
  nth_error (st_ins t) i = Some x -> nth_error (st_ins t') i = Some x' ->
  k_segwit (si_kind x) = k_segwit (si_kind x') ->
  (k_segwit (si_kind x) = true -> st_segwit t = true /\ st_segwit t' = true) ->
  (0 <= ht < 2 ^ 32)%Z -> legacy_all_like ht = true ->
  committed_differs H160 t t' x x' ->
  lib_digest H H160 t i ht = Some d -> lib_digest H H160 t' i ht = Some d' ->
  nth_error ins i = Some v -> vi_coinbase v = false -> svi i = sv d' ->
  (forall s, In s (vi_sigs v) -> stale s = true -> bound_to sv d (vi_keys v) s) ->
  length (filter (fun s => negb (stale s)) (vi_sigs v)) < vi_m v ->
  lib_tx_verify svi ins = false \/ collision H.
Proof.
  intros Hw Hw' Hx Hx' Hk Hsw Hht Hall Hd Ed Ed' Hv Hcb Hsvi Hb Hc.
  destruct (tamper_detected_thm t t' i ht x x' d d' (vi_keys v) (vi_sigs v) (vi_m v) stale
              Hw Hw' Hx Hx' Hk Hsw Hht Hall Hd Ed Ed' Hb Hc) as [F|C]; [|right; exact C].
  left. apply (tx_input_fails_thm svi ins i v Hv Hcb). rewrite Hsvi. exact F.
Qed.
End TamperDetected.
