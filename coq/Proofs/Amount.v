(* Proofs/Amount.v — exactness of the satoshi conversion for main-unit and "sat" amounts (all n up to 21e14). *)
From Coq Require Import ZArith Reals Lia Lra Bool List.
From Coq Require Import Floats.
From Flocq Require Import Core.Core IEEE754.BinarySingleNaN IEEE754.PrimFloat.
From Verif Require Import Float.DecRound Float.B64 Model.Amount Proofs.AmountDecRound Proofs.AmountFloat.
Import ListNotations.
Open Scope Z_scope.

Definition TOP : Z := 21 * 10 ^ 14.

(* the smallest-unit denominator of every network in the regenerated table: 0x1.5798ee2308c3ap-27 *)
Definition den_sf : spec_float := S754_finite false 6044629098073146 (-79).

Definition sf_is_den (z : spec_float) : bool :=
  match z with
  | S754_finite false m e => Pos.eqb m 6044629098073146 && Z.eqb e (-79)
  | _ => false
  end.

Lemma sf_is_den_eq : forall z, sf_is_den z = true -> z = den_sf.
Proof.
intros [s|s| |s m e]; unfold sf_is_den; try discriminate. destruct s; try discriminate.
intros H. apply andb_prop in H. destruct H as [H1 H2].
apply Pos.eqb_eq in H1. apply Z.eqb_eq in H2. subst. reflexivity.
Qed.

Lemma nets_den_b : forallb (fun nw => sf_is_den (Prim2SF (n_den nw))) nets = true.
Proof. vm_compute. reflexivity. Qed.

Lemma nets_den : forall nw, In nw nets -> Prim2SF (n_den nw) = den_sf.
Proof.
intros nw Hin. apply sf_is_den_eq.
exact (proj1 (forallb_forall _ nets) nets_den_b nw Hin).
Qed.

Definition is_den (d : PrimFloat.float) : Prop := Prim2SF d = den_sf.

Lemma den_FR : forall d, is_den d -> FR d = (6044629098073146 / 604462909807314587353088)%R /\ Ffin d = true.
Proof.
intros d Hd. rewrite FR_SF, Ffin_SF, Hd. split; [|reflexivity].
unfold den_sf, SF2R, F2R. simpl. lra.
Qed.

Lemma RN_bounds_25 : forall x, (0 <= x <= bpow radix2 25)%R -> (0 <= RN x <= bpow radix2 25)%R.
Proof.
intros x [H0 H1]. split.
- apply round_ge_generic; try typeclasses eauto. apply generic_format_0. exact H0.
- apply round_le_generic; try typeclasses eauto.
  apply (generic_format_FLT_bpow radix2 (-1074) 53). lia. exact H1.
Qed.

(* main units: float("<n/10^8 with 8 decimals>") * 1 / denominator, rounded *)
Lemma core_btc : forall d n, is_den d -> 0 <= n <= TOP ->
  b64_round ((b64_of_dec false n (-8) * one) / d)%float = Some n.
Proof.
intros d n Hd Hn. unfold TOP in Hn.
destruct (Z.eq_dec n 0) as [->|Hn0].
- assert (E : d = SF2Prim den_sf) by (rewrite <- Hd; symmetry; apply SF2Prim_Prim2SF).
  rewrite E. vm_compute. reflexivity.
- destruct (den_FR d Hd) as [HD HDf].
  assert (Hdec : dec_to_sf false n (-8) = ratio_to_sf false n (10 ^ 8)).
  { unfold dec_to_sf.
    replace (n <=? 0) with false by (symmetry; apply Z.leb_gt; lia).
    replace (310 <? -8) with false by reflexivity.
    replace (-8 + (Z.log2 n + 1) <? -330) with false
      by (symmetry; apply Z.ltb_ge; pose proof (Z.log2_nonneg n); lia).
    reflexivity. }
  set (x := (IZR n / IZR (10 ^ 8))%R).
  assert (Hx : (0 <= x <= 21000000)%R).
  { unfold x. change (10 ^ 8) with 100000000. 
    assert (0 <= IZR n <= 2100000000000000)%R by (split; apply IZR_le; lia). lra. }
  assert (Hp25 : bpow radix2 25 = 33554432%R) by (simpl; lra).
  assert (HRN : (0 <= RN x <= bpow radix2 25)%R) by (apply RN_bounds_25; lra).
  destruct (ratio_to_sf_correct false n (10 ^ 8)) as [Hv Hz]; try lia.
  fold x in Hz.
  destruct Hz as [Hz1 [Hz2 _]].
  { rewrite Rabs_pos_eq by lra. eapply Rle_lt_trans. apply HRN. apply bpow_lt. lia. }
  unfold b64_of_dec. rewrite Hdec.
  destruct (prim_of_sf _ Hv) as [Hf1 Hf2]. rewrite Hz1 in Hf1. rewrite Hz2 in Hf2. simpl sgn in Hf1.
  destruct (prim_mul_one _ Hf2) as [Hm1 Hm2]. rewrite Hf1 in Hm1.
  assert (Hn51 : Z.abs n < 2 ^ 51) by (change (2 ^ 51) with 2251799813685248; lia).
  destruct (two_step_exact x (FR d) n) as [Hq1 Hq2]; try assumption.
  { rewrite HD. lra. }
  { rewrite Rabs_pos_eq by lra. lra. }
  { rewrite HD. unfold x. change (10 ^ 8) with 100000000.
    assert (Hn' : (0 <= IZR n <= 2100000000000000)%R) by (split; apply IZR_le; lia).
    replace (bpow radix2 (-29)) with (/ 536870912)%R by (simpl; lra).
    set (K := ((604462909807314600000000 - 604462909807314587353088) / 604462909807314600000000)%R).
    replace (IZR n / 100000000 / (6044629098073146 / 604462909807314587353088) - IZR n)%R
      with (- (IZR n * K))%R by (unfold K; field).
    rewrite Rabs_Ropp. rewrite Rabs_pos_eq.
    unfold K. lra.
    apply Rmult_le_pos. lra. unfold K. lra. }
  destruct (prim_div (b64_of_dec false n (-8) * one)%float d) as [Hd1 Hd2].
  { unfold b64_of_dec. rewrite Hdec. exact Hm2. }
  { rewrite HD. lra. }
  { unfold b64_of_dec. rewrite Hdec, Hm1.
    apply Rabs_le_inv in Hq1.
    assert (0 <= IZR n <= 2100000000000000)%R by (split; apply IZR_le; lia).
    eapply Rle_lt_trans with (bpow radix2 52). simpl. apply Rabs_le. lra. apply bpow_lt. lia. }
  unfold b64_of_dec in Hd1, Hd2. rewrite Hdec in Hd1, Hd2. rewrite Hm1 in Hd1.
  rewrite b64_round_finite by exact Hd2.
  rewrite Hd1. f_equal. exact Hq2.
Qed.

(* "n sat": float("<n>") * denominator / denominator, rounded *)
Lemma core_sat : forall d n, is_den d -> 0 <= n <= TOP ->
  b64_round ((b64_of_dec false n 0 * d) / d)%float = Some n.
Proof.
intros d n Hd Hn. unfold TOP in Hn.
destruct (Z.eq_dec n 0) as [->|Hn0].
- assert (E : d = SF2Prim den_sf) by (rewrite <- Hd; symmetry; apply SF2Prim_Prim2SF).
  rewrite E. vm_compute. reflexivity.
- destruct (den_FR d Hd) as [HD HDf].
  assert (Hn' : (0 <= IZR n <= 2100000000000000)%R) by (split; apply IZR_le; lia).
  destruct (b64_of_dec_int n) as [Hf1 Hf2]; [change (2 ^ 53) with 9007199254740992; lia|].
  set (r := (IZR n * FR d)%R).
  assert (Hr : (0 <= r <= 21000001)%R) by (unfold r; rewrite HD; lra).
  assert (Hp25 : bpow radix2 25 = 33554432%R) by (simpl; lra).
  assert (HRN : (0 <= RN r <= bpow radix2 25)%R) by (apply RN_bounds_25; lra).
  destruct (prim_mul (b64_of_dec false n 0) d Hf2 HDf) as [Hm1 Hm2].
  { rewrite Hf1. fold r. rewrite Rabs_pos_eq by lra. eapply Rle_lt_trans. apply HRN. apply bpow_lt. lia. }
  rewrite Hf1 in Hm1. fold r in Hm1.
  assert (Hn51 : Z.abs n < 2 ^ 51) by (change (2 ^ 51) with 2251799813685248; lia).
  destruct (two_step_exact r (FR d) n) as [Hq1 Hq2]; try assumption.
  { rewrite HD. lra. }
  { rewrite Rabs_pos_eq by lra. lra. }
  { replace (r / FR d - IZR n)%R with 0%R by (unfold r; field; rewrite HD; lra).
    rewrite Rabs_R0, HD.
    replace (bpow radix2 (-29)) with (/ 536870912)%R by (simpl; lra). lra. }
  destruct (prim_div (b64_of_dec false n 0 * d)%float d Hm2) as [Hd1 Hd2].
  { rewrite HD. lra. }
  { rewrite Hm1. apply Rabs_le_inv in Hq1.
    eapply Rle_lt_trans with (bpow radix2 52). simpl. apply Rabs_le. lra. apply bpow_lt. lia. }
  rewrite Hm1 in Hd1.
  rewrite b64_round_finite by exact Hd2.
  rewrite Hd1. f_equal. exact Hq2.
Qed.

(* ---- the same at the level of Value objects, for every network of the table ---- *)
Definition D0 : PrimFloat.float := SF2Prim den_sf.

Lemma den_is_D0 : forall d, is_den d -> d = D0.
Proof. intros d Hd. unfold D0. rewrite <- Hd. symmetry. apply SF2Prim_Prim2SF. Qed.

Lemma value_sat_of : forall nw x dn n, In nw nets ->
  b64_round (x / n_den nw)%float = Some n ->
  lib_value_sat {| v_value := x; v_den := dn; v_net := nw |} = Ok n.
Proof.
intros nw x dn n Hin H. unfold lib_value_sat. simpl v_net; simpl v_value.
assert (Hz : is_zero_f (n_den nw) = false).
{ rewrite (den_is_D0 _ (nets_den nw Hin)). vm_compute. reflexivity. }
rewrite Hz, H. reflexivity.
Qed.

Lemma value_sat_btc : forall nw n, In nw nets -> 0 <= n <= TOP ->
  lib_value_sat {| v_value := (b64_of_dec false n (-8) * one)%float; v_den := one; v_net := nw |} = Ok n.
Proof. intros nw n Hin Hn. apply value_sat_of. exact Hin. apply core_btc. apply nets_den; exact Hin. exact Hn. Qed.

Lemma value_sat_sat : forall nw nw' n, In nw nets -> In nw' nets -> 0 <= n <= TOP ->
  lib_value_sat {| v_value := (b64_of_dec false n 0 * n_den nw')%float; v_den := n_den nw'; v_net := nw |} = Ok n.
Proof.
intros nw nw' n Hin Hin' Hn. apply value_sat_of. exact Hin.
rewrite (den_is_D0 _ (nets_den nw' Hin')). rewrite <- (den_is_D0 _ (nets_den nw Hin)).
apply core_sat. apply nets_den; exact Hin. exact Hn.
Qed.

(* ---- outputs ---- *)
Lemma add_output_integer : forall v name o, lib_add_output v name = Ok o -> exists z, o = NInt z.
Proof.
intros v name o. unfold lib_add_output.
destruct (match v with NInt z => b64_of_Z z | NFlt f => Some f | NStr s => py_float (strip_ws s) end); [|discriminate].
destruct (b64_is_integer f); [|discriminate].
destruct (match v with NInt z => Some z | NFlt f0 => b64_trunc f0 | NStr s => py_int (strip_ws s) end); [|discriminate].
unfold lib_output_value. destruct (find_by_name name); [|discriminate].
intros H. injection H as <-. eexists; reflexivity.
Qed.

Lemma raw_value_int : forall z b, lib_raw_value (NInt z) = Ok b -> 0 <= z < 2 ^ 64 /\ b = Lib.Bytes.le_bytes 8 z.
Proof.
intros z b. unfold lib_raw_value.
destruct (0 <=? z) eqn:E1; destruct (z <? 2 ^ 64) eqn:E2; simpl; try discriminate.
intros H. injection H as <-. apply Z.leb_le in E1. apply Z.ltb_lt in E2. split; [lia | reflexivity].
Qed.

Lemma add_output_raw : forall v name o b,
  lib_add_output v name = Ok o -> lib_raw_value o = Ok b ->
  exists z, o = NInt z /\ 0 <= z < 2 ^ 64 /\ b = Lib.Bytes.le_bytes 8 z.
Proof.
intros v name o b H1 H2. destruct (add_output_integer _ _ _ H1) as [z ->].
exists z. split. reflexivity. apply raw_value_int. exact H2.
Qed.
