(* Proofs/MultisigSign.v — C10: signature collection over hand-off chains.
   Invariant: the input holds exactly the signatures of the cosigners that have signed, in key order, each
   tagged with its key ([ms_sigs_of keys S]); sign / verify / object hand-off / dict hand-off (while at most m
   signatures exist) preserve it, and verification of such a list succeeds iff it has at least m elements. *)
From Coq Require Import ZArith List Bool Arith Lia.
From Verif Require Import Model.Multisig.
Import ListNotations.
Open Scope Z_scope.

Definition fixsig (s : msig) : msig := ms_mk (sg_by s).

Lemma ms_mem_cons k c S : ms_mem k (c :: S) = (k =? c) || ms_mem k S.
Proof. reflexivity. Qed.

Lemma ms_mem_In k S : ms_mem k S = true <-> In k S.
Proof.
  unfold ms_mem. rewrite existsb_exists. split.
  - intros [x [Hx E]]. apply Z.eqb_eq in E. subst. exact Hx.
  - intros H. exists k. split; [exact H | apply Z.eqb_refl].
Qed.

(* ---------- Input.verify ---------- *)
Lemma ms_verify_run_eq keys sigs need : ms_verify_run keys sigs need =
  match need with
  | O => (true, sigs)
  | S need' =>
    match keys with
    | [] => (false, sigs)
    | k :: ks =>
      match sigs with
      | [] => (false, [])
      | s :: ss =>
        if sg_by s =? k then let (r, l) := ms_verify_run ks ss need' in (r, ms_retag s k :: l)
        else ms_verify_run ks (ms_retag s k :: ss) need
      end
    end
  end.
Proof. destruct keys; destruct need; reflexivity. Qed.

Lemma verify_general (f : Z -> bool) keys : NoDup keys -> forall sigs need,
  map sg_by sigs = filter f keys ->
  ms_verify_run keys sigs need =
    (Nat.leb need (length sigs), map fixsig (firstn need sigs) ++ skipn need sigs).
Proof.
  intros Hnd. induction keys as [|k ks IH]; intros sigs need Hm.
  - cbn [filter] in Hm. destruct sigs; [|discriminate]. rewrite ms_verify_run_eq.
    destruct need; reflexivity.
  - inversion Hnd as [|? ? Hk Hks]; subst. specialize (IH Hks).
    rewrite ms_verify_run_eq. destruct need as [|n']; [reflexivity|].
    destruct sigs as [|s ss]; [reflexivity|].
    cbn [filter] in Hm. destruct (f k) eqn:Ef.
    + cbn [map] in Hm. injection Hm as Hs Hss.
      rewrite Hs, Z.eqb_refl. rewrite (IH ss n' Hss).
      cbn [firstn skipn map length Nat.leb app]. f_equal. f_equal.
      unfold ms_retag, fixsig, ms_mk. rewrite Hs. reflexivity.
    + assert (Hne : sg_by s =? k = false).
      { apply Z.eqb_neq. intros E. apply Hk.
        assert (Hin : In (sg_by s) (filter f ks)) by (rewrite <- Hm; left; reflexivity).
        apply filter_In in Hin. rewrite <- E. apply Hin. }
      rewrite Hne. rewrite (IH (ms_retag s k :: ss) (S n')) by exact Hm.
      reflexivity.
Qed.

Lemma sigs_of_by keys S : map sg_by (ms_sigs_of keys S) = filter (fun k => ms_mem k S) keys.
Proof. unfold ms_sigs_of. rewrite map_map. cbn. apply map_id. Qed.

Lemma map_fix_id (l : list msig) : (forall s, In s l -> fixsig s = s) -> map fixsig l = l.
Proof.
  intros H. rewrite <- (map_id l) at 2. apply map_ext_in. exact H.
Qed.

Lemma In_firstn {A : Type} n (l : list A) x : In x (firstn n l) -> In x l.
Proof.
  revert l. induction n as [|n IH]; intros [|y r] H; cbn in *; try contradiction.
  destruct H as [H|H]; [left; exact H | right; apply IH; exact H].
Qed.

Lemma fix_firstn_skipn n (l : list msig) :
  (forall s, In s l -> fixsig s = s) -> map fixsig (firstn n l) ++ skipn n l = l.
Proof.
  intros H. rewrite map_fix_id; [apply firstn_skipn|].
  intros s Hs. apply H. eapply In_firstn. exact Hs.
Qed.

Lemma sigs_of_fixed keys S s : In s (ms_sigs_of keys S) -> fixsig s = s.
Proof. unfold ms_sigs_of. intros H. apply in_map_iff in H. destruct H as [k [E _]]. subst. reflexivity. Qed.

Lemma input_verify_general (f : Z -> bool) keys sigs m : NoDup keys -> (1 <= m)%nat ->
  map sg_by sigs = filter f keys ->
  ms_input_verify keys sigs m = (Nat.leb m (length sigs), map fixsig (firstn m sigs) ++ skipn m sigs).
Proof.
  intros Hnd Hm Hby. unfold ms_input_verify. destruct sigs as [|s ss].
  - destruct m; [lia | reflexivity].
  - apply (verify_general f keys Hnd (s :: ss) m Hby).
Qed.

Lemma input_verify_good keys S m : NoDup keys -> (1 <= m)%nat ->
  ms_input_verify keys (ms_sigs_of keys S) m =
    (Nat.leb m (length (ms_sigs_of keys S)), ms_sigs_of keys S).
Proof.
  intros Hnd Hm.
  rewrite (input_verify_general (fun k => ms_mem k S) keys _ m Hnd Hm (sigs_of_by keys S)).
  rewrite fix_firstn_skipn; [reflexivity | apply sigs_of_fixed].
Qed.

Lemma map_fix_untag keys S : map fixsig (map ms_untag (ms_sigs_of keys S)) = ms_sigs_of keys S.
Proof.
  rewrite map_map. rewrite <- (map_id (ms_sigs_of keys S)) at 2. apply map_ext_in.
  intros s Hs. unfold fixsig, ms_untag. cbn. apply (sigs_of_fixed keys S s Hs).
Qed.

Lemma input_verify_untagged keys S m : NoDup keys -> (1 <= m)%nat ->
  (length (ms_sigs_of keys S) <= m)%nat ->
  ms_input_verify keys (map ms_untag (ms_sigs_of keys S)) m =
    (Nat.leb m (length (ms_sigs_of keys S)), ms_sigs_of keys S).
Proof.
  intros Hnd Hm Hle.
  assert (Hby : map sg_by (map ms_untag (ms_sigs_of keys S)) = filter (fun k => ms_mem k S) keys).
  { rewrite map_map. rewrite <- (sigs_of_by keys S). apply map_ext. reflexivity. }
  rewrite (input_verify_general (fun k => ms_mem k S) keys _ m Hnd Hm Hby).
  rewrite map_length.
  rewrite firstn_all2 by (rewrite map_length; exact Hle).
  rewrite skipn_all2 by (rewrite map_length; exact Hle).
  rewrite app_nil_r. rewrite map_fix_untag. reflexivity.
Qed.

(* ---------- the signature domain ---------- *)
Definition dom_of (keys T : list Z) : list (option msig) :=
  map (fun k => if ms_mem k T then Some (ms_mk k) else None) keys.

Lemma somes_dom_of keys T : ms_somes (dom_of keys T) = ms_sigs_of keys T.
Proof.
  unfold dom_of, ms_sigs_of. induction keys as [|k r IH]; [reflexivity|].
  cbn [map filter ms_somes]. destruct (ms_mem k T); cbn [map ms_somes]; rewrite IH; reflexivity.
Qed.

Lemma dom_of_ext keys T T' : (forall k, In k keys -> ms_mem k T = ms_mem k T') -> dom_of keys T = dom_of keys T'.
Proof. intros H. unfold dom_of. apply map_ext_in. intros k Hk. rewrite (H k Hk). reflexivity. Qed.

Lemma sigs_of_ext keys T T' : (forall k, In k keys -> ms_mem k T = ms_mem k T') -> ms_sigs_of keys T = ms_sigs_of keys T'.
Proof. intros H. rewrite <- !somes_dom_of. rewrite (dom_of_ext keys T T' H). reflexivity. Qed.

Lemma index_of_cons x y r : ms_index_of x (y :: r) = if x =? y then Some O else option_map S (ms_index_of x r).
Proof. reflexivity. Qed.

Lemma index_of_In k keys : In k keys -> exists pos, ms_index_of k keys = Some pos.
Proof.
  induction keys as [|y r IH]; intros H; [contradiction|].
  rewrite index_of_cons. destruct (k =? y) eqn:E; [exists O; reflexivity|].
  destruct H as [H|H]; [subst; rewrite Z.eqb_refl in E; discriminate|].
  destruct (IH H) as [p Hp]. rewrite Hp. exists (S p). reflexivity.
Qed.

Lemma index_of_Some_In k keys : forall pos, ms_index_of k keys = Some pos -> In k keys.
Proof.
  induction keys as [|y r IH]; intros pos H; [discriminate|].
  rewrite index_of_cons in H. destruct (k =? y) eqn:E.
  - apply Z.eqb_eq in E. left. congruence.
  - destruct (ms_index_of k r) as [p|] eqn:Ep; [|discriminate]. right. apply (IH p eq_refl).
Qed.

Lemma index_of_None k keys : ms_index_of k keys = None -> ~ In k keys.
Proof.
  intros H Hin. destruct (index_of_In k keys Hin) as [p Hp]. congruence.
Qed.

Lemma nth_dom_of k keys T : forall pos, ms_index_of k keys = Some pos ->
  nth pos (dom_of keys T) None = if ms_mem k T then Some (ms_mk k) else None.
Proof.
  induction keys as [|y r IH]; intros pos H; [discriminate|].
  rewrite index_of_cons in H. destruct (k =? y) eqn:E.
  - apply Z.eqb_eq in E. subst y. injection H as <-. reflexivity.
  - destruct (ms_index_of k r) as [p|] eqn:Ep; [|discriminate]. cbn in H. injection H as <-.
    cbn [dom_of map nth]. apply (IH p eq_refl).
Qed.

Lemma set_nth_dom_of k keys T : NoDup keys -> forall pos, ms_index_of k keys = Some pos ->
  ms_set_nth pos (Some (ms_mk k)) (dom_of keys T) = dom_of keys (k :: T).
Proof.
  induction keys as [|y r IH]; intros Hnd pos H; [discriminate|].
  inversion Hnd as [|? ? Hy Hr]; subst.
  rewrite index_of_cons in H. destruct (k =? y) eqn:E.
  - apply Z.eqb_eq in E. subst y. injection H as <-.
    cbn [dom_of map ms_set_nth]. rewrite ms_mem_cons, Z.eqb_refl. cbn [orb]. f_equal.
    apply map_ext_in. intros z Hz. rewrite ms_mem_cons.
    assert (Hzk : z =? k = false) by (apply Z.eqb_neq; intros ->; contradiction).
    rewrite Hzk. reflexivity.
  - destruct (ms_index_of k r) as [p|] eqn:Ep; [|discriminate]. cbn in H. injection H as <-.
    cbn [dom_of map ms_set_nth]. rewrite ms_mem_cons.
    assert (Hyk : y =? k = false) by (rewrite Z.eqb_sym; exact E).
    rewrite Hyk. cbn [orb]. f_equal. apply (IH Hr p eq_refl).
Qed.

Lemma dom_of_nil keys : dom_of keys [] = repeat None (length keys).
Proof. induction keys as [|k r IH]; [reflexivity|]. unfold dom_of in *. cbn [map length repeat]. rewrite IH. reflexivity. Qed.

Lemma place_known_eq keys old dom n : ms_place_known keys old dom n =
  match old with
  | [] => Some (dom, n)
  | s :: r =>
    match sg_tag s with
    | None => Some (dom, n)
    | Some t =>
      match ms_index_of t keys with
      | None => None
      | Some pos =>
        match nth pos dom None with
        | None => ms_place_known keys r (ms_set_nth pos (Some s) dom) (pred n)
        | Some _ => ms_place_known keys r dom n
        end
      end
    end
  end.
Proof. destruct old; reflexivity. Qed.

Lemma place_known_good keys : NoDup keys -> forall l T n,
  NoDup l -> (forall k, In k l -> In k keys /\ ms_mem k T = false) ->
  ms_place_known keys (map ms_mk l) (dom_of keys T) n = Some (dom_of keys (rev l ++ T), (n - length l)%nat).
Proof.
  intros Hnd. induction l as [|k r IH]; intros T n Hl Hin.
  - cbn. rewrite Nat.sub_0_r. reflexivity.
  - inversion Hl as [|? ? Hk Hr]; subst.
    cbn [map]. rewrite place_known_eq. cbn [ms_mk sg_tag].
    destruct (Hin k (or_introl eq_refl)) as [Hkk HkT].
    destruct (index_of_In k keys Hkk) as [pos Hpos]. rewrite Hpos.
    rewrite (nth_dom_of k keys T pos Hpos), HkT.
    change {| sg_by := k; sg_tag := Some k |} with (ms_mk k).
    rewrite (set_nth_dom_of k keys T Hnd pos Hpos).
    rewrite (IH (k :: T) (pred n) Hr).
    + cbn [rev length]. rewrite <- app_assoc. cbn [app]. f_equal. f_equal. lia.
    + intros z Hz. split; [apply Hin; right; exact Hz|].
      rewrite ms_mem_cons. destruct (Hin z (or_intror Hz)) as [_ HzT]. rewrite HzT.
      assert (Hzk : z =? k = false) by (apply Z.eqb_neq; intros ->; contradiction).
      rewrite Hzk. reflexivity.
Qed.

Lemma mem_app k A B : ms_mem k (A ++ B) = ms_mem k A || ms_mem k B.
Proof. unfold ms_mem. apply existsb_app. Qed.

Lemma mem_rev k A : ms_mem k (rev A) = ms_mem k A.
Proof.
  destruct (ms_mem k A) eqn:E.
  - apply ms_mem_In. apply -> in_rev. apply ms_mem_In. exact E.
  - destruct (ms_mem k (rev A)) eqn:E'; [|reflexivity].
    apply ms_mem_In in E'. apply in_rev in E'. apply ms_mem_In in E'. congruence.
Qed.

Lemma mem_filter k keys S : In k keys -> ms_mem k (filter (fun x => ms_mem x S) keys) = ms_mem k S.
Proof.
  intros Hk. destruct (ms_mem k S) eqn:E.
  - apply ms_mem_In. apply filter_In. split; assumption.
  - destruct (ms_mem k (filter (fun x => ms_mem x S) keys)) eqn:E'; [|reflexivity].
    apply ms_mem_In in E'. apply filter_In in E'. destruct E' as [_ E']. congruence.
Qed.

Lemma existsb_tag_is c l : existsb (ms_tag_is c) (map ms_mk l) = ms_mem c l.
Proof.
  unfold ms_mem. induction l as [|k r IH]; [reflexivity|].
  cbn [map existsb]. rewrite IH. f_equal. unfold ms_tag_is, ms_mk. cbn. apply Z.eqb_sym.
Qed.

(* ---------- Transaction.sign on a good input ---------- *)
Lemma sign_good keys S c : NoDup keys ->
  ms_sign_input keys (ms_sigs_of keys S) (Some c) = Some (ms_sigs_of keys (c :: S)).
Proof.
  intros Hnd. unfold ms_sign_input.
  destruct (ms_index_of c keys) as [pos|] eqn:Epos.
  - unfold ms_sigs_of at 1. rewrite existsb_tag_is.
    assert (Hc : In c keys) by (eapply index_of_Some_In; exact Epos).
    rewrite (mem_filter c keys S Hc).
    destruct (ms_mem c S) eqn:EcS.
    + f_equal. apply sigs_of_ext. intros k Hk. rewrite ms_mem_cons.
      destruct (k =? c) eqn:E; [apply Z.eqb_eq in E; subst; rewrite EcS; reflexivity | reflexivity].
    + rewrite <- dom_of_nil.
      rewrite (set_nth_dom_of c keys [] Hnd pos Epos).
      unfold ms_sigs_of.
      rewrite (place_known_good keys Hnd (filter (fun k => ms_mem k S) keys) [c]
                 (length (map ms_mk (filter (fun k => ms_mem k S) keys)))).
      * rewrite map_length, Nat.sub_diag. rewrite somes_dom_of. f_equal.
        apply sigs_of_ext. intros k Hk.
        rewrite mem_app, mem_rev, (mem_filter k keys S Hk), !ms_mem_cons. cbn [ms_mem existsb].
        rewrite orb_false_r. apply orb_comm.
      * apply NoDup_filter. exact Hnd.
      * intros k Hk. apply filter_In in Hk. destruct Hk as [Hk HkS]. split; [exact Hk|].
        rewrite ms_mem_cons. cbn [ms_mem existsb]. rewrite orb_false_r.
        apply Z.eqb_neq. intros ->. congruence.
  - f_equal. apply sigs_of_ext. intros k Hk. rewrite ms_mem_cons.
    assert (Hkc : k =? c = false).
    { apply Z.eqb_neq. intros ->. exact (index_of_None c keys Epos Hk). }
    rewrite Hkc. reflexivity.
Qed.

(* ---------- hand-off channels on a good input ---------- *)
Lemma dedup_fresh (g : Z -> msig) : (forall k, sg_by (g k) = k) -> forall l seen,
  NoDup l -> (forall k, In k l -> ~ In k seen) -> ms_dedup seen (map g l) = map g l.
Proof.
  intros Hg. induction l as [|k r IH]; intros seen Hl Hs; [reflexivity|].
  inversion Hl as [|? ? Hk Hr]; subst. cbn [map ms_dedup]. rewrite Hg.
  assert (E : existsb (Z.eqb k) seen = false).
  { destruct (existsb (Z.eqb k) seen) eqn:E; [|reflexivity].
    apply existsb_exists in E. destruct E as [x [Hx Ex]]. apply Z.eqb_eq in Ex. subst x.
    exfalso. apply (Hs k (or_introl eq_refl)). exact Hx. }
  rewrite E. f_equal. apply IH; [exact Hr|].
  intros z Hz [Hzk|Hzs]; [subst; contradiction | exact (Hs z (or_intror Hz) Hzs)].
Qed.

Lemma channel_object_good keys S m : NoDup keys ->
  ms_channel HObject m (ms_sigs_of keys S) = ms_sigs_of keys S.
Proof.
  intros Hnd. unfold ms_channel, ms_sigs_of.
  apply dedup_fresh; [reflexivity | apply NoDup_filter; exact Hnd | intros k _ []].
Qed.

Lemma channel_dict_good keys S m : NoDup keys ->
  ms_channel HDict m (ms_sigs_of keys S) = map ms_untag (ms_sigs_of keys S).
Proof.
  intros Hnd. unfold ms_channel, ms_sigs_of. rewrite map_map.
  apply (dedup_fresh (fun k => ms_untag (ms_mk k)));
    [reflexivity | apply NoDup_filter; exact Hnd | intros k _ []].
Qed.

(* ---------- whole chains, one input ---------- *)
Definition good_state (keys : list Z) (m : nat) (S : list Z) (st : mstate) : Prop :=
  st_ins st = [{| mi_keys := keys; mi_sigs := ms_sigs_of keys S |}] /\
  st_verified st = Nat.leb m (length (ms_sigs_of keys S)).

Lemma tx_verify_good keys S m : NoDup keys -> (1 <= m)%nat ->
  ms_tx_verify m [{| mi_keys := keys; mi_sigs := ms_sigs_of keys S |}] =
    (Nat.leb m (length (ms_sigs_of keys S)), [{| mi_keys := keys; mi_sigs := ms_sigs_of keys S |}]).
Proof.
  intros Hnd Hm. cbn [ms_tx_verify mi_keys mi_sigs]. rewrite (input_verify_good keys S m Hnd Hm).
  destruct (Nat.leb m (length (ms_sigs_of keys S))); reflexivity.
Qed.

Lemma tx_verify_untagged keys S m : NoDup keys -> (1 <= m)%nat -> (length (ms_sigs_of keys S) <= m)%nat ->
  ms_tx_verify m [{| mi_keys := keys; mi_sigs := map ms_untag (ms_sigs_of keys S) |}] =
    (Nat.leb m (length (ms_sigs_of keys S)), [{| mi_keys := keys; mi_sigs := ms_sigs_of keys S |}]).
Proof.
  intros Hnd Hm Hle. cbn [ms_tx_verify mi_keys mi_sigs]. rewrite (input_verify_untagged keys S m Hnd Hm Hle).
  destruct (Nat.leb m (length (ms_sigs_of keys S))); reflexivity.
Qed.

Lemma sign_all_good keys S c : NoDup keys ->
  ms_sign_all [{| mi_keys := keys; mi_sigs := ms_sigs_of keys S |}] (Some c) =
    Some [{| mi_keys := keys; mi_sigs := ms_sigs_of keys (c :: S) |}].
Proof. intros Hnd. cbn [ms_sign_all mi_keys mi_sigs]. rewrite (sign_good keys S c Hnd). reflexivity. Qed.

Lemma sign_all_none (x : minput) : ms_sign_all [x] None = Some [x].
Proof. destruct x. reflexivity. Qed.

Lemma hand_map keys sigs h m :
  map (fun x => mi_with x (ms_channel h m (mi_sigs x))) [{| mi_keys := keys; mi_sigs := sigs |}] =
    [{| mi_keys := keys; mi_sigs := ms_channel h m sigs |}].
Proof. reflexivity. Qed.

Lemma step_good keys m S st o : NoDup keys -> (1 <= m)%nat ->
  good_state keys m S st -> ms_chain_ok keys m S [o] = true ->
  good_state keys m (ms_signers S [o]) (fst (ms_step m st o)) /\
  (o = MSend -> snd (ms_step m st o) = ObPushed (Nat.leb m (length (ms_sigs_of keys S)))).
Proof.
  intros Hnd Hm [Hins Hver] Hok. destruct o as [[c|]|h|].
  - (* sign *)
    split; [|discriminate]. unfold ms_step. rewrite Hins. rewrite (sign_all_good keys S c Hnd).
    rewrite (tx_verify_good keys (c :: S) m Hnd Hm). cbn [fst ms_signers]. split; reflexivity.
  - (* watch-only wallet: nothing to sign *)
    split; [|discriminate]. unfold ms_step. rewrite Hins. rewrite sign_all_none.
    rewrite (tx_verify_good keys S m Hnd Hm). cbn [fst ms_signers]. split; reflexivity.
  - split; [|discriminate]. destruct h.
    + unfold ms_step. rewrite Hins. rewrite hand_map.
      rewrite (channel_object_good keys S m Hnd). rewrite (tx_verify_good keys S m Hnd Hm).
      cbn [fst ms_signers]. split; reflexivity.
    + cbn [ms_chain_ok] in Hok. apply andb_true_iff in Hok. destruct Hok as [Hle _]. apply Nat.leb_le in Hle.
      unfold ms_step. rewrite Hins. rewrite hand_map.
      rewrite (channel_dict_good keys S m Hnd). rewrite (tx_verify_untagged keys S m Hnd Hm Hle).
      cbn [fst ms_signers]. split; reflexivity.
    + discriminate.
  - (* send *)
    unfold ms_step. destruct (st_verified st) eqn:Ev.
    + cbn [fst snd ms_signers]. split; [split; [exact Hins | rewrite Ev; exact Hver] | intros _; rewrite <- Hver; reflexivity].
    + rewrite Hins. rewrite (tx_verify_good keys S m Hnd Hm). rewrite <- Hver.
      cbn [fst snd ms_signers st_ins st_verified]. split; [split; [reflexivity | exact Hver] | reflexivity].
Qed.

Lemma chain_ok_cons keys m S o r :
  ms_chain_ok keys m S (o :: r) = ms_chain_ok keys m S [o] && ms_chain_ok keys m (ms_signers S [o]) r.
Proof.
  destruct o as [[c|]|[| |]|]; cbn [ms_chain_ok ms_signers]; try reflexivity.
  - rewrite andb_true_r. reflexivity.
Qed.

Lemma signers_cons S o r : ms_signers S (o :: r) = ms_signers (ms_signers S [o]) r.
Proof. destruct o as [[c|]|h|]; reflexivity. Qed.

Lemma chain_good keys m : NoDup keys -> (1 <= m)%nat -> forall ops S st,
  good_state keys m S st -> ms_chain_ok keys m S ops = true ->
  good_state keys m (ms_signers S ops) (ms_final m st ops).
Proof.
  intros Hnd Hm. induction ops as [|o r IH]; intros S st Hg Hok; [exact Hg|].
  rewrite chain_ok_cons in Hok. apply andb_true_iff in Hok. destruct Hok as [Ho Hr].
  cbn [ms_final]. rewrite signers_cons.
  apply IH; [|exact Hr]. apply (step_good keys m S st o Hnd Hm Hg Ho).
Qed.

Lemma sigs_of_nil keys : ms_sigs_of keys [] = [].
Proof. unfold ms_sigs_of. induction keys as [|k r IH]; [reflexivity | exact IH]. Qed.

Lemma init_good keys m : (1 <= m)%nat -> good_state keys m [] (ms_init [keys]).
Proof.
  intros Hm. unfold good_state. rewrite sigs_of_nil. split; [reflexivity|].
  cbn. destruct m; [lia | reflexivity].
Qed.

Lemma m_signers_suffice_lemma keys m ops : NoDup keys -> (1 <= m)%nat ->
  ms_chain_ok keys m [] ops = true ->
  let st := ms_final m (ms_init [keys]) ops in
  map mi_sigs (st_ins st) = [ms_sigs_of keys (ms_signers [] ops)] /\
  st_verified st = Nat.leb m (length (ms_sigs_of keys (ms_signers [] ops))) /\
  snd (ms_step m st MSend) = ObPushed (Nat.leb m (length (ms_sigs_of keys (ms_signers [] ops)))).
Proof.
  intros Hnd Hm Hok st.
  pose proof (chain_good keys m Hnd Hm ops [] (ms_init [keys]) (init_good keys m Hm) Hok) as Hg.
  fold st in Hg. destruct Hg as [Hins Hver].
  split; [rewrite Hins; reflexivity|]. split; [exact Hver|].
  apply (step_good keys m (ms_signers [] ops) st MSend Hnd Hm (conj Hins Hver) eq_refl). reflexivity.
Qed.

(* the number of collected signatures is the number of distinct cosigners that signed *)
Lemma sigs_of_count keys S : length (ms_sigs_of keys S) = length (filter (fun k => ms_mem k S) keys).
Proof. unfold ms_sigs_of. apply map_length. Qed.
