(* Proofs/TxCreateHistory.v — histories of wallet operations (Model/TxCreateHistory.v):
   the spendable set after broadcast + utxos_update / utxo_add / reopen / bumpfee, send as a two-phase creation with
   one argument record, explicit inputs are valued by the wallet's rows. *)
From Coq Require Import ZArith List Bool Lia Permutation.
From Verif Require Import Lib.Bytes Gen.GenNetworks Gen.GenConsts Model.CoinSelect Model.TxCreate Model.BumpFee
  Model.TxCreateHistory Proofs.CoinSelect Proofs.TxCreateFloat Proofs.TxCreate Proofs.BumpFee.
Import ListNotations.
Open Scope Z_scope.
Unset Lia Cache.

(* ------------------------------------------------------------------ small facts *)
Lemma has_id_true view id : has_id view id = true <-> In id (map u_id view).
Proof.
  unfold has_id. rewrite existsb_exists. split.
  - intros [u [Hu E]]. apply Z.eqb_eq in E. subst. apply in_map. exact Hu.
  - intros H. apply in_map_iff in H. destruct H as [u [E Hu]]. exists u. split; [exact Hu | apply Z.eqb_eq; exact E].
Qed.

Lemma has_id_false view id : has_id view id = false <-> ~ In id (map u_id view).
Proof.
  split.
  - intros H Hin. apply has_id_true in Hin. congruence.
  - intros H. destruct (has_id view id) eqn:E; [|reflexivity]. apply has_id_true in E. contradiction.
Qed.

Lemma spent_in_db_true st id : spent_in_db st id = true <-> In id (consumed st).
Proof.
  unfold spent_in_db, consumed. rewrite existsb_exists. split.
  - intros [p [Hp E]]. apply Z.eqb_eq in E. subst. apply in_map. exact Hp.
  - intros H. apply in_map_iff in H. destruct H as [p [E Hp]]. exists p. split; [exact Hp | apply Z.eqb_eq; exact E].
Qed.

Lemma existsb_eqb_in (x : Z) l : existsb (Z.eqb x) l = true <-> In x l.
Proof.
  rewrite existsb_exists. split.
  - intros [y [Hy E]]. apply Z.eqb_eq in E. subst. exact Hy.
  - intros H. exists x. split; [exact H | apply Z.eqb_refl].
Qed.

Lemma hq_with_fee_same rq : hq_with_fee rq (hq_fee rq) = rq.
Proof. destruct rq; reflexivity. Qed.

Lemma scope_with_fee st rq f : scope st (hq_with_fee rq f) = scope st rq.
Proof. reflexivity. Qed.

Lemma h_request_with_fee rq f : h_request (hq_with_fee rq f) = with_fee (h_request rq) f.
Proof. reflexivity. Qed.

Lemma wrap_tx_with_fee bcount rq f r : wrap_tx bcount (hq_with_fee rq f) r = wrap_tx bcount rq r.
Proof. reflexivity. Qed.

Lemma wrap_tx_ok bcount rq r x :
  wrap_tx bcount rq r = Ok x ->
  r = Ok (x_tx x) /\ x_locktime x = eff_locktime bcount (hq_locktime rq) /\
  x_seqs x = seqs_of rq (x_locktime x) (x_tx x).
Proof.
  unfold wrap_tx. destruct r as [t|e]; [|discriminate]. intros H. inversion H; subst. cbn. auto.
Qed.

Lemma key_order_sub attrs keys l : sub (key_order attrs keys l) l.
Proof.
  unfold key_order. destruct keys as [|k1 [|k2 r]]; try apply sub_refl. apply sub_sort.
Qed.

(* ------------------------------------------------------------------ send = two-phase creation, one argument record *)
Lemma send_recreation_lemma bcount nw w st rq o1 o2 x :
  h_send bcount nw w st rq o1 o2 = Ok x ->
  exists f o, h_create bcount nw w st (hq_with_fee rq f) o = Ok x /\
              (f = hq_fee rq \/ (hq_fee rq = FeeNone /\ exists fe, f = FeeInt fe)).
Proof.
  unfold h_send. destruct (max_utxos_exceeded (h_request rq)); [discriminate|].
  destruct (h_create bcount nw w st rq o1) as [x1|e] eqn:C1; [|discriminate].
  destruct (recreate_fee nw (hq_fee rq) (x_tx x1)) as [fe|] eqn:R.
  - intros H. exists (FeeInt fe), o2. split; [exact H|]. right. split; [|eexists; reflexivity].
    unfold recreate_fee in R. destruct (hq_fee rq); try discriminate. reflexivity.
  - intros H. inversion H; subst. exists (hq_fee rq), o1. rewrite hq_with_fee_same. split; [exact C1 | left; reflexivity].
Qed.

(* the two-phase formulation is the send of Model/TxCreate.v on the scoped rows *)
Lemma h_send_is_send_gen bcount nw w st rq o1 o2 :
  h_send bcount nw w st rq o1 o2 = wrap_tx bcount rq (lib_send nw w (scope st rq) (h_request rq) o1 o2).
Proof.
  unfold h_send, lib_send, send_gen, h_create.
  destruct (max_utxos_exceeded (h_request rq)); [reflexivity|].
  unfold lib_tx_create.
  destruct (tx_create true nw w (scope st rq) (h_request rq) o1) as [t|e] eqn:C1; [|reflexivity].
  cbn [wrap_tx x_tx].
  change (rq_fee (h_request rq)) with (hq_fee rq).
  unfold recreate_fee. destruct (hq_fee rq) eqn:F; try reflexivity.
  destruct (negb (t_fpk t =? 0) && negb (t_change t =? 0)); [|reflexivity].
  match goal with |- context [if ?c then Some _ else None] => destruct c end; [|reflexivity].
  rewrite scope_with_fee, h_request_with_fee, wrap_tx_with_fee. reflexivity.
Qed.

(* ------------------------------------------------------------------ coin selection respects max_utxos *)
Lemma greedy_length amount : forall l total s t, greedy amount total l = (s, t) -> (length s <= length l)%nat.
Proof.
  induction l as [|u r IH]; intros total s t H; simpl in H.
  - inversion H; subst. simpl. lia.
  - destruct (total <? amount).
    + destruct (greedy amount (total + u_value u) r) as [s' t'] eqn:G. inversion H; subst.
      apply IH in G. simpl. lia.
    + apply IH in H. simpl. lia.
Qed.

Lemma select_max_utxos view amount variance minc dust k l :
  lib_select_inputs view amount variance minc dust (Some k) = SelOk l -> 0 < k ->
  (Z.of_nat (length l) <= k).
Proof.
  unfold lib_select_inputs. destruct (candidates minc dust view) as [|c0 cr]; [discriminate|].
  intros H Hk.
  destruct (find _ (sort_by lt_conf (c0 :: cr))) as [u|].
  { inversion H; subst. simpl. lia. }
  destruct (find _ (sort_by lt_conf_val_asc (c0 :: cr))) as [u|].
  { inversion H; subst. simpl. lia. }
  destruct (truthy_max (Some k) && _).
  { inversion H; subst. simpl. lia. }
  destruct (greedy amount 0 _) as [sel total] eqn:G.
  destruct (total <? amount).
  { inversion H; subst. simpl. lia. }
  inversion H; subst. apply greedy_length in G.
  unfold py_take in G. assert (E : (0 <=? k) = true) by (apply Z.leb_le; lia). rewrite E in G.
  pose proof (firstn_le_length (Z.to_nat k)
                (filter (fun u => u_value u <? amount) (sort_by lt_conf_val_desc (c0 :: cr)))) as F.
  lia.
Qed.

(* ------------------------------------------------------------------ rows with distinct ids *)
Lemma in_view_same_id view (u v : utxo) :
  NoDup (map u_id view) -> In u view -> In v view -> u_id u = u_id v -> u = v.
Proof.
  induction view as [|x r IH]; intros N Hu Hv E; [destruct Hu|].
  simpl in N. inversion N as [|a m Hn Hm]; subst.
  destruct Hu as [Eu|Hu]; destruct Hv as [Ev|Hv].
  - congruence.
  - subst x. exfalso. apply Hn. rewrite E. apply in_map. exact Hv.
  - subst x. exfalso. apply Hn. rewrite <- E. apply in_map. exact Hu.
  - apply IH; assumption.
Qed.

Lemma same_ids_same_rows view : forall l1 l2,
  NoDup (map u_id view) -> (forall u, In u l1 -> In u view) -> (forall u, In u l2 -> In u view) ->
  map u_id l1 = map u_id l2 -> l1 = l2.
Proof.
  induction l1 as [|a l1 IH]; intros l2 N H1 H2 E; destruct l2 as [|b l2]; try discriminate; [reflexivity|].
  simpl in E. inversion E as [[Ea Er]].
  assert (a = b) by (apply (in_view_same_id view); auto; [apply H1 | apply H2]; left; reflexivity).
  subst b. f_equal. apply IH; auto; intros u Hu; [apply H1 | apply H2]; right; exact Hu.
Qed.

(* ------------------------------------------------------------------ sweep: every input unspent and confirmed *)
Lemma sweep_inputs_lemma rep nw w view sq o1 o2 t :
  sweep_gen rep nw w view sq o1 o2 = Ok t -> NoDup (map u_id view) ->
  (forall u, In u (t_inputs t) -> In u view /\ u_spent u = false /\ sw_min_conf sq <= u_conf u) /\
  NoDup (map u_id (t_inputs t)).
Proof.
  unfold sweep_gen. cbv zeta.
  set (P := fun u : utxo => negb (u_spent u) && (sw_min_conf sq <=? u_conf u)).
  set (utxos := py_take (Some (sw_max_utxos sq)) (sort_by lt_conf (filter P view))).
  destruct utxos as [|u0 us] eqn:EU; [discriminate|]. rewrite <- EU. clear EU.
  set (ins := filter (fun u => nw_dust_amount nw <? u_value u) utxos).
  match goal with |- (if ?c then _ else _) = _ -> _ => destruct c; [discriminate|] end.
  match goal with |- (if ?c then _ else _) = _ -> _ => destruct c; [discriminate|] end.
  intros H N. apply send_gen_ok in H. destruct H as (rq' & o' & C & _ & I & _).
  cbn [rq_inputs] in I.
  pose proof (create_inputs_ok_lemma _ _ _ _ _ _ _ C) as Q. rewrite I in Q. destruct Q as [Q1 Q2].
  assert (S1 : sub ins (filter P view)).
  { unfold ins, utxos. eapply sub_trans; [apply sub_filter|]. eapply sub_trans; [apply sub_py_take|]. apply sub_sort. }
  assert (S2 : sub ins view) by (eapply sub_trans; [exact S1 | apply sub_filter]).
  assert (E : t_inputs t = ins).
  { apply (same_ids_same_rows view); auto. apply (proj1 S2). }
  rewrite E. split.
  - intros u Hu. split; [apply (proj1 S2); exact Hu|].
    pose proof (proj1 S1 u Hu) as Hf. apply filter_In in Hf. destruct Hf as [_ Hp]. unfold P in Hp.
    apply andb_prop in Hp. destruct Hp as [A B]. apply negb_true_iff in A. apply Z.leb_le in B. auto.
  - apply (proj2 S2). exact N.
Qed.

(* ------------------------------------------------------------------ explicit inputs: the wallet's rows decide *)
Definition known_xs (view : list utxo) (xs : list xin) : Prop := forall x, In x xs -> has_id view (x_id x) = true.

Lemma pseudo_rows_known view xs : known_xs view xs -> flat_map (pseudo_row view) xs = [].
Proof.
  induction xs as [|x r IH]; intros K; [reflexivity|]. simpl.
  unfold pseudo_row at 1. rewrite (K x (or_introl eq_refl)). simpl. apply IH. intros y Hy. apply K. right. exact Hy.
Qed.

Definition strip_xin (x : xin) : xin :=
  {| x_id := x_id x; x_key := None; x_claim := None; x_addr := false; x_obj := x_obj x |}.

Definition strip_claims (rq : hreq) : hreq :=
  {| hq_outputs := hq_outputs rq; hq_inputs := option_map (map strip_xin) (hq_inputs rq); hq_fee := hq_fee rq;
     hq_min_conf := hq_min_conf rq; hq_max_utxos := hq_max_utxos rq; hq_nchange := hq_nchange rq; hq_keys := hq_keys rq;
     hq_acct := hq_acct rq; hq_locktime := hq_locktime rq; hq_rbf := hq_rbf rq |}.

Lemma known_xs_strip view xs : known_xs view xs -> known_xs view (map strip_xin xs).
Proof. intros K x Hx. apply in_map_iff in Hx. destruct Hx as [y [E Hy]]. subst x. cbn. apply K. exact Hy. Qed.

(* whatever key_id / value / address the caller wrote into the tuples (or value into the Input objects), the result is the
   one for bare (txid, output_n) references, as long as every reference names a row of this wallet *)
Lemma explicit_claims_ignored bcount nw w st rq o xs :
  hq_inputs rq = Some xs -> known_xs (hs_view st) xs ->
  h_create bcount nw w st rq o = h_create bcount nw w st (strip_claims rq) o.
Proof.
  intros I K. unfold h_create, scope, h_request, strip_claims, wrap_tx, seqs_of. cbn. rewrite I. cbn.
  rewrite (pseudo_rows_known _ _ K), (pseudo_rows_known _ _ (known_xs_strip _ _ K)).
  rewrite !map_map. cbn.
  destruct (lib_tx_create nw w (hs_view st ++ []) _ o); reflexivity.
Qed.

Lemma explicit_values_lemma bcount nw w st rq o xs x :
  hq_inputs rq = Some xs -> known_xs (hs_view st) xs ->
  h_create bcount nw w st rq o = Ok x ->
  map u_id (t_inputs (x_tx x)) = map x_id xs /\
  (forall u, In u (t_inputs (x_tx x)) -> In u (hs_view st)) /\
  sum_values (t_inputs (x_tx x)) = sum_outs (t_outputs (x_tx x)) + t_fee (x_tx x).
Proof.
  intros I K H. unfold h_create in H. apply wrap_tx_ok in H. destruct H as [C _].
  unfold scope in C. rewrite I in C. rewrite (pseudo_rows_known _ _ K), app_nil_r in C.
  unfold lib_tx_create in C.
  pose proof (create_inputs_ok_lemma _ _ _ _ _ _ _ C) as Q. unfold h_request in Q. cbn [rq_inputs] in Q. rewrite I in Q.
  cbn in Q. destruct Q as [Q1 Q2]. split; [exact Q1|]. split; [exact Q2|].
  eapply create_conserves_lemma. exact C.
Qed.

(* ------------------------------------------------------------------ the invariant of the stored state *)
Definition hinv (st : hstate) : Prop :=
  NoDup (map u_id (hs_view st)) /\
  (forall u, In u (hs_view st) -> In (u_id u) (consumed st) -> u_spent u = true) /\
  (forall u, In u (hs_view st) -> u_id u < hs_next st) /\
  (forall i, In i (consumed st) -> i < hs_next st) /\
  h_base <= hs_next st.

Lemma hinv_empty : hinv h_empty.
Proof.
  unfold hinv, h_empty, consumed. cbn. repeat split; try (intros; contradiction); try constructor.
  unfold h_base. lia.
Qed.

Lemma hinv_with_last st l : hinv st -> hinv (with_last st l).
Proof. intros H. exact H. Qed.

(* mark_spent *)
Lemma mark_spent_ids ids view : map u_id (mark_spent ids view) = map u_id view.
Proof.
  unfold mark_spent. rewrite map_map. apply map_ext. intros u. destruct (existsb _ ids); reflexivity.
Qed.

Lemma mark_spent_in ids view v :
  In v (mark_spent ids view) ->
  exists u, In u view /\ u_id v = u_id u /\ (u_spent u = true -> u_spent v = true) /\ (In (u_id u) ids -> u_spent v = true).
Proof.
  unfold mark_spent. intros H. apply in_map_iff in H. destruct H as [u [E Hu]]. exists u. split; [exact Hu|].
  destruct (existsb (Z.eqb (u_id u)) ids) eqn:X; subst v; cbn.
  - repeat split; auto.
  - repeat split; auto. intros Hin. apply existsb_eqb_in in Hin. congruence.
Qed.

Lemma nodup_snoc {A} (l : list A) (a : A) : NoDup l -> ~ In a l -> NoDup (l ++ [a]).
Proof.
  induction l as [|x l IH]; intros N H; simpl.
  - constructor; [intros [] | constructor].
  - inversion N; subst. constructor.
    + intros Hin. apply in_app_or in Hin. destruct Hin as [Hin|[E|[]]]; [contradiction|]. subst. apply H. left. reflexivity.
    + apply IH; [assumption|]. intros Hin. apply H. right. exact Hin.
Qed.

(* add_row *)
Lemma add_row_cases view attrs u a :
  (add_row (view, attrs) (u, a) = (view, attrs) /\ has_id view (u_id u) = true) \/
  (add_row (view, attrs) (u, a) = (view ++ [u], attrs ++ [a]) /\ has_id view (u_id u) = false).
Proof. unfold add_row. destruct (has_id view (u_id u)); [left | right]; split; reflexivity. Qed.

Lemma fold_add_rows : forall rows view attrs view' attrs',
  fold_left add_row rows (view, attrs) = (view', attrs') ->
  NoDup (map u_id view) ->
  NoDup (map u_id view') /\
  (forall v, In v view' -> In v view \/ In v (map fst rows)) /\
  (forall v, In v view -> In v view').
Proof.
  induction rows as [|[u a] rows IH]; intros view attrs view' attrs' H N.
  - simpl in H. inversion H; subst. split; [exact N | split; auto].
  - change (fold_left add_row rows (add_row (view, attrs) (u, a)) = (view', attrs')) in H.
    destruct (add_row_cases view attrs u a) as [[E X]|[E X]]; rewrite E in H.
    + destruct (IH _ _ _ _ H N) as [A [B C]]. split; [exact A|]. split; [|exact C].
      intros v Hv. destruct (B v Hv); [left; auto | right; right; auto].
    + assert (N' : NoDup (map u_id (view ++ [u]))).
      { rewrite map_app. simpl. apply nodup_snoc; [exact N | apply has_id_false; exact X]. }
      destruct (IH _ _ _ _ H N') as [A [B C]]. split; [exact A|]. split.
      * intros v Hv. destruct (B v Hv) as [Y|Y].
        -- apply in_app_or in Y. destruct Y as [Y|[Y|[]]]; [left; exact Y | right; left; exact Y].
        -- right. right. exact Y.
      * intros v Hv. apply C. apply in_or_app. left. exact Hv.
Qed.

(* own_rows: fresh ids inside the reserved block, unspent *)
Lemma own_rows_spec serial acct n outs p :
  In p (own_rows serial acct n outs) ->
  serial + 1 <= u_id (fst p) < serial + 2 + n /\ u_spent (fst p) = false.
Proof.
  unfold own_rows. intros H. apply in_flat_map in H. destruct H as [o [_ Ho]].
  destruct (o_dest o) as [sc|j]; [destruct Ho|].
  destruct ((-1 <=? j) && (j <? n)) eqn:G; [|destruct Ho].
  apply andb_prop in G. destruct G as [G1 G2]. apply Z.leb_le in G1. apply Z.ltb_lt in G2.
  destruct Ho as [E|[]]. subst p. cbn. split; [lia | reflexivity].
Qed.

Lemma consumed_app st l : map snd (hs_txins st ++ l) = consumed st ++ map snd l.
Proof. unfold consumed. apply map_app. Qed.

Lemma h_broadcast_consumed st acct ins outs :
  consumed (h_broadcast st acct ins outs) = consumed st ++ ins /\
  hs_next (h_broadcast st acct ins outs) = hs_next st + 2 + Z.of_nat (length outs).
Proof.
  unfold h_broadcast. cbv zeta.
  destruct (fold_left add_row _ _) as [view' attrs']. unfold consumed. cbn [hs_txins hs_next].
  rewrite map_app, map_map. cbn [snd]. rewrite map_id. split; reflexivity.
Qed.

Lemma h_broadcast_inv st acct ins outs :
  hinv st -> (forall i, In i ins -> i < hs_next st) -> hinv (h_broadcast st acct ins outs).
Proof.
  intros (I1 & I2 & I3 & I4 & I5) Hins.
  destruct (h_broadcast_consumed st acct ins outs) as [EC EN].
  unfold hinv. rewrite EC, EN.
  unfold h_broadcast. cbv zeta.
  destruct (fold_left add_row _ _) as [view' attrs'] eqn:F. cbn [hs_view].
  assert (N0 : NoDup (map u_id (mark_spent ins (hs_view st)))) by (rewrite mark_spent_ids; exact I1).
  destruct (fold_add_rows _ _ _ _ _ F N0) as [A [B _]].
  pose proof (Zle_0_nat (length outs)) as Hn.
  split; [exact A|]. split; [|split; [|split]].
  - intros v Hv Hc. destruct (B v Hv) as [X|X].
    + destruct (mark_spent_in _ _ _ X) as [u [Hu [E [S1 S2]]]]. rewrite E in Hc.
      apply in_app_or in Hc. destruct Hc as [Hc|Hc]; [apply S1; apply I2; assumption | apply S2; exact Hc].
    + apply in_map_iff in X. destruct X as [p [E Hp]]. subst v.
      destruct (own_rows_spec _ _ _ _ _ Hp) as [R _]. exfalso.
      apply in_app_or in Hc. destruct Hc as [Hc|Hc]; [apply I4 in Hc | apply Hins in Hc]; lia.
  - intros v Hv. destruct (B v Hv) as [X|X].
    + destruct (mark_spent_in _ _ _ X) as [u [Hu [E _]]]. rewrite E. apply I3 in Hu. lia.
    + apply in_map_iff in X. destruct X as [p [E Hp]]. subst v.
      destruct (own_rows_spec _ _ _ _ _ Hp) as [R _]. lia.
  - intros i Hc. apply in_app_or in Hc. destruct Hc as [Hc|Hc]; [apply I4 in Hc | apply Hins in Hc]; lia.
  - lia.
Qed.

(* ------------------------------------------------------------------ utxos_update / utxo_add *)
(* a map over the rows which keeps ids and only ever turns rows spent, or decides "spent" by the stored inputs *)
Lemma hinv_map_rows st (f : utxo -> utxo) view' attrs' last' :
  hinv st ->
  view' = map f (hs_view st) ->
  (forall u, u_id (f u) = u_id u) ->
  (forall u, In (u_id u) (consumed st) -> u_spent u = true -> u_spent (f u) = true) ->
  hinv {| hs_view := view'; hs_attr := attrs'; hs_txins := hs_txins st; hs_next := hs_next st; hs_last := last' |}.
Proof.
  intros (I1 & I2 & I3 & I4 & I5) -> Hid Hsp. unfold hinv, consumed in *. cbn [hs_view hs_txins hs_next].
  split; [|split; [|split; [|split]]]; auto.
  - rewrite map_map. erewrite map_ext; [exact I1 | intros u; apply Hid].
  - intros v Hv Hc. apply in_map_iff in Hv. destruct Hv as [u [E Hu]]. subst v. rewrite Hid in Hc.
    apply Hsp; [exact Hc | apply I2; assumption].
  - intros v Hv. apply in_map_iff in Hv. destruct Hv as [u [E Hu]]. subst v. rewrite Hid. apply I3. exact Hu.
Qed.

Lemma upd_item_inv acct st cnt it :
  hinv st ->
  hinv (fst (upd_item acct (st, cnt) it)) /\
  hs_txins (fst (upd_item acct (st, cnt) it)) = hs_txins st /\
  hs_next (fst (upd_item acct (st, cnt) it)) = hs_next st /\
  hs_last (fst (upd_item acct (st, cnt) it)) = hs_last st.
Proof.
  intros H. unfold upd_item. cbv zeta.
  destruct (has_id (hs_view st) (li_id it)) eqn:K.
  - cbn [fst hs_txins hs_next hs_last]. split; [|auto].
    (* a row is turned unspent only if no stored input refers to it *)
    destruct H as (I1 & I2 & I3 & I4 & I5). unfold hinv, consumed in *. cbn [hs_view hs_txins hs_next].
    set (f := fun u : utxo =>
                let u1 := if u_id u =? li_id it then set_spent u (spent_in_db st (li_id it)) else u in
                if a_tx (attr_of (hs_attr st) (u_id u)) =? a_tx (attr_of (hs_attr st) (li_id it))
                then set_conf u1 (li_conf it) else u1).
    assert (Hid : forall u, u_id (f u) = u_id u).
    { intros u. unfold f. cbv zeta. destruct (u_id u =? li_id it); destruct (_ =? _); reflexivity. }
    assert (Hsp : forall u, In (u_id u) (map snd (hs_txins st)) -> u_spent u = true -> u_spent (f u) = true).
    { intros u Hc Hs. unfold f. cbv zeta. destruct (u_id u =? li_id it) eqn:E.
      - apply Z.eqb_eq in E. rewrite <- E.
        pose proof (proj2 (spent_in_db_true st (u_id u)) Hc) as Hdb.
        destruct (a_tx _ =? a_tx _); cbn [u_spent set_conf set_spent]; exact Hdb.
      - destruct (a_tx _ =? a_tx _); cbn [u_spent set_conf set_spent]; assumption. }
    change (map _ (hs_view st)) with (map f (hs_view st)).
    split; [|split; [|split; [|split]]]; auto.
    + rewrite map_map. erewrite map_ext; [exact I1 | intros u; apply Hid].
    + intros v Hv Hc. apply in_map_iff in Hv. destruct Hv as [u [E Hu]]. subst v. rewrite Hid in Hc.
      apply Hsp; [exact Hc | apply I2; assumption].
    + intros v Hv. apply in_map_iff in Hv. destruct Hv as [u [E Hu]]. subst v. rewrite Hid. apply I3. exact Hu.
  - destruct (h_base <=? li_id it) eqn:G; cbn [fst]; [auto|].
    cbn [hs_txins hs_next hs_last]. split; [|auto].
    apply Z.leb_gt in G. destruct H as (I1 & I2 & I3 & I4 & I5). unfold hinv, consumed in *. cbn [hs_view hs_txins hs_next].
    split; [|split; [|split; [|split]]]; auto.
    + rewrite map_app. simpl. apply nodup_snoc; [exact I1 | apply has_id_false; exact K].
    + intros v Hv Hc. apply in_app_or in Hv. destruct Hv as [Hv|[E|[]]]; [apply I2; assumption|].
      subst v. cbn in *. apply spent_in_db_true. exact Hc.
    + intros v Hv. apply in_app_or in Hv. destruct Hv as [Hv|[E|[]]]; [apply I3; assumption|]. subst v. cbn. lia.
Qed.

Lemma fold_upd_inv acct : forall listing st cnt,
  hinv st ->
  hinv (fst (fold_left (upd_item acct) listing (st, cnt))) /\
  hs_txins (fst (fold_left (upd_item acct) listing (st, cnt))) = hs_txins st /\
  hs_next (fst (fold_left (upd_item acct) listing (st, cnt))) = hs_next st /\
  hs_last (fst (fold_left (upd_item acct) listing (st, cnt))) = hs_last st.
Proof.
  induction listing as [|it r IH]; intros st cnt H; [simpl; auto|].
  cbn [fold_left].
  destruct (upd_item_inv acct st cnt it H) as (A & B & C & D).
  destruct (upd_item acct (st, cnt) it) as [st1 c1]. cbn [fst] in *.
  destruct (IH st1 c1 A) as (A' & B' & C' & D'). split; [exact A'|]. rewrite B', C', D'. auto.
Qed.

Lemma h_update_inv st acct listing rescan :
  hinv st ->
  hinv (fst (h_update st acct listing rescan)) /\
  hs_txins (fst (h_update st acct listing rescan)) = hs_txins st /\
  hs_next (fst (h_update st acct listing rescan)) = hs_next st /\
  hs_last (fst (h_update st acct listing rescan)) = hs_last st.
Proof.
  intros H. unfold h_update. cbv zeta.
  match goal with |- context [fold_left _ _ (?s0, 0)] => set (st0 := s0) end.
  assert (H0 : hinv st0).
  { unfold st0. destruct rescan.
    - eapply hinv_map_rows; [exact H | reflexivity | |].
      + intros u. cbv beta. destruct (a_acct _ =? acct); reflexivity.
      + intros u _ Hs. cbv beta. destruct (a_acct _ =? acct); [reflexivity | exact Hs].
    - destruct st; exact H. }
  destruct (fold_upd_inv acct listing st0 0 H0) as (A & B & C & D). auto.
Qed.

(* ------------------------------------------------------------------ transaction_delete (fee bump of a pushed transaction) *)
Lemma h_delete_inv st s :
  hinv st ->
  hinv (h_delete st s) /\ hs_next (h_delete st s) = hs_next st /\
  (forall i, In i (consumed (h_delete st s)) -> In i (consumed st)) /\
  (forall v, In v (hs_view (h_delete st s)) -> exists u, In u (hs_view st) /\ u_id v = u_id u).
Proof.
  intros (I1 & I2 & I3 & I4 & I5). unfold h_delete. cbv zeta.
  set (txins' := filter (fun p : Z * Z => negb (fst p =? s)) (hs_txins st)).
  set (ins := map snd (filter (fun p : Z * Z => fst p =? s) (hs_txins st))).
  set (keep := fun u : utxo => negb (a_tx (attr_of (hs_attr st) (u_id u)) =? s)).
  set (g := fun u : utxo => if existsb (Z.eqb (u_id u)) ins && negb (existsb (fun p : Z * Z => snd p =? u_id u) txins')
                            then set_spent u false else u).
  assert (Hsub : forall i, In i (map snd txins') -> In i (map snd (hs_txins st))).
  { intros i Hi. apply in_map_iff in Hi. destruct Hi as [p [E Hp]]. apply filter_In in Hp. destruct Hp as [Hp _].
    apply in_map_iff. exists p. split; assumption. }
  assert (Hg : forall u, u_id (g u) = u_id u).
  { intros u. unfold g. destruct (_ && _); reflexivity. }
  assert (Hv : forall v, In v (map g (filter keep (hs_view st))) -> exists u, In u (hs_view st) /\ v = g u).
  { intros v Hv. apply in_map_iff in Hv. destruct Hv as [u [E Hu]]. apply filter_In in Hu. destruct Hu as [Hu _].
    exists u. split; [exact Hu | symmetry; exact E]. }
  unfold hinv, consumed. cbn [hs_view hs_txins hs_next].
  split; [|split; [reflexivity | split; [exact Hsub|]]].
  - split; [|split; [|split; [|split]]].
    + rewrite map_map. erewrite map_ext; [|intros u; apply Hg].
      apply (proj2 (sub_filter keep (hs_view st))). exact I1.
    + intros v Hin Hc. destruct (Hv v Hin) as [u [Hu E]]. subst v. rewrite Hg in Hc.
      unfold g. destruct (existsb (Z.eqb (u_id u)) ins && negb (existsb (fun p : Z * Z => snd p =? u_id u) txins')) eqn:X.
      * exfalso. apply andb_prop in X. destruct X as [_ X]. apply negb_true_iff in X.
        apply in_map_iff in Hc. destruct Hc as [p [E Hp]].
        assert (existsb (fun p : Z * Z => snd p =? u_id u) txins' = true).
        { apply existsb_exists. exists p. split; [exact Hp | apply Z.eqb_eq; exact E]. }
        congruence.
      * apply I2; [exact Hu | apply Hsub; exact Hc].
    + intros v Hin. destruct (Hv v Hin) as [u [Hu E]]. subst v. rewrite Hg. apply I3. exact Hu.
    + intros i Hi. apply I4. apply Hsub. exact Hi.
    + exact I5.
  - intros v Hin. destruct (Hv v Hin) as [u [Hu E]]. subst v. exists u. split; [exact Hu | apply Hg].
Qed.

(* ------------------------------------------------------------------ bumpfee: which inputs the bumped transaction has *)
Lemma tx_bumpfee_inputs rep b fee extra mult b' :
  tx_bumpfee rep b fee extra mult = Ok b' -> b_inputs b' = b_inputs b.
Proof.
  unfold tx_bumpfee. destruct (bump_amounts b fee extra mult) as [[nf ex]|e]; [|discriminate].
  destruct (bump_loop rep ex ex (b_outputs b)) as [rem outs'].
  destruct (negb (rem =? 0)); [discriminate|].
  destruct (existsb _ outs'); [discriminate|].
  intros H. inversion H; subst. reflexivity.
Qed.

Lemma wallet_bumpfee_inputs rep nw view b fee extra mult mult2 b' :
  wallet_bumpfee rep nw view b fee extra mult mult2 = Ok b' ->
  b_inputs b' = b_inputs b \/
  exists u, In u view /\ u_spent u = false /\ 1 <= u_conf u /\
            ~ In (u_id u) (map u_id (b_inputs b)) /\ b_inputs b' = b_inputs b ++ [u].
Proof.
  unfold wallet_bumpfee. destruct (tx_bumpfee rep b fee extra mult) as [b1|e] eqn:T.
  - intros H. inversion H; subst. left. eapply tx_bumpfee_inputs. exact T.
  - destruct e; try discriminate. cbv zeta.
    match goal with |- context [match ?l with [] => Err EBumpNoInput | _ :: _ => _ end] => destruct l as [|u rest] eqn:U end;
      [discriminate|].
    intros H. right. exists u.
    assert (Hu : In u (u :: rest)) by (left; reflexivity). rewrite <- U in Hu.
    apply filter_In in Hu. destruct Hu as [Hu Hp].
    apply (Permutation_in _ (sort_by_perm lt_conf _)) in Hu. apply filter_In in Hu. destruct Hu as [Hv Hq].
    apply andb_prop in Hp. destruct Hp as [Hp _]. apply negb_true_iff in Hp.
    apply andb_prop in Hq. destruct Hq as [Q1 Q2]. apply negb_true_iff in Q1. apply Z.leb_le in Q2.
    split; [exact Hv|]. split; [exact Q1|]. split; [exact Q2|]. split.
    + intros Hin. apply in_map_iff in Hin. destruct Hin as [i [E Hi]].
      assert (existsb (fun i0 : utxo => u_id i0 =? u_id u) (b_inputs b) = true).
      { apply existsb_exists. exists i. split; [exact Hi | apply Z.eqb_eq; exact E]. }
      congruence.
    + destruct (add_to_first_change (u_value u) (b_outputs b)) as [l|];
        apply tx_bumpfee_inputs in H; exact H.
Qed.

(* ------------------------------------------------------------------ one creation on a state *)
Definition inputs_admissible (st : hstate) (minc acct : Z) (keys : list Z) (t : wtx) : Prop :=
  (forall u, In u (t_inputs t) ->
     In u (hs_view st) /\ u_spent u = false /\ ~ In (u_id u) (consumed st) /\ minc <= u_conf u /\
     in_scope (hs_attr st) acct keys u = true) /\
  NoDup (map u_id (t_inputs t)).

Lemma unspent_not_consumed st u : hinv st -> In u (hs_view st) -> u_spent u = false -> ~ In (u_id u) (consumed st).
Proof. intros (_ & I2 & _) Hu Hs Hc. rewrite (I2 u Hu Hc) in Hs. discriminate. Qed.

Lemma create_inputs_in_view rep nw w view rq o t :
  tx_create rep nw w view rq o = Ok t -> forall u, In u (t_inputs t) -> In u view.
Proof.
  intros H u Hu. pose proof (create_inputs_ok_lemma _ _ _ _ _ _ _ H) as Q.
  destruct (rq_inputs rq); [apply (proj2 Q); exact Hu | apply (proj1 Q); exact Hu].
Qed.

Lemma h_create_auto bcount nw w st rq o x :
  hinv st -> hq_inputs rq = None -> h_create bcount nw w st rq o = Ok x ->
  inputs_admissible st (hq_min_conf rq) (hq_acct rq) (hq_keys rq) (x_tx x).
Proof.
  intros Hi I H. unfold h_create in H. apply wrap_tx_ok in H. destruct H as [C _].
  unfold scope in C. rewrite I in C. unfold lib_tx_create in C.
  pose proof (create_inputs_ok_lemma _ _ _ _ _ _ _ C) as Q. unfold h_request in Q. cbn [rq_inputs rq_min_conf] in Q.
  rewrite I in Q. cbn in Q. destruct Q as [Q1 Q2]. split.
  - intros u Hu. destruct (Q1 u Hu) as (A & B & D & _). apply (proj1 (key_order_sub _ _ _)) in A.
    apply filter_In in A. destruct A as [A1 A2].
    split; [exact A1|]. split; [exact B|]. split; [apply unspent_not_consumed; assumption|]. split; assumption.
  - apply Q2. apply (proj2 (key_order_sub _ _ _)). apply (proj2 (sub_filter _ (hs_view st))). exact (proj1 Hi).
Qed.

Lemma h_send_auto bcount nw w st rq o1 o2 x :
  hinv st -> hq_inputs rq = None -> h_send bcount nw w st rq o1 o2 = Ok x ->
  inputs_admissible st (hq_min_conf rq) (hq_acct rq) (hq_keys rq) (x_tx x).
Proof.
  intros Hi I H. apply send_recreation_lemma in H. destruct H as (f & o & C & _).
  apply (h_create_auto _ _ _ _ _ _ _ Hi) in C; [exact C | exact I].
Qed.

Lemma h_sweep_ok bcount nw w st sq o1 o2 x :
  h_sweep bcount nw w st sq o1 o2 = Ok x ->
  lib_sweep nw w (sweep_scope st sq) (hw_sweep sq) o1 o2 = Ok (x_tx x) /\
  x_locktime x = eff_locktime bcount (hw_locktime sq) /\
  x_seqs x = map (fun _ => default_sequence (hw_rbf sq) (x_locktime x)) (t_inputs (x_tx x)).
Proof.
  unfold h_sweep. destruct (lib_sweep nw w (sweep_scope st sq) (hw_sweep sq) o1 o2) as [t|e]; [|discriminate].
  intros H. inversion H; subst. cbn. auto.
Qed.

Lemma h_sweep_auto bcount nw w st sq o1 o2 x :
  hinv st -> h_sweep bcount nw w st sq o1 o2 = Ok x ->
  inputs_admissible st (sw_min_conf (hw_sweep sq)) (hw_acct sq) (hw_keys sq) (x_tx x).
Proof.
  intros Hi H. apply h_sweep_ok in H. destruct H as [C _]. unfold lib_sweep in C.
  assert (N : NoDup (map u_id (sweep_scope st sq))).
  { apply (proj2 (key_order_sub _ _ _)). apply (proj2 (sub_filter _ (hs_view st))). exact (proj1 Hi). }
  destruct (sweep_inputs_lemma _ _ _ _ _ _ _ _ C N) as [A B]. split; [|exact B].
  intros u Hu. destruct (A u Hu) as (A1 & A2 & A3). unfold sweep_scope in A1.
  apply (proj1 (key_order_sub _ _ _)) in A1. apply filter_In in A1. destruct A1 as [V S].
  split; [exact V|]. split; [exact A2|]. split; [apply unspent_not_consumed; assumption|]. split; assumption.
Qed.

(* every input of every creation is a row of the state or a caller-described outpoint below h_base *)
Lemma pseudo_row_ids view xs u : In u (flat_map (pseudo_row view) xs) -> u_id u < h_base.
Proof.
  intros H. apply in_flat_map in H. destruct H as [x [_ Hx]]. unfold pseudo_row in Hx.
  destruct (has_id view (x_id x)); [destruct Hx|]. destruct (x_claim x) as [v|]; [|destruct Hx].
  destruct (x_addr x && negb (v =? 0) && (x_id x <? h_base)) eqn:G; [|destruct Hx].
  apply andb_prop in G. destruct G as [_ G]. apply Z.ltb_lt in G. destruct Hx as [E|[]]. subst u. exact G.
Qed.

Lemma scope_ids st rq u : hinv st -> In u (scope st rq) -> u_id u < hs_next st.
Proof.
  intros (_ & _ & I3 & _ & I5) H. unfold scope in H. destruct (hq_inputs rq) as [xs|].
  - apply in_app_or in H. destruct H as [H|H]; [apply I3; exact H | apply pseudo_row_ids in H; lia].
  - apply (proj1 (key_order_sub _ _ _)) in H. apply filter_In in H. apply I3. exact (proj1 H).
Qed.

Lemma h_create_ids bcount nw w st rq o x :
  hinv st -> h_create bcount nw w st rq o = Ok x -> forall i, In i (map u_id (t_inputs (x_tx x))) -> i < hs_next st.
Proof.
  intros Hi H i Hin. unfold h_create in H. apply wrap_tx_ok in H. destruct H as [C _]. unfold lib_tx_create in C.
  apply in_map_iff in Hin. destruct Hin as [u [E Hu]]. subst i.
  apply (scope_ids st rq); [exact Hi|]. eapply create_inputs_in_view; eauto.
Qed.

Lemma h_send_ids bcount nw w st rq o1 o2 x :
  hinv st -> h_send bcount nw w st rq o1 o2 = Ok x -> forall i, In i (map u_id (t_inputs (x_tx x))) -> i < hs_next st.
Proof.
  intros Hi H. apply send_recreation_lemma in H. destruct H as (f & o & C & _).
  intros i Hin. unfold h_create in C. apply wrap_tx_ok in C. destruct C as [C _]. unfold lib_tx_create in C.
  rewrite scope_with_fee in C.
  apply in_map_iff in Hin. destruct Hin as [u [E Hu]]. subst i.
  apply (scope_ids st rq); [exact Hi|]. eapply create_inputs_in_view; eauto.
Qed.

Lemma h_sweep_ids bcount nw w st sq o1 o2 x :
  hinv st -> h_sweep bcount nw w st sq o1 o2 = Ok x -> forall i, In i (map u_id (t_inputs (x_tx x))) -> i < hs_next st.
Proof.
  intros Hi H i Hin. apply h_sweep_ok in H. destruct H as [C _]. unfold lib_sweep in C.
  apply sweep_conserves_lemma in C. destruct C as (_ & _ & V).
  apply in_map_iff in Hin. destruct Hin as [u [E Hu]]. subst i.
  pose proof (V u Hu) as Hv. unfold sweep_scope in Hv. apply (proj1 (key_order_sub _ _ _)) in Hv. apply filter_In in Hv.
  destruct Hi as (_ & _ & I3 & _). apply I3. exact (proj1 Hv).
Qed.

Lemma after_tx_inv st acct r bc sg :
  hinv st -> (forall x, r = Ok x -> forall i, In i (map u_id (t_inputs (x_tx x))) -> i < hs_next st) ->
  hinv (fst (after_tx st acct r bc sg)).
Proof.
  intros Hi Hr. unfold after_tx. destruct r as [x|e]; [|exact Hi].
  destruct (bc && sg); cbn [fst]; [|exact Hi].
  apply h_broadcast_inv; [exact Hi | apply (Hr x eq_refl)].
Qed.

Lemma after_tx_out st acct r bc sg x p :
  snd (after_tx st acct r bc sg) = OTx x p -> r = Ok x /\ p = bc && sg.
Proof.
  unfold after_tx. destruct r as [y|e]; [|discriminate]. destruct (bc && sg); cbn [snd]; intros H; inversion H; auto.
Qed.

(* ------------------------------------------------------------------ every step keeps the invariant *)
Lemma h_step_inv env nw w st op : hinv st -> hinv (fst (h_step env nw w st op)).
Proof.
  intros Hi. destruct op as [rq o|rq o1 o2 bc sg|sq o1 o2 bc sg|acct listing rescan|acct it| |b fee extra bc vf|so]; cbn [h_step].
  - destruct (h_create _ nw w st rq o); exact Hi.
  - apply after_tx_inv; [exact Hi|]. intros x E. eapply h_send_ids; eauto.
  - apply after_tx_inv; [exact Hi|]. intros x E. eapply h_sweep_ids; eauto.
  - pose proof (h_update_inv st acct listing rescan Hi) as [A _].
    destruct (h_update st acct listing rescan) as [st' n]. exact A.
  - pose proof (h_update_inv st acct [it] false Hi) as [A _].
    destruct (h_update st acct [it] false) as [st' n]. exact A.
  - exact Hi.
  - destruct (forallb (fun u : utxo => u_id u <? hs_next st) (b_inputs b)) eqn:FA; [|exact Hi].
    destruct (hs_last st) as [l|]; [|exact Hi].
    match goal with |- context [lib_wallet_bumpfee nw ?sc b fee extra ?m1 ?m2] =>
      destruct (lib_wallet_bumpfee nw sc b fee extra m1 m2) as [b'|e] eqn:WB end; [|exact Hi].
    assert (Hd : hinv (match l_serial l with Some s => h_delete st s | None => st end) /\
                 hs_next (match l_serial l with Some s => h_delete st s | None => st end) = hs_next st).
    { destruct (l_serial l) as [s|]; [|auto]. destruct (h_delete_inv st s Hi) as (A & B & _). auto. }
    destruct Hd as [Hd Hn].
    destruct (bc && vf); cbn [fst]; [|exact Hd].
    apply h_broadcast_inv; [exact Hd|]. rewrite Hn. intros i Hin.
    unfold lib_wallet_bumpfee in WB. apply wallet_bumpfee_inputs in WB.
    assert (Hb : forall j, In j (map u_id (b_inputs b)) -> j < hs_next st).
    { intros j Hj. apply in_map_iff in Hj. destruct Hj as [u [E Hu]]. subst j.
      rewrite forallb_forall in FA. apply Z.ltb_lt. apply FA. exact Hu. }
    destruct WB as [E|[u [Hu [_ [_ [_ E]]]]]]; rewrite E in Hin.
    + apply Hb. exact Hin.
    + rewrite map_app in Hin. apply in_app_or in Hin. destruct Hin as [Hin|[Hin|[]]]; [apply Hb; exact Hin|].
      subst i. apply filter_In in Hu. destruct Hi as (_ & _ & I3 & _). apply I3. exact (proj1 Hu).
  - destruct so as [s|]; [|exact Hi].
    destruct (existsb (fun p : Z * Z => fst p =? s) (hs_txins st)); [|exact Hi].
    cbn [fst]. apply hinv_with_last. destruct (h_delete_inv st s Hi) as (A & _). exact A.
Qed.

Lemma h_run_in env nw w : forall ops st r,
  hinv st -> In r (h_run env nw w st ops) ->
  hinv (hr_pre r) /\ hinv (hr_post r) /\ h_step env nw w (hr_pre r) (hr_op r) = (hr_post r, hr_out r).
Proof.
  induction ops as [|op ops IH]; intros st r Hi Hin; [destruct Hin|].
  cbn [h_run] in Hin. pose proof (h_step_inv env nw w st op Hi) as Hs.
  destruct (h_step env nw w st op) as [st' out] eqn:E. cbn [fst] in Hs.
  destruct Hin as [Hr|Hin].
  - subst r. cbn. auto.
  - apply (IH st'); assumption.
Qed.

Definition auto_args (op : hop) : option (Z * Z * list Z) :=
  match op with
  | HCreate rq _ | HSend rq _ _ _ _ =>
      match hq_inputs rq with None => Some (hq_min_conf rq, hq_acct rq, hq_keys rq) | Some _ => None end
  | HSweep sq _ _ _ _ => Some (sw_min_conf (hw_sweep sq), hw_acct sq, hw_keys sq)
  | _ => None
  end.

Lemma step_auto_lemma env nw w st op st' x pushed minc acct keys :
  hinv st -> h_step env nw w st op = (st', OTx x pushed) -> auto_args op = Some (minc, acct, keys) ->
  inputs_admissible st minc acct keys (x_tx x).
Proof.
  intros Hi Hs Ha. destruct op as [rq o|rq o1 o2 bc sg|sq o1 o2 bc sg|a listing rescan|a it| |b fee extra bc vf|so];
    cbn [auto_args] in Ha; try discriminate; cbn [h_step] in Hs.
  - destruct (hq_inputs rq) eqn:I; [discriminate|]. inversion Ha; subst.
    destruct (h_create (he_bcount env) nw w st rq o) as [y|e] eqn:C; inversion Hs; subst.
    eapply h_create_auto; eauto.
  - destruct (hq_inputs rq) eqn:I; [discriminate|]. inversion Ha; subst.
    assert (Ho : snd (after_tx st (hq_acct rq) (h_send (he_bcount env) nw w st rq o1 o2) bc sg) = OTx x pushed)
      by (rewrite Hs; reflexivity).
    apply after_tx_out in Ho. destruct Ho as [C _]. eapply h_send_auto; eauto.
  - inversion Ha; subst.
    assert (Ho : snd (after_tx st (hw_acct sq) (h_sweep (he_bcount env) nw w st sq o1 o2) bc sg) = OTx x pushed)
      by (rewrite Hs; reflexivity).
    apply after_tx_out in Ho. destruct Ho as [C _]. eapply h_sweep_auto; eauto.
Qed.

(* every history from the empty wallet: every automatically selected (or swept) input of every transaction ever returned
   is a row of the wallet at that moment, unspent, not referred to by an input of any stored (broadcast) transaction,
   sufficiently confirmed, inside the requested account / keys, and the inputs are pairwise distinct *)
Lemma history_inputs_lemma env nw w ops r x pushed minc acct keys :
  In r (h_run env nw w h_empty ops) -> auto_args (hr_op r) = Some (minc, acct, keys) -> hr_out r = OTx x pushed ->
  inputs_admissible (hr_pre r) minc acct keys (x_tx x).
Proof.
  intros Hin Ha Ho. destruct (h_run_in env nw w ops h_empty r hinv_empty Hin) as (Hp & _ & Hs).
  rewrite Ho in Hs. eapply step_auto_lemma; eauto.
Qed.

Lemma history_invariant_lemma env nw w ops r :
  In r (h_run env nw w h_empty ops) -> hinv (hr_pre r) /\ hinv (hr_post r).
Proof. intros Hin. destruct (h_run_in env nw w ops h_empty r hinv_empty Hin) as (A & B & _). auto. Qed.

(* ------------------------------------------------------------------ what "consumed" is: the inputs of the pushed transactions *)
Definition step_consumed_spec (st : hstate) (out : hout) (st' : hstate) : Prop :=
  match out with
  | OTx x true => consumed st' = consumed st ++ map u_id (t_inputs (x_tx x))
  | OBump b' pushed =>
      forall i, In i (consumed st') -> In i (consumed st) \/ (pushed = true /\ In i (map u_id (b_inputs b')))
  | ODeleted => forall i, In i (consumed st') -> In i (consumed st)
  | _ => hs_txins st' = hs_txins st
  end.

Lemma step_consumed_lemma env nw w st op st' out :
  hinv st -> h_step env nw w st op = (st', out) -> step_consumed_spec st out st'.
Proof.
  intros Hi Hs. destruct op as [rq o|rq o1 o2 bc sg|sq o1 o2 bc sg|a listing rescan|a it| |b fee extra bc vf|so]; cbn [h_step] in Hs.
  - destruct (h_create _ nw w st rq o); inversion Hs; subst; reflexivity.
  - unfold after_tx in Hs. destruct (h_send _ nw w st rq o1 o2) as [x|e]; [|inversion Hs; subst; reflexivity].
    destruct (bc && sg); inversion Hs; subst; cbn; [|reflexivity]. apply h_broadcast_consumed.
  - unfold after_tx in Hs. destruct (h_sweep _ nw w st sq o1 o2) as [x|e]; [|inversion Hs; subst; reflexivity].
    destruct (bc && sg); inversion Hs; subst; cbn; [|reflexivity]. apply h_broadcast_consumed.
  - pose proof (h_update_inv st a listing rescan Hi) as (_ & B & _).
    destruct (h_update st a listing rescan) as [s1 n]. inversion Hs; subst. exact B.
  - pose proof (h_update_inv st a [it] false Hi) as (_ & B & _).
    destruct (h_update st a [it] false) as [s1 n]. inversion Hs; subst. exact B.
  - inversion Hs; subst. reflexivity.
  - destruct (forallb (fun u : utxo => u_id u <? hs_next st) (b_inputs b)); [|inversion Hs; subst; reflexivity].
    destruct (hs_last st) as [l|]; [|inversion Hs; subst; reflexivity].
    match type of Hs with context [lib_wallet_bumpfee nw ?sc b fee extra ?m1 ?m2] =>
      destruct (lib_wallet_bumpfee nw sc b fee extra m1 m2) as [b'|e] end; [|inversion Hs; subst; reflexivity].
    assert (Hd : forall i, In i (consumed (match l_serial l with Some s => h_delete st s | None => st end)) -> In i (consumed st)).
    { destruct (l_serial l) as [s|]; [|auto]. destruct (h_delete_inv st s Hi) as (_ & _ & C & _). exact C. }
    destruct (bc && vf); inversion Hs; subst; cbn.
    + intros i Hin. rewrite (proj1 (h_broadcast_consumed _ _ _ _)) in Hin. apply in_app_or in Hin.
      destruct Hin as [Hin|Hin]; [left; apply Hd; exact Hin | right; auto].
    + intros i Hin. left. apply Hd. exact Hin.
  - destruct so as [s|]; [|inversion Hs; subst; reflexivity].
    destruct (existsb (fun p : Z * Z => fst p =? s) (hs_txins st)); inversion Hs; subst; [|reflexivity].
    cbn. destruct (h_delete_inv st s Hi) as (_ & _ & C & _). exact C.
Qed.

Lemma history_consumed_lemma env nw w ops r :
  In r (h_run env nw w h_empty ops) -> step_consumed_spec (hr_pre r) (hr_out r) (hr_post r).
Proof.
  intros Hin. destruct (h_run_in env nw w ops h_empty r hinv_empty Hin) as (Hp & _ & Hs).
  eapply step_consumed_lemma; eauto.
Qed.

(* the states of a history are chained: each operation starts where the previous one ended *)
Lemma h_run_chain env nw w : forall ops st,
  match h_run env nw w st ops with
  | [] => True
  | r :: _ => hr_pre r = st
  end /\
  (forall pre r1 r2 post, h_run env nw w st ops = pre ++ r1 :: r2 :: post -> hr_pre r2 = hr_post r1).
Proof.
  induction ops as [|op ops IH]; intros st; cbn [h_run].
  - split; [exact I|]. intros pre r1 r2 post H. destruct pre; discriminate.
  - destruct (h_step env nw w st op) as [st' out]. split; [reflexivity|].
    destruct (IH st') as [A B]. intros pre r1 r2 post H. destruct pre as [|p pre].
    + cbn in H. inversion H as [[E1 E2]]. rewrite E2 in A. cbn. exact A.
    + cbn in H. inversion H as [[E1 E2]]. eapply B. exact E2.
Qed.

(* once pushed, the inputs of a transaction are spent rows of the next state: no later automatic selection can take them *)
Lemma pushed_inputs_spent env nw w st op st' x :
  hinv st -> h_step env nw w st op = (st', OTx x true) ->
  forall u, In u (hs_view st') -> In (u_id u) (map u_id (t_inputs (x_tx x))) -> u_spent u = true.
Proof.
  intros Hi Hs u Hu Hin. pose proof (step_consumed_lemma _ _ _ _ _ _ _ Hi Hs) as C. cbn in C.
  pose proof (h_step_inv env nw w st op Hi) as Hi'. rewrite Hs in Hi'. cbn [fst] in Hi'.
  destruct Hi' as (_ & I2 & _). apply I2; [exact Hu|]. rewrite C. apply in_or_app. right. exact Hin.
Qed.

(* two stored transactions spend the same output (a replacement built with an explicit input list next to the original, an
   imported conflicting transaction): deleting one of them leaves the output spent as long as the other is stored *)
Lemma delete_keeps_conflict_spent st s s' i u :
  hinv st -> In (s', i) (hs_txins st) -> s' <> s -> In u (hs_view (h_delete st s)) -> u_id u = i -> u_spent u = true.
Proof.
  intros Hi Hin Hne Hu E. destruct (h_delete_inv st s Hi) as ((_ & I2 & _) & _).
  apply I2; [exact Hu|]. unfold consumed, h_delete. cbn [hs_txins]. apply in_map_iff. exists (s', i).
  split; [cbn; auto|]. apply filter_In. split; [exact Hin|]. cbn [fst]. apply Bool.negb_true_iff. apply Z.eqb_neq. exact Hne.
Qed.

(* the same through the operation: after HDelete of transaction s no row that another stored transaction refers to is
   offered as spendable *)
Lemma delete_step_lemma env nw w st s st' out s' i :
  hinv st -> h_step env nw w st (HDelete (Some s)) = (st', out) -> In (s', i) (hs_txins st) -> s' <> s ->
  ~ In i (map fst (spendable st')).
Proof.
  intros Hi Hs Hin Hne. cbn [h_step] in Hs.
  assert (Hex : existsb (fun p : Z * Z => fst p =? s) (hs_txins st) = true \/
                existsb (fun p : Z * Z => fst p =? s) (hs_txins st) = false)
    by (destruct (existsb (fun p : Z * Z => fst p =? s) (hs_txins st)); auto).
  unfold spendable. rewrite map_map. cbn [fst]. intros Hc. apply in_map_iff in Hc. destruct Hc as [u [E Hu]].
  apply filter_In in Hu. destruct Hu as [Hu Hsp].
  destruct Hex as [Hex|Hex]; rewrite Hex in Hs; inversion Hs; subst st' out; clear Hs.
  - cbn [with_last hs_view] in Hu. rewrite (delete_keeps_conflict_spent st s s' i u Hi Hin Hne Hu E) in Hsp. discriminate.
  - destruct Hi as (_ & I2 & _). rewrite (I2 u Hu) in Hsp; [discriminate|].
    unfold consumed. apply in_map_iff. exists (s', i). split; [rewrite E; reflexivity|exact Hin].
Qed.

(* ------------------------------------------------------------------ the arguments hold for the transaction finally returned *)
Lemma create_max_utxos rep nw w view rq o t k :
  tx_create rep nw w view rq o = Ok t -> rq_inputs rq = None -> rq_max_utxos rq = Some k -> 0 < k ->
  Z.of_nat (length (t_inputs t)) <= k.
Proof.
  intros H I M Hk.
  destruct (tx_create_ok _ _ _ _ _ _ _ H) as (inputs & tfee & change & fpk1 & amounts & fpk2 & vsize & _ & PI & _ & _ & E & _).
  rewrite E. cbn [t_inputs]. unfold phase_inputs in PI. rewrite I, M in PI.
  destruct (lib_select_inputs _ _ _ _ _ _) as [|l] eqn:S; [discriminate|].
  destruct l as [|u0 l0]; [discriminate|]. inversion PI; subst inputs.
  eapply select_max_utxos; eauto.
Qed.

Lemma send_arguments_lemma bcount nw w st rq o1 o2 x :
  h_send bcount nw w st rq o1 o2 = Ok x ->
  x_locktime x = eff_locktime bcount (hq_locktime rq) /\
  x_seqs x = seqs_of rq (x_locktime x) (x_tx x) /\
  (hq_inputs rq = None -> forall k, hq_max_utxos rq = Some k -> 0 < k -> Z.of_nat (length (t_inputs (x_tx x))) <= k) /\
  (exists amounts, t_outputs (x_tx x) = map recipient_out (hq_outputs rq) ++ change_outs 0 amounts) /\
  sum_values (t_inputs (x_tx x)) = sum_outs (t_outputs (x_tx x)) + t_fee (x_tx x).
Proof.
  intros H. apply send_recreation_lemma in H. destruct H as (f & o & C & _).
  unfold h_create in C. apply wrap_tx_ok in C. destruct C as (C & L & S).
  unfold lib_tx_create in C. rewrite scope_with_fee, h_request_with_fee in C.
  split; [exact L|]. split; [exact S|]. split; [|split].
  - intros I k M Hk. eapply create_max_utxos; [exact C | cbn; rewrite I; reflexivity | exact M | exact Hk].
  - destruct (create_recipients_exact_lemma _ _ _ _ _ _ _ C) as [am [E _]]. exists am. exact E.
  - eapply create_conserves_lemma. exact C.
Qed.
