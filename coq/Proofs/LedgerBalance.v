(* Proofs/LedgerBalance.v — C08: what balance() reports after _balance_update equals the sum of the unspent outputs
   and the sum of the per-key balances, in every well-formed ledger. *)
From Coq Require Import ZArith List Bool Lia.
From Verif Require Import Lib.Bytes Model.Ledger.
Import ListNotations.
Open Scope Z_scope.

(* ---------------------------------------------------------------- basics *)
Lemma grp_eqb_eq a b : grp_eqb a b = true <-> a = b.
Proof.
  unfold grp_eqb. destruct a as [a1 a2], b as [b1 b2]; simpl. rewrite andb_true_iff, !Z.eqb_eq.
  split; [intros [-> ->]; reflexivity | intros H; inversion H; auto].
Qed.
Lemma grp_eqb_refl a : grp_eqb a a = true.
Proof. apply grp_eqb_eq. reflexivity. Qed.
Lemma grp_eqb_sym a b : grp_eqb a b = grp_eqb b a.
Proof.
  destruct (grp_eqb a b) eqn:E; destruct (grp_eqb b a) eqn:F; auto.
  - apply grp_eqb_eq in E. subst. rewrite grp_eqb_refl in F. discriminate.
  - apply grp_eqb_eq in F. subst. rewrite grp_eqb_refl in E. discriminate.
Qed.

Lemma zsum_app a b : zsum (a ++ b) = zsum a + zsum b.
Proof. unfold zsum. induction a; simpl; lia. Qed.
Lemma zsum_cons x l : zsum (x :: l) = x + zsum l.
Proof. reflexivity. Qed.
Lemma zsum_nil : zsum [] = 0.
Proof. reflexivity. Qed.

(* well-formedness: key ids are unique, and the key of every output exists in the (network, account) of the
   transaction that holds the output *)
Definition keys_ok (ks : list key) (txs : list tx) : Prop :=
  forall t o k, In t txs -> In o (t_outs t) -> o_key o = Some k -> key_in_grp ks k (t_grp t) = true.
Definition WF (s : ledger) : Prop := NoDup (map k_id (l_keys s)) /\ keys_ok (l_keys s) (l_txs s).

Lemma key_in_grp_has ks k g : key_in_grp ks k g = true -> has_key ks k = true.
Proof.
  unfold key_in_grp, has_key. rewrite !existsb_exists. intros [x [Hx H]].
  apply andb_true_iff in H. exists x. tauto.
Qed.

(* ---------------------------------------------------------------- flat view of the query rows *)
Definition okey (o : outp) : Z := match o_key o with Some k => k | None => 0 end.
Definition rows_of (t : tx) : list (grp * Z * Z) :=
  map (fun o => (t_grp t, okey o, o_value o)) (tx_rows f_all t).
Definition rows (txs : list tx) : list (grp * Z * Z) := flat_map rows_of txs.

Definition rsum_key (rs : list (grp * Z * Z)) (k : Z) : Z :=
  zsum (map (fun r => if snd (fst r) =? k then snd r else 0) rs).
Definition rsum_grp (rs : list (grp * Z * Z)) (g : grp) : Z :=
  zsum (map (fun r => if grp_eqb (fst (fst r)) g then snd r else 0) rs).

Lemma rsum_key_app a b k : rsum_key (a ++ b) k = rsum_key a k + rsum_key b k.
Proof. unfold rsum_key. rewrite map_app, zsum_app. reflexivity. Qed.
Lemma rsum_grp_app a b g : rsum_grp (a ++ b) g = rsum_grp a g + rsum_grp b g.
Proof. unfold rsum_grp. rewrite map_app, zsum_app. reflexivity. Qed.

Lemma rows_have_key t o : In o (tx_rows f_all t) -> o_key o = Some (okey o).
Proof.
  unfold tx_rows. destruct (grp_match f_all (t_grp t) && (0 <=? t_conf t)); [|intros []].
  rewrite filter_In. intros [_ H]. unfold out_counts in H. simpl in H.
  apply andb_true_iff in H. destruct H as [_ H]. unfold okey. destruct (o_key o); [reflexivity | discriminate].
Qed.

Lemma rows_in_outs f t o : In o (tx_rows f t) -> In o (t_outs t).
Proof.
  unfold tx_rows. destruct (grp_match f (t_grp t) && (0 <=? t_conf t)); [|intros []].
  rewrite filter_In. tauto.
Qed.

Lemma key_sum_rows txs k : key_sum f_all txs k = rsum_key (rows txs) k.
Proof.
  unfold key_sum, rows. induction txs as [|t r IH]; [reflexivity|].
  cbn [map flat_map]. rewrite rsum_key_app. unfold zsum at 1. cbn [fold_right]. fold (zsum (map (fun t0 => zsum (map o_value (filter (fun o => opt_eqb (o_key o) k) (tx_rows f_all t0)))) r)).
  rewrite IH. f_equal.
  unfold rows_of, rsum_key.
  assert (H : forall l, (forall o, In o l -> o_key o = Some (okey o)) ->
            zsum (map o_value (filter (fun o => opt_eqb (o_key o) k) l)) =
            zsum (map (fun r0 : grp * Z * Z => if snd (fst r0) =? k then snd r0 else 0)
                      (map (fun o => (t_grp t, okey o, o_value o)) l))).
  { induction l as [|o l IHl]; intros Hk; [reflexivity|].
    cbn [filter map]. cbn [fst snd].
    rewrite (Hk o (or_introl eq_refl)). cbn [opt_eqb].
    destruct (okey o =? k); unfold zsum in *; cbn [map fold_right]; rewrite IHl; auto; intros; apply Hk; right; auto. }
  apply H. intros o Ho. eapply rows_have_key; eauto.
Qed.

Lemma grp_sum_rows txs g : grp_sum f_all txs g = rsum_grp (rows txs) g.
Proof.
  unfold grp_sum, rows. induction txs as [|t r IH]; [reflexivity|].
  cbn [map flat_map]. rewrite rsum_grp_app. unfold zsum at 1. cbn [fold_right].
  fold (zsum (map (fun t0 => if grp_eqb (t_grp t0) g then zsum (map o_value (tx_rows f_all t0)) else 0) r)).
  rewrite IH. f_equal.
  unfold rows_of, rsum_grp. generalize (tx_rows f_all t). intros l.
  induction l as [|o l IHl].
  - simpl. destruct (grp_eqb (t_grp t) g); reflexivity.
  - cbn [map]. cbn [fst snd]. unfold zsum in *. cbn [fold_right].
    destruct (grp_eqb (t_grp t) g); lia.
Qed.

(* ---------------------------------------------------------------- double counting *)
Definition ksel (ks : list key) (g : grp) (x v : Z) : Z :=
  zsum (map (fun k => if grp_eqb (k_grp k) g then (if x =? k_id k then v else 0) else 0) ks).

Lemma ksel_none ks g x v : ~ In x (map k_id ks) -> ksel ks g x v = 0.
Proof.
  unfold ksel. induction ks as [|k ks IH]; intros H; [reflexivity|].
  cbn [map]. unfold zsum in *. cbn [fold_right]. rewrite IH by (intros C; apply H; right; exact C).
  destruct (grp_eqb (k_grp k) g); [|reflexivity].
  destruct (x =? k_id k) eqn:E; [|reflexivity]. apply Z.eqb_eq in E. exfalso. apply H. left. auto.
Qed.

Lemma ksel_unique ks g x v h :
  NoDup (map k_id ks) -> key_in_grp ks x h = true -> ksel ks g x v = if grp_eqb h g then v else 0.
Proof.
  induction ks as [|k ks IH]; intros ND Hin; [discriminate|].
  inversion ND as [|a l Hn ND']; subst.
  unfold ksel. cbn [map]. unfold zsum. cbn [fold_right]. fold (zsum (map (fun k0 => if grp_eqb (k_grp k0) g then if x =? k_id k0 then v else 0 else 0) ks)).
  fold (ksel ks g x v).
  unfold key_in_grp in Hin. cbn [existsb] in Hin. apply orb_true_iff in Hin. destruct Hin as [H|H].
  - apply andb_true_iff in H. destruct H as [H1 H2]. apply Z.eqb_eq in H1. apply grp_eqb_eq in H2.
    subst x h. rewrite Z.eqb_refl. rewrite ksel_none by exact Hn.
    destruct (grp_eqb (k_grp k) g); lia.
  - fold (key_in_grp ks x h) in H. rewrite (IH ND' H).
    assert (x <> k_id k).
    { intros ->. apply Hn. unfold key_in_grp in H. apply existsb_exists in H. destruct H as [y [Hy H]].
      apply andb_true_iff in H. destruct H as [H _]. apply Z.eqb_eq in H. rewrite <- H. apply in_map. exact Hy. }
    destruct (x =? k_id k) eqn:E; [apply Z.eqb_eq in E; contradiction|].
    destruct (grp_eqb (k_grp k) g); lia.
Qed.

Lemma ksum_rows_swap ks g rs :
  zsum (map (fun k => if grp_eqb (k_grp k) g then rsum_key rs (k_id k) else 0) ks) =
  zsum (map (fun r => ksel ks g (snd (fst r)) (snd r)) rs).
Proof.
  induction rs as [|r rs IH].
  - simpl. induction ks as [|k ks IHk]; [reflexivity|].
    cbn [map]. unfold zsum in *. cbn [fold_right]. rewrite IHk. unfold rsum_key. simpl.
    destruct (grp_eqb (k_grp k) g); reflexivity.
  - cbn [map]. unfold zsum at 2. cbn [fold_right]. fold (zsum (map (fun r0 => ksel ks g (snd (fst r0)) (snd r0)) rs)).
    rewrite <- IH. clear IH. unfold ksel.
    induction ks as [|k ks IHk]; [reflexivity|].
    cbn [map]. unfold zsum in *. cbn [fold_right]. rewrite IHk.
    unfold rsum_key. cbn [map]. unfold zsum. cbn [fold_right].
    destruct (grp_eqb (k_grp k) g); lia.
Qed.

Lemma rows_keys_ok ks txs r :
  keys_ok ks txs -> In r (rows txs) -> key_in_grp ks (snd (fst r)) (fst (fst r)) = true.
Proof.
  intros W. unfold rows. rewrite in_flat_map. intros [t [Ht Hr]].
  unfold rows_of in Hr. apply in_map_iff in Hr. destruct Hr as [o [<- Ho]]. cbn [fst snd].
  eapply W; eauto using rows_in_outs, rows_have_key.
Qed.

Lemma keys_sum_is_grp_sum ks txs g :
  NoDup (map k_id ks) -> keys_ok ks txs ->
  zsum (map (fun k => if grp_eqb (k_grp k) g then key_sum f_all txs (k_id k) else 0) ks) = grp_sum f_all txs g.
Proof.
  intros ND W. rewrite grp_sum_rows.
  rewrite (map_ext _ (fun k => if grp_eqb (k_grp k) g then rsum_key (rows txs) (k_id k) else 0))
    by (intros k; rewrite key_sum_rows; reflexivity).
  rewrite ksum_rows_swap. unfold rsum_grp.
  f_equal. apply map_ext_in. intros r Hr.
  apply (ksel_unique ks g _ (snd r) (fst (fst r)) ND). eapply rows_keys_ok; eauto.
Qed.

(* ---------------------------------------------------------------- grp_sum is the sum of utxos() *)
Lemma keys_ok_tail ks t r : keys_ok ks (t :: r) -> keys_ok ks r.
Proof. intros W t' o k Ht. apply W. right. exact Ht. Qed.

Lemma grp_sum_is_usum_gen ks txs g :
  keys_ok ks txs -> grp_sum f_all txs g = zsum (map u_value (flat_map (tx_utxos ks g 0) txs)).
Proof.
  unfold grp_sum. induction txs as [|t r IH]; intros W; [reflexivity|].
  cbn [map flat_map]. rewrite map_app, zsum_app. unfold zsum at 1. cbn [fold_right].
  fold (zsum (map (fun t0 => if grp_eqb (t_grp t0) g then zsum (map o_value (tx_rows f_all t0)) else 0) r)).
  rewrite IH by (eapply keys_ok_tail; eauto). f_equal.
  unfold tx_utxos, tx_rows. change (grp_match f_all (t_grp t)) with true. cbn [andb].
  destruct (grp_eqb (t_grp t) g); [|reflexivity]. cbn [andb].
  destruct (0 <=? t_conf t); [|reflexivity].
  assert (Hl : forall o k, In o (t_outs t) -> o_key o = Some k -> has_key ks k = true).
  { intros o k Ho Hk. eapply key_in_grp_has. eapply (W t o k); eauto. left. reflexivity. }
  revert Hl. generalize (t_outs t). intros l Hl.
  induction l as [|o l IHl]; [reflexivity|].
  cbn [filter flat_map]. rewrite map_app, zsum_app. rewrite <- IHl by (intros; eapply Hl; eauto; right; auto).
  unfold out_counts. cbn [f_key f_all].
  destruct (o_key o) as [k|] eqn:Ek; cbn [is_some].
  - rewrite (Hl o k (or_introl eq_refl) Ek). rewrite andb_true_r.
    destruct (negb (o_spent o)); unfold zsum; simpl; lia.
  - rewrite andb_false_r. reflexivity.
Qed.

Lemma grp_sum_is_usum s g : keys_ok (l_keys s) (l_txs s) -> grp_sum f_all (l_txs s) g = usum s g.
Proof. intros W. unfold usum, utxos. apply grp_sum_is_usum_gen. exact W. Qed.

(* ---------------------------------------------------------------- the cache after the repaired update *)
Lemma cache_lookup_set c g v g' :
  cache_lookup (cache_set c g v) g' = if grp_eqb g g' then Some v else cache_lookup c g'.
Proof.
  induction c as [|[h w] c IH]; cbn [cache_set cache_lookup].
  - destruct (grp_eqb g g'); reflexivity.
  - destruct (grp_eqb h g) eqn:E.
    + apply grp_eqb_eq in E. subst. cbn [cache_lookup]. destruct (grp_eqb g g'); reflexivity.
    + cbn [cache_lookup]. destruct (grp_eqb h g') eqn:F.
      * apply grp_eqb_eq in F. subst. rewrite grp_eqb_sym, E. reflexivity.
      * exact IH.
Qed.

Lemma cache_lookup_merge (val : grp -> Z) gs c g :
  cache_lookup (cache_merge c (map (fun g => (g, val g)) gs)) g =
  if existsb (grp_eqb g) gs then Some (val g) else cache_lookup c g.
Proof.
  unfold cache_merge. revert c. induction gs as [|h gs IH]; intros c; [reflexivity|].
  cbn [map fold_left fst snd existsb]. rewrite IH. rewrite cache_lookup_set.
  destruct (existsb (grp_eqb g) gs); [rewrite orb_true_r; reflexivity|]. rewrite orb_false_r.
  rewrite (grp_eqb_sym g h). destruct (grp_eqb h g) eqn:E; [|reflexivity].
  apply grp_eqb_eq in E. subst. reflexivity.
Qed.

Lemma cache_lookup_reset_all c g :
  cache_lookup (cache_reset f_all c) g = match cache_lookup c g with Some _ => Some 0 | None => None end.
Proof.
  induction c as [|[h w] c IH]; [reflexivity|].
  cbn [cache_reset map]. change (grp_match f_all (fst (h, w))) with true. cbn [fst cache_lookup].
  destruct (grp_eqb h g); [reflexivity | exact IH].
Qed.

Lemma existsb_dedup g l : existsb (grp_eqb g) (dedup l) = existsb (grp_eqb g) l.
Proof.
  induction l as [|h l IH]; [reflexivity|].
  cbn [dedup]. destruct (existsb (grp_eqb h) l) eqn:E; cbn [existsb].
  - rewrite IH. destruct (grp_eqb g h) eqn:F; [|reflexivity].
    apply grp_eqb_eq in F. subst. rewrite E. reflexivity.
  - rewrite IH. reflexivity.
Qed.

Lemma grp_sum_absent f txs g :
  existsb (grp_eqb g) (groups_present f txs) = false -> grp_sum f txs g = 0.
Proof.
  unfold groups_present. rewrite existsb_dedup. unfold grp_sum.
  induction txs as [|t r IH]; intros H; [reflexivity|].
  cbn [map filter] in *. rewrite zsum_cons.
  destruct (tx_rows f t) eqn:E; cbn [negb] in H.
  - rewrite IH by exact H. cbn [map]. rewrite zsum_nil. destruct (grp_eqb (t_grp t) g); reflexivity.
  - cbn [map existsb] in H. apply orb_false_iff in H. destruct H as [H1 H2].
    rewrite IH by exact H2. rewrite grp_eqb_sym, H1. reflexivity.
Qed.

Theorem reported_after_update s g :
  reported (balance_update true f_all s) g = grp_sum f_all (l_txs s) g.
Proof.
  unfold reported, balance_update. cbn [l_cache f_key f_all is_some].
  rewrite (cache_lookup_merge (fun g => grp_sum f_all (l_txs s) g)).
  destruct (existsb (grp_eqb g) (groups_present f_all (l_txs s))) eqn:E; [reflexivity|].
  rewrite cache_lookup_reset_all. rewrite (grp_sum_absent _ _ _ E).
  destruct (cache_lookup (l_cache s) g); reflexivity.
Qed.

(* ---------------------------------------------------------------- the key balances after the update *)
Lemma key_sum_no_rows f txs k : key_has_rows f txs k = false -> key_sum f txs k = 0.
Proof.
  unfold key_has_rows, key_sum. induction txs as [|t r IH]; intros H; [reflexivity|].
  cbn [existsb map] in *. apply orb_false_iff in H. destruct H as [H1 H2].
  rewrite zsum_cons. rewrite IH by exact H2.
  assert (filter (fun o => opt_eqb (o_key o) k) (tx_rows f t) = []) as ->; [|reflexivity].
  induction (tx_rows f t) as [|o l IHl]; [reflexivity|].
  cbn [existsb filter] in *. apply orb_false_iff in H1. destruct H1 as [Ha Hb]. rewrite Ha. apply IHl. exact Hb.
Qed.

Lemma key_update_all bip32 txs k :
  key_update bip32 f_all txs k = mkKey (k_id k) (k_grp k) (k_depth k) (key_sum f_all txs (k_id k)).
Proof.
  unfold key_update. destruct (key_has_rows f_all txs (k_id k)) eqn:E; [reflexivity|].
  rewrite (key_sum_no_rows _ _ _ E). reflexivity.
Qed.

Lemma ksum_map_update bip32 txs ks g :
  zsum (map k_bal (filter (fun k => grp_eqb (k_grp k) g) (map (key_update bip32 f_all txs) ks))) =
  zsum (map (fun k => if grp_eqb (k_grp k) g then key_sum f_all txs (k_id k) else 0) ks).
Proof.
  induction ks as [|k ks IH]; [reflexivity|].
  cbn [map filter]. rewrite key_update_all. cbn [k_grp k_bal]. rewrite zsum_cons.
  destruct (grp_eqb (k_grp k) g); cbn [map]; [rewrite zsum_cons|]; rewrite IH; reflexivity.
Qed.

Theorem ksum_after_update s g :
  WF s -> ksum (balance_update true f_all s) g = grp_sum f_all (l_txs s) g.
Proof.
  intros [ND W]. rewrite <- (keys_sum_is_grp_sum (l_keys s) (l_txs s) g ND W).
  unfold ksum, balance_update. cbn [l_keys]. apply ksum_map_update.
Qed.

Lemma usum_update r f s g : usum (balance_update r f s) g = usum s g.
Proof.
  unfold usum, utxos, balance_update. cbn [l_txs l_keys].
  f_equal. f_equal. apply flat_map_ext. intros t. unfold tx_utxos.
  destruct (grp_eqb (t_grp t) g && (0 <=? t_conf t)); [|reflexivity].
  apply flat_map_ext. intros o. destruct (o_key o) as [k|]; [|reflexivity].
  assert (has_key (map (key_update (l_bip32 s) f (l_txs s)) (l_keys s)) k = has_key (l_keys s) k) as ->; [|reflexivity].
  unfold has_key. induction (l_keys s) as [|x l IH]; [reflexivity|].
  cbn [map existsb]. rewrite IH. f_equal. unfold key_update.
  destruct (key_has_rows f (l_txs s) (k_id x)); [reflexivity|]. destruct (key_listed (l_bip32 s) f x); reflexivity.
Qed.

(* The balance clauses of the property, for every (network, account) *)
Theorem balance_consistent s g :
  WF s ->
  let s' := balance_update true f_all s in
  reported s' g = usum s' g /\ ksum s' g = usum s' g.
Proof.
  intros W s'. unfold s'. rewrite usum_update, reported_after_update, (ksum_after_update s g W).
  rewrite (grp_sum_is_usum s g (proj2 W)). split; reflexivity.
Qed.
