(* Proofs/TxCodecStrict.v — the script layer's refusals (C06): strict parsing refuses a script only for an
   undecodable signature-shaped item or a short push, never for what a key-shaped item contains. *)
From Coq Require Import ZArith List Bool Lia.
From Coq.Strings Require Import Byte.
From Verif Require Import Lib.Bytes Model.Wire Crypto.Sha256 Model.TxCodec Proofs.TxCodecSpec Proofs.TxCodecLib
  Model.TxStrict.
Import ListNotations.
Open Scope Z_scope.

Section Classify.
  Variable sig_ok : bytes -> bool.
  Variable lvl : nat.
  Variable sub : bytes -> pres.
  Hypothesis sub_soft : forall d, sub d <> PHard.

  (* with Key(data, strict=False) no exception other than ScriptError leaves the item loop *)
  Lemma classify_not_hard cs : forall prev, classify sig_ok key_any lvl sub prev cs <> PHard.
  Proof.
    induction cs as [|c cs IH]; intros prev; [discriminate|].
    assert (Hk : forall p (F : list item -> pres), (forall l, F l <> PHard) ->
                 match classify sig_ok key_any lvl sub p cs with POk t => F t | e => e end <> PHard).
    { intros p F HF. destruct (classify sig_ok key_any lvl sub p cs) eqn:E; [apply HF|discriminate|].
      exfalso. exact (IH p E). }
    destruct c as [b|d].
    - change (classify sig_ok key_any lvl sub prev (Op b :: cs))
        with (match classify sig_ok key_any lvl sub (bz b =? 106) cs with POk t => POk (IOp b :: t) | e => e end).
      apply Hk. intros l. discriminate.
    - assert (Hd : forall this, this <> PHard ->
                match this with
                | POk i => match classify sig_ok key_any lvl sub false cs with POk t => POk (i ++ t) | e => e end
                | e => e
                end <> PHard).
      { intros this Ht. destruct this; [|discriminate|congruence]. apply Hk. intros t. discriminate. }
      cbn [classify]. apply Hd.
      destruct (get_data_type d).
      + destruct (sig_ok d); discriminate.
      + unfold key_any. discriminate.
      + discriminate.
      + destruct prev; [discriminate|]. destruct lvl; [|discriminate].
        pose proof (sub_soft d) as Hs. destruct (sub d); [discriminate|discriminate|congruence].
  Qed.

  Definition sigs_ok (cs : list cmd) : bool :=
    forallb (fun c => match c with
                      | Data d => match get_data_type d with DSig => sig_ok d | _ => true end
                      | Op _ => true
                      end) cs.

  Definition this_of (prev : bool) (d : bytes) : pres :=
    match get_data_type d with
    | DSig => if sig_ok d then POk [IData d] else PSoft
    | DKey => if key_any d then POk [IData d] else PHard
    | DData => POk [IData d]
    | DOther =>
        if prev then POk [IData d]
        else match lvl with
             | O => match sub d with
                    | POk l => POk [IList l]
                    | PSoft => POk [IData d]
                    | PHard => PHard
                    end
             | _ => POk [IData d]
             end
    end.

  Lemma classify_data_eq prev d cs :
    classify sig_ok key_any lvl sub prev (Data d :: cs) =
    match this_of prev d with
    | POk i => match classify sig_ok key_any lvl sub false cs with POk t => POk (i ++ t) | e => e end
    | _ => this_of prev d
    end.
  Proof. reflexivity. Qed.

  Lemma classify_op_eq prev b cs :
    classify sig_ok key_any lvl sub prev (Op b :: cs) =
    match classify sig_ok key_any lvl sub (bz b =? 106) cs with POk t => POk (IOp b :: t) | e => e end.
  Proof. reflexivity. Qed.

  (* every signature-shaped item decodes: the loop completes, whatever the key-shaped items hold *)
  Lemma classify_ok cs : forall prev, sigs_ok cs = true -> exists l, classify sig_ok key_any lvl sub prev cs = POk l.
  Proof.
    induction cs as [|c cs IH]; intros prev H; [eexists; reflexivity|].
    cbn [sigs_ok forallb] in H. apply andb_true_iff in H. destruct H as [Hc Hr]. fold (sigs_ok cs) in Hr.
    destruct c as [b|d].
    - rewrite classify_op_eq. destruct (IH (bz b =? 106) Hr) as [l El]. rewrite El. eexists; reflexivity.
    - rewrite classify_data_eq. destruct (IH false Hr) as [l El]. rewrite El.
      assert (Ht : exists i, this_of prev d = POk i).
      { unfold this_of. destruct (get_data_type d).
        - rewrite Hc. eexists; reflexivity.
        - unfold key_any. eexists; reflexivity.
        - eexists; reflexivity.
        - destruct prev; [eexists; reflexivity|]. destruct lvl; [|eexists; reflexivity].
          pose proof (sub_soft d) as Hs. destruct (sub d); [eexists; reflexivity|eexists; reflexivity|congruence]. }
      destruct Ht as [i Ei]. rewrite Ei. eexists; reflexivity.
  Qed.

  (* an undecodable signature-shaped item stops the loop with ScriptError *)
  Lemma classify_bad_sig d cs prev :
    get_data_type d = DSig -> sig_ok d = false -> classify sig_ok key_any lvl sub prev (Data d :: cs) = PSoft.
  Proof. intros Ht Hs. rewrite classify_data_eq. unfold this_of. rewrite Ht, Hs. reflexivity. Qed.
End Classify.

Lemma unwrap_res_not_hard r : r <> PHard -> unwrap_res r <> PHard.
Proof. intros H. destruct r; cbn [unwrap_res]; [destruct (multisig_ok _); discriminate|discriminate|congruence]. Qed.

Lemma parse_level_not_hard sig_ok lvl sub dl s :
  (forall d, sub d <> PHard) -> parse_level sig_ok key_any lvl sub dl s <> PHard.
Proof.
  intros Hs. unfold parse_level. destruct s as [|b r]; [discriminate|].
  destruct (whole_script_data (bz b) dl).
  - destruct (parse_plain _); [apply classify_not_hard; exact Hs|discriminate].
  - destruct (parse_plain _); [apply classify_not_hard; exact Hs|discriminate].
Qed.

Lemma parse_sub_not_hard sig_ok d : parse_sub sig_ok key_any d <> PHard.
Proof.
  unfold parse_sub. apply unwrap_res_not_hard. apply parse_level_not_hard. intros x. discriminate.
Qed.

(* parse_level is the classification of level0_cmds *)
Lemma unlock_level_eq sig_ok s :
  unlock_level sig_ok s =
  match s with
  | [] => POk []
  | _ => match level0_cmds s with
         | Some cs => classify sig_ok key_any 0 (parse_sub sig_ok key_any) false cs
         | None => PSoft
         end
  end.
Proof.
  unfold unlock_level, parse_level, level0_cmds. destruct s as [|b r]; [reflexivity|].
  destruct (whole_script_data (bz b) (Z.of_nat (length (b :: r)))).
  - destruct (parse_plain _); reflexivity.
  - destruct (parse_plain _); reflexivity.
Qed.

(* strict mode, unlocking scripts and witness items: complete pushes + decodable signature-shaped items => accepted *)
Theorem strict_unlock_accepts_proof s cs :
  level0_cmds s = Some cs -> sigs_decodable cs = true -> sl_unlock_refuses true s = false.
Proof.
  intros Hc Hs. unfold sl_unlock_refuses. cbn [andb]. rewrite unlock_level_eq.
  destruct s as [|b r]; [reflexivity|]. rewrite Hc.
  destruct (classify_ok lib_sig_ok 0 (parse_sub lib_sig_ok key_any) (parse_sub_not_hard lib_sig_ok) cs false Hs)
    as [l El].
  rewrite El. reflexivity.
Qed.

(* strict mode, output scripts: the same, up to the bare-multisig count check *)
Theorem strict_lock_accepts_proof s cs :
  level0_cmds s = Some cs -> sigs_decodable cs = true ->
  sl_lock_refuses true s = negb (lock_counts_ok lib_sig_ok s).
Proof.
  intros Hc Hs. unfold sl_lock_refuses, lock_counts_ok, lib_parse_bytes, lib_parse_dl.
  change (parse_level lib_sig_ok key_any 0 (parse_sub lib_sig_ok key_any) (Z.of_nat (length s)) s)
    with (unlock_level lib_sig_ok s).
  rewrite unlock_level_eq. destruct s as [|b r]; [reflexivity|]. rewrite Hc.
  destruct (classify_ok lib_sig_ok 0 (parse_sub lib_sig_ok key_any) (parse_sub_not_hard lib_sig_ok) cs false Hs)
    as [l El].
  rewrite El. cbn [unwrap_res]. destruct (multisig_ok (unwrap1 l)); reflexivity.
Qed.

(* without strict nothing but the count check of an output script refuses *)
Theorem lenient_refusal_proof t :
  sl_refuses false t = existsb (fun o => negb (lock_counts_ok sig_any (to_script o))) (tx_outs t).
Proof.
  unfold sl_refuses.
  assert (Hin : existsb (sl_in_refuses false) (tx_ins t) = false).
  { induction (tx_ins t) as [|i l IH]; [reflexivity|]. cbn [existsb]. rewrite IH. reflexivity. }
  rewrite Hin. cbn [orb].
  induction (tx_outs t) as [|o l IH]; [reflexivity|]. cbn [existsb]. rewrite IH. f_equal.
  unfold sl_lock_refuses, lock_counts_ok. destruct (unlock_level sig_any (to_script o)); reflexivity.
Qed.

(* a transaction all of whose scripts and witness items have complete pushes and decodable signature-shaped
   items, and whose output scripts pass the count check, is not refused by the script layer in strict mode;
   the hypothesis says nothing about key-shaped items *)
Definition script_clean (s : bytes) : Prop :=
  exists cs, level0_cmds s = Some cs /\ sigs_decodable cs = true.

Definition strict_clean (t : tx) : Prop :=
  Forall (fun i => script_clean (ti_script i) /\ Forall script_clean (map repr_item (ti_wit i))) (tx_ins t) /\
  Forall (fun o => script_clean (to_script o) /\ lock_counts_ok lib_sig_ok (to_script o) = true) (tx_outs t).

Lemma stack_accepts items : Forall script_clean items -> sl_stack_refuses items = false.
Proof.
  induction items as [|w r IH]; intros H; [reflexivity|].
  inversion H as [|? ? (cs & Hc & Hs) Hr]; subst. cbn [sl_stack_refuses].
  pose proof (strict_unlock_accepts_proof w cs Hc Hs) as Hu. unfold sl_unlock_refuses in Hu. cbn [andb] in Hu.
  rewrite Hu. destruct (single_data _); [reflexivity|]. apply IH. exact Hr.
Qed.

Theorem strict_clean_accepted_proof t : strict_clean t -> sl_refuses true t = false.
Proof.
  intros (Hi & Ho). unfold sl_refuses. apply orb_false_iff. split.
  - induction (tx_ins t) as [|i l IH]; [reflexivity|].
    inversion Hi as [|? ? ((cs & Hc & Hs) & Hw) Hr]; subst. cbn [existsb].
    rewrite (IH Hr). rewrite orb_false_r. unfold sl_in_refuses. cbn [andb].
    rewrite (strict_unlock_accepts_proof _ cs Hc Hs). rewrite andb_false_r. cbn [orb].
    apply stack_accepts. exact Hw.
  - induction (tx_outs t) as [|o l IH]; [reflexivity|].
    inversion Ho as [|? ? ((cs & Hc & Hs) & Hm) Hr]; subst. cbn [existsb].
    rewrite (IH Hr). rewrite orb_false_r.
    rewrite (strict_lock_accepts_proof _ cs Hc Hs). rewrite Hm. reflexivity.
Qed.

(* the byte-level round trip carried through the script layer *)
Theorem lib_roundtrip_script_layer_proof strict t :
  wf_tx t -> quirk_free t -> sl_refuses strict t = false ->
  exists t', lib_parse_sl strict (spec_ser t) = Some t' /\ lib_raw t' = Some (spec_ser t) /\ l_txid t' = spec_txid t.
Proof.
  intros Hw Hq Hs. destruct (lib_roundtrip_proof t Hw Hq) as (t' & H1 & H2 & _ & H4).
  exists t'. split; [|split; assumption].
  unfold lib_parse_sl. pose proof (spec_tx_codec_proof t [] Hw) as Hp. rewrite app_nil_r in Hp.
  rewrite Hp, Hs. exact H1.
Qed.
