(* Proofs/Bip39Wordlists.v — the nine bundled word lists (regenerated from bitcoinlib/wordlist/*.txt on every run,
   Gen/GenWordlists.v; a word is the integer of its UTF-8 bytes) have 2048 distinct entries each. *)
From Coq Require Import ZArith List Bool Lia.
From Verif Require Import Gen.GenWordlists.
Import ListNotations.
Open Scope Z_scope.

Fixpoint nodupb (l : list Z) : bool :=
  match l with
  | [] => true
  | x :: r => negb (existsb (Z.eqb x) r) && nodupb r
  end.

Lemma nodupb_sound l : nodupb l = true -> NoDup l.
Proof.
  induction l as [|x r IH]; intros Hb; [constructor|].
  cbn [nodupb] in Hb. apply andb_true_iff in Hb. destruct Hb as [Hx Hr].
  constructor; [|apply IH, Hr].
  intros Hin. apply negb_true_iff in Hx.
  assert (existsb (Z.eqb x) r = true) by (apply existsb_exists; exists x; split; [exact Hin | apply Z.eqb_refl]).
  congruence.
Qed.

Definition wordlist_ok (wl : list Z) : Prop := length wl = 2048%nat /\ NoDup wl.

Lemma bundled_ok_bool :
  forallb (fun wl => Nat.eqb (length wl) 2048 && nodupb wl) bundled_wordlists = true.
Proof. vm_compute. reflexivity. Qed.

Lemma bundled_ok : Forall wordlist_ok bundled_wordlists /\ bundled_count = 9%nat.
Proof.
  split; [|reflexivity].
  apply Forall_forall. intros wl Hin.
  pose proof bundled_ok_bool as Hb. rewrite forallb_forall in Hb. specialize (Hb wl Hin).
  apply andb_true_iff in Hb. destruct Hb as [Hl Hn].
  split; [apply Nat.eqb_eq, Hl | apply nodupb_sound, Hn].
Qed.
