(* Proofs/TxCodecSpec.v — the protocol parser inverts the protocol serializer (C06). *)
From Coq Require Import ZArith List Bool Lia.
From Coq.Strings Require Import Byte.
From Verif Require Import Lib.Bytes Model.Wire Proofs.CompactSize Model.TxCodec.
Import ListNotations.
Open Scope Z_scope.

(* ---------- generic reading lemmas ---------- *)

Lemma read_n_app k a rest : length a = k -> read_n k (a ++ rest) = Some (a, rest).
Proof.
  intros H. unfold read_n. rewrite app_length.
  destruct (length a + length rest <? k)%nat eqn:E; [apply Nat.ltb_lt in E; lia|].
  subst k. rewrite firstn_app, Nat.sub_diag, firstn_all, skipn_app, Nat.sub_diag, skipn_all.
  simpl. rewrite app_nil_r. reflexivity.
Qed.

Lemma read_le_app k n rest :
  0 <= n < 256 ^ Z.of_nat k -> read_le k (le_bytes k n ++ rest) = Some (n, rest).
Proof.
  intros H. unfold read_le. rewrite read_n_app by apply le_bytes_length.
  rewrite of_le_le_bytes_small by exact H. reflexivity.
Qed.

Lemma core_cs_dec_enc n rest :
  0 <= n < 2 ^ 64 -> core_cs_dec (core_cs_enc n ++ rest) = Some (n, rest).
Proof. intros H. apply cs_core_reads. apply lib_cs_enc_core. exact H. Qed.

Lemma core_cs_enc_length_pos n : (1 <= length (core_cs_enc n))%nat.
Proof.
  unfold core_cs_enc. destruct (n <? 253); [simpl; lia|].
  destruct (n <=? 65535); [simpl; lia|]. destruct (n <=? 4294967295); simpl; lia.
Qed.

Lemma len_ok_range {A} (l : list A) : len_ok l -> 0 <= Z.of_nat (length l) < 2 ^ 64.
Proof. unfold len_ok. lia. Qed.

Lemma read_varbytes_ser s rest :
  len_ok s -> read_varbytes (ser_varbytes s ++ rest) = Some (s, rest).
Proof.
  intros H. unfold read_varbytes, ser_varbytes. rewrite <- app_assoc.
  rewrite core_cs_dec_enc by (apply len_ok_range; exact H).
  rewrite app_length.
  destruct (Z.of_nat (length s + length rest) <? Z.of_nat (length s)) eqn:E; [apply Z.ltb_lt in E; lia|].
  rewrite Nat2Z.id. apply read_n_app. reflexivity.
Qed.

Lemma ser_varbytes_length_pos s : (1 <= length (ser_varbytes s))%nat.
Proof. unfold ser_varbytes. rewrite app_length. pose proof (core_cs_enc_length_pos (Z.of_nat (length s))). lia. Qed.

Lemma parse_n_ser {A B} (p : bytes -> option (B * bytes)) (f : A -> bytes) (g : A -> B) (l : list A) rest :
  (forall a, In a l -> forall r, p (f a ++ r) = Some (g a, r)) ->
  parse_n p (length l) (concat (map f l) ++ rest) = Some (map g l, rest).
Proof.
  induction l as [|a l IH]; intros H; [reflexivity|].
  cbn [length map concat parse_n]. rewrite <- app_assoc.
  rewrite H by (left; reflexivity).
  rewrite IH by (intros b Hb; apply H; right; exact Hb). reflexivity.
Qed.

Lemma length_concat_ge {A} (f : A -> bytes) (l : list A) :
  (forall a, In a l -> (1 <= length (f a))%nat) -> (length l <= length (concat (map f l)))%nat.
Proof.
  induction l as [|a l IH]; intros H; [simpl; lia|].
  cbn [length map concat]. rewrite app_length.
  pose proof (H a (or_introl eq_refl)). pose proof (IH (fun b Hb => H b (or_intror Hb))). lia.
Qed.

Lemma parse_list_ser {A B} (p : bytes -> option (B * bytes)) (f : A -> bytes) (g : A -> B) (l : list A) rest :
  len_ok l ->
  (forall a, In a l -> (1 <= length (f a))%nat) ->
  (forall a, In a l -> forall r, p (f a ++ r) = Some (g a, r)) ->
  parse_list p (ser_list f l ++ rest) = Some (map g l, rest).
Proof.
  intros Hl Hpos H. unfold parse_list, ser_list. rewrite <- app_assoc.
  rewrite core_cs_dec_enc by (apply len_ok_range; exact Hl).
  pose proof (length_concat_ge f l Hpos) as Hge.
  rewrite app_length.
  destruct (Z.of_nat (length (concat (map f l)) + length rest) <? Z.of_nat (length l)) eqn:E;
    [apply Z.ltb_lt in E; lia|].
  rewrite Nat2Z.id. apply parse_n_ser. exact H.
Qed.

(* ---------- inputs, outputs, witnesses ---------- *)

Lemma pow256_4 : 256 ^ Z.of_nat 4 = 2 ^ 32. Proof. reflexivity. Qed.
Lemma pow256_8 : 256 ^ Z.of_nat 8 = 2 ^ 64. Proof. reflexivity. Qed.

Lemma parse_in_ser i rest : wf_in i -> parse_in (ser_in i ++ rest) = Some (strip_in i, rest).
Proof.
  intros (Hp & Hv & Hq & Hs & _). unfold parse_in, ser_in.
  repeat rewrite <- app_assoc.
  rewrite read_n_app by exact Hp.
  rewrite read_le_app by (rewrite pow256_4; exact Hv).
  rewrite read_varbytes_ser by exact Hs.
  rewrite read_le_app by (rewrite pow256_4; exact Hq).
  reflexivity.
Qed.

Lemma ser_in_length_pos i : wf_in i -> (1 <= length (ser_in i))%nat.
Proof. intros (Hp & _). unfold ser_in. rewrite app_length. lia. Qed.

Lemma parse_out_ser o rest : wf_out o -> parse_out (ser_out o ++ rest) = Some (o, rest).
Proof.
  intros (Hv & Hs). unfold parse_out, ser_out. rewrite <- app_assoc.
  rewrite read_le_app by (rewrite pow256_8; exact Hv).
  rewrite read_varbytes_ser by exact Hs. destruct o; reflexivity.
Qed.

Lemma ser_out_length_pos o : (1 <= length (ser_out o))%nat.
Proof. unfold ser_out. rewrite app_length, le_bytes_length. lia. Qed.

Lemma parse_wit_ser (w : list bytes) rest :
  len_ok w -> Forall (fun x : bytes => len_ok x) w ->
  parse_list read_varbytes (ser_list ser_varbytes w ++ rest) = Some (w, rest).
Proof.
  intros Hl Hf.
  rewrite (parse_list_ser read_varbytes ser_varbytes (fun x => x) w rest Hl).
  - rewrite map_id. reflexivity.
  - intros a _. apply ser_varbytes_length_pos.
  - intros a Ha r. apply read_varbytes_ser. rewrite Forall_forall in Hf. apply Hf. exact Ha.
Qed.

Lemma set_wit_strip i : set_wit (strip_in i) (ti_wit i) = i.
Proof. destruct i; reflexivity. Qed.

Lemma parse_wits_ser ins rest :
  Forall wf_in ins ->
  parse_wits (map strip_in ins) (concat (map ser_wit ins) ++ rest) = Some (ins, rest).
Proof.
  induction ins as [|i ins IH]; intros H; [reflexivity|].
  inversion H as [|? ? Hi Hr]; subst.
  cbn [map concat parse_wits]. rewrite <- app_assoc. unfold ser_wit at 1.
  destruct Hi as (_ & _ & _ & _ & Hwl & Hwf).
  rewrite parse_wit_ser by assumption.
  rewrite IH by exact Hr. rewrite set_wit_strip. reflexivity.
Qed.

Lemma no_witness_strip ins : has_witness ins = false -> map strip_in ins = ins.
Proof.
  induction ins as [|i ins IH]; intros H; [reflexivity|].
  cbn [has_witness existsb] in H. apply orb_false_elim in H. destruct H as [H1 H2].
  cbn [map]. rewrite IH by exact H2. f_equal.
  destruct i as [p v s q w]. destruct w; [reflexivity|discriminate].
Qed.

(* first byte of a non-zero count is not the marker *)
Lemma core_cs_enc_head n : 1 <= n -> exists b r, core_cs_enc n = b :: r /\ (bz b =? 0) = false.
Proof.
  intros H. unfold core_cs_enc.
  destruct (n <? 253) eqn:E1.
  { apply Z.ltb_lt in E1. exists (zb n), []. split; [reflexivity|].
    rewrite bz_zb, Z.mod_small by lia. apply Z.eqb_neq. lia. }
  destruct (n <=? 65535); [exists xfd; eexists; split; reflexivity|].
  destruct (n <=? 4294967295); [exists xfe; eexists; split; reflexivity|].
  exists xff; eexists; split; reflexivity.
Qed.

Lemma parse_tail_ser t rest :
  wf_tx t ->
  parse_tail (tx_segwit t) (tx_version t)
    (ser_list ser_in (tx_ins t) ++ ser_list ser_out (tx_outs t) ++
     (if tx_segwit t then concat (map ser_wit (tx_ins t)) else []) ++ le_bytes 4 (tx_locktime t) ++ rest)
  = Some (t, rest).
Proof.
  intros (Hv & Hlt & Hne & Hli & Hlo & Hfi & Hfo & Hsw).
  unfold parse_tail.
  rewrite (parse_list_ser parse_in ser_in strip_in (tx_ins t) _ Hli).
  2:{ intros a Ha. apply ser_in_length_pos. rewrite Forall_forall in Hfi. apply Hfi. exact Ha. }
  2:{ intros a Ha r. apply parse_in_ser. rewrite Forall_forall in Hfi. apply Hfi. exact Ha. }
  rewrite (parse_list_ser parse_out ser_out (fun o => o) (tx_outs t) _ Hlo).
  2:{ intros a _. apply ser_out_length_pos. }
  2:{ intros a Ha r. apply parse_out_ser. rewrite Forall_forall in Hfo. apply Hfo. exact Ha. }
  rewrite map_id.
  destruct (tx_segwit t) eqn:Esw.
  - cbv iota. rewrite parse_wits_ser by exact Hfi.
    rewrite <- Hsw. cbn [negb andb].
    rewrite read_le_app by (rewrite pow256_4; exact Hlt).
    destruct t; simpl in *. subst. reflexivity.
  - cbv iota. cbn [app andb]. rewrite no_witness_strip by (symmetry; exact Hsw).
    rewrite read_le_app by (rewrite pow256_4; exact Hlt).
    destruct t; simpl in *. subst. reflexivity.
Qed.

(* the headline: the protocol parser inverts the protocol serializer, with an arbitrary suffix *)
Theorem spec_tx_codec_proof t rest : wf_tx t -> spec_parse (spec_ser t ++ rest) = Some (t, rest).
Proof.
  intros Hwf. pose proof Hwf as (Hv & Hlt & Hne & Hli & Hlo & Hfi & Hfo & Hsw).
  unfold spec_parse, spec_ser. repeat rewrite <- app_assoc.
  rewrite read_le_app by (rewrite pow256_4; exact Hv).
  destruct (tx_segwit t) eqn:Esw.
  - rewrite <- app_comm_cons. change (bz x00 =? 0) with true. cbv iota.
    rewrite <- app_comm_cons. change (bz x01 =? 1) with true. cbv iota.
    rewrite app_nil_l.
    pose proof (parse_tail_ser t rest Hwf) as H. rewrite Esw in H. exact H.
  - rewrite app_nil_l.
    pose proof (parse_tail_ser t rest Hwf) as H. rewrite Esw in H.
    assert (Hn : 1 <= Z.of_nat (length (tx_ins t))).
    { destruct (tx_ins t); [contradiction|]. cbn [length]. lia. }
    destruct (core_cs_enc_head _ Hn) as (b & r & Hb & Hz).
    set (L := ser_list ser_in (tx_ins t) ++ _) in *.
    assert (HL : exists L', L = b :: L').
    { subst L. unfold ser_list at 1. rewrite Hb. repeat rewrite <- app_comm_cons. eexists; reflexivity. }
    destruct HL as [L' HL]. clearbody L. subst L. rewrite Hz. exact H.
Qed.

(* consequences: prefix-freeness / injectivity of the serialization on well-formed transactions *)
Lemma spec_ser_inj t1 t2 r1 r2 :
  wf_tx t1 -> wf_tx t2 -> spec_ser t1 ++ r1 = spec_ser t2 ++ r2 -> t1 = t2 /\ r1 = r2.
Proof.
  intros H1 H2 E.
  pose proof (spec_tx_codec_proof t1 r1 H1) as P1.
  pose proof (spec_tx_codec_proof t2 r2 H2) as P2.
  rewrite E in P1. rewrite P1 in P2. inversion P2. split; reflexivity.
Qed.
