(* Proofs/Bip32Session.v — sessions of derivation calls on one HDKey object and the objects derived from it (C03):
   every answer of a session is the stateless lib_* function applied to the key material of the object the
   request names, that key material never changes, and nothing obtained from a public-only object (a public()
   copy, a child_public result, an "M/..." path, a public_master) carries private material or answers a request
   that needs private material. *)
From Coq Require Import ZArith List Bool Lia.
From Coq.Strings Require Import Byte.
From Verif Require Import Lib.Bytes Crypto.Sha256 Crypto.Sha512 Crypto.Ripemd160 Crypto.Hmac Crypto.Secp256k1
  Model.Bip32 Proofs.Bip32Lib.
Import ListNotations.
Open Scope Z_scope.

(* ---------------------------------------------------------------- public keys stay public *)

Lemma lib_public_is_public X : lib_is_private (lib_public X) = false.
Proof. destruct X; reflexivity. Qed.

Lemma lib_step_public fp X it Y :
  fp = true \/ lib_is_private X = false -> lib_step fp X it = Some Y -> lib_is_private Y = false.
Proof.
  intros Hp. destruct it as [i m]. unfold lib_step.
  assert (Eb : fp || negb (lib_is_private X) = true).
  { destruct Hp as [->| ->]; [reflexivity | apply orb_true_r]. }
  rewrite Eb. destruct m; [discriminate|]. apply lib_child_public_is_public.
Qed.

Lemma lib_walk_public items : forall fp X Y,
  lib_is_private X = false -> lib_walk fp X items = Some Y -> lib_is_private Y = false.
Proof.
  induction items as [|it r IH]; intros fp X Y HX; cbn [lib_walk].
  - intros E. assert (Y = X) by congruence. subst. exact HX.
  - destruct (lib_step fp X it) as [Z|] eqn:Es; [|discriminate]. cbn [obind].
    apply IH. eapply lib_step_public; [right; exact HX | exact Es].
Qed.

Lemma lib_walk_first_public items : forall X Y,
  items <> [] -> lib_walk true X items = Some Y -> lib_is_private Y = false.
Proof.
  destruct items as [|it r]; intros X Y Hne; [contradiction|]. cbn [lib_walk].
  destruct (lib_step true X it) as [Z|] eqn:Es; [|discriminate]. cbn [obind].
  apply lib_walk_public. eapply lib_step_public; [left; reflexivity | exact Es].
Qed.

Lemma subkey_public_closed X path Y :
  lib_is_private X = false -> lib_subkey_for_path X path = Some Y -> lib_is_private Y = false.
Proof.
  intros HX. unfold lib_subkey_for_path.
  destruct (lib_parse_path path) as [[fp items]|]; [|discriminate].
  destruct items as [|it r].
  - rewrite HX, andb_false_r. cbn [lib_walk]. intros E. assert (Y = X) by congruence. subst. exact HX.
  - apply lib_walk_public. exact HX.
Qed.

Lemma subkey_M_public X path items Y :
  lib_parse_path path = Some (true, items) -> lib_subkey_for_path X path = Some Y -> lib_is_private Y = false.
Proof.
  intros Ep. unfold lib_subkey_for_path. rewrite Ep. destruct items as [|it r].
  - cbn [lib_walk andb]. intros E.
    destruct (lib_is_private X) eqn:HX.
    + assert (Y = lib_public X) by congruence. subst. apply lib_public_is_public.
    + assert (Y = X) by congruence. subst. exact HX.
  - apply lib_walk_first_public. discriminate.
Qed.

(* ---------------------------------------------------------------- wif(child_index=n) *)

Lemma lib_wif_index_none v a X : lib_wif_index v a X None = lib_wif v a X.
Proof. reflexivity. Qed.

Lemma lib_wif_index_is_spec v X n :
  lib_wif_index v true (XPrv X) (Some n) =
    option_map b58check_111 (s_ser_prv v {| xk := xk X; xc := xc X; xm := with_index (xm X) n |}) /\
  forall a Y, a = false \/ lib_is_private Y = false ->
    lib_wif_index v a Y (Some n) = option_map b58check_111 (s_ser_pub v (pub_part (lib_with_index Y n))).
Proof.
  split.
  - unfold lib_wif_index. cbn [lib_with_index]. apply lib_wif_private_is_spec.
  - intros a Y Ha. unfold lib_wif_index. apply lib_wif_public_is_spec.
    destruct Ha as [Ha|Ha]; [left; exact Ha | right; destruct Y; [discriminate Ha | reflexivity]].
Qed.

(* ---------------------------------------------------------------- public_master *)

Lemma check_item_id it it' : lib_check_item it = Some it' -> it' = it.
Proof.
  destruct it as [i h]. unfold lib_check_item.
  destruct (i <? 0); [discriminate|]. destruct (h && (two31 <=? i)); [discriminate|]. congruence.
Qed.

Lemma map_opt_check_id l : forall l', map_opt lib_check_item l = Some l' -> l' = l.
Proof.
  induction l as [|a l IH]; intros l'; cbn [map_opt].
  - congruence.
  - destruct (lib_check_item a) as [b|] eqn:Ea; [|discriminate].
    destruct (map_opt lib_check_item l) as [t|]; [|discriminate].
    intros E. assert (l' = b :: t) by congruence. subst.
    rewrite (check_item_id a b Ea), (IH t eq_refl). reflexivity.
Qed.

Lemma pm_items_hardened c purpose account : Exists item_hardened (pm_items c purpose account).
Proof.
  unfold pm_items. destruct (kc_multi c); [destruct (kc_wit c)|]; apply Exists_cons_hd; left; reflexivity.
Qed.

Lemma public_master_from_public X c account purpose ap :
  lib_is_private X = false -> lib_public_master X c account purpose ap = None.
Proof.
  intros HX. unfold lib_public_master.
  destruct (map_opt lib_check_item (pm_items c purpose account)) as [items|] eqn:Em; [|reflexivity].
  apply map_opt_check_id in Em. subst items.
  rewrite lib_walk_public_hardened; [reflexivity | right; exact HX | apply pm_items_hardened].
Qed.

Lemma public_master_not_private X c account purpose Y :
  lib_public_master X c account purpose false = Some Y -> lib_is_private Y = false.
Proof.
  unfold lib_public_master. destruct (map_opt lib_check_item _); [|discriminate].
  destruct (lib_walk false X l) as [k|]; [|discriminate]. cbn [option_map].
  intros E. assert (Y = lib_public k) by congruence. subst. apply lib_public_is_public.
Qed.

(* ---------------------------------------------------------------- one call *)

Lemma op_key_public_closed k c op k' :
  lib_is_private k = false -> op_key k c op = Some k' -> lib_is_private k' = false.
Proof.
  intros Hk. destruct op; cbn [op_key].
  - apply subkey_public_closed. exact Hk.
  - destruct k; [discriminate Hk | discriminate].
  - apply lib_child_public_is_public.
  - intros E. assert (k' = lib_public k) by congruence. subst. apply lib_public_is_public.
  - rewrite public_master_from_public by exact Hk. discriminate.
  - intros E. assert (k' = k) by congruence. subst. exact Hk.
  - intros E. assert (k' = k) by congruence. subst. exact Hk.
Qed.

Lemma op_makes_public_sound k c op k' :
  op_makes_public op = true -> op_key k c op = Some k' -> lib_is_private k' = false.
Proof.
  destruct op; cbn [op_makes_public op_key]; try discriminate.
  - destruct (lib_parse_path path) as [[[|] items]|] eqn:Ep; try discriminate.
    intros _. eapply subkey_M_public. exact Ep.
  - intros _. apply lib_child_public_is_public.
  - intros _ E. assert (k' = lib_public k) by congruence. subst. apply lib_public_is_public.
  - destruct as_private; [discriminate|]. intros _. apply public_master_not_private.
Qed.

Lemma existsb_hardened l : existsb (fun i => two31 <=? i) l = true -> Exists (fun i => two31 <= i) l.
Proof.
  intros H. apply existsb_exists in H. destruct H as (i & Hin & Hi). apply Exists_exists.
  exists i. split; [exact Hin | apply Z.leb_le; exact Hi].
Qed.

Lemma op_needs_private_fails k c op :
  op_needs_private op = true -> lib_is_private k = false -> op_key k c op = None.
Proof.
  intros Hn Hk. destruct op; cbn [op_needs_private op_key] in *; try discriminate.
  - destruct (lib_parse_path path) as [pp|] eqn:Ep; [|discriminate].
    apply (hardened_from_public_fails k path pp Ep); [right; exact Hk | apply existsb_hardened; exact Hn].
  - destruct k; [discriminate Hk | reflexivity].
  - apply lib_child_public_hardened. apply Z.leb_le. exact Hn.
  - apply public_master_from_public. exact Hk.
Qed.

Lemma op_self_key k c op : op_self k op = true -> op_key k c op = Some k.
Proof.
  destruct op; cbn [op_self op_key]; try discriminate; try reflexivity.
  unfold lib_subkey_for_path.
  destruct (lib_parse_path path) as [[fp [|it r]]|]; try discriminate.
  intros H. apply negb_true_iff in H. rewrite H. reflexivity.
Qed.

Lemma op_cfg_free_key k c1 c2 op : op_cfg_free op = true -> op_key k c1 op = op_key k c2 op.
Proof. destruct op; cbn [op_cfg_free op_key]; try reflexivity. discriminate. Qed.

(* ---------------------------------------------------------------- the slots of a session *)

Definition keys (st : sstate) : list (option lkey) := map (option_map ho_key) st.

Definition slot_key (st : sstate) (n : nat) : option lkey := option_map ho_key (slot_get st n).

Lemma slot_key_keys st n :
  slot_key st n = match nth_error (keys st) n with Some (Some k) => Some k | _ => None end.
Proof.
  unfold slot_key, slot_get, keys. rewrite nth_error_map.
  destruct (nth_error st n) as [[o|]|]; reflexivity.
Qed.

Lemma keys_app st1 st2 : keys (st1 ++ st2) = keys st1 ++ keys st2.
Proof. apply map_app. Qed.

Lemma keys_length st : length (keys st) = length st.
Proof. apply map_length. Qed.

Lemma slot_set_keys st : forall n o c,
  slot_get st n = Some o -> keys (slot_set st n {| ho_key := ho_key o; ho_cfg := c |}) = keys st.
Proof.
  induction st as [|x st IH]; intros n o c; [reflexivity|].
  destruct n as [|n]; cbn [slot_set].
  - unfold slot_get. cbn [nth_error]. destruct x as [o0|]; [|discriminate].
    intros E. assert (o0 = o) by congruence. subst. reflexivity.
  - unfold slot_get. cbn [nth_error]. intros E. cbn [keys map]. f_equal. apply (IH n o c). exact E.
Qed.

Lemma slot_set_length st : forall n o, length (slot_set st n o) = length st.
Proof.
  induction st as [|x st IH]; intros n o; [reflexivity|].
  destruct n; cbn [slot_set length]; [reflexivity | rewrite IH; reflexivity].
Qed.

Lemma slot_get_set st : forall n m o,
  (n < length st)%nat -> slot_get (slot_set st n o) m = if Nat.eqb m n then Some o else slot_get st m.
Proof.
  induction st as [|x st IH]; intros n m o Hn; [cbn [length] in Hn; lia|].
  destruct n as [|n]; cbn [slot_set].
  - destruct m as [|m]; reflexivity.
  - destruct m as [|m]; [reflexivity|]. cbn [length] in Hn.
    unfold slot_get in *. cbn [nth_error]. cbn [Nat.eqb]. apply IH. lia.
Qed.

Lemma slot_get_lt st n o : slot_get st n = Some o -> (n < length st)%nat.
Proof.
  unfold slot_get. destruct (nth_error st n) eqn:E; [|discriminate]. intros _.
  apply nth_error_Some. rewrite E. discriminate.
Qed.

Lemma slot_get_app st ext n : (n < length st)%nat -> slot_get (st ++ ext) n = slot_get st n.
Proof. intros H. unfold slot_get. rewrite nth_error_app1 by exact H. reflexivity. Qed.

Lemma slot_get_app_last st x : slot_get (st ++ [x]) (length st) = x.
Proof.
  unfold slot_get. rewrite nth_error_app2 by lia. rewrite Nat.sub_diag. destruct x; reflexivity.
Qed.

(* the key a step puts into the new slot *)
Definition res_key (a : sans) : option lkey :=
  match an_result a with RNew o => Some (ho_key o) | _ => None end.

Lemma step_keys st r :
  keys (fst (session_step st r)) = keys st ++ [res_key (snd (session_step st r))].
Proof.
  unfold session_step. destruct (slot_get st (rq_slot r)) as [o|] eqn:Eg.
  - cbv zeta. destruct (op_key _ _ _) as [k'|].
    + destruct (op_self _ _); cbn [fst snd]; rewrite keys_app, (slot_set_keys st _ o _ Eg); reflexivity.
    + cbn [fst snd]. rewrite keys_app, (slot_set_keys st _ o _ Eg). reflexivity.
  - cbn [fst snd]. rewrite keys_app. reflexivity.
Qed.

Lemma step_length st r : length (fst (session_step st r)) = S (length st).
Proof. rewrite <- !keys_length, step_keys, app_length, keys_length. cbn [length]. lia. Qed.

Lemma session_run_cons st r rest :
  session_run st (r :: rest) =
  (fst (session_run (fst (session_step st r)) rest),
   snd (session_step st r) :: snd (session_run (fst (session_step st r)) rest)).
Proof.
  cbn [session_run]. destruct (session_step st r) as [st1 a]. cbn [fst snd].
  destruct (session_run st1 rest) as [st2 l]. reflexivity.
Qed.

(* a session only appends slots; the key material in the existing ones stays as it is *)
Lemma run_keys reqs : forall st,
  exists ext, keys (fst (session_run st reqs)) = keys st ++ ext /\ length ext = length reqs.
Proof.
  induction reqs as [|r rest IH]; intros st.
  - exists []. cbn [session_run fst]. rewrite app_nil_r. split; reflexivity.
  - rewrite session_run_cons. cbn [fst]. destruct (IH (fst (session_step st r))) as (ext & E & L).
    rewrite step_keys in E. exists (res_key (snd (session_step st r)) :: ext).
    rewrite E, <- app_assoc. split; [reflexivity | cbn [length]; rewrite L; reflexivity].
Qed.

Lemma run_slot_key_stable reqs st n :
  (n < length st)%nat -> slot_key (fst (session_run st reqs)) n = slot_key st n.
Proof.
  intros H. rewrite !slot_key_keys. destruct (run_keys reqs st) as (ext & E & _).
  rewrite E, nth_error_app1 by (rewrite keys_length; exact H). reflexivity.
Qed.

(* ---------------------------------------------------------------- one answer *)

Definition answer_is_function (key : option lkey) (r : sreq) (a : sans) : Prop :=
  match key with
  | None => an_target a = None /\ an_result a = RFail
  | Some k =>
      exists c, an_target a = Some {| ho_key := k; ho_cfg := c |} /\
        ans_key a = op_key k c (rq_op r) /\
        (an_result a = RSelf <-> op_self k (rq_op r) = true) /\
        (forall o, an_result a = RNew o -> ho_cfg o = c)
  end.

Lemma step_answer st r : answer_is_function (slot_key st (rq_slot r)) r (snd (session_step st r)).
Proof.
  unfold slot_key, session_step. destruct (slot_get st (rq_slot r)) as [o|] eqn:Eg; cbn [option_map].
  2:{ cbn [snd answer_is_function an_target an_result]. split; reflexivity. }
  cbv zeta. set (c := cfg_after (ho_cfg o) (rq_op r)).
  cbn [answer_is_function]. exists c.
  destruct (op_key (ho_key o) c (rq_op r)) as [k'|] eqn:Ek.
  - destruct (op_self (ho_key o) (rq_op r)) eqn:Es; cbn [snd an_target an_result].
    + split; [reflexivity|]. split.
      * unfold ans_key. cbn [an_result an_target option_map ho_key].
        rewrite (op_self_key _ c _ Es) in Ek. congruence.
      * split; [split; reflexivity | intros o0 E; discriminate E].
    + split; [reflexivity|]. split; [reflexivity|].
      split; [split; intros E; discriminate E|].
      intros o0 E. assert (o0 = {| ho_key := k'; ho_cfg := c |}) by congruence. subst. reflexivity.
  - cbn [snd an_target an_result]. split; [reflexivity|]. split; [reflexivity|].
    split; [|intros o0 E; discriminate E].
    split; [intros E; discriminate E|]. intros Es. rewrite (op_self_key _ c _ Es) in Ek. discriminate.
Qed.

Lemma run_answer reqs : forall st k r a,
  nth_error reqs k = Some r -> nth_error (snd (session_run st reqs)) k = Some a ->
  (rq_slot r < length st + k)%nat ->
  answer_is_function (slot_key (fst (session_run st reqs)) (rq_slot r)) r a /\
  slot_key (fst (session_run st reqs)) (length st + k) = res_key a.
Proof.
  induction reqs as [|q rest IH]; intros st k r a Hr Ha Hs; [destruct k; discriminate|].
  rewrite session_run_cons in *. cbn [fst snd] in *.
  destruct k as [|k]; cbn [nth_error] in Hr, Ha.
  - assert (q = r) by congruence. subst q.
    assert (a = snd (session_step st r)) by congruence. subst a.
    rewrite Nat.add_0_r in *. split.
    + rewrite run_slot_key_stable by (rewrite step_length; lia).
      assert (E : slot_key (fst (session_step st r)) (rq_slot r) = slot_key st (rq_slot r)).
      { rewrite !slot_key_keys, step_keys, nth_error_app1 by (rewrite keys_length; exact Hs). reflexivity. }
      rewrite E. apply step_answer.
    + rewrite run_slot_key_stable by (rewrite step_length; lia).
      rewrite slot_key_keys, step_keys, nth_error_app2 by (rewrite keys_length; lia).
      rewrite keys_length, Nat.sub_diag. cbn [nth_error].
      destruct (res_key (snd (session_step st r))); reflexivity.
  - specialize (IH (fst (session_step st q)) k r a Hr Ha).
    rewrite step_length in IH. replace (length st + S k)%nat with (S (length st) + k)%nat by lia.
    apply IH. lia.
Qed.

(* the statement for whole sessions *)
Lemma session_is_function X reqs k r a :
  nth_error reqs k = Some r -> nth_error (lib_session X reqs) k = Some a -> (rq_slot r <= k)%nat ->
  answer_is_function (slot_key (session_slots X reqs) (rq_slot r)) r a /\
  slot_key (session_slots X reqs) (S k) = res_key a.
Proof.
  intros Hr Ha Hs. unfold lib_session, session_slots in *.
  apply (run_answer reqs [Some X] k r a Hr Ha). cbn [length]. lia.
Qed.

Lemma session_start_key X reqs : slot_key (session_slots X reqs) O = Some (ho_key X).
Proof. unfold session_slots. rewrite run_slot_key_stable by (cbn [length]; lia). reflexivity. Qed.

(* the same request put twice to the same object gives the same key, whatever happened in between *)
Lemma session_repeatable X reqs k1 k2 r a1 a2 :
  nth_error reqs k1 = Some r -> nth_error reqs k2 = Some r ->
  nth_error (lib_session X reqs) k1 = Some a1 -> nth_error (lib_session X reqs) k2 = Some a2 ->
  (rq_slot r <= k1)%nat -> (rq_slot r <= k2)%nat -> op_cfg_free (rq_op r) = true ->
  ans_key a1 = ans_key a2.
Proof.
  intros H1 H2 A1 A2 L1 L2 Hf.
  destruct (session_is_function X reqs k1 r a1 H1 A1 L1) as [F1 _].
  destruct (session_is_function X reqs k2 r a2 H2 A2 L2) as [F2 _].
  unfold answer_is_function in *. destruct (slot_key (session_slots X reqs) (rq_slot r)) as [key|].
  - destruct F1 as (c1 & _ & E1 & _). destruct F2 as (c2 & _ & E2 & _).
    rewrite E1, E2. apply op_cfg_free_key. exact Hf.
  - destruct F1 as [T1 R1]. destruct F2 as [T2 R2]. unfold ans_key. rewrite R1, R2. reflexivity.
Qed.

(* ---------------------------------------------------------------- public-only objects *)

Definition marks_ok (st : sstate) (marks : list bool) : Prop :=
  length marks = length st /\
  forall n o, slot_get st n = Some o -> nth n marks false = true -> lib_is_private (ho_key o) = false.

Definition public_answer (r : sreq) (a : sans) : Prop :=
  (forall o, an_target a = Some o -> lib_is_private (ho_key o) = false) /\
  (forall key, ans_key a = Some key -> lib_is_private key = false) /\
  (op_needs_private (rq_op r) = true -> an_result a = RFail).

Lemma step_public st marks r :
  marks_ok st marks -> nth (rq_slot r) marks false = true -> public_answer r (snd (session_step st r)).
Proof.
  intros [Hl Hm] Hmark. unfold session_step.
  destruct (slot_get st (rq_slot r)) as [o|] eqn:Eg.
  2:{ cbn [snd]. split; [intros o E; discriminate E|]. split; [intros key E; discriminate E | reflexivity]. }
  pose proof (Hm _ _ Eg Hmark) as Hp. cbv zeta. set (c := cfg_after (ho_cfg o) (rq_op r)).
  destruct (op_key (ho_key o) c (rq_op r)) as [k'|] eqn:Ek.
  - pose proof (op_key_public_closed _ _ _ _ Hp Ek) as Hk'.
    destruct (op_self (ho_key o) (rq_op r)); cbn [snd]; unfold public_answer, ans_key; cbn [an_target an_result].
    + split; [intros o0 E; assert (o0 = {| ho_key := ho_key o; ho_cfg := c |}) by congruence; subst; exact Hp|].
      split; [cbn [option_map ho_key]; intros key E; assert (key = ho_key o) by congruence; subst; exact Hp|].
      intros Hn. rewrite (op_needs_private_fails _ c _ Hn Hp) in Ek. discriminate.
    + split; [intros o0 E; assert (o0 = {| ho_key := ho_key o; ho_cfg := c |}) by congruence; subst; exact Hp|].
      split; [cbn [ho_key]; intros key E; assert (key = k') by congruence; subst; exact Hk'|].
      intros Hn. rewrite (op_needs_private_fails _ c _ Hn Hp) in Ek. discriminate.
  - cbn [snd]. unfold public_answer, ans_key; cbn [an_target an_result].
    split; [intros o0 E; assert (o0 = {| ho_key := ho_key o; ho_cfg := c |}) by congruence; subst; exact Hp|].
    split; [intros key E; discriminate E | reflexivity].
Qed.

Lemma step_marks_ok st marks r :
  marks_ok st marks ->
  marks_ok (fst (session_step st r)) (marks ++ [op_makes_public (rq_op r) || nth (rq_slot r) marks false]).
Proof.
  intros [Hl Hm]. split; [rewrite step_length, app_length; cbn [length]; lia|].
  intros n o. unfold session_step.
  destruct (slot_get st (rq_slot r)) as [t|] eqn:Eg.
  2:{ cbn [fst]. intros E Hn.
      assert (Hlt : (n < length st)%nat).
      { pose proof (slot_get_lt _ _ _ E) as Hb. rewrite app_length in Hb. cbn [length] in Hb.
        destruct (Nat.eq_dec n (length st)) as [->|]; [|lia].
        rewrite slot_get_app_last in E. discriminate. }
      rewrite slot_get_app in E by exact Hlt. rewrite app_nth1 in Hn by lia. eapply Hm; eassumption. }
  pose proof (slot_get_lt _ _ _ Eg) as Hs. cbv zeta. set (c := cfg_after (ho_cfg t) (rq_op r)).
  set (t' := {| ho_key := ho_key t; ho_cfg := c |}).
  assert (Hold : forall x, (n < length st)%nat ->
            slot_get (slot_set st (rq_slot r) t' ++ [x]) n = Some o ->
            nth n (marks ++ [op_makes_public (rq_op r) || nth (rq_slot r) marks false]) false = true ->
            lib_is_private (ho_key o) = false).
  { intros x Hlt E Hn. rewrite slot_get_app in E by (rewrite slot_set_length; exact Hlt).
    rewrite slot_get_set in E by exact Hs. rewrite app_nth1 in Hn by lia.
    destruct (Nat.eqb_spec n (rq_slot r)) as [->|Hne].
    - assert (o = t') by congruence. subst o. unfold t'. cbn [ho_key]. exact (Hm _ _ Eg Hn).
    - eapply Hm; eassumption. }
  assert (Hlast : forall x, slot_get (slot_set st (rq_slot r) t' ++ [x]) (length st) = x).
  { intros x. rewrite <- (slot_set_length st (rq_slot r) t'). apply slot_get_app_last. }
  assert (Hcases : forall x, slot_get (slot_set st (rq_slot r) t' ++ [x]) n = Some o ->
            (n < length st)%nat \/ (n = length st /\ x = Some o)).
  { intros x E. pose proof (slot_get_lt _ _ _ E) as Hlt. rewrite app_length, slot_set_length in Hlt.
    cbn [length] in Hlt. destruct (Nat.eq_dec n (length st)) as [->|]; [|left; lia].
    right. split; [reflexivity|]. rewrite Hlast in E. exact E. }
  destruct (op_key (ho_key t) c (rq_op r)) as [k'|] eqn:Ek.
  - destruct (op_self (ho_key t) (rq_op r)); cbn [fst]; intros E Hn.
    + destruct (Hcases _ E) as [Hlt|[_ Hx]]; [eapply Hold; eassumption | discriminate Hx].
    + destruct (Hcases _ E) as [Hlt|[-> Hx]]; [eapply Hold; eassumption|].
      assert (o = {| ho_key := k'; ho_cfg := c |}) by congruence. subst o. cbn [ho_key].
      rewrite app_nth2, Hl, Nat.sub_diag in Hn by lia. cbn [nth] in Hn.
      apply orb_true_iff in Hn. destruct Hn as [Hn|Hn].
      * eapply op_makes_public_sound; eassumption.
      * eapply op_key_public_closed; [|exact Ek]. eapply Hm; eassumption.
  - cbn [fst]. intros E Hn.
    destruct (Hcases _ E) as [Hlt|[_ Hx]]; [eapply Hold; eassumption | discriminate Hx].
Qed.

Lemma public_marks_prefix reqs : forall marks n,
  (n < length marks)%nat -> nth n (public_marks marks reqs) false = nth n marks false.
Proof.
  induction reqs as [|r rest IH]; intros marks n H; cbn [public_marks]; [reflexivity|].
  rewrite IH by (rewrite app_length; cbn [length]; lia). apply app_nth1. exact H.
Qed.

Lemma public_marks_step reqs : forall marks k r,
  nth_error reqs k = Some r -> (rq_slot r < length marks + k)%nat ->
  nth (length marks + k) (public_marks marks reqs) false =
  op_makes_public (rq_op r) || nth (rq_slot r) (public_marks marks reqs) false.
Proof.
  induction reqs as [|q rest IH]; intros marks k r Hr Hs; [destruct k; discriminate|].
  cbn [public_marks]. set (m1 := marks ++ [op_makes_public (rq_op q) || nth (rq_slot q) marks false]).
  assert (L1 : length m1 = S (length marks)) by (unfold m1; rewrite app_length; cbn [length]; lia).
  destruct k as [|k]; cbn [nth_error] in Hr.
  - assert (q = r) by congruence. subst q. rewrite Nat.add_0_r in *.
    rewrite !public_marks_prefix by lia.
    unfold m1. rewrite app_nth2 by lia. rewrite Nat.sub_diag. cbn [nth].
    rewrite app_nth1 by exact Hs. reflexivity.
  - replace (length marks + S k)%nat with (length m1 + k)%nat by lia.
    apply IH; [exact Hr | lia].
Qed.

Lemma run_public reqs : forall st marks k r a,
  marks_ok st marks ->
  nth_error reqs k = Some r -> nth_error (snd (session_run st reqs)) k = Some a ->
  (rq_slot r < length st + k)%nat ->
  nth (rq_slot r) (public_marks marks reqs) false = true ->
  public_answer r a.
Proof.
  induction reqs as [|q rest IH]; intros st marks k r a Hok Hr Ha Hs Hm; [destruct k; discriminate|].
  rewrite session_run_cons in Ha. cbn [snd] in Ha. cbn [public_marks] in Hm.
  destruct k as [|k]; cbn [nth_error] in Hr, Ha.
  - assert (q = r) by congruence. subst q.
    assert (a = snd (session_step st r)) by congruence. subst a.
    rewrite Nat.add_0_r in Hs. destruct Hok as [Hl Hk].
    rewrite public_marks_prefix in Hm by (rewrite app_length; cbn [length]; lia).
    rewrite app_nth1 in Hm by lia.
    apply (step_public st marks r (conj Hl Hk) Hm).
  - apply (IH (fst (session_step st q)) _ k r a (step_marks_ok st marks q Hok) Hr Ha).
    + rewrite step_length. lia.
    + exact Hm.
Qed.

Lemma start_marks_ok X : marks_ok [Some X] [negb (lib_is_private (ho_key X))].
Proof.
  split; [reflexivity|]. intros n o. destruct n as [|n].
  - unfold slot_get. cbn [nth_error nth]. intros E H. assert (o = X) by congruence. subst.
    apply negb_true_iff. exact H.
  - unfold slot_get. cbn [nth_error]. destruct n; discriminate.
Qed.

Lemma session_public X reqs k r a :
  nth_error reqs k = Some r -> nth_error (lib_session X reqs) k = Some a -> (rq_slot r <= k)%nat ->
  nth (rq_slot r) (session_public_marks X reqs) false = true ->
  public_answer r a.
Proof.
  intros Hr Ha Hs Hm. unfold lib_session, session_public_marks in *.
  apply (run_public reqs [Some X] _ k r a (start_marks_ok X) Hr Ha); [cbn [length]; lia | exact Hm].
Qed.

(* how the marks are computed: slot 0 is marked when the start object is public-only; the slot of request k is
   marked when the call produces public-only objects or the object it was put to is marked *)
Lemma session_marks_spec X reqs :
  nth O (session_public_marks X reqs) false = negb (lib_is_private (ho_key X)) /\
  forall k r, nth_error reqs k = Some r -> (rq_slot r <= k)%nat ->
    nth (S k) (session_public_marks X reqs) false =
    op_makes_public (rq_op r) || nth (rq_slot r) (session_public_marks X reqs) false.
Proof.
  unfold session_public_marks. split.
  - rewrite public_marks_prefix by (cbn [length]; lia). reflexivity.
  - intros k r Hr Hs.
    apply (public_marks_step reqs [negb (lib_is_private (ho_key X))] k r Hr). cbn [length]. lia.
Qed.
