(* Proofs/AmountSession.v — conversions in sequence: every answer of a session is the stand-alone answer,
   whatever was converted before; observations of a Value object do not change it; add_output(Value). *)
From Coq Require Import ZArith List Bool String Lia.
From Coq Require Import Floats.PrimFloat Floats.SpecFloat Floats.FloatOps.
From Verif Require Import Lib.Bytes Float.DecRound Float.B64 Model.Amount Model.AmountSession
  Proofs.AmountDecRound Proofs.AmountFloat Proofs.Amount Proofs.AmountString Proofs.AmountTheorems.
Import ListNotations.
Open Scope Z_scope.

Lemma conv_session_app (a b : list conv_req) : lib_conv_session (a ++ b) = lib_conv_session a ++ lib_conv_session b.
Proof. apply map_app. Qed.

(* the answer to a request does not depend on the requests answered before or after it *)
Lemma conv_session_independent (pre : list conv_req) r post d :
  nth (List.length pre) (lib_conv_session (pre ++ r :: post)) d = lib_conv r.
Proof.
  rewrite conv_session_app. rewrite app_nth2; unfold lib_conv_session; rewrite map_length; [|lia].
  rewrite Nat.sub_diag. reflexivity.
Qed.

Lemma conv_session_length (l : list conv_req) : List.length (lib_conv_session l) = List.length l.
Proof. apply map_length. Qed.

(* every amount of the supply, written in main units with eight decimals, converts exactly at ANY position *)
Lemma conv_session_btc_exact (pre post : list conv_req) n d : 0 <= n <= 21 * 10 ^ 14 ->
  nth (List.length pre) (lib_conv_session (pre ++ CVts (fmt_fixed false n 8 ++ 32 :: [66; 84; 67]) None :: post)) d = AZ (Ok n).
Proof. intros H. rewrite conv_session_independent. cbn [lib_conv]. f_equal. exact (btc_string n H). Qed.

Lemma conv_session_sat_exact (pre post : list conv_req) n d : 0 <= n <= 21 * 10 ^ 14 ->
  nth (List.length pre) (lib_conv_session (pre ++ CVts (dec_digits n ++ 32 :: [115; 97; 116]) None :: post)) d = AZ (Ok n).
Proof. intros H. rewrite conv_session_independent. cbn [lib_conv]. f_equal. exact (sat_string n H). Qed.

(* ---- one Value object ---- *)
Lemma observation_keeps_object v o : is_observation o = true -> vop_next v o = Ok v.
Proof. intros H. unfold vop_next. rewrite H. reflexivity. Qed.

Lemma vsession_observations_transparent v : forall obs ops,
  forallb is_observation obs = true ->
  lib_vsession v (obs ++ ops) = map (vop_answer v) obs ++ lib_vsession v ops.
Proof.
  induction obs as [|o r IH]; intros ops H; [reflexivity|].
  cbn [forallb] in H. apply andb_true_iff in H. destruct H as [Ho Hr].
  rewrite <- app_comm_cons. cbn [lib_vsession map]. rewrite (observation_keeps_object v o Ho).
  rewrite (IH ops Hr). reflexivity.
Qed.

(* value_sat read at any point among other observations is the value_sat of the object *)
Lemma vsession_sat_stable v (obs1 obs2 : list vop) d :
  forallb is_observation obs1 = true ->
  nth (List.length obs1) (lib_vsession v (obs1 ++ VSat :: obs2)) d = RSat (lib_value_sat v).
Proof.
  intros H. rewrite (vsession_observations_transparent v obs1 (VSat :: obs2) H).
  rewrite app_nth2; rewrite map_length; [|lia]. rewrite Nat.sub_diag. reflexivity.
Qed.

(* ---- add_output(Value): the repaired code stores value_sat ---- *)
Lemma add_output_value_repaired v name o :
  lib_add_output_value true v name = Ok o ->
  exists z, o = NInt z /\ lib_value_sat v = Ok z /\ str_eqb (n_name (v_net v)) name = true.
Proof.
  unfold lib_add_output_value. destruct (str_eqb (n_name (v_net v)) name) eqn:N; [|discriminate].
  destruct (lib_value_sat v) as [z|]; [|discriminate].
  unfold lib_add_output. destruct (b64_of_Z z); [|discriminate]. destruct (b64_is_integer f); [|discriminate].
  unfold lib_output_value. destruct (find_by_name name); [|discriminate].
  intros H. injection H as <-. exists z. repeat split; reflexivity.
Qed.
