(* Proofs/Bip39Spec.v — BIP39 as specified: decode (encode ent) = ent, every accepted sentence is the sentence of
   its entropy, for an arbitrary hash with 32-byte output. *)
From Coq Require Import ZArith List Bool Lia.
From Coq.Strings Require Import Byte.
From Verif Require Import Lib.Bytes Lib.BitRegroup Model.ChangeBase Model.Bip39 Proofs.ChangeBase.
Import ListNotations.
Open Scope Z_scope.

Lemma zlist_eqb_true a : forall b, zlist_eqb a b = true <-> a = b.
Proof.
  induction a as [|x a IH]; intros [|y b]; simpl; split; intros E; try reflexivity; try discriminate.
  - apply andb_true_iff in E. destruct E as [E1 E2]. apply Z.eqb_eq in E1. apply IH in E2. congruence.
  - inversion E; subst. rewrite Z.eqb_refl. simpl. apply IH. reflexivity.
Qed.

Lemma bytes_to_bits_length b : length (bytes_to_bits b) = (8 * length b)%nat.
Proof. unfold bytes_to_bits. rewrite unpack_length, map_length. reflexivity. Qed.

Lemma bytes_to_bits_in_base b : in_base 2 (bytes_to_bits b).
Proof. apply unpack_in_base. Qed.

Lemma bits_to_bytes_to_bits b : bits_to_bytes (bytes_to_bits b) = b.
Proof.
  unfold bits_to_bytes. rewrite bytes_to_bits_length.
  rewrite Nat.mul_comm, Nat.div_mul by lia. unfold bytes_to_bits.
  rewrite <- (map_length bz b), <- (app_nil_r (unpack 8 (map bz b))).
  rewrite groups_unpack by apply map_bz_in_base. apply map_zb_bz.
Qed.

Lemma bytes_to_bits_to_bytes bits m : in_base 2 bits -> length bits = (m * 8)%nat ->
  bytes_to_bits (bits_to_bytes bits) = bits /\ length (bits_to_bytes bits) = m.
Proof.
  intros Hb Hl. unfold bits_to_bytes, bytes_to_bits. rewrite Hl, Nat.div_mul by lia.
  rewrite map_length, groups_length. split; [|reflexivity].
  rewrite map_bz_zb by (apply (groups_in_base 8), Hb). apply unpack_groups; assumption.
Qed.

Lemma forallb_idx_ok l : forallb idx_ok l = true <-> in_base 2048 l.
Proof.
  unfold in_base. rewrite forallb_forall, Forall_forall. unfold idx_ok.
  split; intros Hx x Hi; specialize (Hx x Hi).
  - apply andb_true_iff in Hx. destruct Hx as [A B]. apply Z.leb_le in A. apply Z.ltb_lt in B. lia.
  - apply andb_true_iff. split; [apply Z.leb_le | apply Z.ltb_lt]; lia.
Qed.

Section Spec.
  Variable H : bytes -> bytes.
  Hypothesis H_len : forall x, length (H x) = 32%nat.

  (* the ENT+CS bit string of an entropy of 4k bytes *)
  Lemma spec_bits ent k : length ent = (4 * k)%nat -> (k <= 256)%nat ->
    (length ent * 8 / 32 = k)%nat /\
    length (firstn k (bytes_to_bits (H ent))) = k /\
    length (bytes_to_bits ent ++ firstn k (bytes_to_bits (H ent))) = (3 * k * 11)%nat /\
    in_base 2 (bytes_to_bits ent ++ firstn k (bytes_to_bits (H ent))).
  Proof.
    intros Hl Hk.
    assert (E1 : (length ent * 8 / 32 = k)%nat).
    { rewrite Hl. replace (4 * k * 8)%nat with (k * 32)%nat by lia. apply Nat.div_mul. lia. }
    assert (E2 : length (firstn k (bytes_to_bits (H ent))) = k).
    { rewrite firstn_length, bytes_to_bits_length, H_len. lia. }
    repeat split; try assumption.
    - rewrite app_length, E2, bytes_to_bits_length, Hl. lia.
    - apply in_base_app. split; [apply bytes_to_bits_in_base | apply in_base_firstn, bytes_to_bits_in_base].
  Qed.

  Lemma spec_to_indices_eq ent k : length ent = (4 * k)%nat -> (k <= 256)%nat ->
    spec_to_indices H ent = groups 11 (3 * k) (bytes_to_bits ent ++ firstn k (bytes_to_bits (H ent))).
  Proof.
    intros Hl Hk. destruct (spec_bits ent k Hl Hk) as [E1 [E2 [E3 E4]]].
    unfold spec_to_indices. rewrite E1, E3, Nat.div_mul by lia. reflexivity.
  Qed.

  Lemma spec_roundtrip_k ent k : length ent = (4 * k)%nat -> (k <= 256)%nat -> valid_ms (3 * k) = true ->
    spec_to_entropy H (spec_to_indices H ent) = Some ent /\
    in_base 2048 (spec_to_indices H ent) /\ length (spec_to_indices H ent) = (3 * k)%nat.
  Proof.
    intros Hl Hk Hv. destruct (spec_bits ent k Hl Hk) as [E1 [E2 [E3 E4]]].
    rewrite (spec_to_indices_eq ent k Hl Hk).
    set (bits := bytes_to_bits ent ++ firstn k (bytes_to_bits (H ent))) in *.
    pose proof (groups_in_base 11 (3 * k) bits E4) as HG. change (2 ^ Z.of_nat 11) with 2048 in HG.
    split; [|split; [exact HG | apply groups_length]].
    unfold spec_to_entropy. rewrite groups_length, Hv. cbn [negb].
    apply forallb_idx_ok in HG. rewrite HG. cbn [negb].
    rewrite unpack_groups by assumption.
    replace (3 * k / 3)%nat with k by (rewrite Nat.mul_comm, Nat.div_mul; lia).
    replace (3 * k * 11 - k)%nat with (length (bytes_to_bits ent)) by (rewrite bytes_to_bits_length; lia).
    unfold bits. rewrite firstn_app_exact, skipn_app_exact by reflexivity.
    rewrite bits_to_bytes_to_bits.
    assert (Hz : zlist_eqb (firstn k (bytes_to_bits (H ent))) (firstn k (bytes_to_bits (H ent))) = true)
      by (apply zlist_eqb_true; reflexivity).
    rewrite Hz. reflexivity.
  Qed.

  Theorem spec_roundtrip ent : valid_ent_len (length ent) ->
    spec_to_entropy H (spec_to_indices H ent) = Some ent /\
    in_base 2048 (spec_to_indices H ent) /\
    (length (spec_to_indices H ent) = length ent * 3 / 4)%nat /\
    valid_ms (length (spec_to_indices H ent)) = true.
  Proof.
    intros Hv.
    assert (Hk : exists k, length ent = (4 * k)%nat /\ (k <= 256)%nat /\ valid_ms (3 * k) = true).
    { destruct Hv as [E|[E|[E|[E|E]]]];
        [exists 4%nat | exists 5%nat | exists 6%nat | exists 7%nat | exists 8%nat]; rewrite E; repeat split; lia. }
    destruct Hk as [k [Hl [Hk Hms]]].
    destruct (spec_roundtrip_k ent k Hl Hk Hms) as [A [B C]].
    repeat split; try assumption.
    - rewrite C, Hl. replace (4 * k * 3)%nat with (3 * k * 4)%nat by lia. rewrite Nat.div_mul; lia.
    - rewrite C. exact Hms.
  Qed.
End Spec.

(* acceptance is canonical: needs nothing about H *)
Theorem spec_accept_canonical H idxs ent :
  spec_to_entropy H idxs = Some ent -> idxs = spec_to_indices H ent /\ valid_ent_len (length ent).
Proof.
  unfold spec_to_entropy. intros Ha.
  destruct (valid_ms (length idxs)) eqn:Hv; [|discriminate]. cbn [negb] in Ha.
  destruct (forallb idx_ok idxs) eqn:Hf; [|discriminate]. cbn [negb] in Ha.
  apply forallb_idx_ok in Hf.
  assert (Hk : exists k, length idxs = (3 * k)%nat /\ (4 <= k <= 8)%nat).
  { unfold valid_ms in Hv. repeat (apply orb_true_iff in Hv; destruct Hv as [Hv|Hv]);
      apply Nat.eqb_eq in Hv; [exists 4%nat | exists 5%nat | exists 6%nat | exists 7%nat | exists 8%nat]; lia. }
  destruct Hk as [k [Hn Hk]]. rewrite Hn in Ha.
  replace (3 * k / 3)%nat with k in Ha by (rewrite Nat.mul_comm, Nat.div_mul; lia).
  replace (3 * k * 11 - k)%nat with (4 * k * 8)%nat in Ha by lia.
  set (bits := unpack 11 idxs) in *.
  assert (Hbl : length bits = (3 * k * 11)%nat) by (unfold bits; rewrite unpack_length; lia).
  assert (Hbb : in_base 2 bits) by apply unpack_in_base.
  set (F := firstn (4 * k * 8) bits) in *.
  destruct (zlist_eqb (skipn (4 * k * 8) bits) (firstn k (bytes_to_bits (H (bits_to_bytes F))))) eqn:Hz; [|discriminate].
  apply zlist_eqb_true in Hz.
  assert (ent = bits_to_bytes F) by congruence. subst ent.
  assert (HFl : length F = (4 * k * 8)%nat) by (unfold F; rewrite firstn_length; lia).
  destruct (bytes_to_bits_to_bytes F (4 * k) (in_base_firstn 2 _ _ Hbb) HFl) as [Hrt Hlen].
  split.
  - unfold spec_to_indices. rewrite Hrt, Hlen.
    replace (4 * k * 8 / 32)%nat with k by (replace (4 * k * 8)%nat with (k * 32)%nat by lia; rewrite Nat.div_mul; lia).
    rewrite <- Hz. unfold F. rewrite firstn_skipn, Hbl, Nat.div_mul by lia.
    unfold bits. rewrite <- Hn, <- (app_nil_r (unpack 11 idxs)). symmetry. apply groups_unpack. exact Hf.
  - rewrite Hlen. unfold valid_ent_len. lia.
Qed.

(* checksum mismatch => rejected, in the direct form *)
Corollary spec_reject_noncanonical H idxs :
  (forall ent, idxs <> spec_to_indices H ent) -> spec_to_entropy H idxs = None.
Proof.
  intros Hn. destruct (spec_to_entropy H idxs) as [e|] eqn:E; [|reflexivity].
  apply spec_accept_canonical in E. destruct E as [E _]. exfalso. exact (Hn e E).
Qed.
