(* Proofs/Base58.v — Base58 is a bijection between byte strings and alphabet strings;
   the repaired change_base is the strict decoder (plus left padding). *)
From Coq Require Import ZArith List Bool Lia.
From Coq.Strings Require Import Byte.
From Verif Require Import Lib.Bytes Gen.GenConsts Model.Base58.
Import ListNotations.
Open Scope Z_scope.

(* ------------------------------------------------------------------ small list facts *)
Lemma rev_repeat_eq {A} (a : A) n : rev (repeat a n) = repeat a n.
Proof.
  induction n as [|n IH]; [reflexivity|].
  cbn [repeat rev]. rewrite IH. symmetry. apply repeat_cons.
Qed.

Lemma map_repeat_eq {A B} (f : A -> B) a n : map f (repeat a n) = repeat (f a) n.
Proof. induction n as [|n IH]; [reflexivity|]. cbn [repeat map]. rewrite IH. reflexivity. Qed.

Lemma skipn_repeat_app {A} (a : A) n l : skipn n (repeat a n ++ l) = l.
Proof. induction n as [|n IH]; [reflexivity|]. exact IH. Qed.

Lemma lead_count_firstn {A} (p : A -> bool) l :
  Forall (fun x => p x = true) (firstn (lead_count p l) l).
Proof.
  induction l as [|x l IH]; [constructor|].
  cbn [lead_count]. destruct (p x) eqn:E; [|constructor].
  cbn [firstn]. constructor; assumption.
Qed.

Lemma lead_count_skipn {A} (p : A -> bool) l :
  match skipn (lead_count p l) l with [] => True | x :: _ => p x = false end.
Proof.
  induction l as [|x l IH]; [exact I|].
  cbn [lead_count]. destruct (p x) eqn:E; [exact IH | exact E].
Qed.

Lemma lead_count_repeat_app {A} (p : A -> bool) a n l :
  p a = true -> match l with [] => True | x :: _ => p x = false end ->
  lead_count p (repeat a n ++ l) = n.
Proof.
  intros Ha Hl. induction n as [|n IH].
  - destruct l as [|x l]; [reflexivity|]. cbn [repeat app lead_count]. rewrite Hl. reflexivity.
  - cbn [repeat app lead_count]. rewrite Ha, IH. reflexivity.
Qed.

Lemma zero_prefix_bytes l :
  Forall (fun x => is_zero_byte x = true) l -> l = repeat x00 (length l).
Proof.
  induction 1 as [|x l Hx _ IH]; [reflexivity|].
  cbn [length repeat]. apply beq_true in Hx. subst x. f_equal. exact IH.
Qed.

Lemma zero_prefix_Z l :
  Forall (fun d => (d =? 0) = true) l -> l = repeat 0 (length l).
Proof.
  induction 1 as [|x l Hx _ IH]; [reflexivity|].
  cbn [length repeat]. apply Z.eqb_eq in Hx. subst x. f_equal. exact IH.
Qed.

(* split a list at its leading run *)
Lemma lead_split_bytes bs :
  let z := lead_count is_zero_byte bs in
  bs = repeat x00 z ++ skipn z bs /\
  match skipn z bs with [] => True | b :: _ => b <> x00 end.
Proof.
  intro z. split.
  - rewrite <- (firstn_skipn z bs) at 1. f_equal.
    pose proof (zero_prefix_bytes _ (lead_count_firstn is_zero_byte bs)) as H.
    fold z in H. rewrite H. f_equal.
    rewrite firstn_length. apply Nat.min_l.
    clear. subst z. induction bs as [|x l IH]; [apply le_n|].
    cbn [lead_count length]. destruct (is_zero_byte x); [apply le_n_S, IH | apply Nat.le_0_l].
  - pose proof (lead_count_skipn is_zero_byte bs) as H. fold z in H.
    destruct (skipn z bs) as [|b r]; [exact I|].
    intro E. subst b. discriminate H.
Qed.

Lemma lead_split_Z ds :
  let z := lead_count (fun d => d =? 0) ds in
  ds = repeat 0 z ++ skipn z ds /\
  match skipn z ds with [] => True | d :: _ => d <> 0 end.
Proof.
  intro z. split.
  - rewrite <- (firstn_skipn z ds) at 1. f_equal.
    pose proof (zero_prefix_Z _ (lead_count_firstn (fun d => d =? 0) ds)) as H.
    fold z in H. rewrite H. f_equal.
    rewrite firstn_length. apply Nat.min_l.
    clear. subst z. induction ds as [|x l IH]; [apply le_n|].
    cbn [lead_count length]. destruct (x =? 0); [apply le_n_S, IH | apply Nat.le_0_l].
  - pose proof (lead_count_skipn (fun d => d =? 0) ds) as H. fold z in H.
    destruct (skipn z ds) as [|d r]; [exact I|].
    apply Z.eqb_neq. exact H.
Qed.

(* ------------------------------------------------------------------ positional digits *)
Section Digits.
Variable base : Z.
Hypothesis Hbase : 2 <= base.

Fixpoint norm_le (ds : list Z) : Prop :=
  match ds with
  | [] => True
  | d :: r => 0 <= d < base /\ (match r with [] => d <> 0 | _ => True end) /\ norm_le r
  end.

Lemma digits_le_value fuel : forall n,
  0 <= n < 2 ^ Z.of_nat fuel -> value_le base (digits_le base fuel n) = n.
Proof.
  induction fuel as [|f IH]; intros n Hn.
  - change (2 ^ Z.of_nat 0) with 1 in Hn. cbn [digits_le value_le]. lia.
  - cbn [digits_le]. destruct (n <=? 0) eqn:E.
    + apply Z.leb_le in E. cbn [value_le]. lia.
    + apply Z.leb_gt in E. cbn [value_le].
      rewrite Nat2Z.inj_succ, Z.pow_succ_r in Hn by lia.
      rewrite IH.
      * pose proof (Z.div_mod n base ltac:(lia)). lia.
      * split; [apply Z.div_pos; lia|].
        apply Z.div_lt_upper_bound; [lia|].
        assert (0 < 2 ^ Z.of_nat f) by (apply Z.pow_pos_nonneg; lia). nia.
Qed.

Lemma digits_le_nil fuel n :
  0 <= n < 2 ^ Z.of_nat fuel -> digits_le base fuel n = [] -> n = 0.
Proof.
  destruct fuel as [|f]; intros Hn H.
  - change (2 ^ Z.of_nat 0) with 1 in Hn. lia.
  - cbn [digits_le] in H. destruct (n <=? 0) eqn:E; [apply Z.leb_le in E; lia | discriminate].
Qed.

Lemma digits_le_norm fuel : forall n,
  0 <= n < 2 ^ Z.of_nat fuel -> norm_le (digits_le base fuel n).
Proof.
  induction fuel as [|f IH]; intros n Hn; [exact I|].
  cbn [digits_le]. destruct (n <=? 0) eqn:E; [exact I|].
  apply Z.leb_gt in E.
  rewrite Nat2Z.inj_succ, Z.pow_succ_r in Hn by lia.
  assert (Hq : 0 <= n / base < 2 ^ Z.of_nat f).
  { split; [apply Z.div_pos; lia|]. apply Z.div_lt_upper_bound; [lia|].
    assert (0 < 2 ^ Z.of_nat f) by (apply Z.pow_pos_nonneg; lia). nia. }
  cbn [norm_le]. split; [apply Z.mod_pos_bound; lia|]. split; [|apply IH; exact Hq].
  destruct (digits_le base f (n / base)) eqn:D; [|exact I].
  apply digits_le_nil in D; [|exact Hq].
  pose proof (Z.div_mod n base ltac:(lia)). lia.
Qed.

Lemma norm_value_nonneg ds : norm_le ds -> 0 <= value_le base ds.
Proof.
  induction ds as [|d r IH]; intros H; cbn [value_le]; [lia|].
  destruct H as (Hd & _ & Hr). specialize (IH Hr). nia.
Qed.

Lemma norm_value_pos ds : norm_le ds -> ds <> [] -> 0 < value_le base ds.
Proof.
  induction ds as [|d r IH]; intros H Hne; [congruence|].
  destruct H as (Hd & Hl & Hr). cbn [value_le].
  destruct r as [|e r'].
  - cbn [value_le]. lia.
  - assert (0 < value_le base (e :: r')) by (apply IH; [exact Hr | discriminate]). nia.
Qed.

Lemma digits_le_of_value ds : forall fuel,
  norm_le ds -> value_le base ds < 2 ^ Z.of_nat fuel ->
  digits_le base fuel (value_le base ds) = ds.
Proof.
  induction ds as [|d r IH]; intros fuel Hn Hv.
  - destruct fuel; reflexivity.
  - assert (Hpos : 0 < value_le base (d :: r)) by (apply norm_value_pos; [exact Hn | discriminate]).
    destruct Hn as (Hd & Hl & Hr).
    pose proof (norm_value_nonneg r Hr) as Hr0.
    destruct fuel as [|f].
    { change (2 ^ Z.of_nat 0) with 1 in Hv. lia. }
    cbn [digits_le]. destruct (value_le base (d :: r) <=? 0) eqn:E; [apply Z.leb_le in E; lia|].
    cbn [value_le] in *.
    assert (Hm : (d + base * value_le base r) mod base = d).
    { replace (d + base * value_le base r) with (d + value_le base r * base) by ring.
      rewrite Z.mod_add by lia. apply Z.mod_small. lia. }
    assert (Hq : (d + base * value_le base r) / base = value_le base r).
    { replace (d + base * value_le base r) with (value_le base r * base + d) by ring.
      rewrite Z.div_add_l by lia. rewrite Z.div_small by lia. lia. }
    rewrite Hm, Hq. f_equal. apply IH; [exact Hr|].
    rewrite Nat2Z.inj_succ, Z.pow_succ_r in Hv by lia. nia.
Qed.

Lemma value_le_app a b :
  value_le base (a ++ b) = value_le base a + base ^ Z.of_nat (length a) * value_le base b.
Proof.
  induction a as [|x a IH]; cbn [app value_le length].
  - change (base ^ Z.of_nat 0) with 1. lia.
  - rewrite IH, Nat2Z.inj_succ, Z.pow_succ_r by lia. ring.
Qed.

Lemma value_le_zeros n : value_le base (repeat 0 n) = 0.
Proof. induction n as [|n IH]; cbn [repeat value_le]; [reflexivity | rewrite IH; lia]. Qed.

Lemma norm_le_snoc l a :
  Forall (fun d => 0 <= d < base) l -> 0 <= a < base -> a <> 0 -> norm_le (l ++ [a]).
Proof.
  intros Hl Ha Hne. induction Hl as [|x l Hx _ IH]; cbn [app norm_le].
  - repeat split; try lia.
  - split; [exact Hx|]. split; [|exact IH]. destruct (l ++ [a]) eqn:E; [|exact I].
    destruct l; discriminate E.
Qed.

Lemma norm_le_range l : norm_le l -> Forall (fun d => 0 <= d < base) l.
Proof.
  induction l as [|x l IH]; intros H; constructor.
  - apply H.
  - apply IH. apply H.
Qed.

Lemma norm_le_last l a : norm_le (l ++ [a]) -> a <> 0.
Proof.
  induction l as [|x l IH]; cbn [app norm_le].
  - intros (_ & H & _). exact H.
  - intros (_ & _ & H). apply IH. exact H.
Qed.

End Digits.

Lemma digit_fuel_ok n : 0 <= n -> n < 2 ^ Z.of_nat (digit_fuel n).
Proof.
  intros Hn. unfold digit_fuel.
  rewrite Nat2Z.inj_succ, Z2Nat.id by apply Z.log2_nonneg.
  destruct (Z.eq_dec n 0) as [->|Hz]; [reflexivity|].
  apply Z.log2_spec. lia.
Qed.

(* digits_be: value, range, no leading zero *)
Lemma digits_be_value base n : 2 <= base -> 0 <= n -> value_le base (rev (digits_be base n)) = n.
Proof.
  intros Hb Hn. unfold digits_be. rewrite rev_involutive.
  apply digits_le_value; [exact Hb|]. split; [exact Hn | apply digit_fuel_ok; exact Hn].
Qed.

Lemma digits_be_range base n : 2 <= base -> 0 <= n -> Forall (fun d => 0 <= d < base) (digits_be base n).
Proof.
  intros Hb Hn. unfold digits_be. apply Forall_rev. apply norm_le_range.
  apply digits_le_norm; [exact Hb|]. split; [exact Hn | apply digit_fuel_ok; exact Hn].
Qed.

Lemma digits_be_head base n : 2 <= base -> 0 <= n ->
  match digits_be base n with [] => True | d :: _ => d <> 0 end.
Proof.
  intros Hb Hn. unfold digits_be.
  pose proof (digits_le_norm base Hb (digit_fuel n) n (conj Hn (digit_fuel_ok n Hn))) as H.
  destruct (digits_le base (digit_fuel n) n) as [|x l] using rev_ind; [exact I|].
  rewrite rev_app_distr. cbn [rev app]. eapply norm_le_last. exact H.
Qed.

Lemma digits_be_of_value base ds : 2 <= base ->
  Forall (fun d => 0 <= d < base) ds -> match ds with [] => True | d :: _ => d <> 0 end ->
  digits_be base (value_le base (rev ds)) = ds.
Proof.
  intros Hb Hr Hh. unfold digits_be.
  assert (Hn : norm_le base (rev ds)).
  { destruct ds as [|d r]; [exact I|]. cbn [rev]. apply norm_le_snoc.
    - apply Forall_rev. inversion Hr; assumption.
    - inversion Hr; assumption.
    - exact Hh. }
  rewrite digits_le_of_value; [apply rev_involutive | exact Hb | exact Hn |].
  apply digit_fuel_ok. apply norm_value_nonneg; [exact Hb | exact Hn].
Qed.

(* ------------------------------------------------------------------ shortest big-endian bytes *)
Lemma of_be_min_be n : 0 <= n -> of_be (min_be n) = n.
Proof.
  intros Hn. unfold min_be. apply of_be_be_bytes_small. split; [exact Hn | apply byte_len_bound; exact Hn].
Qed.

Lemma byte_len_unique n k :
  0 < n -> 256 ^ (Z.of_nat k - 1) <= n < 256 ^ Z.of_nat k -> byte_len n = k.
Proof.
  intros Hn [Hlo Hhi].
  pose proof (byte_len_bound n ltac:(lia)) as Hb.
  pose proof (byte_len_min n Hn) as Hm.
  set (j := byte_len n) in *.
  destruct (Nat.lt_trichotomy j k) as [Hlt | [Heq | Hgt]]; [|exact Heq|].
  - exfalso.
    assert (256 ^ Z.of_nat j <= 256 ^ (Z.of_nat k - 1)) by (apply Z.pow_le_mono_r; lia). lia.
  - exfalso.
    assert (256 ^ Z.of_nat k <= 256 ^ (Z.of_nat j - 1)) by (apply Z.pow_le_mono_r; lia). lia.
Qed.

Lemma bz_pos_of_nonzero b : b <> x00 -> 1 <= bz b.
Proof.
  intros Hb. pose proof (bz_range b) as Hr.
  destruct (Z.eq_dec (bz b) 0) as [E|E]; [|lia].
  exfalso. apply Hb. rewrite <- (zb_bz b), E. reflexivity.
Qed.

Lemma of_be_cons b r : of_be (b :: r) = bz b * 256 ^ Z.of_nat (length r) + of_be r.
Proof.
  unfold of_be. cbn [rev]. rewrite of_le_app. rewrite rev_length. cbn [of_le]. lia.
Qed.

Lemma min_be_of_be l :
  match l with [] => True | b :: _ => b <> x00 end -> min_be (of_be l) = l.
Proof.
  intros Hh. unfold min_be. destruct l as [|b r]; [reflexivity|].
  assert (Hlen : byte_len (of_be (b :: r)) = length (b :: r)).
  { pose proof (of_be_range (b :: r)) as Hr.
    pose proof (of_be_range r) as Hr'.
    pose proof (bz_pos_of_nonzero b Hh) as Hb1.
    assert (Hp : 0 < 256 ^ Z.of_nat (length r)) by (apply Z.pow_pos_nonneg; lia).
    rewrite of_be_cons in *.
    apply byte_len_unique; [nia|]. split; [|apply Hr].
    cbn [length]. rewrite Nat2Z.inj_succ. replace (Z.succ (Z.of_nat (length r)) - 1) with (Z.of_nat (length r)) by lia.
    nia. }
  rewrite Hlen. apply be_bytes_of_be.
Qed.

Lemma min_be_head n : 0 <= n -> match min_be n with [] => True | b :: _ => b <> x00 end.
Proof.
  intros Hn. destruct (min_be n) as [|b r] eqn:E; [exact I|].
  intros ->.
  assert (Hlen : length (x00 :: r) = byte_len n).
  { rewrite <- E. unfold min_be. apply be_bytes_length. }
  assert (Hv : of_be (x00 :: r) = n) by (rewrite <- E; apply of_be_min_be; exact Hn).
  rewrite of_be_cons in Hv. change (bz x00) with 0 in Hv.
  pose proof (of_be_range r) as Hr.
  destruct (Z.eq_dec n 0) as [->|Hz].
  { unfold min_be in E. cbn in E. discriminate E. }
  pose proof (byte_len_min n ltac:(lia)) as Hm.
  rewrite <- Hlen in Hm. cbn [length] in Hm. rewrite Nat2Z.inj_succ in Hm.
  replace (Z.succ (Z.of_nat (length r)) - 1) with (Z.of_nat (length r)) in Hm by lia. lia.
Qed.

(* ------------------------------------------------------------------ the alphabet (finite facts, recomputed
   from the regenerated table: an edit of code_strings[58] breaks them) *)
Lemma find_idx_nth c l : forall i d, find_idx c l = Some i -> nth i l d = c /\ (i < length l)%nat.
Proof.
  induction l as [|x l IH]; intros i d H; [discriminate|].
  cbn [find_idx] in H. destruct (beq c x) eqn:E.
  - apply beq_true in E. inversion H; subst. split; [reflexivity | cbn; lia].
  - destruct (find_idx c l) as [j|] eqn:F; [|discriminate].
    inversion H; subst. destruct (IH j d eq_refl) as [H1 H2]. split; [exact H1 | cbn; lia].
Qed.

Lemma alphabet58_length : length alphabet_base58 = 58%nat.
Proof. reflexivity. Qed.

Lemma b58_char_pos c p : b58_pos c = Some p -> b58_char p = c /\ 0 <= p < 58.
Proof.
  unfold b58_pos, b58_char. destruct (find_idx c alphabet_base58) as [i|] eqn:E; [|discriminate].
  intros H. inversion H; subst. destruct (find_idx_nth _ _ _ x00 E) as [H1 H2].
  rewrite Nat2Z.id. split; [exact H1|]. rewrite alphabet58_length in H2. lia.
Qed.

Lemma b58_pos_char_table :
  forallb (fun i => match b58_pos (b58_char (Z.of_nat i)) with Some p => p =? Z.of_nat i | None => false end)
          (seq 0 58) = true.
Proof. vm_compute. reflexivity. Qed.

Lemma b58_pos_char d : 0 <= d < 58 -> b58_pos (b58_char d) = Some d.
Proof.
  intros Hd. pose proof b58_pos_char_table as T. rewrite forallb_forall in T.
  specialize (T (Z.to_nat d)). rewrite Z2Nat.id in T by lia.
  assert (Hin : In (Z.to_nat d) (seq 0 58)) by (apply in_seq; lia).
  specialize (T Hin). destruct (b58_pos (b58_char d)) as [p|]; [|discriminate].
  apply Z.eqb_eq in T. congruence.
Qed.

Lemma b58_char_zero : b58_char 0 = b58_one.
Proof. reflexivity. Qed.

Lemma b58_indices_chars s ds :
  b58_indices s = Some ds -> map b58_char ds = s /\ Forall (fun d => 0 <= d < 58) ds.
Proof.
  revert ds. induction s as [|c r IH]; intros ds H.
  - inversion H; subst. split; [reflexivity | constructor].
  - cbn [b58_indices] in H. destruct (b58_pos c) as [p|] eqn:P; [|discriminate].
    destruct (b58_indices r) as [ps|] eqn:R; [|discriminate].
    inversion H; subst. destruct (IH ps eq_refl) as [H1 H2].
    destruct (b58_char_pos c p P) as [H3 H4].
    split; [cbn [map]; rewrite H1, H3; reflexivity | constructor; assumption].
Qed.

Lemma b58_indices_of_digits ds :
  Forall (fun d => 0 <= d < 58) ds -> b58_indices (map b58_char ds) = Some ds.
Proof.
  induction 1 as [|d ds Hd _ IH]; [reflexivity|].
  cbn [map b58_indices]. rewrite (b58_pos_char d Hd), IH. reflexivity.
Qed.

(* ------------------------------------------------------------------ bijection *)
Theorem b58_dec_enc bs : spec_b58_dec (b58_enc bs) = Some bs.
Proof.
  unfold spec_b58_dec, b58_enc.
  destruct (lead_split_bytes bs) as [Hsplit Hhead].
  set (z := lead_count is_zero_byte bs) in *.
  set (rest := skipn z bs) in *.
  assert (Hn : 0 <= of_be rest) by apply of_be_range.
  pose proof (digits_be_range 58 (of_be rest) ltac:(lia) Hn) as Hrange.
  pose proof (digits_be_head 58 (of_be rest) ltac:(lia) Hn) as Hdh.
  set (ds := digits_be 58 (of_be rest)) in *.
  assert (Hidx : b58_indices (repeat b58_one z ++ map b58_char ds) = Some (repeat 0 z ++ ds)).
  { rewrite <- b58_char_zero, <- map_repeat_eq, <- map_app. apply b58_indices_of_digits.
    apply Forall_app. split; [|exact Hrange]. apply Forall_forall. intros x Hx.
    apply repeat_spec in Hx. lia. }
  rewrite Hidx. f_equal.
  rewrite lead_count_repeat_app.
  - rewrite rev_app_distr, rev_repeat_eq, value_le_app, value_le_zeros by lia.
    replace (value_le 58 (rev ds) + 58 ^ Z.of_nat (length (rev ds)) * 0) with (value_le 58 (rev ds)) by lia.
    subst ds. rewrite digits_be_value by lia.
    rewrite min_be_of_be by exact Hhead. symmetry. exact Hsplit.
  - reflexivity.
  - destruct ds as [|d r]; [exact I|]. apply Z.eqb_neq. exact Hdh.
Qed.

Theorem b58_enc_dec s bs : spec_b58_dec s = Some bs -> b58_enc bs = s.
Proof.
  unfold spec_b58_dec. destruct (b58_indices s) as [ds|] eqn:Hidx; [|discriminate].
  intros H. inversion H as [Hbs]. clear H.
  destruct (b58_indices_chars s ds Hidx) as [Hmap Hrange].
  destruct (lead_split_Z ds) as [Hsplit Hhead].
  set (z := lead_count (fun d => d =? 0) ds) in *.
  set (ds' := skipn z ds) in *.
  assert (Hr' : Forall (fun d => 0 <= d < 58) ds').
  { rewrite Hsplit in Hrange. apply Forall_app in Hrange. apply Hrange. }
  assert (Hval : value_le 58 (rev ds) = value_le 58 (rev ds')).
  { rewrite Hsplit at 1. rewrite rev_app_distr, rev_repeat_eq, value_le_app, value_le_zeros by lia. lia. }
  rewrite Hval.
  set (n := value_le 58 (rev ds')).
  assert (Hn : 0 <= n).
  { subst n. destruct ds' as [|d r] eqn:E; [cbn; lia|].
    apply norm_value_nonneg; [lia|]. cbn [rev]. apply norm_le_snoc.
    - apply Forall_rev. inversion Hr'; assumption.
    - inversion Hr'; assumption.
    - exact Hhead. }
  unfold b58_enc.
  rewrite lead_count_repeat_app; [| reflexivity |].
  2:{ pose proof (min_be_head n Hn) as Hm. destruct (min_be n) as [|b r]; [exact I|].
      apply beq_false. exact Hm. }
  rewrite skipn_repeat_app, of_be_min_be by exact Hn.
  subst n. rewrite digits_be_of_value by (try lia; assumption).
  rewrite <- Hmap.
  transitivity (map b58_char (repeat 0 z ++ ds')); [|f_equal; symmetry; exact Hsplit].
  rewrite map_app, map_repeat_eq, b58_char_zero. reflexivity.
Qed.

(* every string over the alphabet decodes *)
Lemma spec_b58_dec_total s :
  Forall (fun c => b58_pos c <> None) s -> exists bs, spec_b58_dec s = Some bs.
Proof.
  intros H. unfold spec_b58_dec.
  assert (E : exists ds, b58_indices s = Some ds).
  { induction H as [|c r Hc _ IH]; [eexists; reflexivity|].
    destruct IH as [ds IH]. cbn [b58_indices]. rewrite IH.
    destruct (b58_pos c); [eexists; reflexivity | congruence]. }
  destruct E as [ds E]. rewrite E. eexists. reflexivity.
Qed.

(* two different byte strings never share a spelling, two spellings never share a payload *)
Corollary b58_enc_inj a b : b58_enc a = b58_enc b -> a = b.
Proof.
  intros H. pose proof (b58_dec_enc a) as Ha. rewrite H, b58_dec_enc in Ha. congruence.
Qed.

Corollary spec_b58_dec_inj s t bs : spec_b58_dec s = Some bs -> spec_b58_dec t = Some bs -> s = t.
Proof. intros Hs Ht. rewrite <- (b58_enc_dec s bs Hs), <- (b58_enc_dec t bs Ht). reflexivity. Qed.

(* ------------------------------------------------------------------ change_base(s, 58, 256, m) after the repair *)
Lemma b58_pos_first c p : b58_pos c = Some p -> (p =? 0) = beq c b58_firstchar.
Proof.
  intros H. destruct (b58_char_pos c p H) as [Hc Hr].
  destruct (p =? 0) eqn:E.
  - apply Z.eqb_eq in E. subst p. symmetry. apply beq_true. rewrite <- Hc. reflexivity.
  - symmetry. apply beq_false. intros ->. apply Z.eqb_neq in E. apply E.
    assert (b58_pos b58_firstchar = Some 0) by reflexivity. congruence.
Qed.

Fixpoint horner (acc : Z) (ds : list Z) : Z :=
  match ds with [] => acc | d :: r => horner (acc * 58 + d) r end.

Lemma horner_value ds : forall acc,
  horner acc ds = acc * 58 ^ Z.of_nat (length ds) + value_le 58 (rev ds).
Proof.
  induction ds as [|d r IH]; intros acc.
  - cbn. lia.
  - cbn [horner rev length]. rewrite IH, value_le_app by lia. rewrite rev_length.
    cbn [value_le]. rewrite Nat2Z.inj_succ, Z.pow_succ_r by lia. ring.
Qed.

Lemma lib_scan_strict s : forall allfirst acc zeros,
  lib_scan false s allfirst acc zeros =
  match b58_indices s with
  | None => None
  | Some ds => Some (horner acc ds,
                     (zeros + (if allfirst then lead_count (fun d => (d =? 0)%Z) ds else O))%nat)
  end.
Proof.
  induction s as [|c r IH]; intros allfirst acc zeros.
  - cbn. destruct allfirst; rewrite Nat.add_0_r; reflexivity.
  - cbn [lib_scan b58_indices]. unfold lib_char_pos.
    destruct (b58_pos c) as [p|] eqn:P; [|reflexivity].
    rewrite IH. destruct (b58_indices r) as [ps|]; [|reflexivity].
    cbn [horner lead_count]. rewrite <- (b58_pos_first c p P).
    destruct allfirst, (p =? 0); cbn [andb]; f_equal; f_equal; lia.
Qed.

Definition pad_left (m : nat) (b : bytes) : bytes := repeat x00 (m - length b) ++ b.

Theorem lib_b58_dec_spec s m :
  lib_b58_dec false s m =
  match spec_b58_dec s with
  | None => None
  | Some b => match pad_left m b with [] => None | o => Some o end
  end.
Proof.
  unfold lib_b58_dec, spec_b58_dec. rewrite lib_scan_strict.
  destruct (b58_indices s) as [ds|]; [|reflexivity].
  rewrite horner_value. cbn [Nat.add]. replace (0 * 58 ^ Z.of_nat (length ds) + value_le 58 (rev ds))
    with (value_le 58 (rev ds)) by lia.
  unfold pad_left.
  destruct (repeat x00 (m - length (repeat x00 (lead_count (fun d : Z => d =? 0) ds) ++ min_be (value_le 58 (rev ds)))) ++
            repeat x00 (lead_count (fun d : Z => d =? 0) ds) ++ min_be (value_le 58 (rev ds))); reflexivity.
Qed.

(* the lower-casing retry only ever adds accepted strings *)
Lemma lib_scan_fold_mono s : forall allfirst acc zeros r,
  lib_scan false s allfirst acc zeros = Some r -> lib_scan true s allfirst acc zeros = Some r.
Proof.
  induction s as [|c t IH]; intros allfirst acc zeros r H; [exact H|].
  cbn [lib_scan] in *. unfold lib_char_pos in *.
  destruct (b58_pos c) as [p|]; [|discriminate]. apply IH. exact H.
Qed.
