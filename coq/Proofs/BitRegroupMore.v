(* Proofs/BitRegroupMore.v — additions to Lib/BitRegroup.v used by the convertbits proofs (C11):
   chopping a bit stream into full groups plus a short remainder, zero padding, injectivity of unpack,
   and a few shift / mask / modulus facts.  Standard library + Lib/BitRegroup only. *)
From Coq Require Import ZArith Znumtheory List Lia Bool.
From Verif Require Import Lib.BitRegroup.
Import ListNotations.
Open Scope Z_scope.

(* ------------------------------------------------------------------ integer facts *)
Lemma pow2_pos n : 0 <= n -> 0 < 2 ^ n.
Proof. intros. apply Z.pow_pos_nonneg; lia. Qed.

Lemma leb_of_nat a b : (Z.of_nat a <=? Z.of_nat b) = (a <=? b)%nat.
Proof.
  destruct (Z.leb_spec (Z.of_nat a) (Z.of_nat b)), (Nat.leb_spec a b); try reflexivity; lia.
Qed.

Lemma land_shiftl_small a n v : 0 <= n -> 0 <= v < 2 ^ n -> Z.land (Z.shiftl a n) v = 0.
Proof.
  intros Hn Hv. apply Z.bits_inj'. intros i Hi. rewrite Z.land_spec, Z.bits_0.
  destruct (Z.lt_ge_cases i n) as [Hlt|Hge].
  - rewrite Z.shiftl_spec_low by lia. reflexivity.
  - assert (Z.testbit v i = false) as ->; [|apply andb_false_r].
    destruct (Z.eq_dec v 0) as [->|Hv0]; [apply Z.bits_0|].
    apply Z.bits_above_log2; [lia|].
    assert (Z.log2 v < n) by (apply Z.log2_lt_pow2; lia). lia.
Qed.

Lemma lor_shiftl_add a n v : 0 <= n -> 0 <= v < 2 ^ n -> Z.lor (Z.shiftl a n) v = a * 2 ^ n + v.
Proof.
  intros Hn Hv. pose proof (land_shiftl_small a n v Hn Hv) as H0.
  rewrite <- (Z.lxor_lor _ _ H0), <- (Z.add_nocarry_lxor _ _ H0).
  rewrite Z.shiftl_mul_pow2 by lia. reflexivity.
Qed.

Lemma mod_shift_add a n m v : 0 <= n -> 0 <= m -> 0 <= v < 2 ^ m ->
  (a * 2 ^ m + v) mod 2 ^ (n + m) = (a mod 2 ^ n) * 2 ^ m + v.
Proof.
  intros Hn Hm Hv. rewrite Z.pow_add_r by lia.
  pose proof (pow2_pos n Hn) as HB. pose proof (pow2_pos m Hm) as HC.
  set (B := 2 ^ n) in *. set (C := 2 ^ m) in *.
  pose proof (Z.mod_pos_bound a B HB) as Hr. pose proof (Z.div_mod a B ltac:(lia)) as Hd.
  symmetry. apply Z.mod_unique_pos with (q := a / B); nia.
Qed.

Lemma mod_pow2_le a n m : 0 <= n <= m -> (a mod 2 ^ m) mod 2 ^ n = a mod 2 ^ n.
Proof.
  intros H. symmetry. apply Zmod_div_mod; try (apply pow2_pos; lia).
  exists (2 ^ (m - n)). rewrite <- Z.pow_add_r by lia. f_equal. lia.
Qed.

(* the middle field of a number: bits k .. k+w-1 *)
Lemma field_of_mod a k w H L : 0 <= k -> 0 <= w -> 0 <= L < 2 ^ k ->
  a mod 2 ^ (k + w) = H * 2 ^ k + L ->
  a mod 2 ^ k = L /\ Z.land (Z.shiftr a k) (Z.ones w) = H.
Proof.
  intros Hk Hw HL E. pose proof (pow2_pos k Hk) as HB. pose proof (pow2_pos w Hw) as HC.
  assert (E1 : a mod 2 ^ k = L).
  { rewrite <- (mod_pow2_le a k (k + w)) by lia. rewrite E.
    rewrite Z.add_comm, Z.mod_add by lia. apply Z.mod_small. exact HL. }
  split; [exact E1|].
  rewrite Z.land_ones by lia. rewrite Z.shiftr_div_pow2 by lia.
  rewrite Z.pow_add_r in E by lia. rewrite Z.rem_mul_r in E by lia. nia.
Qed.

(* ------------------------------------------------------------------ bit lists *)
Lemma unpack_cons w s r : unpack w (s :: r) = to_bits w s ++ unpack w r.
Proof. reflexivity. Qed.

Lemma val_zeros B k : val B (repeat 0 k) = 0.
Proof. rewrite <- (app_nil_r (repeat 0 k)). rewrite val_repeat0. reflexivity. Qed.

Lemma to_bits_low_zero k x : forall j, (j <= k)%nat -> to_bits j (x * 2 ^ Z.of_nat k) = repeat 0 j.
Proof.
  induction j as [|j IH]; intros Hj; [reflexivity|].
  cbn [to_bits repeat]. rewrite IH by lia. rewrite Z.mul_pow2_bits_low by lia. reflexivity.
Qed.

Lemma to_bits_shl n k x : to_bits (n + k) (x * 2 ^ Z.of_nat k) = to_bits n x ++ repeat 0 k.
Proof.
  induction n as [|n IH]; [apply to_bits_low_zero; lia|].
  cbn [Nat.add to_bits]. rewrite <- app_comm_cons, IH.
  rewrite Nat2Z.inj_add, Z.add_comm, Z.mul_pow2_bits_add by lia. reflexivity.
Qed.

Lemma in_base_zeros k : in_base 2 (repeat 0 k).
Proof. apply in_base_repeat0. lia. Qed.

Lemma unpack_inj w a b : (0 < w)%nat ->
  in_base (2 ^ Z.of_nat w) a -> in_base (2 ^ Z.of_nat w) b -> unpack w a = unpack w b -> a = b.
Proof.
  intros Hw Ha Hb E.
  assert (Hl : length a = length b).
  { pose proof (f_equal (@length Z) E) as El. rewrite !unpack_length in El. nia. }
  rewrite <- (groups_unpack w a [] Ha), <- (groups_unpack w b [] Hb), E, Hl. reflexivity.
Qed.

(* ------------------------------------------------------------------ chopping a bit stream *)
(* take groups of w bits off the front while at least w bits are left (fuel bounds the number of groups) *)
Fixpoint chop (fuel w : nat) (p : list Z) : list Z * list Z :=
  match fuel with
  | O => ([], p)
  | S f =>
      if (w <=? length p)%nat then
        let '(l, r) := chop f w (skipn w p) in (val 2 (firstn w p) :: l, r)
      else ([], p)
  end.

Lemma chop_spec fuel w : forall p l r, (0 < w)%nat -> (length p < fuel)%nat -> in_base 2 p ->
  chop fuel w p = (l, r) ->
  unpack w l ++ r = p /\ (length r < w)%nat /\ in_base (2 ^ Z.of_nat w) l /\ in_base 2 r.
Proof.
  induction fuel as [|fuel IH]; intros p l r Hw Hf Hp E; [lia|].
  cbn [chop] in E. destruct (w <=? length p)%nat eqn:El.
  - apply Nat.leb_le in El.
    destruct (chop fuel w (skipn w p)) as [l0 r0] eqn:Ec.
    assert (l = val 2 (firstn w p) :: l0) by congruence.
    assert (r = r0) by congruence. subst l r. clear E.
    destruct (IH (skipn w p) l0 r0 Hw) as (E1 & E2 & E3 & E4);
      [rewrite skipn_length; lia | apply in_base_skipn, Hp | exact Ec |].
    assert (Hfl : length (firstn w p) = w) by (rewrite firstn_length; lia).
    split; [|split; [exact E2|split; [|exact E4]]].
    + rewrite unpack_cons, <- app_assoc, E1.
      rewrite <- Hfl at 1. rewrite to_bits_val by (apply in_base_firstn, Hp).
      apply firstn_skipn.
    + apply in_base_cons. split; [|exact E3].
      pose proof (val_range 2 (firstn w p) ltac:(lia) (in_base_firstn 2 w p Hp)) as Hv.
      rewrite Hfl in Hv. exact Hv.
  - apply Nat.leb_gt in El.
    assert (l = []) by congruence. assert (r = p) by congruence. subst l r.
    split; [reflexivity|]. split; [exact El|]. split; [constructor|exact Hp].
Qed.

Lemma app_eq_len {A} (a c b d : list A) : length a = length c -> a ++ b = c ++ d -> a = c /\ b = d.
Proof.
  revert c. induction a as [|x a IH]; intros [|y c] Hl E; try discriminate.
  - split; [reflexivity|exact E].
  - rewrite <- !app_comm_cons in E. assert (x = y) by congruence. assert (E' : a ++ b = c ++ d) by congruence.
    subst y. destruct (IH c ltac:(cbn in Hl; lia) E') as [-> ->]. split; reflexivity.
Qed.
