(* Proofs/AmountDecRound.v — the integer algorithms of Float/DecRound.v compute what they claim:
   [rne_div] is round-half-even of a quotient, [sf_to_Z_rne] is round-half-even of the exact value of a
   float, [ratio_to_sf] is the correctly rounded binary64 of a quotient of integers. *)
From Coq Require Import ZArith Reals Lia Lra Bool.
From Coq Require Import Floats.SpecFloat.
From Flocq Require Import Core.Core Calc.Bracket Calc.Div Calc.Round IEEE754.BinarySingleNaN.
From Verif Require Import Float.DecRound.
Open Scope Z_scope.

Notation fexp64 := (SpecFloat.fexp 53 1024).
Notation RN := (round radix2 fexp64 ZnearestE).

Global Instance prec53_gt_0 : Prec_gt_0 53 := eq_refl.
Global Instance prec53_lt_emax : Prec_lt_emax 53 1024 := eq_refl.

Lemma b64_fexp_eq : b64_fexp = fexp64.
Proof. reflexivity. Qed.

(* ---- round-half-even of a quotient ---- *)
Lemma rne_div_correct : forall p q, 0 < q -> rne_div p q = ZnearestE (IZR p / IZR q).
Proof.
intros p q Hq.
unfold rne_div, ZnearestE, Znearest.
rewrite Zfloor_div by lia.
assert (Hr : 0 <= p mod q < q) by (apply Z.mod_pos_bound; lia).
assert (Hp : p = q * (p / q) + p mod q) by (apply Z.div_mod; lia).
set (f := p / q) in *. set (r := p mod q) in *.
assert (HQ : (0 < IZR q)%R) by (apply IZR_lt; lia).
assert (Hx : (IZR p / IZR q - IZR f = IZR r / IZR q)%R).
{ rewrite Hp, plus_IZR, mult_IZR. field. lra. }
rewrite Hx.
assert (Hc : forall c, (2 * r ?= q) = c -> Rcompare (IZR r / IZR q) (/ 2) = c).
{ intros c Hc.
  assert (H2 : (IZR (2 * r) = 2 * IZR r)%R) by (rewrite mult_IZR; reflexivity).
  destruct c.
  - apply Z.compare_eq_iff in Hc. apply Rcompare_Eq.
    assert (Hq2 : (IZR q = 2 * IZR r)%R) by (rewrite <- Hc; exact H2).
    rewrite Hq2. field. lra.
  - rewrite Z.compare_lt_iff in Hc. apply Rcompare_Lt. apply IZR_lt in Hc. rewrite H2 in Hc.
    apply Rmult_lt_reg_r with (IZR q). lra. unfold Rdiv. rewrite Rmult_assoc, Rinv_l by lra. lra.
  - rewrite Z.compare_gt_iff in Hc. apply Rcompare_Gt. apply IZR_lt in Hc. rewrite H2 in Hc.
    apply Rmult_lt_reg_r with (IZR q). lra. unfold Rdiv. rewrite Rmult_assoc, Rinv_l by lra. lra. }
assert (Hceil : 0 < r -> Zceil (IZR p / IZR q) = f + 1).
{ intros Hr0. rewrite Zceil_floor_neq; rewrite Zfloor_div by lia; fold f. reflexivity.
  intros Heq. rewrite <- Heq in Hx. rewrite Rminus_diag_eq in Hx by reflexivity.
  symmetry in Hx. apply Rmult_integral in Hx. destruct Hx as [Hx|Hx].
  apply eq_IZR_R0 in Hx. lia. revert Hx. apply Rinv_neq_0_compat. lra. }
destruct (2 * r ?= q) eqn:C; rewrite (Hc _ eq_refl).
- apply Z.compare_eq_iff in C. destruct (Z.even f); simpl. reflexivity. symmetry; apply Hceil; lia.
- reflexivity.
- rewrite Z.compare_gt_iff in C. symmetry; apply Hceil; lia.
Qed.

(* ---- round(x) on the exact value of a float ---- *)
Lemma sf_to_Z_rne_finite : forall s m e,
  sf_to_Z_rne (S754_finite s m e) = Some (ZnearestE (SF2R radix2 (S754_finite s m e))).
Proof.
intros s m e. unfold sf_to_Z_rne, SF2R. f_equal.
replace (if s then Z.neg m else Z.pos m) with (cond_Zopp s (Z.pos m)) by (destruct s; reflexivity).
set (sm := cond_Zopp s (Z.pos m)).
unfold F2R; simpl Fnum; simpl Fexp.
destruct (0 <=? e) eqn:He.
- apply Z.leb_le in He.
  rewrite <- IZR_Zpower by exact He. rewrite <- mult_IZR. simpl radix_val.
  symmetry. apply Znearest_imp. rewrite Rminus_diag_eq by reflexivity. rewrite Rabs_R0. lra.
- apply Z.leb_gt in He.
  rewrite rne_div_correct by (apply Z.pow_pos_nonneg; lia).
  f_equal. unfold Rdiv. f_equal.
  replace e with (- (- e)) at 2 by lia. rewrite bpow_opp. f_equal.
  rewrite <- IZR_Zpower by lia. reflexivity.
Qed.

(* ---- the correctly rounded binary64 of a quotient of positive integers ---- *)
Lemma round_nearest_even_equiv' : forall s m l, round_nearest_even m l = choice_mode mode_NE s m l.
Proof. intros s m l. destruct l as [ | l']; [reflexivity | ]. destruct l'; simpl; try reflexivity. destruct (Z.even m); reflexivity. Qed.

Lemma binary_round_aux_equiv' : forall sx mx ex lx,
  SpecFloat.binary_round_aux 53 1024 sx mx ex lx = binary_round_aux 53 1024 mode_NE sx mx ex lx.
Proof.
intros. unfold SpecFloat.binary_round_aux, binary_round_aux.
set (mrse' := shr_fexp _ _ _ _ _).
case mrse'; intros mrs' e'; simpl.
now rewrite (round_nearest_even_equiv' sx).
Qed.

Definition sgn (neg : bool) (x : R) : R := if neg then (- x)%R else x.

Lemma ratio_to_sf_correct : forall neg p q, 0 < p -> 0 < q ->
  let x := (IZR p / IZR q)%R in
  let z := ratio_to_sf neg p q in
  valid_binary 53 1024 z = true /\
  ((Rabs (RN x) < bpow radix2 1024)%R ->
   SF2R radix2 z = sgn neg (RN x) /\ is_finite_SF z = true /\ sign_SF z = neg).
Proof.
intros neg p q Hp Hq x z.
assert (Hx : (0 < x)%R).
{ unfold x. apply Rdiv_lt_0_compat; apply IZR_lt; lia. }
unfold z, ratio_to_sf.
replace (p <=? 0) with false by (symmetry; apply Z.leb_gt; lia).
change b64_fexp with fexp64. change b64_prec with 53. change b64_emax with 1024.
assert (HF : forall m, F2R (Float radix2 m 0) = IZR m) by (intros; unfold F2R; simpl; ring).
generalize (Fdiv_correct fexp64 (Float radix2 p 0) (Float radix2 q 0)).
rewrite 2!HF. fold x.
destruct (Fdiv fexp64 (Float radix2 p 0) (Float radix2 q 0)) as [[m e] l].
intros H. destruct H as [He Hb]; try (apply IZR_lt; lia).
rewrite binary_round_aux_equiv'.
set (x' := sgn neg x).
assert (Hx' : x' <> 0%R) by (unfold x', sgn; destruct neg; lra).
assert (Habs : Rabs x' = x).
{ unfold x', sgn; destruct neg. rewrite Rabs_Ropp. apply Rabs_pos_eq; lra. apply Rabs_pos_eq; lra. }
assert (Hs : Rlt_bool x' 0 = neg).
{ unfold x', sgn; destruct neg. apply Rlt_bool_true; lra. apply Rlt_bool_false; lra. }
assert (Hc : cexp radix2 fexp64 x' = cexp radix2 fexp64 x).
{ unfold x', sgn; destruct neg. apply cexp_opp. reflexivity. }
assert (Hr : RN x' = sgn neg (RN x)).
{ unfold x', sgn; destruct neg. apply round_NE_opp. reflexivity. }
generalize (binary_round_aux_correct' 53 1024 _ _ mode_NE x' m e l Hx').
rewrite Habs, Hc, Hs. intros H. specialize (H Hb He). simpl in H.
destruct H as [Hv H]. split. exact Hv.
intros Hlt. simpl round_mode in H. rewrite Hr in H.
replace (Rabs (sgn neg (RN x))) with (Rabs (RN x)) in H by (unfold sgn; destruct neg; [rewrite Rabs_Ropp|]; reflexivity).
rewrite Rlt_bool_true in H by exact Hlt.
exact H.
Qed.
