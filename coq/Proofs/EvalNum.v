(* Proofs/EvalNum.v — number / truth-value facts shared by the C19 proofs. *)
From Coq Require Import ZArith List Bool Lia.
From Coq.Strings Require Import Byte.
From Verif Require Import Lib.Bytes Model.Wire Model.EvalLib Model.EvalCore Proofs.ScriptNum.
Import ListNotations.
Open Scope Z_scope.

Lemma ser_is_enc z : core_scriptnum_ser z = lib_encode_num z.
Proof. symmetry. apply lib_encode_is_core. Qed.

(* CScriptNum::set_vch and scripts.decode_num are the same function on every byte string *)
Lemma core_dec_is_lib e : core_scriptnum_dec e = lib_decode_num e.
Proof.
  destruct e as [|b e']; [reflexivity|].
  set (e := b :: e'). assert (Hne : e <> []) by discriminate.
  rewrite (snoc_decomp _ e x00 Hne).
  set (f := removelast e). set (l := last e x00).
  rewrite lib_decode_num_snoc. unfold core_scriptnum_dec.
  destruct (f ++ [l]) eqn:E; [destruct f; discriminate|]. rewrite <- E.
  rewrite last_snoc. rewrite app_length. cbn [length]. replace (length f + 1 - 1)%nat with (length f) by lia.
  cbv zeta. rewrite !of_le_snoc, bz_clear_high.
  pose proof (bz_range l) as Hl.
  destruct (high_set l) eqn:Hh.
  - apply high_set_spec in Hh.
    assert (bz l mod 128 = bz l - 128) by (Z.div_mod_to_equations; lia). rewrite H. f_equal. ring.
  - assert (bz l < 128).
    { destruct (Z.lt_ge_cases (bz l) 128); [assumption|]. apply high_set_spec in H. congruence. }
    rewrite Z.mod_small by lia. reflexivity.
Qed.

(* ---------- truth values ---------- *)

Lemma cast_cons b r : r <> [] -> cast_to_bool (b :: r) = negb (bz b =? 0) || cast_to_bool r.
Proof. destruct r; [congruence|reflexivity]. Qed.

Lemma cast_snoc_true f l : bz l mod 128 <> 0 -> cast_to_bool (f ++ [l]) = true.
Proof.
  intros H. induction f as [|b f IH].
  - cbn. pose proof (bz_range l).
    destruct (bz l =? 0) eqn:E0; [apply Z.eqb_eq in E0; rewrite E0 in H; cbn in H; congruence|].
    destruct (bz l =? 128) eqn:E1; [apply Z.eqb_eq in E1; rewrite E1 in H; cbn in H; congruence|].
    reflexivity.
  - rewrite <- app_comm_cons. rewrite cast_cons by (destruct f; discriminate). rewrite IH. apply orb_true_r.
Qed.

Lemma minimal_shape x : core_minimal x = true ->
  x = [] \/ ((exists f l, x = f ++ [l] /\ bz l mod 128 <> 0) \/
             (exists f p l, x = f ++ [p; l] /\ high_set p = true)).
Proof.
  intros H. unfold core_minimal in H.
  destruct (rev x) as [|l rest] eqn:E.
  - left. apply (f_equal (@rev _)) in E. rewrite rev_involutive in E. exact E.
  - right. apply (f_equal (@rev _)) in E. rewrite rev_involutive in E. cbn [rev] in E.
    destruct (bz l mod 128 =? 0) eqn:Z0.
    + destruct rest as [|p rest']; [discriminate|]. right. exists (rev rest'), p, l. split; [|exact H].
      rewrite E. cbn [rev]. rewrite <- app_assoc. reflexivity.
    + left. exists (rev rest), l. split; [exact E|]. apply Z.eqb_neq. exact Z0.
Qed.

Lemma cast_high_true f p l : high_set p = true -> cast_to_bool (f ++ [p; l]) = true.
Proof.
  intros H. apply high_set_spec in H. induction f as [|b f IH].
  - cbn. destruct (bz p =? 0) eqn:E; [apply Z.eqb_eq in E; lia|]. reflexivity.
  - rewrite <- app_comm_cons. rewrite cast_cons by (destruct f; discriminate). rewrite IH. apply orb_true_r.
Qed.

(* a minimally encoded number is false exactly when it is the empty string *)
Lemma minimal_truth x : core_minimal x = true -> cast_to_bool x = negb (is_empty x).
Proof.
  intros H. destruct (minimal_shape x H) as [->|[(f & l & -> & Hl)|(f & p & l & -> & Hp)]].
  - reflexivity.
  - rewrite cast_snoc_true by exact Hl. destruct f; reflexivity.
  - rewrite cast_high_true by exact Hp. destruct f; reflexivity.
Qed.

Lemma minimal_zero x : core_minimal x = true -> (lib_decode_num x =? 0) = is_empty x.
Proof.
  intros H. destruct x as [|b r]; [reflexivity|]. cbn [is_empty].
  apply Z.eqb_neq. intros E. pose proof (scriptnum_canonical _ H) as C. rewrite E in C. discriminate C.
Qed.

Lemma minimal_eq a b : core_minimal a = true -> core_minimal b = true ->
  bytes_eqb a b = (lib_decode_num a =? lib_decode_num b).
Proof.
  intros Ha Hb. destruct (bytes_eqb a b) eqn:E.
  - apply bytes_eqb_true in E. subst. symmetry. apply Z.eqb_refl.
  - symmetry. apply Z.eqb_neq. intros D.
    assert (a = b). { rewrite <- (scriptnum_canonical a Ha), <- (scriptnum_canonical b Hb), D. reflexivity. }
    subst. rewrite bytes_eqb_refl in E. discriminate.
Qed.

(* ---------- the operand discipline under which both interpreters agree ---------- *)

(* an item is [good] when it is a minimally encoded number, or too long to be a numeric operand
   (more than 5 bytes: CLTV / CSV read 5-byte numbers) and true *)
Definition good (x : bytes) : Prop :=
  core_minimal x = true \/ ((5 < length x)%nat /\ cast_to_bool x = true).

Lemma good_truth x : good x -> cast_to_bool x = negb (is_empty x).
Proof.
  intros [H|[Hl Hc]]; [apply minimal_truth; exact H|]. rewrite Hc. destruct x; [cbn in Hl; lia|reflexivity].
Qed.

Lemma good_short x : good x -> (length x <= 5)%nat -> core_minimal x = true.
Proof. intros [H|[Hl _]] L; [exact H|lia]. Qed.

Lemma good_enc z : good (lib_encode_num z).
Proof. left. apply scriptnum_minimal. Qed.

Lemma good_bool b : good (of_bool b).
Proof. left. destruct b; reflexivity. Qed.

Lemma good_nil : good [].
Proof. left. reflexivity. Qed.

(* ---------- the condition test of OP_IF / OP_NOTIF ---------- *)

Definition nzb (b : byte) : bool := negb (bz b =? 0).

Lemma of_le_zero f : (of_le f =? 0) = negb (existsb nzb f).
Proof.
  induction f as [|a f IH]; [reflexivity|]. cbn [of_le existsb].
  pose proof (bz_range a). pose proof (of_le_nonneg f). unfold nzb at 1.
  destruct (bz a =? 0) eqn:E; cbn [negb orb].
  - apply Z.eqb_eq in E. rewrite E, <- IH.
    destruct (of_le f =? 0) eqn:F.
    + apply Z.eqb_eq in F. rewrite F. reflexivity.
    + apply Z.eqb_neq in F. apply Z.eqb_neq. lia.
  - apply Z.eqb_neq in E. apply Z.eqb_neq. lia.
Qed.

Lemma cast_snoc f l : cast_to_bool (f ++ [l]) = existsb nzb f || negb ((bz l =? 0) || (bz l =? 128)).
Proof.
  induction f as [|a f IH]; [reflexivity|].
  rewrite <- app_comm_cons, cast_cons by (destruct f; discriminate). rewrite IH. cbn [existsb].
  unfold nzb at 2. rewrite orb_assoc. reflexivity.
Qed.

(* Stack.op_if tests decode_num(element) == 0: that is exactly CastToBool, on every byte string *)
Lemma if_truth_is_cast x : (lib_decode_num x =? 0) = negb (cast_to_bool x).
Proof.
  destruct x as [|b r]; [reflexivity|].
  set (e := b :: r). rewrite (snoc_decomp _ e x00) by discriminate.
  set (f := removelast e). set (l := last e x00). clearbody f l. clear e.
  rewrite lib_decode_num_snoc, cast_snoc. cbv zeta. rewrite of_le_snoc, bz_clear_high.
  rewrite negb_orb, negb_involutive, <- of_le_zero.
  pose proof (bz_range l) as Hl. pose proof (of_le_nonneg f) as Hf. pose proof (pow256_pos (length f)) as HP.
  set (P := 256 ^ Z.of_nat (length f)) in *. set (m := bz l mod 128).
  assert (Hm : 0 <= m < 128) by (apply Z.mod_pos_bound; lia).
  assert (Hm0 : m = 0 <-> bz l = 0 \/ bz l = 128) by (unfold m; Z.div_mod_to_equations; lia).
  assert (HS : of_le f + P * m = 0 <-> of_le f = 0 /\ m = 0) by nia.
  assert (G : ((of_le f + P * m) =? 0) = (of_le f =? 0) && ((bz l =? 0) || (bz l =? 128))).
  { destruct (Z.eqb_spec (of_le f + P * m) 0) as [E|E].
    - apply HS in E. destruct E as [E1 E2]. apply Hm0 in E2. rewrite E1. cbn.
      destruct E2 as [->| ->]; reflexivity.
    - symmetry. apply andb_false_iff.
      destruct (Z.eqb_spec (of_le f) 0) as [F|F]; [right|left; reflexivity].
      apply orb_false_iff. split; apply Z.eqb_neq; intros B; apply E; apply HS; split; try assumption;
        apply Hm0; auto.
  }
  destruct (high_set l); [|exact G].
  rewrite <- G. destruct (Z.eqb_spec (of_le f + P * m) 0) as [E|E].
  - rewrite E. reflexivity.
  - apply Z.eqb_neq. lia.
Qed.
