(* Proofs/Bech32Errors.v — error detection of the Bech32 / Bech32m checksum (Model/Bech32.v).
   The checksum state is GF(2)-affine in the input (Proofs/Bech32.v), so the effect of changing one value
   x to x' in front of k further values is the syndrome  fold_left polymod_step (repeat 0 k) (x xor x'),
   independent of everything else.  One step with a zero input is injective on 30-bit states (the generator
   constants have linearly independent low five bits), hence the syndrome of a non-zero error is non-zero for
   EVERY k: one substituted value, or two adjacent swapped values, always change the polymod.
   A table for k < 90 shows in addition that such an error never turns the Bech32 constant into the Bech32m
   constant or back; this gives the string-level theorem for lib_bech32_dec. *)
From Coq Require Import ZArith List Bool Lia Btauto.
From Coq.Strings Require Import Byte.
From Verif Require Import Lib.Bytes Lib.BitRegroup Gen.GenConsts Model.Base58 Model.Bech32
  Proofs.Base58 Proofs.Bech32 Proofs.Bech32Roundtrip.
Import ListNotations.
Open Scope Z_scope.

(* ------------------------------------------------------------------ one zero-input step is injective *)
Definition Gt (t : Z) : Z :=
  Z.lxor (sel (Z.testbit t 0) g0) (Z.lxor (sel (Z.testbit t 1) g1) (Z.lxor (sel (Z.testbit t 2) g2)
    (Z.lxor (sel (Z.testbit t 3) g3) (sel (Z.testbit t 4) g4)))).

Lemma Lstep_split c : Lstep c = Z.lxor (Z.shiftl (Z.land c 0x1ffffff) 5) (Gt (Z.shiftr c 25)).
Proof. unfold Lstep, polymod_step, Gt. cbv zeta. rewrite Z.lxor_0_r. rewrite !Z.lxor_assoc. reflexivity. Qed.

Lemma Gt_table :
  forallb (fun t => (t =? 0)%nat || negb (Gt (Z.of_nat t) mod 32 =? 0)) (seq 0 32) = true.
Proof. vm_compute. reflexivity. Qed.

Lemma Lstep_zero c : 0 <= c < 2 ^ 30 -> Lstep c = 0 -> c = 0.
Proof.
  intros Hc H. rewrite Lstep_split in H. apply Z.lxor_eq in H.
  set (top := Z.shiftr c 25) in *. set (low := Z.land c 33554431) in *.
  assert (Htop : 0 <= top < 32).
  { subst top. rewrite Z.shiftr_div_pow2 by lia. split; [apply Z.div_pos; lia|].
    apply Z.div_lt_upper_bound; lia. }
  assert (Hlow : low = c mod 2 ^ 25).
  { subst low. change 33554431 with (Z.ones 25). apply Z.land_ones. lia. }
  rewrite Z.shiftl_mul_pow2 in H by lia.
  pose proof Gt_table as T. rewrite forallb_forall in T.
  specialize (T (Z.to_nat top) ltac:(apply in_seq; lia)). rewrite Z2Nat.id in T by lia.
  assert (Ht0 : top = 0).
  { apply orb_true_iff in T. destruct T as [T|T]; [apply Nat.eqb_eq in T; lia|].
    apply negb_true_iff in T. apply Z.eqb_neq in T. exfalso. apply T.
    rewrite <- H. change (2 ^ 5) with 32. apply Z.mod_mul. lia. }
  rewrite Ht0 in H. change (Gt 0) with 0 in H.
  assert (low = 0) by lia.
  subst top. rewrite Z.shiftr_div_pow2 in Ht0 by lia.
  pose proof (Z.div_mod c (2 ^ 25) ltac:(lia)). lia.
Qed.

(* ------------------------------------------------------------------ syndromes *)
Definition syndrome (e : Z) (k : nat) : Z := fold_left polymod_step (repeat 0 k) e.

Lemma syndrome_S e k : syndrome e (S k) = syndrome (Lstep e) k.
Proof. reflexivity. Qed.

Lemma zeros_map (ws : list Z) : map (fun _ => 0) ws = repeat 0 (length ws).
Proof. induction ws as [|w ws IH]; [reflexivity|]. cbn [map length repeat]. rewrite IH. reflexivity. Qed.

Lemma syndrome_xor a b k : syndrome (Z.lxor a b) k = Z.lxor (syndrome a k) (syndrome b k).
Proof.
  unfold syndrome. rewrite fold_shift. rewrite zeros_map, repeat_length. reflexivity.
Qed.

Lemma Lstep_range c : 0 <= Lstep c < 2 ^ 30.
Proof. unfold Lstep. apply step_range. lia. Qed.

Theorem syndrome_nonzero k : forall e, 0 <= e < 2 ^ 30 -> e <> 0 -> syndrome e k <> 0.
Proof.
  induction k as [|k IH]; intros e He Hn; [exact Hn|].
  rewrite syndrome_S. apply IH; [apply Lstep_range|].
  intros H. apply Hn. apply Lstep_zero; assumption.
Qed.

(* changing the value x to x' in front of [post] changes the polymod by the syndrome of x xor x' *)
Theorem polymod_subst pre x x' post :
  polymod (pre ++ x' :: post) =
  Z.lxor (syndrome (Z.lxor x x') (length post)) (polymod (pre ++ x :: post)).
Proof.
  unfold polymod, syndrome. rewrite !fold_left_app. cbn [fold_left].
  set (S0 := fold_left polymod_step pre 1).
  assert (E : polymod_step S0 x' = Z.lxor (Z.lxor x x') (polymod_step S0 x)).
  { rewrite !step_L. rewrite (Z.lxor_comm (Lstep S0) x), <- Z.lxor_assoc.
    rewrite (Z.lxor_assoc x x' x), (Z.lxor_comm x' x), <- (Z.lxor_assoc x x x').
    rewrite Z.lxor_nilpotent, Z.lxor_0_l. apply Z.lxor_comm. }
  rewrite E, fold_shift, zeros_map. reflexivity.
Qed.

Lemma lxor_neq_self s p : s <> 0 -> Z.lxor s p <> p.
Proof.
  intros Hs H. apply Hs.
  assert (Es : s = Z.lxor (Z.lxor s p) p)
    by (rewrite Z.lxor_assoc, Z.lxor_nilpotent, Z.lxor_0_r; reflexivity).
  rewrite Es, H. apply Z.lxor_nilpotent.
Qed.

Lemma err_value x x' : 0 <= x < 32 -> 0 <= x' < 32 -> x <> x' ->
  0 <= Z.lxor x x' < 32 /\ Z.lxor x x' <> 0.
Proof.
  intros Hx Hx' Hne. split; [apply (lxor_range 5); lia|].
  intros H. apply Hne. apply Z.lxor_eq. exact H.
Qed.

(* one substituted value is detected, whatever the length *)
Theorem single_substitution_detected pre x x' post :
  0 <= x < 32 -> 0 <= x' < 32 -> x <> x' ->
  polymod (pre ++ x' :: post) <> polymod (pre ++ x :: post).
Proof.
  intros Hx Hx' Hne. rewrite (polymod_subst pre x x' post).
  destruct (err_value x x' Hx Hx' Hne) as [He Hn].
  apply lxor_neq_self. apply syndrome_nonzero; [lia|exact Hn].
Qed.

(* two adjacent values swapped *)
Theorem polymod_transpose pre x y post :
  polymod (pre ++ y :: x :: post) =
  Z.lxor (syndrome (Z.lxor (Lstep (Z.lxor x y)) (Z.lxor x y)) (length post)) (polymod (pre ++ x :: y :: post)).
Proof.
  rewrite (polymod_subst pre x y (x :: post)).
  replace (pre ++ x :: x :: post) with ((pre ++ [x]) ++ x :: post) by (rewrite <- app_assoc; reflexivity).
  rewrite (polymod_subst (pre ++ [x]) y x post).
  rewrite <- app_assoc. cbn [app length]. rewrite syndrome_S.
  rewrite <- Z.lxor_assoc, <- syndrome_xor. rewrite (Z.lxor_comm y x). reflexivity.
Qed.

Lemma transpose_err e : 0 <= e < 32 -> e <> 0 ->
  0 <= Z.lxor (Lstep e) e < 2 ^ 30 /\ Z.lxor (Lstep e) e <> 0.
Proof.
  intros He Hn. split; [apply lxor_range; [lia|apply Lstep_range|lia]|].
  intros H. apply Z.lxor_eq in H. unfold Lstep in H. rewrite step_small in H by lia.
  rewrite Z.lxor_0_r, Z.shiftl_mul_pow2 in H by lia. lia.
Qed.

Theorem adjacent_transposition_detected pre x y post :
  0 <= x < 32 -> 0 <= y < 32 -> x <> y ->
  polymod (pre ++ y :: x :: post) <> polymod (pre ++ x :: y :: post).
Proof.
  intros Hx Hy Hne. rewrite polymod_transpose.
  destruct (err_value x y Hx Hy Hne) as [He Hn].
  destruct (transpose_err _ He Hn) as [Hr Hz].
  apply lxor_neq_self. apply syndrome_nonzero; assumption.
Qed.

(* ------------------------------------------------------------------ Bech32 <-> Bech32m confusion, length <= 90 *)
Definition cross_const : Z := Z.lxor 1 cfg_BECH32M_CONST.

Lemma cross_table :
  forallb (fun k => forallb (fun e =>
      negb (syndrome (Z.of_nat e) k =? cross_const) &&
      negb (syndrome (Z.lxor (Lstep (Z.of_nat e)) (Z.of_nat e)) k =? cross_const)) (seq 1 31)) (seq 0 90) = true.
Proof. vm_compute. reflexivity. Qed.

Lemma cross_table_at e k : 0 < e < 32 -> (k < 90)%nat ->
  syndrome e k <> cross_const /\ syndrome (Z.lxor (Lstep e) e) k <> cross_const.
Proof.
  intros He Hk. pose proof cross_table as T. rewrite forallb_forall in T.
  specialize (T k ltac:(apply in_seq; lia)). rewrite forallb_forall in T.
  specialize (T (Z.to_nat e) ltac:(apply in_seq; lia)). rewrite Z2Nat.id in T by lia.
  apply andb_true_iff in T. destruct T as [T1 T2].
  apply negb_true_iff in T1, T2. apply Z.eqb_neq in T1, T2. auto.
Qed.

Definition good_const (c : Z) : Prop := c = 1 \/ c = cfg_BECH32M_CONST.

Lemma good_const_cross s p : good_const p -> good_const (Z.lxor s p) -> s = 0 \/ s = cross_const.
Proof.
  intros Hp Hq.
  assert (Es : s = Z.lxor (Z.lxor s p) p)
    by (rewrite Z.lxor_assoc, Z.lxor_nilpotent, Z.lxor_0_r; reflexivity).
  rewrite Es. unfold cross_const. destruct Hp as [-> | ->], Hq as [-> | ->];
    rewrite ?Z.lxor_nilpotent; auto.
Qed.

(* a valid word (polymod = one of the two constants) with one substituted value, at most 90 values behind
   it, has a polymod that is neither constant *)
Theorem single_substitution_invalid pre x x' post :
  0 <= x < 32 -> 0 <= x' < 32 -> x <> x' -> (length post < 90)%nat ->
  good_const (polymod (pre ++ x :: post)) -> ~ good_const (polymod (pre ++ x' :: post)).
Proof.
  intros Hx Hx' Hne Hk Hg Hg'. rewrite (polymod_subst pre x x' post) in Hg'.
  destruct (err_value x x' Hx Hx' Hne) as [He Hn].
  destruct (cross_table_at (Z.lxor x x') (length post) ltac:(lia) Hk) as [C _].
  destruct (good_const_cross _ _ Hg Hg') as [H|H]; [|exact (C H)].
  revert H. apply syndrome_nonzero; [lia|exact Hn].
Qed.

Theorem adjacent_transposition_invalid pre x y post :
  0 <= x < 32 -> 0 <= y < 32 -> x <> y -> (length post < 90)%nat ->
  good_const (polymod (pre ++ x :: y :: post)) -> ~ good_const (polymod (pre ++ y :: x :: post)).
Proof.
  intros Hx Hy Hne Hk Hg Hg'. rewrite polymod_transpose in Hg'.
  destruct (err_value x y Hx Hy Hne) as [He Hn].
  destruct (transpose_err _ He Hn) as [Hr Hz].
  destruct (cross_table_at (Z.lxor x y) (length post) ltac:(lia) Hk) as [_ C].
  destruct (good_const_cross _ _ Hg Hg') as [H|H]; [|exact (C H)].
  revert H. apply syndrome_nonzero; assumption.
Qed.

(* ------------------------------------------------------------------ dec_core rejects *)
Lemma dec_core_good hrp data r : dec_core hrp data = Some r -> good_const (polymod (hrp_expand hrp ++ data)).
Proof.
  unfold dec_core. cbv zeta. set (check := polymod (hrp_expand hrp ++ data)).
  destruct (Z.eqb_spec check 1) as [E|_]; [intros _; left; exact E|].
  destruct (Z.eqb_spec check cfg_BECH32M_CONST) as [E|_]; [intros _; right; exact E|].
  cbn [orb negb]. discriminate.
Qed.

Lemma dec_core_bad hrp data : ~ good_const (polymod (hrp_expand hrp ++ data)) -> dec_core hrp data = None.
Proof.
  intros Hb. unfold dec_core. cbv zeta. set (check := polymod (hrp_expand hrp ++ data)) in *.
  destruct (Z.eqb_spec check 1) as [E|_]; [exfalso; apply Hb; left; exact E|].
  destruct (Z.eqb_spec check cfg_BECH32M_CONST) as [E|_]; [exfalso; apply Hb; right; exact E|].
  reflexivity.
Qed.

(* ------------------------------------------------------------------ characters and indices *)
Lemma b32_pos_range c p : b32_pos c = Some p -> 0 <= p < 32 /\ b32_char p = c.
Proof.
  unfold b32_pos, b32_char. destruct (find_idx c alphabet_bech32) as [i|] eqn:E; [|discriminate].
  intros H. assert (p = Z.of_nat i) by congruence. subst p.
  destruct (find_idx_nth _ _ _ x00 E) as [H1 H2]. rewrite alphabet_bech32_length in H2.
  rewrite Nat2Z.id. split; [lia|exact H1].
Qed.

Lemma b32_pos_sep : b32_pos x31 = None.
Proof. reflexivity. Qed.

Lemma b32_indices_app a : forall b ds, b32_indices (a ++ b) = Some ds ->
  exists d1 d2, ds = d1 ++ d2 /\ b32_indices a = Some d1 /\ b32_indices b = Some d2.
Proof.
  induction a as [|c a IH]; intros b ds H.
  - exists [], ds. auto.
  - rewrite <- app_comm_cons in H. cbn [b32_indices] in *.
    destruct (b32_pos c) as [p|]; [|discriminate].
    destruct (b32_indices (a ++ b)) as [ps|] eqn:E; [|discriminate].
    assert (ds = p :: ps) by congruence. subst ds.
    destruct (IH b ps E) as (d1 & d2 & -> & E1 & E2).
    exists (p :: d1), d2. rewrite E1. auto.
Qed.

Lemma b32_indices_join a b d1 d2 : b32_indices a = Some d1 -> b32_indices b = Some d2 ->
  b32_indices (a ++ b) = Some (d1 ++ d2).
Proof.
  revert d1. induction a as [|c a IH]; intros d1 H1 H2.
  - cbn in H1. assert (d1 = []) by congruence. subst. exact H2.
  - rewrite <- app_comm_cons. cbn [b32_indices] in *.
    destruct (b32_pos c) as [p|]; [|discriminate].
    destruct (b32_indices a) as [ps|]; [|discriminate].
    assert (d1 = p :: ps) by congruence. subst d1.
    rewrite (IH ps eq_refl H2). reflexivity.
Qed.

Lemma b32_indices_length s : forall ds, b32_indices s = Some ds -> length ds = length s.
Proof.
  induction s as [|c s IH]; intros ds H; cbn [b32_indices] in H.
  - assert (ds = []) by congruence. subst. reflexivity.
  - destruct (b32_pos c) as [p|]; [|discriminate]. destruct (b32_indices s) as [ps|]; [|discriminate].
    assert (ds = p :: ps) by congruence. subst ds. cbn [length]. rewrite (IH ps eq_refl). reflexivity.
Qed.

(* ------------------------------------------------------------------ the last separator *)
Lemma rfind_spec c s : forall pos, rfind c s = Some pos ->
  exists h t, s = h ++ c :: t /\ length h = pos /\ ~ In c t.
Proof.
  induction s as [|x r IH]; intros pos H; [discriminate|].
  cbn [rfind] in H. destruct (rfind c r) as [j|] eqn:E.
  - assert (pos = S j) by congruence. subst pos.
    destruct (IH j eq_refl) as (h & t & -> & Hl & Hn).
    exists (x :: h), t. cbn [length]. rewrite Hl. auto.
  - destruct (beq x c) eqn:Eb; [|discriminate]. apply beq_true in Eb. subst x.
    assert (pos = O) by congruence. subst pos.
    exists [], r. repeat split; try reflexivity.
    intros Hin. clear IH H. induction r as [|y r IHr]; [inversion Hin|].
    cbn [rfind] in E. destruct (rfind c r) as [j|] eqn:E2; [discriminate|].
    destruct (beq y c) eqn:Eb; [discriminate|]. apply beq_false in Eb.
    destruct Hin as [->|Hin]; [congruence|]. apply IHr; [reflexivity|exact Hin].
Qed.

(* ------------------------------------------------------------------ string level *)
(* s = a ++ m ++ b is accepted and m lies in the data part; m is replaced by m' of the same length that
   contains no separator: either the result is refused outright, or both strings reach the checksum test
   with the same human-readable part and data values that differ only in the values of m / m' *)
Lemma data_part_replace a m m' b r :
  lib_bech32_dec (a ++ m ++ b) = Some r ->
  (exists pos, rfind x31 (map lower_byte (a ++ m ++ b)) = Some pos /\ (pos < length a)%nat) ->
  length m' = length m ->
  (~ In x31 (map lower_byte m') \/ incl (map lower_byte m') (map lower_byte m)) ->
  lib_bech32_dec (a ++ m' ++ b) = None \/
  exists h d1 dm dm' d2,
    dec_core h (d1 ++ dm ++ d2) = Some r /\
    lib_bech32_dec (a ++ m' ++ b) = dec_core h (d1 ++ dm' ++ d2) /\
    b32_indices (map lower_byte m) = Some dm /\ b32_indices (map lower_byte m') = Some dm' /\
    (length m + length d2 < 90)%nat.
Proof.
  intros Hdec (pos & Hpos & Hlt) Hmm Hsep.
  rewrite lib_bech32_dec_eq in Hdec. rewrite lib_bech32_dec_eq.
  destruct (negb (forallb printable (a ++ m' ++ b)) || negb (case_ok (a ++ m' ++ b))); [left; reflexivity|].
  destruct (negb (forallb printable (a ++ m ++ b)) || negb (case_ok (a ++ m ++ b))); [discriminate|].
  cbv zeta in Hdec. cbv zeta. rewrite Hpos in Hdec.
  rewrite !map_app in *.
  set (la := map lower_byte a) in *. set (lb := map lower_byte b) in *.
  set (lm := map lower_byte m) in *. set (lm' := map lower_byte m') in *.
  assert (Hla : length la = length a) by (subst la; apply map_length).
  assert (Hlm : length lm' = length lm) by (subst lm lm'; rewrite !map_length; exact Hmm).
  destruct (rfind_spec _ _ _ Hpos) as (h & t & Es & Hh & Hnt).
  (* the separator lies inside la *)
  assert (Ea : exists a2, la = h ++ x31 :: a2 /\ t = a2 ++ lm ++ lb).
  { assert (Ef : firstn (S pos) (la ++ lm ++ lb) = firstn (S pos) la)
      by (rewrite firstn_app; replace (S pos - length la)%nat with O by lia; cbn [firstn]; apply app_nil_r).
    assert (Ef2 : firstn (S pos) (h ++ x31 :: t) = h ++ [x31]).
    { replace (h ++ x31 :: t) with ((h ++ [x31]) ++ t) by (rewrite <- app_assoc; reflexivity).
      apply firstn_app_exact. rewrite app_length. cbn [length]. lia. }
    rewrite Es in Ef. rewrite Ef2 in Ef.
    exists (skipn (S pos) la). split.
    - rewrite <- (firstn_skipn (S pos) la) at 1. rewrite <- Ef, <- app_assoc. reflexivity.
    - assert (Esk : skipn (S pos) (h ++ x31 :: t) = t).
      { replace (h ++ x31 :: t) with ((h ++ [x31]) ++ t) by (rewrite <- app_assoc; reflexivity).
        apply skipn_app_exact. rewrite app_length. cbn [length]. lia. }
      rewrite <- Esk, <- Es. rewrite skipn_app. replace (S pos - length la)%nat with O by lia. reflexivity. }
  destruct Ea as (a2 & Ela & Et).
  assert (Hsep' : ~ In x31 lm').
  { destruct Hsep as [H|H]; [exact H|]. intros Hin. apply Hnt. rewrite Et.
    apply in_or_app. right. apply in_or_app. left. apply H. exact Hin. }
  assert (Hpos' : rfind x31 (la ++ lm' ++ lb) = Some pos).
  { rewrite Ela, <- app_assoc, <- app_comm_cons, <- Hh. apply rfind_sep.
    intros Hin. apply in_app_or in Hin. destruct Hin as [Hin|Hin]; [|apply in_app_or in Hin; destruct Hin as [Hin|Hin]].
    - apply Hnt. rewrite Et. apply in_or_app. left. exact Hin.
    - apply Hsep'. exact Hin.
    - apply Hnt. rewrite Et. apply in_or_app. right. apply in_or_app. right. exact Hin. }
  rewrite Hpos'.
  assert (Hlen : length (la ++ lm' ++ lb) = length (la ++ lm ++ lb))
    by (rewrite !app_length, Hlm; reflexivity).
  rewrite Hlen.
  destruct ((pos <? 1)%nat || (length (la ++ lm ++ lb) <? pos + 7)%nat || (90 <? length (la ++ lm ++ lb))%nat) eqn:Eb;
    [discriminate|].
  assert (H90 : (length (la ++ lm ++ lb) <= 90)%nat).
  { apply orb_false_iff in Eb. destruct Eb as [_ Eb]. apply Nat.ltb_ge in Eb. exact Eb. }
  (* split both strings at the separator *)
  assert (Esk : forall z, skipn (S pos) (la ++ z ++ lb) = a2 ++ z ++ lb).
  { intros z. rewrite Ela, <- app_assoc, <- app_comm_cons.
    replace (h ++ x31 :: a2 ++ z ++ lb) with ((h ++ [x31]) ++ a2 ++ z ++ lb) by (rewrite <- app_assoc; reflexivity).
    apply skipn_app_exact. rewrite app_length. cbn [length]. lia. }
  assert (Efn : forall z, firstn pos (la ++ z ++ lb) = h).
  { intros z. rewrite Ela, <- app_assoc. apply firstn_app_exact. lia. }
  rewrite Esk, Efn in Hdec. rewrite Esk, Efn.
  destruct (b32_indices (a2 ++ lm ++ lb)) as [data|] eqn:Ei; [|discriminate].
  destruct (b32_indices_app a2 (lm ++ lb) data Ei) as (d1 & dt & -> & E1 & E2).
  destruct (b32_indices_app lm lb dt E2) as (dm & d2 & -> & E3 & E4).
  destruct (b32_indices (a2 ++ lm' ++ lb)) as [data'|] eqn:Ei'; [|left; reflexivity].
  destruct (b32_indices_app a2 (lm' ++ lb) data' Ei') as (d1' & dt' & -> & E1' & E2').
  destruct (b32_indices_app lm' lb dt' E2') as (dm' & d2' & -> & E3' & E4').
  assert (d1' = d1) by congruence. assert (d2' = d2) by congruence. subst d1' d2'.
  right. exists h, d1, dm, dm', d2. repeat split; try assumption.
  rewrite (b32_indices_length _ _ E4). rewrite !app_length in H90.
  assert (length lm = length m) by (subst lm; apply map_length). lia.
Qed.

(* s is accepted; the character c of its data part is replaced by c' (a different character, not the
   separator, compared after lower-casing): the result is rejected *)
Theorem substitution_rejected a c c' b r :
  lib_bech32_dec (a ++ c :: b) = Some r ->
  (exists pos, rfind x31 (map lower_byte (a ++ c :: b)) = Some pos /\ (pos < length a)%nat) ->
  lower_byte c' <> lower_byte c -> lower_byte c' <> x31 ->
  lib_bech32_dec (a ++ c' :: b) = None.
Proof.
  intros Hdec Hpos Hne Hsep.
  destruct (data_part_replace a [c] [c'] b r Hdec Hpos eq_refl) as [H|H]; [|exact H|].
  { left. cbn [map In]. intros [H|[]]. apply Hsep. exact H. }
  destruct H as (h & d1 & dm & dm' & d2 & D1 & D2 & I1 & I2 & L).
  cbn [app] in D2. rewrite D2. clear D2.
  cbn [map b32_indices] in I1, I2.
  destruct (b32_pos (lower_byte c)) as [x|] eqn:Ex; [|discriminate].
  destruct (b32_pos (lower_byte c')) as [x'|] eqn:Ex'; [|discriminate].
  assert (dm = [x]) by congruence. assert (dm' = [x']) by congruence. subst dm dm'.
  destruct (b32_pos_range _ _ Ex) as [Rx Cx]. destruct (b32_pos_range _ _ Ex') as [Rx' Cx'].
  assert (Hxx : x <> x') by (intros ->; apply Hne; rewrite <- Cx, <- Cx'; reflexivity).
  apply dec_core_bad. apply dec_core_good in D1. cbn [app] in *.
  rewrite app_assoc in D1. rewrite app_assoc.
  apply (single_substitution_invalid _ x x' d2 Rx Rx' Hxx); [|exact D1]. cbn [length] in L. lia.
Qed.

(* two adjacent, different characters of the data part swapped *)
Theorem transposition_rejected a c1 c2 b r :
  lib_bech32_dec (a ++ c1 :: c2 :: b) = Some r ->
  (exists pos, rfind x31 (map lower_byte (a ++ c1 :: c2 :: b)) = Some pos /\ (pos < length a)%nat) ->
  lower_byte c1 <> lower_byte c2 ->
  lib_bech32_dec (a ++ c2 :: c1 :: b) = None.
Proof.
  intros Hdec Hpos Hne.
  destruct (data_part_replace a [c1; c2] [c2; c1] b r Hdec Hpos eq_refl) as [H|H]; [|exact H|].
  { right. cbn [map]. intros z [<-|[<-|[]]]; cbn [In]; auto. }
  destruct H as (h & d1 & dm & dm' & d2 & D1 & D2 & I1 & I2 & L).
  cbn [app] in D2. rewrite D2. clear D2.
  cbn [map b32_indices] in I1, I2.
  destruct (b32_pos (lower_byte c1)) as [x|] eqn:Ex; [|discriminate].
  destruct (b32_pos (lower_byte c2)) as [y|] eqn:Ey; [|discriminate].
  assert (dm = [x; y]) by congruence. assert (dm' = [y; x]) by congruence. subst dm dm'.
  destruct (b32_pos_range _ _ Ex) as [Rx Cx]. destruct (b32_pos_range _ _ Ey) as [Ry Cy].
  assert (Hxy : x <> y) by (intros ->; apply Hne; rewrite <- Cx, <- Cy; reflexivity).
  apply dec_core_bad. apply dec_core_good in D1. cbn [app] in *.
  rewrite app_assoc in D1. rewrite app_assoc.
  apply (adjacent_transposition_invalid _ x y d2 Rx Ry Hxy); [|exact D1]. cbn [length] in L. lia.
Qed.

(* ------------------------------------------------------------------ form errors *)
Lemma map_fix_in {A} (f : A -> A) (l : list A) : map f l = l -> forall x, In x l -> f x = x.
Proof.
  induction l as [|y l IH]; intros E x Hin; [inversion Hin|].
  cbn [map] in E. assert (f y = y) by congruence. assert (map f l = l) by congruence.
  destruct Hin as [<-|Hin]; [assumption|apply IH; assumption].
Qed.

(* a string with both an upper-case and a lower-case letter is refused *)
Theorem mixed_case_rejected s c1 c2 :
  In c1 s -> lower_byte c1 <> c1 -> In c2 s -> upper_byte c2 <> c2 -> lib_bech32_dec s = None.
Proof.
  intros I1 N1 I2 N2. rewrite lib_bech32_dec_eq.
  assert (Hc : case_ok s = false).
  { unfold case_ok. apply orb_false_iff. split.
    - destruct (bytes_eqb (map lower_byte s) s) eqn:E; [|reflexivity].
      apply bytes_eqb_true in E. exfalso. apply N1. apply (map_fix_in _ _ E). exact I1.
    - destruct (bytes_eqb (map upper_byte s) s) eqn:E; [|reflexivity].
      apply bytes_eqb_true in E. exfalso. apply N2. apply (map_fix_in _ _ E). exact I2. }
  rewrite Hc. rewrite orb_true_r. reflexivity.
Qed.

(* more than 90 characters, or no separator, or fewer than six characters after it: refused *)
Theorem overlong_rejected s : (90 < length s)%nat -> lib_bech32_dec s = None.
Proof.
  intros H. rewrite lib_bech32_dec_eq.
  destruct (negb (forallb printable s) || negb (case_ok s)); [reflexivity|]. cbv zeta.
  destruct (rfind x31 (map lower_byte s)) as [pos|]; [|reflexivity].
  rewrite map_length. apply Nat.ltb_lt in H. rewrite H. rewrite orb_true_r. reflexivity.
Qed.

(* a character outside the 32-character set in the data part: refused *)
Theorem foreign_character_rejected s pos c :
  rfind x31 (map lower_byte s) = Some pos -> In c (skipn (S pos) (map lower_byte s)) -> b32_pos c = None ->
  lib_bech32_dec s = None.
Proof.
  intros Hp Hin Hc. rewrite lib_bech32_dec_eq.
  destruct (negb (forallb printable s) || negb (case_ok s)); [reflexivity|]. cbv zeta. rewrite Hp.
  destruct ((pos <? 1)%nat || (length (map lower_byte s) <? pos + 7)%nat || (90 <? length (map lower_byte s))%nat);
    [reflexivity|].
  assert (Hn : forall t, In c t -> b32_indices t = None).
  { induction t as [|y t IH]; intros Hi; [inversion Hi|]. cbn [b32_indices].
    destruct Hi as [->|Hi]; [rewrite Hc; reflexivity|].
    rewrite (IH Hi). destruct (b32_pos y); reflexivity. }
  rewrite (Hn _ Hin). reflexivity.
Qed.
