(* Proofs/AddrScriptLib.v — C05, library side.
   Each theorem quantifies over every payload (all 2^160 / 2^256 of them), every witness version and
   every network of the regenerated table.  Proof method: the finitely many shapes (network, script
   type, witness version, payload length, repair flags) are enumerated; in each shape the payload is a
   list of symbolic bytes and the model is evaluated by the kernel's VM on that symbolic input.
   An edit of networks.json / SCRIPT_TYPES changes Gen/*.v, and these evaluations are redone on the
   new tables — if a prefix collision or a template change breaks the mapping, the proof breaks. *)
From Coq Require Import ZArith List Bool Lia String.
From Coq.Strings Require Import Byte.
From Verif Require Import Lib.Bytes Gen.GenNetworks Gen.GenConsts Model.Wire Model.AddrScript.
From Verif Require Import Proofs.ScriptCodec Proofs.AddrScriptSpec.
Import ListNotations.
Open Scope Z_scope.

(* ---------- enumeration helpers ---------- *)
Lemma len_S {A} (l : list A) n : List.length l = S n -> exists x r, l = x :: r /\ List.length r = n.
Proof. destruct l as [|x r]; [discriminate|]. intros H. exists x, r. split; [reflexivity|]. simpl in H. congruence. Qed.
Lemma len_0 {A} (l : list A) : List.length l = 0%nat -> l = [].
Proof. destruct l; [reflexivity|discriminate]. Qed.

Ltac explode h H :=
  lazymatch type of H with
  | List.length h = O => apply len_0 in H; subst h
  | List.length h = S _ => let x := fresh "b" in let r := fresh "r" in
        apply len_S in H; destruct H as (x & r & -> & H); explode r H
  end.

Ltac each_net H := unfold all_networks in H; simpl in H; repeat (destruct H as [<-|H]); [..|contradiction].

Definition versions_1_16 : list Z := [1; 2; 3; 4; 5; 6; 7; 8; 9; 10; 11; 12; 13; 14; 15; 16].

Lemma standard_inv st w p : standard (mkdest st w p) = true ->
  match st with
  | P2pkh | P2sh | P2wpkh => w = 0 /\ List.length p = 20%nat
  | P2wsh => w = 0 /\ List.length p = 32%nat
  | P2tr => In w versions_1_16 /\ (List.length p = 20%nat \/ List.length p = 32%nat)
  end.
Proof.
  unfold standard. cbn [d_stype d_witver d_payload]. intros H.
  destruct st; try (apply andb_true_iff in H; destruct H as [Hw Hn]; apply Z.eqb_eq in Hw, Hn;
                    split; [exact Hw | unfold blen in Hn; lia]).
  apply andb_true_iff in H. destruct H as [H H3]. apply andb_true_iff in H. destruct H as [H1 H2].
  apply Z.leb_le in H1, H2. split.
  - unfold versions_1_16. simpl.
    assert (w = 1 \/ w = 2 \/ w = 3 \/ w = 4 \/ w = 5 \/ w = 6 \/ w = 7 \/ w = 8 \/ w = 9 \/ w = 10 \/ w = 11 \/
            w = 12 \/ w = 13 \/ w = 14 \/ w = 15 \/ w = 16) as Hc by lia.
    repeat (destruct Hc as [Hc|Hc]; [subst w; tauto|]). subst w. tauto.
  - apply orb_true_iff in H3. destruct H3 as [E|E]; apply Z.eqb_eq in E; unfold blen in E; [left|right]; lia.
Qed.

(* all shapes of a standard destination, payload exploded into symbolic bytes *)
Ltac std_shapes d Hstd :=
  let st := fresh "st" in let w := fresh "w" in let p := fresh "p" in
  destruct d as [st w p]; apply standard_inv in Hstd;
  destruct st;
  [ destruct Hstd as [-> Hl]; explode p Hl
  | destruct Hstd as [-> Hl]; explode p Hl
  | destruct Hstd as [-> Hl]; explode p Hl
  | destruct Hstd as [-> Hl]; explode p Hl
  | let Hw := fresh "Hw" in
    destruct Hstd as [Hw [Hl|Hl]]; explode p Hl;
    unfold versions_1_16 in Hw; simpl in Hw; repeat (destruct Hw as [<-|Hw]); try contradiction ].

Ltac guard_false Hg := exfalso; destruct Hg as [Hg|Hg]; vm_compute in Hg; discriminate Hg.
Ltac out_ok := vm_compute; eexists; repeat split; reflexivity.

(* ---------- get_data_type on a 20- or 32-byte item ---------- *)
Lemma gdt_hash d : (blen d =? 20) || (blen d =? 32) = true -> get_data_type d = DData.
Proof.
  intros H. unfold get_data_type. fold (blen d).
  apply orb_true_iff in H.
  destruct (starts_with d 48), (starts_with d 2), (starts_with d 3), (starts_with d 4);
    destruct H as [H|H]; apply Z.eqb_eq in H; rewrite H; reflexivity.
Qed.

Section WithH.
Variable H160 : bytes -> bytes.

(* =========================== address string -> locking script =========================== *)
Lemma lock_is_spec_str fx net d :
  In net all_networks -> standard d = true ->
  (fx_witver fx = true \/ cls_witver_str d = false) ->
  out_is (lib_out_addr_str H160 fx net (spec_address net d))
         (spec_lock_script d) (stype_name (d_stype d)) (nw_name net) OaGiven.
Proof.
  intros Hn Hstd Hg. destruct fx as [fw fn fp]. cbn [fx_witver] in Hg.
  std_shapes d Hstd; each_net Hn; destruct fw; first [ out_ok | guard_false Hg ].
Qed.

(* =========================== public_hash= + script_type= =========================== *)
Lemma lock_is_spec_hash fx net d :
  In net all_networks -> standard d = true ->
  (fx_witver fx = true \/ cls_witver_obj d = false) ->
  out_is (lib_out_hash H160 fx net (d_payload d) (Some (stype_name (d_stype d))) (d_witver d) None)
         (spec_lock_script d) (stype_name (d_stype d)) (nw_name net) (OaIs (spec_address net d)).
Proof.
  intros Hn Hstd Hg. destruct fx as [fw fn fp]. cbn [fx_witver] in Hg.
  std_shapes d Hstd; each_net Hn; destruct fw; first [ out_ok | guard_false Hg ].
Qed.

(* =========================== Address(hashed_data=, script_type=, witver=, network=) object =========================== *)
Lemma lock_is_spec_obj fx net d :
  In net all_networks -> standard d = true ->
  (fx_witver fx = true \/ cls_witver_obj d = false) ->
  exists ao,
    lib_address_new H160 (d_payload d) None (Some (stype_name (d_stype d))) None None (d_witver d) net = Some ao /\
    ao_addr ao = spec_address net d /\
    out_is (lib_out_addr_obj H160 fx net ao)
           (spec_lock_script d) (stype_name (d_stype d)) (nw_name net) (OaIs (spec_address net d)).
Proof.
  intros Hn Hstd Hg. destruct fx as [fw fn fp]. cbn [fx_witver] in Hg.
  std_shapes d Hstd; each_net Hn; destruct fw, fn, fp;
    first [ guard_false Hg
          | vm_compute; eexists; split; [reflexivity|]; split; [reflexivity|]; eexists; repeat split; reflexivity ].
Qed.

(* =========================== Address.parse(address, network=) object =========================== *)
Lemma lock_is_spec_parse fx net d :
  In net all_networks -> standard d = true ->
  (fx_witver fx = true \/ cls_witver_parse d = false) ->
  exists ao,
    lib_address_parse H160 fx (spec_address net d) (Some (nw_name net)) = Some ao /\
    ao_addr ao = spec_address net d /\
    out_is (lib_out_addr_obj H160 fx net ao)
           (spec_lock_script d) (stype_name (d_stype d)) (nw_name net) (OaIs (spec_address net d)).
Proof.
  intros Hn Hstd Hg. destruct fx as [fw fn fp]. cbn [fx_witver] in Hg.
  std_shapes d Hstd; each_net Hn; destruct fw, fn, fp;
    first [ guard_false Hg
          | vm_compute; eexists; split; [reflexivity|]; split; [reflexivity|]; eexists; repeat split; reflexivity ].
Qed.

(* without a network argument Address.parse picks the first network that has the prefix; with the
   repaired network check the output still lands on the transaction's network *)
Lemma lock_is_spec_parse_nonet fx net d :
  In net all_networks -> standard d = true ->
  fx_witver fx = true -> fx_netobj fx = true ->
  exists ao,
    lib_address_parse H160 fx (spec_address net d) None = Some ao /\
    ao_addr ao = spec_address net d /\
    out_is (lib_out_addr_obj H160 fx net ao)
           (spec_lock_script d) (stype_name (d_stype d)) (nw_name net) (OaIs (spec_address net d)).
Proof.
  intros Hn Hstd Hw Ho. destruct fx as [fw fn fp]. cbn [fx_witver fx_netobj] in Hw, Ho. subst fw fn.
  std_shapes d Hstd; each_net Hn; destruct fp;
    (vm_compute; eexists; split; [reflexivity|]; split; [reflexivity|]; eexists; repeat split; reflexivity).
Qed.

(* =========================== raw locking script -> type and address =========================== *)
Lemma lib_out_script_eq fx net s : s <> [] ->
  lib_out_script H160 fx net s =
  lib_output_k H160 fx {| a_addr := AaNone; a_hash := []; a_pubkey := []; a_lock := s; a_stype := None;
                          a_witver := 0; a_enc := None; a_net := net |} (lib_script_parse s).
Proof. destruct s; [congruence|reflexivity]. Qed.

Definition std_cmds (d : dest) : list cmd :=
  match d_stype d with
  | P2pkh => [Op x76; Op xa9; Data (d_payload d); Op x88; Op xac]
  | P2sh => [Op xa9; Data (d_payload d); Op x87]
  | _ => [Op (spec_opn (d_witver d)); Data (d_payload d)]
  end.

(* the real parser (whole-script heuristic, sub-script re-parsing, multisig checks included) reads a
   standard locking script as exactly its template items *)
Lemma parse_std d : standard d = true ->
  lib_parse_bytes (fun _ => true) (fun _ => true) (spec_lock_script d) = POk (items_of_cmds (std_cmds d)).
Proof.
  intros Hstd.
  assert (Hg : get_data_type (d_payload d) = DData).
  { apply gdt_hash. destruct d as [st w p]. unfold standard in Hstd. cbn [d_stype d_witver d_payload] in *.
    destruct st; apply andb_true_iff in Hstd; destruct Hstd as [_ H]; try (rewrite H; reflexivity || (rewrite H; apply orb_true_r)).
    exact H. }
  unfold lib_parse_bytes.
  refine (proj1 (script_roundtrip_lib _ _ (std_cmds d) (spec_lock_script d) _ _ _ _ _)).
  - destruct d as [st w p]. apply standard_inv in Hstd.
    destruct st; cbn [std_cmds d_stype d_payload d_witver forallb wf_cmd];
      try (destruct Hstd as [_ Hl]; rewrite Hl; reflexivity).
    destruct Hstd as [Hw [Hl|Hl]]; rewrite Hl; unfold versions_1_16 in Hw; simpl in Hw;
      repeat (destruct Hw as [<-|Hw]; [reflexivity|]); contradiction.
  - destruct d as [st w p]. cbn [d_payload] in Hg.
    destruct st; cbn [std_cmds d_stype d_payload d_witver inert_from]; rewrite Hg; reflexivity.
  - destruct d as [st w p]. apply standard_inv in Hstd.
    destruct st; cbn [std_cmds d_stype d_payload d_witver];
      try (destruct Hstd as [_ Hl]; explode p Hl; reflexivity).
    destruct Hstd as [Hw [Hl|Hl]]; explode p Hl; unfold versions_1_16 in Hw; simpl in Hw;
      repeat (destruct Hw as [<-|Hw]; [reflexivity|]); contradiction.
  - destruct d as [st w p]. apply standard_inv in Hstd.
    destruct st; cbn [spec_lock_script d_stype d_payload d_witver spec_push];
      try (destruct Hstd as [_ Hl]; unfold blen; rewrite ?app_length, Hl; reflexivity).
    destruct Hstd as [Hw [Hl|Hl]]; unfold blen; cbn [List.length]; rewrite Hl; unfold versions_1_16 in Hw; simpl in Hw;
      repeat (destruct Hw as [<-|Hw]; [reflexivity|]); contradiction.
Qed.

Lemma script_parse_std d : standard d = true ->
  lib_script_parse (spec_lock_script d) =
  SOk (items_of_cmds (std_cmds d)) [stype_name (d_stype d)] (d_payload d).
Proof.
  intros Hstd. unfold lib_script_parse. rewrite (parse_std d Hstd).
  assert (Hg : get_data_type (d_payload d) = DData).
  { apply gdt_hash. destruct d as [st w p]. unfold standard in Hstd. cbn [d_stype d_witver d_payload] in *.
    destruct st; apply andb_true_iff in Hstd; destruct Hstd as [_ H]; try (rewrite H; reflexivity || (rewrite H; apply orb_true_r)).
    exact H. }
  destruct d as [st w p]. cbn [d_payload] in Hg. apply standard_inv in Hstd.
  destruct st; cbn [std_cmds d_stype d_payload d_witver items_of_cmds map has_keysig existsb item_keysig bp_of_item];
    rewrite Hg; cbn [orb];
    try (destruct Hstd as [-> Hl]; unfold blen; rewrite Hl; vm_compute; reflexivity).
  destruct Hstd as [Hw [Hl|Hl]]; unfold blen; rewrite Hl; unfold versions_1_16 in Hw; simpl in Hw;
    repeat (destruct Hw as [<-|Hw]; [vm_compute; reflexivity|]); contradiction.
Qed.

Lemma lib_inverse_script fx net d :
  In net all_networks -> standard d = true ->
  out_is (lib_out_script H160 fx net (spec_lock_script d))
         (spec_lock_script d) (stype_name (d_stype d)) (nw_name net) (OaIs (spec_address net d)).
Proof.
  intros Hn Hstd.
  rewrite lib_out_script_eq by (destruct d as [[] w p]; discriminate).
  rewrite (script_parse_std d Hstd).
  std_shapes d Hstd; each_net Hn; out_ok.
Qed.

(* =========================== foreign networks =========================== *)
Lemma foreign_refused_str fx A B d :
  In A all_networks -> In B all_networks ->
  addr_on_network B (spec_address A d) = false ->
  lib_out_addr_str H160 fx B (spec_address A d) = RErr.
Proof.
  intros HA HB Hf. destruct d as [st w p].
  destruct st; each_net HA; each_net HB; first [ discriminate Hf | vm_compute; reflexivity ].
Qed.

(* the repaired object check, as a fact about the tables: an address of A that carries none of B's
   prefixes does not pass for B, whatever the object's other fields are *)
Lemma obj_network_refused fx o A B d :
  In A all_networks -> In B all_networks ->
  ao_addr o = spec_address A d ->
  String.eqb (nw_name (ao_net o)) (nw_name B) = false ->
  addr_on_network B (spec_address A d) = false ->
  lib_obj_network_ok fx o B = false.
Proof.
  intros HA HB Ha Hne Hf. unfold lib_obj_network_ok. rewrite Hne, Ha. cbn [orb].
  destruct d as [st w p]. destruct (ao_enc o);
  destruct st; each_net HA; each_net HB; first [ discriminate Hf | vm_compute; reflexivity ].
Qed.

Lemma foreign_refused_obj fx o B :
  fx_netobj fx = true -> lib_obj_network_ok fx o B = false ->
  lib_out_addr_obj H160 fx B o = RErr.
Proof.
  intros Hfx Hok. unfold lib_out_addr_obj, lib_output.
  cbn [a_addr a_hash a_pubkey a_lock a_stype a_witver a_enc a_net].
  unfold lib_output_k. cbn [a_addr a_hash a_pubkey a_lock a_stype a_witver a_enc a_net].
  rewrite Hfx, Hok. reflexivity.
Qed.

Lemma foreign_refused_hd fx o pub w ms B :
  fx_netobj fx = true -> lib_obj_network_ok fx o B = false ->
  lib_out_hd H160 fx B o pub w ms = RErr.
Proof.
  intros Hfx Hok. unfold lib_out_hd, lib_output.
  cbn [a_addr a_hash a_pubkey a_lock a_stype a_witver a_enc a_net].
  unfold lib_output_k. cbn [a_addr a_hash a_pubkey a_lock a_stype a_witver a_enc a_net].
  rewrite Hfx, Hok. destruct pub; reflexivity.
Qed.

End WithH.

(* =========================== side conditions over the regenerated tables =========================== *)
(* no version byte is a P2PKH prefix of one network and a P2SH prefix of another (or the same) one:
   type inference of a Base58 address never depends on which network is asked *)
Definition p2pkh_p2sh_disjoint : bool :=
  forallb (fun a => forallb (fun b => negb (bytes_eqb (nw_prefix_address a) (nw_prefix_address_p2sh b)))
                            all_networks) all_networks.
Lemma prefix_kinds_disjoint : p2pkh_p2sh_disjoint = true.
Proof. vm_compute. reflexivity. Qed.

(* every prefix is one byte (Base58) / non-empty lower-case text (Bech32) and network names are unique *)
Definition prefixes_wellformed : bool :=
  forallb (fun n => (List.length (nw_prefix_address n) =? 1)%nat && (List.length (nw_prefix_address_p2sh n) =? 1)%nat
                    && negb ((List.length (nw_prefix_bech32 n) =? 0)%nat)
                    && bytes_eqb (map upper_byte (map (fun b => if (65 <=? bz b) && (bz b <=? 90) then zb (bz b + 32) else b)
                                                      (nw_prefix_bech32 n)))
                                 (map upper_byte (nw_prefix_bech32 n))
                    && forallb (fun b => negb ((65 <=? bz b) && (bz b <=? 90))) (nw_prefix_bech32 n))
          all_networks.
Lemma prefixes_ok : prefixes_wellformed = true.
Proof. vm_compute. reflexivity. Qed.

Fixpoint names_unique (l : list network) : bool :=
  match l with
  | [] => true
  | n :: r => negb (existsb (fun m => String.eqb (nw_name m) (nw_name n)) r) && names_unique r
  end.
Lemma network_names_unique : names_unique all_networks = true.
Proof. vm_compute. reflexivity. Qed.

(* which networks share all three address prefixes (an address of one is an address of the other):
   exactly the pairs inside {testnet, testnet4, signet} and {litecoin, litecoin_legacy} minus P2SH ... *)
Definition share_all (a b : network) : bool :=
  bytes_eqb (nw_prefix_address a) (nw_prefix_address b) && bytes_eqb (nw_prefix_address_p2sh a) (nw_prefix_address_p2sh b)
  && bytes_eqb (nw_prefix_bech32 a) (nw_prefix_bech32 b).
Definition sharing_pairs : list (string * string) :=
  flat_map (fun a => flat_map (fun b => if share_all a b && negb (String.eqb (nw_name a) (nw_name b))
                                        then [(nw_name a, nw_name b)] else []) all_networks) all_networks.
Lemma sharing_pairs_are :
  sharing_pairs = [("testnet", "testnet4"); ("testnet", "signet"); ("testnet4", "testnet"); ("testnet4", "signet");
                   ("signet", "testnet"); ("signet", "testnet4")]%string.
Proof. vm_compute. reflexivity. Qed.

(* the locking templates the five standard types use are exactly these (SCRIPT_TYPES as regenerated) *)
Lemma templates_are :
  map (fun st => option_map row_tpl (st_lookup st)) [s_p2pkh; s_p2sh; s_p2wpkh; s_p2wsh; s_p2tr] =
  [Some [inl 118; inl 169; inr s_data; inl 136; inl 172]; Some [inl 169; inr s_data; inl 135];
   Some [inl 0; inr s_data]; Some [inl 0; inr s_data]; Some [inr s_op_n; inr s_data]].
Proof. vm_compute. reflexivity. Qed.
