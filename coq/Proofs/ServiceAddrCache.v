(* Proofs/ServiceAddrCache.v — the address index of the cache (Model/CacheModel.v: xcache, xc_gettransactions,
   xc_getutxos, xc_store_tx) returns what was stored: a cached answer is the slice a provider holding the stored
   history would give for the same (address, after_txid, limit). *)
From Coq Require Import ZArith List Bool Lia Sorted Permutation.
From Verif Require Import Gen.GenService Gen.GenConsts Gen.GenNetworks Model.CacheModel Model.Service
  Proofs.ServiceExec Proofs.ServiceCache Proofs.ServiceWrappers Proofs.ServiceGlue.
Import ListNotations.
Open Scope Z_scope.

(* ------------------------------------------------------------------ the (block_height, index) order *)
Definition row_le (x y : row) : Prop := row_lt y x = false.

Lemma row_lt_spec x y :
  row_lt x y = true <->
  atx_height (r_tx x) < atx_height (r_tx y) \/ (atx_height (r_tx x) = atx_height (r_tx y) /\ r_index x < r_index y).
Proof.
  unfold row_lt. rewrite orb_true_iff, andb_true_iff, !Z.ltb_lt, Z.eqb_eq. tauto.
Qed.

Lemma row_le_spec x y :
  row_le x y <->
  atx_height (r_tx x) < atx_height (r_tx y) \/ (atx_height (r_tx x) = atx_height (r_tx y) /\ r_index x <= r_index y).
Proof.
  unfold row_le. destruct (row_lt y x) eqn:E.
  - apply row_lt_spec in E. split; [discriminate | lia].
  - split; [intros _ | reflexivity].
    assert (H : ~ (atx_height (r_tx y) < atx_height (r_tx x) \/
                   (atx_height (r_tx y) = atx_height (r_tx x) /\ r_index y < r_index x))).
    { intros H. apply row_lt_spec in H. congruence. }
    lia.
Qed.

(* sorting a list that already is in order changes nothing (equal keys keep their place: the sort is stable) *)
Lemma insert_row_head x l : Forall (row_le x) l -> insert_row x l = x :: l.
Proof.
  destruct l as [|y tl]; [reflexivity |]. intros H. inversion H; subst. simpl.
  unfold row_le in H2. rewrite H2. reflexivity.
Qed.

Lemma sort_rows_sorted_id l : StronglySorted row_le l -> sort_rows l = l.
Proof.
  induction 1 as [|x l Hs IH Hf]; [reflexivity |]. simpl. rewrite IH. apply insert_row_head; exact Hf.
Qed.

Lemma StronglySorted_filter {A} (R : A -> A -> Prop) f l : StronglySorted R l -> StronglySorted R (filter f l).
Proof.
  induction 1 as [|x l Hs IH Hf]; simpl; [constructor |].
  destruct (f x); [| exact IH]. constructor; [exact IH |].
  apply Forall_forall. intros y Hy. apply filter_In in Hy. destruct Hy as [Hy _].
  rewrite Forall_forall in Hf. apply Hf; exact Hy.
Qed.

Lemma StronglySorted_app_inv {A} (R : A -> A -> Prop) l1 l2 :
  StronglySorted R (l1 ++ l2) ->
  StronglySorted R l1 /\ StronglySorted R l2 /\ (forall x y, In x l1 -> In y l2 -> R x y).
Proof.
  induction l1 as [|a l1 IH]; simpl; intros H.
  - repeat split; [constructor | exact H | intros x y []].
  - inversion H; subst. destruct (IH H2) as [H1 [H4 H5]]. rewrite Forall_forall in H3.
    repeat split; [constructor; [exact H1 | apply Forall_forall; intros y Hy; apply H3; apply in_or_app; left; exact Hy]
                  | exact H4 |].
    intros x y [Hx | Hx] Hy; [subst x; apply H3; apply in_or_app; right; exact Hy | apply H5; assumption].
Qed.

(* ------------------------------------------------------------------ the after_txid loop *)
Definition row_id (r : row) : Z := atx_id (r_tx r).

Lemma after_reset_absent aid acc l :
  ~ In aid (map row_id l) -> after_reset aid acc l = acc ++ l.
Proof.
  revert acc. induction l as [|d tl IH]; simpl; intros acc H; [rewrite app_nil_r; reflexivity |].
  destruct (atx_id (r_tx d) =? aid) eqn:E.
  - apply Z.eqb_eq in E. exfalso. apply H. left. exact E.
  - rewrite IH by (intros Hin; apply H; right; exact Hin). rewrite <- app_assoc. reflexivity.
Qed.

Lemma after_reset_found aid acc l1 d l2 :
  row_id d = aid -> ~ In aid (map row_id l2) -> after_reset aid acc (l1 ++ d :: l2) = l2.
Proof.
  intros Hd H2. revert acc. induction l1 as [|x l1 IH]; simpl; intros acc.
  - unfold row_id in Hd. rewrite Hd, Z.eqb_refl. rewrite after_reset_absent by exact H2. reflexivity.
  - destruct (atx_id (r_tx x) =? aid); apply IH.
Qed.

Lemma drop_to_found aid l1 t l2 :
  atx_id t = aid -> ~ In aid (map atx_id l1) -> drop_to aid (l1 ++ t :: l2) = Some l2.
Proof.
  intros Ht. induction l1 as [|x l1 IH]; simpl; intros H.
  - rewrite Ht, Z.eqb_refl. reflexivity.
  - destruct (atx_id x =? aid) eqn:E; [apply Z.eqb_eq in E; exfalso; apply H; left; exact E |].
    apply IH. intros Hin. apply H. right. exact Hin.
Qed.

Lemma find_row_in txid l r : find_row txid l = Some r -> In r l /\ row_id r = txid.
Proof.
  induction l as [|x tl IH]; simpl; [discriminate |].
  destruct (atx_id (r_tx x) =? txid) eqn:E.
  - intros H; inversion H; subst. split; [left; reflexivity | apply Z.eqb_eq; exact E].
  - intros H. destruct (IH H) as [H1 H2]. split; [right; exact H1 | exact H2].
Qed.

Lemma find_row_some txid l : In txid (map row_id l) -> exists r, find_row txid l = Some r.
Proof.
  induction l as [|x tl IH]; simpl; [intros [] |].
  destruct (atx_id (r_tx x) =? txid) eqn:E; [intros _; eexists; reflexivity |].
  intros [H | H]; [unfold row_id in H; apply Z.eqb_neq in E; contradiction | apply IH; exact H].
Qed.

Lemma find_row_none txid l : ~ In txid (map row_id l) -> find_row txid l = None.
Proof.
  induction l as [|x tl IH]; simpl; [reflexivity |]. intros H.
  destruct (atx_id (r_tx x) =? txid) eqn:E; [apply Z.eqb_eq in E; exfalso; apply H; left; exact E |].
  apply IH. intros Hin. apply H. right. exact Hin.
Qed.

Lemma NoDup_map_split {A} (f : A -> Z) l1 x l2 :
  NoDup (map f (l1 ++ x :: l2)) -> ~ In (f x) (map f l1) /\ ~ In (f x) (map f l2).
Proof.
  rewrite map_app. simpl. intros H. apply NoDup_remove in H. destruct H as [_ H].
  split; intros Hin; apply H; apply in_or_app; [left | right]; exact Hin.
Qed.

Lemma NoDup_map_inj {A} (f : A -> Z) l x y : NoDup (map f l) -> In x l -> In y l -> f x = f y -> x = y.
Proof.
  induction l as [|a tl IH]; simpl; [intros _ [] |]. intros H Hx Hy E. inversion H; subst.
  destruct Hx as [Hx | Hx], Hy as [Hy | Hy]; subst; try reflexivity.
  - exfalso. apply H2. rewrite E. apply in_map. exact Hy.
  - exfalso. apply H2. rewrite <- E. apply in_map. exact Hx.
  - apply IH; assumption.
Qed.

(* ------------------------------------------------------------------ the cached answer is the stored slice *)
Definition mine_of (c : xcache) (a : Z) : list row := filter (fun r => touches a (r_tx r)) (xc_rows c).

Lemma filter_touches_map a l :
  Forall (fun r => touches a (r_tx r) = true) l -> filter (touches a) (map r_tx l) = map r_tx l.
Proof.
  induction 1 as [|x l Hx _ IH]; simpl; [reflexivity |]. rewrite Hx, IH. reflexivity.
Qed.

Lemma mine_all_touch c a : Forall (fun r => touches a (r_tx r) = true) (mine_of c a).
Proof. apply Forall_forall. intros r H. apply filter_In in H. apply H. Qed.

Lemma take_limit_firstn {A} limit (l : list A) : 1 <= limit -> take_limit limit l = firstn (Z.to_nat limit) l.
Proof. intros H. unfold take_limit. rewrite Z.max_l by lia. reflexivity. Qed.

Lemma firstn_map {A B} (f : A -> B) n l : map f (firstn n l) = firstn n (map f l).
Proof. revert l; induction n; destruct l; simpl; [reflexivity | reflexivity | reflexivity | rewrite IHn; reflexivity]. Qed.

Lemma filter_all_true {A} (f : A -> bool) l : (forall x, In x l -> f x = true) -> filter f l = l.
Proof.
  induction l as [|x tl IH]; simpl; intros H; [reflexivity |].
  rewrite (H x (or_introl eq_refl)). rewrite IH; [reflexivity | intros y Hy; apply H; right; exact Hy].
Qed.

(* the guard: the rows of the address lie in the cache in (block_height, index) order, and ids are unique *)
Definition in_chain_order (c : xcache) (a : Z) : Prop := StronglySorted row_le (mine_of c a).

Theorem cached_transactions_are_the_stored_slice c a rec after limit :
  xc_on c = true ->
  cache_getaddr (xc_base c) a = Some rec ->
  in_chain_order c a ->
  NoDup (map row_id (xc_rows c)) ->
  1 <= limit ->
  match after with
  | None => True
  | Some aid =>
    In aid (map row_id (mine_of c a)) /\
    exists lb, a_last_block rec = Some lb /\ lb <> 0 /\ forall r, In r (mine_of c a) -> atx_height (r_tx r) <= lb
  end ->
  xc_gettransactions c a after limit = prov_txs (map r_tx (mine_of c a)) a after limit.
Proof.
  intros Hon Hrec Hord Hnd Hlim Hafter.
  unfold xc_gettransactions, prov_txs. rewrite Hon, Hrec. simpl negb. cbv iota.
  fold (mine_of c a). rewrite filter_touches_map by apply mine_all_touch.
  rewrite take_limit_firstn by exact Hlim. rewrite firstn_map. f_equal.
  destruct after as [aid |]; simpl.
  - destruct Hafter as [Hin [lb [Hlb [Hnz Hle]]]].
    (* the row of after_txid is the one among the rows of the address *)
    apply in_map_iff in Hin. destruct Hin as [ar [Hid Har]].
    assert (Harows : In ar (xc_rows c)) by (unfold mine_of in Har; apply filter_In in Har; apply Har).
    destruct (find_row_some aid (xc_rows c)) as [ar' Hf].
    { apply in_map_iff. exists ar. split; assumption. }
    destruct (find_row_in _ _ _ Hf) as [Hin' Hid'].
    assert (ar' = ar) by (apply (NoDup_map_inj row_id (xc_rows c)); try assumption; congruence). subst ar'.
    rewrite Hf, Hlb. destruct (lb =? 0) eqn:Ez; [apply Z.eqb_eq in Ez; contradiction |].
    apply in_split in Har. destruct Har as [pre [post Hsplit]].
    assert (Hndm : NoDup (map row_id (mine_of c a))).
    { unfold mine_of. clear - Hnd. induction (xc_rows c) as [|x tl IH]; simpl; [constructor |].
      inversion Hnd; subst. destruct (touches a (r_tx x)); [| apply IH; exact H2].
      simpl. constructor; [| apply IH; exact H2].
      intros Hin. apply H1. apply in_map_iff in Hin. destruct Hin as [y [Hy1 Hy2]].
      apply filter_In in Hy2. apply in_map_iff. exists y. split; [exact Hy1 | apply Hy2]. }
    rewrite Hsplit in Hndm. destruct (NoDup_map_split row_id _ _ _ Hndm) as [Hpre Hpost].
    unfold in_chain_order in Hord. rewrite Hsplit in Hord.
    destruct (StronglySorted_app_inv _ _ _ Hord) as [Hs1 [Hs2 Hcross]].
    apply StronglySorted_inv in Hs2. destruct Hs2 as [_ H2].
    (* the block filter keeps after_tx and everything behind it *)
    set (f := fun r : row => (atx_height (r_tx ar) <=? atx_height (r_tx r)) && (atx_height (r_tx r) <=? lb)).
    assert (Hkeep : filter f (ar :: post) = ar :: post).
    { apply filter_all_true. intros x Hx. unfold f. apply andb_true_iff. split; apply Z.leb_le.
      - destruct Hx as [Hx | Hx]; [subst; lia |].
        rewrite Forall_forall in H2. specialize (H2 x Hx). apply row_le_spec in H2. lia.
      - apply Hle. rewrite Hsplit. apply in_or_app. right. exact Hx. }
    rewrite Hsplit at 1. rewrite filter_app, Hkeep.
    rewrite sort_rows_sorted_id.
    + rewrite (after_reset_found aid [] (filter f pre) ar post).
      * rewrite Hsplit, map_app. simpl.
        rewrite (drop_to_found aid (map r_tx pre) (r_tx ar) (map r_tx post)).
        -- reflexivity.
        -- exact Hid.
        -- rewrite map_map. rewrite <- Hid. exact Hpre.
      * exact Hid.
      * rewrite <- Hid. exact Hpost.
    + (* a filtered prefix followed by the kept suffix is still in order *)
      assert (Hall : StronglySorted row_le (pre ++ ar :: post)) by exact Hord.
      assert (Hsub : filter f (pre ++ ar :: post) = filter f pre ++ ar :: post) by (rewrite filter_app, Hkeep; reflexivity).
      rewrite <- Hsub. apply StronglySorted_filter. exact Hall.
  - rewrite sort_rows_sorted_id by exact Hord. reflexivity.
Qed.

Lemma NoDup_app_disjoint {A} (l1 l2 : list A) :
  NoDup l1 -> NoDup l2 -> (forall x, In x l1 -> In x l2 -> False) -> NoDup (l1 ++ l2).
Proof.
  induction l1 as [|a l1 IH]; simpl; intros H1 H2 Hd; [exact H2 |].
  inversion H1; subst. constructor.
  - intros Hin. apply in_app_or in Hin. destruct Hin as [Hin | Hin]; [contradiction | apply (Hd a); [left; reflexivity | exact Hin]].
  - apply IH; try assumption. intros x Hx1 Hx2. apply (Hd x); [right; exact Hx1 | exact Hx2].
Qed.

(* ------------------------------------------------------------------ one provider answer filed by Service.gettransactions *)
Definition confirmed (l : list atx) : list atx := filter (fun t => negb (atx_height t =? 0)) l.

Fixpoint number (i : Z) (l : list atx) : list row :=
  match l with
  | [] => []
  | t :: tl => {| r_tx := t; r_index := i |} :: number (i + 1) tl
  end.

Lemma number_tx i l : map r_tx (number i l) = l.
Proof. revert i; induction l as [|t tl IH]; simpl; intros i; [reflexivity | rewrite IH; reflexivity]. Qed.

Lemma number_ids i l : map row_id (number i l) = map atx_id l.
Proof. revert i; induction l as [|t tl IH]; simpl; intros i; [reflexivity | rewrite IH; reflexivity]. Qed.

Lemma number_index_ge i l r : In r (number i l) -> i <= r_index r.
Proof.
  revert i; induction l as [|t tl IH]; simpl; intros i; [intros [] |].
  intros [H | H]; [subst r; simpl; lia | specialize (IH _ H); lia].
Qed.

Lemma number_sorted i l :
  StronglySorted (fun x y => atx_height x <= atx_height y) l -> StronglySorted row_le (number i l).
Proof.
  intros H. revert i. induction H as [|t tl Hs IH Hf]; simpl; intros i; constructor; [apply IH |].
  apply Forall_forall. intros r Hr. apply row_le_spec. simpl.
  pose proof (number_index_ge _ _ _ Hr) as Hi.
  assert (Hh : atx_height t <= atx_height (r_tx r)).
  { rewrite Forall_forall in Hf. apply Hf. rewrite <- (number_tx (i + 1) tl). apply in_map. exact Hr. }
  lia.
Qed.

Lemma xc_on_with_rows c l : xc_on (with_rows c l) = xc_on c.
Proof. reflexivity. Qed.

Lemma store_loop_files_in_order c txs i lb :
  xc_on c = true ->
  (forall t, In t (confirmed txs) -> atx_storable t = true) ->
  NoDup (map atx_id (confirmed txs)) ->
  (forall t, In t (confirmed txs) -> ~ In (atx_id t) (map row_id (xc_rows c))) ->
  store_loop c txs i lb = (with_rows c (xc_rows c ++ number i (confirmed txs)), lb).
Proof.
  revert c i. induction txs as [|t tl IH]; simpl; intros c i Hon Hst Hnd Hfresh.
  - rewrite app_nil_r. destruct c; reflexivity.
  - destruct (atx_height t =? 0) eqn:Eh; simpl in *.
    + apply IH; assumption.
    + unfold xc_store_tx. rewrite Hon. simpl negb. cbv iota. rewrite Eh. simpl orb.
      rewrite (Hst t (or_introl eq_refl)). simpl negb. cbv iota.
      rewrite find_row_none by (apply Hfresh; left; reflexivity).
      inversion Hnd; subst.
      rewrite IH.
      * simpl. unfold with_rows. simpl. rewrite <- app_assoc. reflexivity.
      * exact Hon.
      * intros x Hx. apply Hst. right. exact Hx.
      * assumption.
      * intros x Hx. simpl. rewrite map_app. simpl. intros Hin. apply in_app_or in Hin.
        destruct Hin as [Hin | [Hin | []]].
        -- apply (Hfresh x (or_intror Hx)). exact Hin.
        -- apply H1. unfold row_id in Hin. simpl in Hin. rewrite Hin. apply in_map. exact Hx.
Qed.

(* THE statement of "the cache returns what was stored" for the address index:
   a provider answer [hist] (transactions of the address, any block heights, several per block, unconfirmed ones
   among them) is filed by the caching loop into a cache that holds nothing of the address yet; afterwards, for every
   after_txid of the stored transactions and every limit, the cached answer is exactly what a provider holding the
   stored (confirmed) transactions answers to the same query. *)
Theorem stored_answer_is_served_back c a hist lb0 b rec after limit :
  xc_on c = true ->
  mine_of c a = [] ->
  NoDup (map row_id (xc_rows c)) ->
  Forall (fun t => touches a t = true) hist ->
  (forall t, In t (confirmed hist) -> atx_storable t = true) ->
  NoDup (map atx_id (confirmed hist)) ->
  (forall t, In t (confirmed hist) -> ~ In (atx_id t) (map row_id (xc_rows c))) ->
  StronglySorted (fun x y => atx_height x <= atx_height y) (confirmed hist) ->
  c_on b = true -> cache_getaddr b a = Some rec ->
  1 <= limit ->
  match after with
  | None => True
  | Some aid =>
    In aid (map atx_id (confirmed hist)) /\
    exists lb, a_last_block rec = Some lb /\ lb <> 0 /\ forall t, In t (confirmed hist) -> atx_height t <= lb
  end ->
  xc_gettransactions (with_base (fst (store_loop c hist 0 lb0)) b) a after limit = prov_txs (confirmed hist) a after limit.
Proof.
  intros Hon Hmine Hnd Htouch Hst Hndh Hfresh Hsorted Hbon Hrec Hlim Hafter.
  rewrite store_loop_files_in_order by assumption. simpl fst.
  set (c1 := with_base (with_rows c (xc_rows c ++ number 0 (confirmed hist))) b).
  assert (Hm : mine_of c1 a = number 0 (confirmed hist)).
  { unfold mine_of, c1. simpl. rewrite filter_app. fold (mine_of c a). rewrite Hmine. simpl.
    apply filter_all_true. intros r Hr.
    assert (Hin : In (r_tx r) (confirmed hist)) by (rewrite <- (number_tx 0 (confirmed hist)); apply in_map; exact Hr).
    unfold confirmed in Hin. apply filter_In in Hin. rewrite Forall_forall in Htouch. apply Htouch. apply Hin. }
  replace (prov_txs (confirmed hist) a after limit) with (prov_txs (map r_tx (mine_of c1 a)) a after limit)
    by (rewrite Hm, number_tx; reflexivity).
  apply (cached_transactions_are_the_stored_slice c1 a rec after limit).
  - exact Hbon.
  - exact Hrec.
  - unfold in_chain_order. rewrite Hm. apply number_sorted. exact Hsorted.
  - unfold c1. simpl. rewrite map_app, number_ids. apply NoDup_app_disjoint; try assumption.
    intros x Hx1 Hx2. apply in_map_iff in Hx2. destruct Hx2 as [t [Ht1 Ht2]]. subst x. apply (Hfresh t Ht2). exact Hx1.
  - exact Hlim.
  - destruct after as [aid |]; [| exact I]. destruct Hafter as [Hin [lb [H1 [H2 H3]]]]. rewrite Hm. split.
    + rewrite number_ids. exact Hin.
    + exists lb. repeat split; try assumption. intros r Hr. apply H3.
      rewrite <- (number_tx 0 (confirmed hist)). apply in_map. exact Hr.
Qed.

(* ------------------------------------------------------------------ Service.gettransactions *)
Definition xr_ret (r : xret) : wres := fst (fst (fst (fst r))).
Definition xr_cn (r : xret) : Z := snd (fst (fst (fst r))).
Definition xr_complete (r : xret) : option bool := snd (fst (fst r)).
Definition xr_cache (r : xret) : xcache := snd (fst r).
Definition xr_svc (r : xret) : svc := snd r.

Lemma getaddr_some_on b a rec : cache_getaddr b a = Some rec -> c_on b = true.
Proof. unfold cache_getaddr. destruct (c_on b); [reflexivity | discriminate]. Qed.

Lemma blockcount_from_cache st now ps b s v :
  cache_blockcount b now = Some v -> v <> 0 ->
  lib_blockcount st now ps b s = (WRet (VInt v), b, set_bc s (VInt v) (s_upd s)).
Proof.
  intros H Hv. unfold lib_blockcount. rewrite H. unfold nz.
  destruct (v =? 0) eqn:E; [apply Z.eqb_eq in E; contradiction | reflexivity].
Qed.

Lemma with_base_same c : with_base c (xc_base c) = c.
Proof. destruct c; reflexivity. Qed.

Lemma take_limit_length {A} limit (l : list A) : 1 <= limit -> Z.of_nat (length (take_limit limit l)) <= limit.
Proof.
  intros H. rewrite take_limit_firstn by exact H. pose proof (firstn_le_length (Z.to_nat limit) l). lia.
Qed.

Lemma xc_gettransactions_length c a after limit :
  1 <= limit -> Z.of_nat (length (xc_gettransactions c a after limit)) <= limit.
Proof.
  intros H. unfold xc_gettransactions.
  destruct (negb (xc_on c)); [simpl; lia |].
  destruct (cache_getaddr (xc_base c) a); [| simpl; lia].
  rewrite map_length. apply take_limit_length. exact H.
Qed.

Lemma update_spents_ids a l : map atx_id (update_spents a l) = map atx_id l.
Proof.
  unfold update_spents. rewrite map_map. apply map_ext. intros t. destruct (pays a t); reflexivity.
Qed.

Lemma update_spents_length a l : length (update_spents a l) = length l.
Proof. unfold update_spents. apply map_length. Qed.

(* an address whose cache entry is up to date (last_block >= the block count, itself still fresh in the cache) is
   answered from the cache alone: the providers are not consulted, so no pattern of provider failures matters *)
Theorem gettransactions_up_to_date_from_cache st now bc_ps q a after limit c s rec lb v :
  st_minp st <= 1 -> 1 <= limit ->
  cache_getaddr (xc_base c) a = Some rec -> a_last_block rec = Some lb -> lb <> 0 ->
  cache_blockcount (xc_base c) now = Some v -> v <> 0 -> v <= lb ->
  let r := lib_gettransactions st now bc_ps q a after limit c s in
  let l0 := xc_gettransactions c a after limit in
  (exists l, xr_ret r = WRet (VTxs l) /\ (l = l0 \/ l = update_spents a l0)) /\
  xr_cn r = Z.of_nat (length l0) /\ s_res (xr_svc r) = [] /\ s_errs (xr_svc r) = [].
Proof.
  intros Hm Hlim Hrec Hlb Hnz Hbc Hv Hle r l0.
  assert (Em : (st_minp st <=? 1) = true) by (apply Z.leb_le; exact Hm).
  pose proof (xc_gettransactions_length c a after limit Hlim) as Hlen. fold l0 in Hlen.
  destruct r as [[[[w cn] k] c'] s'] eqn:E. subst r.
  unfold xr_ret, xr_cn, xr_svc. cbn [fst snd].
  unfold lib_gettransactions in E. rewrite Em in E. fold l0 in E. clearbody l0.
  destruct (negb (is_nil l0) && (Z.of_nat (length l0) =? limit)) eqn:Efull.
  - inversion E; subst. repeat split; try reflexivity. exists l0; split; [reflexivity | left; reflexivity].
  - rewrite Hrec in E. unfold nz at 1 in E. rewrite Hlb in E.
    destruct (lb =? 0) eqn:Ez; [apply Z.eqb_eq in Ez; contradiction |].
    rewrite (blockcount_from_cache st now bc_ps (xc_base c) _ v Hbc Hv) in E.
    assert (Hge : py_ge (VInt lb) (VInt v) = Some true).
    { unfold py_ge; simpl. f_equal. apply Z.leb_le. exact Hle. }
    rewrite Hge in E. cbn [negb orb] in E. cbv iota beta in E.
    rewrite with_base_same in E. cbn [is_some negb andb] in E. rewrite andb_false_r in E. cbn [negb andb] in E.
    rewrite (blockcount_from_cache st now bc_ps (xc_base c) _ v Hbc Hv) in E.
    cbn [balance_to_store] in E. rewrite with_base_same in E.
    assert (Hl1 : ((Z.of_nat (@length atx []) =? (if is_nil l0 then limit else limit - Z.of_nat (length l0))) = false)).
    { change (Z.of_nat (@length atx [])) with 0. apply Z.eqb_neq. destruct l0 as [|t0 tl0]; cbn [is_nil]; [lia |].
      cbn [is_nil negb andb] in Efull. apply Z.eqb_neq in Efull. lia. }
    rewrite Hl1 in E. cbn [s_res set_bc set_exec is_nil] in E.
    rewrite app_nil_r in E. inversion E; subst.
    repeat split; try reflexivity.
    exists (update_spents a l0). split; [reflexivity | right; reflexivity].
Qed.

(* ------------------------------------------------------------------ no partial answers: when every provider fails *)
(* no provider of the list answers the query, whatever it is asked *)
Definition all_fail (q : list (Z * aoutcome)) : Prop :=
  forall n ao, In (n, ao) q -> exists o, ao = AOut o /\ forall v, o <> Ok v.

Lemma all_fail_no_value st q (inst : Z * aoutcome -> provider) :
  (forall p, snd (inst p) = match snd p with AOut o => o | AView _ => snd (inst p) end) ->
  all_fail q -> forall v res errs, lib_provider_execute st (map inst q) <> (Value v, res, errs).
Proof.
  intros Hinst Hall v res errs H. pose proof (exec_cases _ _ _ _ _ H) as Hc. simpl in Hc.
  destruct Hc as [n Hin]. apply in_map_iff in Hin. destruct Hin as [[m ao] [Hp Hq]].
  destruct (Hall m ao Hq) as [o [Ho Hno]]. subst ao.
  specialize (Hinst (m, AOut o)). simpl in Hinst. rewrite Hp in Hinst. simpl in Hinst. subst o.
  apply (Hno v). reflexivity.
Qed.

Lemma inst_txs_out a after limit p :
  snd (inst_txs a after limit p) = match snd p with AOut o => o | AView _ => snd (inst_txs a after limit p) end.
Proof. destruct p as [n [v | o]]; reflexivity. Qed.
Lemma inst_utxos_out a after limit p :
  snd (inst_utxos a after limit p) = match snd p with AOut o => o | AView _ => snd (inst_utxos a after limit p) end.
Proof. destruct p as [n [v | o]]; reflexivity. Qed.

(* Service.gettransactions for an address that was never synchronised, every provider failing: ServiceError — or the
   one case in which the cache alone fills the requested page (limit transactions); never a shorter, partial list *)
Theorem gettransactions_no_partial_answer st now bc_ps q a after limit c s :
  never_synced (xc_base c) a -> all_fail q ->
  let r := lib_gettransactions st now bc_ps q a after limit c s in
  let l0 := xc_gettransactions c a after limit in
  xr_ret r = WServiceErr \/ (xr_ret r = WRet (VTxs l0) /\ Z.of_nat (length l0) = limit /\ l0 <> []).
Proof.
  intros Hns Hall r l0.
  destruct r as [[[[w cn] k] c'] s'] eqn:E. subst r. unfold xr_ret. cbn [fst snd].
  unfold lib_gettransactions in E.
  set (l1 := if st_minp st <=? 1 then xc_gettransactions c a after limit else []) in *.
  destruct (negb (is_nil l1) && (Z.of_nat (length l1) =? limit)) eqn:Efull.
  - inversion E; subst. right. apply andb_true_iff in Efull. destruct Efull as [Hn Hl]. apply Z.eqb_eq in Hl.
    unfold l1 in *. destruct (st_minp st <=? 1); [| simpl in Hn; discriminate].
    fold l0 in Hn, Hl |- *. repeat split; [exact Hl |]. intros Hnil. rewrite Hnil in Hn. simpl in Hn. discriminate.
  - left.
    assert (Hfr : (match cache_getaddr (xc_base c) a with
                   | Some r0 => match nz (a_last_block r0) with
                                | Some lb => match lib_blockcount st now bc_ps (xc_base c) (set_exec s [] []) with
                                             | (WRet bcv, b1, s1) => (match py_ge (VInt lb) bcv with Some g => FOk g | None => FOther end, b1, s1)
                                             | (WServiceErr, b1, s1) => (FErr, b1, s1)
                                             | (_, b1, s1) => (FOther, b1, s1)
                                             end
                                | None => (FOk false, xc_base c, set_exec s [] [])
                                end
                   | None => (FOk false, xc_base c, set_exec s [] [])
                   end) = (FOk false, xc_base c, set_exec s [] [])).
    { unfold never_synced in Hns. destruct (cache_getaddr (xc_base c) a) as [r0 |]; [rewrite Hns |]; reflexivity. }
    rewrite Hfr in E. cbn [negb orb] in E.
    destruct (lib_provider_execute st (map (inst_txs a match opt_last l1 with Some t => Some (atx_id t) | None => after end
                                             (if is_nil l1 then limit else limit - Z.of_nat (length l1))) q))
      as [[rr res] errs] eqn:Ex.
    destruct rr as [v | |].
    + exfalso. eapply all_fail_no_value; [| exact Hall | exact Ex]. intros p. apply inst_txs_out.
    + inversion E; reflexivity.
    + inversion E; reflexivity.
Qed.

(* Service.getutxos: the cached outputs alone are never returned; every provider failing means ServiceError, whatever
   the cache holds *)
Theorem getutxos_no_partial_answer st q a after limit c s :
  all_fail q -> xr_ret (lib_getutxos_x st q a after limit c s) = WServiceErr.
Proof.
  intros Hall. unfold lib_getutxos_x.
  set (cached := if st_minp st <=? 1 then xc_getutxos c a after else []).
  destruct (lib_provider_execute st (map (inst_utxos a match opt_last cached with Some u => Some (u_txid u) | None => after end limit) q))
    as [[rr res] errs] eqn:Ex.
  destruct rr as [v | |].
  - exfalso. eapply all_fail_no_value; [| exact Hall | exact Ex]. intros p. apply inst_utxos_out.
  - rewrite glue_getutxos_raises. reflexivity.
  - reflexivity.
Qed.

(* where a normally returned list of unspent outputs comes from: the cached outputs of the address followed by the
   answer of a provider that was asked for the outputs after the last cached one *)
Theorem getutxos_x_origin st q a after limit c s v :
  xr_ret (lib_getutxos_x st q a after limit c s) = WRet v ->
  let cached := if st_minp st <=? 1 then xc_getutxos c a after else [] in
  let after1 := match opt_last cached with Some u => Some (u_txid u) | None => after end in
  exists p, provider_answer (map (inst_utxos a after1 limit) q) (VUtxoL p) /\ v = VUtxoL (cached ++ p).
Proof.
  intros H cached after1. unfold lib_getutxos_x in H. fold cached in H. fold after1 in H.
  destruct (lib_provider_execute st (map (inst_utxos a after1 limit) q)) as [[rr res] errs] eqn:Ex.
  pose proof (exec_cases _ _ _ _ _ Ex) as Hc.
  destruct rr as [w | |].
  - destruct w; try (unfold xr_ret in H; simpl in H; discriminate H).
    exists l. split; [exact Hc |].
    destruct (negb (is_nil l) && (limit <=? Z.of_nat (length l))); unfold xr_ret in H; simpl in H; inversion H; reflexivity.
  - unfold xr_ret in H; simpl in H. destruct svc_getutxos_raises_on_false; discriminate H.
  - unfold xr_ret in H; simpl in H. discriminate H.
Qed.

(* where a normally returned list of transactions comes from: the cached slice, followed by nothing (address up to
   date) or by the answer of a provider asked for what follows the last cached transaction; the only change made to
   the transactions is the recomputation of the spent flags of a complete list *)
Theorem gettransactions_origin st now bc_ps q a after limit c s l :
  xr_ret (lib_gettransactions st now bc_ps q a after limit c s) = WRet (VTxs l) ->
  let l1 := if st_minp st <=? 1 then xc_gettransactions c a after limit else [] in
  let qafter := match opt_last l1 with Some t => Some (atx_id t) | None => after end in
  let limit1 := if is_nil l1 then limit else limit - Z.of_nat (length l1) in
  exists p, (p = [] \/ provider_answer (map (inst_txs a qafter limit1) q) (VTxs p)) /\
            (l = l1 ++ p \/ l = update_spents a (l1 ++ p)).
Proof.
  intros H l1 qafter limit1. unfold lib_gettransactions in H. fold l1 in H. fold qafter in H. fold limit1 in H.
  unfold xr_ret in H.
  destruct (negb (is_nil l1) && (Z.of_nat (length l1) =? limit)).
  { simpl in H. inversion H. exists []. rewrite app_nil_r. split; [left; reflexivity | left; reflexivity]. }
  match type of H with context [match ?X with _ => _ end] =>
    match type of X with (fresh_res * cache * svc)%type => destruct X as [[fr b1] s1] end end.
  destruct fr as [up | |]; [| simpl in H; discriminate H | simpl in H; discriminate H].
  match type of H with context [match ?X with _ => _ end] =>
    match type of X with prov_res => set (PR := X) in H end end.
  assert (Hp : (exists p s2, PR = POk p s2 /\ (p = [] \/ provider_answer (map (inst_txs a qafter limit1) q) (VTxs p)))
               \/ exists w s2, PR = PErr w s2 /\ w <> WRet (VTxs l)).
  { unfold PR. destruct (negb up || negb (st_minp st <=? 1)).
    - destruct (lib_provider_execute st (map (inst_txs a qafter limit1) q)) as [[rr res] errs] eqn:Ex.
      pose proof (exec_cases _ _ _ _ _ Ex) as Hc.
      destruct rr as [w | |]; [destruct w |..];
        try (right; eexists; eexists; split; [reflexivity | discriminate]).
      left. eexists; eexists; split; [reflexivity | right; exact Hc].
    - left. eexists; eexists; split; [reflexivity | left; reflexivity]. }
  destruct Hp as [[p [s2 [Hp Ho]]] | [w [s2 [Hp Hw]]]]; rewrite Hp in H.
  2: { simpl in H. congruence. }
  exists p. split; [exact Ho |].
  destruct ((st_minp st <=? 1) && negb (is_some after && negb (is_some (cache_getaddr (xc_base c) a))) && (st_minp st <=? 1)).
  2: { simpl in H. inversion H. left; reflexivity. }
  destruct (lib_blockcount st now bc_ps (xc_base (with_base c b1)) s2) as [[wb b2] s3].
  destruct wb; try (simpl in H; discriminate H).
  destruct (balance_to_store v) as [lbv |]; [| simpl in H; discriminate H].
  destruct (Z.of_nat (length p) =? limit1).
  - destruct (opt_last p) as [t |]; [| simpl in H; discriminate H].
    destruct (is_nil (s_res s3)); [simpl in H; inversion H; left; reflexivity |].
    destruct (store_loop (with_base (with_base c b1) b2) p 0 (if atx_height t =? 0 then None else Some (atx_height t))).
    simpl in H. inversion H. left; reflexivity.
  - destruct (is_nil (s_res s3)); [simpl in H; inversion H; right; reflexivity |].
    destruct (store_loop (with_base (with_base c b1) b2) p 0 lbv).
    simpl in H. inversion H. right; reflexivity.
Qed.

(* ------------------------------------------------------------------ Cache.getutxos reads back the stored outputs *)
Definition flag_known (r : row) : Prop := atx_spent (r_tx r) <> None.
Definition unspent_row (r : row) : bool := match atx_spent (r_tx r) with Some false => true | _ => false end.

Lemma utxo_scan_all acc l :
  Forall flag_known l ->
  utxo_scan None acc l = acc ++ map (fun r => utxo_of (r_tx r)) (filter unspent_row l).
Proof.
  revert acc. induction l as [|r tl IH]; simpl; intros acc H; [rewrite app_nil_r; reflexivity |].
  inversion H; subst. unfold flag_known in H2. unfold unspent_row at 1.
  destruct (atx_spent (r_tx r)) as [[|] |]; [| | contradiction].
  - apply IH; exact H3.
  - rewrite IH by exact H3. simpl. rewrite <- app_assoc. reflexivity.
Qed.

Lemma utxo_scan_after aid acc l1 d l2 :
  Forall flag_known (l1 ++ d :: l2) -> row_id d = aid -> ~ In aid (map row_id l2) ->
  utxo_scan (Some aid) acc (l1 ++ d :: l2) = map (fun r => utxo_of (r_tx r)) (filter unspent_row l2).
Proof.
  intros Hk Hd Hnot. revert acc. induction l1 as [|x l1 IH]; simpl; intros acc.
  - simpl in Hk. pose proof (Forall_inv Hk) as H1. pose proof (Forall_inv_tail Hk) as H2. unfold flag_known in H1.
    destruct (atx_spent (r_tx d)) as [sp |] eqn:Es; [| contradiction].
    unfold row_id in Hd. rewrite Hd, Z.eqb_refl.
    assert (G : forall acc0 l, Forall flag_known l -> ~ In aid (map row_id l) ->
                utxo_scan (Some aid) acc0 l = acc0 ++ map (fun r => utxo_of (r_tx r)) (filter unspent_row l)).
    { clear. intros acc0 l. revert acc0. induction l as [|r tl IH]; simpl; intros acc0 H Hn; [rewrite app_nil_r; reflexivity |].
      inversion H; subst. unfold flag_known in H2. unfold unspent_row at 1.
      destruct (atx_id (r_tx r) =? aid) eqn:E; [apply Z.eqb_eq in E; exfalso; apply Hn; left; exact E |].
      destruct (atx_spent (r_tx r)) as [[|] |]; [| | contradiction].
      - apply IH; [exact H3 | intros Hin; apply Hn; right; exact Hin].
      - rewrite IH; [| exact H3 | intros Hin; apply Hn; right; exact Hin]. simpl. rewrite <- app_assoc. reflexivity. }
    rewrite G by assumption. reflexivity.
  - simpl in Hk. pose proof (Forall_inv Hk) as H1. pose proof (Forall_inv_tail Hk) as H2. unfold flag_known in H1.
    destruct (atx_spent (r_tx x)) as [sp |]; [| contradiction].
    destruct (atx_id (r_tx x) =? aid); apply IH; exact H2.
Qed.

(* the outputs of the address lie in the cache in chain order and every spent flag is known: Cache.getutxos returns
   exactly the stored outputs that are marked unspent — all of them, or those after after_txid *)
Theorem cached_utxos_are_the_stored_outputs c a :
  xc_on c = true ->
  let outs := filter (fun r => pays a (r_tx r)) (xc_rows c) in
  StronglySorted row_le outs -> Forall flag_known outs ->
  xc_getutxos c a None = map (fun r => utxo_of (r_tx r)) (filter unspent_row outs) /\
  (forall aid pre d post, outs = pre ++ d :: post -> row_id d = aid -> ~ In aid (map row_id post) ->
     xc_getutxos c a (Some aid) = map (fun r => utxo_of (r_tx r)) (filter unspent_row post)).
Proof.
  intros Hon outs Hs Hk. unfold xc_getutxos. rewrite Hon. simpl negb. cbv iota. fold outs.
  rewrite sort_rows_sorted_id by exact Hs. split.
  - rewrite utxo_scan_all by exact Hk. reflexivity.
  - intros aid pre d post Ho Hd Hn. rewrite Ho. apply utxo_scan_after; [rewrite <- Ho; exact Hk | exact Hd | exact Hn].
Qed.

(* ------------------------------------------------------------------ the combined statement of Properties/C20.v *)
Definition address_index_returns_what_was_stored : Prop :=
  forall c a hist lb0 b rec after limit,
  xc_on c = true ->
  mine_of c a = [] ->
  NoDup (map row_id (xc_rows c)) ->
  Forall (fun t => touches a t = true) hist ->
  (forall t, In t (confirmed hist) -> atx_storable t = true) ->
  NoDup (map atx_id (confirmed hist)) ->
  (forall t, In t (confirmed hist) -> ~ In (atx_id t) (map row_id (xc_rows c))) ->
  StronglySorted (fun x y => atx_height x <= atx_height y) (confirmed hist) ->
  c_on b = true -> cache_getaddr b a = Some rec ->
  1 <= limit ->
  match after with
  | None => True
  | Some aid =>
    In aid (map atx_id (confirmed hist)) /\
    exists lb, a_last_block rec = Some lb /\ lb <> 0 /\ forall t, In t (confirmed hist) -> atx_height t <= lb
  end ->
  xc_gettransactions (with_base (fst (store_loop c hist 0 lb0)) b) a after limit = prov_txs (confirmed hist) a after limit.

Lemma cache_combined_full :
  ((forall c t, c_on c = true -> t_confirmed t = true ->
     cache_gettx (cache_store_tx c t) (t_txid t) = Some (match cache_gettx c (t_txid t) with Some t0 => t0 | None => t end)) /\
  (forall c t, cache_store_tx (cache_store_tx c t) t = cache_store_tx c t) /\
  (forall c t txid, txid <> t_txid t -> cache_gettx (cache_store_tx c t) txid = cache_gettx c txid) /\
  (forall c t txid t0, cache_gettx c txid = Some t0 -> cache_gettx (cache_store_tx c t) txid = Some t0) /\
  (forall c name v exp now, c_on c = true ->
     cache_var_get (cache_var_set c name v exp) now name = if now <? exp then Some v else None) /\
  (forall c name v exp, cache_var_set (cache_var_set c name v exp) name v exp = cache_var_set c name v exp) /\
  (forall c now now' name v, now <= now' -> cache_var_get c now' name = Some v -> cache_var_get c now name = Some v) /\
  (forall c a lb b nu, c_on c = true ->
     exists r, cache_getaddr (cache_store_address c a lb (Some b) nu) a = Some r /\ a_balance r = Some b)) /\
  address_index_returns_what_was_stored.
Proof.
  split; [exact cache_combined |].
  unfold address_index_returns_what_was_stored. intros. eapply stored_answer_is_served_back; eassumption.
Qed.

(* small constants used by the Examples of Properties/C20.v: transaction k of address 0 in block h (a payment from a
   foreign address), and a cache whose address entry says "synchronised up to block 800000" *)
Definition rx (k h : Z) : atx :=
  {| atx_id := k; atx_height := h; atx_storable := true; atx_src := None; atx_prev := (1000 + k, 0);
     atx_dst := Some 0; atx_oidx := 0; atx_value := 10000 * (k + 1); atx_spent := None |}.
Definition rx_refused (k h : Z) : atx :=
  {| atx_id := k; atx_height := h; atx_storable := false; atx_src := None; atx_prev := (1000 + k, 0);
     atx_dst := Some 0; atx_oidx := 0; atx_value := 10000 * (k + 1); atx_spent := None |}.
Definition synced_cache : xcache :=
  {| xc_base := cache_store_address_full (empty_cache true) 0 (Some 800000) None None None; xc_rows := []; xc_blocks := [] |}.

(* ------------------------------------------------------------------ block pages: Cache.getblocktransactions *)
(* the rows of block h were filed with their position in the block as index, in ascending order (pages of one size
   fetched from the first on): the cached page is the page a provider holding the filed transactions returns *)
Lemma filter_number_range lo hi i l :
  0 <= i -> 0 <= lo ->
  filter (fun r => (0 <=? r_index r) && (lo <=? r_index r) && (r_index r <? hi)) (number i l) =
  number (Z.max lo i) (firstn (Z.to_nat (hi - Z.max lo i)) (skipn (Z.to_nat (lo - i)) l)).
Proof.
  revert i. induction l as [|t tl IH]; intros i Hi Hlo; simpl.
  - rewrite skipn_nil, firstn_nil. reflexivity.
  - destruct (0 <=? i) eqn:E0; [| apply Z.leb_gt in E0; lia]. simpl andb.
    destruct (lo <=? i) eqn:E1.
    + apply Z.leb_le in E1. replace (Z.to_nat (lo - i)) with 0%nat by lia. simpl skipn.
      rewrite Z.max_r by lia.
      destruct (i <? hi) eqn:E2.
      * apply Z.ltb_lt in E2. simpl andb. cbv iota.
        replace (Z.to_nat (hi - i)) with (S (Z.to_nat (hi - (i + 1)))) by lia. simpl firstn. simpl number. f_equal.
        rewrite IH by lia. rewrite Z.max_r by lia.
        replace (Z.to_nat (lo - (i + 1))) with 0%nat by lia. reflexivity.
      * apply Z.ltb_ge in E2. simpl andb. cbv iota.
        replace (Z.to_nat (hi - i)) with 0%nat by lia. simpl firstn. simpl number.
        rewrite IH by lia. rewrite Z.max_r by lia. replace (Z.to_nat (hi - (i + 1))) with 0%nat by lia. reflexivity.
    + apply Z.leb_gt in E1. simpl andb. cbv iota.
      rewrite IH by lia. rewrite !Z.max_l by lia.
      replace (Z.to_nat (lo - i)) with (S (Z.to_nat (lo - (i + 1)))) by lia. reflexivity.
Qed.

Lemma number_in i l t : In t l -> exists j, In {| r_tx := t; r_index := j |} (number i l).
Proof.
  revert i. induction l as [|x tl IH]; intros i Ht; [destruct Ht |]. destruct Ht as [Ht | Ht].
  - subst x. exists i. left. reflexivity.
  - destruct (IH (i + 1) Ht) as [j Hj]. exists j. right. exact Hj.
Qed.

Theorem cached_block_page_is_the_filed_page c h btxs page limit :
  xc_on c = true ->
  filter (fun r => atx_height (r_tx r) =? h) (xc_rows c) = number 0 btxs ->
  1 <= page -> 0 <= limit ->
  xc_getblocktransactions c h page limit = block_page btxs page limit.
Proof.
  intros Hon Hrows Hp Hl. unfold xc_getblocktransactions, xc_getblocktransactions_gen, block_page. rewrite Hon. simpl negb. cbv iota.
  assert (Hsplit : forall l : list row,
    filter (fun r => (atx_height (r_tx r) =? h) && (0 <=? r_index r) && ((page - 1) * limit <=? r_index r) && (r_index r <? page * limit)) l =
    filter (fun r => (0 <=? r_index r) && ((page - 1) * limit <=? r_index r) && (r_index r <? page * limit))
      (filter (fun r => atx_height (r_tx r) =? h) l)).
  { induction l as [|x tl IH]; simpl; [reflexivity |].
    destruct (atx_height (r_tx x) =? h); simpl; [rewrite IH; reflexivity | exact IH]. }
  rewrite Hsplit, Hrows. rewrite filter_number_range by nia.
  (* every filed transaction of the block has height h, so the selection is in (block_height, index) order already:
     with or without an ORDER BY in the query the rows come back in the same order *)
  assert (Hh : forall t, In t btxs -> atx_height t = h).
  { intros t Ht. destruct (number_in 0 btxs t Ht) as [i Hi]. rewrite <- Hrows in Hi. apply filter_In in Hi. destruct Hi as [_ Hi]. simpl in Hi.
    apply Z.eqb_eq. exact Hi. }
  set (sl := firstn (Z.to_nat (page * limit - Z.max ((page - 1) * limit) 0)) (skipn (Z.to_nat ((page - 1) * limit - 0)) btxs)).
  assert (Hsl : forall t, In t sl -> In t btxs).
  { intros t Ht. unfold sl in Ht. apply firstn_In in Ht. clear - Ht. revert Ht.
    generalize (Z.to_nat ((page - 1) * limit - 0)). intros n. revert btxs. induction n; intros l Ht; [exact Ht |].
    destruct l; [destruct Ht | right; apply IHn; exact Ht]. }
  assert (Hsorted : StronglySorted (fun x y => atx_height x <= atx_height y) sl).
  { assert (Hall : forall t, In t sl -> atx_height t = h) by (intros t Ht; apply Hh; apply Hsl; exact Ht).
    clear - Hall. induction sl as [|x tl IH]; constructor.
    - apply IH. intros t Ht. apply Hall. right. exact Ht.
    - apply Forall_forall. intros y Hy. rewrite (Hall x (or_introl eq_refl)), (Hall y (or_intror Hy)). lia. }
  assert (Hid : match svc_cbt_order with [] => number (Z.max ((page - 1) * limit) 0) sl | _ => sort_rows (number (Z.max ((page - 1) * limit) 0) sl) end
                = number (Z.max ((page - 1) * limit) 0) sl).
  { destruct svc_cbt_order; [reflexivity |]. apply sort_rows_sorted_id. apply number_sorted. exact Hsorted. }
  rewrite Hid. rewrite number_tx. unfold sl. rewrite Z.max_l by nia. rewrite Z.sub_0_r.
  replace (page * limit - (page - 1) * limit) with limit by ring. reflexivity.
Qed.

(* where a block returned by Service.getblock comes from: the cached header with the cached page, or a provider's
   answer; False only at the error limit (recorded finding) or for an empty provider answer *)
Theorem getblock_origin st q h parse page limit c s v :
  xr_ret (lib_getblock st q h parse page limit c s) = WRet v ->
  (exists cnt, xc_getblock c h = Some cnt /\ v = VBlock h cnt (xc_getblocktransactions c h page limit) parse) \/
  provider_answer (map (inst_block h parse page limit) q) v \/
  (v = VBool false /\ (limit_reached st (map (inst_block h parse page limit) q) \/
                       exists a, provider_answer (map (inst_block h parse page limit) q) a /\ truthy a = false)).
Proof.
  unfold lib_getblock, xr_ret.
  match goal with |- context [if ?X then _ else _] => destruct X end.
  - destruct (lib_provider_execute st (map (inst_block h parse page limit) q)) as [[rr res] errs] eqn:Ex.
    pose proof (exec_cases _ _ _ _ _ Ex) as Hc.
    destruct rr as [w | |]; simpl.
    + destruct w; simpl; intros H; try discriminate H;
        try (inversion H; subst; right; right; split; [reflexivity | right; eexists; split; [exact Hc | reflexivity]]; fail).
      * (* VInt *) destruct (negb (z =? 0)) eqn:Ez; [discriminate H |]. inversion H.
        right; right; split; [reflexivity | right; eexists; split; [exact Hc | simpl; exact Ez]].
      * (* VBool *) destruct b; [discriminate H |]. inversion H.
        right; right; split; [reflexivity | right; eexists; split; [exact Hc | reflexivity]].
      * (* VUtxos *) destruct vals; [| discriminate H]. inversion H.
        right; right; split; [reflexivity | right; eexists; split; [exact Hc | reflexivity]].
      * (* VTxs *) destruct l; [| discriminate H]. inversion H.
        right; right; split; [reflexivity | right; eexists; split; [exact Hc | reflexivity]].
      * (* VUtxoL *) destruct l; [| discriminate H]. inversion H.
        right; right; split; [reflexivity | right; eexists; split; [exact Hc | reflexivity]].
      * (* VBlock *) inversion H; subst. right; left. exact Hc.
    + intros H; inversion H. right; right; split; [reflexivity | left; exact Hc].
    + intros H; discriminate H.
  - destruct (xc_getblock c h) as [cnt |]; simpl; intros H; [| discriminate H].
    inversion H. left. exists cnt. split; reflexivity.
Qed.
