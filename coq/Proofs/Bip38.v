(* Proofs/Bip38.v — BIP38 round trip, address-hash check, agreement with the BIP text (C15).
   Everything is proved for ARBITRARY scrypt / AES / hash / Base58 / curve functions satisfying the
   hypotheses of the section (they become visible premises of the theorems in Properties/C15.v). *)
From Coq Require Import ZArith List Bool Lia.
From Coq.Strings Require Import Byte.
From Verif Require Import Lib.Bytes Model.Bip38 Proofs.Bip38Xor.
Import ListNotations.
Open Scope Z_scope.

Lemma secp_order_lt : secp_order < 256 ^ 32.
Proof. vm_compute. reflexivity. Qed.

Section Proofs.
Variable P : Type.
Variable utf8 : P -> bytes.
Variable nfc : P -> P.
Variable scrypt : bytes -> bytes -> Z -> Z -> Z -> nat -> bytes.
Variable aes_enc aes_dec : bytes -> bytes -> bytes.
Variable H H160 : bytes -> bytes.
Variable b58e : bytes -> bytes.
Variable b58d : bytes -> option bytes.
Variable pubser : bool -> Z -> option bytes.

(* the oracle facts *)
Hypothesis aes_ok : forall k b, length b = 16%nat -> aes_dec k (aes_enc k b) = b.
Hypothesis aes_enc_len : forall k b, length b = 16%nat -> length (aes_enc k b) = 16%nat.
Hypothesis scrypt_len : forall pw salt n r p dk, length (scrypt pw salt n r p dk) = dk.
Hypothesis H_len : forall x, length (H x) = 32%nat.

Notation address := (lib_address H H160 b58e pubser).
Notation key_encrypt := (lib_key_encrypt P utf8 scrypt aes_enc H H160 b58e pubser).
Notation key_decrypt := (lib_key_decrypt P utf8 scrypt aes_dec H H160 b58e b58d pubser).
Notation bip38_decrypt := (lib_bip38_decrypt P utf8 scrypt aes_dec H H160 b58e b58d pubser).
Notation decrypt_noec := (lib_decrypt_noec P utf8 scrypt aes_dec).
Notation check_address := (lib_check_address H H160 b58e pubser).

Lemma first4_len x : length (firstn 4 (H x)) = 4%nat.
Proof. apply firstn_len_le. rewrite H_len. lia. Qed.

(* the checksum / length test of bip38_decrypt passes on payload ++ checksum *)
Lemma checksum_passes (d payload cs : bytes) :
  d = payload ++ cs -> length payload = 39%nat -> cs = firstn 4 (H payload) ->
  negb (Nat.eqb (length d) 43) || negb (bytes_eqb (last_n 4 d) (firstn 4 (H (firstn (length d - 4) d)))) = false.
Proof.
  intros -> Lp Ec.
  assert (Lc : length cs = 4%nat) by (rewrite Ec; apply first4_len).
  rewrite app_length, Lp, Lc. change (39 + 4 - 4)%nat with 39%nat. cbn [Nat.eqb plus negb orb].
  unfold last_n. rewrite app_length, Lp, Lc. change (39 + 4 - 4)%nat with 39%nat.
  rewrite (skipn_exact _ _ 39 Lp), (firstn_exact _ _ 39 Lp), <- Ec, bytes_eqb_refl. reflexivity.
Qed.

(* ---------------------------------------------------------------- layout of a plain-mode payload *)
Lemma noec_slices flag ah eh1 eh2 cs :
  length ah = 4%nat -> length eh1 = 16%nat -> length eh2 = 16%nat -> length cs = 4%nat ->
  let d := pfx_noec ++ [flag] ++ ah ++ eh1 ++ eh2 ++ cs in
  length d = 43%nat /\ sl 0 2 d = pfx_noec /\ sl 2 3 d = [flag] /\ sl 3 7 d = ah /\
  sl 0 4 (skipn 3 d) = ah /\ sl_end 4 4 (skipn 3 d) = eh1 ++ eh2.
Proof.
  intros Hah H1 H2 Hcs d.
  assert (Hd : d = x01 :: x42 :: flag :: ah ++ eh1 ++ eh2 ++ cs) by reflexivity.
  assert (Hs : skipn 3 d = ah ++ eh1 ++ eh2 ++ cs) by (rewrite Hd; reflexivity).
  refine (conj _ (conj _ (conj _ (conj _ (conj _ _))))).
  - rewrite Hd. cbn [length]. rewrite !app_length. lia.
  - rewrite Hd. reflexivity.
  - rewrite Hd. reflexivity.
  - unfold sl. rewrite Hs. change (7 - 3)%nat with 4%nat. apply firstn_exact. exact Hah.
  - rewrite Hs. unfold sl. change (skipn 0 ?x) with x. change (4 - 0)%nat with 4%nat.
    apply firstn_exact. exact Hah.
  - rewrite Hs. unfold sl_end. rewrite skipn_exact by exact Hah.
    rewrite !app_length, Hah, H1, H2, Hcs. change (4 + (16 + (16 + 4)) - 4 - 4)%nat with 32%nat.
    rewrite app_assoc. apply firstn_exact. rewrite app_length. lia.
Qed.

Lemma halves_of_app (a b : bytes) : length a = 16%nat -> length b = 16%nat ->
  sl 0 16 (a ++ b) = a /\ sl 16 32 (a ++ b) = b.
Proof.
  intros Ha Hb. unfold sl. split.
  - change (skipn 0 ?x) with x. change (16 - 0)%nat with 16%nat. apply firstn_exact. exact Ha.
  - rewrite skipn_exact by exact Ha. change (32 - 16)%nat with 16%nat. apply firstn_whole. exact Hb.
Qed.

(* what the unchecked low-level decryption returns on a well-formed payload *)
Lemma noec_decrypt_payload flag ah eh1 eh2 cs pw :
  length ah = 4%nat -> length eh1 = 16%nat -> length eh2 = 16%nat -> length cs = 4%nat ->
  mem_byte [flag] [xc0; xe0; x20] = true ->
  decrypt_noec (pfx_noec ++ [flag] ++ ah ++ eh1 ++ eh2 ++ cs) pw =
  Ok {| di_priv := xor_be 32 (aes_dec (sl 32 64 (scrypt (utf8 pw) ah 16384 8 8 64%nat)) eh1 ++
                              aes_dec (sl 32 64 (scrypt (utf8 pw) ah 16384 8 8 64%nat)) eh2)
                             (sl 0 32 (scrypt (utf8 pw) ah 16384 8 8 64%nat));
        di_hash := ah; di_compressed := negb (mem_byte [flag] [xc0]);
        di_lot := None; di_sequence := None; di_seed := [] |}.
Proof.
  intros Hah H1 H2 Hcs Hf.
  destruct (noec_slices flag ah eh1 eh2 cs Hah H1 H2 Hcs) as (_ & _ & S2 & _ & S4 & S5).
  destruct (halves_of_app eh1 eh2 H1 H2) as (E1 & E2).
  unfold lib_decrypt_noec. cbv zeta.
  rewrite S2, S4, S5, Hf, E1, E2. reflexivity.
Qed.

(* ---------------------------------------------------------------- the two halves cancel *)
Lemma noec_xor_cancel (priv dh1 dh2 : bytes) :
  length priv = 32%nat -> length dh1 = 32%nat ->
  xor_be 32 (aes_dec dh2 (aes_enc dh2 (xor_be 16 (sl 0 16 priv) (sl 0 16 dh1))) ++
             aes_dec dh2 (aes_enc dh2 (xor_be 16 (sl 16 32 priv) (sl 16 32 dh1)))) dh1 = priv.
Proof.
  intros Hp Hd.
  rewrite !aes_ok by apply xor_be_length.
  rewrite (halves32 dh1 Hd) at 3.
  change 32%nat with (16 + 16)%nat at 1.
  assert (L1 : length (sl 0 16 priv) = 16%nat) by (rewrite sl_len; lia).
  assert (L2 : length (sl 16 32 priv) = 16%nat) by (rewrite sl_len; lia).
  assert (L3 : length (sl 0 16 dh1) = 16%nat) by (rewrite sl_len; lia).
  assert (L4 : length (sl 16 32 dh1) = 16%nat) by (rewrite sl_len; lia).
  rewrite xor_be_app by (try apply xor_be_length; assumption).
  rewrite !xor_be_invol by assumption.
  symmetry. apply halves32. exact Hp.
Qed.

(* ---------------------------------------------------------------- round trip *)
Hypothesis b58_rt : forall x, length x = 43%nat -> b58d (b58e x) = Some x.
Hypothesis b58_prot : forall x, length x = 43%nat -> sl 0 2 x = pfx_noec -> lib_is_protected (b58e x) = true.

Lemma flag_facts (c : bool) :
  mem_byte [if c then xe0 else xc0] [xc0; xe0; x20] = true /\
  negb (mem_byte [if c then xe0 else xc0] [xc0]) = c.
Proof. destruct c; split; reflexivity. Qed.

Theorem key_roundtrip pfx c k pw e :
  0 <= k < 256 ^ 32 ->
  key_encrypt pfx c k pw = Some e ->
  key_decrypt pfx e pw = KOk k c.
Proof.
  intros Hk He. unfold lib_key_encrypt in He.
  destruct (address pfx c k) as [a|] eqn:Ha; [|discriminate].
  assert (Ee : e = lib_bip38_encrypt scrypt aes_enc H b58e (be_bytes 32 k) a (utf8 pw) (if c then xe0 else xc0))
    by congruence.
  clear He. subst e.
  unfold lib_bip38_encrypt. cbv zeta.
  set (ah := firstn 4 (H a)).
  set (key := scrypt (utf8 pw) ah 16384 8 8 64%nat).
  set (flag := if c then xe0 else xc0).
  set (priv := be_bytes 32 k).
  set (dh1 := sl 0 32 key). set (dh2 := sl 32 64 key).
  set (eh1 := aes_enc dh2 (xor_be 16 (sl 0 16 priv) (sl 0 16 dh1))).
  set (eh2 := aes_enc dh2 (xor_be 16 (sl 16 32 priv) (sl 16 32 dh1))).
  set (cs := firstn 4 (H (pfx_noec ++ [flag] ++ ah ++ eh1 ++ eh2))).
  assert (Hah : length ah = 4%nat) by apply first4_len.
  assert (Hcs : length cs = 4%nat) by apply first4_len.
  assert (H1 : length eh1 = 16%nat) by (apply aes_enc_len, xor_be_length).
  assert (H2 : length eh2 = 16%nat) by (apply aes_enc_len, xor_be_length).
  assert (Hkey : length key = 64%nat) by apply scrypt_len.
  assert (Hd1 : length dh1 = 32%nat) by (unfold dh1; rewrite sl_len; lia).
  assert (Hpriv : length priv = 32%nat) by apply be_bytes_length.
  replace ((pfx_noec ++ [flag] ++ ah ++ eh1 ++ eh2) ++ cs)
    with (pfx_noec ++ [flag] ++ ah ++ eh1 ++ eh2 ++ cs) by (rewrite <- !app_assoc; reflexivity).
  destruct (noec_slices flag ah eh1 eh2 cs Hah H1 H2 Hcs) as (Ld & S0 & _).
  destruct (flag_facts c) as (F1 & F2). fold flag in F1, F2.
  unfold lib_key_decrypt.
  rewrite (b58_prot _ Ld S0). cbn [negb].
  unfold lib_bip38_decrypt. rewrite (b58_rt _ Ld).
  assert (Ck : negb (Nat.eqb (length (pfx_noec ++ [flag] ++ ah ++ eh1 ++ eh2 ++ cs)) 43) ||
               negb (bytes_eqb (last_n 4 (pfx_noec ++ [flag] ++ ah ++ eh1 ++ eh2 ++ cs))
                       (firstn 4 (H (firstn (length (pfx_noec ++ [flag] ++ ah ++ eh1 ++ eh2 ++ cs) - 4)
                                            (pfx_noec ++ [flag] ++ ah ++ eh1 ++ eh2 ++ cs))))) = false).
  { apply (checksum_passes _ (pfx_noec ++ [flag] ++ ah ++ eh1 ++ eh2) cs).
    - rewrite <- !app_assoc. reflexivity.
    - unfold pfx_noec. cbn [app length]. rewrite !app_length. lia.
    - reflexivity. }
  rewrite Ck.
  rewrite S0.
  change (bytes_eqb pfx_noec pfx_ec) with false. change (bytes_eqb pfx_noec pfx_noec) with true. cbv iota.
  rewrite (noec_decrypt_payload flag ah eh1 eh2 cs pw Hah H1 H2 Hcs F1).
  fold key. fold dh1. fold dh2. unfold eh1, eh2.
  rewrite (noec_xor_cancel priv dh1 dh2 Hpriv Hd1).
  unfold lib_check_address. cbn [di_priv di_compressed di_hash].
  rewrite F2. unfold priv. rewrite of_be_be_bytes_small by exact Hk.
  rewrite Ha. fold ah. rewrite bytes_eqb_refl. reflexivity.
Qed.

Lemma encrypt_total pfx c k pw : pubser c k <> None -> exists e, key_encrypt pfx c k pw = Some e.
Proof.
  intros Hp. unfold lib_key_encrypt, lib_address.
  destruct (pubser c k); [eexists; reflexivity | contradiction].
Qed.

(* ---------------------------------------------------------------- the address-hash check *)
Lemma noec_hash d pw i : decrypt_noec d pw = Ok i -> di_hash i = sl 3 7 d.
Proof.
  unfold lib_decrypt_noec. cbv zeta.
  destruct (negb (mem_byte (sl 2 3 d) [xc0; xe0; x20])); [discriminate|].
  intros E. injection E as <-. cbn [di_hash].
  reflexivity.
Qed.

Lemma ec_hash d pw i : lib_decrypt_ec P utf8 scrypt aes_dec H H160 b58e pubser d pw = Ok i -> di_hash i = sl 3 7 d.
Proof.
  unfold lib_decrypt_ec. cbv zeta.
  repeat match goal with
  | |- context [if ?b then _ else _] => destruct b; try discriminate
  | |- context [match ?o with Some _ => _ | None => _ end] => destruct o; try discriminate
  end;
  intros E; injection E as <-; reflexivity.
Qed.

Theorem decrypt_checked pfx e pw k c :
  key_decrypt pfx e pw = KOk k c ->
  exists d a, b58d e = Some d /\ address pfx c k = Some a /\ firstn 4 (H a) = sl 3 7 d.
Proof.
  unfold lib_key_decrypt.
  destruct (negb (lib_is_protected e)); [discriminate|].
  destruct (bip38_decrypt e pw) as [i|] eqn:Ei; [|discriminate].
  unfold lib_check_address.
  destruct (address pfx (di_compressed i) (of_be (di_priv i))) as [a|] eqn:Ea; [|discriminate].
  destruct (negb (bytes_eqb (firstn 4 (H a)) (di_hash i))) eqn:Eb; [discriminate|].
  intros E. assert (k = of_be (di_priv i) /\ c = di_compressed i) as [-> ->] by (split; congruence).
  apply negb_false_iff, bytes_eqb_true in Eb.
  unfold lib_bip38_decrypt in Ei.
  destruct (b58d e) as [d|]; [|discriminate].
  destruct (negb (Nat.eqb (length d) 43) || _); [discriminate|].
  exists d, a. split; [reflexivity|]. split; [exact Ea|]. rewrite Eb.
  destruct (bytes_eqb (sl 0 2 d) pfx_ec); [eapply ec_hash; exact Ei|].
  destruct (bytes_eqb (sl 0 2 d) pfx_noec); [eapply noec_hash; exact Ei | discriminate].
Qed.

(* decrypting an encryption of k with ANY passphrase: either an error, or a key whose address has the same
   4-byte hash as the address of k *)
Theorem other_passphrase pfx c k pw e pw' k' c' :
  key_encrypt pfx c k pw = Some e ->
  key_decrypt pfx e pw' = KOk k' c' ->
  exists a a', address pfx c k = Some a /\ address pfx c' k' = Some a' /\ firstn 4 (H a') = firstn 4 (H a).
Proof.
  intros He Hd.
  destruct (decrypt_checked pfx e pw' k' c' Hd) as (d & a' & Ed & Ea' & Eh).
  unfold lib_key_encrypt in He.
  destruct (address pfx c k) as [a|] eqn:Ha; [|discriminate].
  exists a, a'. split; [reflexivity|]. split; [exact Ea'|]. rewrite Eh.
  assert (Ee : e = lib_bip38_encrypt scrypt aes_enc H b58e (be_bytes 32 k) a (utf8 pw) (if c then xe0 else xc0))
    by congruence.
  clear He. subst e. unfold lib_bip38_encrypt in Ed. cbv zeta in Ed.
  set (ah := firstn 4 (H a)) in *.
  set (flag := if c then xe0 else xc0) in *.
  set (key := scrypt (utf8 pw) ah 16384 8 8 64%nat) in *.
  set (eh1 := aes_enc _ _) in Ed. set (eh2 := aes_enc _ _) in Ed.
  set (cs := firstn 4 (H _)) in Ed.
  assert (Hah : length ah = 4%nat) by apply first4_len.
  assert (Hcs : length cs = 4%nat) by apply first4_len.
  assert (H1 : length eh1 = 16%nat) by (apply aes_enc_len, xor_be_length).
  assert (H2 : length eh2 = 16%nat) by (apply aes_enc_len, xor_be_length).
  replace ((pfx_noec ++ [flag] ++ ah ++ eh1 ++ eh2) ++ cs)
    with (pfx_noec ++ [flag] ++ ah ++ eh1 ++ eh2 ++ cs) in Ed by (rewrite <- !app_assoc; reflexivity).
  destruct (noec_slices flag ah eh1 eh2 cs Hah H1 H2 Hcs) as (Ld & _ & _ & S3 & _).
  rewrite (b58_rt _ Ld) in Ed. injection Ed as <-. exact S3.
Qed.

(* ---------------------------------------------------------------- agreement with the BIP text *)
Notation s_encrypt := (spec_encrypt P utf8 nfc scrypt aes_enc H H160 b58e pubser).

Theorem encrypt_is_spec pfx c k pw :
  utf8 (nfc pw) = utf8 pw -> key_encrypt pfx c k pw = s_encrypt pfx c k pw.
Proof.
  intros Hn. unfold lib_key_encrypt, spec_encrypt.
  destruct (address pfx c k) as [a|]; [|reflexivity].
  f_equal. unfold lib_bip38_encrypt, b58check. cbv zeta. rewrite Hn.
  set (key := scrypt (utf8 pw) (firstn 4 (H a)) 16384 8 8 64%nat).
  assert (Hkey : length key = 64%nat) by apply scrypt_len.
  assert (Hp : length (be_bytes 32 k) = 32%nat) by apply be_bytes_length.
  assert (D1 : sl 0 32 key = firstn 32 key) by reflexivity.
  assert (D2 : sl 32 64 key = skipn 32 key).
  { unfold sl. change (64 - 32)%nat with 32%nat. apply firstn_whole. rewrite skipn_length. lia. }
  assert (L1 : length (firstn 32 key) = 32%nat) by (apply firstn_len_le; lia).
  assert (Q1 : forall l : bytes, sl 0 16 l = firstn 16 l) by reflexivity.
  assert (Q2 : forall l : bytes, length l = 32%nat -> sl 16 32 l = skipn 16 l).
  { intros l Hl. unfold sl. change (32 - 16)%nat with 16%nat. apply firstn_whole. rewrite skipn_length. lia. }
  rewrite D1, D2, !Q1, !Q2 by assumption.
  reflexivity.
Qed.

End Proofs.

(* ---------------------------------------------------------------- entropy use *)
Lemma run_ops_fresh : forall ops n,
  run_ops {| ps_next := n; ps_def_salt := None; ps_def_seed := None |} ops = spec_entropy_use n ops.
Proof.
  induction ops as [|o r IH]; intros n; [reflexivity|].
  destruct o as [[|]|[|]]; cbn [run_ops op_step spec_entropy_use op_explicit ps_next ps_def_salt ps_def_seed];
    rewrite IH; reflexivity.
Qed.

Theorem entropy_is_spec ops : lib_entropy_use ops = spec_entropy_use 0 ops.
Proof. apply run_ops_fresh. Qed.

Lemma spec_all_default : forall ops n, (forall o, In o ops -> op_explicit o = false) ->
  spec_entropy_use n ops = map Some (seq n (length ops)).
Proof.
  induction ops as [|o r IH]; intros n Hall; [reflexivity|].
  cbn [spec_entropy_use length seq map]. rewrite (Hall o (or_introl eq_refl)).
  rewrite IH by (intros o' Ho'; apply Hall; right; exact Ho'). reflexivity.
Qed.

(* the k-th call of a history that never passes seed / owner_salt consumes chunk k *)
Theorem kth_call_kth_chunk ops : (forall o, In o ops -> op_explicit o = false) ->
  lib_entropy_use ops = map Some (seq 0 (length ops)).
Proof. intros Hall. rewrite entropy_is_spec. apply spec_all_default. exact Hall. Qed.

Lemma spec_lower : forall ops n i a, nth_error (spec_entropy_use n ops) i = Some (Some a) -> (n <= a)%nat.
Proof.
  induction ops as [|o r IH]; intros n i a Hi; [destruct i; discriminate|].
  cbn [spec_entropy_use] in Hi. destruct (op_explicit o).
  - destruct i; [discriminate|]. cbn [nth_error] in Hi. eapply IH. exact Hi.
  - destruct i; cbn [nth_error] in Hi.
    + assert (a = n) by congruence. lia.
    + apply IH in Hi. lia.
Qed.

Lemma spec_increasing : forall ops n i j a b, (i < j)%nat ->
  nth_error (spec_entropy_use n ops) i = Some (Some a) ->
  nth_error (spec_entropy_use n ops) j = Some (Some b) -> (a < b)%nat.
Proof.
  induction ops as [|o r IH]; intros n i j a b Hij Hi Hj; [destruct i; discriminate|].
  cbn [spec_entropy_use] in Hi, Hj. destruct j; [lia|].
  destruct (op_explicit o).
  - destruct i; [discriminate|]. cbn [nth_error] in Hi, Hj. eapply (IH n i j); [lia | exact Hi | exact Hj].
  - cbn [nth_error] in Hj. destruct i; cbn [nth_error] in Hi.
    + assert (a = n) by congruence. apply spec_lower in Hj. lia.
    + eapply (IH (S n) i j); [lia | exact Hi | exact Hj].
Qed.

(* any two calls that rely on the default consume different chunks, whatever else is in the history *)
Theorem distinct_calls_distinct_chunks ops i j a b : i <> j ->
  nth_error (lib_entropy_use ops) i = Some (Some a) ->
  nth_error (lib_entropy_use ops) j = Some (Some b) -> a <> b.
Proof.
  rewrite entropy_is_spec. intros Hij Hi Hj.
  destruct (Nat.lt_ge_cases i j) as [L|L].
  - pose proof (spec_increasing ops 0 i j a b L Hi Hj). lia.
  - assert (L' : (j < i)%nat) by lia.
    pose proof (spec_increasing ops 0 j i b a L' Hj Hi). lia.
Qed.

(* ---------------------------------------------------------------- intermediate codes vs the BIP text *)
Section Intermediate.
Variable P : Type.
Variable utf8 : P -> bytes.
Variable nfc : P -> P.
Variable scrypt : bytes -> bytes -> Z -> Z -> Z -> nat -> bytes.
Variable H : bytes -> bytes.
Variable b58e : bytes -> bytes.
Variable pubser : bool -> Z -> option bytes.

Notation l_inter := (lib_intermediate P utf8 nfc scrypt H b58e pubser).
Notation s_inter := (spec_intermediate P utf8 nfc scrypt H b58e pubser).

(* guard: a sequence number 0 is refused by the library (class sequence_zero_refused) *)
Theorem intermediate_is_spec pw ls salt r :
  match ls with Some (_, s) => s <> 0 | None => True end ->
  l_inter pw (option_map fst ls) (option_map snd ls) salt = Ok r <-> s_inter pw ls salt = Some r.
Proof.
  intros G. unfold lib_intermediate, spec_intermediate.
  destruct ls as [[l s]|]; cbn [option_map fst snd truthy].
  - destruct (Nat.eqb (length salt) 4) eqn:E4; destruct (Nat.eqb (length salt) 8) eqn:E8;
      destruct (l =? 0) eqn:El; destruct (s =? 0) eqn:Es;
      try (apply Z.eqb_eq in Es; contradiction);
      cbn [negb andb orb];
      destruct (100000 <=? l) eqn:R1; destruct (l <=? 999999) eqn:R2;
      destruct (0 <=? s) eqn:R3; destruct (s <=? 4095) eqn:R4; cbn [negb andb orb];
      try (apply Z.eqb_eq in El; apply Z.leb_le in R1; lia);
      try (split; intros; discriminate);
      change (sl 0 4 salt) with (firstn 4 salt);
      (destruct (pubser true _); split; intros E; try discriminate; inversion E; reflexivity).
  - destruct (Nat.eqb (length salt) 4) eqn:E4; destruct (Nat.eqb (length salt) 8) eqn:E8;
      cbn [negb andb orb]; try (split; intros; discriminate);
      try (apply Nat.eqb_eq in E4; apply Nat.eqb_eq in E8; lia);
      (destruct (pubser true _); split; intros E; try discriminate; inversion E; reflexivity).
Qed.

(* the refuted class: whatever the oracles are, lot 100000 / sequence 0 raises, while the BIP allows it *)
Lemma intermediate_seq0_lib pw salt : length salt = 8%nat -> l_inter pw (Some 100000) (Some 0) salt = Err EValue.
Proof.
  intros Hl. unfold lib_intermediate. rewrite Hl. reflexivity.
Qed.

Lemma intermediate_seq0_spec pw salt : length salt = 8%nat ->
  pubser true (of_be (H (scrypt (utf8 (nfc pw)) (firstn 4 salt) 16384 8 8 32%nat ++
                          (firstn 4 salt ++ be_bytes 4 (100000 * 4096 + 0))))) <> None ->
  s_inter pw (Some (100000, 0)) salt <> None.
Proof.
  intros Hl Hp. unfold spec_intermediate. rewrite Hl. cbn [Nat.eqb negb orb andb Z.leb Z.compare Pos.compare Pos.compare_cont].
  destruct (pubser true _); [discriminate | contradiction].
Qed.
End Intermediate.

(* the round trip for k in [1, n-1] *)
Theorem key_roundtrip_n P utf8 scrypt aes_enc aes_dec H H160 b58e b58d pubser :
  aes_inverse aes_enc aes_dec -> aes_block_length aes_enc -> scrypt_length scrypt -> hash_length H ->
  b58_roundtrip43 b58e b58d -> b58_protected_shape b58e ->
  forall pfx c k pw e, 0 < k < secp_order ->
  lib_key_encrypt P utf8 scrypt aes_enc H H160 b58e pubser pfx c k pw = Some e ->
  lib_key_decrypt P utf8 scrypt aes_dec H H160 b58e b58d pubser pfx e pw = KOk k c.
Proof.
  intros A1 A2 A3 A4 A5 A6 pfx c k pw e Hk. apply key_roundtrip; try assumption.
  pose proof secp_order_lt. lia.
Qed.
