(* Proofs/KeyPoint.v — key import, decompression (C04).
   Primality of secp256k1_p is a premise of every statement that needs it (Znumtheory.prime secp256k1_p);
   it is not proved (no primality certificate checker is available). *)
From Coq Require Import ZArith List Bool Lia Znumtheory.
From Coq.Strings Require Import Byte.
From Verif Require Import Lib.Bytes Crypto.Secp256k1 Crypto.Secp256k1Lemmas Gen.GenConsts Gen.GenKeyConsts
  Gen.GenNetworks Model.AddrEnc Model.KeyPoint Proofs.KeyPointFermat.
Import ListNotations.
Open Scope Z_scope.

Local Notation p := secp256k1_p.

(* ---------------------------------------------------------------- constants (regenerated from the source) *)

Lemma p_glue : secp256k1_p = secp_p. Proof. reflexivity. Qed.
Lemma n_glue : secp256k1_n = secp_n. Proof. reflexivity. Qed.
Lemma p_pos : 0 < p. Proof. reflexivity. Qed.
Lemma p_odd : Z.odd p = true. Proof. reflexivity. Qed.
Lemma b_mod_p : keys_decompress_b mod p = 7. Proof. reflexivity. Qed.

(* the exponent literal of keys.mod_sqrt is (p + 1) / 4 and p = 3 mod 4 *)
Theorem sqrt_exp_ok_pf :
  keys_mod_sqrt_k + 1 = (secp256k1_p + 1) / 4 /\ secp256k1_p mod 4 = 3 /\ 4 * (keys_mod_sqrt_k + 1) = secp256k1_p + 1 /\
  keys_mod_sqrt_k + 1 = secp_sqrt_exp.
Proof. repeat split; reflexivity. Qed.

Lemma exp_eq : 4 * (keys_mod_sqrt_k + 1) = p + 1. Proof. reflexivity. Qed.
Lemma exp_nonneg : 0 <= keys_mod_sqrt_k + 1. Proof. discriminate. Qed.

Lemma sub_mod_0 a b m : 0 < m -> (a - b) mod m = 0 -> a mod m = b mod m.
Proof.
  intros Hm H. replace a with (b + (a - b)) by ring.
  rewrite Zplus_mod, H, Z.add_0_r. apply Z.mod_mod. lia.
Qed.

Lemma lib_ys_eq x : lib_ys x = x ^ 3 mod p + 7.
Proof. unfold lib_ys. rewrite b_mod_p. rewrite powmod_spec by (reflexivity || discriminate). reflexivity. Qed.

Lemma lib_ys_mod x : lib_ys x mod p = (x * x * x + 7) mod p.
Proof.
  rewrite lib_ys_eq. rewrite Zplus_mod_idemp_l. f_equal. ring.
Qed.

Lemma lib_mod_sqrt_eq a : lib_mod_sqrt a = a ^ (keys_mod_sqrt_k + 1) mod p.
Proof. unfold lib_mod_sqrt. apply powmod_spec; [reflexivity | discriminate]. Qed.

Lemma lib_mod_sqrt_mod a : lib_mod_sqrt (a mod p) = lib_mod_sqrt a.
Proof. unfold lib_mod_sqrt. apply powmod_mod_base. reflexivity. Qed.

Lemma lib_mod_sqrt_range a : 0 <= lib_mod_sqrt a < p.
Proof. unfold lib_mod_sqrt. apply powmod_range. reflexivity. Qed.

Lemma on_curve_inv x y : on_curve (Some (x, y)) = true ->
  0 <= x < p /\ 0 <= y < p /\ (y * y) mod p = (x * x * x + 7) mod p.
Proof.
  unfold on_curve. rewrite !andb_true_iff. intros [[[[H1 H2] H3] H4] H5].
  apply Z.leb_le in H1. apply Z.ltb_lt in H2. apply Z.leb_le in H3. apply Z.ltb_lt in H4. apply Z.eqb_eq in H5.
  rewrite p_glue. repeat split; try assumption.
  apply sub_mod_0; [reflexivity|]. exact H5.
Qed.

Lemma on_curve_intro x y :
  0 <= x < p -> 0 <= y < p -> (y * y) mod p = (x * x * x + 7) mod p -> on_curve (Some (x, y)) = true.
Proof.
  intros Hx Hy H. unfold on_curve. rewrite <- p_glue. rewrite !andb_true_iff. repeat split;
    try (apply Z.leb_le; lia); try (apply Z.ltb_lt; lia).
  apply Z.eqb_eq. change secp_b with 7. rewrite Zminus_mod, H, Z.sub_diag. apply Z.mod_0_l. discriminate.
Qed.

(* ---------------------------------------------------------------- decompression *)

(* Key.public_uncompressed_hex recovers y from (parity of y, x) for every point of the curve *)
Theorem decompress_compress_pf :
  prime secp256k1_p ->
  forall x y, on_curve (Some (x, y)) = true -> lib_decompress_y (Z.odd y) x = y.
Proof.
  intros Hp x y Hc. apply on_curve_inv in Hc. destruct Hc as [Hx [Hy Heq]].
  unfold lib_decompress_y. rewrite lib_mod_sqrt_eq.
  destruct (sqrt_candidate p (keys_mod_sqrt_k + 1) Hp exp_eq (lib_ys x) y Hy) as [E|E].
  - rewrite lib_ys_mod. symmetry. exact Heq.
  - rewrite E. rewrite Bool.eqb_reflx. reflexivity.
  - rewrite E. rewrite Z.odd_sub, p_odd.
    destruct (Z.odd y); cbn [xorb Bool.eqb negb]; lia.
Qed.

(* the value computed for (sign, x): the candidate root or its negation *)
Lemma decompress_y_cases sign x :
  let r := lib_mod_sqrt (lib_ys x) in
  (lib_decompress_y sign x = r /\ Z.odd r = sign) \/ (lib_decompress_y sign x = p - r /\ Z.odd r = negb sign).
Proof.
  cbv zeta. unfold lib_decompress_y. destruct (Bool.eqb (Z.odd (lib_mod_sqrt (lib_ys x))) sign) eqn:E.
  - left. apply Bool.eqb_prop in E. split; [reflexivity | exact E].
  - right. split; [reflexivity|]. destruct (Z.odd (lib_mod_sqrt (lib_ys x))), sign; cbn in *; congruence.
Qed.

Lemma minus7_mod : (-7) mod p <> 0. Proof. discriminate. Qed.
Lemma third : 3 * ((p - 1) / 3) = p - 1. Proof. reflexivity. Qed.
Lemma cube_check : powmod (-7) ((p - 1) / 3) p <> 1.
Proof. vm_compute. discriminate. Qed.

(* no point of the curve has y = 0: -7 is not a cube modulo p *)
Lemma y2_nonzero : prime p -> forall x, (x * x * x + 7) mod p <> 0.
Proof.
  intros Hp x H.
  apply (not_a_cube p ((p - 1) / 3) (-7) x Hp third minus7_mod).
  - rewrite <- powmod_spec by (reflexivity || discriminate). exact cube_check.
  - replace (x * x * x) with ((x * x * x + 7) + (-7)) by ring.
    rewrite Zplus_mod, H, Z.add_0_l. apply Z.mod_mod. discriminate.
Qed.

(* ---------------------------------------------------------------- the validity check of fixes/C04-3 *)

Definition chk_x (k : key) : Z := of_be (k_xb k).
Definition chk_y2 (k : key) : Z := (powmod (chk_x k) 3 p + 7) mod p.
Definition chk_y (k : key) : Z := match k_yb k with Some yb => of_be yb | None => lib_mod_sqrt (chk_y2 k) end.

Lemma chk_y2_eq k : chk_y2 k = lib_ys (chk_x k) mod p.
Proof. unfold chk_y2, lib_ys. rewrite b_mod_p. reflexivity. Qed.

Lemma chk_y2_curve k : chk_y2 k = (chk_x k * chk_x k * chk_x k + 7) mod p.
Proof. rewrite chk_y2_eq. apply lib_ys_mod. Qed.

Lemma pub_valid_inv k : lib_pub_invalid k = false ->
  (first_is (k_pubc k) 2 = true \/ first_is (k_pubc k) 3 = true) /\
  length (k_pubc k) = 33%nat /\
  match k_pubu k with Some u => first_is u 4 = true | None => True end /\
  chk_x k < p /\ chk_y k < p /\ (chk_y k * chk_y k) mod p = chk_y2 k.
Proof.
  unfold lib_pub_invalid. fold (chk_x k). fold (chk_y2 k). fold (chk_y k).
  rewrite !orb_false_iff. intros [[[[[H1 H2] H3] H4] H5] H6].
  apply negb_false_iff in H1, H2, H3, H6.
  apply orb_true_iff in H1. apply Nat.eqb_eq in H2. apply Z.leb_gt in H4. apply Z.leb_gt in H5.
  apply Z.eqb_eq in H6. rewrite powmod_spec in H6 by (reflexivity || discriminate).
  repeat split; try assumption.
  - destruct (k_pubu k); [exact H3 | exact I].
  - rewrite <- H6. f_equal. ring.
Qed.

Lemma chk_y_nonneg k : 0 <= chk_y k.
Proof. unfold chk_y. destruct (k_yb k); [apply of_be_range | apply lib_mod_sqrt_range]. Qed.

(* whatever passes the check has coordinates (x, chk_y) on the curve *)
Lemma pub_valid_on_curve k : lib_pub_invalid k = false -> on_curve (Some (chk_x k, chk_y k)) = true.
Proof.
  intros H. apply pub_valid_inv in H. destruct H as [_ [_ [_ [Hx [Hy Hsq]]]]].
  apply on_curve_intro.
  - split; [apply of_be_range | exact Hx].
  - split; [apply chk_y_nonneg | exact Hy].
  - rewrite Hsq. apply chk_y2_curve.
Qed.

(* the negation of a root is a root, and it is in range because no root is 0 *)
Lemma neg_root_on_curve : prime p -> forall x r,
  0 <= x < p -> 0 <= r < p -> (r * r) mod p = (x * x * x + 7) mod p -> on_curve (Some (x, p - r)) = true.
Proof.
  intros Hp x r Hx Hr Heq.
  assert (Hr0 : r <> 0).
  { intros E0. subst r. rewrite Z.mul_0_l in Heq. rewrite Z.mod_0_l in Heq by (pose proof p_pos; lia).
    symmetry in Heq. exact (y2_nonzero Hp _ Heq). }
  apply on_curve_intro; [exact Hx | lia |].
  rewrite <- Heq. replace ((p - r) * (p - r)) with (r * r + (p - 2 * r) * p) by ring.
  apply Z_mod_plus_full.
Qed.

(* the point reported by public_point() for a key that passed the check *)
Theorem pub_valid_point_on_curve_pf : prime secp256k1_p ->
  forall k, lib_pub_invalid k = false -> on_curve (Some (lib_public_point k)) = true.
Proof.
  intros Hp k Hv. pose proof (pub_valid_on_curve k Hv) as Hc.
  unfold lib_public_point, lib_y, lib_x. fold (chk_x k).
  destruct (k_yb k) as [yb|] eqn:Ey.
  - unfold chk_y in Hc. rewrite Ey in Hc. exact Hc.
  - unfold chk_y in Hc. rewrite Ey in Hc.
    rewrite chk_y2_eq, lib_mod_sqrt_mod in Hc.
    destruct (decompress_y_cases (first_is (k_pubc k) 3) (chk_x k)) as [[E _]|[E _]]; rewrite E; [exact Hc|].
    apply on_curve_inv in Hc. destruct Hc as [Hx [Hr Heq]].
    apply neg_root_on_curve; assumption.
Qed.

(* ---------------------------------------------------------------- Key.__init__ *)

Lemma mk_private_ok wide s c k : lib_mk_private true wide s c = ImpOk k ->
  k_private k = true /\ k_secret k = s /\
  ((0 < s < secp256k1_n) \/ (wide = true /\ s mod secp256k1_n <> 0)).
Proof.
  unfold lib_mk_private.
  destruct (true && negb ((0 <? s) && (s <? secp256k1_n)) && negb (wide && negb (s mod secp256k1_n =? 0))) eqn:E;
    [discriminate|].
  destruct (lib_pub_of_secret s) as [x y]. intros H. inversion H; subst; cbn. split; [reflexivity|]. split; [reflexivity|].
  destruct (0 <? s) eqn:E1; destruct (s <? secp256k1_n) eqn:E2; destruct wide;
    destruct (s mod secp256k1_n =? 0) eqn:E3; cbn in E; try discriminate;
    try (left; apply Z.ltb_lt in E1; apply Z.ltb_lt in E2; lia);
    right; (split; [reflexivity | apply Z.eqb_neq; exact E3]).
Qed.

Lemma finish_public_ok strict k0 k : lib_finish_public true strict k0 = ImpOk k ->
  k = k0 /\ (strict = true -> lib_pub_invalid k0 = false).
Proof.
  unfold lib_finish_public. destruct strict; cbn [andb].
  - destruct (lib_pub_invalid k0); [discriminate|]. intros H; inversion H. split; [reflexivity | reflexivity].
  - intros H; inversion H. split; [reflexivity | discriminate].
Qed.

Lemma import_public_ok strict b k : lib_import_public true strict b = ImpOk k ->
  k_private k = false /\ (strict = true -> lib_pub_invalid k = false).
Proof.
  unfold lib_import_public. destruct (length b =? 65)%nat; intros H; apply finish_public_ok in H;
    destruct H as [-> H]; split; [reflexivity | exact H | reflexivity | exact H].
Qed.

Ltac crush_import H :=
  repeat match type of H with
         | ImpReject = ImpOk _ => discriminate H
         | ImpRandom = ImpOk _ => discriminate H
         | ImpOutOfScope = ImpOk _ => discriminate H
         | context [match length ?b with O => _ | S _ => _ end] => destruct (length b) eqn:?
         | context [if ?c then _ else _] => destruct c eqn:?
         end.

Definition not_wide (inp : key_input) : Prop :=
  match inp with KHexStr b => length b <> 64%nat | _ => True end.

(* every private key object that Key(...) returns has its secret in [1, n-1]
   (the 128 character hexadecimal form excepted: import_range_wide_pf, import_range_wide_refuted) *)
Theorem import_range_pf : forall inp c s k,
  lib_key_import inp c s = ImpOk k -> k_private k = true -> not_wide inp ->
  1 <= k_secret k < secp256k1_n.
Proof.
  intros inp c s k H Hpriv Hw. unfold lib_key_import, lib_key_import_gen in H.
  destruct inp as [z|z|b|b|x y]; crush_import H;
    try (apply import_public_ok in H; destruct H as [H _]; congruence);
    try (apply finish_public_ok in H; destruct H as [-> _]; discriminate Hpriv);
    apply mk_private_ok in H; destruct H as [_ [-> [Hr|[Hwd _]]]]; try lia; try discriminate Hwd.
  (* the wide form *)
  cbn [not_wide] in Hw. exfalso. apply Hw.
  match goal with E : (_ =? 64)%nat = true |- _ => apply Nat.eqb_eq in E; rewrite <- E end.
  assumption.
Qed.

(* in the wide form the secret is at least not a multiple of n *)
Theorem import_range_wide_pf : forall inp c s k,
  lib_key_import inp c s = ImpOk k -> k_private k = true ->
  k_secret k mod secp256k1_n <> 0.
Proof.
  intros inp c s k H Hpriv. unfold lib_key_import, lib_key_import_gen in H.
  destruct inp as [z|z|b|b|x y]; crush_import H;
    try (apply import_public_ok in H; destruct H as [H _]; congruence);
    try (apply finish_public_ok in H; destruct H as [-> _]; discriminate Hpriv);
    apply mk_private_ok in H; destruct H as [_ [-> [Hr|[_ Hm]]]]; try exact Hm;
    rewrite Z.mod_small by lia; lia.
Qed.

(* every public key object that Key(..., strict=True) returns reports a point of the curve *)
Theorem import_public_on_curve_pf : prime secp256k1_p -> forall inp c k,
  lib_key_import inp c true = ImpOk k -> k_private k = false ->
  on_curve (Some (lib_public_point k)) = true.
Proof.
  intros Hp inp c k H Hpub. apply (pub_valid_point_on_curve_pf Hp).
  unfold lib_key_import, lib_key_import_gen in H.
  destruct inp as [z|z|b|b|x y]; crush_import H;
    try (apply import_public_ok in H; destruct H as [_ H]; apply H; reflexivity);
    try (apply finish_public_ok in H; destruct H as [-> H]; apply H; reflexivity);
    apply mk_private_ok in H; destruct H as [H _]; congruence.
Qed.

(* a compressed encoding whose x is not the abscissa of a curve point is refused (strict) *)
Theorem decompress_rejects_offcurve_pf : forall b c,
  length b = 33%nat -> (first_is b 2 = true \/ first_is b 3 = true) ->
  (forall y, on_curve (Some (of_be (skipn 1 b), y)) = false) ->
  lib_key_import (KBytes b) c true = ImpReject /\ lib_key_import (KHexStr b) c true = ImpReject.
Proof.
  intros b c Hl Hf Hoff.
  assert (Hx : firstn 32 (skipn 1 b) = skipn 1 b).
  { apply firstn_all2. rewrite skipn_length, Hl. cbn. lia. }
  assert (Hi : lib_import_public true true b = ImpReject).
  { unfold lib_import_public. rewrite Hl. cbn [Nat.eqb]. unfold lib_finish_public. cbn [andb].
    match goal with |- (if lib_pub_invalid ?k then _ else _) = _ => destruct (lib_pub_invalid k) eqn:E end;
      [reflexivity|].
    apply pub_valid_on_curve in E. unfold chk_x in E. cbn [k_xb] in E. rewrite Hx in E.
    rewrite Hoff in E. discriminate. }
  assert (Hor : first_is b 2 || first_is b 3 = true) by (apply orb_true_iff; exact Hf).
  unfold lib_key_import, lib_key_import_gen. rewrite Hl. cbn [Nat.eqb andb orb].
  rewrite Hor. cbn [andb orb]. rewrite Hi.
  destruct (first_is b 4); cbn [orb andb]; split; reflexivity.
Qed.

(* ... and, conversely, a compressed encoding of a curve point is accepted (needs the square root lemma) *)
Theorem compressed_accepted_pf : prime secp256k1_p -> forall x y c,
  on_curve (Some (x, y)) = true ->
  exists k, lib_key_import (KBytes (ser_point_compressed (Some (x, y)))) c true = ImpOk k /\
            lib_public_point k = (x, y) /\
            lib_public_compressed k = ser_point_compressed (Some (x, y)) /\
            lib_public_uncompressed k = ser_point_uncompressed (Some (x, y)).
Proof.
  intros Hp x y c Hc. pose proof (on_curve_inv x y Hc) as [Hx [Hy Heq]].
  assert (H256 : p < 256 ^ Z.of_nat 32) by (vm_compute; reflexivity).
  set (pfx := if Z.odd y then x03 else x02).
  assert (Hser : ser_point_compressed (Some (x, y)) = pfx :: be_bytes 32 x) by reflexivity.
  assert (Hxb : firstn 32 (skipn 1 (pfx :: be_bytes 32 x)) = be_bytes 32 x).
  { cbn [skipn]. apply firstn_all2. rewrite be_bytes_length. lia. }
  assert (Hofbe : of_be (be_bytes 32 x) = x) by (apply of_be_be_bytes_small; lia).
  assert (Hsign : first_is (pfx :: be_bytes 32 x) 3 = Z.odd y).
  { unfold pfx. destruct (Z.odd y); reflexivity. }
  assert (Hpf : first_is (pfx :: be_bytes 32 x) 2 || first_is (pfx :: be_bytes 32 x) 3 = true).
  { unfold pfx. destruct (Z.odd y); reflexivity. }
  assert (Hdec : lib_decompress_y (Z.odd y) x = y) by (apply decompress_compress_pf; assumption).
  (* the candidate root squares to x^3 + 7 *)
  set (k0 := {| k_private := false; k_secret := 0; k_compressed := true; k_pubc := pfx :: be_bytes 32 x;
                k_pubu := None; k_xb := be_bytes 32 x; k_yb := None |}).
  assert (Hvalid : lib_pub_invalid k0 = false).
  { unfold lib_pub_invalid. cbn [k0 k_pubc k_pubu k_xb k_yb]. rewrite Hofbe, Hpf. cbn [negb orb length].
    rewrite be_bytes_length. cbn [Nat.eqb negb orb].
    assert (E2 : (powmod x 3 p + 7) mod p = lib_ys x mod p) by (unfold lib_ys; rewrite b_mod_p; reflexivity).
    rewrite E2, lib_mod_sqrt_mod.
    set (r := lib_mod_sqrt (lib_ys x)).
    pose proof (lib_mod_sqrt_range (lib_ys x)) as Hr. fold r in Hr.
    pose proof (decompress_y_cases (Z.odd y) x) as Hcases. cbv zeta in Hcases. fold r in Hcases.
    rewrite Hdec in Hcases. clearbody r.
    assert (Hrr : (r * r) mod p = lib_ys x mod p).
    { rewrite lib_ys_mod, <- Heq.
      destruct Hcases as [[E _]|[E _]].
      - rewrite <- E. reflexivity.
      - replace r with (p - y) by lia. replace ((p - y) * (p - y)) with (y * y + (p - 2 * y) * p) by ring.
        apply Z_mod_plus_full. }
    rewrite powmod_spec by (reflexivity || discriminate). rewrite Z.pow_2_r.
    rewrite Hrr, Z.eqb_refl. cbn [negb orb].
    destruct (p <=? x) eqn:E3; [apply Z.leb_le in E3; lia|].
    destruct (p <=? r) eqn:E4; [apply Z.leb_le in E4; lia|]. reflexivity. }
  exists k0. split; [|split; [|split]].
  - unfold lib_key_import, lib_key_import_gen. rewrite Hser. cbn [length]. rewrite be_bytes_length.
    cbn [Nat.eqb andb orb]. rewrite Hpf. cbn [andb orb].
    unfold lib_import_public. cbn [length]. rewrite be_bytes_length. cbn [Nat.eqb]. rewrite Hxb.
    fold k0. unfold lib_finish_public. rewrite Hvalid. reflexivity.
  - unfold lib_public_point, lib_y, lib_x. cbn [k0 k_xb k_yb k_pubc]. rewrite Hofbe, Hsign, Hdec. reflexivity.
  - reflexivity.
  - unfold lib_public_uncompressed, lib_x. cbn [k0 k_pubu k_xb k_pubc]. rewrite Hofbe, Hsign, Hdec. reflexivity.
Qed.

Lemma split_32 (a b : bytes) : length a = 32%nat -> firstn 32 (a ++ b) = a /\ skipn 32 (a ++ b) = b.
Proof.
  intros H. rewrite <- H. split.
  - rewrite firstn_app, Nat.sub_diag, firstn_all. cbn [firstn]. apply app_nil_r.
  - rewrite skipn_app, Nat.sub_diag, skipn_all. reflexivity.
Qed.

(* a private key: the public encodings are those of d*G (compressed and uncompressed forms of one point) *)
Theorem private_public_forms_pf : forall wide d c k x y,
  lib_mk_private true wide d c = ImpOk k -> secp_pub d = Some (x, y) -> on_curve (Some (x, y)) = true ->
  lib_public_compressed k = ser_point_compressed (secp_pub d) /\
  lib_public_uncompressed k = ser_point_uncompressed (secp_pub d) /\
  lib_public_point k = (x, y) /\
  parse_point (lib_public_uncompressed k) = secp_pub d.
Proof.
  intros wide d c k x y H Hpub Hc. pose proof (on_curve_inv x y Hc) as [Hx [Hy _]].
  assert (H256 : p < 256 ^ Z.of_nat 32) by (vm_compute; reflexivity).
  unfold lib_mk_private in H.
  destruct (true && negb ((0 <? d) && (d <? secp256k1_n)) && negb (wide && negb (d mod secp256k1_n =? 0)));
    [discriminate|].
  unfold lib_pub_of_secret in H. rewrite Hpub in H.
  apply (f_equal (fun r => match r with ImpOk k' => k' | _ => k end)) in H. cbv beta iota in H. subst k.
  unfold lib_public_compressed, lib_public_uncompressed, lib_public_point, lib_y, lib_x.
  cbn [k_pubc k_pubu k_xb k_yb]. rewrite Hpub.
  rewrite !of_be_be_bytes_small by lia.
  split; [reflexivity|]. split; [reflexivity|]. split; [reflexivity|].
  unfold parse_point. change (bz x04 =? 2) with false. change (bz x04 =? 3) with false. change (bz x04 =? 4) with true.
  cbn [orb]. rewrite app_length, !be_bytes_length. cbn [Nat.add Nat.eqb].
  destruct (split_32 (be_bytes 32 x) (be_bytes 32 y) (be_bytes_length 32 x)) as [F S]. rewrite F, S.
  rewrite !of_be_be_bytes_small by lia. rewrite Hc. reflexivity.
Qed.

(* the 128 character hexadecimal form: any 64 bytes that are not a multiple of n are accepted as they are *)
Theorem wide_accepted_pf : forall b c,
  length b = 64%nat -> of_be b mod secp256k1_n <> 0 ->
  exists k, lib_key_import (KHexStr b) c true = ImpOk k /\ k_private k = true /\ k_secret k = of_be b.
Proof.
  intros b c Hl Hm. unfold lib_key_import, lib_key_import_gen. rewrite Hl. cbn [Nat.eqb andb].
  unfold lib_mk_private. apply Z.eqb_neq in Hm. rewrite Hm. cbn [negb andb]. rewrite andb_false_r.
  destruct (lib_pub_of_secret (of_be b)) as [x y]. eexists. split; [reflexivity|]. split; reflexivity.
Qed.
