(* Proofs/AddrScriptHints.v — C05: an address given together with a public key (fixes/C05-4: the address is examined:
   it decides the script, and it is refused when it belongs to another network). *)
From Coq Require Import ZArith List Bool Lia String.
From Coq.Strings Require Import Byte.
From Verif Require Import Lib.Bytes Gen.GenNetworks Gen.GenConsts Model.Wire Model.AddrScript.
From Verif Require Import Proofs.ScriptCodec Proofs.AddrScriptSpec Proofs.AddrScriptTac.
Import ListNotations.
Open Scope Z_scope.

Section WithH.
Variable H160 : bytes -> bytes.

Lemma lib_out_addr_pubkey_eq fx net a pub : tb fx pub = pub ->
  lib_out_addr_pubkey H160 fx net a pub =
  lib_output_k H160 fx {| a_addr := AaStr a; a_hash := []; a_pubkey := pub; a_lock := []; a_stype := None;
                          a_witver := 0; a_enc := None; a_net := net |} (SOk [] [] []).
Proof.
  intros Hp. unfold lib_out_addr_pubkey.
  rewrite lib_output_eq; [reflexivity|reflexivity|reflexivity|exact Hp|exact I|reflexivity].
Qed.

(* the address decides, whatever the key is *)
Lemma lock_is_spec_addr_pubkey fx net d pub :
  In net all_networks -> standard d = true ->
  (fx_witver fx = true \/ cls_witver_str d = false) ->
  fx_addrpk fx = true -> tb fx pub = pub ->
  out_is (lib_out_addr_pubkey H160 fx net (spec_address net d) pub)
         (spec_lock_script d) (stype_name (d_stype d)) (nw_name net) OaGiven.
Proof.
  intros Hn Hstd Hg Ha Hp. rewrite lib_out_addr_pubkey_eq by exact Hp. clear Hp.
  destruct fx as [fw fn fp fa tb0]. cbn [fx_witver fx_addrpk] in Hg, Ha. subst fa.
  destruct pub as [|pa pr]; [|remember (H160 (pa :: pr)) as hk eqn:Ek; destruct hk as [|k0 kr]];
  (std_shapes d Hstd;
   (each_net Hn; (destruct fw; first [ guard_false Hg
                                     | vm_compute; rewrite <- ?Ek; eexists; repeat split; reflexivity ]))).
Qed.

Lemma foreign_refused_addr_pubkey fx A B d pub :
  In A all_networks -> In B all_networks ->
  addr_on_network B (spec_address A d) = false ->
  fx_addrpk fx = true -> tb fx pub = pub ->
  lib_out_addr_pubkey H160 fx B (spec_address A d) pub = RErr.
Proof.
  intros HA HB Hf Ha Hp. rewrite lib_out_addr_pubkey_eq by exact Hp. clear Hp.
  destruct fx as [fw fn fp fa tb0]. cbn [fx_addrpk] in Ha. subst fa.
  destruct d as [st w p].
  destruct pub as [|pa pr]; [|remember (H160 (pa :: pr)) as hk eqn:Ek; destruct hk as [|k0 kr]];
  (destruct st; (each_net HA; (each_net HB; first [ discriminate Hf | vm_compute; rewrite <- ?Ek; reflexivity ]))).
Qed.

End WithH.
