(* Proofs/ScriptCodec.v — data pushes and the plain script parser (C18). *)
From Coq Require Import ZArith List Bool Lia.
From Coq.Strings Require Import Byte.
From Verif Require Import Lib.Bytes Model.Wire Proofs.CompactSize.
Import ListNotations.
Open Scope Z_scope.

Lemma lib_data_pack_eq d : lib_data_pack d =
  let n := Z.of_nat (length d) in
  if n <=? 75 then Some (zb n :: d)
  else if n <=? 255 then Some (x4c :: zb n :: d)
  else if n <=? 65535 then Some (x4d :: le_bytes 2 n ++ d)
  else None.
Proof. reflexivity. Qed.

(* the library's push is the shortest push Bitcoin Core writes, on its whole domain *)
Lemma push_is_core d : Z.of_nat (length d) <= 65535 -> lib_data_pack d = Some (core_push d).
Proof.
  intros H. rewrite lib_data_pack_eq. unfold core_push. cbv zeta.
  destruct (Z.of_nat (length d) <=? 75) eqn:E1.
  { apply Z.leb_le in E1. destruct (Z.of_nat (length d) <? 76) eqn:E; [reflexivity|apply Z.ltb_ge in E; lia]. }
  apply Z.leb_gt in E1. destruct (Z.of_nat (length d) <? 76) eqn:E; [apply Z.ltb_lt in E; lia|].
  destruct (Z.of_nat (length d) <=? 255); [reflexivity|].
  destruct (Z.of_nat (length d) <=? 65535) eqn:E3; [reflexivity|apply Z.leb_gt in E3; lia].
Qed.

Lemma push_domain d : lib_data_pack d <> None <-> Z.of_nat (length d) <= 65535.
Proof.
  split.
  - rewrite lib_data_pack_eq. cbv zeta. intros H.
    destruct (_ <=? 75) eqn:E1; [apply Z.leb_le in E1; lia|].
    destruct (_ <=? 255) eqn:E2; [apply Z.leb_le in E2; lia|].
    destruct (_ <=? 65535) eqn:E3; [apply Z.leb_le in E3; lia|congruence].
  - intros H. rewrite push_is_core by exact H. discriminate.
Qed.

Lemma parse_plain_f_step f b r : parse_plain_f (S f) (b :: r) =
  let ch := bz b in
  let '(dl, r1) :=
    if (1 <=? ch) && (ch <=? 75) then (ch, r)
    else if ch =? 76 then (of_le (firstn 1 r), skipn 1 r)
    else if ch =? 77 then (of_le (firstn 2 r), skipn 2 r)
    else (0, r) in
  if dl =? 0 then
    match parse_plain_f f r1 with
    | Some cs => Some (Op b :: cs)
    | None => None
    end
  else
    let n := Z.to_nat dl in
    if (length r1 <? n)%nat then None
    else
      match parse_plain_f f (skipn n r1) with
      | Some cs => Some (Data (firstn n r1) :: cs)
      | None => None
      end.
Proof. reflexivity. Qed.

Lemma firstn_app_exact (A : Type) (a b : list A) : firstn (length a) (a ++ b) = a.
Proof. rewrite firstn_app, Nat.sub_diag, firstn_all. simpl. apply app_nil_r. Qed.

Lemma skipn_app_exact (A : Type) (a b : list A) : skipn (length a) (a ++ b) = b.
Proof. rewrite skipn_app, Nat.sub_diag, skipn_all. reflexivity. Qed.

(* one data push followed by anything is read back as that item and the parser continues after it *)
Lemma push_parse d p rest f :
  1 <= Z.of_nat (length d) -> lib_data_pack d = Some p ->
  parse_plain_f (S f) (p ++ rest) =
  match parse_plain_f f rest with Some cs => Some (Data d :: cs) | None => None end.
Proof.
  intros H1 Hp. rewrite lib_data_pack_eq in Hp. cbv zeta in Hp.
  set (n := Z.of_nat (length d)) in *.
  assert (Hn : Z.to_nat n = length d) by (unfold n; apply Nat2Z.id).
  assert (Htail : forall dl, dl = n ->
    (if dl =? 0 then
       match parse_plain_f f (d ++ rest) with Some cs => Some (Op (zb 0) :: cs) | None => None end
     else
       let k := Z.to_nat dl in
       if (length (d ++ rest) <? k)%nat then None
       else match parse_plain_f f (skipn k (d ++ rest)) with
            | Some cs => Some (Data (firstn k (d ++ rest)) :: cs)
            | None => None
            end) =
    match parse_plain_f f rest with Some cs => Some (Data d :: cs) | None => None end).
  { intros dl ->. destruct (n =? 0) eqn:E; [apply Z.eqb_eq in E; lia|]. cbv zeta.
    rewrite Hn, app_length.
    destruct (length d + length rest <? length d)%nat eqn:EL; [apply Nat.ltb_lt in EL; lia|].
    rewrite skipn_app_exact, firstn_app_exact. reflexivity. }
  destruct (n <=? 75) eqn:E1.
  { apply Z.leb_le in E1. some_inj Hp. rewrite <- app_comm_cons, parse_plain_f_step. cbv zeta.
    rewrite bz_zb, Z.mod_small by lia.
    destruct (1 <=? n) eqn:Ea; [|apply Z.leb_gt in Ea; lia].
    destruct (n <=? 75) eqn:Eb; [|apply Z.leb_gt in Eb; lia]. cbn [andb].
    destruct (n =? 0) eqn:E; [apply Z.eqb_eq in E; lia|].
    specialize (Htail n eq_refl). rewrite E in Htail. exact Htail. }
  apply Z.leb_gt in E1.
  destruct (n <=? 255) eqn:E2.
  { apply Z.leb_le in E2. some_inj Hp. rewrite <- !app_comm_cons, parse_plain_f_step. cbv zeta.
    change (bz x4c) with 76. cbn [Z.leb Z.compare Pos.compare Pos.compare_cont andb Z.eqb Pos.eqb].
    cbn [firstn skipn of_le]. rewrite bz_zb, Z.mod_small by lia.
    replace (n + 256 * 0) with n by lia.
    destruct (n =? 0) eqn:E; [apply Z.eqb_eq in E; lia|].
    specialize (Htail n eq_refl). rewrite E in Htail. exact Htail. }
  apply Z.leb_gt in E2.
  destruct (n <=? 65535) eqn:E3; [|discriminate].
  apply Z.leb_le in E3. some_inj Hp. rewrite <- !app_comm_cons, parse_plain_f_step. cbv zeta.
  change (bz x4d) with 77. cbn [Z.leb Z.compare Pos.compare Pos.compare_cont andb Z.eqb Pos.eqb].
  rewrite <- app_assoc, firstn_le_bytes_app, skipn_le_bytes_app.
  rewrite of_le_le_bytes_small by (change (256 ^ Z.of_nat 2) with 65536; lia).
  destruct (n =? 0) eqn:E; [apply Z.eqb_eq in E; lia|].
  specialize (Htail n eq_refl). rewrite E in Htail. exact Htail.
Qed.

Lemma op_parse b rest f :
  (bz b =? 0) || (79 <=? bz b) = true ->
  parse_plain_f (S f) (b :: rest) =
  match parse_plain_f f rest with Some cs => Some (Op b :: cs) | None => None end.
Proof.
  intros H. rewrite parse_plain_f_step. cbv zeta.
  apply orb_true_iff in H.
  assert (Hc : (1 <=? bz b) && (bz b <=? 75) = false).
  { destruct H as [H|H]; [apply Z.eqb_eq in H; rewrite H; reflexivity|].
    apply Z.leb_le in H. apply andb_false_iff. right. apply Z.leb_gt. lia. }
  rewrite Hc.
  assert (H76 : bz b =? 76 = false) by
    (destruct H as [H|H]; [apply Z.eqb_eq in H; rewrite H; reflexivity|apply Z.leb_le in H; apply Z.eqb_neq; lia]).
  assert (H77 : bz b =? 77 = false) by
    (destruct H as [H|H]; [apply Z.eqb_eq in H; rewrite H; reflexivity|apply Z.leb_le in H; apply Z.eqb_neq; lia]).
  rewrite H76, H77. reflexivity.
Qed.

Lemma lib_serialize_cons c r : lib_serialize (c :: r) =
  match (match c with Op b => Some [b] | Data d => lib_data_pack d end), lib_serialize r with
  | Some x, Some y => Some (x ++ y)
  | _, _ => None
  end.
Proof. reflexivity. Qed.

(* serialisation of well-formed commands never fails, and each command takes >= 1 byte *)
Lemma serialize_total cs : forallb wf_cmd cs = true ->
  exists s, lib_serialize cs = Some s /\ (length cs <= length s)%nat.
Proof.
  induction cs as [|c r IH]; intros H.
  - exists []. split; [reflexivity|simpl; lia].
  - cbn [forallb] in H. apply andb_true_iff in H. destruct H as [Hc Hr].
    destruct (IH Hr) as (s & Hs & Hl). rewrite lib_serialize_cons, Hs.
    destruct c as [b|d].
    + exists ([b] ++ s). split; [reflexivity|]. cbn [app length]. lia.
    + cbn [wf_cmd] in Hc. apply andb_true_iff in Hc. destruct Hc as [H1 H2].
      apply Z.leb_le in H1. apply Z.leb_le in H2.
      rewrite push_is_core by lia. exists (core_push d ++ s). split; [reflexivity|].
      rewrite app_length. unfold core_push. cbv zeta.
      destruct (_ <? 76); [cbn [length]; lia|].
      destruct (_ <=? 255); [cbn [length]; lia|].
      destruct (_ <=? 65535); cbn [length]; lia.
Qed.

Lemma script_roundtrip_fuel cs : forallb wf_cmd cs = true ->
  forall s f, lib_serialize cs = Some s -> (length cs < f)%nat -> parse_plain_f f s = Some cs.
Proof.
  induction cs as [|c r IH]; intros H s f Hs Hf.
  - cbn in Hs. some_inj Hs. destruct f; [lia|reflexivity].
  - cbn [forallb] in H. apply andb_true_iff in H. destruct H as [Hc Hr].
    rewrite lib_serialize_cons in Hs.
    destruct (lib_serialize r) as [sr|] eqn:Er;
      [|destruct c as [b|d]; [discriminate|destruct (lib_data_pack d); discriminate]].
    destruct f as [|f]; [lia|]. cbn [length] in Hf.
    specialize (IH Hr sr f eq_refl ltac:(lia)).
    destruct c as [b|d].
    + some_inj Hs. cbn [app]. rewrite op_parse by exact Hc. rewrite IH. reflexivity.
    + destruct (lib_data_pack d) as [p|] eqn:Ep; [|discriminate]. some_inj Hs.
      cbn [wf_cmd] in Hc. apply andb_true_iff in Hc. destruct Hc as [H1 H2]. apply Z.leb_le in H1.
      rewrite (push_parse d p sr f H1 Ep), IH. reflexivity.
Qed.

(* serialize then parse gives back the same items; parse then serialize gives back the same bytes *)
Lemma script_roundtrip_plain cs : forallb wf_cmd cs = true ->
  exists s, lib_serialize cs = Some s /\ parse_plain s = Some cs.
Proof.
  intros H. destruct (serialize_total cs H) as (s & Hs & Hl).
  exists s. split; [exact Hs|]. unfold parse_plain.
  apply (script_roundtrip_fuel cs H s (S (length s)) Hs). lia.
Qed.

(* ---------- the real parser on inert scripts ---------- *)

Lemma classify_inert sig_ok key_ok lvl sub cs : forall prev,
  inert_from prev cs = true -> classify sig_ok key_ok lvl sub prev cs = POk (items_of_cmds cs).
Proof.
  induction cs as [|c r IH]; intros prev H; [reflexivity|].
  destruct c as [b|d]; cbn [inert_from] in H; cbn [classify items_of_cmds map].
  - rewrite (IH _ H). reflexivity.
  - apply andb_true_iff in H. destruct H as [Hd Hr].
    fold (items_of_cmds r). rewrite (IH _ Hr).
    destruct (get_data_type d); try discriminate; [reflexivity|].
    rewrite Hd. reflexivity.
Qed.

Lemma unwrap1_items cs : unwrap1 (items_of_cmds cs) = items_of_cmds cs.
Proof. destruct cs as [|[b|d] [|c r]]; reflexivity. Qed.

Lemma multisig_ok_inert cs prev : inert_from prev cs = true -> multisig_ok (items_of_cmds cs) = true.
Proof.
  intros H. destruct cs as [|[m|d] r]; try reflexivity.
  cbn [items_of_cmds map multisig_ok]. destruct (is_opn m); [|reflexivity].
  fold (items_of_cmds r). cbn [inert_from] in H.
  destruct r as [|[b|d] r']; try reflexivity.
  cbn [inert_from] in H. apply andb_true_iff in H. destruct H as [Hd _].
  cbn [items_of_cmds map count_keys]. destruct (get_data_type d); try discriminate; reflexivity.
Qed.

Lemma serialize_items_of_cmds cs : lib_serialize_items (items_of_cmds cs) = lib_serialize cs.
Proof.
  induction cs as [|c r IH]; [reflexivity|].
  cbn [items_of_cmds map lib_serialize_items]. fold (items_of_cmds r). rewrite IH, lib_serialize_cons.
  destruct c; reflexivity.
Qed.

(* For well-formed inert scripts on which the whole-script heuristic does not fire, the real parser
   (any entry point: data_length is a parameter) returns exactly the items, and re-serialising them
   gives exactly the bytes. *)
Lemma script_roundtrip_lib sig_ok key_ok cs s dl :
  forallb wf_cmd cs = true -> inert_from false cs = true ->
  lib_serialize cs = Some s ->
  (match s with b :: _ => whole_script_data (bz b) dl | [] => false end) = false ->
  lib_parse_dl sig_ok key_ok dl s = POk (items_of_cmds cs) /\
  lib_serialize_items (items_of_cmds cs) = Some s.
Proof.
  intros Hwf Hin Hs Hw. split; [|rewrite serialize_items_of_cmds; exact Hs].
  destruct (script_roundtrip_plain cs Hwf) as (s' & Hs' & Hp).
  assert (s' = s) by congruence. subst s'.
  unfold lib_parse_dl, parse_level. destruct s as [|b r].
  - destruct cs as [|c cs']; [reflexivity|].
    exfalso. destruct (serialize_total (c :: cs') Hwf) as (s2 & Hs2 & Hl).
    assert (s2 = []) by congruence. subst. simpl in Hl. lia.
  - rewrite Hw, Hp, classify_inert by exact Hin. cbn [unwrap_res]. cbv zeta. rewrite unwrap1_items.
    rewrite (multisig_ok_inert cs false Hin). reflexivity.
Qed.
