(* Proofs/BumpFee.v — Transaction.bumpfee (repaired: the change output pays the remaining extra fee). *)
From Coq Require Import ZArith List Bool Lia.
From Verif Require Import Lib.Bytes Gen.GenNetworks Gen.GenConsts Model.CoinSelect Model.TxCreate Model.BumpFee
  Proofs.TxCreate.
Import ListNotations.
Open Scope Z_scope.
Unset Lia Cache.

Definition outs_nonneg (l : list txout) : Prop := forall x, In x l -> 0 <= o_value x.

(* the repaired loop never produces a negative value and takes at least (rem - rem') out of the outputs *)
Lemma bump_loop_repaired ex : forall outs rem rem' outs',
  outs_nonneg outs -> bump_loop true ex rem outs = (rem', outs') ->
  outs_nonneg outs' /\
  (0 <= rem -> 0 <= rem' <= rem /\ sum_outs outs' <= sum_outs outs - (rem - rem')) /\
  (forall x, In x outs' -> o_change x = false -> In x outs).
Proof.
  induction outs as [|o r IH]; intros rem rem' outs' Hn H; simpl in H.
  - inversion H; subst. split; [intros x []|]. split; [intros; simpl; lia | intros x []].
  - assert (Hr : outs_nonneg r) by (intros x Hx; apply Hn; right; exact Hx).
    assert (Ho : 0 <= o_value o) by (apply Hn; left; reflexivity).
    destruct (negb (o_change o) || (rem =? 0)) eqn:K.
    + destruct (bump_loop true ex rem r) as [x l] eqn:G. inversion H; subst.
      destruct (IH _ _ _ Hr G) as [A [B C]]. split; [|split].
      * intros y [E|Hy]; [subst; exact Ho | apply A; exact Hy].
      * intros R. destruct (B R). simpl. lia.
      * intros y [E|Hy] Hc; [left; exact E | right; apply C; assumption].
    + apply orb_false_iff in K. destruct K as [K1 K2]. apply negb_false_iff in K1. apply Z.eqb_neq in K2.
      destruct (rem * 2 <? o_value o) eqn:E1.
      * apply Z.ltb_lt in E1.
        destruct (bump_loop true ex 0 r) as [x l] eqn:G. inversion H; subst.
        destruct (IH _ _ _ Hr G) as [A [B C]]. split; [|split].
        -- intros y [E|Hy]; [subst; unfold with_value; simpl; lia | apply A; exact Hy].
        -- intros R. destruct (B ltac:(lia)). simpl. lia.
        -- intros y [E|Hy] Hc; [subst; unfold with_value in Hc; simpl in Hc; congruence | right; apply C; assumption].
      * destruct (o_value o <? rem) eqn:E2.
        -- apply Z.ltb_lt in E2. destruct (IH _ _ _ Hr H) as [A [B C]]. split; [exact A|]. split.
           ++ intros R. destruct (B ltac:(lia)). simpl. lia.
           ++ intros y Hy Hc. right. apply C; assumption.
        -- apply Z.ltb_ge in E2. apply Z.ltb_ge in E1. destruct (IH _ _ _ Hr H) as [A [B C]]. split; [exact A|]. split.
           ++ intros R. destruct (B ltac:(lia)). simpl. lia.
           ++ intros y Hy Hc. right. apply C; assumption.
Qed.

Lemma bumpfee_no_negative_output_lemma b fee extra mult b' :
  outs_nonneg (b_outputs b) -> lib_bumpfee b fee extra mult = Ok b' -> outs_nonneg (b_outputs b').
Proof.
  intros Hn. unfold lib_bumpfee, tx_bumpfee.
  destruct (bump_amounts b fee extra mult) as [[nf ex]|e]; [|discriminate].
  destruct (bump_loop true ex ex (b_outputs b)) as [rem outs'] eqn:L.
  destruct (negb (rem =? 0)); [discriminate|].
  destruct (existsb _ outs'); [discriminate|].
  intros H; inversion H; subst. cbn [b_outputs].
  apply (bump_loop_repaired ex _ _ _ _ Hn L).
Qed.

(* the raw() failure of the original code cannot happen any more *)
Lemma bumpfee_never_negative_error b fee extra mult :
  outs_nonneg (b_outputs b) -> lib_bumpfee b fee extra mult <> Err ENegOutput.
Proof.
  intros Hn. unfold lib_bumpfee, tx_bumpfee.
  destruct (bump_amounts b fee extra mult) as [[nf ex]|e] eqn:BA.
  - destruct (bump_loop true ex ex (b_outputs b)) as [rem outs'] eqn:L.
    destruct (negb (rem =? 0)); [discriminate|].
    destruct (existsb (fun x => o_value x <? 0) outs') eqn:X; [|discriminate].
    exfalso. apply existsb_exists in X. destruct X as [x [Hx Hv]]. apply Z.ltb_lt in Hv.
    pose proof (proj1 (bump_loop_repaired ex _ _ _ _ Hn L) x Hx). lia.
  - unfold bump_amounts in BA.
    destruct (b_fee b =? 0); [inversion BA; discriminate|].
    destruct (negb (fee =? 0)).
    + destruct (fee <? b_fee b + b_vsize b); [inversion BA; discriminate | discriminate].
    + destruct (negb (extra =? 0)); [|discriminate].
      destruct (extra <? b_vsize b); [inversion BA; discriminate | discriminate].
Qed.

Lemma bumpfee_conserves_lemma b fee extra mult b' :
  sum_values (b_inputs b) <> 0 -> lib_bumpfee b fee extra mult = Ok b' ->
  sum_values (b_inputs b') = sum_outs (b_outputs b') + b_fee b'.
Proof.
  intros Hi. unfold lib_bumpfee, tx_bumpfee.
  destruct (bump_amounts b fee extra mult) as [[nf ex]|e]; [|discriminate].
  destruct (bump_loop true ex ex (b_outputs b)) as [rem outs'].
  destruct (negb (rem =? 0)); [discriminate|].
  destruct (existsb _ outs'); [discriminate|].
  intros H; inversion H; subst. cbn [b_inputs b_outputs b_fee].
  destruct (sum_values (b_inputs b) =? 0) eqn:Z0; [apply Z.eqb_eq in Z0; contradiction | lia].
Qed.

(* a balanced transaction pays at least the extra fee that was asked for, and keeps its recipients *)
Lemma bumpfee_pays_extra_lemma b fee extra mult b' nf ex :
  outs_nonneg (b_outputs b) -> sum_values (b_inputs b) <> 0 ->
  sum_values (b_inputs b) = sum_outs (b_outputs b) + b_fee b ->
  bump_amounts b fee extra mult = Ok (nf, ex) -> 0 <= ex ->
  lib_bumpfee b fee extra mult = Ok b' ->
  b_fee b + ex <= b_fee b' /\
  (forall x, In x (b_outputs b') -> o_change x = false -> In x (b_outputs b)).
Proof.
  intros Hn Hi Hbal BA Hex. unfold lib_bumpfee, tx_bumpfee. rewrite BA.
  destruct (bump_loop true ex ex (b_outputs b)) as [rem outs'] eqn:L.
  destruct (negb (rem =? 0)) eqn:R; [discriminate|]. apply negb_false_iff in R. apply Z.eqb_eq in R.
  destruct (existsb _ outs'); [discriminate|].
  intros H; inversion H; subst. cbn [b_outputs b_fee].
  destruct (bump_loop_repaired ex _ _ _ _ Hn L) as [_ [B C]]. destruct (B Hex) as [_ S].
  split; [|exact C].
  destruct (sum_values (b_inputs b) =? 0) eqn:Z0; [apply Z.eqb_eq in Z0; contradiction | lia].
Qed.
