(* Proofs/Bip32Construct.v — the construction forms of HDKey.__init__ (bitcoinlib/keys.py) and what they keep.
   The constructor is handed key material in one of several ways and, separately, the arguments chain=, depth=,
   parent_fingerprint=, child_index=.  Whatever the way, the object holds the secret (or point) that was handed over,
   the chain code the CALLER gave (32 zero bytes when none was given and the key came without one) and the metadata
   arguments; an imported Key / HDKey object contributes its secret only — its own chain code and metadata are not
   consulted.  lib_construct is extracted and evaluates every `ctor:` start token of the correspondence. *)
From Coq Require Import ZArith List Bool.
From Coq.Strings Require Import Byte.
From Verif Require Import Lib.Bytes Crypto.Secp256k1 Model.Bip32.
Import ListNotations.
Open Scope Z_scope.

Inductive cmaterial :=
| CKeyKw (k : Z)                                     (* key= keyword: bytes / hex / int of the secret *)
| CCat64 (k : Z) (c : bytes)                         (* import_key = 64 bytes key || chain *)
| CScalar (k : Z)                                    (* import_key = hex / bytes / int / WIF / BIP38 form of a private key *)
| CObject (k : Z) (own_chain : bytes) (own : meta)   (* import_key = a Key or HDKey object holding secret k *)
| CPubKw (K : point)                                 (* key= keyword with is_private=False *)
| CPubScalar (K : point).                            (* import_key = hex / bytes / (x, y) of a public key *)

Definition zero_chain : bytes := repeat x00 32.

(* `chain if chain else b'\0' * 32` *)
Definition chain_or_zero (chain : bytes) : bytes := match chain with [] => zero_chain | _ => chain end.

(* [chain] = the chain= argument ([] when absent) *)
Definition lib_construct (mat : cmaterial) (chain : bytes) (m : meta) : lkey :=
  match mat with
  | CKeyKw k => XPrv {| xk := k; xc := chain; xm := m |}
  | CCat64 k c => XPrv {| xk := k; xc := c; xm := m |}
  | CScalar k => XPrv {| xk := k; xc := chain_or_zero chain; xm := m |}
  | CObject k _ _ => XPrv {| xk := k; xc := chain_or_zero chain; xm := m |}
  | CPubKw K => XPub {| XK := K; XC := chain; XM := m |}
  | CPubScalar K => XPub {| XK := K; XC := chain_or_zero chain; XM := m |}
  end.

(* the chain code the caller specified: the chain= argument, or the second half of the 64 bytes *)
Definition callers_chain (mat : cmaterial) (chain : bytes) : bytes :=
  match mat with CCat64 _ c => c | _ => chain end.

Definition callers_key (mat : cmaterial) (chain : bytes) (m : meta) : lkey :=
  match mat with
  | CKeyKw k | CCat64 k _ | CScalar k | CObject k _ _ => XPrv {| xk := k; xc := callers_chain mat chain; xm := m |}
  | CPubKw K | CPubScalar K => XPub {| XK := K; XC := chain; XM := m |}
  end.

Lemma construct_is_callers_key : forall mat chain m,
  callers_chain mat chain <> [] -> lib_construct mat chain m = callers_key mat chain m.
Proof.
  intros mat chain m H. destruct mat; simpl in *; try reflexivity;
    destruct chain; simpl; try reflexivity; exfalso; apply H; reflexivity.
Qed.

Lemma construct_default_chain : forall k m,
  lib_construct (CScalar k) [] m = XPrv {| xk := k; xc := zero_chain; xm := m |}.
Proof. reflexivity. Qed.

Lemma construct_object_own_ignored : forall k oc om oc' om' chain m,
  lib_construct (CObject k oc om) chain m = lib_construct (CObject k oc' om') chain m /\
  lib_construct (CObject k oc om) chain m = lib_construct (CScalar k) chain m.
Proof. intros. split; reflexivity. Qed.

(* every derivation from a constructed object is the derivation from the key the caller specified *)
Lemma construct_derivation : forall mat chain m path,
  callers_chain mat chain <> [] ->
  lib_subkey_for_path (lib_construct mat chain m) path = lib_subkey_for_path (callers_key mat chain m) path.
Proof. intros. rewrite construct_is_callers_key by assumption. reflexivity. Qed.
