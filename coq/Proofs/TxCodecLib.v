(* Proofs/TxCodecLib.v — the library's byte-level parser / serializer against the protocol codec (C06). *)
From Coq Require Import ZArith List Bool Lia.
From Coq.Strings Require Import Byte.
From Verif Require Import Lib.Bytes Model.Wire Proofs.CompactSize Crypto.Sha256 Model.TxCodec Proofs.TxCodecSpec.
Import ListNotations.
Open Scope Z_scope.

(* ---------- small facts ---------- *)

Lemma hexlike_false_id s : hexlike s = false -> lib_to_bytes s = s.
Proof.
  unfold hexlike, lib_to_bytes. destruct s as [|a r]; [reflexivity|].
  destruct (unhex (a :: r)); [discriminate|reflexivity].
Qed.

Lemma lib_prev_id p : hexlike (rev p) = false -> lib_prev p = p.
Proof. intros H. unfold lib_prev. rewrite hexlike_false_id by exact H. apply rev_involutive. Qed.

Lemma is_zero1_true s : is_zero1 s = true -> s = [x00].
Proof. unfold is_zero1. apply bytes_eqb_true. Qed.

Lemma len_eqb_0 {A} (s : list A) : (Z.of_nat (length s) =? 0) = is_nil s.
Proof. destruct s; [reflexivity|]. cbn [length is_nil]. apply Z.eqb_neq. lia. Qed.

Lemma ns_flag s : (Z.of_nat (length s) =? 1) && bytes_eqb s [x00] = is_zero1 s.
Proof.
  unfold is_zero1. destruct (bytes_eqb s [x00]) eqn:E; [|apply andb_false_r].
  apply bytes_eqb_true in E. subst. reflexivity.
Qed.

Lemma le_bytes_opt_some k n : 0 <= n < 256 ^ Z.of_nat k -> le_bytes_opt k n = Some (le_bytes k n).
Proof.
  intros [H0 H1]. unfold le_bytes_opt.
  destruct (0 <=? n) eqn:E0; [|apply Z.leb_gt in E0; lia].
  destruct (n <? 256 ^ Z.of_nat k) eqn:E1; [reflexivity|apply Z.ltb_ge in E1; lia].
Qed.

Lemma oconcat_map {A} (f : A -> option bytes) (g : A -> bytes) (l : list A) :
  (forall a, In a l -> f a = Some (g a)) -> oconcat f l = Some (concat (map g l)).
Proof.
  induction l as [|a l IH]; intros H; [reflexivity|].
  cbn [oconcat map concat]. rewrite H by (left; reflexivity).
  rewrite IH by (intros b Hb; apply H; right; exact Hb). reflexivity.
Qed.

Lemma lib_cs_enc_len {A} (l : list A) : len_ok l -> lib_cs_enc (Z.of_nat (length l)) = Some (core_cs_enc (Z.of_nat (length l))).
Proof. intros H. apply lib_cs_enc_core. apply len_ok_range. exact H. Qed.

(* varstr agrees with the protocol except on the single zero byte *)
Lemma lib_varstr_spec s : len_ok s -> is_zero1 s = false -> lib_varstr s = Some (ser_varbytes s).
Proof.
  intros Hl Hz. unfold lib_varstr, ser_varbytes.
  rewrite lib_cs_enc_len by exact Hl.
  destruct s as [|a [|b r]]; [reflexivity| |destruct a; reflexivity].
  destruct a; try reflexivity. discriminate Hz.
Qed.

(* ---------- the lax CompactSize reader on canonical encodings ---------- *)

Lemma core_cs_enc_len_le9 n : 0 <= n < 2 ^ 64 -> (1 <= length (core_cs_enc n) <= 9)%nat.
Proof.
  intros H. pose proof (cs_length n _ (lib_cs_enc_core n H)) as L. rewrite L.
  destruct (n <? 253); [lia|]. destruct (n <? 65536); [lia|]. destruct (n <? 4294967296); lia.
Qed.

Lemma lib_read_cs_enc n rest : 0 <= n < 2 ^ 64 -> lib_read_cs (core_cs_enc n ++ rest) = Some (n, rest).
Proof.
  intros H. unfold lib_read_cs.
  pose proof (core_cs_enc_len_le9 n H) as [L1 L9].
  set (e := core_cs_enc n) in *.
  rewrite firstn_app. rewrite (firstn_all2 e) by exact L9.
  rewrite (cs_roundtrip n e _ (lib_cs_enc_core n H)).
  destruct (length e =? 0)%nat eqn:E0; [apply Nat.eqb_eq in E0; lia|].
  rewrite app_length.
  destruct (length e + length rest <? length e)%nat eqn:E1; [apply Nat.ltb_lt in E1; lia|].
  rewrite skipn_app, Nat.sub_diag, skipn_all. reflexivity.
Qed.

Lemma lib_read_var_ser s rest :
  len_ok s -> lib_read_var (ser_varbytes s ++ rest) = Some (Z.of_nat (length s), s, rest).
Proof.
  intros H. unfold lib_read_var, ser_varbytes. rewrite <- app_assoc.
  rewrite lib_read_cs_enc by (apply len_ok_range; exact H).
  rewrite app_length.
  destruct (Z.of_nat (length s + length rest) <? Z.of_nat (length s)) eqn:E; [apply Z.ltb_lt in E; lia|].
  rewrite Nat2Z.id.
  rewrite firstn_app, Nat.sub_diag, firstn_all, skipn_app, Nat.sub_diag, skipn_all.
  simpl. rewrite app_nil_r. reflexivity.
Qed.

Lemma lib_count_ser {A} (f : A -> bytes) (l : list A) rest :
  len_ok l -> (forall a, In a l -> (1 <= length (f a))%nat) ->
  lib_count (ser_list f l ++ rest) = Some (length l, concat (map f l) ++ rest).
Proof.
  intros Hl Hpos. unfold lib_count, ser_list. rewrite <- app_assoc.
  rewrite lib_read_cs_enc by (apply len_ok_range; exact Hl).
  pose proof (length_concat_ge f l Hpos) as Hge. rewrite app_length.
  destruct (Z.of_nat (length (concat (map f l)) + length rest) <? Z.of_nat (length l)) eqn:E;
    [apply Z.ltb_lt in E; lia|].
  rewrite Nat2Z.id. reflexivity.
Qed.

(* ---------- what the library holds after parsing ---------- *)

Definition lin0 (sw : bool) (i : txin) : linput :=
  mk_linput (strip_in i) (is_zero1 (ti_script i)) (negb (sw && is_nil (ti_script i))).

Definition lin1 (sw : bool) (i : txin) : linput :=
  if is_nil (ti_wit i) then lin0 sw i else l_set_wit (lin0 sw i) (map repr_item (ti_wit i)).

Lemma lib_parse_in_ser sw i rest :
  wf_in i -> qf_in i -> lib_parse_in sw (ser_in i ++ rest) = Some (lin0 sw i, rest).
Proof.
  intros (Hp & Hv & Hq & Hs & _) (Hhp & Hhs & _). unfold lib_parse_in, ser_in.
  repeat rewrite <- app_assoc.
  rewrite read_n_app by exact Hp.
  rewrite read_le_app by (rewrite pow256_4; exact Hv).
  rewrite lib_read_var_ser by exact Hs.
  rewrite read_le_app by (rewrite pow256_4; exact Hq).
  rewrite lib_prev_id by exact Hhp. rewrite hexlike_false_id by exact Hhs.
  rewrite ns_flag, len_eqb_0. reflexivity.
Qed.

Lemma lib_parse_out_ser o rest :
  wf_out o -> qf_out o -> lib_parse_out (ser_out o ++ rest) = Some (o, rest).
Proof.
  intros (Hv & Hs) (_ & Hh). unfold lib_parse_out, ser_out. rewrite <- app_assoc.
  rewrite read_le_app by (rewrite pow256_8; exact Hv).
  rewrite lib_read_var_ser by exact Hs. rewrite hexlike_false_id by exact Hh.
  destruct o; reflexivity.
Qed.

Lemma lib_parse_item_ser w rest :
  len_ok w -> lib_parse_item (ser_varbytes w ++ rest) = Some (repr_item w, rest).
Proof.
  intros H. unfold lib_parse_item. rewrite lib_read_var_ser by exact H.
  rewrite len_eqb_0. destruct w; reflexivity.
Qed.

Lemma is_nil_map {A B} (f : A -> B) l : is_nil (map f l) = is_nil l.
Proof. destruct l; reflexivity. Qed.

Lemma lib_parse_wits_ser sw ins rest :
  Forall wf_in ins ->
  lib_parse_wits (map (lin0 sw) ins) (concat (map ser_wit ins) ++ rest) = Some (map (lin1 sw) ins, rest).
Proof.
  induction ins as [|i ins IH]; intros H; [reflexivity|].
  inversion H as [|? ? Hi Hr]; subst.
  cbn [map concat lib_parse_wits]. rewrite <- app_assoc. unfold ser_wit at 1.
  destruct Hi as (_ & _ & _ & _ & Hwl & Hwf).
  rewrite lib_count_ser; [|exact Hwl|intros a _; apply ser_varbytes_length_pos].
  rewrite (parse_n_ser lib_parse_item ser_varbytes repr_item).
  2:{ intros a Ha r. apply lib_parse_item_ser. rewrite Forall_forall in Hwf. apply Hwf. exact Ha. }
  rewrite IH by exact Hr. rewrite is_nil_map. unfold lin1 at 2. reflexivity.
Qed.

Definition parsed (t : tx) (id : bytes) : ltx :=
  mk_ltx (tx_version t) (map (lin1 (tx_segwit t)) (tx_ins t)) (tx_outs t) (tx_locktime t) (tx_segwit t) id.

Lemma no_witness_lin1 sw ins : has_witness ins = false -> map (lin1 sw) ins = map (lin0 sw) ins.
Proof.
  induction ins as [|i ins IH]; intros H; [reflexivity|].
  cbn [has_witness existsb] in H. apply orb_false_elim in H. destruct H as [H1 H2].
  cbn [map]. rewrite IH by exact H2. f_equal.
  unfold lin1. destruct (is_nil (ti_wit i)); [reflexivity|discriminate].
Qed.

Lemma Forall_In {A} (P : A -> Prop) l a : Forall P l -> In a l -> P a.
Proof. intros H. rewrite Forall_forall in H. apply H. Qed.

Lemma lib_parse_body_ser t rest :
  wf_tx t -> quirk_free t -> lib_parse_body (spec_ser t ++ rest) = Some (parsed t [], rest).
Proof.
  intros (Hv & Hlt & Hne & Hli & Hlo & Hfi & Hfo & Hsw) (Qi & Qo & Hno).
  unfold lib_parse_body, spec_ser. repeat rewrite <- app_assoc.
  rewrite read_le_app by (rewrite pow256_4; exact Hv).
  assert (Hpin : forall a, In a (tx_ins t) -> (1 <= length (ser_in a))%nat).
  { intros a Ha. apply ser_in_length_pos. exact (Forall_In _ _ _ Hfi Ha). }
  assert (Hrest : forall sw L,
    match lib_count (ser_list ser_in (tx_ins t) ++ ser_list ser_out (tx_outs t) ++ L) with
    | Some (ni, l3) =>
        match parse_n (lib_parse_in sw) ni l3 with
        | Some (ins, l4) =>
            match lib_count l4 with
            | Some (no, l5) =>
                match parse_n lib_parse_out no l5 with
                | Some (outs, l6) =>
                    if is_nil outs then None
                    else
                      match (if sw then lib_parse_wits ins l6 else Some (ins, l6)) with
                      | Some (ins', l7) =>
                          match read_le 4 l7 with
                          | Some (lt, l8) => Some (mk_ltx (tx_version t) ins' outs lt sw [], l8)
                          | None => None
                          end
                      | None => None
                      end
                | None => None
                end
            | None => None
            end
        | None => None
        end
    | None => None
    end =
    match (if sw then lib_parse_wits (map (lin0 sw) (tx_ins t)) L else Some (map (lin0 sw) (tx_ins t), L)) with
    | Some (ins', l7) =>
        match read_le 4 l7 with
        | Some (lt, l8) => Some (mk_ltx (tx_version t) ins' (tx_outs t) lt sw [], l8)
        | None => None
        end
    | None => None
    end).
  { intros sw L.
    rewrite lib_count_ser by assumption.
    rewrite (parse_n_ser (lib_parse_in sw) ser_in (lin0 sw)).
    2:{ intros a Ha r. apply lib_parse_in_ser; [exact (Forall_In _ _ _ Hfi Ha)|exact (Forall_In _ _ _ Qi Ha)]. }
    rewrite lib_count_ser; [|exact Hlo|intros a _; apply ser_out_length_pos].
    rewrite (parse_n_ser lib_parse_out ser_out (fun o => o)).
    2:{ intros a Ha r. apply lib_parse_out_ser; [exact (Forall_In _ _ _ Hfo Ha)|exact (Forall_In _ _ _ Qo Ha)]. }
    rewrite map_id. destruct (tx_outs t); [contradiction|]. reflexivity. }
  destruct (tx_segwit t) eqn:Esw.
  - rewrite <- app_comm_cons. rewrite <- app_comm_cons.
    change (bz x00 =? 0) with true. cbv iota. change (bz x01 =? 1) with true.
    rewrite app_nil_l. rewrite Hrest. cbv iota.
    rewrite lib_parse_wits_ser by exact Hfi.
    rewrite read_le_app by (rewrite pow256_4; exact Hlt).
    unfold parsed. rewrite Esw. reflexivity.
  - rewrite app_nil_l.
    assert (Hn : 1 <= Z.of_nat (length (tx_ins t))).
    { destruct (tx_ins t); [contradiction|]. cbn [length]. lia. }
    destruct (core_cs_enc_head _ Hn) as (b & r & Hb & Hz).
    pose proof (Hrest false ([] ++ le_bytes 4 (tx_locktime t) ++ rest)) as H.
    set (L := ser_list ser_in (tx_ins t) ++ _) in *.
    assert (HL : exists L', L = b :: L').
    { subst L. unfold ser_list at 1. rewrite Hb. repeat rewrite <- app_comm_cons. eexists; reflexivity. }
    destruct HL as [L' HL]. clearbody L. subst L.
    assert (Hgoal : forall (X : option (ltx * bytes)) (F : bool -> bytes -> option (ltx * bytes)),
              F false (b :: L') = X ->
              (let '(sw, l2) := match b :: L' with
                                | b0 :: b1 :: r0 => if bz b0 =? 0 then (bz b1 =? 1, r0) else (false, b :: L')
                                | _ => (false, b :: L')
                                end in F sw l2) = X).
    { intros X F HF. destruct L'; [exact HF|]. rewrite Hz. exact HF. }
    apply Hgoal. rewrite H. cbv iota. rewrite app_nil_l.
    rewrite read_le_app by (rewrite pow256_4; exact Hlt).
    unfold parsed. rewrite Esw. rewrite no_witness_lin1 by (symmetry; exact Hsw). reflexivity.
Qed.

(* ---------- what the library writes back ---------- *)

Lemma qf_leg_false sw i :
  qf_in i -> is_nil (ti_wit i) = false -> sw = true -> l_leg (lin1 sw i) = false.
Proof.
  intros (_ & _ & _ & Hq) Hw Hs. unfold lin1. rewrite Hw. subst sw.
  unfold l_set_wit, lin0. cbn [l_leg l_in strip_in ti_script ti_prev andb].
  rewrite Hw in Hq. rewrite orb_false_r in Hq.
  destruct (is_wp_push (ti_script i) || is_coinbase_prev (ti_prev i)) eqn:E; [reflexivity|].
  apply orb_false_elim in E. destruct E as [E1 E2]. rewrite E1, E2 in Hq.
  rewrite !orb_false_r in Hq. rewrite Hq. reflexivity.
Qed.

Lemma lin1_in sw i : l_in (lin1 sw i) = repr_in i.
Proof.
  unfold lin1. destruct i as [p v s q w]. destruct w; reflexivity.
Qed.

Lemma lin1_ns sw i : l_ns (lin1 sw i) = is_zero1 (ti_script i).
Proof. unfold lin1. destruct (is_nil (ti_wit i)); reflexivity. Qed.

Lemma lib_raw_in_ser sw i : wf_in i -> lib_raw_in (lin1 sw i) = Some (ser_in i).
Proof.
  intros (Hp & Hv & Hq & Hs & _). unfold lib_raw_in. rewrite lin1_in, lin1_ns.
  cbn [repr_in ti_vout ti_script ti_seq ti_prev].
  rewrite le_bytes_opt_some by (rewrite pow256_4; exact Hv).
  rewrite (le_bytes_opt_some 4 (ti_seq i)) by (rewrite pow256_4; exact Hq).
  unfold ser_in. destruct (is_zero1 (ti_script i)) eqn:Ez.
  - apply is_zero1_true in Ez. rewrite Ez. reflexivity.
  - rewrite lib_varstr_spec by assumption. reflexivity.
Qed.

Lemma lib_raw_out_ser o : wf_out o -> qf_out o -> lib_raw_out o = Some (ser_out o).
Proof.
  intros (Hv & Hs) (Hz & _). unfold lib_raw_out.
  rewrite le_bytes_opt_some by (rewrite pow256_8; exact Hv).
  rewrite lib_varstr_spec by assumption. reflexivity.
Qed.

Lemma varstr_repr_item w :
  len_ok w -> is_zero1 w = false -> lib_varstr (repr_item w) = Some (ser_varbytes w).
Proof.
  intros Hl Hz. destruct w as [|a r]; [reflexivity|].
  cbn [repr_item]. apply lib_varstr_spec; assumption.
Qed.

Definition unrepr (w : bytes) : bytes := match w with [x00] => [] | _ => w end.

Lemma unrepr_repr w : is_zero1 w = false -> unrepr (repr_item w) = w.
Proof.
  intros Hz. destruct w as [|a [|b r]]; [reflexivity| |destruct a; reflexivity].
  destruct a; try reflexivity. discriminate Hz.
Qed.

Lemma nz_item i w : qf_in i -> In w (ti_wit i) -> is_zero1 w = false.
Proof.
  intros (_ & _ & Hnz & _) Hin. rewrite forallb_forall in Hnz.
  pose proof (Hnz w Hin) as Hz. apply negb_true_iff in Hz. exact Hz.
Qed.

Lemma lib_raw_wit_ser i : wf_in i -> qf_in i -> lib_raw_wit (lin1 true i) = Some (ser_wit i).
Proof.
  intros Hwf Hqf. pose proof Hwf as (_ & _ & _ & _ & Hwl & Hwf'). pose proof Hqf as (_ & _ & Hnz & _).
  unfold lib_raw_wit. rewrite lin1_in. cbn [repr_in ti_wit]. rewrite is_nil_map.
  destruct (is_nil (ti_wit i)) eqn:En.
  - cbn [negb andb]. unfold ser_wit. destruct (ti_wit i); [reflexivity|discriminate].
  - rewrite (qf_leg_false true i Hqf En eq_refl). cbn [negb andb].
    rewrite map_length. rewrite lib_cs_enc_len by exact Hwl. cbn [obind].
    rewrite (oconcat_map lib_varstr (fun w => ser_varbytes (unrepr w))).
    2:{ intros a Ha. apply in_map_iff in Ha. destruct Ha as (w & Hw & Hin). subst a.
        pose proof (nz_item i w Hqf Hin) as Hz.
        rewrite varstr_repr_item; [|exact (Forall_In _ _ _ Hwf' Hin)|exact Hz].
        rewrite unrepr_repr by exact Hz. reflexivity. }
    cbn [obind]. unfold ser_wit, ser_list. rewrite map_map. f_equal. f_equal. f_equal.
    apply map_ext_in. intros w Hin. rewrite unrepr_repr by exact (nz_item i w Hqf Hin). reflexivity.
Qed.

Lemma ser_in_strip i : ser_in (strip_in i) = ser_in i.
Proof. reflexivity. Qed.

Lemma lib_raw_w_parsed (sw : bool) t id :
  wf_tx t -> quirk_free t -> (sw = true -> tx_segwit t = true) ->
  lib_raw_w sw (parsed t id) = Some (spec_ser (if sw then t else strip_witness t)).
Proof.
  intros (Hv & Hlt & Hne & Hli & Hlo & Hfi & Hfo & Hsw) (Qi & Qo & Hno) Himp.
  unfold lib_raw_w, parsed. cbn [l_version l_ins l_outs l_locktime].
  rewrite le_bytes_opt_some by (rewrite pow256_4; exact Hv). cbn [obind].
  rewrite map_length. rewrite lib_cs_enc_len by exact Hli. cbn [obind].
  rewrite (oconcat_map lib_raw_in (fun l => ser_in (l_in l))).
  2:{ intros a Ha. apply in_map_iff in Ha. destruct Ha as (i & Hi & Hin). subst a.
      rewrite lib_raw_in_ser by exact (Forall_In _ _ _ Hfi Hin). rewrite lin1_in. reflexivity. }
  cbn [obind]. rewrite lib_cs_enc_len by exact Hlo. cbn [obind].
  rewrite (oconcat_map lib_raw_out ser_out).
  2:{ intros a Ha. apply lib_raw_out_ser; [exact (Forall_In _ _ _ Hfo Ha)|exact (Forall_In _ _ _ Qo Ha)]. }
  cbn [obind].
  rewrite (le_bytes_opt_some 4 (tx_locktime t)) by (rewrite pow256_4; exact Hlt).
  assert (Hins : concat (map (fun l => ser_in (l_in l)) (map (lin1 (tx_segwit t)) (tx_ins t)))
                 = concat (map ser_in (tx_ins t))).
  { rewrite map_map. f_equal. apply map_ext. intros i. rewrite lin1_in. reflexivity. }
  rewrite Hins.
  destruct sw.
  - rewrite (Himp eq_refl).
    rewrite (oconcat_map lib_raw_wit (fun l => ser_list ser_varbytes (map unrepr (ti_wit (l_in l))))).
    2:{ intros a Ha. apply in_map_iff in Ha. destruct Ha as (i & Hi & Hin). subst a.
        pose proof (Forall_In _ _ _ Qi Hin) as Hq.
        rewrite lib_raw_wit_ser; [|exact (Forall_In _ _ _ Hfi Hin)|exact Hq].
        f_equal. rewrite lin1_in. unfold ser_wit. cbn [ti_wit repr_in]. rewrite map_map.
        f_equal. rewrite <- (map_id (ti_wit i)) at 1. apply map_ext_in. intros w Hw.
        rewrite unrepr_repr by exact (nz_item i w Hq Hw). reflexivity. }
    cbn [obind].
    assert (Hw : concat (map (fun l => ser_list ser_varbytes (map unrepr (ti_wit (l_in l))))
                             (map (lin1 true) (tx_ins t))) = concat (map ser_wit (tx_ins t))).
    { rewrite map_map. f_equal. apply map_ext_in. intros i Hin.
      pose proof (Forall_In _ _ _ Qi Hin) as Hq.
      rewrite lin1_in. unfold ser_wit. cbn [ti_wit repr_in]. rewrite map_map. f_equal.
      rewrite <- (map_id (ti_wit i)) at 2. apply map_ext_in. intros w Hw.
      rewrite unrepr_repr by exact (nz_item i w Hq Hw). reflexivity. }
    rewrite Hw. unfold spec_ser. rewrite (Himp eq_refl). unfold ser_list.
    repeat rewrite <- app_assoc. reflexivity.
  - cbn [obind]. unfold spec_ser, strip_witness. cbn [tx_version tx_ins tx_outs tx_locktime tx_segwit].
    unfold ser_list. rewrite !map_length. rewrite map_map.
    repeat rewrite <- app_assoc. reflexivity.
Qed.

Lemma strip_legacy t : tx_segwit t = false -> has_witness (tx_ins t) = false -> strip_witness t = t.
Proof.
  intros H1 H2. unfold strip_witness. rewrite no_witness_strip by exact H2. destruct t; simpl in *. subst. reflexivity.
Qed.

Lemma view_parsed t id : wf_tx t -> quirk_free t -> view (parsed t id) = repr t.
Proof.
  intros (_ & _ & _ & _ & _ & _ & _ & Hsw) (Qi & _ & _). unfold view, parsed, repr.
  cbn [l_version l_ins l_outs l_locktime l_segwit]. f_equal. rewrite map_map.
  apply map_ext_in. intros i Hin. unfold view_in. rewrite lin1_in.
  destruct (is_nil (ti_wit i)) eqn:En.
  - destruct i as [p v s q w]. destruct w; [|discriminate]. destruct (l_leg _); reflexivity.
  - destruct (tx_segwit t) eqn:Es.
    + rewrite (qf_leg_false true i (Forall_In _ _ _ Qi Hin) En eq_refl). reflexivity.
    + exfalso. symmetry in Hsw. unfold has_witness in Hsw.
      assert (existsb (fun i0 => negb (is_nil (ti_wit i0))) (tx_ins t) = true).
      { apply existsb_exists. exists i. split; [exact Hin|]. rewrite En. reflexivity. }
      congruence.
Qed.

(* the headline: parse, re-serialize, fields and id on every well-formed quirk-free transaction *)
Theorem lib_roundtrip_proof t :
  wf_tx t -> quirk_free t ->
  exists t', lib_parse (spec_ser t) = Some t' /\ lib_raw t' = Some (spec_ser t) /\
             view t' = repr t /\ l_txid t' = spec_txid t.
Proof.
  intros Hwf Hqf.
  pose proof (lib_parse_body_ser t [] Hwf Hqf) as Hb. rewrite app_nil_r in Hb.
  unfold lib_parse. rewrite Hb. unfold lib_finish.
  pose proof Hwf as (_ & _ & _ & _ & _ & _ & _ & Hsw).
  change (l_segwit (parsed t [])) with (tx_segwit t).
  destruct (tx_segwit t) eqn:Es.
  - unfold lib_calc_txid.
    pose proof (lib_raw_w_parsed false t [] Hwf Hqf ltac:(discriminate)) as Hr. cbv iota in Hr.
    rewrite Hr. change (with_txid (parsed t []) ?x) with (parsed t x).
    eexists. split; [reflexivity|]. split; [|split].
    + unfold lib_raw. change (l_segwit (parsed t ?x)) with (tx_segwit t). rewrite Es.
      exact (lib_raw_w_parsed true t _ Hwf Hqf (fun _ => Es)).
    + apply view_parsed; assumption.
    + reflexivity.
  - change (with_txid (parsed t []) ?x) with (parsed t x).
    eexists. split; [reflexivity|]. split; [|split].
    + unfold lib_raw. change (l_segwit (parsed t ?x)) with (tx_segwit t). rewrite Es.
      pose proof (lib_raw_w_parsed false t (rev (sha256d (spec_ser t))) Hwf Hqf ltac:(discriminate)) as Hr.
      cbv iota in Hr. rewrite strip_legacy in Hr by congruence. exact Hr.
    + apply view_parsed; assumption.
    + change (l_txid (parsed t ?x)) with x. unfold spec_txid. rewrite strip_legacy by congruence. reflexivity.
Qed.

(* ---------- API direction: a transaction assembled from explicit fields ---------- *)

Lemma lib_raw_in_api i : wf_in i -> qf_api_in i -> lib_raw_in (api_in i) = Some (ser_in i).
Proof.
  intros (Hp & Hv & Hq & Hs & _) (Hhp & Hhs & _). unfold lib_raw_in, api_in.
  cbn [l_in l_ns ti_vout ti_script ti_seq ti_prev].
  rewrite lib_prev_id by exact Hhp. rewrite hexlike_false_id by exact Hhs.
  rewrite le_bytes_opt_some by (rewrite pow256_4; exact Hv).
  rewrite (le_bytes_opt_some 4 (ti_seq i)) by (rewrite pow256_4; exact Hq).
  unfold ser_in. destruct (is_zero1 (ti_script i)) eqn:Ez.
  - apply is_zero1_true in Ez. rewrite Ez. reflexivity.
  - rewrite lib_varstr_spec by assumption. reflexivity.
Qed.

Lemma lib_raw_wit_api i : wf_in i -> qf_api_in i -> lib_raw_wit (api_in i) = Some (ser_wit i).
Proof.
  intros (_ & _ & _ & _ & Hwl & Hwf') (_ & _ & Hnz). unfold lib_raw_wit, api_in.
  cbn [l_in l_leg ti_wit]. unfold ser_wit.
  destruct (ti_wit i) as [|w0 ws] eqn:Ew; [reflexivity|]. cbn [is_nil negb andb].
  rewrite lib_cs_enc_len by exact Hwl. cbn [obind].
  rewrite (oconcat_map lib_varstr ser_varbytes).
  2:{ intros a Ha. rewrite forallb_forall in Hnz. pose proof (Hnz a Ha) as Hz. apply negb_true_iff in Hz.
      apply lib_varstr_spec; [exact (Forall_In _ _ _ Hwf' Ha)|exact Hz]. }
  reflexivity.
Qed.

Lemma qf_out_api o : qf_out o -> api_out o = o.
Proof. intros (_ & Hh). unfold api_out. rewrite hexlike_false_id by exact Hh. destruct o; reflexivity. Qed.

Theorem lib_raw_is_spec_proof t :
  wf_tx t -> quirk_free_api t -> lib_raw (api_build t) = Some (spec_ser t).
Proof.
  intros (Hv & Hlt & Hne & Hli & Hlo & Hfi & Hfo & Hsw) (Qi & Qo & Hver).
  unfold lib_raw, lib_raw_w, api_build. cbn [l_version l_ins l_outs l_locktime l_segwit].
  rewrite Hver.
  rewrite le_bytes_opt_some by (rewrite pow256_4; exact Hv). cbn [obind].
  rewrite !map_length. rewrite lib_cs_enc_len by exact Hli. cbn [obind].
  rewrite (oconcat_map lib_raw_in (fun l => ser_in (mk_txin (ti_prev (l_in l)) (ti_vout (l_in l))
            (ti_script (l_in l)) (ti_seq (l_in l)) []))).
  2:{ intros a Ha. apply in_map_iff in Ha. destruct Ha as (i & Hi & Hin). subst a.
      pose proof (Forall_In _ _ _ Qi Hin) as (Hhp & Hhs & _).
      rewrite lib_raw_in_api; [|exact (Forall_In _ _ _ Hfi Hin)|exact (Forall_In _ _ _ Qi Hin)].
      unfold api_in. cbn [l_in ti_prev ti_vout ti_script ti_seq].
      rewrite lib_prev_id by exact Hhp. rewrite hexlike_false_id by exact Hhs. reflexivity. }
  cbn [obind]. rewrite lib_cs_enc_len by exact Hlo. cbn [obind].
  assert (Hmo : map api_out (tx_outs t) = tx_outs t).
  { rewrite <- (map_id (tx_outs t)) at 2. apply map_ext_in. intros o Ho.
    apply qf_out_api. exact (Forall_In _ _ _ Qo Ho). }
  rewrite Hmo.
  rewrite (oconcat_map lib_raw_out ser_out).
  2:{ intros a Ha. apply lib_raw_out_ser; [exact (Forall_In _ _ _ Hfo Ha)|exact (Forall_In _ _ _ Qo Ha)]. }
  cbn [obind].
  rewrite (le_bytes_opt_some 4 (tx_locktime t)) by (rewrite pow256_4; exact Hlt).
  assert (Hins : concat (map (fun l => ser_in (mk_txin (ti_prev (l_in l)) (ti_vout (l_in l))
                    (ti_script (l_in l)) (ti_seq (l_in l)) [])) (map api_in (tx_ins t)))
                 = concat (map ser_in (tx_ins t))).
  { rewrite map_map. f_equal. apply map_ext_in. intros i Hin.
    pose proof (Forall_In _ _ _ Qi Hin) as (Hhp & Hhs & _).
    unfold api_in. cbn [l_in ti_prev ti_vout ti_script ti_seq].
    rewrite lib_prev_id by exact Hhp. rewrite hexlike_false_id by exact Hhs. reflexivity. }
  rewrite Hins.
  destruct (tx_segwit t) eqn:Es.
  - rewrite (oconcat_map lib_raw_wit (fun l => ser_list ser_varbytes (ti_wit (l_in l)))).
    2:{ intros a Ha. apply in_map_iff in Ha. destruct Ha as (i & Hi & Hin). subst a.
        rewrite lib_raw_wit_api; [|exact (Forall_In _ _ _ Hfi Hin)|exact (Forall_In _ _ _ Qi Hin)].
        reflexivity. }
    cbn [obind]. rewrite map_map. unfold spec_ser. rewrite Es. unfold ser_list.
    repeat rewrite <- app_assoc. reflexivity.
  - cbn [obind]. unfold spec_ser. rewrite Es. unfold ser_list.
    repeat rewrite <- app_assoc. reflexivity.
Qed.

Theorem lib_txid_exact_proof t : wf_tx t -> quirk_free t ->
  exists t', lib_parse (spec_ser t) = Some t' /\ l_txid t' = rev (sha256d (spec_ser (strip_witness t))).
Proof.
  intros Hw Hq. destruct (lib_roundtrip_proof t Hw Hq) as (t' & H1 & _ & _ & H4).
  exists t'. split; assumption.
Qed.

Theorem api_bytes_read_back_proof t r : wf_tx t -> quirk_free_api t ->
  lib_raw (api_build t) = Some r -> spec_parse r = Some (t, []).
Proof.
  intros Hw Hq H. rewrite lib_raw_is_spec_proof in H by assumption.
  assert (r = spec_ser t) by congruence. subst r.
  rewrite <- (app_nil_r (spec_ser t)). apply spec_tx_codec_proof. exact Hw.
Qed.
