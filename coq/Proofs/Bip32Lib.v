(* Proofs/Bip32Lib.v — the library's derivation functions against the BIP32 specification on the
   executable secp256k1 / HMAC-SHA512 instance (C03).  Nothing here uses group laws. *)
From Coq Require Import ZArith List Bool Lia.
From Coq.Strings Require Import Byte.
From Verif Require Import Lib.Bytes Crypto.Sha256 Crypto.Sha512 Crypto.Ripemd160 Crypto.Hmac Crypto.Secp256k1
  Crypto.HashLemmas Crypto.Group Model.Bip32 Proofs.Bip32Algebra.
Import ListNotations.
Open Scope Z_scope.

(* ---------------------------------------------------------------- index | 0x80000000 *)

Lemma two31_bits m : Z.testbit two31 m = (m =? 31).
Proof.
  change two31 with (2 ^ 31). destruct (Z.ltb_spec m 0) as [Hn|Hp].
  - rewrite Z.testbit_neg_r by lia. symmetry. apply Z.eqb_neq. lia.
  - rewrite Z.pow2_bits_eqb by lia. apply Z.eqb_sym.
Qed.

Lemma lor_two31_set i : Z.testbit i 31 = true -> Z.lor i two31 = i.
Proof.
  intros H. apply Z.bits_inj. intros m. rewrite Z.lor_spec, two31_bits.
  destruct (Z.eqb_spec m 31) as [->|_]; [rewrite H; reflexivity | apply orb_false_r].
Qed.

Lemma lor_two31_clear i : Z.testbit i 31 = false -> Z.lor i two31 = i + two31.
Proof.
  intros H.
  assert (L : Z.land i two31 = 0).
  { apply Z.bits_inj. intros m. rewrite Z.land_spec, two31_bits, Z.bits_0.
    destruct (Z.eqb_spec m 31) as [->|_]; [rewrite H; reflexivity | apply andb_false_r]. }
  rewrite <- Z.lxor_lor by exact L. symmetry. apply Z.add_nocarry_lxor. exact L.
Qed.

Lemma testbit31_div i : Z.testbit i 31 = Z.odd (i / two31).
Proof. rewrite Z.testbit_odd, Z.shiftr_div_pow2 by lia. reflexivity. Qed.

Lemma lor_two31_low i : 0 <= i < two31 -> Z.lor i two31 = i + two31.
Proof.
  intros H. apply lor_two31_clear. rewrite testbit31_div, Z.div_small by exact H. reflexivity.
Qed.

Lemma lor_two31_high i : two31 <= i < two32 -> Z.lor i two31 = i.
Proof.
  intros H. apply lor_two31_set. rewrite testbit31_div.
  assert (E : i / two31 = 1) by (unfold two31, two32 in *; Z.div_mod_to_equations; lia).
  rewrite E. reflexivity.
Qed.

Lemma lor_two31_ge i : 0 <= i -> two31 <= Z.lor i two31 /\ i <= Z.lor i two31.
Proof.
  intros H. destruct (Z.testbit i 31) eqn:E.
  - rewrite lor_two31_set by exact E. split; [|lia].
    rewrite testbit31_div in E.
    assert (i / two31 <> 0) by (intros E0; rewrite E0 in E; discriminate).
    unfold two31 in *. Z.div_mod_to_equations. lia.
  - rewrite lor_two31_clear by exact E. unfold two31. lia.
Qed.

Lemma lor_two31_neg i : i < 0 -> Z.lor i two31 < 0.
Proof. intros H. apply Z.lor_neg. left. exact H. Qed.

(* the child number child_private writes has the hardened bit exactly when the hardened branch is taken *)
Lemma priv_index_hard i h :
  0 <= lib_priv_index i h -> (two31 <=? lib_priv_index i h) = (h || (two31 <=? i)).
Proof.
  unfold lib_priv_index. destruct (h || (two31 <=? i)) eqn:E; intros H.
  - apply Z.leb_le. destruct (Z.ltb_spec i 0) as [Hn|Hp].
    + pose proof (lor_two31_neg i Hn). lia.
    + apply lor_two31_ge. exact Hp.
  - apply orb_false_iff in E. destruct E as [_ E]. exact E.
Qed.

(* ---------------------------------------------------------------- small facts *)

Lemma skipn32_hmac_nonempty k d : skipn 32 (hmac_sha512 k d) <> [].
Proof.
  intros E. apply (f_equal (@length byte)) in E.
  rewrite skipn_length, hmac_sha512_length in E. discriminate.
Qed.

Lemma skipn32_hmac_length k d : length (skipn 32 (hmac_sha512 k d)) = 32%nat.
Proof. rewrite skipn_length, hmac_sha512_length. reflexivity. Qed.

Lemma hmac_key_id c : c <> [] -> lib_hmac_key c = c.
Proof. destruct c; [contradiction | reflexivity]. Qed.

Lemma secp_p_pos' : 0 < secp_p. Proof. reflexivity. Qed.

Definition pt_in_range (P : point) : Prop :=
  match P with None => True | Some (x, y) => 0 <= x < secp_p /\ 0 <= y < secp_p end.

Lemma mod_p_range a : 0 <= a mod secp_p < secp_p.
Proof. apply Z.mod_pos_bound. exact secp_p_pos'. Qed.

Lemma pt_double_range P : pt_in_range (pt_double P).
Proof.
  destruct P as [[x y]|]; [|exact I]. unfold pt_double.
  destruct (y =? 0); [exact I|]. split; apply mod_p_range.
Qed.

Lemma pt_add_range P Q : pt_in_range P -> pt_in_range Q -> pt_in_range (pt_add P Q).
Proof.
  intros HP HQ. destruct P as [[x1 y1]|]; [|exact HQ]. destruct Q as [[x2 y2]|]; [|exact HP].
  unfold pt_add. destruct (x1 =? x2).
  - destruct ((y1 + y2) mod secp_p =? 0); [exact I | apply pt_double_range].
  - split; apply mod_p_range.
Qed.

Lemma pt_mul_pos_range k P : pt_in_range P -> pt_in_range (pt_mul_pos k P).
Proof.
  intros HP. induction k as [k IH|k IH|]; cbn [pt_mul_pos].
  - apply pt_add_range; [apply pt_double_range | exact HP].
  - apply pt_double_range.
  - exact HP.
Qed.

Lemma pt_neg_range P : pt_in_range P -> pt_in_range (pt_neg P).
Proof.
  destruct P as [[x y]|]; [|trivial]. intros [Hx Hy]. split; [exact Hx | apply mod_p_range].
Qed.

Lemma secp_G_range : pt_in_range secp_G.
Proof. unfold secp_G, pt_in_range, secp_Gx, secp_Gy, secp_p. lia. Qed.

Lemma secp_pub_range k : pt_in_range (secp_pub k).
Proof.
  unfold secp_pub, pt_mul. destruct k; [exact I | apply pt_mul_pos_range, secp_G_range |
    apply pt_neg_range, pt_mul_pos_range, secp_G_range].
Qed.

Lemma fe_point_in_range x y :
  0 <= x < secp_p -> 0 <= y < secp_p -> forall Q, lib_fe_point (Some (x, y)) = Some Q -> Q = (x, y).
Proof.
  intros Hx Hy Q. unfold lib_fe_point. rewrite (Z.mod_small x), (Z.mod_small y) by assumption.
  destruct (_ =? 0); intros E; [congruence | discriminate].
Qed.

Lemma fe_point_none : lib_fe_point None = None.
Proof. vm_compute. reflexivity. Qed.

(* ---------------------------------------------------------------- well-formed keys *)

Definition wf_key (X : lkey) : Prop :=
  lib_chain X <> [] /\ match X with XPub x => pt_in_range (XK x) | XPrv _ => True end.

(* the public part of a key, as the specification sees it *)
Definition pub_part (X : lkey) : spub :=
  match X with XPrv x => s_neuter_prv x | XPub x => x end.

Lemma lib_public_is_neuter X : lib_public X = s_neuter X.
Proof. destruct X; reflexivity. Qed.

Lemma neuter_pub_part X : s_neuter X = XPub (pub_part X).
Proof. destruct X; reflexivity. Qed.

Lemma pub_part_range X : wf_key X -> pt_in_range (XK (pub_part X)).
Proof. destruct X as [x|x]; intros [_ H]; [apply secp_pub_range | exact H]. Qed.

(* one specification step on a key of either kind *)
Definition s_ckd (X : skey) (i : Z) : option skey :=
  match X with
  | XPrv x => option_map XPrv (s_ckd_priv x i)
  | XPub x => option_map XPub (s_ckd_pub x i)
  end.

Lemma s_derive_nil X : s_derive X [] = Some X.
Proof. destruct X; reflexivity. Qed.

Lemma s_derive_cons X i r : s_derive X (i :: r) = obind (s_ckd X i) (fun Y => s_derive Y r).
Proof.
  destruct X as [x|x]; unfold s_derive, spec_derive, s_ckd, s_ckd_priv, s_ckd_pub;
    cbn [spec_derive_priv spec_derive_pub].
  - destruct (spec_ckd_priv _ _ _ _ _ _ _ x i); reflexivity.
  - destruct (spec_ckd_pub _ _ _ _ _ _ _ _ _ x i); reflexivity.
Qed.

(* ---------------------------------------------------------------- child_private = CKDpriv *)

Lemma s_ckd_priv_range x i : i < 0 \/ two32 <= i -> s_ckd_priv x i = None.
Proof.
  intros H. unfold s_ckd_priv, spec_ckd_priv.
  assert (E : (i <? 0) || (two32 <=? i) = true).
  { apply orb_true_iff. destruct H as [H|H]; [left; apply Z.ltb_lt | right; apply Z.leb_le]; exact H. }
  rewrite E. reflexivity.
Qed.

Lemma lib_child_private_is_spec x i h :
  xc x <> [] ->
  lib_child_private (XPrv x) i h = option_map XPrv (s_ckd_priv x (lib_priv_index i h)).
Proof.
  intros Hc. unfold lib_child_private, s_ckd_priv, spec_ckd_priv.
  set (idx := lib_priv_index i h).
  destruct ((idx <? 0) || (two32 <=? idx)) eqn:Er; [reflexivity|].
  apply orb_false_iff in Er. destruct Er as [Er _]. apply Z.ltb_ge in Er.
  pose proof (priv_index_hard i h Er) as Eh. fold idx in Eh. rewrite Eh, (hmac_key_id _ Hc).
  unfold lib_public_byte, lib_point, lib_private_byte, ser256, ser32, parse256, point_of, secp_pub.
  destruct (h || (two31 <=? i));
    (destruct (secp_n <=? _); [reflexivity|]; destruct (_ =? 0); reflexivity).
Qed.

Lemma lib_child_private_public x i h : lib_child_private (XPub x) i h = None.
Proof. reflexivity. Qed.

(* an element of a parsed path: non-negative, and below 2^31 when it carries a marker *)
Definition item_ok (it : Z * bool) : Prop := 0 <= fst it /\ (snd it = true -> fst it < two31).

Lemma priv_index_sem x i m :
  item_ok (i, m) -> s_ckd_priv x (lib_priv_index i m) = s_ckd_priv x (sem_item (i, m)).
Proof.
  intros [H0 Hm]. cbn [fst snd] in *. unfold lib_priv_index, sem_item. cbn [fst snd].
  destruct m; cbn [orb].
  - rewrite lor_two31_low by (split; [exact H0 | apply Hm; reflexivity]). reflexivity.
  - destruct (Z.leb_spec two31 i) as [Hi|Hi]; [|reflexivity].
    destruct (Z.ltb_spec i two32) as [Hl|Hl].
    + rewrite lor_two31_high by lia. reflexivity.
    + rewrite !s_ckd_priv_range; [reflexivity | right; exact Hl |].
      right. pose proof (lor_two31_ge i H0). lia.
Qed.

(* ---------------------------------------------------------------- child_public is sound for CKDpub *)

Lemma lib_child_public_sound X i Y :
  wf_key X -> lib_child_public X i = Some Y ->
  option_map XPub (s_ckd_pub (pub_part X) i) = Some Y /\ wf_key Y.
Proof.
  intros Hwf. pose proof (pub_part_range X Hwf) as Hr. destruct Hwf as [Hc _].
  unfold lib_child_public, s_ckd_pub, spec_ckd_pub.
  destruct (two31 <=? i) eqn:E1; [discriminate|].
  destruct (i <? 0) eqn:E2; [discriminate|]. cbn [orb].
  rewrite (hmac_key_id _ Hc).
  assert (Epb : lib_public_byte X = ser_pub (XK (pub_part X))) by (destruct X; reflexivity).
  assert (Ech : lib_chain X = XC (pub_part X)) by (destruct X; reflexivity).
  assert (Ept : lib_point X = XK (pub_part X)) by (destruct X; reflexivity).
  assert (Emt : lib_meta X = XM (pub_part X)) by (destruct X; reflexivity).
  assert (Efp : lib_fingerprint X = fingerprint_of point ser_pub hash160 (XK (pub_part X))).
  { unfold lib_fingerprint, fingerprint_of. rewrite Epb. reflexivity. }
  rewrite Epb, Ech, Ept, Emt, Efp. unfold ser32, parse256.
  set (I := hmac_sha512 (XC (pub_part X)) (ser_pub (XK (pub_part X)) ++ be_bytes 4 i)).
  destruct (secp_n <=? of_be (firstn 32 I)); [discriminate|].
  destruct (XK (pub_part X)) as [[x y]|] eqn:EK.
  2:{ rewrite fe_point_none. discriminate. }
  destruct Hr as [Hx Hy].
  destruct (lib_fe_point (Some (x, y))) as [Q|] eqn:EQ; [|discriminate].
  apply (fe_point_in_range x y Hx Hy) in EQ. subst Q.
  unfold point_of. fold (secp_pub (of_be (firstn 32 I))).
  pose proof (pt_add_range (secp_pub (of_be (firstn 32 I))) (Some (x, y)) (secp_pub_range _) (conj Hx Hy)) as Ha.
  destruct (pt_add (secp_pub (of_be (firstn 32 I))) (Some (x, y))) as [[kx ky]|] eqn:Es.
  - destruct ((kx =? 0) && (ky =? 0)); [discriminate|].
    intros E. assert (EY : Y = XPub {| XK := Some (kx, ky); XC := skipn 32 I;
        XM := {| m_depth := m_depth (XM (pub_part X)) + 1;
                 m_pfp := fingerprint_of point ser_pub hash160 (Some (x, y)); m_index := i |} |}) by congruence.
    subst Y. cbn [pt_is_zero option_map]. split; [reflexivity|].
    split; [apply skipn32_hmac_nonempty | exact Ha].
  - cbn [andb Z.eqb]. discriminate.
Qed.

(* child_public never returns private material *)
Lemma lib_child_public_is_public X i Y : lib_child_public X i = Some Y -> lib_is_private Y = false.
Proof.
  unfold lib_child_public.
  destruct (two31 <=? i); [discriminate|]. destruct (i <? 0); [discriminate|].
  destruct (secp_n <=? _); [discriminate|].
  destruct (lib_fe_point _); [|discriminate].
  destruct (pt_add _ _) as [[kx ky]|]; (destruct (_ && _); [discriminate|]); intros E;
    match type of E with Some ?r = Some _ => assert (EY : Y = r) by congruence end;
    rewrite EY; reflexivity.
Qed.

Lemma lib_child_public_hardened X i : two31 <= i -> lib_child_public X i = None.
Proof. intros H. unfold lib_child_public. apply Z.leb_le in H. rewrite H. reflexivity. Qed.

(* ---------------------------------------------------------------- the loop of subkey_for_path *)

Lemma lib_step_sound fp X it Y :
  wf_key X -> item_ok it -> lib_step fp X it = Some Y ->
  s_ckd (if fp then s_neuter X else X) (sem_item it) = Some Y /\ wf_key Y.
Proof.
  intros Hwf Hok. destruct it as [i m]. unfold lib_step.
  destruct (fp || negb (lib_is_private X)) eqn:Eb.
  - destruct m; [discriminate|]. intros E.
    destruct (lib_child_public_sound X i Y Hwf E) as [Hs HY]. split; [|exact HY].
    assert (EX : (if fp then s_neuter X else X) = XPub (pub_part X)).
    { destruct fp; [apply neuter_pub_part|]. destruct X; [discriminate | reflexivity]. }
    rewrite EX. exact Hs.
  - apply orb_false_iff in Eb. destruct Eb as [-> Eb]. destruct X as [x|x]; [|discriminate].
    destruct Hwf as [Hc _]. cbn [lib_chain] in Hc.
    rewrite (lib_child_private_is_spec x i m Hc), (priv_index_sem x i m Hok).
    unfold s_ckd. intros E. split; [exact E|].
    destruct (s_ckd_priv x (sem_item (i, m))) as [y|] eqn:Ey; [|discriminate].
    cbn [option_map] in E. assert (Y = XPrv y) by congruence. subst Y.
    split; [|exact I]. cbn [lib_chain].
    unfold s_ckd_priv, spec_ckd_priv in Ey.
    destruct (_ || _); [discriminate|]. destruct (secp_n <=? _); [discriminate|].
    destruct (_ =? 0); [discriminate|]. match type of Ey with Some ?r = Some _ => assert (E' : y = r) by congruence end.
    rewrite E'. cbn [xc]. apply skipn32_hmac_nonempty.
Qed.

Lemma lib_walk_sound items : forall X Y,
  wf_key X -> Forall item_ok items -> lib_walk false X items = Some Y ->
  s_derive X (map sem_item items) = Some Y.
Proof.
  induction items as [|it r IH]; intros X Y Hwf Hok.
  - cbn [lib_walk map]. intros E. rewrite s_derive_nil. exact E.
  - inversion Hok as [|? ? Hit Hr]; subst. cbn [lib_walk map]. rewrite s_derive_cons.
    destruct (lib_step false X it) as [Z|] eqn:Es; [|discriminate]. cbn [obind].
    destruct (lib_step_sound false X it Z Hwf Hit Es) as [Hs HZ]. rewrite Hs. cbn [obind].
    apply IH; assumption.
Qed.

Lemma lib_walk_sound_fp fp items : forall X Y,
  wf_key X -> Forall item_ok items -> items <> [] -> lib_walk fp X items = Some Y ->
  s_derive (if fp then s_neuter X else X) (map sem_item items) = Some Y.
Proof.
  destruct items as [|it r]; intros X Y Hwf Hok Hne; [contradiction|].
  inversion Hok as [|? ? Hit Hr]; subst. cbn [lib_walk map]. rewrite s_derive_cons.
  destruct (lib_step fp X it) as [Z|] eqn:Es; [|discriminate]. cbn [obind].
  destruct (lib_step_sound fp X it Z Hwf Hit Es) as [Hs HZ]. rewrite Hs. cbn [obind].
  apply lib_walk_sound; assumption.
Qed.

(* private walk: exact agreement, failures included *)
Lemma lib_walk_private_exact items : forall x,
  xc x <> [] -> Forall item_ok items ->
  lib_walk false (XPrv x) items = s_derive (XPrv x) (map sem_item items).
Proof.
  induction items as [|it r IH]; intros x Hc Hok.
  - reflexivity.
  - inversion Hok as [|? ? Hit Hr]; subst. cbn [lib_walk map]. rewrite s_derive_cons.
    destruct it as [i m]. unfold lib_step. cbn [lib_is_private negb orb].
    rewrite (lib_child_private_is_spec x i m Hc), (priv_index_sem x i m Hit). unfold s_ckd.
    destruct (s_ckd_priv x (sem_item (i, m))) as [y|] eqn:Ey; cbn [option_map obind]; [|reflexivity].
    apply IH; [|exact Hr].
    unfold s_ckd_priv, spec_ckd_priv in Ey.
    destruct (_ || _); [discriminate|]. destruct (secp_n <=? _); [discriminate|].
    destruct (_ =? 0); [discriminate|]. match type of Ey with Some ?r = Some _ => assert (E' : y = r) by congruence end.
    rewrite E'. cbn [xc]. apply skipn32_hmac_nonempty.
Qed.

(* ---------------------------------------------------------------- path parsing *)

Lemma is_marker_iff b :
  is_marker b = true <-> b = x27 \/ b = x48 \/ b = x68 \/ b = x50 \/ b = x70.
Proof.
  unfold is_marker. rewrite !orb_true_iff, !beq_true. tauto.
Qed.

Lemma lib_parse_item_inv item v hd :
  lib_parse_item item = Some (v, hd) ->
  exists body lastb, item = body ++ [lastb] /\ hd = is_marker lastb /\
    py_int (if hd then body else item) = Some v /\ item_ok (v, hd).
Proof.
  unfold lib_parse_item. destruct (rev item) as [|lastb rinit] eqn:Er; [discriminate|]. cbv zeta.
  assert (Ei : item = rev rinit ++ [lastb]).
  { rewrite <- (rev_involutive item), Er. reflexivity. }
  match goal with |- context [py_int ?b] => destruct (py_int b) as [index|] eqn:Ep end; [|discriminate].
  destruct (index <? 0) eqn:E0; [discriminate|].
  destruct (is_marker lastb && (two31 <=? index)) eqn:E1; [discriminate|].
  intros E. assert (index = v /\ is_marker lastb = hd) as [-> <-] by (split; congruence).
  exists (rev rinit), lastb. split; [exact Ei|]. split; [reflexivity|]. split; [exact Ep|].
  apply Z.ltb_ge in E0. split; cbn [fst snd]; [exact E0|].
  intros Hm. rewrite Hm in E1. cbn [andb] in E1. apply Z.leb_gt in E1. exact E1.
Qed.

Lemma lib_parse_item_ok item it : lib_parse_item item = Some it -> item_ok it.
Proof.
  destruct it as [v hd]. intros H. apply lib_parse_item_inv in H.
  destruct H as (_ & _ & _ & _ & _ & H). exact H.
Qed.

(* the result depends on the last byte only through is_marker: the five spellings are interchangeable *)
Lemma lib_parse_item_marked body b :
  is_marker b = true ->
  lib_parse_item (body ++ [b]) =
    match py_int body with
    | Some v => if (v <? 0) || (two31 <=? v) then None else Some (v, true)
    | None => None
    end.
Proof.
  intros Hm. unfold lib_parse_item. rewrite rev_app_distr. cbn [rev app]. rewrite Hm, rev_involutive.
  destruct (py_int body) as [v|]; [|reflexivity].
  destruct (v <? 0); [reflexivity|]. cbn [andb orb]. reflexivity.
Qed.

Lemma lib_parse_item_unmarked body b :
  is_marker b = false ->
  lib_parse_item (body ++ [b]) =
    match py_int (body ++ [b]) with
    | Some v => if v <? 0 then None else Some (v, false)
    | None => None
    end.
Proof.
  intros Hm. unfold lib_parse_item. rewrite rev_app_distr. cbn [rev app]. rewrite Hm.
  destruct (py_int (body ++ [b])) as [v|]; [|reflexivity].
  destruct (v <? 0); reflexivity.
Qed.

Lemma map_opt_ok {A B} (f : A -> option B) (P : B -> Prop) :
  (forall a b, f a = Some b -> P b) -> forall l r, map_opt f l = Some r -> Forall P r.
Proof.
  intros Hf. induction l as [|a l IH]; intros r; cbn [map_opt].
  - intros E. assert (r = []) by congruence. subst. constructor.
  - destruct (f a) as [b|] eqn:Ea; [|discriminate].
    destruct (map_opt f l) as [t|]; [|discriminate].
    intros E. assert (r = b :: t) by congruence. subst. constructor; [eapply Hf; exact Ea | apply IH; reflexivity].
Qed.

Lemma lib_parse_path_ok path fp items :
  lib_parse_path path = Some (fp, items) -> Forall item_ok items.
Proof.
  unfold lib_parse_path. destruct (split_slash path []) as [|h t]; [discriminate|].
  destruct (if bytes_eqb h [x6d] then (false, t) else if bytes_eqb h [x4d] then (true, t) else (false, h :: t))
    as [fp' its].
  destruct (map_opt lib_parse_item its) as [r|] eqn:Em; [|discriminate].
  cbn [option_map]. intros E. assert (r = items) by congruence. subst.
  eapply map_opt_ok; [|exact Em]. intros a b. apply lib_parse_item_ok.
Qed.

(* ---------------------------------------------------------------- subkey_for_path *)

Lemma lib_is_spec_sound X path Y :
  wf_key X -> lib_subkey_for_path X path = Some Y ->
  exists pp, lib_parse_path path = Some pp /\ s_subkey X (sem pp) = Some Y.
Proof.
  intros Hwf. unfold lib_subkey_for_path.
  destruct (lib_parse_path path) as [[fp items]|] eqn:Ep; [|discriminate].
  pose proof (lib_parse_path_ok path fp items Ep) as Hok.
  intros E. exists (fp, items). split; [reflexivity|].
  unfold s_subkey, spec_subkey, sem. cbn [fst snd].
  change (spec_derive point pt_add pt_mul secp_G secp_n pt_is_zero ser_pub hmac_sha512 hash160) with s_derive.
  change (neuter point pt_mul secp_G) with s_neuter.
  destruct items as [|it r].
  - cbn [lib_walk map] in *. rewrite s_derive_nil. rewrite <- E. f_equal.
    destruct fp; cbn [andb]; [|reflexivity].
    destruct X as [x|x]; cbn [lib_is_private]; [symmetry; apply lib_public_is_neuter | reflexivity].
  - apply lib_walk_sound_fp; [exact Hwf | exact Hok | discriminate | exact E].
Qed.

Lemma lib_is_spec_private x path items :
  xc x <> [] -> lib_parse_path path = Some (false, items) ->
  lib_subkey_for_path (XPrv x) path = s_subkey (XPrv x) (sem (false, items)).
Proof.
  intros Hc Ep. unfold lib_subkey_for_path. rewrite Ep.
  pose proof (lib_parse_path_ok path false items Ep) as Hok.
  unfold s_subkey, spec_subkey, sem. cbn [fst snd andb].
  change (spec_derive point pt_add pt_mul secp_G secp_n pt_is_zero ser_pub hmac_sha512 hash160) with s_derive.
  match goal with |- lib_walk false ?k items = _ => replace k with (@XPrv point x) by (destruct items; reflexivity) end.
  apply lib_walk_private_exact; assumption.
Qed.

(* a bare "M" is the public key, a bare "m" the key itself *)
Lemma lib_bare_M X : lib_subkey_for_path X [x4d] = Some (s_neuter X).
Proof. destruct X; reflexivity. Qed.
Lemma lib_bare_m X : lib_subkey_for_path X [x6d] = Some X.
Proof. destruct X; reflexivity. Qed.

(* ---------------------------------------------------------------- hardened from public fails *)

Definition item_hardened (it : Z * bool) : Prop := snd it = true \/ two31 <= fst it.

Lemma sem_item_hardened it : two31 <= sem_item it -> item_hardened it.
Proof.
  destruct it as [i m]. unfold sem_item, item_hardened. cbn [fst snd].
  destruct m; [left; reflexivity | right; assumption].
Qed.

Lemma lib_walk_public_hardened items : forall fp X,
  fp = true \/ lib_is_private X = false ->
  Exists item_hardened items -> lib_walk fp X items = None.
Proof.
  induction items as [|it r IH]; intros fp X Hp Hex; [inversion Hex|].
  cbn [lib_walk]. destruct it as [i m].
  assert (Eb : fp || negb (lib_is_private X) = true).
  { destruct Hp as [->| ->]; [reflexivity | apply orb_true_r]. }
  unfold lib_step. rewrite Eb.
  inversion Hex as [? ? Hh|? ? Hr]; subst.
  - destruct Hh as [Hm|Hi]; cbn [fst snd] in *.
    + subst m. reflexivity.
    + destruct m; [reflexivity|]. rewrite lib_child_public_hardened by exact Hi. reflexivity.
  - destruct m; [reflexivity|].
    destruct (lib_child_public X i) as [Z|] eqn:Ec; [|reflexivity]. cbn [obind].
    apply IH; [|exact Hr]. right. eapply lib_child_public_is_public. exact Ec.
Qed.

Lemma hardened_from_public_fails X path pp :
  lib_parse_path path = Some pp ->
  fst pp = true \/ lib_is_private X = false ->
  Exists (fun i => two31 <= i) (snd (sem pp)) ->
  lib_subkey_for_path X path = None.
Proof.
  destruct pp as [fp items]. cbn [fst snd sem]. intros Ep Hp Hex.
  unfold lib_subkey_for_path. rewrite Ep.
  assert (Hex' : Exists item_hardened items).
  { apply Exists_exists in Hex. destruct Hex as (i & Hin & Hi). apply in_map_iff in Hin.
    destruct Hin as (it & <- & Hin). apply Exists_exists. exists it. split; [exact Hin|].
    apply sem_item_hardened. exact Hi. }
  destruct items as [|it r]; [inversion Hex'|].
  apply lib_walk_public_hardened; assumption.
Qed.

(* ---------------------------------------------------------------- metadata *)

Lemma ckd_priv_metadata x i y :
  s_ckd_priv x i = Some y ->
  0 <= i < two32 /\
  m_depth (xm y) = m_depth (xm x) + 1 /\ m_index (xm y) = i /\
  m_pfp (xm y) = firstn 4 (hash160 (ser_pub (secp_pub (xk x)))) /\
  (exists data, xc y = skipn 32 (hmac_sha512 (xc x) data) /\
     data = (if two31 <=? i then x00 :: be_bytes 32 (xk x) else ser_pub (secp_pub (xk x))) ++ be_bytes 4 i) /\
  length (xc y) = 32%nat /\ 1 <= xk y < secp_n.
Proof.
  unfold s_ckd_priv, spec_ckd_priv.
  destruct ((i <? 0) || (two32 <=? i)) eqn:Er; [discriminate|].
  apply orb_false_iff in Er. destruct Er as [E1 E2]. apply Z.ltb_ge in E1. apply Z.leb_gt in E2.
  set (P := point_of point pt_mul secp_G (xk x)).
  set (data := if two31 <=? i then x00 :: ser256 (xk x) ++ ser32 i else ser_pub P ++ ser32 i).
  destruct (secp_n <=? _); [discriminate|].
  destruct (_ =? 0) eqn:Ez; [discriminate|].
  intros E. match type of E with Some ?r = Some _ => assert (E' : y = r) by congruence end. rewrite E'. cbn [xk xc xm m_depth m_index m_pfp child_meta].
  split; [lia|]. split; [reflexivity|]. split; [reflexivity|]. split; [reflexivity|].
  split.
  { exists data. split; [reflexivity|]. unfold data, ser256, ser32, P, point_of, secp_pub.
    destruct (two31 <=? i); [reflexivity|]. reflexivity. }
  split; [apply skipn32_hmac_length|].
  apply Z.eqb_neq in Ez.
  match goal with |- 1 <= ?a mod secp_n < secp_n => pose proof (Z.mod_pos_bound a secp_n ltac:(reflexivity)) end.
  lia.
Qed.

Lemma ckd_pub_metadata (x y : spub) i :
  s_ckd_pub x i = Some y ->
  0 <= i < two31 /\
  m_depth (XM y) = m_depth (XM x) + 1 /\ m_index (XM y) = i /\
  m_pfp (XM y) = firstn 4 (hash160 (ser_pub (XK x))) /\
  XC y = skipn 32 (hmac_sha512 (XC x) (ser_pub (XK x) ++ be_bytes 4 i)) /\
  length (XC y) = 32%nat /\ XK y <> None.
Proof.
  unfold s_ckd_pub, spec_ckd_pub.
  destruct ((i <? 0) || (two31 <=? i)) eqn:Er; [discriminate|].
  apply orb_false_iff in Er. destruct Er as [E1 E2]. apply Z.ltb_ge in E1. apply Z.leb_gt in E2.
  destruct (secp_n <=? _); [discriminate|].
  destruct (pt_is_zero _) eqn:Ez; [discriminate|].
  intros E. match type of E with Some ?r = Some _ => assert (E' : y = r) by congruence end. rewrite E'. cbn [XK XC XM m_depth m_index m_pfp child_meta].
  split; [lia|]. split; [reflexivity|]. split; [reflexivity|]. split; [reflexivity|].
  split; [reflexivity|]. split; [apply skipn32_hmac_length|].
  intros En. rewrite En in Ez. discriminate.
Qed.

(* the same for what the library returns *)
Lemma lib_child_private_metadata x i h Y :
  xc x <> [] -> lib_child_private (XPrv x) i h = Some Y ->
  exists y, Y = XPrv y /\
    m_depth (xm y) = m_depth (xm x) + 1 /\
    m_index (xm y) = lib_priv_index i h /\ 0 <= m_index (xm y) < two32 /\
    ((two31 <=? m_index (xm y)) = h || (two31 <=? i)) /\
    m_pfp (xm y) = lib_fingerprint (XPrv x) /\ length (xc y) = 32%nat /\ 1 <= xk y < secp_n.
Proof.
  intros Hc. rewrite (lib_child_private_is_spec x i h Hc).
  destruct (s_ckd_priv x (lib_priv_index i h)) as [y|] eqn:Ey; [|discriminate].
  cbn [option_map]. intros E. exists y. split; [congruence|].
  destruct (ckd_priv_metadata x _ y Ey) as (Hi & Hd & Hx & Hf & _ & Hl & Hk).
  split; [exact Hd|]. split; [exact Hx|]. rewrite Hx. split; [exact Hi|].
  split; [apply priv_index_hard; lia|]. split; [exact Hf|]. split; assumption.
Qed.

(* ---------------------------------------------------------------- master key *)

Lemma lib_from_seed_is_spec S : lib_from_seed S = option_map XPrv (s_master S).
Proof.
  unfold lib_from_seed, s_master, spec_master, parse256.
  destruct ((of_be (firstn 32 (hmac_sha512 bitcoin_seed S)) =? 0) || (secp_n <=? _)); reflexivity.
Qed.

Lemma master_range S X :
  lib_from_seed S = Some X ->
  exists x, X = XPrv x /\ 1 <= xk x < secp_n /\ length (xc x) = 32%nat /\
    xm x = {| m_depth := 0; m_pfp := zero_fp; m_index := 0 |}.
Proof.
  unfold lib_from_seed.
  set (I := hmac_sha512 bitcoin_seed S).
  destruct ((of_be (firstn 32 I) =? 0) || (secp_n <=? of_be (firstn 32 I))) eqn:E; [discriminate|].
  apply orb_false_iff in E. destruct E as [E0 En]. apply Z.eqb_neq in E0. apply Z.leb_gt in En.
  intros EX. eexists. split; [match type of EX with Some ?r = Some _ => assert (EY : X = r) by congruence end; exact EY|]. cbn [xk xc xm].
  pose proof (of_be_range (firstn 32 I)).
  split; [lia|]. split; [apply skipn32_hmac_length | reflexivity].
Qed.

(* ---------------------------------------------------------------- export = Base58Check of the BIP32 serialization *)

Definition b58check_111 (raw : bytes) : bytes := b58_encode_min (raw ++ firstn 4 (sha256d raw)) 111.

Lemma lib_wif_private_is_spec v x :
  lib_wif v true (XPrv x) = option_map b58check_111 (s_ser_prv v x).
Proof.
  unfold lib_wif, s_ser_prv, spec_ser_prv, spec_ser_meta. cbn [lib_meta lib_chain].
  destruct (_ || _); [reflexivity|]. cbn [option_map]. unfold b58check_111, lib_private_byte, ser256, ser32.
  rewrite <- !app_assoc. reflexivity.
Qed.

Lemma lib_wif_public_is_spec v a X :
  (a = false \/ lib_is_private X = false) ->
  lib_wif v a X = option_map b58check_111 (s_ser_pub v (pub_part X)).
Proof.
  intros Ha. unfold lib_wif, s_ser_pub, spec_ser_pub, spec_ser_meta.
  assert (Emt : lib_meta X = XM (pub_part X)) by (destruct X; reflexivity).
  assert (Ech : lib_chain X = XC (pub_part X)) by (destruct X; reflexivity).
  assert (Epb : lib_public_byte X = ser_pub (XK (pub_part X))) by (destruct X; reflexivity).
  assert (Ek : match X with
               | XPrv x => if a then x00 :: lib_private_byte x else lib_public_byte X
               | XPub _ => lib_public_byte X end = ser_pub (XK (pub_part X))).
  { rewrite <- Epb. destruct X as [x|x]; [|reflexivity]. destruct Ha as [->|Hp]; [reflexivity | discriminate]. }
  rewrite Ek, Emt, Ech.
  destruct (_ || _); [reflexivity|]. cbn [option_map]. unfold b58check_111, ser32.
  rewrite <- !app_assoc. reflexivity.
Qed.

(* ---------------------------------------------------------------- the abstract theorems at the secp256k1 instance *)

Lemma pt_is_zero_spec (P : point) : pt_is_zero P = true <-> P = None.
Proof. destruct P; split; intros H; try reflexivity; discriminate. Qed.

Lemma ckd_commute_secp :
  group_laws pt_add None pt_neg pt_mul secp_G secp_n ->
  forall (x : xprv) (i : Z), 0 <= i < two31 ->
    option_map s_neuter_prv (s_ckd_priv x i) = s_ckd_pub (s_neuter_prv x) i.
Proof.
  intros GL x i Hi.
  exact (ckd_commute point pt_add None pt_neg pt_mul secp_G secp_n pt_is_zero ser_pub hmac_sha512 hash160
           GL pt_is_zero_spec x i Hi).
Qed.

Lemma path_split_secp :
  group_laws pt_add None pt_neg pt_mul secp_G secp_n ->
  forall (x : xprv) (l1 l2 : list Z), Forall (fun i => 0 <= i < two31) l2 ->
    option_map s_neuter_prv (s_derive_priv x (l1 ++ l2)) =
    obind (s_derive_priv x l1) (fun y => s_derive_pub (s_neuter_prv y) l2).
Proof.
  intros GL x l1 l2 Hl.
  exact (path_split point pt_add None pt_neg pt_mul secp_G secp_n pt_is_zero ser_pub hmac_sha512 hash160
           GL pt_is_zero_spec x l1 l2 Hl).
Qed.

(* end to end, for the library itself (premise: the group laws of the executable curve): whenever a
   non-hardened path is derived both from a private key and from its public() version, the public
   part of the first result is the second result *)
Lemma lib_public_private_agree :
  group_laws pt_add None pt_neg pt_mul secp_G secp_n ->
  forall x path items Y1 Y2,
    xc x <> [] ->
    lib_parse_path path = Some (false, items) ->
    Forall (fun i => 0 <= i < two31) (snd (sem (false, items))) ->
    lib_subkey_for_path (XPrv x) path = Some Y1 ->
    lib_subkey_for_path (lib_public (XPrv x)) path = Some Y2 ->
    lib_public Y1 = Y2.
Proof.
  intros GL x path items Y1 Y2 Hc Ep Hl E1 E2.
  rewrite (lib_is_spec_private x path items Hc Ep) in E1.
  assert (Hwf : wf_key (lib_public (XPrv x))).
  { split; [exact Hc | apply secp_pub_range]. }
  destruct (lib_is_spec_sound _ path Y2 Hwf E2) as (pp & Epp & E2').
  assert (pp = (false, items)) by congruence. subst pp.
  unfold s_subkey, spec_subkey in E1, E2'. cbn [fst snd sem] in *.
  set (l := map sem_item items) in *.
  change (spec_derive point pt_add pt_mul secp_G secp_n pt_is_zero ser_pub hmac_sha512 hash160) with s_derive in *.
  unfold s_derive, spec_derive in E1, E2'. cbn [lib_public] in E2'.
  fold (s_derive_priv x l) in E1.
  change (spec_derive_pub point pt_add pt_mul secp_G secp_n pt_is_zero ser_pub hmac_sha512 hash160)
    with s_derive_pub in E2'.
  pose proof (path_split_secp GL x [] l Hl) as Hs. cbn [app s_derive_priv spec_derive_priv obind] in Hs.
  destruct (s_derive_priv x l) as [y1|]; [|discriminate]. cbn [option_map] in E1, Hs.
  assert (Y1 = XPrv y1) by congruence. subst Y1.
  change ({| XK := secp_pub (xk x); XC := xc x; XM := xm x |}) with (s_neuter_prv x) in E2'.
  rewrite <- Hs in E2'. cbn [option_map] in E2'.
  assert (Y2 = XPub (s_neuter_prv y1)) by congruence. subst Y2. reflexivity.
Qed.
