(* Proofs/EvalRefute.v — table consistency (finite checks over the regenerated tables), the safety statement
   and the concrete oracle instances used by the refutation witnesses of Properties/C19.v. *)
From Coq Require Import ZArith List Bool Lia.
From Coq.Strings Require Import Byte.
From Verif Require Import Lib.Bytes Gen.GenConsts Model.Wire Model.EvalLib Model.EvalCore
  Proofs.ScriptNum Proofs.EvalNum Proofs.EvalOps Proofs.EvalRun.
Import ListNotations.
Open Scope Z_scope.

(* trivial oracle instances for closed witnesses (no witness below depends on a hash or signature value) *)
Definition idh (x : bytes) : bytes := x.
Definition nosig (_ _ : bytes) : sigres := SigRaise.
Definition env0 : env := mkEnv (Some [x51]) (Some 4294967294) (Some 100) (Some 2).

Definition lib_op0 := lib_op idh idh idh nosig env0.
Definition core_op0 := core_op idh idh idh nosig env0 consensus_flags.
Definition lib_eval0 := lib_eval idh idh idh nosig env0.
Definition core_eval0 := core_eval idh idh idh nosig env0 consensus_flags.

(* ---------- the name-based dispatch of the library lands on the opcode Core assigns to that number ---------- *)

Lemma zassoc_in {A} n (l : list (Z * A)) v : zassoc n l = Some v -> In n (map fst l).
Proof.
  induction l as [|[k w] l IH]; [discriminate|]. cbn. destruct (n =? k) eqn:E.
  - apply Z.eqb_eq in E. subst. auto.
  - intros H. right. apply IH. exact H.
Qed.

Definition kind_check (n : Z) : bool :=
  match lib_dispatch n with
  | DKind k => match zassoc n core_kinds with Some k' => opk_eqb k k' | None => false end
  | _ => true
  end.

Lemma kind_check_all : forallb kind_check (map fst opcode_names) = true.
Proof. vm_compute. reflexivity. Qed.

Lemma dispatch_is_core_opcode n k : lib_dispatch n = DKind k -> zassoc n core_kinds = Some k.
Proof.
  intros H. assert (I : In n (map fst opcode_names)).
  { unfold lib_dispatch in H. destruct (zassoc n opcode_names) eqn:E; [|discriminate].
    eapply zassoc_in. exact E. }
  pose proof kind_check_all as A. rewrite forallb_forall in A. specialize (A n I).
  unfold kind_check in A. rewrite H in A. destruct (zassoc n core_kinds) as [k'|]; [|discriminate].
  apply opk_eqb_true in A. congruence.
Qed.

(* every opcode the source can dispatch (GenConsts.dispatchable_opcodes) has a body in the model *)
Definition modelled (n : Z) : bool :=
  match lib_dispatch n with DKind _ => true | _ => (n =? op_if) || (n =? op_notif) end.
Lemma dispatchable_all_modelled : forallb modelled dispatchable_opcodes = true.
Proof. vm_compute. reflexivity. Qed.

(* ... and nothing else is dispatched *)
Fixpoint zrange (lo : Z) (n : nat) : list Z := match n with O => [] | S k => lo :: zrange (lo + 1) k end.
Lemma dispatch_only_dispatchable :
  forallb (fun n => match lib_dispatch n with
                    | DKind _ => existsb (Z.eqb n) dispatchable_opcodes
                    | _ => true end) (zrange 0 256) = true.
Proof. vm_compute. reflexivity. Qed.

(* ---------- the safety half ---------- *)

Definition never_valid_when_core_rejects_statement : Prop :=
  forall h_ripemd160 h_sha1 h_sha256 sigcheck e cmds,
    r_verdict (lib_eval h_ripemd160 h_sha1 h_sha256 sigcheck e cmds) = Valid ->
    fst (core_eval h_ripemd160 h_sha1 h_sha256 sigcheck e consensus_flags cmds) = Valid.

Lemma never_valid_when_core_rejects_straight
  h_ripemd160 h_sha1 h_sha256 sigcheck e fl cmds :
  (forall x, good (h_ripemd160 x)) -> (forall x, good (h_sha1 x)) -> (forall x, good (h_sha256 x)) ->
  straight cmds = true ->
  r_verdict (lib_eval h_ripemd160 h_sha1 h_sha256 sigcheck e cmds) = Valid ->
  fst (core_eval h_ripemd160 h_sha1 h_sha256 sigcheck e fl cmds) = Valid.
Proof.
  intros H1 H2 H3 S V.
  pose proof (agree_straightline_eval h_ripemd160 h_sha1 h_sha256 sigcheck e fl H1 H2 H3 cmds S) as A.
  unfold agree in A. rewrite V in A.
  destruct (fst (core_eval h_ripemd160 h_sha1 h_sha256 sigcheck e fl cmds)); try contradiction. reflexivity.
Qed.

Lemma never_valid_refuted_by (cmds : list scmd) :
  r_verdict (lib_eval0 cmds) = Valid -> fst (core_eval0 cmds) <> Valid ->
  ~ never_valid_when_core_rejects_statement.
Proof. intros V C S. apply C. apply (S idh idh idh nosig env0 cmds). exact V. Qed.
